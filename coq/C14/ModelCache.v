(* C14/ModelCache.v — token/tokencache/cache.go with TIME, as an interleaving machine, and an independent sequential
   specification of a timed key cache.

   Cache.GetKey holds c.mu for the whole call (srcgen: c.mu.Lock() is statement 0, defer c.mu.Unlock() statement 1, one
   Lock and one Unlock call), but it reads the clock twice — once for the freshness test, once for the expiry it stores —
   and the token is consulted in between. The clock is not protected by the mutex, so clock advances interleave with the
   steps of the call even though no other GetKey on the same cache can. A thread therefore moves through

     CNew -invoke-> CWait -Lock-> CLocked -lookup+Now-> (hit: CRet | miss: CMiss) -Token.GetKey-> CFetched
          -Now+store-> CRet -deferred Unlock, return-> CDone

   and the schedule interleaves thread steps with clock ticks. Every comparison, the stored expiry and the statement
   skeleton are definitions generated from the Go source (Generated/C14_gen.v). *)
From Relic Require Import Base.Prelude Generated.C14_gen C14.Model.

Record key := mkKey { k_name : Z; k_id : Z }.
Record entry := mkEnt { e_name : Z; e_key : key; e_exp : Z }.
Definition cache := list entry.                     (* newest binding first = Go map overwrite *)
Fixpoint clookup (n : Z) (c : cache) : option entry :=
  match c with [] => None | e :: r => if e_name e =? n then Some e else clookup n r end.

(* the token: name -> requested key id (0: none) -> key, or an error *)
Definition tokenT := Z -> Z -> option key.
Record creq := mkCReq { c_name : Z; c_pin : Z }.
Definition want_len (rq : creq) : Z := if c_pin rq =? 0 then 0 else 1.      (* len(wantKeyID) *)
Definition dummy_key : key := mkKey (-1) (-1).

(* statement skeleton of GetKey, from the generated positions *)
Definition cache_lock_spans_call : bool :=
  (cache_pos_lock =? 0) && (cache_pos_defer_unlock =? 1) && (cache_unlock_calls =? 1) && (cache_lock_calls =? 1) && cache_unlock_deferred &&
  cache_struct_plain && cache_entry_plain.       (* ... and there is no table of in-flight lookups to join *)
Definition cache_err_checked : bool :=
  (cache_pos_lookup <? cache_pos_check) && (cache_pos_check <? cache_pos_fetch) && (cache_pos_errcheck =? cache_pos_fetch + 1) &&
  (cache_pos_errcheck <? cache_pos_store) && (cache_pos_store <? cache_pos_return).
Definition cache_names_ok : bool :=
  cache_indexed_by_request_name && cache_fetches_request_name && cache_stores_fetched_key && cache_hit_returns_cached && cache_new_keeps_expiry.
(* the map key / token argument the code uses for a request (the request's own name iff the generated facts say so) *)
Definition used_name (rq : creq) : Z := if cache_names_ok then c_name rq else -1.

Inductive cpc := CNew | CWait | CLocked | CMiss | CFetched (k : key) | CRet (r : option key) | CDone (r : option key).
(* per thread: program counter, whether the token was consulted, stamps (schedule positions) of invocation and response *)
Record cthr := mkThr { t_pc : cpc; t_fetched : bool; t_inv : option nat; t_res : option nat }.
(* linearization record: schedule position, thread, clock value, whether the token answered *)
Record linrec := mkLin { l_stamp : nat; l_thread : nat; l_time : Z; l_ok : bool }.
Record cstate := mkCS { cs_now : Z; cs_lock : option nat; cs_cache : cache; cs_thr : list cthr; cs_step : nat; cs_lin : list linrec }.

Inductive cev := CStep (i : nat) (fetch_ok : bool) | CTick (d : Z).

Definition set_thr (s : cstate) (i : nat) (t : cthr) : cstate :=
  mkCS (cs_now s) (cs_lock s) (cs_cache s) (update (cs_thr s) i t) (cs_step s) (cs_lin s).
Definition with_pc (t : cthr) (p : cpc) : cthr := mkThr p (t_fetched t) (t_inv t) (t_res t).
Definition add_lin (s : cstate) (i : nat) (ok : bool) : cstate :=
  mkCS (cs_now s) (cs_lock s) (cs_cache s) (cs_thr s) (cs_step s) (mkLin (cs_step s) i (cs_now s) ok :: cs_lin s).

(* the decisions of GetKey, assembled from the generated conditions *)
Inductive check_result := Hit (k : key) | Miss.
Definition check_cache (rq : creq) (c : cache) (now : Z) : check_result :=
  let '(has, exp, k) := match clookup (used_name rq) c with
                        | Some e => (true, e_exp e, e_key e) | None => (false, 0, dummy_key) end in
  if cache_entry_live has exp now then
    if cache_id_acceptable (want_len rq) (c_pin rq =? k_id k) then Hit k else Miss
  else Miss.
Inductive fetch_result := Fetched (k : key) | FetchErr.
Definition fetch_key (tok : tokenT) (rq : creq) (fok : bool) : fetch_result :=
  match (if fok then tok (used_name rq) (c_pin rq) else None) with
  | Some k => Fetched k
  | None => if cache_err_checked then FetchErr else Fetched dummy_key
  end.
Definition store_cache (E : Z) (rq : creq) (k : key) (c : cache) (now : Z) : cache :=
  if cache_may_store E (want_len rq) then mkEnt (used_name rq) k (cache_store_expires now E) :: c else c.
Definition try_lock (lk : option nat) (i : nat) : option (option nat) :=     (* None: blocked *)
  if cache_lock_spans_call then match lk with None => Some (Some i) | Some _ => None end else Some lk.
Definition unlock (lk : option nat) (i : nat) : option nat :=
  match lk with Some j => if Nat.eqb j i then None else Some j | None => None end.

(* one step of thread i executing GetKey(rq) *)
Definition cthread (E : Z) (tok : tokenT) (rq : creq) (i : nat) (fok : bool) (t : cthr) (s : cstate) : cstate :=
  match t_pc t with
  | CNew => set_thr s i (mkThr CWait (t_fetched t) (Some (cs_step s)) (t_res t))
  | CWait =>
      match try_lock (cs_lock s) i with
      | Some lk => mkCS (cs_now s) lk (cs_cache s) (update (cs_thr s) i (with_pc t CLocked)) (cs_step s) (cs_lin s)
      | None => s                                                            (* blocked on c.mu *)
      end
  | CLocked =>
      match check_cache rq (cs_cache s) (cs_now s) with
      | Hit k => add_lin (set_thr s i (with_pc t (CRet (Some k)))) i true
      | Miss => set_thr s i (with_pc t CMiss)
      end
  | CMiss =>
      match fetch_key tok rq fok with
      | Fetched k => set_thr s i (mkThr (CFetched k) true (t_inv t) (t_res t))
      | FetchErr => add_lin (set_thr s i (mkThr (CRet None) true (t_inv t) (t_res t))) i false
      end
  | CFetched k =>
      add_lin (mkCS (cs_now s) (cs_lock s) (store_cache E rq k (cs_cache s) (cs_now s))
                    (update (cs_thr s) i (with_pc t (CRet (Some k)))) (cs_step s) (cs_lin s)) i true
  | CRet r =>
      mkCS (cs_now s) (unlock (cs_lock s) i) (cs_cache s)
           (update (cs_thr s) i (mkThr (CDone r) (t_fetched t) (t_inv t) (Some (cs_step s)))) (cs_step s) (cs_lin s)
  | CDone _ => s
  end.

Definition bump (s : cstate) : cstate := mkCS (cs_now s) (cs_lock s) (cs_cache s) (cs_thr s) (S (cs_step s)) (cs_lin s).
Definition cstep (E : Z) (tok : tokenT) (rqs : list creq) (s : cstate) (e : cev) : cstate :=
  match e with
  | CTick d => mkCS (cs_now s + Z.max 0 d) (cs_lock s) (cs_cache s) (cs_thr s) (S (cs_step s)) (cs_lin s)
  | CStep i fok =>
      match nth_error rqs i, nth_error (cs_thr s) i with
      | Some rq, Some t => bump (cthread E tok rq i fok t s)
      | _, _ => bump s
      end
  end.
Definition cinit (rqs : list creq) : cstate := mkCS 0 None [] (map (fun _ => mkThr CNew false None None) rqs) 0 [].
Definition crun (E : Z) (tok : tokenT) (rqs : list creq) (sched : list cev) : cstate := fold_left (cstep E tok rqs) sched (cinit rqs).

Definition cresult (t : cthr) : option (option key) := match t_pc t with CDone r => Some r | _ => None end.

(* ---------------------------------------------------------------------------------------------------------------
   SPECIFICATION (independent of the code): a sequential cache in front of a token. One operation happens at one
   instant t. An entry may be served strictly before its expiry, and only to a caller that asked for no particular key
   id or for exactly the id of the cached key; otherwise the token is asked. What the token returns is kept for E time
   units, unless E <= 0 or the caller pinned a key id. A token error is returned and nothing is kept. *)
Definition live (e : entry) (t : Z) : bool := t <? e_exp e.
Definition pin_ok (rq : creq) (k : key) : bool := (c_pin rq =? 0) || (c_pin rq =? k_id k).
Definition seq_get (E : Z) (tok : tokenT) (c : cache) (t : Z) (rq : creq) (ok : bool) : option key * cache :=
  let fetch := match (if ok then tok (c_name rq) (c_pin rq) else None) with
               | None => (None, c)
               | Some k => (Some k, if (0 <? E) && (c_pin rq =? 0) then mkEnt (c_name rq) k (t + E) :: c else c)
               end in
  match clookup (c_name rq) c with
  | Some e => if live e t && pin_ok rq (e_key e) then (Some (e_key e), c) else fetch
  | None => fetch
  end.
Definition seq_op (E : Z) (tok : tokenT) (rqs : list creq) (acc : cache * list (nat * option key)) (o : linrec) : cache * list (nat * option key) :=
  match nth_error rqs (l_thread o) with
  | Some rq => let '(res, c') := seq_get E tok (fst acc) (l_time o) rq (l_ok o) in (c', snd acc ++ [(l_thread o, res)])
  | None => acc
  end.
(* the sequential execution of a list of operations (chronological order), from the empty cache *)
Definition seq_run (E : Z) (tok : tokenT) (rqs : list creq) (ops : list linrec) : cache * list (nat * option key) :=
  fold_left (seq_op E tok rqs) ops ([], []).
(* the order in which the concurrent run's operations took effect *)
Definition history (s : cstate) : list linrec := rev (cs_lin s).

(* what a token must satisfy for the safety corollaries: it hands out keys of the requested name, with the pinned id *)
Definition tok_owner (tok : tokenT) : Prop := forall n p k, tok n p = Some k -> k_name k = n.
Definition tok_pin (tok : tokenT) : Prop := forall n p k, tok n p = Some k -> p <> 0 -> k_id k = p.

(* executable checker for recorded histories of the REAL cache (used by the harness through Run.v):
   observation = (start, end, name, pin, result: 0 error | 1 key, key name, key id, serial of the token fetch that
   produced the key, fetched-by-this-call). Model-free conditions live in checks/c14.py; this one replays the
   sequential specification in order of completion for histories without overlap. *)
Definition in_section (p : cpc) : bool := match p with CLocked | CMiss | CFetched _ | CRet _ => true | _ => false end.
