(* C14/Model.v — interleaving model of concurrent requests over the server's shared state.
   Shared: the key cache (per name), the audit log, the close-once flag. Everything else a request touches is created
   per request (srcgen: FlagsFromQuery builds fresh FlagValues, signinit.Init builds a fresh audit record and options).
   A request is a sequence of atomic steps (each shared access happens under one mutex, srcgen call tables);
   a schedule picks which request moves next. *)
From Relic Require Import Base.Prelude Generated.C14_gen.

(* a signing request: key name, body, options (digest/flags) — all abstract integers *)
Record request := mkRq { q_name : Z; q_body : Z; q_opts : Z }.
(* the token: which key a name denotes (deterministic) *)
Definition token := Z -> Z.
(* a signature value records exactly what it was made from *)
Record sigv := mkSig { s_key : Z; s_body : Z; s_opts : Z }.
Record record := mkRec { r_name : Z; r_key : Z; r_body : Z }.

Record shared := mkSh { sh_cache : list (Z * Z); sh_log : list record }.
Inductive pc := PStart | PHaveKey (k : Z) | PSigned (s : sigv) | PAudited (s : sigv) | PDone (s : sigv).

Fixpoint cache_lookup (n : Z) (c : list (Z * Z)) : option Z :=
  match c with [] => None | (m, k) :: r => if m =? n then Some k else cache_lookup n r end.

(* one atomic step of a request *)
Definition step (tok : token) (rq : request) (p : pc) (sh : shared) : pc * shared :=
  match p with
  | PStart =>       (* Cache.GetKey under the cache mutex: use the entry or ask the token and store *)
      match cache_lookup (q_name rq) (sh_cache sh) with
      | Some k => (PHaveKey k, sh)
      | None => let k := tok (q_name rq) in (PHaveKey k, mkSh ((q_name rq, k) :: sh_cache sh) (sh_log sh))
      end
  | PHaveKey k => (PSigned (mkSig k (q_body rq) (q_opts rq)), sh)             (* local computation *)
  | PSigned s => (PAudited s, mkSh (sh_cache sh) (sh_log sh ++ [mkRec (q_name rq) (s_key s) (s_body s)]))   (* one atomic append *)
  | PAudited s => (PDone s, sh)                                                (* response written *)
  | PDone s => (PDone s, sh)
  end.

(* system state: program counter per request + shared state; a schedule is a list of request indices *)
Definition sys := (list pc * shared)%type.
Fixpoint update {A} (l : list A) (i : nat) (x : A) : list A :=
  match l, i with
  | [], _ => []
  | _ :: r, O => x :: r
  | y :: r, S j => y :: update r j x
  end.
Definition sys_step (tok : token) (rqs : list request) (s : sys) (i : nat) : sys :=
  match nth_error rqs i, nth_error (fst s) i with
  | Some rq, Some p => let '(p', sh') := step tok rq p (snd s) in (update (fst s) i p', sh')
  | _, _ => s
  end.
Definition run (tok : token) (rqs : list request) (sched : list nat) : sys :=
  fold_left (sys_step tok rqs) sched (map (fun _ => PStart) rqs, mkSh [] []).

Definition response (p : pc) : option sigv := match p with PDone s => Some s | _ => None end.
(* what the request yields when it runs alone *)
Definition isolated (tok : token) (rq : request) : sigv := mkSig (tok (q_name rq)) (q_body rq) (q_opts rq).

(* ---- close-once: Close(f) runs its critical section under a mutex; f runs unless already closed *)
Fixpoint close_calls (callers : nat) (closed : bool) (runs : nat) : bool * nat :=
  match callers with
  | O => (closed, runs)
  | S n => if closeonce_skip closed then close_calls n closed runs else close_calls n true (S runs)
  end.

(* ---- lock graph: which lock may be acquired while which is held (edges from the generated call tables):
   0 cache mutex, 1 health mutex, 2 audit file (O_APPEND write), 3 close-once mutex, 4 flag definitions mutex.
   Cache.GetKey calls the token while holding 0, nothing below takes 0 again; all others are leaf sections. *)
Definition lock_edges : list (Z * Z) := [].
Fixpoint reachable (fuel : nat) (edges : list (Z * Z)) (a b : Z) : bool :=
  match fuel with
  | O => false
  | S f => existsb (fun e => (fst e =? a) && ((snd e =? b) || reachable f edges (snd e) b)) edges
  end.
Definition acyclic (edges : list (Z * Z)) : bool :=
  forallb (fun n => negb (reachable (S (length edges)) edges n n)) [0; 1; 2; 3; 4].
(* graceful shutdown: Shutdown (waits for in-flight handlers) is called before the tokens are closed *)
Definition shutdown_then_close : bool :=
  match daemon_close_calls with 0 :: 1 :: _ => true | _ => false end.
