(* C14/ProofsCache.v — the timed key cache: mutual exclusion, simulation by the sequential specification
   (linearizability with linearization points inside each call), safety corollaries, deadlock freedom. *)
From Relic Require Import Base.Prelude Generated.C14_gen C14.Model C14.Proofs C14.ModelCache.
From Coq Require Import Sorted.

(* ---- facts read off the generated skeleton; the decisions of GetKey in closed form *)
Lemma lock_spans : cache_lock_spans_call = true. Proof. reflexivity. Qed.
Lemma err_checked : cache_err_checked = true. Proof. reflexivity. Qed.
Lemma names_ok : cache_names_ok = true. Proof. reflexivity. Qed.
Lemma used_name_eq rq : used_name rq = c_name rq. Proof. unfold used_name. rewrite names_ok. reflexivity. Qed.

Lemma want_len_0 rq : (want_len rq =? 0) = (c_pin rq =? 0).
Proof. unfold want_len. destruct (c_pin rq =? 0); reflexivity. Qed.

Lemma check_cache_spec rq c now :
  check_cache rq c now =
  match clookup (c_name rq) c with
  | Some e => if live e now && pin_ok rq (e_key e) then Hit (e_key e) else Miss
  | None => Miss
  end.
Proof.
  unfold check_cache. rewrite used_name_eq.
  destruct (clookup (c_name rq) c) as [e|].
  - unfold cache_entry_live, cache_id_acceptable, live, pin_ok. rewrite want_len_0, Z.gtb_ltb. cbn [andb].
    destruct (now <? e_exp e); cbn [andb]; [|reflexivity].
    destruct ((c_pin rq =? 0) || (c_pin rq =? k_id (e_key e))); reflexivity.
  - unfold cache_entry_live. cbn [andb]. reflexivity.
Qed.
Lemma fetch_key_spec tok rq fok :
  fetch_key tok rq fok = match (if fok then tok (c_name rq) (c_pin rq) else None) with Some k => Fetched k | None => FetchErr end.
Proof. unfold fetch_key. rewrite used_name_eq, err_checked. reflexivity. Qed.
Lemma store_cache_spec E rq k c now :
  store_cache E rq k c now = if (0 <? E) && (c_pin rq =? 0) then mkEnt (c_name rq) k (now + E) :: c else c.
Proof.
  unfold store_cache, cache_may_store, cache_store_expires. rewrite used_name_eq, want_len_0, Z.gtb_ltb. reflexivity.
Qed.
Lemma try_lock_spec lk i : try_lock lk i = match lk with None => Some (Some i) | Some _ => None end.
Proof. unfold try_lock. rewrite lock_spans. reflexivity. Qed.

Lemma update_same {A} (l : list A) i x : nth_error l i = Some x -> update l i x = l.
Proof.
  revert i; induction l as [|y l IH]; intros [|i]; cbn; intros H; try discriminate; auto.
  - inversion H; reflexivity.
  - f_equal. auto.
Qed.

(* ---- the sequential specification against the decisions *)
Lemma seq_get_hit E tok c t rq ok k : check_cache rq c t = Hit k -> seq_get E tok c t rq ok = (Some k, c).
Proof.
  rewrite check_cache_spec. unfold seq_get. destruct (clookup (c_name rq) c) as [e|]; [|discriminate].
  destruct (live e t && pin_ok rq (e_key e)); [|discriminate]. intros H; inversion H; reflexivity.
Qed.
Lemma seq_get_miss E tok c t rq ok :
  check_cache rq c t = Miss ->
  seq_get E tok c t rq ok =
  match fetch_key tok rq ok with
  | Fetched k => (Some k, store_cache E rq k c t)
  | FetchErr => (None, c)
  end.
Proof.
  rewrite check_cache_spec, fetch_key_spec. unfold seq_get.
  assert (F : forall k, store_cache E rq k c t = if (0 <? E) && (c_pin rq =? 0) then mkEnt (c_name rq) k (t + E) :: c else c)
    by (intros; apply store_cache_spec).
  destruct (clookup (c_name rq) c) as [e|].
  - destruct (live e t && pin_ok rq (e_key e)); [discriminate|]. intros _.
    destruct (if ok then tok (c_name rq) (c_pin rq) else None); [rewrite F|]; reflexivity.
  - intros _. destruct (if ok then tok (c_name rq) (c_pin rq) else None); [rewrite F|]; reflexivity.
Qed.
Lemma miss_mono rq c t t' : check_cache rq c t = Miss -> t <= t' -> check_cache rq c t' = Miss.
Proof.
  rewrite !check_cache_spec. destruct (clookup (c_name rq) c) as [e|]; [|reflexivity].
  unfold live. intros H Hle. destruct (pin_ok rq (e_key e)); rewrite ?andb_false_r; [|reflexivity].
  rewrite andb_true_r in *. destruct (t <? e_exp e) eqn:A; [discriminate|].
  destruct (t' <? e_exp e) eqn:B; [lia|reflexivity].
Qed.

(* ---- the invariant *)
Definition thr_at (s : cstate) (i : nat) : option cthr := nth_error (cs_thr s) i.
Definition finished (p : cpc) (r : option key) : Prop := p = CRet r \/ p = CDone r.
Definition fetching (p : cpc) : Prop := p = CMiss \/ exists k, p = CFetched k.

Record CInv (E : Z) (tok : tokenT) (rqs : list creq) (s : cstate) : Prop := mkCInv {
  ci_len : length (cs_thr s) = length rqs;
  ci_own : forall i t, thr_at s i = Some t -> in_section (t_pc t) = true -> cs_lock s = Some i;
  ci_lock : forall i, cs_lock s = Some i -> exists t, thr_at s i = Some t /\ in_section (t_pc t) = true;
  ci_cache : fst (seq_run E tok rqs (history s)) = cs_cache s;
  ci_res : forall i t r, thr_at s i = Some t -> finished (t_pc t) r -> In (i, r) (snd (seq_run E tok rqs (history s)));
  ci_lin : forall o, In o (cs_lin s) -> exists t r, thr_at s (l_thread o) = Some t /\ finished (t_pc t) r;
  ci_nodup : NoDup (map l_thread (cs_lin s));
  ci_miss : forall i t rq, thr_at s i = Some t -> nth_error rqs i = Some rq -> fetching (t_pc t) ->
                           check_cache rq (cs_cache s) (cs_now s) = Miss;
  ci_fetched : forall i t rq k, thr_at s i = Some t -> nth_error rqs i = Some rq -> t_pc t = CFetched k ->
                                tok (c_name rq) (c_pin rq) = Some k
}.

Lemma cinv_init E tok rqs : CInv E tok rqs (cinit rqs).
Proof.
  assert (T : forall i t, thr_at (cinit rqs) i = Some t -> t_pc t = CNew).
  { unfold thr_at, cinit; cbn. intros i t H. rewrite nth_error_map in H. destruct (nth_error rqs i); cbn in H; [|discriminate].
    inversion H; reflexivity. }
  constructor; cbn.
  - apply map_length.
  - intros i t H Hs. rewrite (T _ _ H) in Hs. discriminate.
  - intros i H; discriminate.
  - reflexivity.
  - intros i t r H [Hf|Hf]; rewrite (T _ _ H) in Hf; discriminate.
  - intros o [].
  - constructor.
  - intros i t rq H _ [Hf|[k Hf]]; rewrite (T _ _ H) in Hf; discriminate.
  - intros i t rq k H _ Hf; rewrite (T _ _ H) in Hf; discriminate.
Qed.

Lemma history_add s i ok : history (add_lin s i ok) = history s ++ [mkLin (cs_step s) i (cs_now s) ok].
Proof. unfold history, add_lin. cbn. reflexivity. Qed.
Lemma seq_run_snoc E tok rqs ops o : seq_run E tok rqs (ops ++ [o]) = seq_op E tok rqs (seq_run E tok rqs ops) o.
Proof. unfold seq_run. rewrite fold_left_app. reflexivity. Qed.

(* thread lookup after an update *)
Lemma thr_upd_eq l i (t t' : cthr) : nth_error l i = Some t -> nth_error (update l i t') i = Some t'.
Proof. apply nth_error_update_eq. Qed.
Lemma thr_upd_neq l i j (t' : cthr) : i <> j -> nth_error (update l i t') j = nth_error l j.
Proof. apply nth_error_update_neq. Qed.

Ltac split_thread i j Ht H :=
  destruct (Nat.eq_dec i j) as [<-|?];
  [ rewrite (thr_upd_eq _ _ _ _ Ht) in H; inversion H; subst; clear H
  | rewrite thr_upd_neq in H by assumption ].

(* a step that changes only the record of thread i, between program counters that hold no lock, no result and no
   pending fetch (CNew -> CWait, or a blocked CWait) *)
Definition neutral (p : cpc) : Prop := p = CNew \/ p = CWait.
Lemma neutral_facts p : neutral p -> in_section p = false /\ (forall r, ~ finished p r) /\ ~ fetching p /\ (forall k, p <> CFetched k).
Proof.
  intros [->| ->]; repeat split; try reflexivity; try (intros r [H|H]; discriminate);
    try (intros [H|[k H]]; discriminate); intros k H; discriminate.
Qed.

Lemma cinv_neutral E tok rqs s i t t' :
  CInv E tok rqs s -> thr_at s i = Some t -> neutral (t_pc t) -> neutral (t_pc t') ->
  CInv E tok rqs (set_thr s i t').
Proof.
  intros [Hl Ho Hk Hc Hr Hn Hd Hm Hf] Ht Np Np'. unfold thr_at in *.
  destruct (neutral_facts _ Np) as (N1 & N2 & N3 & N4). destruct (neutral_facts _ Np') as (M1 & M2 & M3 & M4).
  constructor; unfold thr_at, set_thr, history in *; cbn [cs_thr cs_lock cs_cache cs_lin cs_now cs_step] in *.
  - rewrite length_update. exact Hl.
  - intros j u H Hs. split_thread i j Ht H; [congruence | eauto].
  - intros j Hj. destruct (Hk j Hj) as (u & Hu & Hs). destruct (Nat.eq_dec i j) as [<-|?].
    + rewrite Ht in Hu. inversion Hu; subst. congruence.
    + exists u. rewrite thr_upd_neq by assumption. auto.
  - exact Hc.
  - intros j u r H Hfin. split_thread i j Ht H; [exfalso; eapply M2; eauto | eauto].
  - intros o Ho'. destruct (Hn o Ho') as (u & r & Hu & Hfin). destruct (Nat.eq_dec i (l_thread o)) as [e|?].
    + rewrite <- e in Hu. rewrite Ht in Hu. inversion Hu; subst. exfalso; eapply N2; eauto.
    + exists u, r. rewrite thr_upd_neq by assumption. auto.
  - exact Hd.
  - intros j u rq H Hrq Hfe. split_thread i j Ht H; [exfalso; auto | eauto].
  - intros j u rq k H Hrq Hfe. split_thread i j Ht H; [exfalso; eapply M4; eauto | eauto].
Qed.

(* the mutex part of the invariant when thread i stays inside its critical section *)
Lemma own_keep s i t t' :
  (forall j u, thr_at s j = Some u -> in_section (t_pc u) = true -> cs_lock s = Some j) ->
  thr_at s i = Some t -> in_section (t_pc t) = true -> in_section (t_pc t') = true ->
  (forall j u, nth_error (update (cs_thr s) i t') j = Some u -> in_section (t_pc u) = true -> cs_lock s = Some j) /\
  (forall j, cs_lock s = Some j -> exists u, nth_error (update (cs_thr s) i t') j = Some u /\ in_section (t_pc u) = true).
Proof.
  intros Ho Ht Hs Hs'. unfold thr_at in *. split.
  - intros j u H Hu. split_thread i j Ht H; eauto.
  - intros j Hj. rewrite (Ho i t Ht Hs) in Hj. inversion Hj; subst j.
    exists t'. rewrite (thr_upd_eq _ _ _ _ Ht). auto.
Qed.

(* nobody else is inside the critical section while thread i is *)
Lemma alone s i t j u :
  (forall j u, thr_at s j = Some u -> in_section (t_pc u) = true -> cs_lock s = Some j) ->
  thr_at s i = Some t -> in_section (t_pc t) = true -> thr_at s j = Some u -> in_section (t_pc u) = true -> j = i.
Proof. intros Ho Ht Hs Hu Hsu. pose proof (Ho _ _ Ht Hs) as A. pose proof (Ho _ _ Hu Hsu) as B. congruence. Qed.

Lemma fetching_section p : fetching p -> in_section p = true.
Proof. intros [->|[k ->]]; reflexivity. Qed.
Lemma finished_section_or_done p r : finished p r -> p = CRet r \/ p = CDone r.
Proof. auto. Qed.

(* thread i moves inside its critical section without taking effect (CLocked -> CMiss, CMiss -> CFetched k) *)
Lemma cinv_section_move E tok rqs s i t t' rq :
  CInv E tok rqs s -> thr_at s i = Some t -> nth_error rqs i = Some rq ->
  in_section (t_pc t) = true -> (forall r, ~ finished (t_pc t) r) ->
  in_section (t_pc t') = true -> (forall r, ~ finished (t_pc t') r) ->
  (fetching (t_pc t') -> check_cache rq (cs_cache s) (cs_now s) = Miss) ->
  (forall k, t_pc t' = CFetched k -> tok (c_name rq) (c_pin rq) = Some k) ->
  CInv E tok rqs (set_thr s i t').
Proof.
  intros [Hl Ho Hk Hc Hr Hn Hd Hm Hf] Ht Hrq Hs Hnf Hs' Hnf' Hmiss Hfet.
  destruct (own_keep s i t t' Ho Ht Hs Hs') as [O1 O2]. unfold thr_at in *.
  constructor; unfold thr_at, set_thr, history in *; cbn [cs_thr cs_lock cs_cache cs_lin cs_now cs_step] in *; auto.
  - rewrite length_update. exact Hl.
  - intros j u r H Hfin. split_thread i j Ht H; [exfalso; eapply Hnf'; eauto | eauto].
  - intros o Ho'. destruct (Hn o Ho') as (u & r & Hu & Hfin). destruct (Nat.eq_dec i (l_thread o)) as [e|?].
    + rewrite <- e in Hu. rewrite Ht in Hu. inversion Hu; subst. exfalso; eapply Hnf; eauto.
    + exists u, r. rewrite thr_upd_neq by assumption. auto.
  - intros j u rq' H Hrq' Hfe. split_thread i j Ht H.
    + rewrite Hrq in Hrq'. inversion Hrq'; subst. auto.
    + eauto.
  - intros j u rq' k H Hrq' Hfe. split_thread i j Ht H.
    + rewrite Hrq in Hrq'. inversion Hrq'; subst. auto.
    + eauto.
Qed.

(* thread i takes effect: its operation is appended to the history and its result is fixed *)
Lemma cinv_linearize E tok rqs s i t t' rq ok res c' :
  CInv E tok rqs s -> thr_at s i = Some t -> nth_error rqs i = Some rq ->
  in_section (t_pc t) = true -> (forall r, ~ finished (t_pc t) r) ->
  t_pc t' = CRet res ->
  seq_get E tok (cs_cache s) (cs_now s) rq ok = (res, c') ->
  CInv E tok rqs (add_lin (mkCS (cs_now s) (cs_lock s) c' (update (cs_thr s) i t') (cs_step s) (cs_lin s)) i ok).
Proof.
  intros [Hl Ho Hk Hc Hr Hn Hd Hm Hf] Ht Hrq Hs Hnf Hpc Hget.
  assert (Hs' : in_section (t_pc t') = true) by (rewrite Hpc; reflexivity).
  destruct (own_keep s i t t' Ho Ht Hs Hs') as [O1 O2]. unfold thr_at in *.
  assert (Hrun : seq_run E tok rqs (history s ++ [mkLin (cs_step s) i (cs_now s) ok]) =
                 (c', snd (seq_run E tok rqs (history s)) ++ [(i, res)])).
  { rewrite seq_run_snoc. unfold seq_op. cbn [l_thread l_time l_ok]. rewrite Hrq, Hc, Hget. reflexivity. }
  constructor; unfold thr_at; rewrite ?history_add; unfold history in *; cbn [add_lin cs_thr cs_lock cs_cache cs_lin cs_now cs_step] in *;
    rewrite ?Hrun; cbn [fst snd]; auto.
  - rewrite length_update. exact Hl.
  - intros j u r H Hfin. apply in_or_app. split_thread i j Ht H.
    + right. left. destruct Hfin as [Hfin|Hfin]; rewrite Hpc in Hfin; inversion Hfin; reflexivity.
    + left. eauto.
  - intros o [<-|Ho']; cbn [l_thread].
    + exists t', res. rewrite (thr_upd_eq _ _ _ _ Ht). split; [reflexivity|left; exact Hpc].
    + destruct (Hn o Ho') as (u & r & Hu & Hfin). destruct (Nat.eq_dec i (l_thread o)) as [e|?].
      * rewrite <- e in Hu. rewrite Ht in Hu. inversion Hu; subst. exfalso; eapply Hnf; eauto.
      * exists u, r. rewrite thr_upd_neq by assumption. auto.
  - cbn [map l_thread]. constructor; [|exact Hd]. intros Hin. apply in_map_iff in Hin as (o & Eo & Ho').
    destruct (Hn o Ho') as (u & r & Hu & Hfin). rewrite Eo, Ht in Hu. inversion Hu; subst. eapply Hnf; eauto.
  - intros j u rq' H Hrq' Hfe. split_thread i j Ht H.
    + exfalso. destruct Hfe as [Hfe|[k Hfe]]; rewrite Hpc in Hfe; discriminate.
    + exfalso. apply n. symmetry. eapply (alone s i t j u); eauto using fetching_section.
  - intros j u rq' k H Hrq' Hfe. split_thread i j Ht H.
    + rewrite Hpc in Hfe; discriminate.
    + eauto.
Qed.

Lemma cinv_acquire E tok rqs s i t :
  CInv E tok rqs s -> thr_at s i = Some t -> t_pc t = CWait -> cs_lock s = None ->
  CInv E tok rqs (mkCS (cs_now s) (Some i) (cs_cache s) (update (cs_thr s) i (with_pc t CLocked)) (cs_step s) (cs_lin s)).
Proof.
  intros [Hl Ho Hk Hc Hr Hn Hd Hm Hf] Ht Hpc Hlk. unfold thr_at in *.
  constructor; unfold thr_at, history in *; cbn [cs_thr cs_lock cs_cache cs_lin cs_now cs_step] in *; auto.
  - rewrite length_update. exact Hl.
  - intros j u H Hs. split_thread i j Ht H; [reflexivity|]. rewrite (Ho _ _ H Hs) in Hlk. discriminate.
  - intros j Hj. inversion Hj; subst j. eexists. rewrite (thr_upd_eq _ _ _ _ Ht). split; reflexivity.
  - intros j u r H Hfin. split_thread i j Ht H; [destruct Hfin as [Hfin|Hfin]; discriminate | eauto].
  - intros o Ho'. destruct (Hn o Ho') as (u & r & Hu & Hfin). destruct (Nat.eq_dec i (l_thread o)) as [e|?].
    + rewrite <- e in Hu. rewrite Ht in Hu. inversion Hu; subst. rewrite Hpc in Hfin. destruct Hfin; discriminate.
    + exists u, r. rewrite thr_upd_neq by assumption. auto.
  - intros j u rq H Hrq Hfe. split_thread i j Ht H; [destruct Hfe as [Hfe|[k Hfe]]; discriminate | eauto].
  - intros j u rq k H Hrq Hfe. split_thread i j Ht H; [discriminate | eauto].
Qed.

Lemma cinv_release E tok rqs s i t r :
  CInv E tok rqs s -> thr_at s i = Some t -> t_pc t = CRet r ->
  CInv E tok rqs (mkCS (cs_now s) (unlock (cs_lock s) i) (cs_cache s)
                       (update (cs_thr s) i (mkThr (CDone r) (t_fetched t) (t_inv t) (Some (cs_step s)))) (cs_step s) (cs_lin s)).
Proof.
  intros [Hl Ho Hk Hc Hr Hn Hd Hm Hf] Ht Hpc. unfold thr_at in *.
  assert (Hs : in_section (t_pc t) = true) by (rewrite Hpc; reflexivity).
  assert (Hlk : cs_lock s = Some i) by eauto.
  assert (Hun : unlock (cs_lock s) i = None) by (rewrite Hlk; unfold unlock; rewrite Nat.eqb_refl; reflexivity).
  rewrite Hun.
  constructor; unfold thr_at, history in *; cbn [cs_thr cs_lock cs_cache cs_lin cs_now cs_step] in *; auto.
  - rewrite length_update. exact Hl.
  - intros j u H Hsu. split_thread i j Ht H; [discriminate|]. exfalso. apply n. symmetry. eapply (alone s i t j u); eauto.
  - intros j Hj; discriminate.
  - intros j u r' H Hfin. split_thread i j Ht H; [|eauto].
    cbn [t_pc] in Hfin. destruct Hfin as [Hfin|Hfin]; inversion Hfin; subst. eapply Hr; eauto. left; exact Hpc.
  - intros o Ho'. destruct (Hn o Ho') as (u & r' & Hu & Hfin). destruct (Nat.eq_dec i (l_thread o)) as [e|?].
    + rewrite <- e. eexists. exists r. rewrite (thr_upd_eq _ _ _ _ Ht). split; [reflexivity|right; reflexivity].
    + exists u, r'. rewrite thr_upd_neq by assumption. auto.
  - intros j u rq H Hrq Hfe. split_thread i j Ht H; [destruct Hfe as [Hfe|[k Hfe]]; discriminate | eauto].
  - intros j u rq k H Hrq Hfe. split_thread i j Ht H; [discriminate | eauto].
Qed.

Lemma cinv_tick E tok rqs s d :
  CInv E tok rqs s -> CInv E tok rqs (mkCS (cs_now s + Z.max 0 d) (cs_lock s) (cs_cache s) (cs_thr s) (S (cs_step s)) (cs_lin s)).
Proof.
  intros [Hl Ho Hk Hc Hr Hn Hd Hm Hf].
  constructor; unfold thr_at, history in *; cbn [cs_thr cs_lock cs_cache cs_lin cs_now cs_step] in *; auto.
  intros i t rq H Hrq Hfe. eapply miss_mono; [eapply Hm; eauto | lia].
Qed.
Lemma cinv_bump E tok rqs s : CInv E tok rqs s -> CInv E tok rqs (bump s).
Proof. intros [Hl Ho Hk Hc Hr Hn Hd Hm Hf]. constructor; auto. Qed.

Lemma cinv_thread E tok rqs s i fok rq t :
  CInv E tok rqs s -> nth_error rqs i = Some rq -> thr_at s i = Some t -> CInv E tok rqs (cthread E tok rq i fok t s).
Proof.
  intros HI Hrq Ht. unfold cthread.
  destruct (t_pc t) as [| | | |k|r|r] eqn:Hpc.
  - eapply cinv_neutral; eauto; [left; exact Hpc | right; reflexivity].
  - rewrite try_lock_spec. destruct (cs_lock s) eqn:Hlk; [exact HI|]. eapply cinv_acquire; eauto.
  - assert (S1 : in_section (t_pc t) = true) by (rewrite Hpc; reflexivity).
    assert (S2 : forall r, ~ finished (t_pc t) r) by (intros r [H|H]; rewrite Hpc in H; discriminate).
    destruct (check_cache rq (cs_cache s) (cs_now s)) as [k|] eqn:Hck.
    + change (set_thr s i (with_pc t (CRet (Some k)))) with
        (mkCS (cs_now s) (cs_lock s) (cs_cache s) (update (cs_thr s) i (with_pc t (CRet (Some k)))) (cs_step s) (cs_lin s)).
      apply (cinv_linearize E tok rqs s i t _ rq true (Some k) (cs_cache s) HI Ht Hrq S1 S2).
      * reflexivity.
      * apply seq_get_hit. exact Hck.
    + apply (cinv_section_move E tok rqs s i t _ rq HI Ht Hrq S1 S2).
      * reflexivity.
      * intros r [H|H]; discriminate.
      * intros _. exact Hck.
      * intros k H; discriminate.
  - assert (S1 : in_section (t_pc t) = true) by (rewrite Hpc; reflexivity).
    assert (S2 : forall r, ~ finished (t_pc t) r) by (intros r [H|H]; rewrite Hpc in H; discriminate).
    assert (Hmiss : check_cache rq (cs_cache s) (cs_now s) = Miss) by (eapply (ci_miss _ _ _ _ HI); eauto; left; exact Hpc).
    destruct (fetch_key tok rq fok) as [k|] eqn:Hfk.
    + apply (cinv_section_move E tok rqs s i t _ rq HI Ht Hrq S1 S2).
      * reflexivity.
      * intros r [H|H]; discriminate.
      * intros _. exact Hmiss.
      * cbn [t_pc]. intros k' H; inversion H; subst k'. rewrite fetch_key_spec in Hfk.
        destruct fok; [|discriminate]. destruct (tok (c_name rq) (c_pin rq)); [|discriminate]. inversion Hfk; reflexivity.
    + change (set_thr s i (mkThr (CRet None) true (t_inv t) (t_res t))) with
        (mkCS (cs_now s) (cs_lock s) (cs_cache s) (update (cs_thr s) i (mkThr (CRet None) true (t_inv t) (t_res t))) (cs_step s) (cs_lin s)).
      apply (cinv_linearize E tok rqs s i t _ rq false None (cs_cache s) HI Ht Hrq S1 S2).
      * reflexivity.
      * rewrite (seq_get_miss _ _ _ _ _ _ Hmiss).
        assert (F : fetch_key tok rq false = FetchErr) by (rewrite fetch_key_spec; reflexivity). rewrite F. reflexivity.
  - assert (S1 : in_section (t_pc t) = true) by (rewrite Hpc; reflexivity).
    assert (S2 : forall r, ~ finished (t_pc t) r) by (intros r [H|H]; rewrite Hpc in H; discriminate).
    assert (Hmiss : check_cache rq (cs_cache s) (cs_now s) = Miss) by (eapply (ci_miss _ _ _ _ HI); eauto; right; eexists; exact Hpc).
    pose proof (ci_fetched _ _ _ _ HI i t rq k Ht Hrq Hpc) as Htok.
    apply (cinv_linearize E tok rqs s i t _ rq true (Some k) _ HI Ht Hrq S1 S2).
    * reflexivity.
    * rewrite (seq_get_miss _ _ _ _ _ _ Hmiss).
      assert (F : fetch_key tok rq true = Fetched k) by (rewrite fetch_key_spec, Htok; reflexivity). rewrite F. reflexivity.
  - eapply cinv_release; eauto.
  - exact HI.
Qed.

Lemma cinv_step E tok rqs s e : CInv E tok rqs s -> CInv E tok rqs (cstep E tok rqs s e).
Proof.
  intros HI. destruct e as [i fok|d]; cbn [cstep].
  - destruct (nth_error rqs i) as [rq|] eqn:Hrq; [|apply cinv_bump; exact HI].
    destruct (nth_error (cs_thr s) i) as [t|] eqn:Ht; [|apply cinv_bump; exact HI].
    apply cinv_bump. eapply cinv_thread; eauto.
  - apply cinv_tick. exact HI.
Qed.
Lemma cinv_run E tok rqs sched : CInv E tok rqs (crun E tok rqs sched).
Proof.
  unfold crun. generalize (cinv_init E tok rqs). generalize (cinit rqs).
  induction sched as [|e l IH]; intros s H; cbn; auto using cinv_step.
Qed.

(* ---- stamps: every call's linearization point lies between its invocation and its response *)
Inductive tstep (s : cstate) (i : nat) (t : cthr) : cthr -> list linrec -> Prop :=
| TS_stutter : tstep s i t t (cs_lin s)
| TS_invoke : t_pc t = CNew -> tstep s i t (mkThr CWait (t_fetched t) (Some (cs_step s)) (t_res t)) (cs_lin s)
| TS_move p f : t_pc t <> CNew -> (forall r, ~ finished (t_pc t) r) -> p <> CNew -> (forall r, ~ finished p r) ->
                tstep s i t (mkThr p f (t_inv t) (t_res t)) (cs_lin s)
| TS_lin res f ok : t_pc t <> CNew -> (forall r, ~ finished (t_pc t) r) ->
                tstep s i t (mkThr (CRet res) f (t_inv t) (t_res t)) (mkLin (cs_step s) i (cs_now s) ok :: cs_lin s)
| TS_done r : t_pc t = CRet r -> tstep s i t (mkThr (CDone r) (t_fetched t) (t_inv t) (Some (cs_step s))) (cs_lin s).

Lemma cthread_tstep E tok rq i fok t s :
  thr_at s i = Some t ->
  exists t' lins, tstep s i t t' lins /\ cs_thr (cthread E tok rq i fok t s) = update (cs_thr s) i t' /\
                  cs_lin (cthread E tok rq i fok t s) = lins /\ cs_now (cthread E tok rq i fok t s) = cs_now s /\
                  cs_step (cthread E tok rq i fok t s) = cs_step s.
Proof.
  intros Ht. unfold thr_at in Ht. unfold cthread.
  assert (NF : forall p, (p = CWait \/ p = CLocked \/ p = CMiss \/ exists k, p = CFetched k) -> p <> CNew /\ forall r, ~ finished p r).
  { intros p [->|[->|[->|[k ->]]]]; split; try discriminate; intros r [H|H]; discriminate. }
  destruct (t_pc t) as [| | | |k|r|r] eqn:Hpc.
  - do 2 eexists. split; [apply TS_invoke; exact Hpc|]. cbn. auto.
  - destruct (try_lock (cs_lock s) i).
    + do 2 eexists. split; [|cbn; split; [reflexivity|auto]].
      apply (TS_move s i t CLocked (t_fetched t)); try (rewrite Hpc; apply NF; auto); try (apply NF; auto).
    + exists t, (cs_lin s). split; [apply TS_stutter|]. rewrite update_same by exact Ht. auto.
  - destruct (check_cache rq (cs_cache s) (cs_now s)).
    + do 2 eexists. split; [|cbn; split; [reflexivity|auto]].
      apply (TS_lin s i t (Some k) (t_fetched t) true); rewrite Hpc; apply NF; auto.
    + do 2 eexists. split; [|cbn; split; [reflexivity|auto]].
      apply (TS_move s i t CMiss (t_fetched t)); try (rewrite Hpc; apply NF; auto); try (apply NF; auto).
  - destruct (fetch_key tok rq fok).
    + do 2 eexists. split; [|cbn; split; [reflexivity|auto]].
      apply (TS_move s i t (CFetched k) true); try (rewrite Hpc; apply NF; auto); try (apply NF; eauto 6).
    + do 2 eexists. split; [|cbn; split; [reflexivity|auto]].
      apply (TS_lin s i t None true false); rewrite Hpc; apply NF; auto.
  - do 2 eexists. split; [|cbn; split; [reflexivity|auto]].
    apply (TS_lin s i t (Some k) (t_fetched t) true); rewrite Hpc; apply NF; eauto 6.
  - do 2 eexists. split; [apply (TS_done s i t r); exact Hpc|]. cbn. auto.
  - exists t, (cs_lin s). split; [apply TS_stutter|]. rewrite update_same by exact Ht. auto.
Qed.

Definition lin_order (a b : linrec) : Prop := (l_stamp b < l_stamp a)%nat /\ l_time b <= l_time a.   (* list is newest first *)
Record SInv (s : cstate) : Prop := mkSInv {
  si_inv_lt : forall i t a, thr_at s i = Some t -> t_inv t = Some a -> (a < cs_step s)%nat;
  si_inv_some : forall i t, thr_at s i = Some t -> t_pc t <> CNew -> exists a, t_inv t = Some a;
  si_new : forall i t, thr_at s i = Some t -> t_pc t = CNew -> t_inv t = None;
  si_lin_lt : forall o, In o (cs_lin s) -> (l_stamp o < cs_step s)%nat /\ l_time o <= cs_now s;
  si_lin_inv : forall o t, In o (cs_lin s) -> thr_at s (l_thread o) = Some t -> exists a, t_inv t = Some a /\ (a < l_stamp o)%nat;
  si_res : forall i t x, thr_at s i = Some t -> t_res t = Some x ->
             (x < cs_step s)%nat /\ exists o, In o (cs_lin s) /\ l_thread o = i /\ (l_stamp o < x)%nat;
  si_ret : forall i t r, thr_at s i = Some t -> finished (t_pc t) r -> exists o, In o (cs_lin s) /\ l_thread o = i;
  si_sorted : StronglySorted lin_order (cs_lin s)
}.

Lemma sinv_init rqs : SInv (cinit rqs).
Proof.
  assert (T : forall i t, thr_at (cinit rqs) i = Some t -> t = mkThr CNew false None None).
  { unfold thr_at, cinit; cbn. intros i t H. rewrite nth_error_map in H. destruct (nth_error rqs i); cbn in H; [|discriminate].
    inversion H; reflexivity. }
  constructor; cbn.
  - intros i t a H Ha. rewrite (T _ _ H) in Ha. discriminate.
  - intros i t H Hn. rewrite (T _ _ H) in Hn. cbn in Hn. congruence.
  - intros i t H _. rewrite (T _ _ H). reflexivity.
  - intros o [].
  - intros o t [].
  - intros i t x H Hx. rewrite (T _ _ H) in Hx. discriminate.
  - intros i t r H [Hf|Hf]; rewrite (T _ _ H) in Hf; discriminate.
  - constructor.
Qed.

Lemma tstep_lins s i t t' lins : tstep s i t t' lins -> forall o, In o (cs_lin s) -> In o lins.
Proof. intros H o Ho. destruct H; auto. right; exact Ho. Qed.

Lemma sinv_tstep s s' i t t' lins :
  SInv s -> thr_at s i = Some t -> tstep s i t t' lins ->
  cs_thr s' = update (cs_thr s) i t' -> cs_lin s' = lins -> cs_now s' = cs_now s -> cs_step s' = cs_step s ->
  SInv (bump s').
Proof.
  intros [A B N C D R F G] Ht Hts Hthr Hlin Hnow Hstep. unfold thr_at in *.
  pose proof (tstep_lins _ _ _ _ _ Hts) as Sup.
  constructor; unfold thr_at, bump; cbn [cs_thr cs_lock cs_cache cs_lin cs_now cs_step]; rewrite ?Hthr, ?Hnow, ?Hstep, ?Hlin.
  - intros j u a H Ha. split_thread i j Ht H; [|pose proof (A _ _ _ H Ha); lia].
    destruct Hts; cbn [t_inv] in Ha; try (pose proof (A _ _ _ Ht Ha); lia). inversion Ha; lia.
  - intros j u H Hn. split_thread i j Ht H; [|eauto].
    destruct Hts; cbn [t_inv t_pc] in *; eauto.
    apply (B _ _ Ht). rewrite H. discriminate.
  - intros j u H Hn. split_thread i j Ht H; [|eauto].
    destruct Hts; cbn [t_inv t_pc] in *; [eauto | discriminate | contradiction | discriminate | discriminate].
  - intros o Ho. destruct Hts; try (destruct (C o Ho); split; lia).
    destruct Ho as [<-|Ho]; [cbn; split; lia | destruct (C o Ho); split; lia].
  - intros o u Ho H. destruct (Nat.eq_dec i (l_thread o)) as [e|ne].
    + rewrite <- e in H. rewrite (thr_upd_eq _ _ _ _ Ht) in H. inversion H; subst u; clear H.
      destruct Hts; cbn [t_inv].
      * rewrite e in Ht. eauto.
      * rewrite e in Ht. destruct (D o t Ho Ht) as (a & Ha & _). rewrite (N _ _ Ht H) in Ha. discriminate.
      * rewrite e in Ht. eauto.
      * destruct Ho as [<-|Ho]; [|rewrite e in Ht; eauto].
        cbn [l_stamp]. destruct (B _ _ Ht H) as (a & Ha). exists a. split; [exact Ha|]. eapply A; eauto.
      * rewrite e in Ht. eauto.
    + rewrite thr_upd_neq in H by assumption.
      destruct Hts; eauto. destruct Ho as [<-|Ho]; [cbn in ne; congruence | eauto].
  - intros j u x H Hx. split_thread i j Ht H.
    + destruct Hts; cbn [t_res] in Hx.
      * destruct (R _ _ _ Ht Hx) as (L & o & Ho & E1 & E2). split; [lia|]. exists o; auto.
      * destruct (R _ _ _ Ht Hx) as (L & o & Ho & E1 & E2). split; [lia|]. exists o; auto.
      * destruct (R _ _ _ Ht Hx) as (L & o & Ho & E1 & E2). split; [lia|]. exists o; auto.
      * destruct (R _ _ _ Ht Hx) as (L & o & Ho & E1 & E2). split; [lia|]. exists o; split; [right; exact Ho|auto].
      * inversion Hx; subst x. split; [lia|].
        destruct (F _ _ r Ht (or_introl H)) as (o & Ho & E1). exists o. split; [exact Ho|]. split; [exact E1|]. apply C; exact Ho.
    + destruct (R _ _ _ H Hx) as (L & o & Ho & E1 & E2). split; [lia|]. exists o; auto.
  - intros j u r H Hfin. split_thread i j Ht H.
    + destruct Hts as [ | Hn0 | p f Hn1 Hn2 Hn3 Hn4 | res f ok Hn1 Hn2 | r0 Hr0 ]; cbn [t_pc] in Hfin.
      * eauto.
      * destruct Hfin; discriminate.
      * exfalso. eapply Hn4; eauto.
      * eexists. split; [left; reflexivity|reflexivity].
      * apply (F _ _ r0 Ht). left; exact Hr0.
    + destruct (F _ _ _ H Hfin) as (o & Ho & E1). exists o; auto.
  - destruct Hts; auto. constructor; [exact G|]. apply Forall_forall. intros o Ho. destruct (C o Ho). split; cbn; lia.
Qed.

Lemma sinv_idle s d : SInv s -> SInv (mkCS (cs_now s + Z.max 0 d) (cs_lock s) (cs_cache s) (cs_thr s) (S (cs_step s)) (cs_lin s)).
Proof.
  intros [A B N C D R F G].
  constructor; unfold thr_at in *; cbn [cs_thr cs_lock cs_cache cs_lin cs_now cs_step]; auto.
  - intros i t a H Ha. pose proof (A _ _ _ H Ha). lia.
  - intros o Ho. destruct (C o Ho). split; lia.
  - intros i t x H Hx. destruct (R _ _ _ H Hx) as (L & o & Ho & E1 & E2). split; [lia|]. exists o; auto.
Qed.
Lemma sinv_bump s : SInv s -> SInv (bump s).
Proof.
  intros H. pose proof (sinv_idle s 0 H) as K. replace (cs_now s + Z.max 0 0) with (cs_now s) in K by lia. exact K.
Qed.

Lemma sinv_step E tok rqs s e : SInv s -> SInv (cstep E tok rqs s e).
Proof.
  intros HS. destruct e as [i fok|d]; cbn [cstep].
  - destruct (nth_error rqs i) as [rq|] eqn:Hrq; [destruct (nth_error (cs_thr s) i) as [t|] eqn:Ht|].
    + destruct (cthread_tstep E tok rq i fok t s Ht) as (t' & lins & Hts & E1 & E2 & E3 & E4).
      eapply sinv_tstep; eauto.
    + apply sinv_bump; exact HS.
    + apply sinv_bump; exact HS.
  - apply sinv_idle; exact HS.
Qed.
Lemma sinv_run E tok rqs sched : SInv (crun E tok rqs sched).
Proof.
  unfold crun. generalize (sinv_init rqs). generalize (cinit rqs).
  induction sched as [|e l IH]; intros s H; cbn; auto using sinv_step.
Qed.

(* ================= the theorems ================= *)
Lemma nodup_map_inj {A B} (f : A -> B) (l : list A) a b : NoDup (map f l) -> In a l -> In b l -> f a = f b -> a = b.
Proof.
  induction l as [|x l IH]; cbn; intros Hn Ha Hb E; [contradiction|].
  inversion Hn as [|? ? Hx Hn']; subst.
  destruct Ha as [->|Ha], Hb as [->|Hb]; auto.
  - exfalso. apply Hx. rewrite E. apply in_map. exact Hb.
  - exfalso. apply Hx. rewrite <- E. apply in_map. exact Ha.
Qed.
Lemma ssorted_snoc {A} (R : A -> A -> Prop) l a : StronglySorted R l -> Forall (fun x => R x a) l -> StronglySorted R (l ++ [a]).
Proof.
  induction l as [|x l IH]; cbn; intros Hs Hf.
  - constructor; constructor.
  - inversion Hs; inversion Hf; subst. constructor; [auto|]. apply Forall_app. split; [assumption|constructor; [assumption|constructor]].
Qed.
Lemma ssorted_rev {A} (R : A -> A -> Prop) l : StronglySorted R l -> StronglySorted (fun a b => R b a) (rev l).
Proof.
  induction l as [|x l IH]; cbn; intros Hs; [constructor|].
  inversion Hs; subst. apply ssorted_snoc; [auto|]. apply Forall_forall. intros y Hy. apply in_rev in Hy.
  eapply Forall_forall in H2; eauto.
Qed.
Lemma ssorted_before {A} (R : A -> A -> Prop) l1 a l2 : StronglySorted R (l1 ++ a :: l2) -> forall b, In b l1 -> R b a.
Proof.
  induction l1 as [|x l1 IH]; cbn; intros Hs b Hb; [contradiction|].
  inversion Hs; subst. destruct Hb as [->|Hb]; [|eauto].
  eapply Forall_forall in H2; [exact H2|]. apply in_or_app. right. left. reflexivity.
Qed.

Definition hist_order (a b : linrec) : Prop := (l_stamp a < l_stamp b)%nat /\ l_time a <= l_time b.

(* every completed call appears in the sequential history exactly once, with the result it returned; the cache the
   concurrent run ends with is the cache of the sequential run; each call took effect after its invocation and before
   its response; the sequential order is the order of effect, with a non-decreasing clock *)
Lemma cache_linearizable : forall E tok rqs sched,
  let s := crun E tok rqs sched in
  fst (seq_run E tok rqs (history s)) = cs_cache s /\
  (forall i t r, nth_error (cs_thr s) i = Some t -> cresult t = Some r -> In (i, r) (snd (seq_run E tok rqs (history s)))) /\
  NoDup (map l_thread (history s)) /\
  (forall o, In o (history s) -> exists t a,
       nth_error (cs_thr s) (l_thread o) = Some t /\ t_inv t = Some a /\ (a < l_stamp o)%nat /\
       (forall x, t_res t = Some x -> (l_stamp o < x)%nat)) /\
  StronglySorted hist_order (history s).
Proof.
  intros E tok rqs sched s. pose proof (cinv_run E tok rqs sched) as HI. pose proof (sinv_run E tok rqs sched) as HS.
  fold s in HI, HS. repeat split.
  - apply (ci_cache _ _ _ _ HI).
  - intros i t r Ht Hr. apply (ci_res _ _ _ _ HI i t r Ht). unfold cresult in Hr. destruct (t_pc t); try discriminate.
    inversion Hr; subst. right; reflexivity.
  - unfold history. rewrite map_rev. apply NoDup_rev. apply (ci_nodup _ _ _ _ HI).
  - intros o Ho. unfold history in Ho. apply in_rev in Ho.
    destruct (ci_lin _ _ _ _ HI o Ho) as (t & r & Ht & _). destruct (si_lin_inv _ HS o t Ho Ht) as (a & Ha & La).
    exists t, a. repeat split; auto. intros x Hx.
    destruct (si_res _ HS _ _ _ Ht Hx) as (_ & o' & Ho' & E1 & E2).
    assert (o' = o) by (eapply (nodup_map_inj l_thread); eauto; apply (ci_nodup _ _ _ _ HI)). subst o'. exact E2.
  - unfold history. apply (ssorted_rev lin_order). apply (si_sorted _ HS).
Qed.

(* consistency with real time: if call A returned before call B was invoked, A precedes B in the sequential history *)
Lemma cache_realtime : forall E tok rqs sched oa ob ta tb x y,
  let s := crun E tok rqs sched in
  In oa (history s) -> In ob (history s) ->
  nth_error (cs_thr s) (l_thread oa) = Some ta -> t_res ta = Some x ->
  nth_error (cs_thr s) (l_thread ob) = Some tb -> t_inv tb = Some y ->
  (x < y)%nat ->
  exists l1 l2 l3, history s = l1 ++ oa :: l2 ++ ob :: l3.
Proof.
  intros E tok rqs sched oa ob ta tb x y s Ha Hb Hta Hx Htb Hy Hlt.
  destruct (cache_linearizable E tok rqs sched) as (_ & _ & _ & Hst & Hso). fold s in Hst, Hso.
  destruct (Hst oa Ha) as (ta' & a1 & Ea & _ & _ & Ra). rewrite Hta in Ea. inversion Ea; subst ta'. specialize (Ra x Hx).
  destruct (Hst ob Hb) as (tb' & a2 & Eb & Ia & La & _). rewrite Htb in Eb. inversion Eb; subst tb'. rewrite Hy in Ia. inversion Ia; subst a2.
  assert (Lt : (l_stamp oa < l_stamp ob)%nat) by lia.
  destruct (in_split _ _ Ha) as (l1 & r & Er). rewrite Er in Hb, Hso |- *.
  apply in_app_or in Hb. destruct Hb as [Hb|[Hb|Hb]].
  - pose proof (ssorted_before hist_order l1 oa r Hso ob Hb) as [K _]. lia.
  - subst ob. lia.
  - destruct (in_split _ _ Hb) as (l2 & l3 & Er2). exists l1, l2, l3. rewrite Er2. reflexivity.
Qed.

(* ---- safety, first on the sequential specification, then transferred to every interleaving *)
Definition entries_owned (c : cache) : Prop := forall e, In e c -> k_name (e_key e) = e_name e.
Lemma clookup_in n c e : clookup n c = Some e -> In e c /\ e_name e = n.
Proof.
  induction c as [|x c IH]; cbn; [discriminate|]. destruct (e_name x =? n) eqn:En.
  - intros H; inversion H; subst. split; [left; reflexivity|apply Z.eqb_eq; exact En].
  - intros H. destruct (IH H). auto.
Qed.

Lemma seq_get_owned E tok c t rq ok res c' :
  tok_owner tok -> entries_owned c -> seq_get E tok c t rq ok = (res, c') ->
  entries_owned c' /\ (forall k, res = Some k -> k_name k = c_name rq).
Proof.
  intros Ho Hc. unfold seq_get.
  assert (F : forall res c', match (if ok then tok (c_name rq) (c_pin rq) else None) with
               | None => (None, c)
               | Some k => (Some k, if (0 <? E) && (c_pin rq =? 0) then mkEnt (c_name rq) k (t + E) :: c else c)
               end = (res, c') -> entries_owned c' /\ (forall k, res = Some k -> k_name k = c_name rq)).
  { intros res0 c0. destruct (if ok then tok (c_name rq) (c_pin rq) else None) as [k|] eqn:Ek.
    - assert (Hk : k_name k = c_name rq) by (destruct ok; [eapply Ho; eauto|discriminate]).
      intros H; inversion H; subst. split; [|intros k' Hk'; inversion Hk'; subst; exact Hk].
      destruct ((0 <? E) && (c_pin rq =? 0)); [|exact Hc]. intros e [<-|He]; [exact Hk|auto].
    - intros H; inversion H; subst. split; [exact Hc|discriminate]. }
  destruct (clookup (c_name rq) c) as [e|] eqn:El; [|apply F].
  destruct (live e t && pin_ok rq (e_key e)); [|apply F].
  intros H; inversion H; subst. split; [exact Hc|]. intros k Hk; inversion Hk; subst.
  destruct (clookup_in _ _ _ El) as [Hin Hn]. rewrite (Hc e Hin). exact Hn.
Qed.

Lemma seq_run_owned E tok rqs ops :
  tok_owner tok ->
  entries_owned (fst (seq_run E tok rqs ops)) /\
  (forall i k, In (i, Some k) (snd (seq_run E tok rqs ops)) -> exists rq, nth_error rqs i = Some rq /\ k_name k = c_name rq).
Proof.
  intros Ho. induction ops as [|o ops IH] using rev_ind.
  - cbn. split; [intros e []|intros i k []].
  - rewrite seq_run_snoc. destruct IH as [I1 I2]. unfold seq_op.
    destruct (nth_error rqs (l_thread o)) as [rq|] eqn:Hrq; [|split; assumption].
    destruct (seq_get E tok (fst (seq_run E tok rqs ops)) (l_time o) rq (l_ok o)) as [res c'] eqn:Hg.
    destruct (seq_get_owned _ _ _ _ _ _ _ _ Ho I1 Hg) as [J1 J2]. cbn [fst snd]. split; [exact J1|].
    intros i k Hin. apply in_app_or in Hin. destruct Hin as [Hin|[Hin|[]]]; [eauto|].
    inversion Hin; subst. exists rq. split; [exact Hrq|auto].
Qed.

(* no interleaving of calls and clock advances ever hands a caller a key that belongs to another name *)
Lemma cache_never_foreign_key : forall E tok rqs sched i t rq k,
  tok_owner tok ->
  nth_error (cs_thr (crun E tok rqs sched)) i = Some t -> nth_error rqs i = Some rq ->
  cresult t = Some (Some k) -> k_name k = c_name rq.
Proof.
  intros E tok rqs sched i t rq k Ho Ht Hrq Hr.
  destruct (cache_linearizable E tok rqs sched) as (_ & Hres & _).
  destruct (seq_run_owned E tok rqs (history (crun E tok rqs sched)) Ho) as [_ H2].
  destruct (H2 i k (Hres i t (Some k) Ht Hr)) as (rq' & E1 & E2). congruence.
Qed.

(* a pinned request (a key id in the context) is answered with that id and never changes the cache *)
Lemma seq_get_pinned E tok c t rq ok res c' :
  tok_pin tok -> c_pin rq <> 0 -> seq_get E tok c t rq ok = (res, c') ->
  c' = c /\ (forall k, res = Some k -> k_id k = c_pin rq).
Proof.
  intros Hp Hn. unfold seq_get. assert (Ez : (c_pin rq =? 0) = false) by (apply Z.eqb_neq; exact Hn).
  rewrite Ez, andb_false_r.
  assert (F : forall res c', match (if ok then tok (c_name rq) (c_pin rq) else None) with
               | None => (None, c) | Some k => (Some k, c) end = (res, c') -> c' = c /\ (forall k, res = Some k -> k_id k = c_pin rq)).
  { intros res0 c0. destruct (if ok then tok (c_name rq) (c_pin rq) else None) as [k|] eqn:Ek; intros H; inversion H; subst; split; auto; try discriminate.
    intros k' Hk'; inversion Hk'; subst. destruct ok; [eapply Hp; eauto|discriminate]. }
  destruct (clookup (c_name rq) c) as [e|]; [|apply F].
  unfold pin_ok. rewrite Ez. cbn [orb]. destruct (live e t && (c_pin rq =? k_id (e_key e))) eqn:Hl; [|apply F].
  intros H; inversion H; subst. split; [reflexivity|]. intros k Hk; inversion Hk; subst.
  apply andb_true_iff in Hl as [_ Hl]. apply Z.eqb_eq in Hl. auto.
Qed.
Lemma cache_pinned_no_store : forall E tok rq i fok t s,
  c_pin rq <> 0 -> cs_cache (cthread E tok rq i fok t s) = cs_cache s.
Proof.
  intros E tok rq i fok t s Hn. unfold cthread.
  destruct (t_pc t); try reflexivity.
  - destruct (try_lock (cs_lock s) i); reflexivity.
  - destruct (check_cache rq (cs_cache s) (cs_now s)); reflexivity.
  - destruct (fetch_key tok rq fok); reflexivity.
  - cbn [add_lin cs_cache]. rewrite store_cache_spec. assert (Ez : (c_pin rq =? 0) = false) by (apply Z.eqb_neq; exact Hn). rewrite Ez, andb_false_r. reflexivity.
Qed.
Lemma seq_run_pinned E tok rqs ops :
  tok_pin tok ->
  forall i k, In (i, Some k) (snd (seq_run E tok rqs ops)) -> exists rq, nth_error rqs i = Some rq /\ (c_pin rq <> 0 -> k_id k = c_pin rq).
Proof.
  intros Hp. induction ops as [|o ops IH] using rev_ind.
  - intros i k [].
  - rewrite seq_run_snoc. unfold seq_op.
    destruct (nth_error rqs (l_thread o)) as [rq|] eqn:Hrq; [|exact IH].
    destruct (seq_get E tok (fst (seq_run E tok rqs ops)) (l_time o) rq (l_ok o)) as [res c'] eqn:Hg. cbn [fst snd].
    intros i k Hin. apply in_app_or in Hin. destruct Hin as [Hin|[Hin|[]]]; [eauto|].
    inversion Hin; subst. exists rq. split; [exact Hrq|]. intros Hn.
    destruct (seq_get_pinned _ _ _ _ _ _ _ _ Hp Hn Hg) as [_ J]. auto.
Qed.
Lemma cache_pinned_id : forall E tok rqs sched i t rq k,
  tok_pin tok ->
  nth_error (cs_thr (crun E tok rqs sched)) i = Some t -> nth_error rqs i = Some rq -> c_pin rq <> 0 ->
  cresult t = Some (Some k) -> k_id k = c_pin rq.
Proof.
  intros E tok rqs sched i t rq k Hp Ht Hrq Hn Hr.
  destruct (cache_linearizable E tok rqs sched) as (_ & Hres & _).
  destruct (seq_run_pinned E tok rqs (history (crun E tok rqs sched)) Hp i k (Hres i t (Some k) Ht Hr)) as (rq' & E1 & E2).
  rewrite Hrq in E1. inversion E1; subst. auto.
Qed.

(* entries never outlive the configured expiry; with expiry <= 0 nothing is ever cached *)
Definition exp_bounded (E : Z) (s : cstate) : Prop :=
  (forall e, In e (cs_cache s) -> e_exp e <= cs_now s + E) /\ (E <= 0 -> cs_cache s = []).
Lemma exp_thread E tok rq i fok t s : exp_bounded E s -> exp_bounded E (cthread E tok rq i fok t s).
Proof.
  intros [H1 H2]. unfold cthread.
  destruct (t_pc t); try (split; assumption).
  - destruct (try_lock (cs_lock s) i); split; assumption.
  - destruct (check_cache rq (cs_cache s) (cs_now s)); split; assumption.
  - destruct (fetch_key tok rq fok); split; assumption.
  - unfold exp_bounded, add_lin; cbn [cs_cache cs_now]. rewrite store_cache_spec.
    destruct (0 <? E) eqn:EE; cbn [andb]; [|split; assumption].
    destruct (c_pin rq =? 0); [|split; assumption]. split; [|lia].
    intros e [<-|He]; [cbn; lia|auto].
Qed.
Lemma cache_expiry_bounded : forall E tok rqs sched, exp_bounded E (crun E tok rqs sched).
Proof.
  intros E tok rqs sched. unfold crun.
  assert (H0 : exp_bounded E (cinit rqs)) by (split; [intros e []|reflexivity]).
  revert H0. generalize (cinit rqs). induction sched as [|e l IH]; intros s H; cbn [fold_left]; [exact H|].
  apply IH. destruct e as [i fok|d]; cbn [cstep].
  - destruct (nth_error rqs i); [destruct (nth_error (cs_thr s) i)|]; try exact H.
    destruct (exp_thread E tok c i fok c0 s H) as [A B]. split; assumption.
  - destruct H as [A B]. split; cbn [cs_cache cs_now]; [|exact B]. intros e He. specialize (A e He). lia.
Qed.

(* mutual exclusion and absence of deadlock *)
Lemma cache_mutex : forall E tok rqs sched i j ti tj,
  let s := crun E tok rqs sched in
  nth_error (cs_thr s) i = Some ti -> nth_error (cs_thr s) j = Some tj ->
  in_section (t_pc ti) = true -> in_section (t_pc tj) = true -> i = j.
Proof.
  intros E tok rqs sched i j ti tj s Hi Hj Si Sj. pose proof (cinv_run E tok rqs sched) as HI. fold s in HI.
  pose proof (ci_own _ _ _ _ HI i ti Hi Si). pose proof (ci_own _ _ _ _ HI j tj Hj Sj). congruence.
Qed.

Lemma cthread_moves E tok rq i fok t s :
  nth_error (cs_thr s) i = Some t -> (forall r, t_pc t <> CDone r) -> (cs_lock s = None \/ cs_lock s = Some i) ->
  (t_pc t = CWait -> cs_lock s = None) ->
  exists t', nth_error (cs_thr (cthread E tok rq i fok t s)) i = Some t' /\ t_pc t' <> t_pc t.
Proof.
  intros Ht Hnd Hlk Hw. unfold cthread.
  destruct (t_pc t) as [| | | |k|r|r] eqn:Hpc.
  - eexists. cbn. rewrite (thr_upd_eq _ _ _ _ Ht). split; [reflexivity|cbn; discriminate].
  - rewrite try_lock_spec, (Hw eq_refl). eexists. cbn. rewrite (thr_upd_eq _ _ _ _ Ht). split; [reflexivity|cbn; discriminate].
  - destruct (check_cache rq (cs_cache s) (cs_now s)); eexists; cbn; rewrite (thr_upd_eq _ _ _ _ Ht); (split; [reflexivity|cbn; discriminate]).
  - destruct (fetch_key tok rq fok); eexists; cbn; rewrite (thr_upd_eq _ _ _ _ Ht); (split; [reflexivity|cbn; discriminate]).
  - eexists; cbn; rewrite (thr_upd_eq _ _ _ _ Ht); (split; [reflexivity|cbn; discriminate]).
  - eexists; cbn; rewrite (thr_upd_eq _ _ _ _ Ht); (split; [reflexivity|cbn; discriminate]).
  - exfalso. eapply Hnd; reflexivity.
Qed.

Lemma cache_deadlock_free : forall E tok rqs sched i t,
  let s := crun E tok rqs sched in
  nth_error (cs_thr s) i = Some t -> (forall r, t_pc t <> CDone r) ->
  exists j tj tj', nth_error (cs_thr s) j = Some tj /\
                   nth_error (cs_thr (cstep E tok rqs s (CStep j true))) j = Some tj' /\ t_pc tj' <> t_pc tj.
Proof.
  intros E tok rqs sched i t s Ht Hnd. pose proof (cinv_run E tok rqs sched) as HI. fold s in HI.
  assert (Hlen := ci_len _ _ _ _ HI).
  assert (RQ : forall j u, nth_error (cs_thr s) j = Some u -> exists rq, nth_error rqs j = Some rq).
  { intros j u Hu. destruct (nth_error rqs j) eqn:E1; [eauto|]. apply nth_error_None in E1.
    assert (j < length (cs_thr s))%nat by (apply nth_error_Some; congruence). lia. }
  destruct (cs_lock s) as [j|] eqn:Hlk.
  - destruct (ci_lock _ _ _ _ HI j Hlk) as (tj & Hj & Sj). unfold thr_at in Hj. destruct (RQ _ _ Hj) as (rq & Hrq).
    destruct (cthread_moves E tok rq j true tj s Hj) as (tj' & H1 & H2).
    + intros r Hr. rewrite Hr in Sj. discriminate.
    + right; exact Hlk.
    + intros Hw. rewrite Hw in Sj. discriminate.
    + exists j, tj, tj'. split; [exact Hj|]. cbn [cstep]. rewrite Hrq, Hj. cbn [bump cs_thr]. auto.
  - destruct (RQ _ _ Ht) as (rq & Hrq).
    destruct (cthread_moves E tok rq i true t s Ht Hnd) as (t' & H1 & H2).
    + left; exact Hlk.
    + intros _; exact Hlk.
    + exists i, t, t'. split; [exact Ht|]. cbn [cstep]. rewrite Hrq, Ht. cbn [bump cs_thr]. auto.
Qed.
