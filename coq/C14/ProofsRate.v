(* C14/ProofsRate.v — the rate limiter: closed form of one reservation, the window bound over every history of calls
   (with the clock-inversion term made explicit), accounting, bounded non-negative waits, progress. *)
From Relic Require Import Base.Prelude Generated.C14_gen C14.ModelRate.

Definition cap (L : limiter) : Z := lm_burst L * lm_unit L.
Definition same_params (L L' : limiter) : Prop := lm_rate L' = lm_rate L /\ lm_unit L' = lm_unit L /\ lm_burst L' = lm_burst L.

Lemma advance_spec L t : wf L ->
  advance L t = Z.min (cap L) (lm_tokens L + lm_rate L * Z.max 0 (t - lm_last L)).
Proof.
  intros (Hr & Hu & Hb & Ht). unfold advance, rate_clamp, rate_nonpositive, rate_over_burst, cap.
  assert (E0 : (lm_rate L <=? 0) = false) by lia. rewrite E0.
  destruct (t <? lm_last L) eqn:Ec.
  - replace (t - t) with 0 by lia. replace (Z.max 0 (t - lm_last L)) with 0 by lia.
    rewrite Z.mul_0_l, Z.mul_0_r. destruct (lm_tokens L + 0 >? lm_burst L * lm_unit L) eqn:Eo; lia.
  - replace (Z.max 0 (t - lm_last L)) with (t - lm_last L) by lia. rewrite (Z.mul_comm (t - lm_last L)).
    destruct (lm_tokens L + lm_rate L * (t - lm_last L) >? lm_burst L * lm_unit L) eqn:Eo; lia.
Qed.

Definition wait_of (L : limiter) (tk2 : Z) : Z := if tk2 <? 0 then Z.quot (- tk2) (lm_rate L) else 0.
Lemma reserve_spec L t mw : wf L ->
  reserve L t mw =
  let tk2 := advance L t - lm_unit L in
  if wait_of L tk2 <=? mw then (mkLm (lm_rate L) (lm_unit L) (lm_burst L) tk2 t, mkRes true (t + wait_of L tk2))
  else (L, mkRes false 0).
Proof.
  intros (Hr & Hu & Hb & Ht). unfold reserve, rate_deducts_n, rate_needs_wait, dur_from_tokens, rate_nonpositive, rate_ok,
    rate_wait_is_one, rate_sets_tokens, rate_sets_last, rate_time_to_act, wait_of.
  assert (E0 : (lm_rate L <=? 0) = false) by lia. rewrite E0.
  assert (E1 : (1 <=? lm_burst L) = true) by lia. rewrite E1. cbn [andb]. reflexivity.
Qed.

(* facts about one admitted reservation *)
Lemma wait_bounds L tk2 : 1 <= lm_rate L ->
  0 <= wait_of L tk2 /\ lm_rate L * wait_of L tk2 <= Z.max 0 (- tk2) /\ - tk2 - (lm_rate L - 1) <= lm_rate L * wait_of L tk2.
Proof.
  intros Hr. unfold wait_of. destruct (tk2 <? 0) eqn:En; [|lia].
  rewrite Z.quot_div_nonneg by lia.
  pose proof (Z.div_mod (- tk2) (lm_rate L) ltac:(lia)) as D.
  pose proof (Z.mod_pos_bound (- tk2) (lm_rate L) ltac:(lia)) as M.
  pose proof (Z.div_pos (- tk2) (lm_rate L) ltac:(lia) ltac:(lia)) as P.
  set (q := - tk2 / lm_rate L) in *. set (m := (- tk2) mod lm_rate L) in *.
  repeat split; lia.
Qed.

Lemma reserve_admitted L t mw L' res : wf L -> reserve L t mw = (L', res) -> r_ok res = true ->
  wf L' /\ same_params L L' /\ lm_last L' = t /\
  lm_tokens L' = Z.min (cap L) (lm_tokens L + lm_rate L * Z.max 0 (t - lm_last L)) - lm_unit L /\
  t <= r_act res /\
  lm_rate L * r_act res <= lm_rate L * t + Z.max 0 (- lm_tokens L') /\
  lm_rate L * t - lm_tokens L' - (lm_rate L - 1) <= lm_rate L * r_act res.
Proof.
  intros W. pose proof W as (Hr & Hu & Hb & Ht). rewrite (reserve_spec L t mw W). cbn zeta.
  rewrite (advance_spec L t W).
  set (tk2 := Z.min (cap L) (lm_tokens L + lm_rate L * Z.max 0 (t - lm_last L)) - lm_unit L).
  destruct (wait_of L tk2 <=? mw); intros H Hok; inversion H; subst; cbn in Hok; [|discriminate]. clear H Hok.
  destruct (wait_bounds L tk2 Hr) as (W0 & W1 & W2).
  cbn [lm_rate lm_unit lm_burst lm_tokens lm_last r_act].
  assert (tk2 <= cap L - lm_unit L) by (unfold tk2; lia).
  unfold wf, same_params, cap in *. cbn [lm_rate lm_unit lm_burst lm_tokens lm_last].
  rewrite Z.mul_add_distr_l. repeat split; try lia.
Qed.
Lemma reserve_rejected L t mw L' res : wf L -> reserve L t mw = (L', res) -> r_ok res = false -> L' = L.
Proof.
  intros W. rewrite (reserve_spec L t mw W). cbn zeta.
  destruct (wait_of L (advance L t - lm_unit L) <=? mw); intros H Hok; inversion H; subst; [discriminate|reflexivity].
Qed.

(* ---- chains of admitted reservations *)
Lemma last_cons_default : forall (ts : list Z) b a, last (b :: ts) a = last ts b.
Proof.
  induction ts as [|c ts IH]; intros b a; [reflexivity|].
  change (last (b :: c :: ts) a) with (last (c :: ts) a). rewrite (IH c a), (IH c b). reflexivity.
Qed.
Lemma up_down ts a : up_path (a :: ts) = (last ts a - a) + down_path (a :: ts).
Proof.
  revert a; induction ts as [|b ts IH]; intros a; [cbn; lia|].
  change (up_path (a :: b :: ts)) with (Z.max 0 (b - a) + up_path (b :: ts)).
  change (down_path (a :: b :: ts)) with (Z.max 0 (a - b) + down_path (b :: ts)).
  rewrite IH. rewrite (last_cons_default ts b a). lia.
Qed.

Lemma chain : forall calls L, wf L -> forall mid ej post, run L calls = mid ++ ej :: post ->
  ev_tok ej <= lm_tokens L + lm_rate L * up_path (lm_last L :: map ev_t mid ++ [ev_t ej]) - lm_unit L * (zlen mid + 1).
Proof.
  induction calls as [|[t mw] r IH]; intros L W mid ej post H; cbn [run] in H.
  - destruct mid; discriminate.
  - destruct (reserve L t mw) as [L' res] eqn:Er. destruct (r_ok res) eqn:Eo.
    + destruct (reserve_admitted L t mw L' res W Er Eo) as (W' & (P1 & P2 & P3) & Hl & Ht & _).
      destruct mid as [|e mid]; cbn [app] in H; injection H as He Hrest.
      * rewrite <- He. cbn [map app ev_t ev_tok]. change (zlen (@nil ev)) with 0.
        change (up_path [lm_last L; t]) with (Z.max 0 (t - lm_last L) + 0). rewrite Ht. unfold cap. lia.
      * specialize (IH L' W' mid ej post Hrest). rewrite P1, P2, Hl in IH.
        rewrite <- He. cbn [map app ev_t]. change (up_path (lm_last L :: t :: map ev_t mid ++ [ev_t ej]))
          with (Z.max 0 (t - lm_last L) + up_path (t :: map ev_t mid ++ [ev_t ej])).
        rewrite zlen_cons. rewrite Ht in IH. unfold cap in *.
        rewrite Z.mul_add_distr_l. lia.
    + rewrite (reserve_rejected L t mw L' res W Er Eo) in H. eauto.
Qed.

(* the state reached after an admitted event, the calls still to come, and what is known about the event *)
Lemma run_split : forall calls L, wf L -> forall pre e rest, run L calls = pre ++ e :: rest ->
  exists L' calls', wf L' /\ same_params L L' /\ lm_tokens L' = ev_tok e /\ lm_last L' = ev_t e /\ run L' calls' = rest /\
    ev_tok e <= cap L - lm_unit L /\ ev_t e <= ev_act e /\
    lm_rate L * ev_act e <= lm_rate L * ev_t e + Z.max 0 (- ev_tok e) /\
    lm_rate L * ev_t e - ev_tok e - (lm_rate L - 1) <= lm_rate L * ev_act e.
Proof.
  induction calls as [|[t mw] r IH]; intros L W pre e rest H; cbn [run] in H.
  - destruct pre; discriminate.
  - destruct (reserve L t mw) as [L' res] eqn:Er. destruct (r_ok res) eqn:Eo.
    + destruct (reserve_admitted L t mw L' res W Er Eo) as (W' & (P1 & P2 & P3) & Hl & Ht & A1 & A2 & A3).
      destruct pre as [|e0 pre]; cbn [app] in H; injection H as He Hrest.
      * exists L', r. rewrite <- He. cbn [ev_tok ev_t ev_act].
        split; [exact W'|]. split; [unfold same_params; auto|]. unfold cap in *. repeat split; auto; lia.
      * destruct (IH L' W' pre e rest Hrest) as (L2 & c2 & W2 & (Q1 & Q2 & Q3) & R1 & R2 & R3 & R4 & R5 & R6 & R7).
        exists L2, c2. split; [exact W2|]. unfold same_params, cap in *. rewrite P1, P2, P3 in *. repeat split; auto; congruence.
    + rewrite (reserve_rejected L t mw L' res W Er Eo) in H. eauto.
Qed.

(* THE WINDOW BOUND. For every history of calls — any times, any accepted waits, rejected calls included — and any two
   admitted operations i <= j of it: the number of operations admitted from i to j is at most
   burst + rate * (act_j - act_i), up to (a) the truncation of a wait to whole time units (less than one time unit of
   credit, i.e. rate - 1 token-units) and (b) the credit for the time by which callers' clock readings went backwards
   between consecutive reservations (zero when reservations are made with non-decreasing times). *)
Lemma rl_window_bound : forall L calls pre ei mid ej post,
  wf L -> run L calls = pre ++ ei :: mid ++ ej :: post ->
  lm_unit L * (zlen mid + 2) <=
    lm_unit L * lm_burst L + lm_rate L * (ev_act ej - ev_act ei)
    + lm_rate L * down_path (ev_t ei :: map ev_t mid ++ [ev_t ej]) + (lm_rate L - 1).
Proof.
  intros L calls pre ei mid ej post W H.
  destruct (run_split calls L W pre ei (mid ++ ej :: post) H) as (Li & ci & Wi & (P1 & P2 & P3) & Ti & Li_last & Hrun & Bi & _ & Ai & _).
  pose proof (chain ci Li Wi mid ej post Hrun) as C.
  destruct (run_split ci Li Wi mid ej post Hrun) as (_ & _ & _ & _ & _ & _ & _ & _ & _ & _ & Aj).
  rewrite P1, P2, Ti, Li_last in *.
  rewrite up_down in C.
  assert (Hlast : last (map ev_t mid ++ [ev_t ej]) (ev_t ei) = ev_t ej) by (rewrite last_last; reflexivity).
  rewrite Hlast in C. pose proof W as (Hr & Hu & Hb & _). unfold cap in *.
  set (R := lm_rate L) in *. set (U := lm_unit L) in *. set (B := lm_burst L) in *.
  set (D := down_path (ev_t ei :: map ev_t mid ++ [ev_t ej])) in *.
  rewrite Z.mul_add_distr_l in C. rewrite (Z.mul_sub_distr_l R (ev_t ej)) in C.
  rewrite Z.mul_sub_distr_l.
  set (x1 := R * ev_act ej) in *. set (x2 := R * ev_act ei) in *. set (x3 := R * ev_t ej) in *. set (x4 := R * ev_t ei) in *.
  set (x5 := R * D) in *. set (n := zlen mid) in *.
  assert (0 <= n) by apply zlen_nonneg.
  replace (U * (n + 2)) with (U * (n + 1) + U) by lia.
  assert (0 <= U * B - U) by nia.
  lia.
Qed.

(* corollary for callers whose clock readings reach the limiter in order: the plain statement of the property *)
Fixpoint nondecreasing (ts : list Z) : Prop :=
  match ts with a :: ((b :: _) as r) => a <= b /\ nondecreasing r | _ => True end.
Lemma down_path_sorted ts : nondecreasing ts -> down_path ts = 0.
Proof.
  induction ts as [|a ts IH]; [reflexivity|]. destruct ts as [|b r]; [reflexivity|].
  intros [H1 H2]. change (down_path (a :: b :: r)) with (Z.max 0 (a - b) + down_path (b :: r)). rewrite (IH H2). lia.
Qed.
Lemma rl_window_bound_ordered : forall L calls pre ei mid ej post,
  wf L -> run L calls = pre ++ ei :: mid ++ ej :: post ->
  nondecreasing (ev_t ei :: map ev_t mid ++ [ev_t ej]) ->
  lm_unit L * (zlen mid + 2) <= lm_unit L * lm_burst L + lm_rate L * (ev_act ej - ev_act ei) + (lm_rate L - 1).
Proof.
  intros L calls pre ei mid ej post W H Hs. pose proof (rl_window_bound L calls pre ei mid ej post W H) as B.
  rewrite (down_path_sorted _ Hs) in B. lia.
Qed.

(* the strict bound does NOT hold for every interleaving: a caller that read the clock, was overtaken by a later
   reading and then reserved moves the limiter's clock back, and the same interval is credited twice *)
Lemma rl_strict_bound_refuted : exists L calls ei ej,
  wf L /\ run L calls = [ei; mkEv 0 1 (-1); ej] /\
  ~ (lm_unit L * 2 <= lm_unit L * lm_burst L + lm_rate L * (ev_act ej - ev_act ei) + (lm_rate L - 1)) /\
  ev_act ei = ev_act ej.
Proof.
  exists (new_limiter 1 1 1), [(10, 100); (0, 100); (10, 100)], (mkEv 10 10 0), (mkEv 10 10 0).
  split; [unfold wf, new_limiter; cbn; lia|]. split; [vm_compute; reflexivity|]. split; [cbn; lia|reflexivity].
Qed.

(* accounting: an admitted operation costs exactly one unit on top of the capped refill; a rejected one costs nothing;
   waits are never negative and never longer than the debt divided by the rate *)
Lemma rl_accounting : forall L t mw L' res, wf L -> reserve L t mw = (L', res) ->
  (r_ok res = true ->
     lm_tokens L' = Z.min (lm_burst L * lm_unit L) (lm_tokens L + lm_rate L * Z.max 0 (t - lm_last L)) - lm_unit L /\
     t <= r_act res /\ lm_rate L * (r_act res - t) <= Z.max 0 (- lm_tokens L')) /\
  (r_ok res = false -> L' = L).
Proof.
  intros L t mw L' res W Er. split; intros Eo.
  - destruct (reserve_admitted L t mw L' res W Er Eo) as (_ & _ & _ & Ht & A1 & A2 & _). unfold cap in Ht.
    repeat split; auto. rewrite Z.mul_sub_distr_l. lia.
  - eapply reserve_rejected; eauto.
Qed.

(* progress: with a positive rate a caller that accepts any wait is always admitted, at a finite time fixed at the
   moment of its reservation *)
Lemma rl_admits : forall L t mw, wf L -> wait_of L (advance L t - lm_unit L) <= mw -> r_ok (snd (reserve L t mw)) = true.
Proof.
  intros L t mw W H. rewrite (reserve_spec L t mw W). cbn zeta.
  destruct (wait_of L (advance L t - lm_unit L) <=? mw) eqn:E; [reflexivity|lia].
Qed.
(* ... and NOT with a rate <= 0 (a configuration `ratelimit: -1`): once the burst is spent the next caller is told to
   wait InfDuration (292 years) *)
Lemma rl_progress_refuted_nonpositive_rate : exists L calls e1 e2,
  lm_rate L <= 0 /\ run L calls = [e1; e2] /\ ev_act e2 - ev_t e2 = rate_inf_duration.
Proof.
  exists (relic_new_limiter (-1) 1000000000 1), [(0, rate_inf_duration); (0, rate_inf_duration)].
  eexists. eexists. split; [cbn; lia|]. split; [vm_compute; reflexivity|]. vm_compute. reflexivity.
Qed.

(* relic's floor on the burst: whatever the configuration says, at least one operation fits *)
Lemma rl_burst_floor_ok : forall rate unit burst, 1 <= rate -> 1 <= unit -> wf (relic_new_limiter rate unit burst).
Proof.
  intros rate unit burst Hr Hu. unfold relic_new_limiter, relic_burst, new_limiter, rl_burst_too_small, rl_burst_floor, rate_starts_full, wf.
  cbn [lm_rate lm_unit lm_burst lm_tokens]. destruct (burst <? 1) eqn:E; repeat split; lia.
Qed.

(* relic's wrapper admits a token operation only through one reservation on the shared limiter *)
Lemma relic_ops_eq_run : forall calls L, relic_ops L calls = run L (map (fun c => (snd (fst c), snd c)) calls).
Proof.
  induction calls as [|[[k t] mw] r IH]; intros L; cbn [relic_ops run map fst snd]; [reflexivity|].
  assert (G : op_guarded k = true) by (destruct k; reflexivity). rewrite G.
  destruct (reserve L t mw) as [L' res]. destruct (r_ok res); rewrite IH; reflexivity.
Qed.

(* the executable window check is sound for the declarative statement *)
Lemma window_from_sound rate unit burst slack a0 : forall rest n,
  window_from rate unit burst slack a0 n rest = true ->
  forall mid a post, rest = mid ++ a :: post -> unit * (n + zlen mid + 1) <= unit * burst + rate * (a - a0) + slack.
Proof.
  induction rest as [|x rest IH]; intros n H mid a post E; [destruct mid; discriminate|].
  cbn [window_from] in H. apply andb_true_iff in H as [H1 H2].
  destruct mid as [|m mid]; cbn [app] in E; inversion E; subst.
  - change (zlen (@nil Z)) with 0. lia.
  - rewrite zlen_cons. specialize (IH (n + 1) H2 mid a post eq_refl). replace (n + (1 + zlen mid) + 1) with (n + 1 + zlen mid + 1) by lia. exact IH.
Qed.
Lemma window_ok_sound rate unit burst slack : forall acts, window_ok rate unit burst slack acts = true ->
  forall pre ai mid aj post, acts = pre ++ ai :: mid ++ aj :: post ->
  unit * (zlen mid + 2) <= unit * burst + rate * (aj - ai) + slack.
Proof.
  induction acts as [|x acts IH]; intros H pre ai mid aj post E; [destruct pre; discriminate|].
  cbn [window_ok] in H. apply andb_true_iff in H as [H1 H2].
  destruct pre as [|p pre]; cbn [app] in E; inversion E; subst.
  - pose proof (window_from_sound _ _ _ _ _ _ _ H1 mid aj post eq_refl). lia.
  - eapply IH; eauto.
Qed.

(* ---- the interleaving machine: its reservations are a history of [run], so the window bound covers every schedule;
   a sleeping caller proceeds as soon as the clock reaches its time to act, whatever the others do *)
Lemma run_app : forall c1 L c2, run L (c1 ++ c2) = run L c1 ++ run (state_after L c1) c2.
Proof.
  induction c1 as [|[t mw] r IH]; intros L c2; cbn [app run state_after]; [reflexivity|].
  destruct (reserve L t mw) as [L' res]. cbn [fst]. destruct (r_ok res); rewrite IH; reflexivity.
Qed.
Lemma state_after_app : forall c1 L c2, state_after L (c1 ++ c2) = state_after (state_after L c1) c2.
Proof. induction c1 as [|[t mw] r IH]; intros L c2; cbn [app state_after]; auto. Qed.

Lemma rl_conc_state : forall mw L n sched, rs_lim (rrun mw L n sched) = state_after L (rev (rs_calls (rrun mw L n sched))).
Proof.
  intros mw L n sched. unfold rrun.
  assert (H0 : rs_lim (rinit L n) = state_after L (rev (rs_calls (rinit L n)))) by reflexivity.
  revert H0. generalize (rinit L n). induction sched as [|e l IH]; intros s H; cbn [fold_left]; [exact H|].
  apply IH. destruct e as [i|d]; cbn [rstep]; [|exact H].
  destruct (nth_error (rs_thr s) i) as [[|t|a| |z]|]; try exact H.
  - destruct (reserve (rs_lim s) t mw) as [L' res] eqn:Er. cbn [rs_lim rs_calls rev].
    rewrite state_after_app, <- H. cbn [state_after]. rewrite Er. reflexivity.
  - destruct (a <=? rs_now s); exact H.
Qed.

Lemma rupdate_eq l i x p : nth_error l i = Some p -> nth_error (rupdate l i x) i = Some x.
Proof. revert i; induction l as [|y l IH]; intros [|i]; cbn; intros H; try discriminate; auto. Qed.

Lemma rl_progress : forall mw s i a, nth_error (rs_thr s) i = Some (RSleep a) -> a <= rs_now s ->
  nth_error (rs_thr (rstep mw s (RStep i))) i = Some (RDone (rs_now s)).
Proof.
  intros mw s i a H Hle. cbn [rstep]. rewrite H. assert (E : (a <=? rs_now s) = true) by lia. rewrite E.
  cbn [rs_thr]. eapply rupdate_eq; eauto.
Qed.

(* how the server stacks the wrappers, and how relic constructs the limiter: metrics, then (rate limit configured)
   the limiter built from the configured rate and burst, then the key cache on top *)
Lemma server_wiring :
  open_tokens_calls = [2; 0; 1; 2] /\ open_tokens_limiter_args = true /\ open_tokens_cache_args = true /\
  (forall r, rl_enabled r = (r >? 0)) /\ rl_newlimiter_args = true /\ rl_struct_plain = true.
Proof. repeat split; reflexivity. Qed.
(* the server builds a limiter only for a positive configured rate, so every limiter it builds is well formed and the
   theorems above apply to it (NewLimiter called directly with a rate <= 0 is outside this domain: see the witness) *)
Lemma server_limiter_wf : forall rate unit burst, rl_enabled rate = true -> 1 <= unit -> wf (relic_new_limiter rate unit burst).
Proof. intros rate unit burst H Hu. apply rl_burst_floor_ok; [unfold rl_enabled in H; lia|exact Hu]. Qed.
