(* C14/ProofsShut.v — shutdown at any moment: handlers accepted before it run to completion, the tokens are closed only
   after the last of them (within the grace period), nothing is accepted afterwards, Close returns last; the audit file
   holds exactly one complete line per audited request under every interleaving. *)
From Relic Require Import Base.Prelude Generated.C14_gen C14.Model C14.Proofs C14.ModelShut.
From Coq Require Import Permutation.

(* ---- the generated tables this development is about *)
Lemma close_prog_eq : close_prog = [2; 3]. Proof. reflexivity. Qed.
Lemma close_waits_eq : close_waits = true. Proof. reflexivity. Qed.
Lemma audit_atomic_eq : audit_atomic = true. Proof. reflexivity. Qed.
Lemma serve_table : serve_sign_calls = [0; 1; 2; 3; 4; 5; 6]. Proof. reflexivity. Qed.
Lemma server_close_table : server_close_calls = [0; 1]. Proof. reflexivity. Qed.
Lemma loop_exits : health_loop_exits_on_close = true. Proof. reflexivity. Qed.
Lemma waits_eq : server_close_waits_loop = true. Proof. reflexivity. Qed.
Lemma guard_eq : health_guard = true. Proof. reflexivity. Qed.

Lemma update_same {A} (l : list A) i x : nth_error l i = Some x -> update l i x = l.
Proof.
  revert i; induction l as [|y l IH]; intros [|i]; cbn; intros H; try discriminate; auto.
  - inversion H; reflexivity.
  - f_equal. auto.
Qed.

(* ---- closed form of a handler step (one write per append) *)
Definition next_pc (listening ok : bool) (p : hpc) : hpc :=
  match p with
  | HNew => if listening then HRun 0 else HRefused
  | HRun 0 | HRun 1 | HRun 2 => match p with HRun k => HRun (S k) | _ => p end
  | HRun 3 | HRun 4 | HRun 5 => match p with HRun k => if ok then HRun (S k) else HErr | _ => p end
  | HRun _ => HDone
  | HHalf k => HRun (S k)
  | _ => p
  end.
Definition uses_token (p : hpc) : bool := match p with HRun 3 | HRun 4 => true | _ => false end.
Definition appends (ok : bool) (p : hpc) : bool := match p with HRun 5 => ok | _ => false end.

Lemma hstep_spec line i ok p s : nth_error (ss_req s) i = Some p ->
  let s' := hstep true line i ok p s in
  ss_req s' = update (ss_req s) i (next_pc (ss_listening s) ok p) /\
  ss_trace s' = (if uses_token p then TUse i :: ss_trace s else ss_trace s) /\
  ss_file s' = (if appends ok p then ss_file s ++ line i ++ [nl] else match p with HHalf _ => ss_file s ++ [nl] | _ => ss_file s end) /\
  ss_order s' = (if appends ok p then i :: ss_order s else ss_order s) /\
  ss_now s' = ss_now s /\ ss_listening s' = ss_listening s /\ ss_called s' = ss_called s /\ ss_begun s' = ss_begun s /\
  ss_shut_at s' = ss_shut_at s /\ ss_sd s' = ss_sd s /\ ss_forced s' = ss_forced s /\ ss_chan_closed s' = ss_chan_closed s /\
  ss_tok_closed s' = ss_tok_closed s /\ ss_returned s' = ss_returned s /\ ss_loop s' = ss_loop s.
Proof.
  intros Hp. unfold hstep. rewrite serve_table.
  destruct p as [| |k|k| |].
  - destruct (ss_listening s) eqn:El; cbn; rewrite ?El; repeat split; reflexivity.
  - cbn. rewrite (update_same _ _ _ Hp). repeat split; reflexivity.
  - destruct k as [|[|[|[|[|[|[|k]]]]]]]; cbn [nth_error Z.eqb orb Pos.eqb].
    + cbn; repeat split; reflexivity.
    + cbn; repeat split; reflexivity.
    + cbn; repeat split; reflexivity.
    + destruct ok; cbn; repeat split; reflexivity.
    + destruct ok; cbn; repeat split; reflexivity.
    + destruct ok; cbn; repeat split; reflexivity.
    + cbn; repeat split; reflexivity.
    + assert (En : nth_error (@nil Z) k = None) by (destruct k; reflexivity). rewrite En. cbn; repeat split; reflexivity.
  - cbn. repeat split; reflexivity.
  - cbn. rewrite (update_same _ _ _ Hp). repeat split; reflexivity.
  - cbn. rewrite (update_same _ _ _ Hp). repeat split; reflexivity.
Qed.

(* ---- list helpers *)
Lemma forallb_nth {A} (f : A -> bool) l i x : forallb f l = true -> nth_error l i = Some x -> f x = true.
Proof. intros H Hn. apply nth_error_In in Hn. eapply forallb_forall in H; eauto. Qed.
Lemma forallb_update {A} (f : A -> bool) l i x : forallb f l = true -> f x = true -> forallb f (update l i x) = true.
Proof.
  revert i; induction l as [|y l IH]; intros [|i]; cbn; intros H Hx; auto; apply andb_true_iff in H as [H1 H2];
    apply andb_true_iff; split; auto.
Qed.
Lemma existsb_forallb_neg {A} (f : A -> bool) l : existsb f l = false <-> forallb (fun x => negb (f x)) l = true.
Proof.
  induction l as [|y l IH]; cbn; [tauto|]. rewrite orb_false_iff, andb_true_iff, IH, negb_true_iff. tauto.
Qed.

(* ---- the shutdown invariant *)
Definition quiet (s : sstate) : Prop := forallb (fun p => negb (active p)) (ss_req s) = true.
Record ShInv (s : sstate) : Prop := mkShInv {
  sh_sd_le : (ss_sd s <= 2)%nat;
  sh_begun_listen : ss_begun s = true -> ss_listening s = false;
  sh_sd_begun : (1 <= ss_sd s)%nat -> ss_begun s = true;
  sh_begun_called : ss_begun s = true -> ss_called s = true;
  sh_drained : (1 <= ss_sd s)%nat -> ss_forced s = false -> quiet s;
  sh_closed_sd : ss_tok_closed s = true -> ss_sd s = 2%nat;
  sh_sd_closed : ss_sd s = 2%nat -> ss_tok_closed s = true /\ ss_chan_closed s = true;
  sh_close_trace : has_close (ss_trace s) = ss_tok_closed s;
  sh_clean : ss_forced s = false -> clean (ss_trace s) = true;
  sh_returned : ss_returned s = true -> ss_sd s = 2%nat;
  sh_nohalf : forall i k, nth_error (ss_req s) i <> Some (HHalf k);
  sh_tok_chan : ss_tok_closed s = true -> ss_chan_closed s = true /\ ss_loop s = LExit;
  sh_noping : no_ping_after_close (ss_trace s) = true
}.

Lemma quiet_new n : forallb (fun p => negb (active p)) (repeat HNew n) = true.
Proof. induction n; cbn; auto. Qed.
Lemma shinv_init n : ShInv (sinit n).
Proof.
  constructor; cbn [sinit ss_sd ss_begun ss_listening ss_called ss_forced ss_tok_closed ss_chan_closed ss_trace ss_returned ss_req ss_loop has_close clean no_ping_after_close].
  - lia.
  - discriminate.
  - lia.
  - discriminate.
  - intros _ _. apply quiet_new.
  - discriminate.
  - discriminate.
  - reflexivity.
  - reflexivity.
  - discriminate.
  - intros i k H. apply nth_error_In in H. apply repeat_spec in H. discriminate.
  - discriminate.
  - reflexivity.
Qed.

Lemma next_pc_quiet ok p : active p = false -> active (next_pc false ok p) = false.
Proof. destruct p; cbn; auto; discriminate. Qed.

Lemma next_pc_not_half l ok p k : (forall q, p <> HHalf q) -> next_pc l ok p <> HHalf k.
Proof.
  intros Hn. destruct p as [| |[|[|[|[|[|[|q]]]]]]|q| |]; cbn; try discriminate;
    try (destruct l; discriminate); try (destruct ok; discriminate);
    exfalso; eapply Hn; reflexivity.
Qed.

Lemma shinv_req line ntok s i ok : ShInv s -> ShInv (sstep line ntok s (EReq i ok)).
Proof.
  intros HI. unfold sstep. cbn [sstep_gen]. rewrite audit_atomic_eq.
  destruct (nth_error (ss_req s) i) as [p|] eqn:Hp; [|exact HI].
  destruct (hstep_spec line i ok p s Hp) as (Er & Et & Ef & Eo & E1 & E2 & E3 & E4 & E5 & E6 & E7 & E8 & E9 & E10 & E11).
  destruct HI as [A B C CC D F G H K R N TC NP].
  set (s' := hstep true line i ok p s) in *.
  (* a handler that is running while the tokens are closed contradicts the invariant (unless the grace period expired) *)
  assert (Act : ss_forced s = false -> (1 <= ss_sd s)%nat -> active p = false).
  { intros Hf Hsd. pose proof (forallb_nth _ _ _ _ (D Hsd Hf) Hp) as Q. apply negb_true_iff in Q. exact Q. }
  constructor; rewrite ?E1, ?E2, ?E3, ?E4, ?E5, ?E6, ?E7, ?E8, ?E9, ?E10, ?E11; auto.
  - intros Hsd Hf. unfold quiet. rewrite Er. apply forallb_update; [apply D; auto|].
    rewrite (B (C Hsd)). rewrite next_pc_quiet; [reflexivity|auto].
  - rewrite Et. destruct (uses_token p); [cbn|]; exact H.
  - intros Hf. rewrite Et. destruct (uses_token p) eqn:Hu; [|auto]. cbn [clean]. rewrite (K Hf), andb_true_r.
    rewrite H. destruct (ss_tok_closed s) eqn:Hc; [|reflexivity]. exfalso.
    assert (Hsd : (1 <= ss_sd s)%nat) by (rewrite (F eq_refl); lia).
    pose proof (Act Hf Hsd) as Q. destruct p as [| |[|[|[|[|[|k]]]]]| | |]; cbn in Hu, Q; discriminate.
  - intros j k. rewrite Er. destruct (Nat.eq_dec i j) as [<-|ne].
    + rewrite (nth_error_update_eq _ _ _ _ Hp). intros Hh. inversion Hh as [Hh'].
      apply (next_pc_not_half (ss_listening s) ok p k); [|exact Hh']. intros q Hq. subst p. eapply N; eauto.
    + rewrite nth_error_update_neq by assumption. apply N.
  - rewrite Et. destruct (uses_token p); exact NP.
Qed.

Ltac shsimp := cbn [ss_sd ss_begun ss_listening ss_called ss_forced ss_tok_closed ss_chan_closed ss_trace ss_returned ss_req ss_loop
                    has_close clean no_ping_after_close].

(* what a step of the shutdown goroutine / of the health loop can NOT change *)
Lemma gostep_frame waits ntok s :
  let s' := gostep_gen waits ntok s in
  ss_req s' = ss_req s /\ ss_file s' = ss_file s /\ ss_order s' = ss_order s /\ ss_loop s' = ss_loop s /\
  (ss_begun s = true -> ss_begun s' = true).
Proof.
  unfold gostep_gen. destruct (negb (ss_called s)); [repeat split; auto|].
  destruct (nth_error close_prog (ss_sd s)) as [c|]; [|repeat split; auto].
  destruct (c =? 2).
  - destruct (negb (ss_begun s)); [cbn; repeat split; auto|]. destruct (negb (existsb active (ss_req s))); [cbn; repeat split; auto|].
    destruct (daemon_shutdown_timeout <=? ss_now s - ss_shut_at s); cbn; repeat split; auto.
  - destruct waits; [|cbn; repeat split; auto]. destruct (negb (ss_chan_closed s)); [cbn; repeat split; auto|].
    destruct (ss_loop s) eqn:El; cbn; rewrite ?El; repeat split; auto.
Qed.
Lemma lstep_frame guard ntok timer s :
  let s' := lstep_gen guard ntok timer s in
  ss_req s' = ss_req s /\ ss_file s' = ss_file s /\ ss_order s' = ss_order s /\ ss_begun s' = ss_begun s /\
  ss_sd s' = ss_sd s /\ ss_called s' = ss_called s /\ ss_chan_closed s' = ss_chan_closed s /\ ss_tok_closed s' = ss_tok_closed s /\
  ss_listening s' = ss_listening s /\ ss_forced s' = ss_forced s /\ ss_returned s' = ss_returned s.
Proof.
  unfold lstep_gen. destruct (ss_loop s) as [|[|n]|n|].
  - destruct timer; [cbn; repeat split; auto|]. destruct (ss_chan_closed s) eqn:E; [destruct health_loop_exits_on_close|]; cbn; rewrite ?E; repeat split; auto.
  - cbn; repeat split; auto.
  - destruct (guard && ss_chan_closed s); cbn; repeat split; auto.
  - cbn; repeat split; auto.
  - repeat split; auto.
Qed.

Lemma shinv_go ntok s : ShInv s -> ShInv (gostep ntok s).
Proof.
  intros HI. pose proof HI as [A B C CC D F G H K R N TC NP]. unfold gostep, gostep_gen. rewrite waits_eq.
  destruct (ss_called s) eqn:Hc; cbn [negb]; [|exact HI].
  rewrite close_prog_eq.
  destruct (ss_sd s) as [|[|sd]] eqn:Hsd; cbn [nth_error Z.eqb Pos.eqb].
  - (* Shutdown *)
    assert (Hnc : ss_tok_closed s = false) by (destruct (ss_tok_closed s) eqn:E; [discriminate (F eq_refl)|reflexivity]).
    assert (Hnr : ss_returned s = false) by (destruct (ss_returned s) eqn:E; [discriminate (R eq_refl)|reflexivity]).
    destruct (ss_begun s) eqn:Hb; cbn [negb].
    + destruct (existsb active (ss_req s)) eqn:Hex; cbn [negb].
      * destruct (daemon_shutdown_timeout <=? ss_now s - ss_shut_at s); [|exact HI].
        constructor; shsimp.
        -- lia.
        -- intros _; auto.
        -- intros _; reflexivity.
        -- intros _; reflexivity.
        -- intros _; discriminate.
        -- rewrite Hnc; discriminate.
        -- discriminate.
        -- exact H.
        -- discriminate.
        -- rewrite Hnr; discriminate.
        -- exact N.
        -- exact TC.
        -- exact NP.
      * constructor; shsimp.
        -- lia.
        -- intros _; auto.
        -- intros _; reflexivity.
        -- intros _; reflexivity.
        -- intros _ _. apply existsb_forallb_neg. exact Hex.
        -- rewrite Hnc; discriminate.
        -- discriminate.
        -- exact H.
        -- exact K.
        -- rewrite Hnr; discriminate.
        -- exact N.
        -- exact TC.
        -- exact NP.
    + constructor; shsimp.
      * lia.
      * intros _; reflexivity.
      * lia.
      * intros _; reflexivity.
      * lia.
      * rewrite Hnc; discriminate.
      * discriminate.
      * exact H.
      * exact K.
      * rewrite Hnr; discriminate.
      * exact N.
      * exact TC.
      * exact NP.
  - (* server.Close: close the channel; wait for the loop; close the tokens *)
    assert (Hnc : ss_tok_closed s = false) by (destruct (ss_tok_closed s) eqn:E; [discriminate (F eq_refl)|reflexivity]).
    assert (Hnr : ss_returned s = false) by (destruct (ss_returned s) eqn:E; [discriminate (R eq_refl)|reflexivity]).
    destruct (ss_chan_closed s) eqn:Hch; cbn [negb].
    + destruct (ss_loop s) eqn:Hl; try exact HI.
      constructor; shsimp.
      * lia.
      * exact B.
      * intros _. apply C. lia.
      * exact CC.
      * intros _ Hf. apply D; [lia|exact Hf].
      * intros _; reflexivity.
      * intros _; auto.
      * reflexivity.
      * exact K.
      * rewrite Hnr; discriminate.
      * exact N.
      * intros _; auto.
      * exact NP.
    + constructor; shsimp.
      * lia.
      * exact B.
      * intros _. apply C. lia.
      * exact CC.
      * intros _ Hf. apply D; [lia|exact Hf].
      * rewrite Hnc; discriminate.
      * discriminate.
      * exact H.
      * exact K.
      * rewrite Hnr; discriminate.
      * exact N.
      * rewrite Hnc; discriminate.
      * exact NP.
  - assert (En : nth_error (@nil Z) sd = None) by (destruct sd; reflexivity). rewrite En. exact HI.
Qed.

Lemma shinv_set_loop s l : ShInv s -> ss_tok_closed s = false -> ShInv (set_loop s l).
Proof.
  intros [A B C CC D F G H K R N TC NP] Hnc. constructor; unfold set_loop; shsimp; try assumption.
  rewrite Hnc. discriminate.
Qed.
Lemma shinv_ping s e : ShInv s -> ss_tok_closed s = false -> e = TPing \/ e = TPong -> ShInv (add_trace s e).
Proof.
  intros [A B C CC D F G H K R N TC NP] Hnc He. constructor; unfold add_trace; shsimp; try assumption.
  - destruct He as [->| ->]; exact H.
  - intros Hf. destruct He as [->| ->]; cbn [clean]; auto.
  - destruct He as [->| ->]; cbn [no_ping_after_close]; rewrite H, Hnc, NP; reflexivity.
Qed.

Lemma shinv_loop ntok timer s : ShInv s -> ShInv (lstep ntok timer s).
Proof.
  intros HI. pose proof HI as [A B C CC D F G H K R N TC NP]. unfold lstep, lstep_gen.
  (* while the loop has not exited the tokens are open (this does not depend on healthCheck looking at the channel) *)
  assert (Open : ss_loop s <> LExit -> ss_tok_closed s = false).
  { intros Hn. destruct (ss_tok_closed s) eqn:E; [|reflexivity]. destruct (TC eq_refl) as [_ Hl]. contradiction. }
  destruct (ss_loop s) as [|[|n]|n|] eqn:Hl.
  - assert (Hnc : ss_tok_closed s = false) by (apply Open; discriminate).
    destruct timer; [apply shinv_set_loop; assumption|]. destruct (ss_chan_closed s); [|exact HI]. rewrite loop_exits. apply shinv_set_loop; assumption.
  - apply shinv_set_loop; [exact HI|apply Open; discriminate].
  - assert (Hnc : ss_tok_closed s = false) by (apply Open; discriminate).
    destruct (health_guard && ss_chan_closed s).
    + apply shinv_set_loop; assumption.
    + apply shinv_set_loop; [apply shinv_ping; auto|exact Hnc].
  - assert (Hnc : ss_tok_closed s = false) by (apply Open; discriminate).
    apply shinv_set_loop; [apply shinv_ping; auto|exact Hnc].
  - exact HI.
Qed.

Lemma shinv_step line ntok s e : ShInv s -> ShInv (sstep line ntok s e).
Proof.
  intros HI. destruct e as [i ok| | | |d|timer].
  - apply shinv_req; exact HI.
  - destruct HI as [A B C CC D F G H K R N TC NP]. unfold sstep; cbn [sstep_gen]. constructor; auto.
  - unfold sstep; cbn [sstep_gen]. apply shinv_go; exact HI.
  - pose proof HI as [A B C CC D F G H K R N TC NP]. unfold sstep; cbn [sstep_gen]. rewrite close_waits_eq, close_prog_eq.
    destruct (ss_called s && Nat.leb (length [2; 3]) (ss_sd s)) eqn:E; [|exact HI].
    apply andb_true_iff in E as [E1 E2]. apply Nat.leb_le in E2. cbn [length] in E2.
    constructor; shsimp; auto.
    intros _. lia.
  - destruct HI as [A B C CC D F G H K R N TC NP]. unfold sstep; cbn [sstep_gen]. constructor; auto.
  - unfold sstep; cbn [sstep_gen]. apply shinv_loop; exact HI.
Qed.
Lemma shinv_fold line ntok sched s : ShInv s -> ShInv (fold_left (sstep line ntok) sched s).
Proof. revert s; induction sched as [|e l IH]; intros s H; cbn; auto using shinv_step. Qed.
Lemma shinv_run line ntok n sched : ShInv (srun line ntok n sched).
Proof. apply shinv_fold, shinv_init. Qed.

(* ================= theorems ================= *)

(* the tokens are closed only after the last accepted handler has finished (unless the grace period ran out) *)
Lemma shutdown_waits_for_handlers : forall line ntok n sched i p,
  let s := srun line ntok n sched in
  ss_tok_closed s = true -> ss_forced s = false -> nth_error (ss_req s) i = Some p -> active p = false.
Proof.
  intros line ntok n sched i p s Hc Hf Hp. pose proof (shinv_run line ntok n sched) as HI. fold s in HI.
  assert (Hsd : (1 <= ss_sd s)%nat) by (rewrite (sh_closed_sd _ HI Hc); lia).
  pose proof (forallb_nth _ _ _ _ (sh_drained _ HI Hsd Hf) Hp) as Q. apply negb_true_iff in Q. exact Q.
Qed.

(* no handler touches a token after the tokens were closed *)
Lemma no_token_use_after_close : forall line ntok n sched,
  let s := srun line ntok n sched in ss_forced s = false -> clean (ss_trace s) = true.
Proof. intros line ntok n sched s Hf. apply (sh_clean _ (shinv_run line ntok n sched) Hf). Qed.

(* once Shutdown has begun nothing new is accepted, and the listener never reopens *)
Lemma no_accept_after_shutdown : forall line ntok n sched i ok,
  let s := srun line ntok n sched in
  ss_begun s = true -> nth_error (ss_req s) i = Some HNew ->
  nth_error (ss_req (sstep line ntok s (EReq i ok))) i = Some HRefused.
Proof.
  intros line ntok n sched i ok s Hb Hp. pose proof (shinv_run line ntok n sched) as HI. fold s in HI.
  unfold sstep; cbn [sstep_gen]. rewrite audit_atomic_eq, Hp.
  destruct (hstep_spec line i ok HNew s Hp) as (Er & _). rewrite Er. rewrite (nth_error_update_eq _ _ _ _ Hp).
  cbn [next_pc]. rewrite (sh_begun_listen _ HI Hb). reflexivity.
Qed.
Lemma begun_monotone line ntok e s : ss_begun s = true -> ss_begun (sstep line ntok s e) = true.
Proof.
  intros Hb. destruct e as [i ok| | | |d|timer]; unfold sstep; cbn [sstep_gen]; auto.
  - rewrite audit_atomic_eq. destruct (nth_error (ss_req s) i) as [p|] eqn:Hp; [|exact Hb].
    destruct (hstep_spec line i ok p s Hp) as (_ & _ & _ & _ & _ & _ & _ & E4 & _). rewrite E4. exact Hb.
  - destruct (gostep_frame server_close_waits_loop ntok s) as (_ & _ & _ & _ & Hg). auto.
  - destruct (ss_called s && (if close_waits then Nat.leb (length close_prog) (ss_sd s) else true)); exact Hb.
  - destruct (lstep_frame health_guard ntok timer s) as (_ & _ & _ & Hg & _). rewrite Hg. exact Hb.
Qed.

(* daemon.Close returns only after the tokens are closed, hence after every accepted handler has finished *)
Lemma close_returns_last : forall line ntok n sched,
  let s := srun line ntok n sched in
  ss_returned s = true ->
  ss_tok_closed s = true /\ ss_chan_closed s = true /\
  (ss_forced s = false -> forall i p, nth_error (ss_req s) i = Some p -> active p = false).
Proof.
  intros line ntok n sched s Hr. pose proof (shinv_run line ntok n sched) as HI. fold s in HI.
  destruct (sh_sd_closed _ HI (sh_returned _ HI Hr)) as [H1 H2]. repeat split; auto.
  intros Hf i p Hp. eapply shutdown_waits_for_handlers; eauto.
Qed.

(* shutdown never cancels, blocks or redirects a handler: events of others leave its program counter alone, and its own
   step depends only on its own state *)
Lemma handler_untouched : forall line ntok s e i,
  (forall ok, e <> EReq i ok) -> nth_error (ss_req (sstep line ntok s e)) i = nth_error (ss_req s) i.
Proof.
  intros line ntok s e i Hne. destruct e as [j ok| | | |d|timer]; unfold sstep; cbn [sstep_gen]; auto.
  - rewrite audit_atomic_eq. destruct (nth_error (ss_req s) j) as [p|] eqn:Hp; [|reflexivity].
    destruct (hstep_spec line j ok p s Hp) as (Er & _). rewrite Er.
    apply nth_error_update_neq. intros ->. eapply Hne; reflexivity.
  - destruct (gostep_frame server_close_waits_loop ntok s) as (Hg & _). rewrite Hg. reflexivity.
  - destruct (ss_called s && (if close_waits then Nat.leb (length close_prog) (ss_sd s) else true)); reflexivity.
  - destruct (lstep_frame health_guard ntok timer s) as (Hg & _). rewrite Hg. reflexivity.
Qed.
Lemma handler_own_step : forall line ntok s i ok p,
  nth_error (ss_req s) i = Some p -> active p = true ->
  nth_error (ss_req (sstep line ntok s (EReq i ok))) i = Some (next_pc true ok p).
Proof.
  intros line ntok s i ok p Hp Ha. unfold sstep; cbn [sstep_gen]. rewrite audit_atomic_eq, Hp.
  destruct (hstep_spec line i ok p s Hp) as (Er & _). rewrite Er, (nth_error_update_eq _ _ _ _ Hp).
  destruct p; try discriminate; reflexivity.
Qed.

(* every accepted request reaches the 200 response or an error response once it has been scheduled often enough,
   whatever else happens in between — shutdown included *)
Definition budget (p : hpc) : nat :=
  match p with HNew => 11 | HRun k => Nat.max 1 (9 - k) | HHalf k => 1 + Nat.max 1 (9 - S k) | _ => 0 end%nat.
Definition own (i : nat) (e : sev) : bool := match e with EReq j _ => Nat.eqb i j | _ => false end.
Lemma budget_zero p : budget p = 0%nat -> terminal p = true.
Proof. destruct p as [| |k|k| |]; unfold budget; intros H; auto; exfalso; lia. Qed.
Lemma budget_decreases l ok p : (0 < budget p)%nat -> (budget (next_pc l ok p) < budget p)%nat.
Proof.
  destruct p as [| |[|[|[|[|[|[|[|q]]]]]]]|q| |]; unfold budget, next_pc; intros H; try lia; try (destruct l; lia); try (destruct ok; lia).
Qed.
Lemma next_pc_terminal l ok p : terminal p = true -> next_pc l ok p = p.
Proof. destruct p; cbn; intros H; try discriminate; reflexivity. Qed.

Lemma accepted_request_completes : forall line ntok sched s i p,
  nth_error (ss_req s) i = Some p -> (budget p <= length (filter (own i) sched))%nat ->
  exists q, nth_error (ss_req (fold_left (sstep line ntok) sched s)) i = Some q /\ terminal q = true.
Proof.
  intros line ntok sched. induction sched as [|e l IH]; intros s i p Hp Hb.
  - cbn in Hb. exists p. split; [exact Hp|]. apply budget_zero. lia.
  - cbn [fold_left]. cbn [filter] in Hb. destruct (own i e) eqn:Ho.
    + destruct e as [j ok| | | |d|timer]; try discriminate. cbn in Ho. apply Nat.eqb_eq in Ho. subst j. cbn [length] in Hb.
      assert (Hstep : nth_error (ss_req (sstep line ntok s (EReq i ok))) i = Some (next_pc (ss_listening s) ok p)).
      { unfold sstep; cbn [sstep_gen]. rewrite audit_atomic_eq, Hp. destruct (hstep_spec line i ok p s Hp) as (Er & _).
        rewrite Er. apply (nth_error_update_eq _ _ _ _ Hp). }
      eapply IH; [exact Hstep|]. destruct (Nat.eq_dec (budget p) 0) as [Hz|Hnz].
      * rewrite (next_pc_terminal _ _ _ (budget_zero _ Hz)). lia.
      * pose proof (budget_decreases (ss_listening s) ok p ltac:(lia)). lia.
    + assert (Hsame : nth_error (ss_req (sstep line ntok s e)) i = Some p).
      { rewrite handler_untouched; [exact Hp|]. intros ok ->. cbn in Ho. rewrite Nat.eqb_refl in Ho. discriminate. }
      eapply IH; eauto.
Qed.


(* shutdown terminates: once every accepted handler has finished, three steps of the shutdown goroutine and the wait of
   the caller complete daemon.Close — from ANY reachable state *)

Lemma go_begin ntok s : ss_called s = true -> ss_sd s = 0%nat -> ss_begun s = false ->
  let s1 := gostep ntok s in ss_called s1 = true /\ ss_sd s1 = 0%nat /\ ss_begun s1 = true /\ ss_req s1 = ss_req s /\ ss_loop s1 = ss_loop s.
Proof.
  intros Hc Hsd Hb. unfold gostep, gostep_gen. rewrite Hc, Hsd, Hb, close_prog_eq. cbn [negb nth_error Z.eqb Pos.eqb]. repeat split; reflexivity.
Qed.
Lemma go_drain ntok s : ss_called s = true -> ss_sd s = 0%nat -> ss_begun s = true -> existsb active (ss_req s) = false ->
  let s1 := gostep ntok s in ss_called s1 = true /\ ss_sd s1 = 1%nat /\ ss_req s1 = ss_req s /\ ss_loop s1 = ss_loop s /\ ss_chan_closed s1 = ss_chan_closed s.
Proof.
  intros Hc Hsd Hb Hex. unfold gostep, gostep_gen. rewrite Hc, Hsd, Hb, Hex, close_prog_eq. cbn [negb nth_error Z.eqb Pos.eqb]. repeat split; reflexivity.
Qed.
Lemma go_close_chan ntok s : ss_called s = true -> ss_sd s = 1%nat -> ss_chan_closed s = false ->
  let s1 := gostep ntok s in ss_called s1 = true /\ ss_sd s1 = 1%nat /\ ss_chan_closed s1 = true /\ ss_loop s1 = ss_loop s.
Proof.
  intros Hc Hsd Hch. unfold gostep, gostep_gen. rewrite Hc, Hsd, Hch, waits_eq, close_prog_eq. cbn [negb nth_error Z.eqb Pos.eqb]. repeat split; reflexivity.
Qed.
Lemma go_close_tokens ntok s : ss_called s = true -> ss_sd s = 1%nat -> ss_chan_closed s = true -> ss_loop s = LExit ->
  let s1 := gostep ntok s in ss_called s1 = true /\ ss_sd s1 = 2%nat.
Proof.
  intros Hc Hsd Hch Hl. unfold gostep, gostep_gen. rewrite Hc, Hsd, Hch, Hl, waits_eq, close_prog_eq. cbn [negb nth_error Z.eqb Pos.eqb]. split; reflexivity.
Qed.
Lemma go_done ntok s : ss_sd s = 2%nat -> gostep ntok s = s.
Proof.
  intros Hsd. unfold gostep, gostep_gen. destruct (negb (ss_called s)); [reflexivity|]. rewrite Hsd, close_prog_eq. reflexivity.
Qed.
Lemma wait_returns line ntok s : ss_called s = true -> ss_sd s = 2%nat -> ss_returned (sstep line ntok s EWait) = true.
Proof.
  intros Hc Hsd. unfold sstep; cbn [sstep_gen]. rewrite Hc, Hsd, close_waits_eq, close_prog_eq. reflexivity.
Qed.
(* the health loop leaves within three of its own steps once the channel is closed (no timer firing in between) *)
Lemma loop_leaves ntok s : ss_chan_closed s = true ->
  let s3 := lstep ntok false (lstep ntok false (lstep ntok false s)) in
  ss_loop s3 = LExit /\ ss_called s3 = ss_called s /\ ss_sd s3 = ss_sd s /\ ss_chan_closed s3 = true.
Proof.
  intros Hch.
  assert (St : forall u, ss_chan_closed u = true ->
            ss_chan_closed (lstep ntok false u) = true /\ ss_called (lstep ntok false u) = ss_called u /\ ss_sd (lstep ntok false u) = ss_sd u /\
            match ss_loop u with
            | LWait | LExit => ss_loop (lstep ntok false u) = LExit
            | LCheck _ => ss_loop (lstep ntok false u) = LWait
            | LPing n => ss_loop (lstep ntok false u) = LCheck n
            end).
  { intros u Hu. destruct (lstep_frame health_guard ntok false u) as (_ & _ & _ & _ & F5 & F6 & F7 & _).
    fold (lstep ntok false u) in *. rewrite F7, F6, F5. repeat split; auto.
    unfold lstep, lstep_gen. rewrite guard_eq. destruct (ss_loop u) as [|[|n]|n|] eqn:El; rewrite ?Hu, ?loop_exits; cbn; auto. }
  destruct (St s Hch) as (C1 & K1 & D1 & L1).
  destruct (St _ C1) as (C2 & K2 & D2 & L2).
  destruct (St _ C2) as (C3 & K3 & D3 & L3).
  cbn zeta. rewrite K3, K2, K1, D3, D2, D1. repeat split; auto.
  destruct (ss_loop s) as [|k|n|].
  - rewrite L1 in L2. rewrite L2 in L3. exact L3.
  - rewrite L1 in L2. rewrite L2 in L3. exact L3.
  - rewrite L1 in L2. rewrite L2 in L3. exact L3.
  - rewrite L1 in L2. rewrite L2 in L3. exact L3.
Qed.

(* shutdown terminates from every reachable state once the handlers are done: the goroutine begins and drains Shutdown,
   closes the channel, the health loop leaves, the goroutine closes the tokens, the caller's wait returns *)
Definition finish_sched : list sev := [EGo; EGo; EGo; EHealth false; EHealth false; EHealth false; EGo; EGo; EWait].
Lemma sstep_go line ntok u : sstep line ntok u EGo = gostep ntok u. Proof. reflexivity. Qed.
Lemma sstep_health line ntok u t : sstep line ntok u (EHealth t) = lstep ntok t u. Proof. reflexivity. Qed.

(* three steps of the goroutine from any reachable quiet state: Shutdown is over and the channel is closed (the
   goroutine may already be waiting for the loop), or everything is already done *)
Lemma three_go ntok s : ShInv s -> ss_called s = true -> quiet s ->
  let u := gostep ntok (gostep ntok (gostep ntok s)) in
  ss_called u = true /\ ((ss_sd u = 1%nat /\ ss_chan_closed u = true) \/ ss_sd u = 2%nat).
Proof.
  intros HI Hc Hq.
  assert (Hex : existsb active (ss_req s) = false) by (apply existsb_forallb_neg; exact Hq).
  pose proof (sh_sd_le _ HI) as Hle.
  (* one step from sd = 1 *)
  assert (One : forall v, ss_called v = true -> ss_sd v = 1%nat ->
            ss_called (gostep ntok v) = true /\ ((ss_sd (gostep ntok v) = 1%nat /\ ss_chan_closed (gostep ntok v) = true) \/ ss_sd (gostep ntok v) = 2%nat)).
  { intros v Cv Sv. destruct (ss_chan_closed v) eqn:Hch.
    - destruct (ss_loop v) eqn:Hl.
      + assert (E : gostep ntok v = v) by (unfold gostep, gostep_gen; rewrite Cv, Sv, Hch, Hl, waits_eq, close_prog_eq; reflexivity). rewrite E. auto.
      + assert (E : gostep ntok v = v) by (unfold gostep, gostep_gen; rewrite Cv, Sv, Hch, Hl, waits_eq, close_prog_eq; reflexivity). rewrite E. auto.
      + assert (E : gostep ntok v = v) by (unfold gostep, gostep_gen; rewrite Cv, Sv, Hch, Hl, waits_eq, close_prog_eq; reflexivity). rewrite E. auto.
      + destruct (go_close_tokens ntok v Cv Sv Hch Hl) as (C1 & S1). auto.
    - destruct (go_close_chan ntok v Cv Sv Hch) as (C1 & S1 & H1 & _). auto. }
  (* one step from the disjunction *)
  assert (Next : forall v, ss_called v = true /\ ((ss_sd v = 1%nat /\ ss_chan_closed v = true) \/ ss_sd v = 2%nat) ->
            ss_called (gostep ntok v) = true /\ ((ss_sd (gostep ntok v) = 1%nat /\ ss_chan_closed (gostep ntok v) = true) \/ ss_sd (gostep ntok v) = 2%nat)).
  { intros v (Cv & [[Sv Hv]|Sv]); [apply One; assumption|]. rewrite (go_done ntok v Sv). auto. }
  cbn zeta. destruct (ss_sd s) as [|[|[|sd]]] eqn:Hsd; [| | |lia].
  - destruct (ss_begun s) eqn:Hb.
    + destruct (go_drain ntok s Hc Hsd Hb Hex) as (C1 & S1 & _). apply Next. apply One; assumption.
    + destruct (go_begin ntok s Hc Hsd Hb) as (C1 & S1 & B1 & R1 & _).
      assert (Hex1 : existsb active (ss_req (gostep ntok s)) = false) by (rewrite R1; exact Hex).
      destruct (go_drain ntok _ C1 S1 B1 Hex1) as (C2 & S2 & _). apply One; assumption.
  - apply Next. apply Next. apply One; assumption.
  - rewrite !(go_done ntok s Hsd). auto.
Qed.

Lemma shutdown_completes : forall line ntok s,
  ShInv s -> ss_called s = true -> quiet s ->
  ss_returned (fold_left (sstep line ntok) finish_sched s) = true.
Proof.
  intros line ntok s HI Hc Hq. unfold finish_sched. cbn [fold_left]. rewrite !sstep_go, !sstep_health.
  destruct (three_go ntok s HI Hc Hq) as (Cu & Hu). set (u := gostep ntok (gostep ntok (gostep ntok s))) in *.
  destruct Hu as [[Su Hch]|Su].
  - destruct (loop_leaves ntok u Hch) as (L3 & K3 & D3 & C3). set (w := lstep ntok false (lstep ntok false (lstep ntok false u))) in *.
    rewrite Cu in K3. rewrite Su in D3.
    destruct (go_close_tokens ntok w K3 D3 C3 L3) as (C4 & S4).
    rewrite (go_done ntok _ S4). apply wait_returns; assumption.
  - (* already done: nothing moves any more *)
    assert (Fr : forall v, ss_called v = true -> ss_sd v = 2%nat -> ss_called (lstep ntok false v) = true /\ ss_sd (lstep ntok false v) = 2%nat).
    { intros v Cv Sv. destruct (lstep_frame health_guard ntok false v) as (_ & _ & _ & _ & F5 & F6 & _). fold (lstep ntok false v) in *. rewrite F5, F6. auto. }
    destruct (Fr u Cu Su) as (C1 & S1). destruct (Fr _ C1 S1) as (C2 & S2). destruct (Fr _ C2 S2) as (C3 & S3).
    rewrite (go_done ntok _ S3), (go_done ntok _ S3). apply wait_returns; assumption.
Qed.

(* ---- where the full statement does NOT hold in the faithful model *)
(* the grace period is bounded (generated constant, 5 minutes): a handler that runs longer sees its token closed *)
Lemma shutdown_grace_period_refuted : exists sched,
  let s := srun (fun _ => []) 1 1 sched in
  ss_forced s = true /\ clean (ss_trace s) = false /\ ss_tok_closed s = true.
Proof.
  exists [EReq 0 true; EReq 0 true; EReq 0 true; EReq 0 true; EShutdown; EGo; ETick daemon_shutdown_timeout; EGo; EGo; EHealth false; EGo; EReq 0 true].
  vm_compute. auto.
Qed.

(* the health loop never pings a token after the tokens were closed, and no ping is still running then *)
Lemma no_health_ping_after_close : forall line ntok n sched, no_ping_after_close (ss_trace (srun line ntok n sched)) = true.
Proof. intros. apply (sh_noping _ (shinv_run line ntok n sched)). Qed.
(* why both the wait in server.Close and the look at the channel before every ping are there: without the wait a check
   that is under way pings a token after its Close *)
Lemma health_ping_needs_the_wait : exists sched,
  let s := srun_gen true false true (fun _ => []) 2 0 sched in
  ss_forced s = false /\ no_ping_after_close (ss_trace s) = false.
Proof.
  exists [EHealth true; EHealth true; EShutdown; EGo; EGo; EGo; EHealth true]. vm_compute. auto.
Qed.

(* ---- the audit file *)
Definition render (line : nat -> list Z) (order : list nat) : list Z := concat (map (fun i => line i ++ [nl]) order).
Lemma split_nl_line l : ~ In nl l -> forall acc rest,
  split_nl acc (l ++ nl :: rest) = (let '(ls, r) := split_nl [] rest in ((acc ++ l) :: ls, r)).
Proof.
  induction l as [|b l IH]; intros Hn acc rest.
  - cbn [app split_nl]. unfold nl at 1. rewrite Z.eqb_refl. rewrite app_nil_r. reflexivity.
  - cbn [app split_nl]. assert (E : (b =? nl) = false) by (apply Z.eqb_neq; intros ->; apply Hn; left; reflexivity).
    rewrite E. rewrite IH by (intros H; apply Hn; right; exact H). rewrite <- app_assoc. reflexivity.
Qed.
Lemma read_render line order : (forall i, ~ In nl (line i)) -> read_lines (render line order) = (map line order, []).
Proof.
  intros Hn. unfold read_lines, render. induction order as [|i r IH]; [reflexivity|].
  cbn [map concat]. rewrite <- app_assoc. cbn [app]. rewrite (split_nl_line (line i) (Hn i) [] _). rewrite IH. reflexivity.
Qed.

Definition aud (p : hpc) : bool := match p with HRun k => Nat.leb 6 k | HHalf _ => true | HDone => true | _ => false end.
Lemma audited_eq p : audited p = aud p.
Proof.
  destruct p as [| |k|k| |]; try reflexivity. unfold audited, aud. rewrite serve_table.
  destruct (Nat.leb 6 k) eqn:E.
  - apply Nat.leb_le in E. apply existsb_exists. exists 5%nat. split; [apply in_seq; lia|reflexivity].
  - apply Nat.leb_gt in E. destruct (existsb _ (seq 0 k)) eqn:Ex; [|reflexivity].
    apply existsb_exists in Ex as (j & Hj & Hv). apply in_seq in Hj.
    destruct j as [|[|[|[|[|[|[|j]]]]]]]; cbn in Hv; try discriminate; [lia|destruct j; discriminate].
Qed.

Record AuInv (line : nat -> list Z) (s : sstate) : Prop := mkAuInv {
  au_file : ss_file s = render line (rev (ss_order s));
  au_nodup : NoDup (ss_order s);
  au_iff : forall i p, nth_error (ss_req s) i = Some p -> (In i (ss_order s) <-> aud p = true);
  au_len : forall i, In i (ss_order s) -> (i < length (ss_req s))%nat
}.
Lemma render_snoc line o i : render line (o ++ [i]) = render line o ++ line i ++ [nl].
Proof. unfold render. rewrite map_app, concat_app. cbn. rewrite app_nil_r. reflexivity. Qed.

Lemma next_pc_aud l ok p : (forall q, p <> HHalf q) -> aud (next_pc l ok p) = aud p || appends ok p.
Proof.
  intros Hn. destruct p as [| |[|[|[|[|[|[|[|q]]]]]]]|q| |]; cbn; try reflexivity; try (destruct l; reflexivity); try (destruct ok; reflexivity).
  exfalso. eapply Hn; reflexivity.
Qed.

Lemma auinv_step line ntok s e : ShInv s -> AuInv line s -> AuInv line (sstep line ntok s e).
Proof.
  intros HS [Af An Ai Al]. destruct e as [i ok| | | |d|timer]; unfold sstep; cbn [sstep_gen].
  - rewrite audit_atomic_eq. destruct (nth_error (ss_req s) i) as [p|] eqn:Hp; [|constructor; assumption].
    destruct (hstep_spec line i ok p s Hp) as (Er & _ & Ef & Eo & _).
    assert (Hlen : length (update (ss_req s) i (next_pc (ss_listening s) ok p)) = length (ss_req s)) by apply length_update.
    assert (Hi : (i < length (ss_req s))%nat) by (apply nth_error_Some; congruence).
    destruct (appends ok p) eqn:Ha.
    + assert (Hp5 : p = HRun 5) by (destruct p as [| |[|[|[|[|[|[|q]]]]]]|q| |]; cbn in Ha; try discriminate; reflexivity). subst p.
      assert (Hnot : ~ In i (ss_order s)) by (intros Hin; apply (Ai i _ Hp) in Hin; discriminate).
      constructor; rewrite ?Er, ?Ef, ?Eo.
      * cbn [rev]. rewrite render_snoc, Af. reflexivity.
      * constructor; assumption.
      * intros j q Hq. destruct (Nat.eq_dec i j) as [<-|ne].
        -- rewrite (nth_error_update_eq _ _ _ _ Hp) in Hq. inversion Hq; subst q. destruct ok; [|discriminate]. cbn. split; auto.
        -- rewrite nth_error_update_neq in Hq by assumption. rewrite <- (Ai j q Hq). cbn [In]. split; [intros [H|H]; [congruence|exact H]|auto].
      * intros j [<-|Hj]; rewrite Hlen; auto.
    + assert (Hf : ss_file (hstep true line i ok p s) = ss_file s).
      { rewrite Ef. destruct p as [| |k|k| |]; try reflexivity. exfalso. eapply (sh_nohalf _ HS); eauto. }
      constructor; rewrite ?Er, ?Hf, ?Eo; auto.
      * intros j q Hq. destruct (Nat.eq_dec i j) as [<-|ne].
        -- rewrite (nth_error_update_eq _ _ _ _ Hp) in Hq. inversion Hq; subst q. rewrite next_pc_aud, Ha, orb_false_r; [apply Ai; exact Hp|]. intros q ->. eapply (sh_nohalf _ HS); eauto.
        -- rewrite nth_error_update_neq in Hq by assumption. apply Ai; exact Hq.
      * intros j Hj. rewrite Hlen. auto.
  - constructor; assumption.
  - destruct (gostep_frame server_close_waits_loop ntok s) as (F1 & F2 & F3 & _).
    constructor; rewrite ?F1, ?F2, ?F3; assumption.
  - destruct (ss_called s && (if close_waits then Nat.leb (length close_prog) (ss_sd s) else true)); constructor; assumption.
  - constructor; assumption.
  - destruct (lstep_frame health_guard ntok timer s) as (F1 & F2 & F3 & _).
    constructor; rewrite ?F1, ?F2, ?F3; assumption.
Qed.

Lemma auinv_run line ntok n sched : AuInv line (srun line ntok n sched).
Proof.
  unfold srun. assert (H0 : AuInv line (sinit n)).
  { constructor; cbn [sinit ss_file ss_order ss_req rev].
    - reflexivity.
    - constructor.
    - intros j p H. apply nth_error_In, repeat_spec in H. subst p. cbn. split; [contradiction|discriminate].
    - intros j []. }
  pose proof (shinv_init n) as S0. revert H0 S0. generalize (sinit n).
  induction sched as [|e l IH]; intros s H S; cbn [fold_left]; [exact H|].
  apply IH; [apply auinv_step; assumption|apply shinv_step; assumption].
Qed.

(* under every interleaving (shutdown included) the audit file consists of complete lines only, one per request whose
   audit step succeeded, none mixed with another, none lost, none twice *)
Lemma audit_one_line_per_request : forall line ntok n sched,
  (forall i, ~ In nl (line i)) ->
  let s := srun line ntok n sched in
  read_lines (ss_file s) = (map line (rev (ss_order s)), []) /\
  NoDup (rev (ss_order s)) /\
  (forall i p, nth_error (ss_req s) i = Some p -> (In i (rev (ss_order s)) <-> audited p = true)).
Proof.
  intros line ntok n sched Hn s. destruct (auinv_run line ntok n sched) as [Af An Ai Al]. fold s in Af, An, Ai, Al.
  split; [rewrite Af; apply read_render; exact Hn|]. split; [apply NoDup_rev; exact An|].
  intros i p Hp. rewrite audited_eq, <- in_rev. apply Ai; exact Hp.
Qed.

(* why the single write matters: were the newline written separately, two appends could interleave into one line *)
Lemma audit_two_writes_refuted : exists sched,
  let s := srun_gen false true true (fun i => [Z.of_nat i + 65]) 0 2 sched in
  read_lines (ss_file s) = ([[65; 66]; []], []).
Proof.
  exists [EReq 0 true; EReq 1 true; EReq 0 true; EReq 1 true; EReq 0 true; EReq 1 true; EReq 0 true; EReq 1 true;
          EReq 0 true; EReq 1 true; EReq 0 true; EReq 1 true; EReq 0 true; EReq 1 true; EReq 0 true; EReq 1 true].
  vm_compute. reflexivity.
Qed.

(* remaining source facts the model relies on: Serve runs inside the errgroup the caller of Close waits on; AppendTo
   opens, marshals, appends the newline and writes — in that order *)
Lemma serve_and_append_shape : daemon_serve_calls = [0; 1; 1; 2] /\ daemon_serve_in_group = true /\ append_order = [0; 1; 2; 3].
Proof. repeat split; reflexivity. Qed.
