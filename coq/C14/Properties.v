(* C14/Properties.v — property theorems only; each closed by a lemma of C14/Proofs.v. *)
From Relic Require Import Base.Prelude Generated.C14_gen C14.Model C14.Proofs.
From Relic Require C14.ModelCache C14.ProofsCache C14.ModelRate C14.ProofsRate C14.ModelShut C14.ProofsShut C14.ModelInit C14.ProofsInit C14.ModelProc C14.ProofsProc.
From Coq Require Import Permutation Sorted.

(* every request that completes receives exactly what it would receive alone: signature over ITS body with ITS key
   (the key its name denotes) and ITS options — for every number of requests and every interleaving *)
Theorem isolation : forall tok rqs sched i rq s,
  nth_error rqs i = Some rq ->
  option_map response (nth_error (fst (run tok rqs sched)) i) = Some (Some s) ->
  s = isolated tok rq.
Proof. exact C14.Proofs.isolation. Qed.

(* the shared key cache only ever holds the token's key for a name *)
Theorem cache_consistent : forall tok rqs sched n k,
  cache_lookup n (sh_cache (snd (run tok rqs sched))) = Some k -> k = tok n.
Proof. exact C14.Proofs.cache_consistent. Qed.

(* no audit record is lost or mixed up: when every request has completed, the log is a permutation of one correct
   record per request *)
Theorem no_lost_audit : forall tok rqs sched,
  Forall (fun p => exists s, p = PDone s) (fst (run tok rqs sched)) ->
  Permutation (sh_log (snd (run tok rqs sched)))
              (map (fun rq => mkRec (q_name rq) (tok (q_name rq)) (q_body rq)) rqs).
Proof. exact C14.Proofs.no_lost_audit. Qed.

(* no deadlock in the model: an unfinished request can always take a step that advances it *)
Theorem progress : forall tok rqs s i rq p,
  nth_error rqs i = Some rq -> nth_error (fst s) i = Some p -> (forall sg, p <> PDone sg) ->
  nth_error (fst (sys_step tok rqs s i)) i <> Some p.
Proof. exact C14.Proofs.progress. Qed.

(* Close runs its body exactly once however many callers race for it *)
Theorem closeonce_once : forall callers, (1 <= callers)%nat -> close_calls callers false 0 = (true, 1%nat).
Proof. exact C14.Proofs.closeonce_once. Qed.

(* locks are never nested in a cycle; shutdown waits for handlers before closing tokens; request objects are per request *)
Theorem lock_graph_acyclic : acyclic lock_edges = true.
Proof. exact C14.Proofs.lock_graph_acyclic. Qed.
Theorem shutdown_order : shutdown_then_close = true.
Proof. exact C14.Proofs.shutdown_order. Qed.
Theorem per_request_objects : flags_fresh_per_request = true /\ cache_unlock_deferred = true.
Proof. exact C14.Proofs.per_request_objects. Qed.

Example two_requests_interleaved :
  let tok := fun n => n * 100 in
  let rqs := [mkRq 1 11 5; mkRq 2 22 6; mkRq 1 33 7] in
  map response (fst (run tok rqs [0; 1; 2; 2; 1; 0; 0; 2; 1; 1; 0; 2]%nat)) =
  [Some (mkSig 100 11 5); Some (mkSig 200 22 6); Some (mkSig 100 33 7)].
Proof. vm_compute. reflexivity. Qed.


(* =====================================================================================================================
   (a) token/tokencache/cache.go with time: expiry, pinned key ids, the mutex — over every interleaving of GetKey calls
   and clock advances *)
Section CacheProps.
Import C14.ModelCache C14.ProofsCache.

(* LINEARIZABILITY. For every expiry, token, list of requests and schedule (thread steps, token failures, clock ticks):
   running the sequential specification seq_get over the operations in the order they took effect gives the cache the
   concurrent run ends with and, for every completed call, the result it returned; every call is in that order exactly
   once, took effect after it was invoked and before it returned, and the order follows the (non-decreasing) clock *)
Theorem cache_linearizable : forall E tok rqs sched,
  let s := crun E tok rqs sched in
  fst (seq_run E tok rqs (history s)) = cs_cache s /\
  (forall i t r, nth_error (cs_thr s) i = Some t -> cresult t = Some r -> In (i, r) (snd (seq_run E tok rqs (history s)))) /\
  NoDup (map l_thread (history s)) /\
  (forall o, In o (history s) -> exists t a,
       nth_error (cs_thr s) (l_thread o) = Some t /\ t_inv t = Some a /\ (a < l_stamp o)%nat /\
       (forall x, t_res t = Some x -> (l_stamp o < x)%nat)) /\
  StronglySorted hist_order (history s).
Proof. exact C14.ProofsCache.cache_linearizable. Qed.

(* ... consistent with real time: a call that returned before another was invoked precedes it in the sequential order *)
Theorem cache_realtime : forall E tok rqs sched oa ob ta tb x y,
  let s := crun E tok rqs sched in
  In oa (history s) -> In ob (history s) ->
  nth_error (cs_thr s) (l_thread oa) = Some ta -> t_res ta = Some x ->
  nth_error (cs_thr s) (l_thread ob) = Some tb -> t_inv tb = Some y ->
  (x < y)%nat ->
  exists l1 l2 l3, history s = l1 ++ oa :: l2 ++ ob :: l3.
Proof. exact C14.ProofsCache.cache_realtime. Qed.

(* never a key belonging to another name (given a token that hands out keys of the name it is asked for) *)
Theorem cache_never_foreign_key : forall E tok rqs sched i t rq k,
  tok_owner tok ->
  nth_error (cs_thr (crun E tok rqs sched)) i = Some t -> nth_error rqs i = Some rq ->
  cresult t = Some (Some k) -> k_name k = c_name rq.
Proof. exact C14.ProofsCache.cache_never_foreign_key. Qed.

(* a lookup that pins a key id never returns a key with a different id — under every interleaving with un-pinned
   lookups of the same name — and never populates the cache *)
Theorem cache_pinned_id : forall E tok rqs sched i t rq k,
  tok_pin tok ->
  nth_error (cs_thr (crun E tok rqs sched)) i = Some t -> nth_error rqs i = Some rq -> c_pin rq <> 0 ->
  cresult t = Some (Some k) -> k_id k = c_pin rq.
Proof. exact C14.ProofsCache.cache_pinned_id. Qed.
Theorem cache_pinned_no_store : forall E tok rq i fok t s,
  c_pin rq <> 0 -> cs_cache (cthread E tok rq i fok t s) = cs_cache s.
Proof. exact C14.ProofsCache.cache_pinned_no_store. Qed.

(* no entry outlives the configured expiry; expiry <= 0 caches nothing *)
Theorem cache_expiry_bounded : forall E tok rqs sched,
  let s := crun E tok rqs sched in
  (forall e, In e (cs_cache s) -> e_exp e <= cs_now s + E) /\ (E <= 0 -> cs_cache s = []).
Proof. exact C14.ProofsCache.cache_expiry_bounded. Qed.

(* the mutex: at most one call is between Lock and Unlock; and no deadlock: while some call is unfinished some thread
   can take a step that advances it *)
Theorem cache_mutex : forall E tok rqs sched i j ti tj,
  let s := crun E tok rqs sched in
  nth_error (cs_thr s) i = Some ti -> nth_error (cs_thr s) j = Some tj ->
  in_section (t_pc ti) = true -> in_section (t_pc tj) = true -> i = j.
Proof. exact C14.ProofsCache.cache_mutex. Qed.
Theorem cache_deadlock_free : forall E tok rqs sched i t,
  let s := crun E tok rqs sched in
  nth_error (cs_thr s) i = Some t -> (forall r, t_pc t <> CDone r) ->
  exists j tj tj', nth_error (cs_thr s) j = Some tj /\
                   nth_error (cs_thr (cstep E tok rqs s (CStep j true))) j = Some tj' /\ t_pc tj' <> t_pc tj.
Proof. exact C14.ProofsCache.cache_deadlock_free. Qed.

(* non-vacuity: a token satisfying both hypotheses; a schedule with a hit, an expiry between two requests, a pinned
   lookup while the entry is live, and a token failure *)
Definition ex_tok : tokenT := fun n p => Some (mkKey n (if p =? 0 then 7 else p)).
Example ex_tok_ok : tok_owner ex_tok /\ tok_pin ex_tok.
Proof.
  split; intros n p k H; inversion H; subst; cbn; auto. intros Hp. destruct (p =? 0) eqn:E; [apply Z.eqb_eq in E; contradiction|reflexivity].
Qed.
Example ex_cache_run :
  let rqs := [mkCReq 1 0; mkCReq 1 0; mkCReq 1 9; mkCReq 1 0; mkCReq 2 0] in
  let st := fun i => [CStep i true; CStep i true; CStep i true; CStep i true; CStep i true; CStep i true] in
  let s := crun 10 ex_tok rqs (st 0%nat ++ st 1%nat ++ st 2%nat ++ [CTick 10] ++ st 3%nat ++
                               [CStep 4 true; CStep 4 true; CStep 4 true; CStep 4 false; CStep 4 true]) in
  map cresult (cs_thr s) = [Some (Some (mkKey 1 7)); Some (Some (mkKey 1 7)); Some (Some (mkKey 1 9)); Some (Some (mkKey 1 7)); Some None] /\
  map t_fetched (cs_thr s) = [true; false; true; true; true] /\
  map e_exp (cs_cache s) = [20; 10].
Proof. vm_compute. auto. Qed.
End CacheProps.

(* =====================================================================================================================
   (b) token/tokencache/ratelimit.go: the limiter as a state machine over a clock *)
Section RateProps.
Import C14.ModelRate C14.ProofsRate.

(* THE WINDOW BOUND over any history of calls: operations admitted from the i-th to the j-th admitted one never exceed
   burst + rate * (act_j - act_i), up to the truncation of a wait to whole time units (rate - 1 token-units, less than
   one operation when rate < unit) and the credit for clock readings that reached the limiter out of order *)
Theorem rl_window_bound : forall L calls pre ei mid ej post,
  wf L -> run L calls = pre ++ ei :: mid ++ ej :: post ->
  lm_unit L * (zlen mid + 2) <=
    lm_unit L * lm_burst L + lm_rate L * (ev_act ej - ev_act ei)
    + lm_rate L * down_path (ev_t ei :: map ev_t mid ++ [ev_t ej]) + (lm_rate L - 1).
Proof. exact C14.ProofsRate.rl_window_bound. Qed.
Theorem rl_window_bound_ordered : forall L calls pre ei mid ej post,
  wf L -> run L calls = pre ++ ei :: mid ++ ej :: post ->
  nondecreasing (ev_t ei :: map ev_t mid ++ [ev_t ej]) ->
  lm_unit L * (zlen mid + 2) <= lm_unit L * lm_burst L + lm_rate L * (ev_act ej - ev_act ei) + (lm_rate L - 1).
Proof. exact C14.ProofsRate.rl_window_bound_ordered. Qed.
(* the plain bound is FALSE for arbitrary interleavings of "read the clock" and "reserve": concrete witness *)
Theorem rl_strict_bound_refuted : exists L calls ei ej,
  wf L /\ run L calls = [ei; mkEv 0 1 (-1); ej] /\
  ~ (lm_unit L * 2 <= lm_unit L * lm_burst L + lm_rate L * (ev_act ej - ev_act ei) + (lm_rate L - 1)) /\
  ev_act ei = ev_act ej.
Proof. exact C14.ProofsRate.rl_strict_bound_refuted. Qed.

(* no lost token, no negative wait: an admitted operation costs exactly one unit on top of the capped refill and waits
   between 0 and debt/rate; a rejected one leaves the limiter untouched *)
Theorem rl_accounting : forall L t mw L' res, wf L -> reserve L t mw = (L', res) ->
  (r_ok res = true ->
     lm_tokens L' = Z.min (lm_burst L * lm_unit L) (lm_tokens L + lm_rate L * Z.max 0 (t - lm_last L)) - lm_unit L /\
     t <= r_act res /\ lm_rate L * (r_act res - t) <= Z.max 0 (- lm_tokens L')) /\
  (r_ok res = false -> L' = L).
Proof. exact C14.ProofsRate.rl_accounting. Qed.

(* progress: a caller that accepts the wait is admitted, its time to act is fixed when it reserves, and it proceeds as
   soon as the clock gets there, whatever other callers do; relic's burst floor keeps the limiter well formed *)
Theorem rl_admits : forall L t mw, wf L -> wait_of L (advance L t - lm_unit L) <= mw -> r_ok (snd (reserve L t mw)) = true.
Proof. exact C14.ProofsRate.rl_admits. Qed.
Theorem rl_progress : forall mw s i a, nth_error (rs_thr s) i = Some (RSleep a) -> a <= rs_now s ->
  nth_error (rs_thr (rstep mw s (RStep i))) i = Some (RDone (rs_now s)).
Proof. exact C14.ProofsRate.rl_progress. Qed.
Theorem rl_burst_floor_ok : forall rate unit burst, 1 <= rate -> 1 <= unit -> wf (relic_new_limiter rate unit burst).
Proof. exact C14.ProofsRate.rl_burst_floor_ok. Qed.
(* ... but NOT for tokencache.NewLimiter called directly with a rate <= 0 (the server no longer does: server_limiter_wf):
   the second caller is told to wait InfDuration — a documented restriction of the domain, rate > 0 *)
Theorem rl_progress_refuted_nonpositive_rate : exists L calls e1 e2,
  lm_rate L <= 0 /\ run L calls = [e1; e2] /\ ev_act e2 - ev_t e2 = rate_inf_duration.
Proof. exact C14.ProofsRate.rl_progress_refuted_nonpositive_rate. Qed.

(* relic's wrapper: every GetKey / Sign / SignContext is one reservation on the one shared limiter *)
Theorem relic_ops_eq_run : forall calls L, relic_ops L calls = run L (map (fun c => (snd (fst c), snd c)) calls).
Proof. exact C14.ProofsRate.relic_ops_eq_run. Qed.
(* every schedule of the interleaving machine is a history of [run] (so the window bound covers it) *)
Theorem rl_conc_state : forall mw L n sched, rs_lim (rrun mw L n sched) = state_after L (rev (rs_calls (rrun mw L n sched))).
Proof. exact C14.ProofsRate.rl_conc_state. Qed.
(* the executable window check applied to the real limiter's output is sound for the declarative bound *)
Theorem window_ok_sound : forall rate unit burst slack acts, window_ok rate unit burst slack acts = true ->
  forall pre ai mid aj post, acts = pre ++ ai :: mid ++ aj :: post ->
  unit * (zlen mid + 2) <= unit * burst + rate * (aj - ai) + slack.
Proof. exact C14.ProofsRate.window_ok_sound. Qed.

Theorem server_wiring :
  open_tokens_calls = [2; 0; 1; 2] /\ open_tokens_limiter_args = true /\ open_tokens_cache_args = true /\
  (forall r, rl_enabled r = (r >? 0)) /\ rl_newlimiter_args = true /\ rl_struct_plain = true.
Proof. exact C14.ProofsRate.server_wiring. Qed.
Theorem server_limiter_wf : forall rate unit burst, rl_enabled rate = true -> 1 <= unit -> wf (relic_new_limiter rate unit burst).
Proof. exact C14.ProofsRate.server_limiter_wf. Qed.

Example ex_rate_run :   (* 2 operations per 10 ticks, burst 2: five calls at t = 0 act at 0 0 5 10 15 *)
  map ev_act (run (relic_new_limiter 2 10 2) [(0, 1000); (0, 1000); (0, 1000); (0, 1000); (0, 1000)]) = [0; 0; 5; 10; 15] /\
  wf (relic_new_limiter 2 10 2) /\ window_ok 2 10 2 1 [0; 0; 5; 10; 15] = true /\ window_ok 2 10 2 1 [0; 0; 4; 10; 15] = false.
Proof. vm_compute. repeat split; auto; discriminate. Qed.
End RateProps.

(* =====================================================================================================================
   (c) shutdown at any moment, (d) the audit file under concurrency *)
Section ShutProps.
Import C14.ModelShut C14.ProofsShut.

(* the tokens are closed only after the last accepted handler has finished (within the grace period) *)
Theorem shutdown_waits_for_handlers : forall line ntok n sched i p,
  let s := srun line ntok n sched in
  ss_tok_closed s = true -> ss_forced s = false -> nth_error (ss_req s) i = Some p -> active p = false.
Proof. exact C14.ProofsShut.shutdown_waits_for_handlers. Qed.
(* no handler uses a token after Close *)
Theorem no_token_use_after_close : forall line ntok n sched,
  let s := srun line ntok n sched in ss_forced s = false -> clean (ss_trace s) = true.
Proof. exact C14.ProofsShut.no_token_use_after_close. Qed.
(* nothing is accepted once Shutdown has begun *)
Theorem no_accept_after_shutdown : forall line ntok n sched i ok,
  let s := srun line ntok n sched in
  ss_begun s = true -> nth_error (ss_req s) i = Some HNew ->
  nth_error (ss_req (sstep line ntok s (EReq i ok))) i = Some HRefused.
Proof. exact C14.ProofsShut.no_accept_after_shutdown. Qed.
(* daemon.Close returns last *)
Theorem close_returns_last : forall line ntok n sched,
  let s := srun line ntok n sched in
  ss_returned s = true ->
  ss_tok_closed s = true /\ ss_chan_closed s = true /\
  (ss_forced s = false -> forall i p, nth_error (ss_req s) i = Some p -> active p = false).
Proof. exact C14.ProofsShut.close_returns_last. Qed.
(* a Shutdown event anywhere in the schedule neither cancels nor blocks a handler: every accepted request reaches the
   200 response or an error response once scheduled often enough, whatever is interleaved *)
Theorem handler_untouched : forall line ntok s e i,
  (forall ok, e <> EReq i ok) -> nth_error (ss_req (sstep line ntok s e)) i = nth_error (ss_req s) i.
Proof. exact C14.ProofsShut.handler_untouched. Qed.
Theorem accepted_request_completes : forall line ntok sched s i p,
  nth_error (ss_req s) i = Some p -> (budget p <= length (filter (own i) sched))%nat ->
  exists q, nth_error (ss_req (fold_left (sstep line ntok) sched s)) i = Some q /\ terminal q = true.
Proof. exact C14.ProofsShut.accepted_request_completes. Qed.
(* and shutdown itself terminates from every reachable state once the handlers are done *)
Theorem shutdown_completes : forall line ntok s,
  ShInv s -> ss_called s = true -> quiet s ->
  ss_returned (fold_left (sstep line ntok) finish_sched s) = true.
Proof. exact C14.ProofsShut.shutdown_completes. Qed.
Theorem reachable_states_satisfy_ShInv : forall line ntok n sched, ShInv (srun line ntok n sched).
Proof. exact C14.ProofsShut.shinv_run. Qed.

(* where the full statement fails in the faithful model *)
Theorem shutdown_grace_period_refuted : exists sched,
  let s := srun (fun _ => []) 1 1 sched in
  ss_forced s = true /\ clean (ss_trace s) = false /\ ss_tok_closed s = true.
Proof. exact C14.ProofsShut.shutdown_grace_period_refuted. Qed.
(* the health loop: no ping of a token begins, and none is still running, after the tokens were closed — under every
   schedule (server.Close waits for the loop; healthCheck looks at the closed channel before every ping) *)
Theorem no_health_ping_after_close : forall line ntok n sched, no_ping_after_close (ss_trace (srun line ntok n sched)) = true.
Proof. exact C14.ProofsShut.no_health_ping_after_close. Qed.
(* without the wait in server.Close a check that is under way pings a closed token (the behaviour before aed4bdd) *)
Theorem health_ping_needs_the_wait : exists sched,
  let s := srun_gen true false true (fun _ => []) 2 0 sched in
  ss_forced s = false /\ no_ping_after_close (ss_trace s) = false.
Proof. exact C14.ProofsShut.health_ping_needs_the_wait. Qed.

(* (d) exactly one complete line per request whose audit step succeeded; lines never mix *)
Theorem audit_one_line_per_request : forall line ntok n sched,
  (forall i, ~ In nl (line i)) ->
  let s := srun line ntok n sched in
  read_lines (ss_file s) = (map line (rev (ss_order s)), []) /\
  NoDup (rev (ss_order s)) /\
  (forall i p, nth_error (ss_req s) i = Some p -> (In i (rev (ss_order s)) <-> audited p = true)).
Proof. exact C14.ProofsShut.audit_one_line_per_request. Qed.
Theorem audit_two_writes_refuted : exists sched,
  let s := srun_gen false true true (fun i => [Z.of_nat i + 65]) 0 2 sched in
  read_lines (ss_file s) = ([[65; 66]; []], []).
Proof. exact C14.ProofsShut.audit_two_writes_refuted. Qed.

Theorem serve_and_append_shape : daemon_serve_calls = [0; 1; 1; 2] /\ daemon_serve_in_group = true /\ append_order = [0; 1; 2; 3].
Proof. exact C14.ProofsShut.serve_and_append_shape. Qed.

Example ex_shutdown_mid_request :   (* request 0 accepted, shutdown arrives, request 1 is refused, request 0 still completes *)
  let s := srun (fun i => [Z.of_nat i + 65]) 1 2
             [EReq 0 true; EReq 0 true; EShutdown; EGo; EReq 1 true; EGo; EReq 0 true; EReq 0 true; EReq 0 true; EReq 0 true; EReq 0 true;
              EReq 0 true; EHealth true; EHealth true; EGo; EGo; EHealth true; EHealth true; EHealth false; EGo; EWait] in
  ss_req s = [HDone; HRefused] /\ ss_file s = [65; 10] /\ ss_returned s = true /\ ss_forced s = false /\
  ss_trace s = [TClose; TPong; TPing; TUse 0; TUse 0].
Proof. vm_compute. repeat split; reflexivity. Qed.
End ShutProps.

(* =====================================================================================================================
   (c') shutdown of the PROCESS: `relic serve` blocks on Daemon.Serve (the errgroup's Wait); a signal makes watchSignals run
   Daemon.Close on another goroutine; the process is gone when main returns. Goroutines run the programs srcgen translates
   from serveCmd, Daemon.Serve, Daemon.Close and watchSignals *)
Section ProcProps.
Import C14.ModelProc C14.ProofsProc.

(* THE PROPERTY: under every interleaving of goroutine steps, handler steps, signals, the watcher's receives and clock
   ticks, for every number of listeners and handlers: unless the exit was forced (second signal -> os.Exit, a signal
   before signal.Notify, a handler outliving the grace period) no accepted request is cut off or loses its token, and
   when the process has gone away nothing was left running and the tokens had been closed first *)
Theorem proc_shutdown_lets_requests_finish : forall nlis n sched, (1 <= nlis)%nat ->
  let s := prun nlis n sched in p_forced s = false -> spec_ok s = true.
Proof. exact C14.ProofsProc.proc_shutdown_lets_requests_finish. Qed.
(* Serve returns last: when main has returned from Daemon.Serve, Shutdown has returned, server.Close has run, and no
   handler is running or was cut *)
Theorem serve_returns_last : forall nlis n sched t0, (1 <= nlis)%nat ->
  let s := prun nlis n sched in
  nth_error (p_thr s) 0 = Some t0 -> t_done t0 = true \/ (t_ops t0 = [] /\ t_items t0 = []) ->
  p_tok_closed s = true /\ p_drained s = true /\ p_insh s = true /\
  (p_forced s = false -> existsb pactive (p_req s) = false /\ forallb req_ok (p_req s) = true).
Proof. exact C14.ProofsProc.serve_returns_last. Qed.
(* main returns only after a graceful shutdown was started, and then with exit code 0 (that of shared.Fail, 70, when Shutdown
   ran into its deadline) *)
Theorem graceful_exit_code : forall nlis n sched, (1 <= nlis)%nat ->
  let s := prun nlis n sched in p_alive s = false -> p_how s = 1 ->
  p_code s = (if p_forced s then timeout_exit_code else 0) /\ p_closing s = true /\ p_tok_closed s = true.
Proof. exact C14.ProofsProc.graceful_exit_code. Qed.
Theorem proc_tokens_closed_after_handlers : forall nlis n sched, (1 <= nlis)%nat ->
  let s := prun nlis n sched in p_tok_closed s = true -> p_forced s = false -> existsb pactive (p_req s) = false.
Proof. exact C14.ProofsProc.proc_tokens_closed_after_handlers. Qed.
(* liveness: no deadlock between Serve's Wait, Close's Wait and the member running Shutdown; a blocked goroutine does not
   move; and from every reachable state with a shutdown under way and no handler running the process does exit, through
   main, with code 0 *)
Theorem proc_no_deadlock : forall nlis s, PInv nlis s -> p_alive s = true -> p_closing s = true -> existsb pactive (p_req s) = false ->
  exists i, enabled s i = true.
Proof. exact C14.ProofsProc.proc_no_deadlock. Qed.
Theorem blocked_is_noop : forall pg nlis s i, enabled s i = false -> tstep pg nlis s i = s.
Proof. exact C14.ProofsProc.blocked_is_noop. Qed.
Theorem proc_exits : forall nlis s, PInv nlis s -> p_alive s = true -> p_closing s = true -> existsb pactive (p_req s) = false ->
  p_forced s = false ->
  exists sched, Forall is_thr sched /\
    let s' := fold_left (pstep real_progs nlis) sched s in p_alive s' = false /\ p_how s' = 1 /\ p_code s' = 0.
Proof. exact C14.ProofsProc.proc_exits. Qed.
Theorem reachable_states_satisfy_PInv : forall nlis n sched, (1 <= nlis)%nat -> PInv nlis (prun nlis n sched).
Proof. exact C14.ProofsProc.pinv_run. Qed.
(* the source facts: the translated programs, the watcher's decision, the grace period and the exit code *)
Theorem proc_programs :
  main_prog = [(2, [5]); (0, [6])] /\ daemon_serve_prog = [(3, [1]); (0, [4])] /\ daemon_close_prog = [(1, [2; 3]); (0, [4])] /\
  daemon_close_prog_guards = [] /\ daemon_serve_prog_guards = [] /\ servecmd_prog_guards = [] /\
  grace = daemon_shutdown_timeout /\ 300 * 1000000000 <= grace /\ main_exit_code = 0 /\ sig_loop_forever = true /\ sig_notified = [2; 15; 3; 10; 12] /\
  sig_chan_cap = 4 /\ sig_exit_code = 0 /\ timeout_exit_code = 70.
Proof. repeat split; try reflexivity; vm_compute; discriminate. Qed.
Theorem sig_action_spec : forall sig a, sig_action sig a = if sig =? 10 then (0, a) else if a then (2, a) else (1, true).
Proof. exact C14.ProofsProc.sig_action_spec. Qed.

(* where the full statement fails, with witnesses *)
Theorem close_outside_group_refuted : exists sched,
  let s := prun_gen direct_close_progs 1 1 sched in
  p_forced s = false /\ p_alive s = false /\ p_how s = 1 /\ p_req s = [PCut] /\ p_tok_closed s = false /\ spec_ok s = false.
Proof. exact C14.ProofsProc.close_outside_group_refuted. Qed.
Theorem second_signal_refuted : exists sched,
  let s := prun 1 1 sched in p_forced s = true /\ p_how s = 2 /\ p_code s = sig_exit_code /\ p_req s = [PCut].
Proof. exact C14.ProofsProc.second_signal_refuted. Qed.
Theorem signal_before_notify_refuted : exists sched,
  let s := prun 1 1 sched in p_forced s = true /\ p_how s = 3 /\ p_watch s = false /\ p_req s = [PCut].
Proof. exact C14.ProofsProc.signal_before_notify_refuted. Qed.
Theorem proc_grace_period_refuted : exists sched,
  let s := prun 1 1 sched in p_forced s = true /\ p_alive s = true /\ p_req s = [PTokGone].
Proof. exact C14.ProofsProc.proc_grace_period_refuted. Qed.

(* non-vacuity: two listeners; requests 0 and 1 are in flight when SIGUSR1 (ignored) and SIGTERM arrive, request 2 comes
   after Shutdown has begun and is refused; both in-flight requests are answered, then the tokens are closed, then main
   returns: exit code 0 *)
Example ex_proc_graceful :
  let s := prun 2 3 [PThr 0; PThr 0; PThr 0; PThr 0; PThr 0; PThr 1; PReq 0; PReq 1; PReq 0; PSig 10; PWatch; PSig 15; PWatch; PThr 4; PThr 5;
                     PReq 2; PThr 5; PThr 2; PThr 3; PThr 0;
                     PReq 0; PReq 0; PReq 0; PReq 0; PReq 0; PReq 0; PReq 1; PReq 1; PReq 1; PReq 1; PReq 1; PReq 1; PReq 1;
                     PThr 5; PThr 5; PThr 5; PThr 2; PThr 3; PThr 2; PThr 3; PThr 4; PThr 4; PThr 4; PThr 0; PThr 0] in
  p_req s = [PDone; PDone; PRefused] /\ p_alive s = false /\ p_how s = 1 /\ p_code s = 0 /\ p_forced s = false /\
  p_tok_closed s = true /\ spec_ok s = true.
Proof. vm_compute. repeat split; reflexivity. Qed.
(* an idle server: SIGINT, shutdown, exit 0 *)
Example ex_proc_idle :
  let s := prun 1 0 (startup ++ [PSig 2; PWatch; PThr 3; PThr 4; PThr 4; PThr 4; PThr 4; PThr 2; PThr 2; PThr 0; PThr 0]) in
  p_alive s = false /\ p_how s = 1 /\ p_code s = 0 /\ p_tok_closed s = true.
Proof. vm_compute. repeat split; reflexivity. Qed.
(* the hypotheses of proc_exits are satisfiable: the state right after the watcher has started the shutdown *)
Example ex_proc_exits_applies :
  let s := prun 1 0 (startup ++ [PSig 15; PWatch]) in
  PInv 1 s /\ p_alive s = true /\ p_closing s = true /\ existsb pactive (p_req s) = false /\ p_forced s = false.
Proof. split; [apply C14.ProofsProc.pinv_run; lia|vm_compute; repeat split; reflexivity]. Qed.
End ProcProps.

(* =====================================================================================================================
   (e) the lazily created timestamper and package-level mutable state *)
Section InitProps.
Import C14.ModelInit C14.ProofsInit.

Theorem ts_single_instance : forall n sched, (length (ts_made (trun n sched)) <= 1)%nat.
Proof. exact C14.ProofsInit.ts_single_instance. Qed.
Theorem ts_same_instance : forall n sched i j a b,
  nth_error (ts_thr (trun n sched)) i = Some (TDone (Some a)) -> nth_error (ts_thr (trun n sched)) j = Some (TDone (Some b)) -> a = b.
Proof. exact C14.ProofsInit.ts_same_instance. Qed.
Theorem ts_failure_not_cached : forall n sched, ts_made (trun n sched) = [] -> ts_val (trun n sched) = None.
Proof. exact C14.ProofsInit.ts_failure_not_cached. Qed.
Theorem ts_mutex : forall n sched i j p q,
  nth_error (ts_thr (trun n sched)) i = Some p -> nth_error (ts_thr (trun n sched)) j = Some q -> tsec p = true -> tsec q = true -> i = j.
Proof. exact C14.ProofsInit.ts_mutex. Qed.

(* the package-level variables and the writes to them that srcgen finds in the anchored packages and in every
   signers/* package are exactly the reviewed ones: a NEW shared mutable global (or a new write site) breaks these *)
Theorem shared_writes_reviewed : shared_writes = map fst reviewed_writes.
Proof. exact C14.ProofsInit.shared_writes_reviewed. Qed.
Theorem shared_vars_reviewed : shared_vars = map fst reviewed_vars.
Proof. exact C14.ProofsInit.shared_vars_reviewed. Qed.
Theorem review_is_consistent : review_consistent = true /\ forallb (fun w => guard_named (snd w)) reviewed_writes = true.
Proof. exact C14.ProofsInit.review_is_consistent. Qed.
(* objects a request writes into are built per request: the certificate bundle (InitKey loads it afresh, so that
   Init may store the request's timestamp choice in it), the timestamp request copy, flags, audit record *)
Theorem per_request_bundle : initkey_calls = [0; 1] /\ ts_wrapper_copies = true /\ init_calls = [0; 1; 2; 3].
Proof. exact C14.ProofsInit.per_request_bundle. Qed.

Theorem ts_wanted_spec : forall enabled named no_ts, ts_wanted enabled named no_ts = (enabled || named) && negb no_ts.
Proof. exact C14.ProofsInit.ts_wanted_spec. Qed.
Theorem closeonce_shape : closeonce_struct_plain = true /\ closeonce_calls = [0; 4; 1; 2; 3].
Proof. exact C14.ProofsInit.closeonce_shape. Qed.

Example ex_ts_race :   (* three callers, first construction fails, second succeeds, third reuses it *)
  let st := fun i ok => [TStep i ok; TStep i ok; TStep i ok; TStep i ok] in
  let s := trun 3 (st 0%nat false ++ [TStep 1 true; TStep 2 true; TStep 1 true; TStep 2 true] ++ st 1%nat true ++ st 2%nat true) in
  ts_thr s = [TDone None; TDone (Some 1); TDone (Some 1)] /\ ts_made s = [1].
Proof. vm_compute. auto. Qed.
End InitProps.
