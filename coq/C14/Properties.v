(* C14/Properties.v — property theorems only; each closed by a lemma of C14/Proofs.v. *)
From Relic Require Import Base.Prelude Generated.C14_gen C14.Model C14.Proofs.
From Coq Require Import Permutation.

(* every request that completes receives exactly what it would receive alone: signature over ITS body with ITS key
   (the key its name denotes) and ITS options — for every number of requests and every interleaving *)
Theorem isolation : forall tok rqs sched i rq s,
  nth_error rqs i = Some rq ->
  option_map response (nth_error (fst (run tok rqs sched)) i) = Some (Some s) ->
  s = isolated tok rq.
Proof. exact C14.Proofs.isolation. Qed.

(* the shared key cache only ever holds the token's key for a name *)
Theorem cache_consistent : forall tok rqs sched n k,
  cache_lookup n (sh_cache (snd (run tok rqs sched))) = Some k -> k = tok n.
Proof. exact C14.Proofs.cache_consistent. Qed.

(* no audit record is lost or mixed up: when every request has completed, the log is a permutation of one correct
   record per request *)
Theorem no_lost_audit : forall tok rqs sched,
  Forall (fun p => exists s, p = PDone s) (fst (run tok rqs sched)) ->
  Permutation (sh_log (snd (run tok rqs sched)))
              (map (fun rq => mkRec (q_name rq) (tok (q_name rq)) (q_body rq)) rqs).
Proof. exact C14.Proofs.no_lost_audit. Qed.

(* no deadlock in the model: an unfinished request can always take a step that advances it *)
Theorem progress : forall tok rqs s i rq p,
  nth_error rqs i = Some rq -> nth_error (fst s) i = Some p -> (forall sg, p <> PDone sg) ->
  nth_error (fst (sys_step tok rqs s i)) i <> Some p.
Proof. exact C14.Proofs.progress. Qed.

(* Close runs its body exactly once however many callers race for it *)
Theorem closeonce_once : forall callers, (1 <= callers)%nat -> close_calls callers false 0 = (true, 1%nat).
Proof. exact C14.Proofs.closeonce_once. Qed.

(* locks are never nested in a cycle; shutdown waits for handlers before closing tokens; request objects are per request *)
Theorem lock_graph_acyclic : acyclic lock_edges = true.
Proof. exact C14.Proofs.lock_graph_acyclic. Qed.
Theorem shutdown_order : shutdown_then_close = true.
Proof. exact C14.Proofs.shutdown_order. Qed.
Theorem per_request_objects : flags_fresh_per_request = true /\ cache_unlock_deferred = true.
Proof. exact C14.Proofs.per_request_objects. Qed.

Example two_requests_interleaved :
  let tok := fun n => n * 100 in
  let rqs := [mkRq 1 11 5; mkRq 2 22 6; mkRq 1 33 7] in
  map response (fst (run tok rqs [0; 1; 2; 2; 1; 0; 0; 2; 1; 1; 0; 2]%nat)) =
  [Some (mkSig 100 11 5); Some (mkSig 200 22 6); Some (mkSig 100 33 7)].
Proof. vm_compute. reflexivity. Qed.
