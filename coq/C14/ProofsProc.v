(* C14/ProofsProc.v — the process-level shutdown model: the main goroutine returns from Daemon.Serve (and the process
   exits) only after every accepted handler has finished and after server.Close has run, under every interleaving of
   goroutine steps, handler steps, signals and clock ticks; and it does exit once the handlers are done. *)
From Relic Require Import Base.Prelude Generated.C14_gen C14.Model C14.Proofs C14.ModelProc.


(* ---- the generated programs this development is about *)
Lemma main_prog_eq : main_prog = [(2, [5]); (0, [6])]. Proof. reflexivity. Qed.
Lemma serve_prog_eq : daemon_serve_prog = [(3, [1]); (0, [4])]. Proof. reflexivity. Qed.
Lemma close_prog_eq : daemon_close_prog = [(1, [2; 3]); (0, [4])]. Proof. reflexivity. Qed.
Lemma prog_guards_eq : daemon_close_prog_guards = [] /\ daemon_serve_prog_guards = [] /\ servecmd_prog_guards = [].
Proof. repeat split; reflexivity. Qed.
Lemma serve_sign_table : serve_sign_calls = [0; 1; 2; 3; 4; 5; 6]. Proof. reflexivity. Qed.
Lemma grace_eq : grace = daemon_shutdown_timeout. Proof. reflexivity. Qed.
Lemma main_exit_code_eq : main_exit_code = 0. Proof. reflexivity. Qed.
Lemma timeout_exit_code_eq : timeout_exit_code = fail_exit_code /\ fail_exit_code = 70. Proof. split; reflexivity. Qed.
Lemma sig_loop_eq : sig_loop_forever = true. Proof. reflexivity. Qed.
(* watchSignals: SIGUSR1 does nothing; the first other signal starts Close on its own goroutine; any later one exits *)
Lemma sig_action_spec : forall sig a,
  sig_action sig a = if sig =? 10 then (0, a) else if a then (2, a) else (1, true).
Proof. intros sig a. unfold sig_action. destruct (sig =? 10); [reflexivity|]. destruct a; reflexivity. Qed.

(* ---- list helpers *)
Lemma map_update {A B} (f : A -> B) l i x : map f (update l i x) = update (map f l) i (f x).
Proof. revert i; induction l as [|y l IH]; intros [|i]; cbn; auto. f_equal. apply IH. Qed.
Lemma map_repeat {A B} (f : A -> B) x n : map f (repeat x n) = repeat (f x) n.
Proof. induction n; cbn; auto. f_equal. exact IHn. Qed.
Lemma update_same {A} (l : list A) i x : nth_error l i = Some x -> update l i x = l.
Proof.
  revert i; induction l as [|y l IH]; intros [|i]; cbn; intros H; try discriminate; auto.
  - inversion H; reflexivity.
  - f_equal. auto.
Qed.
Lemma In_update_new {A} (l : list A) i y z : nth_error l i = Some y -> In z (update l i z).
Proof.
  revert i; induction l as [|x l IH]; intros [|i]; cbn; intros H; try discriminate; auto; try (right; eapply IH; eauto).
Qed.
Lemma In_update_other {A} (l : list A) i y z x : nth_error l i = Some y -> In x l -> x <> y -> In x (update l i z).
Proof.
  revert i; induction l as [|a l IH]; intros [|i]; cbn; intros H Hin Hne; try discriminate; auto.
  - inversion H; subst. destruct Hin as [->|Hin]; [contradiction|auto].
  - destruct Hin as [->|Hin]; [auto|]. right. eapply IH; eauto.
Qed.
Lemma In_update_inv {A} (l : list A) i z x : In x (update l i z) -> x = z \/ In x l.
Proof.
  revert i; induction l as [|a l IH]; intros [|i]; cbn; intros H; auto.
  - destruct H as [<-|H]; auto.
  - destruct H as [<-|H]; auto. destruct (IH _ H); auto.
Qed.
Definition cnt {A} (f : A -> bool) (l : list A) : nat := length (filter f l).
Definition b2n (b : bool) : nat := if b then 1%nat else 0%nat.
Lemma cnt_app {A} (f : A -> bool) a b : cnt f (a ++ b) = (cnt f a + cnt f b)%nat.
Proof. unfold cnt. rewrite filter_app, app_length. reflexivity. Qed.
Lemma cnt_update {A} (f : A -> bool) l i y z : nth_error l i = Some y ->
  (cnt f (update l i z) + b2n (f y) = cnt f l + b2n (f z))%nat.
Proof.
  unfold cnt. revert i; induction l as [|a l IH]; intros [|i]; cbn [nth_error update filter]; intros H; try discriminate.
  - inversion H; subst. destruct (f y), (f z); cbn [length b2n]; lia.
  - specialize (IH _ H). destruct (f a); cbn [length]; lia.
Qed.
Lemma cnt_In {A} (f : A -> bool) l x : In x l -> f x = true -> (1 <= cnt f l)%nat.
Proof.
  unfold cnt. induction l as [|a l IH]; cbn [In filter]; intros H Hf; [contradiction|].
  destruct H as [->|H]; [rewrite Hf; cbn; lia|]. destruct (f a); cbn [length]; [lia|auto].
Qed.
Lemma cnt_repeat {A} (f : A -> bool) x n : cnt f (repeat x n) = (n * b2n (f x))%nat.
Proof. unfold cnt. induction n; cbn [repeat filter]; [reflexivity|]. destruct (f x); cbn [length b2n] in *; lia. Qed.
Lemma cnt_zero_In {A} (f : A -> bool) l x : cnt f l = 0%nat -> In x l -> f x = false.
Proof. intros H Hin. destruct (f x) eqn:E; [|reflexivity]. pose proof (cnt_In f l x Hin E). lia. Qed.
Lemma existsb_forallb_neg {A} (f : A -> bool) l : existsb f l = false <-> forallb (fun x => negb (f x)) l = true.
Proof.
  induction l as [|y l IH]; cbn; [tauto|]. rewrite orb_false_iff, andb_true_iff, IH, negb_true_iff. tauto.
Qed.
Lemma forallb_nth {A} (f : A -> bool) l i x : forallb f l = true -> nth_error l i = Some x -> f x = true.
Proof. intros H Hn. apply nth_error_In in Hn. eapply forallb_forall in H; eauto. Qed.
Lemma forallb_update {A} (f : A -> bool) l i x : forallb f l = true -> f x = true -> forallb f (update l i x) = true.
Proof.
  revert i; induction l as [|y l IH]; intros [|i]; cbn; intros H Hx; auto; apply andb_true_iff in H as [H1 H2];
    apply andb_true_iff; split; auto.
Qed.

(* ---- roles: the finitely many shapes a goroutine of the real programs can have *)
Inductive role :=
| M0 | M1 | M2 | M3 | M4 | M5 | M6 | MD          (* main: before go watchSignals ... waiting in Serve (M5), returned (M6), gone *)
| W                                               (* the signal watcher *)
| L0 | L1 | LD                                    (* a listener's http.Server.Serve: running, returned, left the group *)
| C0 | C1 | C2 | C3 | CD                          (* the caller of Daemon.Close: before d.eg.Go, before Wait, waiting, returned *)
| G0 | G1 | G2 | GD.                              (* the closure Close hands to the errgroup: Shutdown, server.Close, return *)
Definition thr_of (r : role) : thread :=
  match r with
  | M0 => mkT false false [] [(2, [5]); (0, [6])] | M1 => mkT false false [] [(0, [6])] | M2 => mkT false false [6] []
  | M3 => mkT false false [] [(3, [1]); (0, [4])] | M4 => mkT false false [] [(0, [4])] | M5 => mkT false false [4] []
  | M6 => mkT false false [] [] | MD => mkT false true [] []
  | W => mkT false false [5] []
  | L0 => mkT true false [1] [] | L1 => mkT true false [] [] | LD => mkT true true [] []
  | C0 => mkT false false [] [(1, [2; 3]); (0, [4])] | C1 => mkT false false [] [(0, [4])] | C2 => mkT false false [4] []
  | C3 => mkT false false [] [] | CD => mkT false true [] []
  | G0 => mkT true false [2; 3] [] | G1 => mkT true false [3] [] | G2 => mkT true false [] [] | GD => mkT true true [] []
  end.
Definition is_main (r : role) : bool := match r with M0 | M1 | M2 | M3 | M4 | M5 | M6 | MD => true | _ => false end.
Definition past_spawn (r : role) : bool := match r with M4 | M5 | M6 | MD => true | _ => false end.
Definition returned (r : role) : bool := match r with M6 | MD => true | _ => false end.
Definition lmem (r : role) : bool := match r with L0 | L1 | G0 | G1 | G2 => true | _ => false end.   (* live member of the group *)
Definition closer_role (r : role) : bool := match r with C0 | C1 | C2 | C3 | CD | G0 | G1 | G2 | GD => true | _ => false end.
Definition role_eq_dec : forall a b : role, {a = b} + {a <> b}. Proof. decide equality. Defined.

Lemma lmem_spec r : lmem r = live (thr_of r) && t_member (thr_of r). Proof. destruct r; reflexivity. Qed.

(* ---- what a step of thread i does, role by role *)
Definition role_step (nlis : nat) (s : pstate) (i : nat) (roles : list role) (r : role) : pstate :=
  let upd z extra eg := set_thr s (map thr_of (update roles i z ++ extra)) eg in
  match r with
  | M0 => upd M1 [W] (p_eg s)
  | M1 => upd M2 [] (p_eg s)
  | M2 => upd M3 [] (p_eg s)
  | M3 => upd M4 (repeat L0 nlis) (nlis + p_eg s)%nat
  | M4 => upd M5 [] (p_eg s)
  | M5 => if Nat.eqb (p_eg s) 0 then upd M6 [] (p_eg s) else s
  | M6 => let s1 := upd MD [] (p_eg s) in if Nat.eqb i 0 then exit_proc s1 1 (if p_forced s then timeout_exit_code else main_exit_code) else s1
  | W => set_sig s true (p_already s) (p_pending s) (p_closing s)
  | L0 => if p_insh s then upd L1 [] (p_eg s) else s
  | L1 => upd LD [] (pred (p_eg s))
  | C0 => upd C1 [G0] (S (p_eg s))
  | C1 => upd C2 [] (p_eg s)
  | C2 => if Nat.eqb (p_eg s) 0 then upd C3 [] (p_eg s) else s
  | C3 => upd CD [] (p_eg s)
  | G0 =>
      if negb (p_insh s) then set_srv s true (p_now s) (p_drained s) (p_tok_closed s) (p_forced s)
      else if negb (existsb pactive (p_req s)) then set_srv (upd G1 [] (p_eg s)) true (p_shut_at s) true (p_tok_closed s) (p_forced s)
      else if grace <=? p_now s - p_shut_at s then set_srv (upd G1 [] (p_eg s)) true (p_shut_at s) true (p_tok_closed s) true
      else s
  | G1 => set_srv (upd G2 [] (p_eg s)) (p_insh s) (p_shut_at s) (p_drained s) true (p_forced s)
  | G2 => upd GD [] (pred (p_eg s))
  | MD | LD | CD | GD => s
  end.

Lemma tstep_roles nlis s i roles r :
  p_thr s = map thr_of roles -> nth_error roles i = Some r -> (is_main r = false -> i <> 0%nat) ->
  tstep real_progs nlis s i = role_step nlis s i roles r.
Proof.
  intros Ht Hr Hi. unfold tstep. rewrite Ht, (map_nth_error thr_of _ _ Hr).
  unfold real_progs; cbn [pg_serve pg_close pg_main]. rewrite serve_prog_eq.
  destruct r; cbn -[grace main_exit_code timeout_exit_code Nat.eqb]; unfold role_step;
    rewrite ?map_app, ?map_update, ?map_repeat, ?app_nil_r; try reflexivity;
    (destruct (Nat.eqb i 0) eqn:E; [apply Nat.eqb_eq in E; exfalso; apply Hi; [reflexivity|exact E]|reflexivity]).
Qed.

(* ---- the invariant *)
Record PI (nlis : nat) (s : pstate) (roles : list role) : Prop := mkPI {
  pi_n : (1 <= nlis)%nat;
  pi_thr : p_thr s = map thr_of roles;
  pi_main : exists m rest, roles = m :: rest /\ is_main m = true /\ forallb (fun r => negb (is_main r)) rest = true;
  pi_eg : p_eg s = cnt lmem roles;
  (* once main has started the listeners, one of them is serving until Shutdown begins *)
  pi_lis : forall m, hd_error roles = Some m -> past_spawn m = true -> p_insh s = false -> In L0 roles;
  (* main gets past the errgroup's Wait only after the tokens were closed *)
  pi_m6 : forall m, hd_error roles = Some m -> returned m = true -> p_tok_closed s = true;
  pi_md : In MD roles -> p_alive s = false;
  (* between the beginning of Shutdown and the closing of the tokens a member of the errgroup is at work *)
  pi_clo : p_insh s = true -> p_tok_closed s = false -> In G0 roles \/ In G1 roles;
  pi_g1 : In G1 roles -> p_drained s = true;
  pi_gc : forall r, In r roles -> closer_role r = true -> p_closing s = true;
  pi_ic : p_insh s = true -> p_closing s = true;
  pi_d2 : p_drained s = true -> p_insh s = true /\ (p_forced s = true \/ existsb pactive (p_req s) = false);
  pi_d3 : p_tok_closed s = true -> p_drained s = true;
  pi_req : p_forced s = false -> forallb req_ok (p_req s) = true;
  pi_x : p_alive s = false ->
         existsb pactive (p_req s) = false /\ (p_how s = 1 -> p_tok_closed s = true /\ p_code s = (if p_forced s then timeout_exit_code else 0) /\ In MD roles);
  pi_prog : p_closing s = true -> p_insh s = false -> In C0 roles \/ In G0 roles
}.

Lemma mono_false (a b : bool) : (a = true -> b = true) -> b = false -> a = false.
Proof. destruct a, b; intros H E; auto; try discriminate. specialize (H eq_refl). discriminate. Qed.

Lemma main_index roles i r :
  (exists m rest, roles = m :: rest /\ is_main m = true /\ forallb (fun r => negb (is_main r)) rest = true) ->
  nth_error roles i = Some r -> is_main r = Nat.eqb i 0.
Proof.
  intros (m & rest & -> & Hm & Hr) Hn. destruct i as [|i]; cbn in Hn.
  - inversion Hn; subst. exact Hm.
  - pose proof (forallb_nth _ _ _ _ Hr Hn) as Q. apply negb_true_iff in Q. exact Q.
Qed.

Lemma hd_update_app roles i (y z : role) extra m rest :
  roles = m :: rest -> nth_error roles i = Some y ->
  hd_error (update roles i z ++ extra) = Some (if Nat.eqb i 0 then z else m).
Proof. intros -> Hn. destruct i; reflexivity. Qed.

(* the master preservation lemma: thread i changes role from y to z, new goroutines [extra] appear, the server flags
   move to I' D' T' F' *)
Lemma pi_step nlis s roles i y z extra eg' I' at' D' T' F' :
  PI nlis s roles -> p_alive s = true -> nth_error roles i = Some y ->
  is_main z = is_main y -> forallb (fun r => negb (is_main r)) extra = true ->
  (eg' + b2n (lmem y) = p_eg s + b2n (lmem z) + cnt lmem extra)%nat ->
  (p_insh s = true -> I' = true) -> (p_drained s = true -> D' = true) -> (p_tok_closed s = true -> T' = true) -> (p_forced s = true -> F' = true) ->
  (y = L0 -> z = L0 \/ I' = true) ->
  (is_main y = true -> past_spawn z = true -> I' = false -> past_spawn y = true \/ In L0 extra) ->
  (is_main y = true -> returned z = true -> T' = true) ->
  z <> MD -> ~ In MD extra ->
  (I' = true -> T' = false -> (z = G0 \/ z = G1) \/ In G0 extra \/ (p_insh s = true /\ y <> G0 /\ y <> G1)) ->
  (z = G1 \/ In G1 extra -> D' = true) ->
  (closer_role z = true -> p_closing s = true) -> (forall r, In r extra -> closer_role r = true -> p_closing s = true) ->
  (I' = true -> p_insh s = true \/ p_closing s = true) ->
  (D' = true -> p_drained s = true \/ (I' = true /\ (F' = true \/ existsb pactive (p_req s) = false))) ->
  (T' = true -> p_tok_closed s = true \/ D' = true) ->
  (y = C0 \/ y = G0 -> z = C0 \/ z = G0 \/ In G0 extra \/ I' = true) ->
  PI nlis (set_srv (set_thr s (map thr_of (update roles i z ++ extra)) eg') I' at' D' T' F') (update roles i z ++ extra).
Proof.
  intros [Hn Ht Hm He Hl H6 Hd Hc Hg Hgc Hic Hd2 Hd3 Hrq Hx Hp] Hal Hy Hmz Hex Heg mI mD mT mF cL cS cR cM cMx cC cG cZ cE cI cD cT cP.
  pose proof (main_index _ _ _ Hm Hy) as Hmi.
  destruct Hm as (m & rest & Hroles & Hmm & Hrest).
  assert (Hhd : hd_error (update roles i z ++ extra) = Some (if Nat.eqb i 0 then z else m)) by (eapply hd_update_app; eauto).
  assert (Hi0 : Nat.eqb i 0 = true -> y = m).
  { intros E. apply Nat.eqb_eq in E. subst i roles. cbn in Hy. inversion Hy; reflexivity. }
  assert (InPres : forall x, In x roles -> x <> y -> In x (update roles i z ++ extra)).
  { intros x Hin Hne. apply in_or_app. left. eapply In_update_other; eauto. }
  assert (InInv : forall x, In x (update roles i z ++ extra) -> x = z \/ In x roles \/ In x extra).
  { intros x Hin. apply in_app_or in Hin as [Hin|Hin]; [|auto]. apply In_update_inv in Hin as [->|Hin]; auto. }
  assert (InNew : In z (update roles i z ++ extra)) by (apply in_or_app; left; eapply In_update_new; eauto).
  assert (InExtra : forall x, In x extra -> In x (update roles i z ++ extra)) by (intros; apply in_or_app; auto).
  constructor; cbn [set_srv set_thr p_thr p_eg p_insh p_tok_closed p_alive p_drained p_closing p_forced p_req p_how p_code].
  - exact Hn.
  - reflexivity.
  - subst roles. destruct i as [|i]; cbn [update app].
    + cbn in Hy. inversion Hy; subst y. exists z, (rest ++ extra). repeat split; [congruence|]. rewrite forallb_app, Hrest, Hex. reflexivity.
    + exists m, (update rest i z ++ extra). repeat split; auto. rewrite forallb_app, Hex, andb_true_r.
      cbn in Hy. apply forallb_update; auto. rewrite Hmz. exact (forallb_nth _ _ _ _ Hrest Hy).
  - rewrite cnt_app. pose proof (cnt_update lmem roles i y z Hy). lia.
  - intros m' Hm' Hps HI. rewrite Hhd in Hm'. inversion Hm'; subst m'; clear Hm'.
    assert (HIs : p_insh s = false) by (eapply mono_false; eauto).
    destruct i as [|i]; cbn [Nat.eqb] in *.
    + pose proof (Hi0 eq_refl) as ->.
      destruct (cS Hmi Hps HI) as [Hpy|Hin]; [|auto].
      apply InPres; [apply (Hl m); subst roles; auto|]. intros <-. discriminate.
    + assert (HL0 : In L0 roles) by (apply (Hl m); subst roles; auto).
      destruct (role_eq_dec y L0) as [->|ne]; [|apply InPres; congruence].
      destruct (cL eq_refl) as [->|HI']; [exact InNew|congruence].
  - intros m' Hm' Hr. rewrite Hhd in Hm'. inversion Hm'; subst m'; clear Hm'.
    destruct i as [|i]; cbn [Nat.eqb] in *.
    + apply cR; auto.
    + apply mT. apply (H6 m); subst roles; auto.
  - intros Hin. destruct (InInv _ Hin) as [E|[Hr|Hr]]; [congruence| |contradiction].
    rewrite (Hd Hr) in Hal. discriminate.
  - intros HI HT. destruct (cC HI HT) as [[->| ->]|[Hin|(Hs & n0 & n1)]]; auto.
    assert (HTs : p_tok_closed s = false) by (eapply mono_false; eauto).
    destruct (Hc Hs HTs) as [Hin|Hin]; [left|right]; apply InPres; auto; congruence.
  - intros Hin. destruct (InInv _ Hin) as [E|[Hr|Hr]]; auto.
  - intros r Hin Hcr. destruct (InInv _ Hin) as [->|[Hr|Hr]]; eauto.
  - intros HI. destruct (cI HI); auto.
  - intros HD. destruct (cD HD) as [Hs|Hs]; [|exact Hs]. destruct (Hd2 Hs) as (A & B). split; [auto|]. destruct B; auto.
  - intros HT. destruct (cT HT) as [Hs|Hs]; auto.
  - intros HF. apply Hrq. eapply mono_false; eauto.
  - intros Hf. rewrite Hf in Hal. discriminate.
  - intros Hcl HI.
    assert (HIs : p_insh s = false) by (eapply mono_false; eauto).
    destruct (Hp Hcl HIs) as [Hin|Hin].
    + destruct (role_eq_dec y C0) as [->|ne]; [|left; apply InPres; congruence].
      destruct (cP (or_introl eq_refl)) as [->|[->|[H|H]]]; auto; congruence.
    + destruct (role_eq_dec y G0) as [->|ne]; [|right; apply InPres; congruence].
      destruct (cP (or_intror eq_refl)) as [->|[->|[H|H]]]; auto; congruence.
Qed.

Lemma set_srv_id s : set_srv s (p_insh s) (p_shut_at s) (p_drained s) (p_tok_closed s) (p_forced s) = s.
Proof. destruct s; reflexivity. Qed.
Lemma set_thr_id s : set_thr s (p_thr s) (p_eg s) = s.
Proof. destruct s; reflexivity. Qed.

(* a step that only changes the goroutines *)
Lemma pi_upd nlis s roles i y z extra eg' :
  PI nlis s roles -> p_alive s = true -> nth_error roles i = Some y ->
  is_main z = is_main y -> forallb (fun r => negb (is_main r)) extra = true ->
  (eg' + b2n (lmem y) = p_eg s + b2n (lmem z) + cnt lmem extra)%nat ->
  (y = L0 -> z = L0 \/ p_insh s = true) ->
  (is_main y = true -> past_spawn z = true -> p_insh s = false -> past_spawn y = true \/ In L0 extra) ->
  (is_main y = true -> returned z = true -> p_tok_closed s = true) ->
  z <> MD -> ~ In MD extra -> y <> G0 -> y <> G1 -> z <> G1 -> ~ In G1 extra ->
  (closer_role z = true -> p_closing s = true) -> (forall r, In r extra -> closer_role r = true -> p_closing s = true) ->
  (y = C0 -> In G0 extra \/ p_insh s = true) ->
  PI nlis (set_thr s (map thr_of (update roles i z ++ extra)) eg') (update roles i z ++ extra).
Proof.
  intros HI Hal Hy Hm Hex Heg cL cS cR cM cMx n0 n1 z1 x1 cZ cE cP.
  rewrite <- (set_srv_id (set_thr s _ eg')). cbn [set_thr p_insh p_shut_at p_drained p_tok_closed p_forced].
  eapply pi_step; eauto.
  - intros [E|E]; contradiction.
  - intros [->|E]; [|contradiction]. destruct (cP eq_refl); auto.
Qed.

(* states that differ only in the clock, the watcher's flag, channel and handler installation *)
Lemma pi_ext nlis s s' roles :
  PI nlis s roles ->
  p_alive s' = p_alive s -> p_how s' = p_how s -> p_code s' = p_code s -> p_insh s' = p_insh s -> p_drained s' = p_drained s ->
  p_tok_closed s' = p_tok_closed s -> p_forced s' = p_forced s -> p_eg s' = p_eg s -> p_closing s' = p_closing s ->
  p_thr s' = p_thr s -> p_req s' = p_req s -> PI nlis s' roles.
Proof.
  intros [Hn Ht Hm He Hl H6 Hd Hc Hg Hgc Hic Hd2 Hd3 Hrq Hx Hp] E1 E2 E3 E4 E5 E6 E7 E8 E9 E10 E11.
  constructor; rewrite ?E1, ?E2, ?E3, ?E4, ?E5, ?E6, ?E7, ?E8, ?E9, ?E10, ?E11; auto.
Qed.

Lemma cut_quiet l : existsb pactive (map cut l) = false.
Proof. induction l as [|p l IH]; cbn; auto. rewrite IH. destruct p; reflexivity. Qed.
Lemma cut_id l : existsb pactive l = false -> map cut l = l.
Proof. induction l as [|p l IH]; cbn; auto. intros H. apply orb_false_iff in H as [H1 H2]. rewrite IH by auto. destruct p; try discriminate; reflexivity. Qed.

(* the process ends by os.Exit or by a signal nobody handles *)
Lemma pi_exit_other nlis s roles how code :
  PI nlis s roles -> p_alive s = true -> how <> 1 -> PI nlis (exit_proc s how code) roles.
Proof.
  intros [Hn Ht Hm He Hl H6 Hd Hc Hg Hgc Hic Hd2 Hd3 Hrq Hx Hp] Hal Hh.
  assert (Eh : (how =? 1) = false) by (apply Z.eqb_neq; exact Hh).
  constructor; cbn [exit_proc p_thr p_eg p_insh p_tok_closed p_alive p_drained p_closing p_forced p_req p_how p_code]; auto.
  - intros HD. destruct (Hd2 HD) as (A & B). split; [exact A|]. right. apply cut_quiet.
  - rewrite Eh. cbn [negb andb]. intros HF. apply orb_false_iff in HF as [F1 F2]. rewrite (cut_id _ F2). auto.
  - intros _. split; [apply cut_quiet|]. intros; contradiction.
Qed.

(* the main goroutine returns from Serve: the process exits *)
Lemma pi_exit_main nlis s roles :
  PI nlis s roles -> p_alive s = true -> nth_error roles 0 = Some M6 ->
  PI nlis (exit_proc (set_thr s (map thr_of (update roles 0 MD ++ [])) (p_eg s)) 1 (if p_forced s then timeout_exit_code else main_exit_code)) (update roles 0 MD ++ []).
Proof.
  intros [Hn Ht Hm He Hl H6 Hd Hc Hg Hgc Hic Hd2 Hd3 Hrq Hx Hp] Hal Hy.
  destruct Hm as (m & rest & -> & Hmm & Hrest). cbn in Hy. inversion Hy; subst m; clear Hy.
  cbn [update app]. rewrite app_nil_r.
  assert (HT : p_tok_closed s = true) by (apply (H6 M6); reflexivity).
  assert (HD : p_drained s = true) by auto.
  destruct (Hd2 HD) as (HIs & HFQ).
  assert (Keep : forall x, In x (M6 :: rest) -> x <> M6 -> In x (MD :: rest)).
  { intros x [<-|Hin] Hne; [contradiction|right; exact Hin]. }
  constructor; cbn [exit_proc set_thr p_thr p_eg p_insh p_tok_closed p_alive p_drained p_closing p_forced p_req p_how p_code Z.eqb Pos.eqb negb andb]; auto.
  - exists MD, rest. auto.
  - intros m' Hm' _ HI. rewrite HI in HIs. discriminate.
  - intros _ HTf. rewrite HTf in HT. discriminate.
  - intros _. split; [exact HIs|]. right. apply cut_quiet.
  - rewrite orb_false_r. intros HF. destruct HFQ as [F|Q]; [congruence|]. rewrite (cut_id _ Q). auto.
  - intros _. split; [apply cut_quiet|]. intros _. split; [exact HT|]. split; [rewrite orb_false_r; destruct (p_forced s); [reflexivity|apply main_exit_code_eq]|left; reflexivity].
  - intros Hcl HI. rewrite HI in HIs. discriminate.
Qed.

(* a new goroutine calls Daemon.Close *)
Lemma pi_spawn_closer nlis s roles w a pend :
  PI nlis s roles ->
  PI nlis (set_thr (set_sig s w a pend true) (p_thr s ++ [mkT false false [] (pg_close real_progs)]) (p_eg s)) (roles ++ [C0]).
Proof.
  intros [Hn Ht Hm He Hl H6 Hd Hc Hg Hgc Hic Hd2 Hd3 Hrq Hx Hp].
  destruct Hm as (m & rest & -> & Hmm & Hrest).
  constructor; cbn [set_thr set_sig p_thr p_eg p_insh p_tok_closed p_alive p_drained p_closing p_forced p_req p_how p_code]; auto.
  - rewrite Ht, map_app. cbn [pg_close real_progs map]. rewrite close_prog_eq. reflexivity.
  - exists m, (rest ++ [C0]). repeat split; auto. rewrite forallb_app, Hrest. reflexivity.
  - rewrite cnt_app, He. cbn. lia.
  - intros m' Hm' Hps HI. apply in_or_app. left. eapply Hl; eauto.
  - intros Hin. apply Hd. apply in_app_or in Hin as [Hin|[E|[]]]; [exact Hin|discriminate].
  - intros HI HT. destruct (Hc HI HT); [left|right]; apply in_or_app; auto.
  - intros Hin. apply Hg. apply in_app_or in Hin as [Hin|[E|[]]]; [exact Hin|discriminate].
  - intros Hal. destruct (Hx Hal) as (A & B). split; [exact A|]. intros Hh. destruct (B Hh) as (B1 & B2 & B3). repeat split; auto. apply in_or_app; auto.
  - intros _ _. left. apply in_or_app. right. left. reflexivity.
Qed.

(* ---- every step of a goroutine preserves the invariant *)
Lemma cnt_pos_eg nlis s roles r : PI nlis s roles -> In r roles -> lmem r = true -> (1 <= p_eg s)%nat.
Proof. intros HI Hin Hl. rewrite (pi_eg _ _ _ HI). eapply cnt_In; eauto. Qed.

(* the goroutines after a step of thread i, which has role r *)
Definition next_roles (nlis : nat) (s : pstate) (i : nat) (roles : list role) (r : role) : list role :=
  let upd z extra := update roles i z ++ extra in
  match r with
  | M0 => upd M1 [W] | M1 => upd M2 [] | M2 => upd M3 [] | M3 => upd M4 (repeat L0 nlis) | M4 => upd M5 []
  | M5 => if Nat.eqb (p_eg s) 0 then upd M6 [] else roles
  | M6 => upd MD []
  | L0 => if p_insh s then upd L1 [] else roles
  | L1 => upd LD []
  | C0 => upd C1 [G0] | C1 => upd C2 []
  | C2 => if Nat.eqb (p_eg s) 0 then upd C3 [] else roles
  | C3 => upd CD []
  | G0 => if negb (p_insh s) then roles
          else if negb (existsb pactive (p_req s)) then upd G1 []
          else if grace <=? p_now s - p_shut_at s then upd G1 [] else roles
  | G1 => upd G2 [] | G2 => upd GD []
  | W | MD | LD | CD | GD => roles
  end.

Lemma pinv_thr_roles nlis s roles i r :
  PI nlis s roles -> p_alive s = true -> nth_error roles i = Some r ->
  PI nlis (tstep real_progs nlis s i) (next_roles nlis s i roles r).
Proof.
  intros HI Hal Hr. pose proof HI as [Hn Ht Hm He Hl H6 Hd Hc Hg Hgc Hic Hd2 Hd3 Hrq Hx Hp].
  pose proof (main_index _ _ _ Hm Hr) as Hmi.
  assert (Hin : In r roles) by (eapply nth_error_In; eauto).
  rewrite (tstep_roles nlis s i roles r Ht Hr) by (intros E; rewrite E in Hmi; intros ->; discriminate).
  destruct r; cbn [role_step next_roles].
  - (* M0 *) apply (pi_upd _ _ _ _ M0 M1 [W]); auto; try discriminate; cbn; try lia; try tauto.
    + intros [E|[]]; discriminate.
    + intros [E|[]]; discriminate.
    + intros r [<-|[]]; discriminate.
  - (* M1 *) apply (pi_upd _ _ _ _ M1 M2 []); auto; try discriminate; cbn; try lia; try tauto.
  - (* M2 *) apply (pi_upd _ _ _ _ M2 M3 []); auto; try discriminate; cbn; try lia; try tauto.
  - (* M3 *) apply (pi_upd _ _ _ _ M3 M4 (repeat L0 nlis)); auto; try discriminate.
    + apply forallb_forall. intros x Hx'. apply repeat_spec in Hx'. subst x. reflexivity.
    + rewrite cnt_repeat. cbn. lia.
    + intros _ _ _. right. destruct nlis; [lia|left; reflexivity].
    + intros Hx'. apply repeat_spec in Hx'. discriminate.
    + intros Hx'. apply repeat_spec in Hx'. discriminate.
    + intros r Hx'. apply repeat_spec in Hx'. subst r. discriminate.
  - (* M4 *) apply (pi_upd _ _ _ _ M4 M5 []); auto; try discriminate; cbn; try lia; try tauto.
  - (* M5: the errgroup's Wait *)
    destruct (Nat.eqb (p_eg s) 0) eqn:Eg; [|exact HI]. apply Nat.eqb_eq in Eg.
    assert (Hhd : hd_error roles = Some M5).
    { cbn in Hmi. symmetry in Hmi. apply Nat.eqb_eq in Hmi. subst i. destruct roles; [discriminate|]. cbn in Hr. inversion Hr. reflexivity. }
    assert (Z0 : cnt lmem roles = 0%nat) by (rewrite <- He; exact Eg).
    assert (HIs : p_insh s = true).
    { destruct (p_insh s) eqn:E; [reflexivity|]. pose proof (Hl M5 Hhd eq_refl eq_refl) as Q. pose proof (cnt_zero_In _ _ _ Z0 Q). discriminate. }
    assert (HT : p_tok_closed s = true).
    { destruct (p_tok_closed s) eqn:E; [reflexivity|]. destruct (Hc HIs eq_refl) as [Q|Q]; pose proof (cnt_zero_In _ _ _ Z0 Q); discriminate. }
    apply (pi_upd _ _ _ _ M5 M6 []); auto; try discriminate; cbn; try lia; try tauto.
  - (* M6: return from Serve *)
    cbn in Hmi. symmetry in Hmi. rewrite Hmi. apply Nat.eqb_eq in Hmi. subst i.
    apply pi_exit_main; auto.
  - (* MD *) exact HI.
  - (* W *) eapply pi_ext; eauto.
  - (* L0 *) destruct (p_insh s) eqn:HIs; [|exact HI].
    apply (pi_upd _ _ _ _ L0 L1 []); auto; try discriminate; cbn; try lia; try tauto.
  - (* L1 *) pose proof (cnt_pos_eg _ _ _ _ HI Hin eq_refl).
    apply (pi_upd _ _ _ _ L1 LD []); auto; try discriminate; cbn; try lia; try tauto.
  - (* LD *) exact HI.
  - (* C0 *) assert (Hcl : p_closing s = true) by (apply (Hgc C0); auto).
    apply (pi_upd _ _ _ _ C0 C1 [G0]); auto; try discriminate; cbn; try lia; try tauto.
    + intros [E|[]]; discriminate.
    + intros [E|[]]; discriminate.
  - (* C1 *) assert (Hcl : p_closing s = true) by (apply (Hgc C1); auto).
    apply (pi_upd _ _ _ _ C1 C2 []); auto; try discriminate; cbn; try lia; try tauto.
  - (* C2 *) destruct (Nat.eqb (p_eg s) 0) eqn:Eg; [|exact HI].
    assert (Hcl : p_closing s = true) by (apply (Hgc C2); auto).
    apply (pi_upd _ _ _ _ C2 C3 []); auto; try discriminate; cbn; try lia; try tauto.
  - (* C3 *) assert (Hcl : p_closing s = true) by (apply (Hgc C3); auto).
    apply (pi_upd _ _ _ _ C3 CD []); auto; try discriminate; cbn; try lia; try tauto.
  - (* CD *) exact HI.
  - (* G0: http.Server.Shutdown *)
    assert (Hcl : p_closing s = true) by (apply (Hgc G0); auto).
    destruct (p_insh s) eqn:HIs; cbn [negb].
    + destruct (existsb pactive (p_req s)) eqn:Hact; cbn [negb].
      * destruct (grace <=? p_now s - p_shut_at s); [|exact HI].
        eapply (pi_step _ _ _ _ G0 G1 []); eauto; try discriminate; cbn; try lia; try tauto.
      * eapply (pi_step _ _ _ _ G0 G1 []); eauto; try discriminate; cbn; try lia; try tauto.
    + assert (E : set_srv s true (p_now s) (p_drained s) (p_tok_closed s) (p_forced s) =
                  set_srv (set_thr s (map thr_of (update roles i G0 ++ [])) (p_eg s)) true (p_now s) (p_drained s) (p_tok_closed s) (p_forced s)).
      { rewrite app_nil_r, (update_same _ _ _ Hr), <- Ht. reflexivity. }
      rewrite E. replace roles with (update roles i G0 ++ []) at 2 by (rewrite app_nil_r; apply update_same; exact Hr).
      eapply (pi_step _ _ _ _ G0 G0 []); eauto; try discriminate; cbn; try lia; try tauto.
      intros [E0|[]]; discriminate.
  - (* G1: server.Close *)
    assert (Hcl : p_closing s = true) by (apply (Hgc G1); auto).
    assert (HD : p_drained s = true) by auto.
    eapply (pi_step _ _ _ _ G1 G2 []); eauto; try discriminate; cbn; try lia; try tauto.
  - (* G2 *) pose proof (cnt_pos_eg _ _ _ _ HI Hin eq_refl).
    assert (Hcl : p_closing s = true) by (apply (Hgc G2); auto).
    apply (pi_upd _ _ _ _ G2 GD []); auto; try discriminate; cbn; try lia; try tauto.
  - (* GD *) exact HI.
Qed.

Lemma pinv_thr nlis s roles i :
  PI nlis s roles -> p_alive s = true -> exists roles', PI nlis (tstep real_progs nlis s i) roles'.
Proof.
  intros HI Hal. destruct (nth_error roles i) as [r|] eqn:Hr; [eexists; eapply pinv_thr_roles; eauto|].
  exists roles. unfold tstep. rewrite (pi_thr _ _ _ HI). rewrite (proj2 (nth_error_None _ _)); [exact HI|].
  rewrite map_length. apply nth_error_None. exact Hr.
Qed.

(* ---- handler steps *)
Lemma rnext_quiet tokc p : pactive p = false -> pactive (rnext false tokc p) = false.
Proof. destruct p; cbn; auto; discriminate. Qed.
Lemma rnext_ok listen p : req_ok p = true -> req_ok (rnext listen false p) = true.
Proof.
  destruct p as [| |k| | |]; cbn; intros H; auto; [destruct listen; reflexivity|].
  destruct (nth_error serve_sign_calls k) as [c|]; [|reflexivity].
  destruct ((c =? 3) || (c =? 4)); [reflexivity|]. destruct (c =? 6); reflexivity.
Qed.
Lemma rnext_ok_quiet listen tokc p : req_ok p = true -> pactive p = false -> req_ok (rnext listen tokc p) = true.
Proof. destruct p; cbn; intros H A; auto; try discriminate. destruct listen; reflexivity. Qed.

Lemma pinv_req nlis s roles i : PI nlis s roles -> p_alive s = true -> PI nlis (rstep s i) roles.
Proof.
  intros HI Hal. pose proof HI as [Hn Ht Hm He Hl H6 Hd Hc Hg Hgc Hic Hd2 Hd3 Hrq Hx Hp]. unfold rstep.
  destruct (nth_error (p_req s) i) as [p|] eqn:Hp'; [|exact HI].
  constructor; cbn [set_req p_thr p_eg p_insh p_tok_closed p_alive p_drained p_closing p_forced p_req p_how p_code]; auto.
  - intros HD. destruct (Hd2 HD) as (A & B). split; [exact A|]. destruct B as [B|B]; [auto|right].
    apply existsb_forallb_neg. apply forallb_update; [apply existsb_forallb_neg; exact B|].
    assert (Hli : listening s = false) by (unfold listening; rewrite A; reflexivity). rewrite Hli.
    apply negb_true_iff. apply rnext_quiet.
    apply existsb_forallb_neg in B. pose proof (forallb_nth _ _ _ _ B Hp') as Q. apply negb_true_iff in Q. exact Q.
  - intros HF. apply forallb_update; [auto|].
    pose proof (forallb_nth _ _ _ _ (Hrq HF) Hp') as Ok.
    destruct (p_tok_closed s) eqn:HT; [|apply rnext_ok; exact Ok].
    destruct (Hd2 (Hd3 eq_refl)) as (A & [B|B]); [congruence|].
    apply rnext_ok_quiet; [exact Ok|].
    apply existsb_forallb_neg in B. pose proof (forallb_nth _ _ _ _ B Hp') as Q. apply negb_true_iff in Q. exact Q.
  - intros Hf. rewrite Hf in Hal. discriminate.
Qed.

(* ---- every event preserves the invariant *)
Definition PInv (nlis : nat) (s : pstate) : Prop := exists roles, PI nlis s roles.

Lemma pinv_step nlis s e : PInv nlis s -> PInv nlis (pstep real_progs nlis s e).
Proof.
  intros (roles & HI). unfold pstep. destruct (p_alive s) eqn:Hal; cbn [negb]; [|exists roles; exact HI].
  destruct e as [i|i|sig| |d].
  - eapply pinv_thr; eauto.
  - exists roles. apply pinv_req; auto.
  - destruct (p_watch s && existsb (Z.eqb sig) sig_notified).
    + destruct (zlen (p_pending s) <? sig_chan_cap); [|exists roles; exact HI]. exists roles. eapply pi_ext; eauto.
    + exists roles. apply pi_exit_other; auto. discriminate.
  - destruct (p_watch s); [|exists roles; exact HI]. destruct (p_pending s) as [|sig rest]; [exists roles; exact HI|].
    destruct (sig_action sig (p_already s)) as [act al].
    destruct ((act =? 1) || (act =? 3)).
    + exists (roles ++ [C0]). apply pi_spawn_closer. exact HI.
    + destruct (act =? 2).
      * exists roles. apply pi_exit_other; [eapply pi_ext; eauto|exact Hal|discriminate].
      * exists roles. eapply pi_ext; eauto.
  - exists roles. eapply pi_ext; eauto.
Qed.

Lemma pinv_init nlis n : (1 <= nlis)%nat -> PInv nlis (pinit real_progs n).
Proof.
  intros Hn. exists [M0].
  constructor; cbn [pinit p_thr p_eg p_insh p_tok_closed p_alive p_drained p_closing p_forced p_req p_how p_code]; try discriminate; auto.
  - exists M0, []. auto.
  - intros m E. inversion E; subst. discriminate.
  - intros m E. inversion E; subst. discriminate.
  - intros [E|[]]. discriminate.
  - intros [E|[]]. discriminate.
  - intros r [<-|[]]. discriminate.
  - intros _. clear. induction n; cbn; auto.
Qed.
Lemma pinv_fold nlis sched s : PInv nlis s -> PInv nlis (fold_left (pstep real_progs nlis) sched s).
Proof. revert s; induction sched as [|e l IH]; intros s H; cbn; auto using pinv_step. Qed.
Lemma pinv_run nlis n sched : (1 <= nlis)%nat -> PInv nlis (prun nlis n sched).
Proof. intros Hn. apply pinv_fold, pinv_init, Hn. Qed.

(* ================= theorems ================= *)

(* THE PROPERTY, process level. For every number of listeners and handlers and every schedule: unless the operator forced
   the exit (a second signal: os.Exit), the process was killed by a signal that arrived before signal.Notify had run, or
   a handler outlived the grace period, no accepted request is ever cut off or loses its token, and when the process has
   gone away nothing was left running and the tokens had been closed first. *)
Lemma proc_shutdown_lets_requests_finish : forall nlis n sched, (1 <= nlis)%nat ->
  let s := prun nlis n sched in p_forced s = false -> spec_ok s = true.
Proof.
  intros nlis n sched Hn s HF. destruct (pinv_run nlis n sched Hn) as (roles & HI). fold s in HI.
  unfold spec_ok. rewrite (pi_req _ _ _ HI HF). cbn [andb].
  destruct (p_alive s) eqn:Hal; [reflexivity|]. cbn [orb].
  destruct (pi_x _ _ _ HI Hal) as (A & B). apply existsb_forallb_neg in A. rewrite A. cbn [andb].
  destruct (p_how s =? 1) eqn:Eh; [|reflexivity]. apply Z.eqb_eq in Eh. destruct (B Eh) as (B1 & _). rewrite B1. reflexivity.
Qed.

(* Serve returns last: when the main goroutine has returned from Daemon.Serve — the moment the process exits — server.Close
   has run, Shutdown had returned before that, and (within the grace period) no handler is running or was cut *)
Lemma serve_returns_last : forall nlis n sched t0, (1 <= nlis)%nat ->
  let s := prun nlis n sched in
  nth_error (p_thr s) 0 = Some t0 -> t_done t0 = true \/ (t_ops t0 = [] /\ t_items t0 = []) ->
  p_tok_closed s = true /\ p_drained s = true /\ p_insh s = true /\
  (p_forced s = false -> existsb pactive (p_req s) = false /\ forallb req_ok (p_req s) = true).
Proof.
  intros nlis n sched t0 Hn s Ht0 Hsh. destruct (pinv_run nlis n sched Hn) as (roles & HI). fold s in HI.
  pose proof HI as [_ Ht Hm He Hl H6 Hd Hc Hg Hgc Hic Hd2 Hd3 Hrq Hx Hp].
  destruct Hm as (m & rest & -> & Hmm & Hrest).
  rewrite Ht in Ht0. cbn in Ht0. inversion Ht0; subst t0; clear Ht0.
  assert (Hr : returned m = true) by (destruct m; cbn in Hsh, Hmm; destruct Hsh as [E|[E1 E2]]; try discriminate; reflexivity).
  assert (HT : p_tok_closed s = true) by (apply (H6 m); auto).
  pose proof (Hd3 HT) as HD. destruct (Hd2 HD) as (HIs & HFQ).
  repeat split; auto. destruct HFQ; [congruence|assumption].
Qed.

(* the exit code of a graceful shutdown is 0 (70 when Shutdown ran into its deadline), and the process never exits through
   main unless a shutdown was asked for *)
Lemma graceful_exit_code : forall nlis n sched, (1 <= nlis)%nat ->
  let s := prun nlis n sched in p_alive s = false -> p_how s = 1 ->
  p_code s = (if p_forced s then timeout_exit_code else 0) /\ p_closing s = true /\ p_tok_closed s = true.
Proof.
  intros nlis n sched Hn s Hal Hh. destruct (pinv_run nlis n sched Hn) as (roles & HI). fold s in HI.
  destruct (pi_x _ _ _ HI Hal) as (_ & B). destruct (B Hh) as (B1 & B2 & _).
  split; [exact B2|]. split; [|exact B1]. apply (pi_ic _ _ _ HI). destruct (pi_d2 _ _ _ HI (pi_d3 _ _ _ HI B1)). assumption.
Qed.

(* the tokens are never closed under a running handler (within the grace period), also at process level *)
Lemma proc_tokens_closed_after_handlers : forall nlis n sched, (1 <= nlis)%nat ->
  let s := prun nlis n sched in p_tok_closed s = true -> p_forced s = false -> existsb pactive (p_req s) = false.
Proof.
  intros nlis n sched Hn s HT HF. destruct (pinv_run nlis n sched Hn) as (roles & HI). fold s in HI.
  destruct (pi_d2 _ _ _ HI (pi_d3 _ _ _ HI HT)) as (_ & [F|Q]); [congruence|exact Q].
Qed.

(* ================= liveness ================= *)

(* a thread that is blocked does not move *)
Lemma blocked_is_noop : forall pg nlis s i, enabled s i = false -> tstep pg nlis s i = s.
Proof.
  intros pg nlis s i. unfold enabled, tstep. destruct (nth_error (p_thr s) i) as [t|]; [|reflexivity].
  unfold live. destruct (t_done t); cbn [negb andb]; [reflexivity|].
  destruct (t_ops t) as [|c rest]; [discriminate|].
  destruct (Z.eqb_spec c 1) as [->|n1]; [cbn [Z.eqb Pos.eqb]; intros ->; reflexivity|].
  destruct (Z.eqb_spec c 2) as [->|n2].
  { cbn [Z.eqb Pos.eqb]. intros H. apply orb_false_iff in H as [H1 H3]. apply orb_false_iff in H1 as [H1 H2]. rewrite H1, H2, H3. reflexivity. }
  destruct (Z.eqb_spec c 4) as [->|n4]; [cbn [Z.eqb Pos.eqb]; intros ->; reflexivity|].
  destruct (Z.eqb_spec c 5) as [->|n5]; [|discriminate].
  intros H. apply negb_false_iff in H. cbn [Z.eqb Pos.eqb]. destruct s; cbn in *; subst; reflexivity.
Qed.

(* what is left to do, counted so that every step of a goroutine that is not blocked lowers it *)
Definition rw (nlis : nat) (r : role) : nat :=
  match r with
  | M0 => 7 + 2 * nlis | M1 => 6 + 2 * nlis | M2 => 5 + 2 * nlis | M3 => 4 + 2 * nlis | M4 => 3 | M5 => 2 | M6 => 1 | MD => 0
  | W => 0 | L0 => 2 | L1 => 1 | LD => 0
  | C0 => 7 | C1 => 3 | C2 => 2 | C3 => 1 | CD => 0
  | G0 => 3 | G1 => 2 | G2 => 1 | GD => 0
  end%nat.
Definition sumw (nlis : nat) (l : list role) : nat := fold_right (fun r a => (rw nlis r + a)%nat) 0%nat l.
Definition mu (nlis : nat) (s : pstate) (roles : list role) : nat := (sumw nlis roles + b2n (negb (p_insh s)))%nat.
Lemma sumw_app nlis a b : sumw nlis (a ++ b) = (sumw nlis a + sumw nlis b)%nat.
Proof. induction a as [|x a IH]; cbn [app sumw fold_right]; [reflexivity|]. fold (sumw nlis (a ++ b)). fold (sumw nlis a). lia. Qed.
Lemma sumw_update nlis l i y z : nth_error l i = Some y -> (sumw nlis (update l i z) + rw nlis y = sumw nlis l + rw nlis z)%nat.
Proof.
  revert i; induction l as [|a l IH]; intros [|i]; cbn [nth_error update sumw fold_right]; intros H; try discriminate.
  - inversion H; subst. fold (sumw nlis l). lia.
  - specialize (IH _ H). fold (sumw nlis l). fold (sumw nlis (update l i z)). lia.
Qed.
Lemma sumw_repeat nlis x n : sumw nlis (repeat x n) = (n * rw nlis x)%nat.
Proof. induction n; cbn [repeat sumw fold_right]; [reflexivity|]. fold (sumw nlis (repeat x n)). lia. Qed.
Lemma sumw_In nlis l x : In x l -> (rw nlis x <= sumw nlis l)%nat.
Proof. induction l as [|a l IH]; cbn [In sumw fold_right]; intros H; [contradiction|]. fold (sumw nlis l). destruct H as [->|H]; [lia|]. specialize (IH H). lia. Qed.

Definition role_enabled (s : pstate) (r : role) : bool :=
  match r with
  | M5 | C2 => Nat.eqb (p_eg s) 0
  | L0 => p_insh s
  | G0 => negb (p_insh s) || negb (existsb pactive (p_req s)) || (grace <=? p_now s - p_shut_at s)
  | W => negb (p_watch s)
  | MD | LD | CD | GD => false
  | _ => true
  end.
Lemma enabled_role s roles i r : p_thr s = map thr_of roles -> nth_error roles i = Some r -> enabled s i = role_enabled s r.
Proof. intros Ht Hr. unfold enabled. rewrite Ht, (map_nth_error thr_of _ _ Hr). destruct r; reflexivity. Qed.

Lemma cnt_pos_ex {A} (f : A -> bool) l : (1 <= cnt f l)%nat -> exists j x, nth_error l j = Some x /\ f x = true.
Proof.
  unfold cnt. induction l as [|a l IH]; cbn [filter length]; intros H; [lia|].
  destruct (f a) eqn:E; [exists 0%nat, a; auto|]. destruct (IH H) as (j & x & Hj & Hx). exists (S j), x. auto.
Qed.

(* NO DEADLOCK: once a graceful shutdown has been started and no handler is running, some goroutine can move *)
Lemma live_choice nlis s roles :
  PI nlis s roles -> p_alive s = true -> p_closing s = true -> existsb pactive (p_req s) = false ->
  exists i r, nth_error roles i = Some r /\ role_enabled s r = true /\ r <> W.
Proof.
  intros HI Hal Hcl Hq. pose proof HI as [Hn Ht Hm He Hl H6 Hd Hc Hg Hgc Hic Hd2 Hd3 Hrq Hx Hp].
  destruct Hm as (m & rest & -> & Hmm & Hrest).
  assert (Pick : forall x, In x (m :: rest) -> role_enabled s x = true -> x <> W -> exists i r, nth_error (m :: rest) i = Some r /\ role_enabled s r = true /\ r <> W).
  { intros x Hin He' Hw. apply In_nth_error in Hin as (j & Hj). exists j, x. auto. }
  assert (H0 : role_enabled s m = true -> exists i r, nth_error (m :: rest) i = Some r /\ role_enabled s r = true /\ r <> W).
  { intros E. exists 0%nat, m. repeat split; auto. intros ->. discriminate. }
  destruct m; try discriminate; try (apply H0; reflexivity).
  - (* main is waiting in Serve *)
    destruct (Nat.eqb (p_eg s) 0) eqn:Eg; [apply H0; cbn; exact Eg|].
    apply Nat.eqb_neq in Eg. assert (Hc1 : (1 <= cnt lmem (M5 :: rest))%nat) by lia.
    destruct (cnt_pos_ex _ _ Hc1) as (j & x & Hj & Hx').
    assert (Hq' : role_enabled s G0 = true) by (cbn [role_enabled]; rewrite Hq; cbn [negb]; rewrite orb_true_r; reflexivity).
    destruct x; try discriminate.
    + (* a listener *) destruct (p_insh s) eqn:HIs.
      * exists j, L0. cbn. auto using eq_sym. repeat split; auto. discriminate.
      * destruct (Hp Hcl eq_refl) as [Hin|Hin].
        -- apply (Pick C0); auto. discriminate.
        -- apply (Pick G0); auto. discriminate.
    + exists j, L1. repeat split; auto. discriminate.
    + exists j, G0. repeat split; auto. discriminate.
    + exists j, G1. repeat split; auto. discriminate.
    + exists j, G2. repeat split; auto. discriminate.
  - (* main is gone: the process is not alive *)
    rewrite Hd in Hal; [discriminate|left; reflexivity].
Qed.

Lemma step_decreases nlis s roles i r :
  PI nlis s roles -> p_alive s = true -> existsb pactive (p_req s) = false -> p_forced s = false ->
  nth_error roles i = Some r -> role_enabled s r = true -> r <> W ->
  let s' := tstep real_progs nlis s i in
  (mu nlis s' (next_roles nlis s i roles r) < mu nlis s roles)%nat /\ p_closing s' = p_closing s /\
  existsb pactive (p_req s') = false /\ p_forced s' = false /\ (p_alive s' = true \/ (p_how s' = 1 /\ p_code s' = 0)).
Proof.
  intros HI Hal Hq HF Hr Hen Hw. pose proof (pi_thr _ _ _ HI) as Ht. pose proof (main_index _ _ _ (pi_main _ _ _ HI) Hr) as Hmi.
  cbn zeta. rewrite (tstep_roles nlis s i roles r Ht Hr) by (intros E; rewrite E in Hmi; intros ->; discriminate).
  pose proof (sumw_update nlis roles i r) as SU.
  unfold mu. destruct r; cbn [role_enabled] in Hen; try discriminate; try contradiction; cbn [role_step next_roles];
    rewrite ?Hen; cbn [negb];
    try (cbn [set_thr set_srv p_insh p_closing p_req p_alive p_how p_code p_forced]; rewrite ?Hen; rewrite sumw_app; cbn [sumw fold_right rw];
         match goal with |- context [update roles i ?z] => specialize (SU z Hr); cbn [rw] in SU end;
         rewrite ?sumw_repeat; cbn [rw negb b2n]; repeat split; auto; lia).
  - (* M6 *) cbn in Hmi. rewrite <- Hmi. rewrite HF.
    cbn [exit_proc set_thr p_insh p_closing p_req p_alive p_how p_code p_forced]. rewrite sumw_app. cbn [sumw fold_right].
    specialize (SU MD Hr). cbn [rw] in SU. split; [lia|]. split; [reflexivity|]. split; [apply cut_quiet|].
    split; [rewrite HF; reflexivity|]. right; split; [reflexivity|apply main_exit_code_eq].
  - (* G0 *) destruct (p_insh s) eqn:HIs; cbn [negb].
    + rewrite Hq. cbn [negb].
      cbn [set_thr set_srv p_insh p_closing p_req p_alive p_how p_code p_forced]. rewrite sumw_app. cbn [sumw fold_right].
      specialize (SU G1 Hr). cbn [rw] in SU. cbn [negb b2n] in *. repeat split; auto. lia.
    + cbn [set_srv p_insh p_closing p_req p_alive p_how p_code p_forced]. cbn [negb b2n]. repeat split; auto. lia.
Qed.

(* THE PROCESS EXITS: from every reachable state in which a graceful shutdown has been started and no handler is running,
   letting goroutines that are not blocked take steps (in any such order that is chosen here) ends the process through
   main's return with exit code 0 *)
Definition is_thr (e : pev) : Prop := exists i, e = PThr i.
Lemma proc_exits_aux : forall k nlis s roles,
  PI nlis s roles -> (mu nlis s roles <= k)%nat -> p_alive s = true -> p_closing s = true -> existsb pactive (p_req s) = false ->
  p_forced s = false ->
  exists sched, Forall is_thr sched /\ (length sched <= k)%nat /\
    let s' := fold_left (pstep real_progs nlis) sched s in p_alive s' = false /\ p_how s' = 1 /\ p_code s' = 0.
Proof.
  induction k as [|k IH]; intros nlis s roles HI Hmu Hal Hcl Hq HF.
  - exfalso. destruct (live_choice _ _ _ HI Hal Hcl Hq) as (i & r & Hr & Hen & Hw).
    destruct (step_decreases _ _ _ _ _ HI Hal Hq HF Hr Hen Hw) as (Hlt & _). lia.
  - destruct (live_choice _ _ _ HI Hal Hcl Hq) as (i & r & Hr & Hen & Hw).
    destruct (step_decreases _ _ _ _ _ HI Hal Hq HF Hr Hen Hw) as (Hlt & Hc' & Hq' & HF' & Hal').
    pose proof (pinv_thr_roles _ _ _ _ _ HI Hal Hr) as HI'.
    assert (Est : pstep real_progs nlis s (PThr i) = tstep real_progs nlis s i) by (unfold pstep; rewrite Hal; reflexivity).
    destruct (p_alive (tstep real_progs nlis s i)) eqn:Hal2.
    + destruct (IH nlis _ _ HI') as (sched & Hf & Hlen & Hres); auto; [lia|congruence|].
      exists (PThr i :: sched). split; [constructor; [exists i; reflexivity|exact Hf]|]. split; [cbn [length]; lia|].
      cbn [fold_left]. rewrite Est. exact Hres.
    + exists [PThr i]. split; [constructor; [exists i; reflexivity|constructor]|]. split; [cbn; lia|].
      cbn [fold_left]. rewrite Est. destruct Hal' as [E|(E1 & E2)]; [congruence|]. auto.
Qed.
Lemma proc_exits : forall nlis s, PInv nlis s -> p_alive s = true -> p_closing s = true -> existsb pactive (p_req s) = false ->
  p_forced s = false ->
  exists sched, Forall is_thr sched /\
    let s' := fold_left (pstep real_progs nlis) sched s in p_alive s' = false /\ p_how s' = 1 /\ p_code s' = 0.
Proof.
  intros nlis s (roles & HI) Hal Hcl Hq HF. destruct (proc_exits_aux _ _ _ _ HI (le_n _) Hal Hcl Hq HF) as (sched & A & _ & B). eauto.
Qed.
Lemma proc_no_deadlock : forall nlis s, PInv nlis s -> p_alive s = true -> p_closing s = true -> existsb pactive (p_req s) = false ->
  exists i, enabled s i = true.
Proof.
  intros nlis s (roles & HI) Hal Hcl Hq. destruct (live_choice _ _ _ HI Hal Hcl Hq) as (i & r & Hr & Hen & _).
  exists i. rewrite (enabled_role _ _ _ _ (pi_thr _ _ _ HI) Hr). exact Hen.
Qed.

(* ================= where the full statement does NOT hold, with witnesses ================= *)
Definition startup : list pev := [PThr 0; PThr 0; PThr 0; PThr 0; PThr 0; PThr 1].   (* main up to the Wait in Serve; handler installed *)

(* WHY Shutdown runs inside the errgroup: were Daemon.Close to call Shutdown / server.Close / Wait directly on its own
   goroutine (programs as srcgen translates that variant), main would return from Serve as soon as the listeners are
   closed and a request in flight would be cut off — with no second signal, no kill and no timeout involved *)
Definition direct_close_progs : progs := mkPg main_prog daemon_serve_prog [(0, [2]); (0, [3]); (0, [4])].
Lemma close_outside_group_refuted : exists sched,
  let s := prun_gen direct_close_progs 1 1 sched in
  p_forced s = false /\ p_alive s = false /\ p_how s = 1 /\ p_req s = [PCut] /\ p_tok_closed s = false /\ spec_ok s = false.
Proof.
  exists (startup ++ [PReq 0; PReq 0; PSig 15; PWatch; PThr 3; PThr 3; PThr 2; PThr 2; PThr 0; PThr 0]).
  vm_compute. repeat split; reflexivity.
Qed.
(* a second signal while the shutdown is waiting for a handler: watchSignals calls os.Exit, the handler is cut off
   (documented behaviour: "shutting down immediately") *)
Lemma second_signal_refuted : exists sched,
  let s := prun 1 1 sched in p_forced s = true /\ p_how s = 2 /\ p_code s = sig_exit_code /\ p_req s = [PCut].
Proof. exists (startup ++ [PReq 0; PReq 0; PSig 15; PWatch; PSig 2; PWatch]). vm_compute. repeat split; reflexivity. Qed.
(* a signal that arrives after the listeners accept but before the watcher goroutine has called signal.Notify ends the
   process by its default action (the window between `go watchSignals(srv)` and the goroutine's first statement) *)
Lemma signal_before_notify_refuted : exists sched,
  let s := prun 1 1 sched in p_forced s = true /\ p_how s = 3 /\ p_watch s = false /\ p_req s = [PCut].
Proof. exists [PThr 0; PThr 0; PThr 0; PThr 0; PThr 0; PReq 0; PSig 15]. vm_compute. repeat split; reflexivity. Qed.
(* a handler that outlives the grace period (generated constant) has its token closed under it *)
Lemma proc_grace_period_refuted : exists sched,
  let s := prun 1 1 sched in p_forced s = true /\ p_alive s = true /\ p_req s = [PTokGone].
Proof.
  exists (startup ++ [PReq 0; PReq 0; PSig 15; PWatch; PThr 3; PThr 4; PTick daemon_shutdown_timeout; PThr 4; PThr 4; PReq 0; PReq 0; PReq 0]).
  vm_compute. repeat split; reflexivity.
Qed.
