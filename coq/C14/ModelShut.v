(* C14/ModelShut.v — shutdown arriving at any moment (server/daemon/daemon.go Close, server.Close, the health loop),
   the handlers it must let finish, and the audit file they append to.

   A request is accepted (its handler starts) only while the listener is open; the handler then walks the call table of
   serveSign (generated): Init and Sign use the token, PublishAudit appends one line to the audit file, Write sends the
   200 response; any of the three can fail, which ends the request with an error response. daemon.Close starts a
   goroutine that runs the generated program of its closure — http.Server.Shutdown (closes the listener, then waits
   until no handler is active or the generated timeout has elapsed), then server.Close (generated statement order:
   close the health loop's channel, wait until the loop goroutine is gone, close every token) — and waits for it. The
   health loop pings the tokens one after another when its timer fires, looks at the closed channel before every ping,
   and leaves when it sees the closed channel; a select with both cases ready may take either. The schedule interleaves
   all of these with clock ticks. *)
From Relic Require Import Base.Prelude Generated.C14_gen C14.Model.

Inductive tev := TUse (i : nat) | TPing | TPong | TClose.       (* token used by handler i / health ping begins / ends / tokens closed *)
Inductive hpc := HNew | HRefused | HRun (k : nat) | HHalf (k : nat) | HDone | HErr.
Inductive lpc := LWait | LCheck (n : nat) | LPing (n : nat) | LExit.

Record sstate := mkSS {
  ss_now : Z; ss_listening : bool;
  ss_called : bool;            (* daemon.Close has been called *)
  ss_begun : bool;             (* http.Server.Shutdown has closed the listener *)
  ss_shut_at : Z;              (* when it did *)
  ss_sd : nat;                 (* next operation of the shutdown goroutine (index into close_prog) *)
  ss_forced : bool;            (* Shutdown gave up waiting (timeout) while a handler was still active *)
  ss_chan_closed : bool; ss_tok_closed : bool;
  ss_returned : bool;          (* daemon.Close has returned *)
  ss_req : list hpc; ss_file : list Z; ss_order : list nat (* requests in the order of their appends, newest first *);
  ss_trace : list tev (* newest first *); ss_loop : lpc }.

Inductive sev := EReq (i : nat) (ok : bool) | EShutdown | EGo | EWait | ETick (d : Z) | EHealth (timer : bool).

(* the closure daemon.Close hands to the errgroup: the Shutdown / Close calls in source order (2 = Shutdown, 3 = Close) *)
Definition close_prog : list Z := filter (fun c => (c =? 2) || (c =? 3)) daemon_close_order.
Definition close_waits : bool := daemon_close_in_group && (daemon_close_pos_wait =? 1) && daemon_serve_in_group.
(* one append = one write of the whole line including its newline, to a descriptor opened with O_APPEND *)
Definition audit_atomic : bool := (append_write_calls =? 1) && append_adds_newline && append_opens_o_append && append_writes_blob.

(* server.Close closes the channel first, then waits for the health loop (whose goroutine signals its exit), then closes
   the tokens; healthCheck looks at the channel before every ping *)
Definition server_close_waits_loop : bool :=
  (0 <=? server_close_pos_chan) && (server_close_pos_chan <? server_close_pos_wait) && (server_close_pos_wait <? server_close_pos_tokens) &&
  health_done_registered && health_done_closed_on_exit && existsb (Z.eqb 0) server_close_calls && existsb (Z.eqb 1) server_close_calls.
Definition health_guard : bool := health_check_stops_on_close.

Definition active (p : hpc) : bool := match p with HRun _ | HHalf _ => true | _ => false end.
Definition terminal (p : hpc) : bool := match p with HDone | HErr | HRefused => true | _ => false end.
Definition nl : Z := 10.

(* setters *)
Definition set_req (s : sstate) (r : list hpc) : sstate :=
  mkSS (ss_now s) (ss_listening s) (ss_called s) (ss_begun s) (ss_shut_at s) (ss_sd s) (ss_forced s) (ss_chan_closed s) (ss_tok_closed s)
       (ss_returned s) r (ss_file s) (ss_order s) (ss_trace s) (ss_loop s).
Definition add_trace (s : sstate) (e : tev) : sstate :=
  mkSS (ss_now s) (ss_listening s) (ss_called s) (ss_begun s) (ss_shut_at s) (ss_sd s) (ss_forced s) (ss_chan_closed s) (ss_tok_closed s)
       (ss_returned s) (ss_req s) (ss_file s) (ss_order s) (e :: ss_trace s) (ss_loop s).
Definition set_file (s : sstate) (f : list Z) (o : list nat) : sstate :=
  mkSS (ss_now s) (ss_listening s) (ss_called s) (ss_begun s) (ss_shut_at s) (ss_sd s) (ss_forced s) (ss_chan_closed s) (ss_tok_closed s)
       (ss_returned s) (ss_req s) f o (ss_trace s) (ss_loop s).
Definition set_loop (s : sstate) (l : lpc) : sstate :=
  mkSS (ss_now s) (ss_listening s) (ss_called s) (ss_begun s) (ss_shut_at s) (ss_sd s) (ss_forced s) (ss_chan_closed s) (ss_tok_closed s)
       (ss_returned s) (ss_req s) (ss_file s) (ss_order s) (ss_trace s) l.

(* one handler step. [atomic]: whether an append is one write. [line i]: the audit line of request i (no newline). *)
Definition hstep (atomic : bool) (line : nat -> list Z) (i : nat) (ok : bool) (p : hpc) (s : sstate) : sstate :=
  let go q := set_req s (update (ss_req s) i q) in
  match p with
  | HNew => if ss_listening s then go (HRun 0) else go HRefused
  | HRun k =>
      match nth_error serve_sign_calls k with
      | None => go HDone
      | Some c =>
          if (c =? 3) || (c =? 4) then                                  (* Init / Sign: the token is used *)
            let s1 := add_trace s (TUse i) in
            set_req s1 (update (ss_req s1) i (if ok then HRun (S k) else HErr))
          else if c =? 5 then                                           (* PublishAudit *)
            if ok then
              if atomic then
                let s1 := set_file s (ss_file s ++ line i ++ [nl]) (i :: ss_order s) in set_req s1 (update (ss_req s1) i (HRun (S k)))
              else
                let s1 := set_file s (ss_file s ++ line i) (i :: ss_order s) in set_req s1 (update (ss_req s1) i (HHalf k))
            else go HErr
          else if c =? 6 then go HDone                                  (* response written *)
          else go (HRun (S k))                                          (* local work *)
      end
  | HHalf k => let s1 := set_file s (ss_file s ++ [nl]) (ss_order s) in set_req s1 (update (ss_req s1) i (HRun (S k)))
  | HRefused | HDone | HErr => s
  end.

(* one step of the shutdown goroutine. [waits]: server.Close waits for the health loop before closing the tokens *)
Definition gostep_gen (waits : bool) (ntok : nat) (s : sstate) : sstate :=
  if negb (ss_called s) then s else
  match nth_error close_prog (ss_sd s) with
  | None => s
  | Some c =>
      if c =? 2 then                                                    (* http.Server.Shutdown *)
        if negb (ss_begun s) then
          mkSS (ss_now s) false true true (ss_now s) (ss_sd s) (ss_forced s) (ss_chan_closed s) (ss_tok_closed s) (ss_returned s)
               (ss_req s) (ss_file s) (ss_order s) (ss_trace s) (ss_loop s)
        else if negb (existsb active (ss_req s)) then
          mkSS (ss_now s) (ss_listening s) true true (ss_shut_at s) (S (ss_sd s)) (ss_forced s) (ss_chan_closed s) (ss_tok_closed s)
               (ss_returned s) (ss_req s) (ss_file s) (ss_order s) (ss_trace s) (ss_loop s)
        else if daemon_shutdown_timeout <=? ss_now s - ss_shut_at s then
          mkSS (ss_now s) (ss_listening s) true true (ss_shut_at s) (S (ss_sd s)) true (ss_chan_closed s) (ss_tok_closed s)
               (ss_returned s) (ss_req s) (ss_file s) (ss_order s) (ss_trace s) (ss_loop s)
        else s
      else if waits then                                                (* server.Close, statement by statement *)
        if negb (ss_chan_closed s) then                                 (*   close(s.closeCh) *)
          mkSS (ss_now s) (ss_listening s) true (ss_begun s) (ss_shut_at s) (ss_sd s) (ss_forced s) true (ss_tok_closed s)
               (ss_returned s) (ss_req s) (ss_file s) (ss_order s) (ss_trace s) (ss_loop s)
        else match ss_loop s with
             | LExit =>                                                 (*   <-s.healthDone has returned: close the tokens *)
                 mkSS (ss_now s) (ss_listening s) true (ss_begun s) (ss_shut_at s) (S (ss_sd s)) (ss_forced s) true true
                      (ss_returned s) (ss_req s) (ss_file s) (ss_order s) (TClose :: ss_trace s) (ss_loop s)
             | _ => s                                                   (*   blocked on <-s.healthDone *)
             end
      else                                                              (* channel and tokens closed without waiting *)
        mkSS (ss_now s) (ss_listening s) true (ss_begun s) (ss_shut_at s) (S (ss_sd s)) (ss_forced s) true true
             (ss_returned s) (ss_req s) (ss_file s) (ss_order s) (TClose :: ss_trace s) (ss_loop s)
  end.

(* one step of the health loop. [guard]: healthCheck looks at the closed channel before every ping *)
Definition lstep_gen (guard : bool) (ntok : nat) (timer : bool) (s : sstate) : sstate :=
  match ss_loop s with
  | LWait => if timer then set_loop s (LCheck ntok)
             else if ss_chan_closed s then (if health_loop_exits_on_close then set_loop s LExit else s) else s
  | LCheck (S n) => if guard && ss_chan_closed s then set_loop s LWait          (* healthCheck returns early *)
                    else set_loop (add_trace s TPing) (LPing n)
  | LPing n => set_loop (add_trace s TPong) (LCheck n)
  | LCheck O => set_loop s LWait
  | LExit => s
  end.

Definition sstep_gen (atomic waits guard : bool) (line : nat -> list Z) (ntok : nat) (s : sstate) (e : sev) : sstate :=
  match e with
  | EReq i ok => match nth_error (ss_req s) i with Some p => hstep atomic line i ok p s | None => s end
  | EShutdown =>
      mkSS (ss_now s) (ss_listening s) true (ss_begun s) (ss_shut_at s) (ss_sd s) (ss_forced s) (ss_chan_closed s) (ss_tok_closed s)
           (ss_returned s) (ss_req s) (ss_file s) (ss_order s) (ss_trace s) (ss_loop s)
  | EGo => gostep_gen waits ntok s
  | EWait =>
      if ss_called s && (if close_waits then Nat.leb (length close_prog) (ss_sd s) else true) then
        mkSS (ss_now s) (ss_listening s) true (ss_begun s) (ss_shut_at s) (ss_sd s) (ss_forced s) (ss_chan_closed s) (ss_tok_closed s)
             true (ss_req s) (ss_file s) (ss_order s) (ss_trace s) (ss_loop s)
      else s
  | ETick d =>
      mkSS (ss_now s + Z.max 0 d) (ss_listening s) (ss_called s) (ss_begun s) (ss_shut_at s) (ss_sd s) (ss_forced s) (ss_chan_closed s)
           (ss_tok_closed s) (ss_returned s) (ss_req s) (ss_file s) (ss_order s) (ss_trace s) (ss_loop s)
  | EHealth timer => lstep_gen guard ntok timer s
  end.
Definition gostep := gostep_gen server_close_waits_loop.
Definition lstep := lstep_gen health_guard.
Definition sstep := sstep_gen audit_atomic server_close_waits_loop health_guard.
Definition sinit (n : nat) : sstate := mkSS 0 true false false 0 0 false false false false (repeat HNew n) [] [] [] LWait.
Definition srun (line : nat -> list Z) (ntok n : nat) (sched : list sev) : sstate := fold_left (sstep line ntok) sched (sinit n).
Definition srun_gen (atomic waits guard : bool) (line : nat -> list Z) (ntok n : nat) (sched : list sev) : sstate :=
  fold_left (sstep_gen atomic waits guard line ntok) sched (sinit n).

(* ---- SPECIFICATION side (from the property text) *)
(* the token is never used by a handler after it has been closed; trace is newest first *)
Fixpoint has_close (tr : list tev) : bool := match tr with [] => false | TClose :: _ => true | _ :: r => has_close r end.
Fixpoint clean (tr : list tev) : bool :=
  match tr with [] => true | TUse _ :: r => negb (has_close r) && clean r | _ :: r => clean r end.
(* ... nor by the health loop: no ping begins, and none is still running, after the tokens were closed *)
Fixpoint no_ping_after_close (tr : list tev) : bool :=
  match tr with
  | [] => true
  | TPing :: r | TPong :: r => negb (has_close r) && no_ping_after_close r
  | _ :: r => no_ping_after_close r
  end.
(* the audit file read back: complete lines, and whatever follows the last newline *)
Fixpoint split_nl (acc : list Z) (f : list Z) : list (list Z) * list Z :=
  match f with
  | [] => ([], acc)
  | b :: r => if b =? nl then let '(ls, rest) := split_nl [] r in (acc :: ls, rest) else split_nl (acc ++ [b]) r
  end.
Definition read_lines (f : list Z) : list (list Z) * list Z := split_nl [] f.
(* a request whose audit record has been written *)
Definition audited (p : hpc) : bool :=
  match p with
  | HRun k => existsb (fun j => match nth_error serve_sign_calls j with Some 5 => true | _ => false end) (seq 0 k)
  | HHalf _ => true
  | HDone => true
  | _ => false
  end.
