(* C14/ProofsInit.v — the shared timestamper is constructed at most once and every caller gets that one instance; the
   generated list of package-level state equals the reviewed list. *)
From Relic Require Import Base.Prelude Generated.C14_gen C14.Model C14.Proofs C14.ModelInit.
From Coq Require Import String.

Lemma ts_flags : ts_lock_spans_call && ts_table_ok = true. Proof. reflexivity. Qed.

Definition tfin (p : tpc) (a : Z) : Prop := p = TRet (Some a) \/ p = TDone (Some a).
Record TInv (s : tstate) : Prop := mkTInv {
  ti_own : forall i p, nth_error (ts_thr s) i = Some p -> tsec p = true -> ts_lock s = Some i;
  ti_val : (ts_val s = None /\ ts_made s = []) \/ (exists v, ts_val s = Some v /\ ts_made s = [v]);
  ti_creating : forall i, nth_error (ts_thr s) i = Some TCreating -> ts_val s = None;
  ti_res : forall i p a, nth_error (ts_thr s) i = Some p -> tfin p a -> ts_val s = Some a
}.

Lemma tinv_init n : TInv (tinit n).
Proof.
  assert (T : forall i p, nth_error (repeat TNew n) i = Some p -> p = TNew) by (intros i p H; apply nth_error_In, repeat_spec in H; exact H).
  constructor; cbn [tinit ts_thr ts_lock ts_val ts_made].
  - intros i p H Hs. rewrite (T _ _ H) in Hs. discriminate.
  - left; auto.
  - intros i H. apply T in H. discriminate.
  - intros i p a H [Hf|Hf]; rewrite (T _ _ H) in Hf; discriminate.
Qed.

Ltac thr_split i j Hp H :=
  destruct (Nat.eq_dec i j) as [<-|?];
  [ rewrite (nth_error_update_eq _ _ _ _ Hp) in H; inversion H; subst; clear H
  | rewrite nth_error_update_neq in H by assumption ].

Lemma tinv_thread i ok p s : TInv s -> nth_error (ts_thr s) i = Some p -> TInv (tthread i ok p s).
Proof.
  intros HI Hp. pose proof HI as [Ho Hv Hc Hr]. unfold tthread. rewrite ts_flags.
  assert (Alone : forall j q, tsec p = true -> nth_error (ts_thr s) j = Some q -> tsec q = true -> j = i).
  { intros j q Hs Hq Hsq. pose proof (Ho _ _ Hp Hs). pose proof (Ho _ _ Hq Hsq). congruence. }
  destruct p as [| | |r|r].
  - destruct (ts_lock s) eqn:Hl; [exact HI|].
    constructor; cbn [ts_thr ts_lock ts_val ts_made]; auto.
    + intros j q H Hs. thr_split i j Hp H; [reflexivity|]. discriminate (Ho _ _ H Hs).
    + intros j H. thr_split i j Hp H; eauto.
    + intros j q a H Hf. thr_split i j Hp H; [destruct Hf; discriminate|eauto].
  - unfold ts_needs_init. destruct (ts_val s) as [v|] eqn:Ev.
    + constructor; cbn [ts_thr ts_lock ts_val ts_made]; auto.
      * intros j q H Hs. thr_split i j Hp H; [apply (Ho _ _ Hp); reflexivity|eauto].
      * intros j H. thr_split i j Hp H; eauto.
      * intros j q a H Hf. thr_split i j Hp H; [destruct Hf as [Hf|Hf]; inversion Hf; reflexivity|eauto].
    + constructor; cbn [ts_thr ts_lock ts_val ts_made]; auto.
      * intros j q H Hs. thr_split i j Hp H; [apply (Ho _ _ Hp); reflexivity|eauto].
      * intros j q a H Hf. thr_split i j Hp H; [destruct Hf; discriminate|eauto].
  - pose proof (Hc _ Hp) as Hn. destruct Hv as [[_ Hm]|(v & Ev & _)]; [|congruence].
    destruct ok.
    + unfold ts_assigns_global, ts_returns_global. constructor; cbn [ts_thr ts_lock ts_val ts_made].
      * intros j q H Hs. thr_split i j Hp H; [apply (Ho _ _ Hp); reflexivity|eauto].
      * right. exists (ts_next s). rewrite Hm. auto.
      * intros j H. thr_split i j Hp H. exfalso. apply n. symmetry. eapply Alone; eauto.
      * intros j q a H Hf. thr_split i j Hp H.
        -- destruct Hf as [Hf|Hf]; inversion Hf; reflexivity.
        -- rewrite (Hr _ _ _ H Hf) in Hn. discriminate.
    + unfold ts_assigns_global. constructor; cbn [ts_thr ts_lock ts_val ts_made].
      * intros j q H Hs. thr_split i j Hp H; [apply (Ho _ _ Hp); reflexivity|eauto].
      * left; auto.
      * intros j H. reflexivity.
      * intros j q a H Hf. thr_split i j Hp H; [destruct Hf; discriminate|]. rewrite (Hr _ _ _ H Hf) in Hn. discriminate.
  - assert (Hl : ts_lock s = Some i) by (apply (Ho _ _ Hp); reflexivity). rewrite Hl, Nat.eqb_refl.
    constructor; cbn [ts_thr ts_lock ts_val ts_made]; auto.
    + intros j q H Hs. thr_split i j Hp H; [discriminate|]. exfalso. apply n. symmetry. eapply Alone; eauto.
    + intros j H. thr_split i j Hp H; eauto.
    + intros j q a H Hf. thr_split i j Hp H; [|eauto]. apply (Hr _ _ a Hp). destruct Hf as [Hf|Hf]; inversion Hf; left; reflexivity.
  - exact HI.
Qed.
Lemma tinv_run n sched : TInv (trun n sched).
Proof.
  unfold trun. generalize (tinv_init n). generalize (tinit n).
  induction sched as [|[i ok] l IH]; intros s H; cbn [fold_left]; [exact H|]. apply IH. cbn [tstep].
  destruct (nth_error (ts_thr s) i) as [p|] eqn:Hp; [apply tinv_thread; assumption|exact H].
Qed.

(* however many requests race for it, the timestamper is constructed successfully at most once, every caller that gets
   one gets that one, a failed construction is not remembered, and at most one caller is inside at a time *)
Lemma ts_single_instance : forall n sched, (List.length (ts_made (trun n sched)) <= 1)%nat.
Proof. intros n sched. destruct (ti_val _ (tinv_run n sched)) as [[_ ->]|(v & _ & ->)]; cbn; lia. Qed.
Lemma ts_same_instance : forall n sched i j a b,
  nth_error (ts_thr (trun n sched)) i = Some (TDone (Some a)) -> nth_error (ts_thr (trun n sched)) j = Some (TDone (Some b)) -> a = b.
Proof.
  intros n sched i j a b Hi Hj. pose proof (tinv_run n sched) as HI.
  pose proof (ti_res _ HI _ _ a Hi (or_intror eq_refl)). pose proof (ti_res _ HI _ _ b Hj (or_intror eq_refl)). congruence.
Qed.
Lemma ts_failure_not_cached : forall n sched, ts_made (trun n sched) = [] -> ts_val (trun n sched) = None.
Proof. intros n sched H. destruct (ti_val _ (tinv_run n sched)) as [[E _]|(v & _ & E)]; [exact E|congruence]. Qed.
Lemma ts_mutex : forall n sched i j p q,
  nth_error (ts_thr (trun n sched)) i = Some p -> nth_error (ts_thr (trun n sched)) j = Some q -> tsec p = true -> tsec q = true -> i = j.
Proof.
  intros n sched i j p q Hi Hj Sp Sq. pose proof (tinv_run n sched) as HI.
  pose proof (ti_own _ HI _ _ Hi Sp). pose proof (ti_own _ HI _ _ Hj Sq). congruence.
Qed.

(* ---- the generated lists are the reviewed lists *)
Lemma shared_writes_reviewed : shared_writes = map fst reviewed_writes.
Proof. vm_compute. reflexivity. Qed.
Lemma shared_vars_reviewed : shared_vars = map fst reviewed_vars.
Proof. vm_compute. reflexivity. Qed.
Lemma review_is_consistent : review_consistent = true /\ forallb (fun w => guard_named (snd w)) reviewed_writes = true.
Proof. split; vm_compute; reflexivity. Qed.
Lemma ts_wrapper_per_request : ts_wrapper_copies = true.
Proof. reflexivity. Qed.
Lemma per_request_bundle : initkey_calls = [0; 1] /\ ts_wrapper_copies = true /\ init_calls = [0; 1; 2; 3].
Proof. repeat split; reflexivity. Qed.
(* a request gets the shared timestamper exactly when its key asks for one and the request did not opt out *)
Lemma ts_wanted_spec : forall enabled named no_ts, ts_wanted enabled named no_ts = (enabled || named) && negb no_ts.
Proof. reflexivity. Qed.
Lemma closeonce_shape : closeonce_struct_plain = true /\ closeonce_calls = [0; 4; 1; 2; 3].
Proof. split; reflexivity. Qed.
