(* C14/ModelProc.v — shutdown of the PROCESS: `relic serve` (cmdline/servecmd) blocks on Daemon.Serve, which waits on the
   daemon's errgroup; a signal makes watchSignals run Daemon.Close on another goroutine; the process goes away when the
   main goroutine returns from Serve (or at os.Exit). "Shutting the server down lets in-flight requests finish" is a
   statement about that moment: main must not return while a handler that was accepted is still running.

   Goroutines are threads that run PROGRAMS translated from the source by srcgen (Generated.C14_gen):
     servecmd_prog      serveCmd          go watchSignals(srv) ... srv.Serve()
     daemon_serve_prog  Daemon.Serve      one errgroup member per listener running http.Server.Serve, then eg.Wait
     daemon_close_prog  Daemon.Close      which calls run as a member of the errgroup (d.eg.Go) and which directly, and where Wait is
     sig_action         watchSignals      first signal: go srv.Close(); later signal: os.Exit; SIGUSR1: nothing
   A program is a list of items (kind, calls): kind 0 = the calls are made by the thread itself, 1 = d.eg.Go(closure making
   the calls) (counter + 1, new member thread), 3 = the same once per listener, 2 = go (new thread, not a member).
   Calls: 1 http.Server.Serve (returns once Shutdown has begun), 2 http.Server.Shutdown (closes the listeners, then blocks
   until no handler is active or the grace period is over), 3 server.Close (closes the tokens), 4 errgroup Wait (blocks
   while the counter is positive), 5 watchSignals (installs the handler, never returns), 6 Daemon.Serve (its program is
   run in place), 11 http.Server.Close (listeners and all connections closed at once). A member that has run all its
   calls returns (counter - 1). When thread 0 (main) has nothing left to run the process exits and every handler still
   running is cut off. The schedule interleaves thread steps, handler steps, signal deliveries, the watcher's receive
   and clock ticks in any order. *)
From Relic Require Import Base.Prelude Generated.C14_gen C14.Model.

Definition item := (Z * list Z)%type.
Record thread := mkT { t_member : bool; t_done : bool; t_ops : list Z; t_items : list item }.
Record progs := mkPg { pg_main : list item; pg_serve : list item; pg_close : list item }.

(* request handlers: not yet arrived / refused (listener closed) / running at step k of serveSign / answered /
   cut off by the exit of the process / failed because its token had been closed under it *)
Inductive ppc := PNew | PRefused | PRun (k : nat) | PDone | PCut | PTokGone.
Definition pactive (p : ppc) : bool := match p with PRun _ => true | _ => false end.

Record pstate := mkP {
  p_now : Z;
  p_alive : bool; p_how : Z (* 1 main returned, 2 os.Exit in the signal watcher, 3 killed by a signal nobody handles *); p_code : Z;
  p_insh : bool;             (* http.Server.Shutdown has begun: listeners closed, Serve calls return *)
  p_shut_at : Z;
  p_drained : bool;          (* a Shutdown call has returned *)
  p_tok_closed : bool;
  p_forced : bool;           (* handlers were running when the grace period ran out / at os.Exit / at the kill *)
  p_eg : nat;                (* the errgroup's counter *)
  p_watch : bool;            (* signal.Notify has run *)
  p_already : bool;          (* the watcher's flag *)
  p_pending : list Z;        (* signals sitting in the watcher's channel *)
  p_closing : bool;          (* a graceful shutdown has been started by the watcher *)
  p_thr : list thread; p_req : list ppc }.

(* ---- the programs as generated *)
Definition relevant_main (it : item) : bool := existsb (fun c => (c =? 5) || (c =? 6)) (snd it).
Definition main_prog : list item := filter relevant_main servecmd_prog.
Definition real_progs : progs := mkPg main_prog daemon_serve_prog daemon_close_prog.
(* Shutdown is given the context that expires after the generated timeout and is cancelled only when Close returns *)
Definition shutdown_ctx_ok : bool :=
  daemon_shutdown_gets_ctx && daemon_ctx_from_background && daemon_cancel_deferred && (daemon_cancel_calls =? 1).
Definition grace : Z := if shutdown_ctx_ok then daemon_shutdown_timeout else 0.
(* what main does with the result of Serve: listeners hand back ErrServerClosed (1), the member closure maps it *)
Definition serve_result : Z := if daemon_serve_returns_wait then (if serve_member_closed_is_nil 1 then 0 else 1) else 0.
(* shared.Fail(err) exits with its own code; an error merely returned to cobra makes shared.Main exit with 1 *)
Definition fatal_code : Z := if servecmd_fails_with_err then fail_exit_code else 1.
Definition main_exit_code : Z := if serve_err_fatal serve_result then fatal_code else 0.
(* ... and when Shutdown ran into its deadline: its error (2: neither nil nor ErrServerClosed) comes out of the errgroup's Wait *)
Definition timeout_exit_code : Z := if daemon_serve_returns_wait && serve_err_fatal 2 then fatal_code else 0.

(* ---- setters *)
Definition set_thr (s : pstate) (l : list thread) (eg : nat) : pstate :=
  mkP (p_now s) (p_alive s) (p_how s) (p_code s) (p_insh s) (p_shut_at s) (p_drained s) (p_tok_closed s) (p_forced s) eg
      (p_watch s) (p_already s) (p_pending s) (p_closing s) l (p_req s).
Definition set_req (s : pstate) (r : list ppc) : pstate :=
  mkP (p_now s) (p_alive s) (p_how s) (p_code s) (p_insh s) (p_shut_at s) (p_drained s) (p_tok_closed s) (p_forced s) (p_eg s)
      (p_watch s) (p_already s) (p_pending s) (p_closing s) (p_thr s) r.
Definition set_srv (s : pstate) (insh : bool) (at_ : Z) (drained tokc forced : bool) : pstate :=
  mkP (p_now s) (p_alive s) (p_how s) (p_code s) insh at_ drained tokc forced (p_eg s)
      (p_watch s) (p_already s) (p_pending s) (p_closing s) (p_thr s) (p_req s).
Definition set_sig (s : pstate) (watch already : bool) (pending : list Z) (closing : bool) : pstate :=
  mkP (p_now s) (p_alive s) (p_how s) (p_code s) (p_insh s) (p_shut_at s) (p_drained s) (p_tok_closed s) (p_forced s) (p_eg s)
      watch already pending closing (p_thr s) (p_req s).
Definition cut (p : ppc) : ppc := match p with PRun _ => PCut | _ => p end.
(* the process goes away: whatever is still running is cut off *)
Definition exit_proc (s : pstate) (how code : Z) : pstate :=
  mkP (p_now s) false how code (p_insh s) (p_shut_at s) (p_drained s) (p_tok_closed s)
      (p_forced s || (negb (how =? 1) && existsb pactive (p_req s))) (p_eg s)
      (p_watch s) (p_already s) (p_pending s) (p_closing s) (p_thr s) (map cut (p_req s)).

Definition live (t : thread) : bool := negb (t_done t).
Definition serving (t : thread) : bool := live t && match t_ops t with 1 :: _ => true | _ => false end.
Definition listening (s : pstate) : bool := negb (p_insh s) && existsb serving (p_thr s).

(* ---- one step of thread i *)
Definition tstep (pg : progs) (nlis : nat) (s : pstate) (i : nat) : pstate :=
  match nth_error (p_thr s) i with
  | None => s
  | Some t =>
    if t_done t then s else
    match t_ops t with
    | c :: rest =>
        let pop := set_thr s (update (p_thr s) i (mkT (t_member t) false rest (t_items t))) (p_eg s) in
        if c =? 1 then (if p_insh s then pop else s)
        else if c =? 2 then
          if negb (p_insh s) then set_srv s true (p_now s) (p_drained s) (p_tok_closed s) (p_forced s)
          else if negb (existsb pactive (p_req s)) then set_srv pop true (p_shut_at s) true (p_tok_closed s) (p_forced s)
          else if grace <=? p_now s - p_shut_at s then set_srv pop true (p_shut_at s) true (p_tok_closed s) true
          else s
        else if c =? 3 then set_srv pop (p_insh s) (p_shut_at s) (p_drained s) true (p_forced s)
        else if c =? 4 then (if Nat.eqb (p_eg s) 0 then pop else s)
        else if c =? 5 then set_sig s true (p_already s) (p_pending s) (p_closing s)
        else if c =? 6 then
          set_thr s (update (p_thr s) i (mkT (t_member t) false []
                       (pg_serve pg ++ match rest with [] => t_items t | _ => (0, rest) :: t_items t end))) (p_eg s)
        else if c =? 11 then
          set_req (set_srv pop true (p_now s) (p_drained s) (p_tok_closed s) (p_forced s)) (map cut (p_req s))
        else pop
    | [] =>
        match t_items t with
        | (k, ops) :: its =>
            let me := mkT (t_member t) false [] its in
            if k =? 0 then set_thr s (update (p_thr s) i (mkT (t_member t) false ops its)) (p_eg s)
            else if k =? 1 then set_thr s (update (p_thr s) i me ++ [mkT true false ops []]) (S (p_eg s))
            else if k =? 3 then set_thr s (update (p_thr s) i me ++ repeat (mkT true false ops []) nlis) (nlis + p_eg s)
            else if k =? 2 then set_thr s (update (p_thr s) i me ++ [mkT false false ops []]) (p_eg s)
            else set_thr s (update (p_thr s) i me) (p_eg s)
        | [] =>
            let s1 := set_thr s (update (p_thr s) i (mkT (t_member t) true [] [])) (if t_member t then pred (p_eg s) else p_eg s) in
            if Nat.eqb i 0 then exit_proc s1 1 (if p_forced s then timeout_exit_code else main_exit_code) else s1
        end
    end
  end.

(* ---- one step of handler i (the call table of serveSign: 3 = Init, 4 = Sign use the token, 6 = the response) *)
Definition rnext (listen tokc : bool) (p : ppc) : ppc :=
  match p with
  | PNew => if listen then PRun 0 else PRefused
  | PRun k =>
      match nth_error serve_sign_calls k with
      | None => PDone
      | Some c => if (c =? 3) || (c =? 4) then (if tokc then PTokGone else PRun (S k))
                  else if c =? 6 then PDone else PRun (S k)
      end
  | _ => p
  end.
Definition rstep (s : pstate) (i : nat) : pstate :=
  match nth_error (p_req s) i with
  | Some p => set_req s (update (p_req s) i (rnext (listening s) (p_tok_closed s) p))
  | None => s
  end.

Inductive pev := PThr (i : nat) | PReq (i : nat) | PSig (sig : Z) | PWatch | PTick (d : Z).

Definition pstep (pg : progs) (nlis : nat) (s : pstate) (e : pev) : pstate :=
  if negb (p_alive s) then s else
  match e with
  | PThr i => tstep pg nlis s i
  | PReq i => rstep s i
  | PSig sig =>
      if p_watch s && existsb (Z.eqb sig) sig_notified then
        (if zlen (p_pending s) <? sig_chan_cap then set_sig s (p_watch s) (p_already s) (p_pending s ++ [sig]) (p_closing s) else s)
      else exit_proc s 3 (- sig)                  (* nobody listens for it: the default action ends the process *)
  | PWatch =>
      if p_watch s then
        match p_pending s with
        | [] => s
        | sig :: rest =>
            let '(act, al) := sig_action sig (p_already s) in
            let s1 := set_sig s (p_watch s) al rest (p_closing s) in
            if (act =? 1) || (act =? 3) then
              set_thr (set_sig s (p_watch s) al rest true) (p_thr s ++ [mkT false false [] (pg_close pg)]) (p_eg s)
            else if act =? 2 then exit_proc s1 2 sig_exit_code
            else s1
        end
      else s
  | PTick d =>
      mkP (p_now s + Z.max 0 d) (p_alive s) (p_how s) (p_code s) (p_insh s) (p_shut_at s) (p_drained s) (p_tok_closed s) (p_forced s)
          (p_eg s) (p_watch s) (p_already s) (p_pending s) (p_closing s) (p_thr s) (p_req s)
  end.

Definition pinit (pg : progs) (n : nat) : pstate :=
  mkP 0 true 0 0 false 0 false false false 0 false false [] false [mkT false false [] (pg_main pg)] (repeat PNew n).
Definition prun_gen (pg : progs) (nlis n : nat) (sched : list pev) : pstate := fold_left (pstep pg nlis) sched (pinit pg n).
Definition prun := prun_gen real_progs.

(* ---- SPECIFICATION (from the property text): shutting the server down lets in-flight requests finish.
   No request that was accepted is cut off by the process going away or has its token closed under it; and once the
   process has gone away after a graceful shutdown, nothing is left running and the tokens were closed first. *)
Definition req_ok (p : ppc) : bool := match p with PCut | PTokGone => false | _ => true end.
Definition spec_ok (s : pstate) : bool :=
  forallb req_ok (p_req s) &&
  (p_alive s || (forallb (fun p => negb (pactive p)) (p_req s) && (negb (p_how s =? 1) || p_tok_closed s))).

(* a thread that is not blocked *)
Definition enabled (s : pstate) (i : nat) : bool :=
  match nth_error (p_thr s) i with
  | None => false
  | Some t =>
      live t &&
      match t_ops t with
      | c :: _ =>
          if c =? 1 then p_insh s
          else if c =? 2 then negb (p_insh s) || negb (existsb pactive (p_req s)) || (grace <=? p_now s - p_shut_at s)
          else if c =? 4 then Nat.eqb (p_eg s) 0
          else if c =? 5 then negb (p_watch s)
          else true
      | [] => true
      end
  end.
