(* C14/Proofs.v — proofs for C14/Properties.v: an invariant of the interleaving model, preserved by every step. *)
From Relic Require Import Base.Prelude Generated.C14_gen C14.Model.
From Coq Require Import Permutation.

(* ---- update / nth_error *)
Lemma length_update {A} (l : list A) i x : length (update l i x) = length l.
Proof.
  revert i; induction l as [|y l IH]; intros [|i]; cbn; auto.
Qed.
Lemma nth_error_update_eq {A} (l : list A) i x p :
  nth_error l i = Some p -> nth_error (update l i x) i = Some x.
Proof.
  revert i; induction l as [|y l IH]; intros [|i]; cbn; intros H; try discriminate; auto.
Qed.
Lemma nth_error_update_neq {A} (l : list A) (i j : nat) x :
  i <> j -> nth_error (update l i x) j = nth_error l j.
Proof.
  revert i j; induction l as [|y l IH]; intros [|i] [|j] H; cbn; auto.
  - congruence.
Qed.

(* ---- the invariant *)
Definition mkrec (tok : token) (rq : request) : record := mkRec (q_name rq) (tok (q_name rq)) (q_body rq).
Definition audited (p : pc) : bool := match p with PAudited _ | PDone _ => true | _ => false end.
Fixpoint recs (tok : token) (rqs : list request) (pcs : list pc) : list record :=
  match rqs, pcs with
  | rq :: r, p :: ps => (if audited p then [mkrec tok rq] else []) ++ recs tok r ps
  | _, _ => []
  end.
Definition pcok (tok : token) (rq : request) (p : pc) : Prop :=
  match p with
  | PStart => True
  | PHaveKey k => k = tok (q_name rq)
  | PSigned s | PAudited s | PDone s => s = isolated tok rq
  end.
Definition cache_ok (tok : token) (c : list (Z * Z)) : Prop :=
  forall n k, cache_lookup n c = Some k -> k = tok n.

Record Inv (tok : token) (rqs : list request) (s : sys) : Prop := mkInv {
  inv_len : length (fst s) = length rqs;
  inv_cache : cache_ok tok (sh_cache (snd s));
  inv_pc : forall i rq p, nth_error rqs i = Some rq -> nth_error (fst s) i = Some p -> pcok tok rq p;
  inv_log : Permutation (sh_log (snd s)) (recs tok rqs (fst s))
}.

Lemma recs_update_same tok rqs pcs i p p' :
  nth_error pcs i = Some p -> audited p' = audited p ->
  recs tok rqs (update pcs i p') = recs tok rqs pcs.
Proof.
  revert pcs i; induction rqs as [|rq r IH]; intros [|q ps] [|i]; cbn; intros H Ha; try discriminate; auto.
  - inversion H; subst. rewrite Ha. reflexivity.
  - f_equal. eapply IH; eauto.
Qed.
Lemma recs_update_audit tok rqs pcs i rq p p' :
  nth_error rqs i = Some rq -> nth_error pcs i = Some p -> audited p = false -> audited p' = true ->
  Permutation (mkrec tok rq :: recs tok rqs pcs) (recs tok rqs (update pcs i p')).
Proof.
  revert pcs i; induction rqs as [|rq0 r IH]; intros [|q ps] [|i]; cbn; intros Hr Hp Ha Ha'; try discriminate.
  - inversion Hr; inversion Hp; subst. rewrite Ha, Ha'. cbn. apply Permutation_refl.
  - eapply Permutation_trans; [apply Permutation_middle|].
    apply Permutation_app_head. eapply IH; eauto.
Qed.

Lemma inv_init tok rqs : Inv tok rqs (map (fun _ => PStart) rqs, mkSh [] []).
Proof.
  constructor; cbn.
  - apply map_length.
  - intros n k H; discriminate.
  - intros i rq p _ H. rewrite nth_error_map in H. destruct (nth_error rqs i); cbn in H; [|discriminate].
    inversion H; subst. exact I.
  - induction rqs as [|rq r IH]; cbn; auto.
Qed.

Lemma inv_update tok rqs pcs sh i rq p p' sh' :
  Inv tok rqs (pcs, sh) -> nth_error rqs i = Some rq -> nth_error pcs i = Some p ->
  pcok tok rq p' -> cache_ok tok (sh_cache sh') ->
  Permutation (sh_log sh') (recs tok rqs (update pcs i p')) ->
  Inv tok rqs (update pcs i p', sh').
Proof.
  intros [Hl Hc Hp Hg] Er Ep Hok Hc' Hg'. cbn in *. constructor; cbn; auto.
  - rewrite length_update. exact Hl.
  - intros j rq' q Hr Hq. destruct (Nat.eq_dec i j) as [->|Hn].
    + rewrite (nth_error_update_eq _ _ _ _ Ep) in Hq. inversion Hq; subst.
      rewrite Er in Hr. inversion Hr; subst. exact Hok.
    + rewrite nth_error_update_neq in Hq by exact Hn. eauto.
Qed.

Lemma inv_step tok rqs s i : Inv tok rqs s -> Inv tok rqs (sys_step tok rqs s i).
Proof.
  intros HI. unfold sys_step.
  destruct (nth_error rqs i) as [rq|] eqn:Er; [|exact HI].
  destruct (nth_error (fst s) i) as [p|] eqn:Ep; [|exact HI].
  destruct s as [pcs sh]. cbn [fst snd] in *.
  pose proof (inv_pc _ _ _ HI i rq p Er Ep) as Hok.
  pose proof (inv_cache _ _ _ HI) as Hc. pose proof (inv_log _ _ _ HI) as Hg. cbn [fst snd] in *.
  destruct p as [|k|sg|sg|sg]; cbn [step].
  - destruct (cache_lookup (q_name rq) (sh_cache sh)) as [k|] eqn:El.
    + eapply inv_update; eauto.
      * cbn. eapply Hc; eauto.
      * rewrite (recs_update_same _ _ _ _ _ _ Ep) by reflexivity. exact Hg.
    + eapply inv_update; eauto.
      * cbn. reflexivity.
      * intros n k. cbn. destruct (q_name rq =? n) eqn:En.
        -- intros H; inversion H; subst. apply Z.eqb_eq in En. subst. reflexivity.
        -- apply Hc.
      * cbn. rewrite (recs_update_same _ _ _ _ _ _ Ep) by reflexivity. exact Hg.
  - eapply inv_update; eauto.
    + cbn in *. subst. reflexivity.
    + rewrite (recs_update_same _ _ _ _ _ _ Ep) by reflexivity. exact Hg.
  - eapply inv_update; eauto.
    cbn in *. subst sg. cbn.
    eapply Permutation_trans; [apply Permutation_sym, Permutation_cons_append|].
    eapply Permutation_trans; [apply perm_skip, Hg|].
    apply (recs_update_audit tok rqs pcs i rq _ _ Er Ep); reflexivity.
  - eapply inv_update; eauto.
    rewrite (recs_update_same _ _ _ _ _ _ Ep) by reflexivity. exact Hg.
  - eapply inv_update; eauto.
    rewrite (recs_update_same _ _ _ _ _ _ Ep) by reflexivity. exact Hg.
Qed.

Lemma inv_fold tok rqs sched s : Inv tok rqs s -> Inv tok rqs (fold_left (sys_step tok rqs) sched s).
Proof.
  revert s; induction sched as [|i l IH]; intros s H; cbn; auto using inv_step.
Qed.
Lemma inv_run tok rqs sched : Inv tok rqs (run tok rqs sched).
Proof. unfold run. apply inv_fold, inv_init. Qed.

(* ---- the theorems *)
Lemma isolation : forall tok rqs sched i rq s,
  nth_error rqs i = Some rq ->
  option_map response (nth_error (fst (run tok rqs sched)) i) = Some (Some s) ->
  s = isolated tok rq.
Proof.
  intros tok rqs sched i rq s Hr H.
  destruct (nth_error (fst (run tok rqs sched)) i) as [p|] eqn:Ep; cbn in H; [|discriminate].
  destruct p; cbn in H; try discriminate. inversion H; subst.
  exact (inv_pc _ _ _ (inv_run tok rqs sched) i rq _ Hr Ep).
Qed.

Lemma cache_consistent : forall tok rqs sched n k,
  cache_lookup n (sh_cache (snd (run tok rqs sched))) = Some k -> k = tok n.
Proof. intros tok rqs sched. exact (inv_cache _ _ _ (inv_run tok rqs sched)). Qed.

Lemma recs_all_done tok rqs pcs :
  length pcs = length rqs -> Forall (fun p => exists s, p = PDone s) pcs ->
  recs tok rqs pcs = map (mkrec tok) rqs.
Proof.
  revert pcs; induction rqs as [|rq r IH]; intros [|p ps]; cbn; intros Hl Hf; try discriminate; auto.
  inversion Hf as [|? ? [sg ->] Hf']; subst. cbn. f_equal. apply IH; auto.
Qed.

Lemma no_lost_audit : forall tok rqs sched,
  Forall (fun p => exists s, p = PDone s) (fst (run tok rqs sched)) ->
  Permutation (sh_log (snd (run tok rqs sched)))
              (map (fun rq => mkRec (q_name rq) (tok (q_name rq)) (q_body rq)) rqs).
Proof.
  intros tok rqs sched Hf. pose proof (inv_run tok rqs sched) as HI.
  pose proof (inv_log _ _ _ HI) as Hg.
  rewrite (recs_all_done tok rqs _ (inv_len _ _ _ HI) Hf) in Hg. exact Hg.
Qed.

Lemma progress : forall tok rqs s i rq p,
  nth_error rqs i = Some rq -> nth_error (fst s) i = Some p -> (forall sg, p <> PDone sg) ->
  nth_error (fst (sys_step tok rqs s i)) i <> Some p.
Proof.
  intros tok rqs s i rq p Hr Hp Hn. unfold sys_step. rewrite Hr, Hp.
  destruct (step tok rq p (snd s)) as [p' sh'] eqn:Es. cbn [fst].
  rewrite (nth_error_update_eq _ _ _ _ Hp). intros H; inversion H; subst p'.
  destruct p; cbn in Es.
  - destruct (cache_lookup (q_name rq) (sh_cache (snd s))); discriminate.
  - discriminate.
  - discriminate.
  - discriminate.
  - eapply Hn; reflexivity.
Qed.

Lemma close_calls_closed n r : close_calls n true r = (true, r).
Proof. induction n as [|n IH]; cbn; auto. Qed.
Lemma closeonce_once : forall callers, (1 <= callers)%nat -> close_calls callers false 0 = (true, 1%nat).
Proof.
  intros [|n] H; [lia|]. cbn. apply close_calls_closed.
Qed.

Lemma lock_graph_acyclic : acyclic lock_edges = true.
Proof. reflexivity. Qed.
Lemma shutdown_order : shutdown_then_close = true.
Proof. reflexivity. Qed.
Lemma per_request_objects : flags_fresh_per_request = true /\ cache_unlock_deferred = true.
Proof. split; reflexivity. Qed.
