(* C14/ModelInit.v — the lazily created timestamper (internal/signinit/timestamper.go) as an interleaving machine, and
   the reviewed list of package-level mutable state reachable from request handling. *)
From Relic Require Import Base.Prelude Generated.C14_gen C14.Model.
From Coq Require Import String Ascii.

(* ---- GetTimestamper: mu.Lock(); defer mu.Unlock(); if ts == nil { ts, err = newTimestamper() }; return ts, err *)
Inductive tpc := TNew | TLocked | TCreating | TRet (r : option Z) | TDone (r : option Z).
Record tstate := mkTS { ts_lock : option nat; ts_val : option Z; ts_made : list Z; ts_next : Z; ts_thr : list tpc }.
Inductive tsev := TStep (i : nat) (ok : bool).

Definition ts_lock_spans_call : bool := (ts_pos_lock =? 0) && (ts_pos_defer_unlock =? 1) && (ts_unlock_calls =? 1).
Definition ts_table_ok : bool := match ts_calls with 0 :: 1 :: 2 :: nil => true | _ => false end.

Definition tthread (i : nat) (ok : bool) (p : tpc) (s : tstate) : tstate :=
  let go lk v made nx q := mkTS lk v made nx (update (ts_thr s) i q) in
  match p with
  | TNew =>
      if ts_lock_spans_call && ts_table_ok then
        match ts_lock s with
        | None => go (Some i) (ts_val s) (ts_made s) (ts_next s) TLocked
        | Some _ => s
        end
      else go (ts_lock s) (ts_val s) (ts_made s) (ts_next s) TLocked
  | TLocked =>
      if ts_needs_init (match ts_val s with None => true | Some _ => false end)
      then go (ts_lock s) (ts_val s) (ts_made s) (ts_next s) TCreating
      else go (ts_lock s) (ts_val s) (ts_made s) (ts_next s) (TRet (ts_val s))
  | TCreating =>
      if ok then
        let v := if ts_assigns_global then Some (ts_next s) else ts_val s in
        go (ts_lock s) v (ts_next s :: ts_made s) (ts_next s + 1) (TRet (if ts_returns_global then v else Some (ts_next s)))
      else go (ts_lock s) (if ts_assigns_global then None else ts_val s) (ts_made s) (ts_next s) (TRet None)
  | TRet r =>
      go (match ts_lock s with Some j => if Nat.eqb j i then None else Some j | None => None end) (ts_val s) (ts_made s) (ts_next s) (TDone r)
  | TDone _ => s
  end.
Definition tstep (s : tstate) (e : tsev) : tstate :=
  match e with TStep i ok => match nth_error (ts_thr s) i with Some p => tthread i ok p s | None => s end end.
Definition tinit (n : nat) : tstate := mkTS None None [] 1 (repeat TNew n).
Definition trun (n : nat) (sched : list tsev) : tstate := fold_left tstep sched (tinit n).
Definition tsec (p : tpc) : bool := match p with TLocked | TCreating | TRet _ => true | _ => false end.

(* per-request wrapper: the caller's pkcs9.Request is copied before the name is set *)
Definition ts_wrapper_copies : bool := ts_request_copied && ts_passes_copy.

(* ---- package-level mutable state. Every variable and every write (outside init functions) that srcgen finds in the
   anchored packages and in every signers/* package, with the reason it is safe under concurrent requests.
   A variable or a write that is not in these lists changes a generated definition and breaks the equalities below. *)
Inductive guard :=
| GStartup          (* written before the server accepts requests (flag parsing, configuration, registration) *)
| GMutex (m : string)   (* every access holds this mutex *)
| GCliOnly.         (* command-line compatibility code, not linked into request handling *)

Definition reviewed_writes : list (string * guard) := [
  ("cmdline/shared:ArgConfig<-initConfig", GStartup);
  ("cmdline/shared:ArgDigest<-AddDigestFlag", GStartup);
  ("cmdline/shared:ArgDigest<-GetDigest", GCliOnly);
  ("cmdline/shared:CurrentConfig<-initConfig", GStartup);
  ("cmdline/shared:lateHooks<-AddLateHook", GStartup);
  ("internal/signinit:ts<-GetTimestamper", GMutex "internal/signinit:mu");
  ("server:healthLastPing<-Server.healthCheck", GMutex "server:healthMu");
  ("server:healthLastPing<-Server.startHealthCheck", GStartup);
  ("server:healthStatus<-Server.healthCheck", GMutex "server:healthMu");
  ("server:healthStatus<-Server.startHealthCheck", GStartup);
  ("signers/pgp:argDigest<-AddCompatFlags", GCliOnly);
  ("signers/pgp:argOutput<-AddCompatFlags", GCliOnly);
  ("signers/pgp:argOutput<-CallCmd", GCliOnly);
  ("signers/pgp:argPgpArmor<-AddCompatFlags", GCliOnly);
  ("signers/pgp:argPgpClearsign<-AddCompatFlags", GCliOnly);
  ("signers/pgp:argPgpDetached<-AddCompatFlags", GCliOnly);
  ("signers/pgp:argPgpTextMode<-AddCompatFlags", GCliOnly);
  ("signers/pgp:argPgpUser<-AddCompatFlags", GCliOnly);
  ("signers:flagMap<-MergeFlags", GMutex "signers:flagDefsMu");
  ("signers:registered<-Register", GStartup)
]%string.

(* every package-level variable of those packages: written after init (see reviewed_writes), internally synchronised
   (mutexes, prometheus collectors), or never assigned outside init (signer descriptors, error values, context keys, tables) *)
Inductive vclass := VWritten | VSync | VReadOnly.
Definition reviewed_vars : list (string * vclass) := [
  ("cmdline/shared:ArgConfig", VWritten);
  ("cmdline/shared:ArgDebug", VReadOnly);
  ("cmdline/shared:ArgDigest", VWritten);
  ("cmdline/shared:CurrentConfig", VWritten);
  ("cmdline/shared:RootCmd", VReadOnly);
  ("cmdline/shared:argVersion", VReadOnly);
  ("cmdline/shared:lateHooks", VWritten);
  ("internal/authmodel:ctxKeyUserInfo", VReadOnly);
  ("internal/authmodel:should401", VReadOnly);
  ("internal/httperror:ErrCertificateNotRecognized", VReadOnly);
  ("internal/httperror:ErrCertificateRequired", VReadOnly);
  ("internal/httperror:ErrForbidden", VReadOnly);
  ("internal/httperror:ErrTokenRequired", VReadOnly);
  ("internal/httperror:ErrUnknownDigest", VReadOnly);
  ("internal/httperror:ErrUnknownSignatureType", VReadOnly);
  ("internal/realip:ctxKeyTrusted", VReadOnly);
  ("internal/signinit:mu", VSync);
  ("internal/signinit:ts", VWritten);
  ("internal/zhttp:ctxAccessCallbacks", VReadOnly);
  ("internal/zhttp:ctxDontLog", VReadOnly);
  ("lib/compresshttp:ErrUnacceptableEncoding", VReadOnly);
  ("lib/compresshttp:prefs", VReadOnly);
  ("server:healthLastPing", VWritten);
  ("server:healthMu", VSync);
  ("server:healthStatus", VWritten);
  ("server:metricTokenCheckErrors", VSync);
  ("signers/apk:ApkSigner", VReadOnly);
  ("signers/apk:bytesType", VReadOnly);
  ("signers/apk:errMalformed", VReadOnly);
  ("signers/apk:errTrailingData", VReadOnly);
  ("signers/apk:errTruncated", VReadOnly);
  ("signers/apk:rawType", VReadOnly);
  ("signers/apk:sigTypes", VReadOnly);
  ("signers/apk:uint32Type", VReadOnly);
  ("signers/appmanifest:AppSigner", VReadOnly);
  ("signers/appx:AppxSigner", VReadOnly);
  ("signers/cab:CabSigner", VReadOnly);
  ("signers/cat:CatSigner", VReadOnly);
  ("signers/cosign:algorithms", VReadOnly);
  ("signers/cosign:allowedManifestTypes", VReadOnly);
  ("signers/cosign:signer", VReadOnly);
  ("signers/deb:DebSigner", VReadOnly);
  ("signers/dmg:fileArgs", VReadOnly);
  ("signers/dmg:signer", VReadOnly);
  ("signers/jar:JarSigner", VReadOnly);
  ("signers/macho:fatVerifier", VReadOnly);
  ("signers/macho:fileArgs", VReadOnly);
  ("signers/macho:ipaVerifier", VReadOnly);
  ("signers/macho:signer", VReadOnly);
  ("signers/msi:MsiSigner", VReadOnly);
  ("signers/pecoff:PeSigner", VReadOnly);
  ("signers/pgp:PgpSigner", VReadOnly);
  ("signers/pgp:argDigest", VWritten);
  ("signers/pgp:argOutput", VWritten);
  ("signers/pgp:argPgpArmor", VWritten);
  ("signers/pgp:argPgpClearsign", VWritten);
  ("signers/pgp:argPgpDetached", VWritten);
  ("signers/pgp:argPgpTextMode", VWritten);
  ("signers/pgp:argPgpUser", VWritten);
  ("signers/pkcs:PkcsSigner", VReadOnly);
  ("signers/ps:PsSigner", VReadOnly);
  ("signers/rpm:RpmSigner", VReadOnly);
  ("signers/sigerrors:ErrExist", VReadOnly);
  ("signers/vsix:Signer", VReadOnly);
  ("signers/vsix:contentTypes", VReadOnly);
  ("signers/xap:XapSigner", VReadOnly);
  ("signers/xar:signer", VReadOnly);
  ("signers:common", VReadOnly);
  ("signers:flagDefsMu", VSync);
  ("signers:flagMap", VWritten);
  ("signers:registered", VWritten);
  ("token/tokencache:MetricOperations", VSync);
  ("token/tokencache:MetricResponses", VSync);
  ("token/tokencache:buckets", VReadOnly);
  ("token/tokencache:metricRateLimited", VSync);
  ("token:Listers", VReadOnly);
  ("token:Openers", VReadOnly);
  ("token:ctxKeyID", VReadOnly)
]%string.

Definition written_var (w : string) : string :=            (* "pkg:var<-func" -> "pkg:var" *)
  (fix go (s : string) : string :=
     match s with
     | String "<"%char (String "-"%char _) => EmptyString
     | String c r => String c (go r)
     | EmptyString => EmptyString
     end) w.
Definition vclass_eqb (a b : vclass) : bool := match a, b with VWritten, VWritten | VSync, VSync | VReadOnly, VReadOnly => true | _, _ => false end.
(* the two lists agree: a variable is classed VWritten exactly when some reviewed write names it *)
Definition review_consistent : bool :=
  forallb (fun vc => Bool.eqb (vclass_eqb (snd vc) VWritten)
                              (existsb (fun w => String.eqb (written_var (fst w)) (fst vc)) reviewed_writes)) reviewed_vars.
Definition guard_named (g : guard) : bool :=
  match g with GMutex m => existsb (fun vc => String.eqb (fst vc) m && vclass_eqb (snd vc) VSync) reviewed_vars | _ => true end.
