(* C14/ModelRate.v — token/tokencache/ratelimit.go and the limiter it drives (golang.org/x/time/rate at the version
   relic pins), as a state machine over a clock.

   Units: time is an integer (nanoseconds in the harness), one operation costs [lm_unit] token-units and the bucket
   gains [lm_rate] token-units per time unit; with time in ns and a rate of r operations per second, unit = 10^9 and
   rate = r (a fractional rate p/q is unit = q*10^9, rate = p). The library computes in float64; the model computes the
   same formulas exactly, with the truncation of float -> time.Duration as Z.quot. Comparisons, the deduction, the
   state update and the burst floor of relic's NewLimiter are generated definitions. *)
From Relic Require Import Base.Prelude Generated.C14_gen.

Record limiter := mkLm { lm_rate : Z; lm_unit : Z; lm_burst : Z; lm_tokens : Z; lm_last : Z }.

(* rate.NewLimiter(r, b): full bucket, zero time *)
Definition new_limiter (rate unit burst : Z) : limiter :=
  mkLm rate unit burst (if rate_starts_full then burst * unit else 0) 0.
(* tokencache.NewLimiter(base, limit, burst): burst below 1 becomes 1 *)
Definition relic_burst (burst : Z) : Z := if rl_burst_too_small burst then rl_burst_floor else burst.
Definition relic_new_limiter (rate unit burst : Z) : limiter := new_limiter rate unit (relic_burst burst).

(* Limiter.advance: tokens available at time t (state unchanged) *)
Definition advance (L : limiter) (t : Z) : Z :=
  let last := if rate_clamp t (lm_last L) then t else lm_last L in
  let elapsed := t - last in
  let delta := if rate_nonpositive (lm_rate L) then 0 else elapsed * lm_rate L in       (* tokensFromDuration *)
  let tokens := lm_tokens L + delta in
  if rate_over_burst tokens (lm_burst L * lm_unit L) then lm_burst L * lm_unit L else tokens.
(* Limit.durationFromTokens *)
Definition dur_from_tokens (L : limiter) (tk : Z) : Z :=
  if rate_nonpositive (lm_rate L) then rate_inf_duration else Z.quot tk (lm_rate L).

Record reservation := mkRes { r_ok : bool; r_act : Z }.
(* Limiter.reserveN(t, 1, maxwait) — atomic under lim.mu *)
Definition reserve (L : limiter) (t maxwait : Z) : limiter * reservation :=
  let tk := advance L t in
  let tk2 := if rate_deducts_n then tk - lm_unit L else tk in
  let wait := if rate_needs_wait tk2 then dur_from_tokens L (- tk2) else 0 in
  if rate_ok (if rate_wait_is_one then 1 else 0) (lm_burst L) wait maxwait then
    (mkLm (lm_rate L) (lm_unit L) (lm_burst L) (if rate_sets_tokens then tk2 else lm_tokens L) (if rate_sets_last then t else lm_last L),
     mkRes true (rate_time_to_act t wait))
  else (L, mkRes false 0).

(* an admitted operation: the time it asked, the time it may act, the tokens left behind *)
Record ev := mkEv { ev_t : Z; ev_act : Z; ev_tok : Z }.
(* a history of calls (time read by the caller, longest wait it accepts); rejected calls leave no trace *)
Fixpoint run (L : limiter) (calls : list (Z * Z)) : list ev :=
  match calls with
  | [] => []
  | (t, mw) :: r =>
      let '(L', res) := reserve L t mw in
      if r_ok res then mkEv t (r_act res) (lm_tokens L') :: run L' r else run L' r
  end.
Fixpoint state_after (L : limiter) (calls : list (Z * Z)) : limiter :=
  match calls with [] => L | (t, mw) :: r => state_after (fst (reserve L t mw)) r end.

(* clock going backwards between consecutive admitted calls (a caller read the clock, was overtaken, then reserved) *)
Fixpoint down_path (ts : list Z) : Z :=
  match ts with a :: ((b :: _) as r) => Z.max 0 (a - b) + down_path r | _ => 0 end.
Fixpoint up_path (ts : list Z) : Z :=
  match ts with a :: ((b :: _) as r) => Z.max 0 (b - a) + up_path r | _ => 0 end.

Definition wf (L : limiter) : Prop := 1 <= lm_rate L /\ 1 <= lm_unit L /\ 1 <= lm_burst L /\ lm_tokens L <= lm_burst L * lm_unit L.

(* ---- relic's wrapper: every token operation is preceded by one Wait on THE shared limiter, its error checked *)
Definition guarded (calls : list Z) (checked_pos : Z) : bool :=
  match calls with 0 :: 1 :: nil => (checked_pos =? 1) | _ => false end.
Inductive opkind := OpGetKey | OpSign | OpSignCtx.
Definition op_guarded (k : opkind) : bool :=
  match k with
  | OpGetKey => guarded rl_getkey_calls rl_getkey_wait_checked
  | OpSign => guarded rl_sign_calls rl_sign_wait_checked && rl_key_shares_limiter && rl_key_wraps_fetched
  | OpSignCtx => guarded rl_signctx_calls rl_signctx_wait_checked && rl_key_shares_limiter && rl_key_wraps_fetched
  end.
(* underlying token operations performed for a sequence of wrapper calls (kind, time, longest wait) *)
Fixpoint relic_ops (L : limiter) (calls : list (opkind * Z * Z)) : list ev :=
  match calls with
  | [] => []
  | (k, t, mw) :: r =>
      if op_guarded k then
        let '(L', res) := reserve L t mw in
        if r_ok res then mkEv t (r_act res) (lm_tokens L') :: relic_ops L' r else relic_ops L' r
      else mkEv t t (lm_tokens L) :: relic_ops L r           (* unguarded: the operation goes straight through *)
  end.

(* ---- SPECIFICATION (from the property text): in any window the number of admitted operations is at most
   rate * window + burst. [acts] in order of admission; [slack] in token-units. Executable, used on the act times the
   REAL limiter returns. *)
Fixpoint window_from (rate unit burst slack a0 n : Z) (rest : list Z) : bool :=
  match rest with
  | [] => true
  | a :: r => (unit * (n + 1) <=? unit * burst + rate * (a - a0) + slack) && window_from rate unit burst slack a0 (n + 1) r
  end.
Fixpoint window_ok (rate unit burst slack : Z) (acts : list Z) : bool :=
  match acts with
  | [] => true
  | a0 :: r => window_from rate unit burst slack a0 1 r && window_ok rate unit burst slack r
  end.

(* ---- the interleaving machine: Wait = read the clock; reserve under lim.mu; sleep until the time to act *)
Inductive rpc := RStart | RHaveT (t : Z) | RSleep (act : Z) | RRejected | RDone (at_time : Z).
Record rstate := mkRS { rs_now : Z; rs_lim : limiter; rs_thr : list rpc; rs_calls : list (Z * Z) (* newest first *) }.
Inductive rev_ := RStep (i : nat) | RTick (d : Z).
Fixpoint rupdate (l : list rpc) (i : nat) (x : rpc) : list rpc :=
  match l, i with [], _ => [] | _ :: r, O => x :: r | y :: r, S j => y :: rupdate r j x end.
Definition rstep (mw : Z) (s : rstate) (e : rev_) : rstate :=
  match e with
  | RTick d => mkRS (rs_now s + Z.max 0 d) (rs_lim s) (rs_thr s) (rs_calls s)
  | RStep i =>
      match nth_error (rs_thr s) i with
      | Some RStart => mkRS (rs_now s) (rs_lim s) (rupdate (rs_thr s) i (RHaveT (rs_now s))) (rs_calls s)
      | Some (RHaveT t) =>
          let '(L', res) := reserve (rs_lim s) t mw in
          mkRS (rs_now s) L' (rupdate (rs_thr s) i (if r_ok res then RSleep (r_act res) else RRejected)) ((t, mw) :: rs_calls s)
      | Some (RSleep a) =>
          if a <=? rs_now s then mkRS (rs_now s) (rs_lim s) (rupdate (rs_thr s) i (RDone (rs_now s))) (rs_calls s) else s
      | _ => s
      end
  end.
Definition rinit (L : limiter) (n : nat) : rstate := mkRS 0 L (repeat RStart n) [].
Definition rrun (mw : Z) (L : limiter) (n : nat) (sched : list rev_) : rstate := fold_left (rstep mw) sched (rinit L n).
