(* FmtMSI/ProofsWit.v — part 6: no-panic facts, the is-signed probe, and the witnesses that refute the unrestricted statements. *)
From Relic Require Import Base.Prelude Base.Enc Generated.FmtMSI_gen FmtMSI.Model FmtMSI.Proofs FmtMSI.ProofsSer FmtMSI.ProofsTree FmtMSI.ProofsLaws FmtMSI.ProofsTar.
From Coq Require Import Permutation Sorted.

(* ================================================================== C11 *)
Lemma cat_items_r_no_panic skip (l : list (dirent * result bytes)) p : (forall it q, In it l -> snd it <> Panic q) -> cat_items_r skip l <> Panic p.
Proof.
  induction l as [|[e c] l IH]; intros H; [discriminate|]. cbn [cat_items_r].
  assert (IH' := IH (fun it q Hin => H it q (or_intror Hin))). destruct (skip e); [exact IH'|].
  destruct c as [b| |q]; cbn [bind]; try discriminate.
  - destruct (cat_items_r skip l); cbn [bind]; try discriminate. exact IH'.
  - exfalso. apply (H (e, Panic q) q (or_introl eq_refl)). reflexivity.
Qed.
Lemma all_shape_inv e c kids : all_shape (Node e c kids) = true -> shape_ok e /\ forall k, In k kids -> all_shape k = true.
Proof.
  cbn [all_shape]. intros H. apply andb_true_iff in H as [H1 H2]. unfold shape_okb in H1. apply andb_true_iff in H1 as [A B].
  split; [split; lia|]. rewrite forallb_forall in H2. exact H2.
Qed.
Theorem pre_node_no_panic : forall t p, all_shape t = true -> pre_node t <> Panic p.
Proof.
  intros t. induction t as [e c kids IH] using node_ind'. intros p A. destruct (all_shape_inv _ _ _ A) as [S Ak]. rewrite pre_node_nf.
  pose proof (pre_dirent_no_panic e) as He. destruct (pre_dirent e) as [own| |q] eqn:Eo; cbn [bind]; try discriminate; [|exfalso; now apply (He q S)].
  assert (Hc : forall q, cat_items_r (pre_skip (de_type e)) (isort rlt (items_p kids)) <> Panic q).
  { intros q. apply cat_items_r_no_panic. intros it q' Hin. apply in_isort in Hin. apply in_map_iff in Hin as [k [<- Hk]]. cbn [snd]. unfold contrib_p.
    destruct (msi_pre_is_stream _).
    - apply pre_dirent_no_panic. destruct k as [e' c' k']. apply (all_shape_inv _ _ _ (Ak _ Hk)).
    - destruct (msi_pre_is_storage _); [|discriminate]. rewrite Forall_forall in IH. apply (IH k Hk). apply Ak. exact Hk. }
  destruct (cat_items_r _ _) as [b| |q] eqn:Ec; cbn [bind]; try discriminate. exfalso. now apply (Hc q).
Qed.
Theorem decode_total l p : decode_tree l <> Panic p.
Proof. unfold decode_tree. destruct (dec_forest _ _) as [[[|t [|? ?]] [|? ?]]|]; discriminate. Qed.

(* ================================================================== the is-signed probe *)
Lemma s_name_is_units e alts cs : fields_ok e = true -> name_ok e = true ->
  Forall2 (fun alt c => forall u, existsb (Z.eqb u) alt = s_upper_eq u c) alts cs ->
  s_name_eq (ztake (s_nlen (ser_dirent e) - 2) (s_namefield (ser_dirent e))) cs = units_match (wname e) alts.
Proof.
  intros F N Hf. destruct (fields_ok_vals e F) as [V Hu]. destruct (name_ok_split e N) as [k [pad [Hk [Hnl [Hlw _]]]]].
  rewrite (s_nlen_ser e V), (s_namefield_ser e V).
  assert (Ew : ztake (de_nlen e - 2) (units_le (de_runes e)) = units_le (wname e)).
  { rewrite Hnl. replace (2 * (Z.of_nat k + 1) - 2) with (2 * Z.of_nat k) by lia. rewrite ztake_units_le.
    unfold wname. rewrite Hnl. replace (2 * (Z.of_nat k + 1) / 2 - 1) with (Z.of_nat k) by (rewrite Z.mul_comm, Z.div_mul; lia). now rewrite ztake_firstn. }
  rewrite Ew. apply s_name_eq_units; [now apply wname_uok | exact Hf].
Qed.
(* no STREAM of the root carries a signature name (storages of that name do not count) => not signed, for relic and for the specification *)
Theorem unsigned_probe t : wf_tree t = true -> (forall k, In k (node_kids t) -> de_type (node_ent k) = 2 -> is_slot (node_ent k) = false) ->
  extract_t t = Ok None /\ s_signed (to_spec t) = false.
Proof.
  intros W Hn. destruct t as [e c kids]. destruct (wf_tree_inv _ W) as [_ [_ [_ Wk]]]. cbn [node_kids] in *.
  assert (Hskip : forall k, In k kids -> de_type (node_ent k) <> 2 \/ (v_is_sig (go_name (node_ent k)) = false /\ v_is_sigex (go_name (node_ent k)) = false)).
  { intros k Hin. destruct (Z.eq_dec (de_type (node_ent k)) 2) as [E|E]; [right | now left].
    apply (kept_not_sig kids k Wk). apply filter_In. split; [exact Hin|]. unfold notslot. now rewrite (Hn k Hin E). }
  split.
  - unfold extract_t, root_sig, root_exsig. cbn [node_kids]. rewrite <- (app_nil_r kids).
    rewrite !find_stream_skip by (intros k Hin; destruct (Hskip k Hin) as [H|[H1 H2]]; auto). reflexivity.
  - unfold s_signed. cbn [to_spec s_kids]. apply not_true_iff_false. intros E. apply existsb_exists in E as [sk [Hin E]].
    apply in_map_iff in Hin as [k [<- Hin]]. rewrite forallb_forall in Wk. destruct (wf_kid_inv k (Wk k Hin)) as [Fk [Nk _]].
    apply andb_true_iff in E as [E _]. apply andb_true_iff in E as [Et E]. destruct k as [e' c' k']. cbn [to_spec s_entry node_ent] in *.
    destruct (fields_ok_vals e' Fk) as [Vk _]. rewrite (s_type_ser e' Vk) in Et. unfold S_STREAM in Et.
    rewrite (s_name_is_units e' msi_sig_fold s_sig_ascii Fk Nk (proj1 fold_is_spec_fold)) in E.
    assert (T2 : de_type e' = 2) by lia. specialize (Hn _ Hin T2). cbn [node_ent] in Hn. unfold is_slot in Hn. apply orb_false_iff in Hn as [H1 _]. rewrite (cfb_match_units _ _ Nk) in H1. congruence.
Qed.
Theorem signed_probe Hf ext t blob : wf_tree t = true -> zlen blob <> 0 ->
  extract_t (signed_tree Hf ext t blob) = Ok (Some blob) /\ s_signed (to_spec (signed_tree Hf ext t blob)) = true.
Proof.
  intros W Nb. split; [apply (signed_extract Hf ext t blob W Nb)|]. destruct t as [e c kids]. unfold signed_tree, s_signed. cbn [to_spec s_kids].
  rewrite map_app, existsb_app. apply orb_true_iff. right. unfold news. rewrite map_app, existsb_app. apply orb_true_iff. right.
  cbn [map existsb]. rewrite orb_false_r. unfold new_stream. cbn [to_spec s_entry s_data].
  replace (zlen blob =? 0) with false by lia. rewrite andb_true_r.
  set (en := mkDe _ _ _ _ _ _ _ _ _ _ _ _ _ _).
  assert (F : fields_ok en = true -> name_ok en = true -> (s_type (ser_dirent en) =? S_STREAM) && s_name_eq (ztake (s_nlen (ser_dirent en) - 2) (s_namefield (ser_dirent en))) s_sig_ascii = true).
  { intros Fe Ne. destruct (fields_ok_vals en Fe) as [V _]. rewrite (s_type_ser en V). rewrite (s_name_is_units en msi_sig_fold s_sig_ascii Fe Ne (proj1 fold_is_spec_fold)). reflexivity. }
  (* the new entry is well formed whenever the blob is below 4 GiB; the name test does not look at the size field, so split on it *)
  destruct (in_range 4 (zlen blob)) eqn:R.
  - apply F; unfold en, fields_ok; cbn [de_runes de_nlen de_type de_color de_left de_right de_sroot de_uid de_flags de_ctime de_mtime de_next de_size de_pad]; [rewrite R; reflexivity | reflexivity].
  - (* above 4 GiB the size field does not fit; the specification reader still sees the same name and type bytes *)
    set (en0 := mkDe (de_runes en) (de_nlen en) (de_type en) (de_color en) (de_left en) (de_right en) (de_sroot en) (de_uid en) 0 0 0 0 0 0).
    assert (E1 : zslice 66 67 (ser_dirent en) = zslice 66 67 (ser_dirent en0)) by (rewrite !ser_type by (split; reflexivity); reflexivity).
    assert (E2 : zslice 64 66 (ser_dirent en) = zslice 64 66 (ser_dirent en0)) by (rewrite !ser_nlen by (split; reflexivity); reflexivity).
    assert (E3 : ztake 64 (ser_dirent en) = ztake 64 (ser_dirent en0)) by (rewrite !ser_namefield by (split; reflexivity); reflexivity).
    unfold s_type, s_nlen, s_namefield. rewrite E1, E2, E3. reflexivity.
Qed.

(* ================================================================== witnesses *)
Definition asc (l : list Z) : list Z := l.
Definition w_root (kids : list node) : node := Node (ex_ent [82] 4 5 (zeros 16) 0 0 0 0) [] kids.
Definition w_stream (name : list Z) (content : bytes) : node :=
  Node (ex_ent name (2 * (zlen name + 1)) 2 (zeros 16) 0 0 0 (zlen content)) content [].
Definition w_storage (name : list Z) (uid : bytes) (kids : list node) : node :=
  Node (ex_ent name (2 * (zlen name + 1)) 1 uid 0 0 0 0) [] kids.
(* __exmeta, MSI-encoded: four code units that msiDecodeName turns into "__exmeta" *)
Definition w_exmeta_tree : node := w_root [w_stream [65] [1; 2; 3]; w_stream [18431; 18152; 16944; 16695] [9; 9]].
(* 5 followed by the eight code units that decode to "DigitalSignature" *)
Definition w_decoded_sig_tree : node := w_root [w_stream [65] [1; 2; 3]; w_stream [5; 17165; 17194; 16695; 16175; 17068; 16689; 17975; 16949] [9; 9]].
Theorem tar_exmeta_refuted : exists ms, wf_tree w_exmeta_tree = true /\ tar_safe w_exmeta_tree = false /\ msi_to_tar w_exmeta_tree = Ok ms /\
  forall Hf, digest_pre Hf false w_exmeta_tree <> Ok (digest_tar_pre Hf false ms).
Proof. eexists. split; [reflexivity|]. split; [reflexivity|]. split; [vm_compute; reflexivity|]. intros Hf. vm_compute. discriminate. Qed.
Theorem tar_decoded_sig_refuted : exists ms, wf_tree w_decoded_sig_tree = true /\ tar_safe w_decoded_sig_tree = false /\ msi_to_tar w_decoded_sig_tree = Ok ms /\
  forall Hf, digest_pre Hf false w_decoded_sig_tree <> Ok (digest_tar_pre Hf false ms).
Proof. eexists. split; [reflexivity|]. split; [reflexivity|]. split; [vm_compute; reflexivity|]. intros Hf. vm_compute. discriminate. Qed.

(* format-inherent: the content part carries no lengths and no names *)
Definition w_b1 : node := w_root [w_stream [97] [120; 121]; w_stream [98] [122]].
Definition w_b2 : node := w_root [w_stream [97] [120]; w_stream [98] [121; 122]].
Theorem protect_boundary_refuted :
  wf_tree w_b1 = true /\ wf_tree w_b2 = true /\ hash_node w_b1 = hash_node w_b2 /\ body_pieces w_b1 <> body_pieces w_b2 /\
  extract_t w_b1 = extract_t w_b2 /\ (forall Hf, digest_pre Hf false w_b1 = digest_pre Hf false w_b2) /\ pre_node w_b1 <> pre_node w_b2.
Proof. repeat split; try reflexivity; vm_compute; discriminate. Qed.
Definition w_n1 : node := w_root [w_stream [97] [120]].
Definition w_n2 : node := w_root [w_stream [98] [120]].
Theorem protect_names_refuted :
  wf_tree w_n1 = true /\ wf_tree w_n2 = true /\ (forall Hf, digest_pre Hf false w_n1 = digest_pre Hf false w_n2) /\
  kid_names (node_kids w_n1) <> kid_names (node_kids w_n2) /\ pre_node w_n1 <> pre_node w_n2.
Proof. repeat split; try reflexivity; vm_compute; discriminate. Qed.
(* format-inherent: the metadata part carries no name lengths and no types: a 16-byte stream "abcdefg" and an empty storage "a"
   whose CLSID is that stream's content have the same imprint in BOTH digest modes *)
Definition w_amb_u : bytes := [98; 0; 99; 0; 100; 0; 101; 0; 102; 0; 103; 0; 16; 0; 0; 0].
Definition w_a1 : node := w_root [Node (ex_ent [97; 98; 99; 100; 101; 102; 103] 16 2 (zeros 16) 7 5 6 16) w_amb_u []].
Definition w_a2 : node := w_root [Node (ex_ent [97] 4 1 w_amb_u 7 5 6 0) [] []].
Theorem protect_ex_ambiguity_refuted :
  wf_tree w_a1 = true /\ wf_tree w_a2 = true /\ pre_node w_a1 = pre_node w_a2 /\ hash_node w_a1 = hash_node w_a2 /\
  (forall Hf ext, digest_pre Hf ext w_a1 = digest_pre Hf ext w_a2) /\ s_payload true (to_spec w_a1) <> s_payload true (to_spec w_a2).
Proof.
  assert (P : pre_node w_a1 = pre_node w_a2) by (vm_compute; reflexivity).
  assert (H : hash_node w_a1 = hash_node w_a2) by (vm_compute; reflexivity).
  split; [reflexivity|]. split; [reflexivity|]. split; [exact P|]. split; [exact H|]. split.
  - intros Hf ext. unfold digest_pre, digest_segs. rewrite P, H. reflexivity.
  - vm_compute. discriminate.
Qed.
(* regression (relic 8d92d9a, 66af42b): a STORAGE of the root named \005DigitalSignature: the file is unsigned for relic and for the
   specification; signing is refused by the check in front, in both modes, with nothing written *)
Definition w_sigstorage : node := w_root [w_stream [65] [1; 2; 3]; w_storage msi_sig_name (repeat 7 16) [w_stream [120] [4]]].
Theorem signature_named_storage :
  msi_dom w_sigstorage = true /\ extract_t w_sigstorage = Ok None /\ s_signed (to_spec w_sigstorage) = false /\
  (forall Hf ext blob, embed_t Hf ext w_sigstorage blob = Err E_STORAGE /\ embed_writes Hf ext w_sigstorage blob = 0).
Proof.
  split; [reflexivity|]. split; [reflexivity|]. split; [reflexivity|]. intros Hf ext blob.
  assert (R : refused_early (node_kids w_sigstorage) = true) by reflexivity.
  assert (P : exists ex, pre_node w_sigstorage = Ok ex) by (eexists; vm_compute; reflexivity). destruct P as [ex Hex].
  unfold embed_t, embed_writes, insert_sig, insert_writes. rewrite R, Hex. destruct ext; split; reflexivity.
Qed.
(* the hypotheses of the positive theorems are satisfiable: a small tree with a nested storage, signed in both modes *)
Definition w_ok : node := w_root [w_stream [18496; 16000] [1; 2; 3]; w_storage [83] (repeat 7 16) [w_stream [120] [4]]; w_stream [97; 98] []].
Lemma w_ok_facts : msi_dom w_ok = true /\ tar_safe w_ok = true /\ sig_slots_free w_ok = true /\
  embed_t (fun x => [1; 2]) true w_ok [48; 49] = Ok (signed_tree (fun x => [1; 2]) true w_ok [48; 49]) /\
  exists ms, msi_to_tar w_ok = Ok ms.
Proof. repeat split; try reflexivity. eexists. vm_compute. reflexivity. Qed.

(* ================================================================== statements assembled for Properties.v *)
Theorem sort_is_spec_sort {B} (C : node -> B) kids : kids_ok kids ->
  map tos (sort_items msi_hash_sorts (map (fun k => (node_ent k, C k)) kids)) = s_sort (map tos (map (fun k => (node_ent k, C k)) kids)).
Proof.
  intros O. unfold sort_items. change msi_hash_sorts with true. cbv iota. unfold s_sort.
  change (fun a b : dirent * B => relic_lt (fst a) (fst b)) with (@rlt B). change (fun a b : bytes * B => s_less (fst a) (fst b)) with (@slt B).
  apply map_tos_isort; [apply kids_items_ok; exact O|].
  intros it Hin. apply in_map_iff in Hin as [k [<- Hk]]. cbn [fst]. destruct O as [_ Hw]. rewrite forallb_forall in Hw. apply (wf_kid_inv k (Hw k Hk)).
Qed.
Theorem digest_order_spec t : wf_tree t = true -> hash_node t = s_hash true (to_spec t).
Proof. intros W. destruct (wf_tree_inv t W) as [F [T O]]. destruct (digest_is_spec t F O) as [H _]. rewrite T in H. exact H. Qed.
Theorem ex_prehash_spec t : wf_tree t = true -> exists x, pre_node t = Ok x /\ s_pre true (to_spec t) = Some x.
Proof.
  intros W. destruct (wf_tree_inv t W) as [F [T O]]. destruct (pre_node_ok t F (or_introl T) O) as [x Hx]. exists x. split; [exact Hx|].
  destruct (digest_is_spec t F O) as [_ H]. rewrite T, Hx in H. cbn in H. now symmetry.
Qed.
Theorem hashin_eq_spec Hf ext t : wf_tree t = true -> exists x, s_pre true (to_spec t) = Some x /\
  digest_pre Hf ext t = Ok (if ext then Hf x ++ s_hash true (to_spec t) else s_hash true (to_spec t)).
Proof.
  intros W. destruct (ex_prehash_spec t W) as [x [Hx Hs]]. exists x. split; [exact Hs|]. unfold digest_pre, digest_segs. rewrite Hx, (digest_order_spec t W).
  unfold msi_digest_with_prehash. change msi_digest_prehash_first with true. destruct ext; cbn [bind]; unfold flatten_segs; cbn [map concat fst snd]; rewrite ?app_nil_r; reflexivity.
Qed.
Theorem tree_shape_independent t t' : wf_tree t = true -> shape_eq t t' ->
  hash_node t = hash_node t' /\ pre_node t = pre_node t' /\ forall Hf ext, digest_pre Hf ext t = digest_pre Hf ext t'.
Proof.
  intros W S. destruct (wf_tree_inv t W) as [F [T O]]. assert (So : shape_ok (node_ent t)) by (apply fields_ok_vals in F; apply F).
  destruct (shape_independent t t' So O S) as [H1 H2]. split; [exact H1|]. split; [exact H2|]. intros Hf ext. unfold digest_pre, digest_segs. now rewrite H1, H2.
Qed.
Theorem only_signature_streams_differ Hf ext f b g : msi_embed Hf ext f b = Ok g -> exists e c kids x,
  decode_tree f = Ok (Node e c kids) /\ decode_tree g = Ok (Node e c (filter notslot kids ++ news b x)).
Proof.
  intros H. destruct (msi_embed_inv Hf ext f b g H) as [t [D [W [A [Nb [Sb [Ex [Hs ->]]]]]]]].
  destruct (signed_dom Hf ext t b W A Sb Ex Hs) as [Dg _]. destruct t as [e c kids]. exists e, c, kids, (exsig_of Hf ext (Node e c kids)). split; [exact D | exact Dg].
Qed.
