(* FmtMSI/Model.v — the MSI Authenticode digest layer of relic (lib/authenticode msiverify.go msitar.go msisign.go msinames.go).
   A compound file is taken as what lib/comdoc hands to that layer: a tree of directory entries (the 128-byte RawDirEnt, field
   by field), the bytes ReadStream delivers for a stream, and the children ListDir returns for a storage IN THE ORDER ListDir
   returns them (a function of the red-black tree shape; any permutation can occur).  The sector / directory writer is unit C18.
   RELIC side: built from the generated definitions of Generated/FmtMSI_gen.v (comparison closure of sortMsiFiles, exclusion test
   and type dispatch of hashMsiDir / prehashMsiDir / msiToTarDir, guard and slice list of prehashMsiDirent, tests of DigestMsiTar,
   msiDecodeName, VerifyMSI, InsertMSISignature).  sort.Slice is modelled by insertion sort (justified for strict total orders by
   Proofs.sort_unique; outside that class Go's pdqsort may produce another order).
   SPEC side (s_ prefix): written from the format description — [MS-CFB] 2.6 directory entry layout, and the MSI digest as
   documented by the reference implementation notes: children ordered by memcmp of the raw UTF-16LE names over the shorter name
   length (terminator included), the longer name first on a tie; stream contents, storages recursively, then the storage CLSID;
   \005DigitalSignature and \005MsiDigitalSignatureEx skipped in the root storage only; MsiDigitalSignatureEx = digest of, per
   entry: name without terminator (not for the root), CLSID (root, storage) or low 32 bits of the size (stream), state bits,
   creation and modification time (not for the root).  It reads the 128-byte entries, never relic's structures. *)
From Relic Require Import Base.Prelude Base.Enc Generated.FmtMSI_gen.
From Coq Require Import Permutation.

Definition E_NAMELEN := 1.     (* "invalid name length in MSI directory entry" *)
Definition E_NOTSTREAM := 2.   (* ReadStream on something that is not a stream *)
Definition E_STORAGE := 3.     (* "can't delete or replace storages" *)
Definition E_EXMISMATCH := 4.  (* "MSI extended digest mismatch" *)
Definition E_DOMAIN := 5.      (* outside the domain of the guarded embed *)
Definition E_DECODE := 6.      (* the byte string is not the encoding of a tree *)
Definition E_TAR := 7.         (* archive/tar refuses the member *)
Definition P_INDEX := 90.      (* index out of range *)
Definition P_SLICE := 91.      (* slice bounds out of range *)

(* ================================================================== the abstract compound file *)
Record dirent := mkDe {
  de_runes : list Z;   (* NameRunes [32]uint16 *)
  de_nlen : Z;         (* NameLength: bytes, terminator included *)
  de_type : Z; de_color : Z; de_left : Z; de_right : Z; de_sroot : Z;   (* links: unsigned 32-bit images *)
  de_uid : bytes;      (* UID [16]byte: the CLSID *)
  de_flags : Z; de_ctime : Z; de_mtime : Z; de_next : Z; de_size : Z; de_pad : Z }.
Inductive node := Node (e : dirent) (content : bytes) (kids : list node).
Definition node_ent (t : node) : dirent := match t with Node e _ _ => e end.
Definition node_content (t : node) : bytes := match t with Node _ c _ => c end.
Definition node_kids (t : node) : list node := match t with Node _ _ k => k end.

Definition wrap16 (x : Z) : Z := x mod 65536.
Definition w2n (w : Z) : nat := Z.to_nat w.
Definition units_le (l : list Z) : bytes := concat (map (le_enc 2) l).

(* binary.Write(buf, binary.LittleEndian, item.RawDirEnt): the fields in declaration order with the generated widths *)
Definition ser_dirent (e : dirent) : bytes :=
  units_le (de_runes e) ++ le_enc (w2n msi_de_w_NameLength) (de_nlen e) ++ le_enc (w2n msi_de_w_Type) (de_type e) ++
  le_enc (w2n msi_de_w_Color) (de_color e) ++ le_enc (w2n msi_de_w_LeftChild) (de_left e) ++ le_enc (w2n msi_de_w_RightChild) (de_right e) ++
  le_enc (w2n msi_de_w_StorageRoot) (de_sroot e) ++ de_uid e ++ le_enc (w2n msi_de_w_UserFlags) (de_flags e) ++
  le_enc (w2n msi_de_w_CreateTime) (de_ctime e) ++ le_enc (w2n msi_de_w_ModifyTime) (de_mtime e) ++
  le_enc (w2n msi_de_w_NextSector) (de_next e) ++ le_enc (w2n msi_de_w_StreamSize) (de_size e) ++ le_enc (w2n msi_de_w__) (de_pad e).

(* ================================================================== names *)
(* unicode/utf16.Decode *)
Definition is_surr1 (u : Z) : bool := (55296 <=? u) && (u <? 56320).
Definition is_surr2 (u : Z) : bool := (56320 <=? u) && (u <? 57344).
Fixpoint utf16_decode (l : list Z) : list Z :=
  match l with
  | [] => []
  | u :: r =>
      if is_surr1 u then
        match r with
        | v :: r' => if is_surr2 v then ((u - 55296) * 1024 + (v - 56320) + 65536) :: utf16_decode r' else 65533 :: utf16_decode r
        | [] => [65533]
        end
      else if is_surr2 u then 65533 :: utf16_decode r
      else u :: utf16_decode r
  end.
(* RawDirEnt.Name: the code units that make up the name, and the name as code points *)
Definition name_units (e : dirent) : list Z :=
  let used := wrap16 (msi_name_used (de_nlen e)) in
  if msi_name_empty (de_type e) used then [] else ztake used (de_runes e).
Definition go_name (e : dirent) : list Z := utf16_decode (name_units e).

(* msiDecodeName *)
Definition dn_rune (x : Z) : list Z :=
  if msi_dn_pair x then map msi_decode_rune (msi_dn_pair_out x)
  else if msi_dn_single x then map msi_decode_rune (msi_dn_single_out x)
  else if msi_dn_table x then msi_dn_table_out
  else [x].
Definition msi_decode_name (n : list Z) : list Z := concat (map dn_rune n).

(* comdoc.SameName(name, <one of the two signature names>): utf16.Encode([]rune(name)) has as many code units as the signature
   name and, unit by unit, the same comdoc.upperUnit image.  msi_sig_fold / msi_sigex_fold list per code unit of the signature
   name the code units with that image (generated from unicode.ToUpper) *)
Definition utf16_encode (l : list Z) : list Z :=
  concat (map (fun r => if ((0 <=? r) && (r <? 55296)) || ((57344 <=? r) && (r <? 65536)) then [r]
                        else if (65536 <=? r) && (r <=? 1114111) then [55296 + (r - 65536) / 1024; 56320 + (r - 65536) mod 1024]
                        else [65533]) l).
Fixpoint units_match (us : list Z) (alts : list (list Z)) : bool :=
  match us, alts with
  | [], [] => true
  | u :: us', a :: alts' => existsb (Z.eqb u) a && units_match us' alts'
  | _, _ => false
  end.
Definition same_name (alts : list (list Z)) (name : list Z) : bool := units_match (utf16_encode name) alts.
Definition go_is_sig (name : list Z) : bool := msi_is_sig_name (same_name msi_sig_fold name) (same_name msi_sigex_fold name).

(* ================================================================== sortMsiFiles *)
(* the loop of the comparison closure; ra rb = a.NameRunes[k:], b.NameRunes[k:]; an index past the array is a panic.
   msi_sort_body x y cont is the loop body with `cont` standing for the outcome of the remaining iterations: when it does not
   depend on cont the body returned, so a panic in a later iteration is not reached *)
Fixpoint less_loop (ra rb : list Z) (k n lenrunes : Z) (tie : bool) : result bool :=
  if msi_sort_loop_cond k n lenrunes then
    match ra, rb with
    | x :: ra', y :: rb' =>
        match less_loop ra' rb' (k + 1) n lenrunes tie with
        | Ok r => Ok (msi_sort_body x y r)
        | other => if Bool.eqb (msi_sort_body x y true) (msi_sort_body x y false) then Ok (msi_sort_body x y true) else other
        end
    | _, _ => Panic P_INDEX
    end
  else Ok tie.
Definition relic_less (a b : dirent) : result bool :=
  less_loop (de_runes a) (de_runes b) 0 (msi_sort_n (de_nlen a) (de_nlen b)) (zlen (de_runes a)) (msi_sort_tiebreak (de_nlen a) (de_nlen b)).
Definition relic_lt (a b : dirent) : bool := match relic_less a b with Ok r => r | _ => false end.

(* sort.Slice on at most 12 elements IS this insertion sort (sort.insertionSortLessFunc: every element is moved left past the
   elements it is less than); the accumulator is the sorted prefix in reverse *)
Section Sort.
  Context {A : Type} (lt : A -> A -> bool).
  Fixpoint ins (x : A) (rs : list A) : list A :=
    match rs with [] => [x] | y :: r => if lt x y then y :: ins x r else x :: y :: r end.
  Definition isort (l : list A) : list A := rev (fold_left (fun rs x => ins x rs) l []).
End Sort.

(* what the loops of hashMsiDir / prehashMsiDir / msiToTarDir see of a child: its entry and what processing it yields *)
Definition sort_items {B} (sorts : bool) (l : list (dirent * B)) : list (dirent * B) :=
  if sorts then isort (fun a b => relic_lt (fst a) (fst b)) l else l.

(* ================================================================== hashMsiDir *)
Fixpoint cat_items (skip : dirent -> bool) (items : list (dirent * bytes)) : bytes :=
  match items with
  | [] => []
  | (e, c) :: r => if skip e then cat_items skip r else c ++ cat_items skip r
  end.
Definition sig_stream (pty : Z) (e : dirent) : bool := msi_is_sig_stream pty (de_type e) (go_is_sig (go_name e)).
Definition hash_skip (pty : Z) (e : dirent) : bool := msi_hash_skip (sig_stream pty e) (go_is_sig (go_name e)) (go_name e) pty (de_type e).
Definition place_uid (last : bool) (body uid : bytes) : bytes := if last then body ++ uid else uid ++ body.
Fixpoint hash_node (t : node) : bytes :=
  match t with
  | Node e _ kids =>
      let items := map (fun k => (node_ent k,
                                  if msi_hash_is_stream (de_type (node_ent k)) then node_content k
                                  else if msi_hash_is_storage (de_type (node_ent k)) then hash_node k else [])) kids in
      place_uid msi_hash_uid_last (cat_items (hash_skip (de_type e)) (sort_items msi_hash_sorts items)) (de_uid e)
  end.

(* ================================================================== prehashMsiDirent / prehashMsiDir *)
Definition go_slice (enc : bytes) (lo hi cap : Z) : result bytes :=
  if (0 <=? lo) && (lo <=? hi) && (hi <=? cap) then Ok (zslice lo hi enc) else Panic P_SLICE.
Fixpoint write_plan (enc : bytes) (plan : list (bool * (Z * Z))) : result bytes :=
  match plan with
  | [] => Ok []
  | (c, (lo, hi)) :: r =>
      if c then s <- go_slice enc (wrap16 lo) (wrap16 hi) msi_pre_enc_cap ;; t <- write_plan enc r ;; Ok (s ++ t)
      else write_plan enc r
  end.
Definition pre_dirent (e : dirent) : result bytes :=
  if msi_pre_badlen (de_type e) (de_nlen e) then Err E_NAMELEN
  else write_plan (ser_dirent e) (msi_pre_plan (de_type e) (de_nlen e)).
Fixpoint cat_items_r (skip : dirent -> bool) (items : list (dirent * result bytes)) : result bytes :=
  match items with
  | [] => Ok []
  | (e, c) :: r => if skip e then cat_items_r skip r else x <- c ;; y <- cat_items_r skip r ;; Ok (x ++ y)
  end.
Definition pre_skip (pty : Z) (e : dirent) : bool := msi_pre_skip (sig_stream pty e) (go_is_sig (go_name e)) (go_name e) pty (de_type e).
Fixpoint pre_node (t : node) : result bytes :=
  match t with
  | Node e _ kids =>
      let items := map (fun k => (node_ent k,
                                  if msi_pre_is_stream (de_type (node_ent k)) then pre_dirent (node_ent k)
                                  else if msi_pre_is_storage (de_type (node_ent k)) then pre_node k else Ok [])) kids in
      if msi_pre_parent_first
      then own <- pre_dirent e ;; body <- cat_items_r (pre_skip (de_type e)) (sort_items msi_pre_sorts items) ;; Ok (own ++ body)
      else body <- cat_items_r (pre_skip (de_type e)) (sort_items msi_pre_sorts items) ;; own <- pre_dirent e ;; Ok (body ++ own)
  end.

(* ================================================================== DigestMSI: the imprint as segments.
   (true, x): the digest of x is written;  (false, x): x is written.  imprint = H (flatten) *)
Definition flatten_segs (Hf : bytes -> bytes) (segs : list (bool * bytes)) : bytes :=
  concat (map (fun s : bool * bytes => if fst s then Hf (snd s) else snd s) segs).
Definition digest_segs (extended : bool) (t : node) : result (list (bool * bytes)) :=
  if msi_digest_with_prehash extended
  then ex <- pre_node t ;; Ok (if msi_digest_prehash_first then [(true, ex); (false, hash_node t)] else [(false, hash_node t); (true, ex)])
  else Ok [(false, hash_node t)].
Definition digest_pre (Hf : bytes -> bytes) (extended : bool) (t : node) : result bytes :=
  s <- digest_segs extended t ;; Ok (flatten_segs Hf s).

(* ================================================================== MsiToTar / DigestMsiTar (a tar archive as its member list) *)
Fixpoint tar_dir (t : node) (path : list Z) : list (list Z * bytes) :=
  match t with
  | Node e _ kids =>
      let items := map (fun k => (node_ent k,
                                  let ip := msi_tard_item_path path (msi_decode_name (go_name (node_ent k))) in
                                  if msi_tard_is_stream (de_type (node_ent k)) then [(ip, node_content k)]
                                  else if msi_tard_is_storage (de_type (node_ent k)) then tar_dir k (msi_tard_sub_path ip) else [])) kids in
      let body := concat (map snd (sort_items msi_tard_sorts items)) in
      if msi_tard_uid_last then body ++ [(msi_tard_uid_path path, de_uid e)] else (msi_tard_uid_path path, de_uid e) :: body
  end.
(* archive/tar (Go): a member whose name ends in '/' becomes a directory entry and takes no content ("write too long");
   a NUL in a name cannot be written *)
Definition tar_member_bad (m : list Z * bytes) : bool :=
  ((last (fst m) 0 =? 47) && (0 <? zlen (snd m))) || existsb (Z.eqb 0) (fst m).
Definition msi_to_tar (t : node) : result (list (list Z * bytes)) :=
  ex <- pre_node t ;;
  let ms := if msi_tar_exmeta_first then (msi_tar_exmeta_name, ex) :: tar_dir t [] else tar_dir t [] ++ [(msi_tar_exmeta_name, ex)] in
  if existsb tar_member_bad ms then Err E_TAR else Ok ms.
Definition tar_segs (extended : bool) (members : list (list Z * bytes)) : list (bool * bytes) :=
  concat (map (fun m : list Z * bytes =>
                 if msi_tar_is_exmeta (fst m) then (if msi_tar_exmeta_dropped extended then [] else [(true, snd m)])
                 else if msi_tar_is_sig (go_is_sig (fst m)) (fst m) then [] else [(false, snd m)]) members).
Definition digest_tar_pre (Hf : bytes -> bytes) (extended : bool) (members : list (list Z * bytes)) : bytes :=
  flatten_segs Hf (tar_segs extended members).

(* ================================================================== VerifyMSI: locating the signature streams *)
(* the loop over ListDir(nil): a later entry of the same name overwrites an earlier one; ReadStream fails on a non-stream *)
Fixpoint find_stream (is : list Z -> bool) (kids : list node) (acc : option bytes) : result (option bytes) :=
  match kids with
  | [] => Ok acc
  | k :: r =>
      if msi_verify_nonstream_first && msi_verify_skip_nonstream (de_type (node_ent k)) then find_stream is r acc
      else if is (go_name (node_ent k)) then
        (if de_type (node_ent k) =? msi_DirStream then find_stream is r (Some (node_content k)) else Err E_NOTSTREAM)
      else find_stream is r acc
  end.
Definition v_is_sig (n : list Z) : bool := msi_verify_is_sig (same_name msi_sig_fold n) (same_name msi_sigex_fold n) n.
Definition v_is_sigex (n : list Z) : bool :=
  negb (v_is_sig n) && msi_verify_is_sigex (same_name msi_sig_fold n) (same_name msi_sigex_fold n) n.     (* the else-if arm *)
Definition root_sig (t : node) : result (option bytes) := find_stream v_is_sig (node_kids t) None.
Definition root_exsig (t : node) : result (option bytes) := find_stream v_is_sigex (node_kids t) None.
(* what the verifier finds: None = NotSignedError *)
Definition extract_t (t : node) : result (option bytes) :=
  s <- root_sig t ;; _ <- root_exsig t ;;
  match s with
  | Some b => if msi_verify_unsigned (zlen b) then Ok None else Ok (Some b)
  | None => if msi_verify_unsigned 0 then Ok None else Ok (Some [])
  end.
(* the imprint the verifier recomputes: extended exactly when a MsiDigitalSignatureEx stream exists, and then the stream must
   equal the recomputed prehash *)
Definition verify_pre (Hf : bytes -> bytes) (t : node) : result bytes :=
  x <- root_exsig t ;;
  match x with
  | Some ex => p <- pre_node t ;; if bytes_eqb (Hf p) ex then digest_pre Hf true t else Err E_EXMISMATCH
  | None => digest_pre Hf false t
  end.

(* ================================================================== InsertMSISignature on the tree (comdoc.AddFile / DeleteFile
   restricted to what the digest layer can see: which root entries disappear and which appear; link fields, colours and the
   order ListDir will return afterwards are the business of C18 and irrelevant by msi_digest_tree_shape_independent) *)
(* DeleteFile matches by the MS-CFB comparison: same NameLength and, code unit by code unit, the same upper-case image.
   fold_alts lists for each code unit of the probed name the code units with the same image (generated from unicode.ToUpper) *)
Definition cfb_match (alts : list (list Z)) (e : dirent) : bool :=
  (de_nlen e =? 2 * (zlen alts + 1)) && units_match (ztake (zlen alts) (de_runes e)) alts.
Fixpoint delete_root (m : dirent -> bool) (kids : list node) : result (list node) :=
  match kids with
  | [] => Ok []
  | k :: r => if m (node_ent k)
              then (if de_type (node_ent k) =? msi_DirStream then delete_root m r else Err E_STORAGE)
              else (r' <- delete_root m r ;; Ok (k :: r'))
  end.
Definition zeros (n : Z) : bytes := repeat 0 (Z.to_nat n).
Definition new_stream (name : list Z) (content : bytes) : node :=
  Node (mkDe (name ++ zeros (32 - zlen name)) (2 * (zlen name + 1)) msi_DirStream 0 4294967295 4294967295 4294967295
             (zeros 16) 0 0 0 0 (zlen content) 0) content [].
Definition add_file (alts : list (list Z)) (name : list Z) (content : bytes) (kids : list node) : result (list node) :=
  r <- delete_root (cfb_match alts) kids ;; Ok (r ++ [new_stream name content]).
Definition name_of (which : Z) : list Z := if which =? 0 then msi_sig_name else msi_sigex_name.
Definition alts_of (which : Z) : list (list Z) := if which =? 0 then msi_sig_fold else msi_sigex_fold.
Definition do_call (call : Z * Z * Z) (pkcs exsig : bytes) (kids : list node) : result (list node) :=
  let '(op, which, pay) := call in
  if op =? 0 then add_file (alts_of which) (name_of which) (if pay =? 0 then pkcs else exsig) kids
  else delete_root (cfb_match (alts_of which)) kids.
(* msi_insert_calls = [then-arm; else-arm; final call] of `if len(exsig) > 0` *)
Definition insert_body (t : node) (pkcs exsig : bytes) : result node :=
  match t, msi_insert_calls with
  | Node e c kids, [c_then; c_else; c_last] =>
      k1 <- do_call (if msi_insert_has_ex (zlen exsig) then c_then else c_else) pkcs exsig kids ;;
      k2 <- do_call c_last pkcs exsig k1 ;; Ok (Node e c k2)
  | _, _ => Err E_DOMAIN
  end.
(* the check in front: a root entry that is not a stream but carries a signature name => refused before anything is touched *)
Definition refused_early (kids : list node) : bool :=
  msi_insert_check_first && existsb (fun k => msi_insert_refuses (de_type (node_ent k)) (go_is_sig (go_name (node_ent k)))) kids.
Definition insert_sig (t : node) (pkcs exsig : bytes) : result node :=
  if refused_early (node_kids t) then Err E_STORAGE else insert_body t pkcs exsig.
(* how many streams InsertMSISignature has written into the file when it returns: comdoc writes sectors only in AddFile (after its
   DeleteFile succeeded) and in Close; a refusal with 0 leaves the file byte-identical *)
Definition is_add (call : Z * Z * Z) : bool := let '(op, _, _) := call in op =? 0.
Definition insert_writes (t : node) (pkcs exsig : bytes) : Z :=
  if refused_early (node_kids t) then 0 else
  match msi_insert_calls with
  | [c_then; c_else; c_last] =>
      let c1 := if msi_insert_has_ex (zlen exsig) then c_then else c_else in
      let r1 := do_call c1 pkcs exsig (node_kids t) in
      let w1 := if is_add c1 && is_ok r1 then 1 else 0 in
      match r1 with
      | Ok k1 => w1 + (if is_add c_last && is_ok (do_call c_last pkcs exsig k1) then 1 else 0)
      | _ => w1
      end
  | _ => 0
  end.
(* signers/msi: transform computes exsig = PrehashMSI (unless --no-extended-sig), Apply inserts blob and exsig *)
Definition embed_t (Hf : bytes -> bytes) (extended : bool) (t : node) (blob : bytes) : result node :=
  if extended then ex <- pre_node t ;; insert_sig t blob (Hf ex) else insert_sig t blob [].
Definition embed_writes (Hf : bytes -> bytes) (extended : bool) (t : node) (blob : bytes) : Z :=
  if extended then match pre_node t with Ok ex => insert_writes t blob (Hf ex) | _ => 0 end else insert_writes t blob [].

(* ================================================================== SPEC: [MS-CFB] directory entries and the documented digest *)
Inductive snode := SNode (entry : bytes) (data : bytes) (kids : list snode).
Definition s_entry (t : snode) := match t with SNode e _ _ => e end.
Definition s_data (t : snode) := match t with SNode _ d _ => d end.
Definition s_kids (t : snode) := match t with SNode _ _ k => k end.
(* [MS-CFB] 2.6.1: name 0x00 (64 bytes), name length 0x40 (2), object type 0x42 (1), CLSID 0x50 (16), state bits 0x60 (4),
   creation time 0x64 (8), modified time 0x6C (8), starting sector 0x74 (4), stream size 0x78 (8) *)
Definition s_namefield (en : bytes) : bytes := ztake 64 en.
Definition s_nlen (en : bytes) : Z := le_dec (zslice 64 66 en).
Definition s_type (en : bytes) : Z := le_dec (zslice 66 67 en).
Definition s_clsid (en : bytes) : bytes := zslice 80 96 en.
Definition s_state (en : bytes) : bytes := zslice 96 100 en.
Definition s_times (en : bytes) : bytes := zslice 100 116 en.
Definition s_size32 (en : bytes) : bytes := zslice 120 124 en.
Definition S_STORAGE := 1.  Definition S_STREAM := 2.  Definition S_ROOT := 5.
(* "\005DigitalSignature", "\005MsiDigitalSignatureEx" *)
Definition s_sig_ascii : list Z := [5; 68; 105; 103; 105; 116; 97; 108; 83; 105; 103; 110; 97; 116; 117; 114; 101].
Definition s_sigex_ascii : list Z := [5; 77; 115; 105; 68; 105; 103; 105; 116; 97; 108; 83; 105; 103; 110; 97; 116; 117; 114; 101; 69; 120].
Definition s_name (en : bytes) : bytes := ztake (s_nlen en) (s_namefield en).        (* terminator included *)
(* [MS-CFB] 2.6.4: names are compared code unit by code unit after simple upper-casing.  For a code unit c of the two (ASCII)
   signature names: the code units with the same upper-case image are c in either letter case, U+0131 for I and U+017F for S *)
Definition s_upper_eq (u c : Z) : bool :=
  (u =? c) || ((97 <=? c) && (c <=? 122) && (u =? c - 32)) || ((65 <=? c) && (c <=? 90) && (u =? c + 32)) ||
  (((c =? 73) || (c =? 105)) && (u =? 305)) || (((c =? 83) || (c =? 115)) && (u =? 383)).
Fixpoint s_name_eq (b : bytes) (cs : list Z) : bool :=
  match b, cs with
  | [], [] => true
  | lo :: hi :: r, c :: cs' => s_upper_eq (lo + 256 * hi) c && s_name_eq r cs'
  | _, _ => false
  end.
(* the two signature streams: streams of the root storage whose name is one of the two documented names *)
Definition s_is_sig (en : bytes) : bool :=
  (s_type en =? S_STREAM) &&
  (let nm := ztake (s_nlen en - 2) (s_namefield en) in s_name_eq nm s_sig_ascii || s_name_eq nm s_sigex_ascii).
(* memcmp over the common length *)
Fixpoint lex_cmp (a b : bytes) : comparison :=
  match a, b with
  | x :: a', y :: b' => if x <? y then Lt else if y <? x then Gt else lex_cmp a' b'
  | _, _ => Eq
  end.
Definition s_less (x y : bytes) : bool :=
  let n := Z.min (s_nlen x) (s_nlen y) in
  match lex_cmp (ztake n (s_namefield x)) (ztake n (s_namefield y)) with
  | Lt => true | Gt => false | Eq => s_nlen y <? s_nlen x
  end.
Definition s_sort {B} (l : list (bytes * B)) : list (bytes * B) := isort (fun a b => s_less (fst a) (fst b)) l.
Fixpoint s_cat {B} (skip : bytes -> bool) (unit : B -> bytes) (items : list (bytes * B)) : bytes :=
  match items with
  | [] => []
  | (e, c) :: r => if skip e then s_cat skip unit r else unit c ++ s_cat skip unit r
  end.
Fixpoint s_hash (is_root : bool) (t : snode) : bytes :=
  match t with
  | SNode en _ kids =>
      let items := map (fun k => (s_entry k,
                                  if s_type (s_entry k) =? S_STREAM then s_data k
                                  else if s_type (s_entry k) =? S_STORAGE then s_hash false k else [])) kids in
      s_cat (fun e => is_root && s_is_sig e) (fun c => c) (s_sort items) ++ s_clsid en
  end.
(* the metadata of one entry covered by MsiDigitalSignatureEx; None: the entry has no valid name length *)
Definition s_pre_entry (en : bytes) : option bytes :=
  let ty := s_type en in
  if negb (ty =? S_ROOT) && ((s_nlen en <? 2) || (64 <? s_nlen en)) then None else
  Some ((if ty =? S_ROOT then [] else ztake (s_nlen en - 2) (s_namefield en)) ++
        (if (ty =? S_ROOT) || (ty =? S_STORAGE) then s_clsid en else []) ++
        (if ty =? S_STREAM then s_size32 en else []) ++
        s_state en ++
        (if ty =? S_ROOT then [] else s_times en)).
Definition opt_app (a b : option bytes) : option bytes :=
  match a, b with Some x, Some y => Some (x ++ y) | _, _ => None end.
Fixpoint s_cat_o (skip : bytes -> bool) (items : list (bytes * option bytes)) : option bytes :=
  match items with
  | [] => Some []
  | (e, c) :: r => if skip e then s_cat_o skip r else opt_app c (s_cat_o skip r)
  end.
Fixpoint s_pre (is_root : bool) (t : snode) : option bytes :=
  match t with
  | SNode en _ kids =>
      let items := map (fun k => (s_entry k,
                                  if s_type (s_entry k) =? S_STREAM then s_pre_entry (s_entry k)
                                  else if s_type (s_entry k) =? S_STORAGE then s_pre false k else Some [])) kids in
      opt_app (s_pre_entry en) (s_cat_o (fun e => is_root && s_is_sig e) (s_sort items))
  end.
(* the specification's view of relic's tree: the entries as they are on disk *)
Fixpoint to_spec (t : node) : snode :=
  match t with Node e c kids => SNode (ser_dirent e) c (map to_spec kids) end.
(* payload: everything that is not one of the two signature streams of the root storage; children in the canonical order *)
Inductive pnode := PNode (entry_meta : bytes) (data : bytes) (kids : list pnode).
Definition s_meta (en : bytes) : bytes := s_name en ++ [s_type en] ++ s_clsid en ++ s_state en ++ s_times en ++ s_size32 en.
Fixpoint s_payload (is_root : bool) (t : snode) : pnode :=
  match t with
  | SNode en d kids =>
      let items := map (fun k => (s_entry k, s_payload false k)) kids in
      PNode (s_meta en) (if s_type en =? S_STREAM then d else [])
            (map snd (filter (fun it : bytes * pnode => negb (is_root && s_is_sig (fst it))) (s_sort items)))
  end.

(* ================================================================== well-formed trees (the domain of the positive theorems) *)
Definition unit_ok (u : Z) : bool := (0 <=? u) && (u <? 65536).
(* a name of k code units, 1 <= k <= 31: NameLength = 2(k+1), no NUL among the first k, NUL at k; the rest is arbitrary *)
Definition name_ok (e : dirent) : bool :=
  let k := de_nlen e / 2 - 1 in
  (zlen (de_runes e) =? 32) && forallb unit_ok (de_runes e) &&
  (de_nlen e mod 2 =? 0) && (1 <=? k) && (k <=? 31) &&
  forallb (fun u => negb (u =? 0)) (ztake k (de_runes e)) && (nth (Z.to_nat k) (de_runes e) 1 =? 0).
Definition in_range (w x : Z) : bool := (0 <=? x) && (x <? 256 ^ w).
Definition fields_ok (e : dirent) : bool :=
  (zlen (de_runes e) =? 32) && forallb unit_ok (de_runes e) && in_range 2 (de_nlen e) && in_range 1 (de_type e) && in_range 1 (de_color e) &&
  in_range 4 (de_left e) && in_range 4 (de_right e) && in_range 4 (de_sroot e) && (zlen (de_uid e) =? 16) && all_bytes (de_uid e) &&
  in_range 4 (de_flags e) && in_range 8 (de_ctime e) && in_range 8 (de_mtime e) && in_range 4 (de_next e) && in_range 4 (de_size e) && in_range 4 (de_pad e).
Definition units_eqb : list Z -> list Z -> bool := list_eqb Z.eqb.
Fixpoint distinct_names (l : list (list Z)) : bool :=
  match l with [] => true | n :: r => negb (existsb (units_eqb n) r) && distinct_names r end.
Definition kid_names (kids : list node) : list (list Z) := map (fun k => name_units (node_ent k)) kids.
Fixpoint wf_kid (t : node) : bool :=
  match t with
  | Node e c kids =>
      fields_ok e && name_ok e && ((de_type e =? msi_DirStream) || (de_type e =? msi_DirStorage)) &&
      (if de_type e =? msi_DirStream then (zlen c =? de_size e) else true) &&
      (if de_type e =? msi_DirStorage then distinct_names (kid_names kids) && forallb wf_kid kids else true)
  end.
Definition wf_tree (t : node) : bool :=
  match t with
  | Node e _ kids => fields_ok e && (de_type e =? msi_DirRoot) && distinct_names (kid_names kids) && forallb wf_kid kids
  end.

(* the tar route agrees with the direct digest unless a stream of the root storage has a DECODED name (msiDecodeName) that is
   __exmeta or one of the two signature names while its real name is not a signature name *)
Definition tar_special (d : list Z) : bool := units_eqb d msi_tar_exmeta_name || go_is_sig d.
Definition tar_safe (t : node) : bool :=
  forallb (fun k => let n := go_name (node_ent k) in
                    if de_type (node_ent k) =? msi_DirStream then go_is_sig n || negb (tar_special (msi_decode_name n)) else true) (node_kids t).
(* signing is possible: the root entries that the writer would replace are streams *)
Definition sig_slots_free (t : node) : bool :=
  forallb (fun k => let e := node_ent k in
                    if cfb_match msi_sig_fold e || cfb_match msi_sigex_fold e then de_type e =? msi_DirStream else true) (node_kids t).

(* ================================================================== the same tree stored with another directory: the entries agree on every
   field the digest layer reads (name, type, CLSID, state bits, times, size) and on the stream bytes; sibling links, colours,
   start sectors and the ORDER in which the children are listed (red-black tree shape, entry ids) are arbitrary *)
Definition same_hashed (e e' : dirent) : Prop :=
  de_runes e = de_runes e' /\ de_nlen e = de_nlen e' /\ de_type e = de_type e' /\ de_uid e = de_uid e' /\
  de_flags e = de_flags e' /\ de_ctime e = de_ctime e' /\ de_mtime e = de_mtime e' /\ de_size e = de_size e'.
Section All2.
  Context {A B : Type} (R : A -> B -> Prop).
  Fixpoint all2 (ks : list A) (ms : list B) : Prop :=
    match ks with
    | [] => match ms with [] => True | _ => False end
    | k :: ks' => match ms with m :: ms' => R k m /\ all2 ks' ms' | [] => False end
    end.
End All2.
Fixpoint shape_eq (t t' : node) {struct t} : Prop :=
  match t, t' with
  | Node e c kids, Node e' c' kids' =>
      same_hashed e e' /\ c = c' /\ exists mid, all2 shape_eq kids mid /\ Permutation mid kids'
  end.

(* ================================================================== the digest as a list of pieces (C02) *)
Fixpoint cat_pieces (skip : dirent -> bool) (items : list (dirent * list bytes)) : list bytes :=
  match items with
  | [] => []
  | (e, c) :: r => if skip e then cat_pieces skip r else c ++ cat_pieces skip r
  end.
(* every stream content and every storage CLSID that enters the digest, in digest order *)
Fixpoint body_pieces (t : node) : list bytes :=
  match t with
  | Node e _ kids =>
      let items := map (fun k => (node_ent k,
                                  if msi_hash_is_stream (de_type (node_ent k)) then [node_content k]
                                  else if msi_hash_is_storage (de_type (node_ent k)) then body_pieces k else [])) kids in
      if msi_hash_uid_last then cat_pieces (hash_skip (de_type e)) (sort_items msi_hash_sorts items) ++ [de_uid e]
      else de_uid e :: cat_pieces (hash_skip (de_type e)) (sort_items msi_hash_sorts items)
  end.

(* ================================================================== trees as byte strings (for Laws/Pipeline.v, whose files are
   byte strings): a self-delimiting code of the abstract tree, NOT the compound file format.
   node = 1 :: 32 code units :: 13 scalar fields :: 16 CLSID bytes :: |content| :: content :: children :: 2 *)
Definition enc_dirent (e : dirent) : list Z :=
  de_runes e ++ [de_nlen e; de_type e; de_color e; de_left e; de_right e; de_sroot e; de_flags e; de_ctime e; de_mtime e; de_next e; de_size e; de_pad e] ++ de_uid e.
Fixpoint enc_node (t : node) : list Z :=
  match t with
  | Node e c kids => 1 :: enc_dirent e ++ zlen c :: c ++ concat (map enc_node kids) ++ [2]
  end.
Definition dec_dirent (l : list Z) : option (dirent * list Z) :=
  if zlen l <? 60 then None else
  let r := ztake 32 l in
  match zslice 32 44 l with
  | [nl; ty; co; le; ri; sr; fl; ct; mt; nx; sz; pd] => Some (mkDe r nl ty co le ri sr (zslice 44 60 l) fl ct mt nx sz pd, zdrop 60 l)
  | _ => None
  end.
(* a forest: nodes up to the closing 2 *)
Fixpoint dec_forest (fuel : nat) (l : list Z) : option (list node * list Z) :=
  match fuel with
  | O => None
  | S f =>
      match l with
      | 2 :: rest => Some ([], rest)
      | 1 :: l1 =>
          match dec_dirent l1 with
          | Some (e, n :: l2) =>
              if (n <? 0) || (zlen l2 <? n) then None else
              match dec_forest f (zdrop n l2) with
              | Some (kids, l3) =>
                  match dec_forest f l3 with
                  | Some (sibs, rest) => Some (Node e (ztake n l2) kids :: sibs, rest)
                  | None => None
                  end
              | None => None
              end
          | _ => None
          end
      | _ => None
      end
  end.
Definition encode_tree (t : node) : list Z := enc_node t ++ [2].
Definition decode_tree (l : list Z) : result node :=
  match dec_forest (S (length l)) l with
  | Some ([t], []) => Ok t
  | _ => Err E_DECODE
  end.

(* ================================================================== the format handed to Laws/Pipeline.v
   Hf: the digest used for MsiDigitalSignatureEx (the same algorithm as the imprint); extended: --no-extended-sig absent.
   The guarded embed signs exactly the well-formed trees, with a non-empty blob below 4 GiB (and a non-empty prehash digest) *)
Definition shape_okb (e : dirent) : bool := (zlen (de_runes e) =? 32) && (zlen (de_uid e) =? 16).
Fixpoint all_shape (t : node) : bool := match t with Node e _ kids => shape_okb e && forallb all_shape kids end.
Definition small (b : bytes) : bool := zlen b <? 4294967296.
Definition msi_dom (t : node) : bool := wf_tree t && all_shape t.
Definition msi_hashin (Hf : bytes -> bytes) (extended : bool) (f : bytes) : result bytes :=
  t <- decode_tree f ;; if msi_dom t then digest_pre Hf extended t else Err E_DOMAIN.
Definition exsig_ok (Hf : bytes -> bytes) (extended : bool) (t : node) : bool :=
  if extended then match pre_node t with Ok ex => negb (zlen (Hf ex) =? 0) && small (Hf ex) | _ => true end else true.
Definition msi_embed (Hf : bytes -> bytes) (extended : bool) (f blob : bytes) : result bytes :=
  t <- decode_tree f ;;
  if msi_dom t && negb (zlen blob =? 0) && small blob && exsig_ok Hf extended t
  then g <- embed_t Hf extended t blob ;; Ok (encode_tree g) else Err E_DOMAIN.
Definition msi_extract (f : bytes) : result (option bytes) :=
  t <- decode_tree f ;; if msi_dom t then extract_t t else Err E_DOMAIN.
Definition msi_payload (f : bytes) : result pnode :=
  t <- decode_tree f ;; if msi_dom t then Ok (s_payload true (to_spec t)) else Err E_DOMAIN.
(* what the verifier does with a file: mode from the presence of MsiDigitalSignatureEx, which must match the recomputed prehash *)
Definition msi_verify_hashin (Hf : bytes -> bytes) (f : bytes) : result bytes :=
  t <- decode_tree f ;; if msi_dom t then verify_pre Hf t else Err E_DOMAIN.
(* the specification's is-signed: a non-empty stream \005DigitalSignature in the root storage *)
Definition s_signed (t : snode) : bool :=
  existsb (fun k => (s_type (s_entry k) =? S_STREAM) && s_name_eq (ztake (s_nlen (s_entry k) - 2) (s_namefield (s_entry k))) s_sig_ascii &&
                    negb (zlen (s_data k) =? 0)) (s_kids t).
