(* FmtMSI/Proofs.v — part 1: the hashing order.
   bkey / lex_lt: the canonical order on names; the comparison closure of sortMsiFiles and the specification's memcmp both
   coincide with it on well-formed distinct names; insertion sort under a strict total order is the unique sorted permutation
   (so any correct sorting algorithm — Go's pdqsort included — and any order of the input give the same result). *)
From Relic Require Import Base.Prelude Base.Enc Generated.FmtMSI_gen FmtMSI.Model.
From Coq Require Import Permutation Sorted.

(* ================================================================== small list facts *)
Lemma zlen_length {A} (l : list A) : zlen l = Z.of_nat (length l).
Proof. reflexivity. Qed.
Lemma ztake_firstn {A} (n : nat) (l : list A) : ztake (Z.of_nat n) l = firstn n l.
Proof. unfold ztake. now rewrite Nat2Z.id. Qed.
Lemma zdrop_skipn {A} (n : nat) (l : list A) : zdrop (Z.of_nat n) l = skipn n l.
Proof. unfold zdrop. now rewrite Nat2Z.id. Qed.
Lemma forallb_firstn {A} (p : A -> bool) n (l : list A) : forallb p l = true -> forallb p (firstn n l) = true.
Proof.
  revert n; induction l as [|x l IH]; intros [|n] H; cbn in *; auto.
  apply andb_true_iff in H as [H1 H2]. rewrite H1. cbn. auto.
Qed.
Lemma forallb_skipn {A} (p : A -> bool) n (l : list A) : forallb p l = true -> forallb p (skipn n l) = true.
Proof.
  revert n; induction l as [|x l IH]; intros [|n] H; cbn in *; auto.
  apply andb_true_iff in H as [H1 H2]. auto.
Qed.
Lemma nth_split_at {A} (l : list A) (k : nat) (d : A) : (k < length l)%nat ->
  l = firstn k l ++ nth k l d :: skipn (S k) l.
Proof.
  revert k; induction l as [|x l IH]; intros [|k] H; cbn in *; try lia; [reflexivity|].
  f_equal. apply IH. lia.
Qed.

(* ================================================================== the canonical order on names *)
(* a code unit read as its two little-endian bytes, first byte most significant: memcmp order *)
Definition bkey (u : Z) : Z := (u mod 256) * 256 + u / 256.
Fixpoint lex_lt (a b : list Z) : bool :=
  match a, b with
  | [], [] => false
  | [], _ :: _ => true
  | _ :: _, [] => false
  | x :: a', y :: b' => if x <? y then true else if y <? x then false else lex_lt a' b'
  end.
Lemma lex_lt_irrefl a : lex_lt a a = false.
Proof. induction a as [|x a IH]; cbn; [reflexivity|]. rewrite Z.ltb_irrefl. exact IH. Qed.
Lemma lex_lt_asym a b : lex_lt a b = true -> lex_lt b a = false.
Proof.
  revert b; induction a as [|x a IH]; intros [|y b]; cbn; try discriminate; auto.
  destruct (x <? y) eqn:E1; destruct (y <? x) eqn:E2; try lia; auto; discriminate.
Qed.
Lemma lex_lt_trans a b c : lex_lt a b = true -> lex_lt b c = true -> lex_lt a c = true.
Proof.
  revert b c; induction a as [|x a IH]; intros [|y b] [|z c]; cbn; try discriminate; auto.
  destruct (x <? y) eqn:E1; destruct (y <? x) eqn:E2; destruct (y <? z) eqn:E3; destruct (z <? y) eqn:E4;
    destruct (x <? z) eqn:E5; destruct (z <? x) eqn:E6; try lia; try discriminate; auto.
  intros H1 H2. eapply IH; eauto.
Qed.
Lemma lex_lt_total a b : a <> b -> lex_lt a b = true \/ lex_lt b a = true.
Proof.
  revert b; induction a as [|x a IH]; intros [|y b] H; cbn; auto; try congruence.
  destruct (x <? y) eqn:E1; destruct (y <? x) eqn:E2; auto; try lia.
  assert (x = y) by lia. subst y. apply IH. congruence.
Qed.

Definition uok (u : Z) : Prop := 0 <= u < 65536.
Lemma unit_ok_uok u : unit_ok u = true <-> uok u.
Proof. unfold unit_ok, uok. lia. Qed.
Lemma bkey_inj x y : uok x -> uok y -> bkey x = bkey y -> x = y.
Proof. unfold uok, bkey. intros. lia. Qed.
Lemma bkey_pos x : uok x -> x <> 0 -> 0 < bkey x.
Proof. unfold uok, bkey. intros. lia. Qed.
Lemma bkey_0 : bkey 0 = 0.
Proof. reflexivity. Qed.

(* the loop body of the comparison closure is the comparison of the byte-swapped code units *)
Lemma sort_body_bkey x y cont : uok x -> uok y ->
  msi_sort_body x y cont = if bkey x <? bkey y then true else if bkey y <? bkey x then false else cont.
Proof.
  unfold uok. intros Hx Hy. unfold msi_sort_body, bkey.
  change 255 with (Z.ones 8). rewrite !Z.land_ones, !Z.shiftr_div_pow2 by lia. change (2 ^ 8) with 256.
  destruct (x mod 256 =? y mod 256) eqn:E1; cbn [negb].
  - destruct (x / 256 =? y / 256) eqn:E2; cbn [negb].
    + replace (x mod 256 * 256 + x / 256 <? y mod 256 * 256 + y / 256) with false by lia.
      replace (y mod 256 * 256 + y / 256 <? x mod 256 * 256 + x / 256) with false by lia. reflexivity.
    + destruct (x / 256 <? y / 256) eqn:E3.
      * replace (x mod 256 * 256 + x / 256 <? y mod 256 * 256 + y / 256) with true by lia. reflexivity.
      * replace (x mod 256 * 256 + x / 256 <? y mod 256 * 256 + y / 256) with false by lia.
        replace (y mod 256 * 256 + y / 256 <? x mod 256 * 256 + x / 256) with true by lia. reflexivity.
  - destruct (x mod 256 <? y mod 256) eqn:E3.
    + replace (x mod 256 * 256 + x / 256 <? y mod 256 * 256 + y / 256) with true by lia. reflexivity.
    + replace (x mod 256 * 256 + x / 256 <? y mod 256 * 256 + y / 256) with false by lia.
      replace (y mod 256 * 256 + y / 256 <? x mod 256 * 256 + x / 256) with true by lia. reflexivity.
Qed.

(* lexicographic comparison of two code unit lists over their common length *)
Fixpoint ulex3 (a b : list Z) : comparison :=
  match a, b with
  | x :: a', y :: b' => if bkey x <? bkey y then Lt else if bkey y <? bkey x then Gt else ulex3 a' b'
  | _, _ => Eq
  end.
Definition of_cmp (c : comparison) (tie : bool) : bool := match c with Lt => true | Gt => false | Eq => tie end.

(* C11: the comparison loop never indexes past the arrays, whatever the entries hold *)
Lemma less_loop_ok ra : forall rb k n tie, length ra = length rb ->
  exists r, less_loop ra rb k n (k + zlen ra) tie = Ok r.
Proof.
  induction ra as [|x ra IH]; intros [|y rb] k n tie Hl; cbn in Hl; try discriminate.
  - cbn [less_loop]. unfold msi_sort_loop_cond. rewrite zlen_nil. replace (k <? k + 0) with false by lia. rewrite andb_false_r. eauto.
  - cbn [less_loop]. destruct (msi_sort_loop_cond k n (k + zlen (x :: ra))); [|eauto].
    destruct (IH rb (k + 1) n tie ltac:(lia)) as [r Hr]. rewrite zlen_cons. replace (k + (1 + zlen ra)) with (k + 1 + zlen ra) by lia.
    rewrite Hr. eauto.
Qed.

Lemma less_loop_ulex ra : forall rb k n tie, length ra = length rb -> Forall uok ra -> Forall uok rb -> 0 <= k ->
  less_loop ra rb k n (k + zlen ra) tie =
  Ok (of_cmp (ulex3 (firstn (Z.to_nat (Z.min n (k + zlen ra) - k)) ra) (firstn (Z.to_nat (Z.min n (k + zlen ra) - k)) rb)) tie).
Proof.
  induction ra as [|x ra IH]; intros [|y rb] k n tie Hl Ha Hb Hk; cbn in Hl; try discriminate.
  - cbn [less_loop]. unfold msi_sort_loop_cond. rewrite zlen_nil. replace (k <? k + 0) with false by lia. rewrite andb_false_r.
    rewrite !firstn_nil. reflexivity.
  - cbn [less_loop]. unfold msi_sort_loop_cond. rewrite zlen_cons. pose proof (zlen_nonneg ra) as Hz.
    replace (k <? k + (1 + zlen ra)) with true by lia. rewrite andb_true_r.
    inversion Ha as [|? ? Hx Ha']; inversion Hb as [|? ? Hy Hb']; subst.
    destruct (k <? n) eqn:Ekn.
    + specialize (IH rb (k + 1) n tie ltac:(lia) Ha' Hb' ltac:(lia)).
      replace (k + 1 + zlen ra) with (k + (1 + zlen ra)) in IH by lia. rewrite IH.
      replace (Z.to_nat (Z.min n (k + (1 + zlen ra)) - k)) with (S (Z.to_nat (Z.min n (k + (1 + zlen ra)) - (k + 1)))) by lia.
      cbn [firstn ulex3]. rewrite (sort_body_bkey _ _ _ Hx Hy).
      destruct (bkey x <? bkey y); [reflexivity|]. destruct (bkey y <? bkey x); reflexivity.
    + replace (Z.to_nat (Z.min n (k + (1 + zlen ra)) - k)) with 0%nat by lia. reflexivity.
Qed.

(* names: na nb without NUL, then a NUL, then anything *)
Definition nonul (l : list Z) : Prop := Forall (fun u => uok u /\ u <> 0) l.
Lemma ulex3_names na : forall nb pa pb m, nonul na -> nonul nb -> na <> nb -> (Nat.min (length na) (length nb) < m)%nat ->
  ulex3 (firstn m (na ++ 0 :: pa)) (firstn m (nb ++ 0 :: pb)) = if lex_lt (map bkey na) (map bkey nb) then Lt else Gt.
Proof.
  induction na as [|x na IH]; intros [|y nb] pa pb m Ha Hb Hne Hm; cbn [length Nat.min] in Hm.
  - congruence.
  - destruct m as [|m]; [lia|]. cbn [app firstn ulex3 map lex_lt]. inversion Hb as [|? ? [Hy Hy0] _]; subst.
    rewrite bkey_0. pose proof (bkey_pos y Hy Hy0). replace (0 <? bkey y) with true by lia. reflexivity.
  - destruct m as [|m]; [lia|]. cbn [app firstn ulex3 map lex_lt]. inversion Ha as [|? ? [Hx Hx0] _]; subst.
    rewrite bkey_0. pose proof (bkey_pos x Hx Hx0). replace (bkey x <? 0) with false by lia. replace (0 <? bkey x) with true by lia. reflexivity.
  - destruct m as [|m]; [lia|]. cbn [app firstn ulex3 map lex_lt].
    inversion Ha as [|? ? [Hx Hx0] Ha']; inversion Hb as [|? ? [Hy Hy0] Hb']; subst.
    destruct (bkey x <? bkey y) eqn:E1; [reflexivity|]. destruct (bkey y <? bkey x) eqn:E2; [reflexivity|].
    assert (x = y) by (apply bkey_inj; auto; lia). subst y.
    apply IH; auto; [congruence|]. cbn [length] in Hm. lia.
Qed.

(* ================================================================== insertion sort: permutation, sortedness, uniqueness *)
Section SortFacts.
  Context {A : Type}.
  Lemma ins_perm (lt : A -> A -> bool) x rs : Permutation (ins lt x rs) (x :: rs).
  Proof.
    induction rs as [|y r IH]; cbn; [reflexivity|]. destruct (lt x y); [|reflexivity].
    rewrite IH. apply perm_swap.
  Qed.
  Lemma fold_ins_perm (lt : A -> A -> bool) l : forall acc, Permutation (fold_left (fun rs x => ins lt x rs) l acc) (acc ++ l).
  Proof.
    induction l as [|x l IH]; intros acc; cbn [fold_left]; [now rewrite app_nil_r|].
    rewrite IH. rewrite (ins_perm lt x acc). cbn [app]. apply Permutation_middle.
  Qed.
  Lemma isort_perm (lt : A -> A -> bool) l : Permutation (isort lt l) l.
  Proof. unfold isort. rewrite <- Permutation_rev. apply (fold_ins_perm lt l []). Qed.

  (* two comparators that agree on elements with different keys sort a list with distinct keys alike *)
  Variable key : A -> list Z.
  Lemma ins_ext (f g : A -> A -> bool) x rs : (forall y, In y rs -> f x y = g x y) -> ins f x rs = ins g x rs.
  Proof.
    induction rs as [|y r IH]; intros H; cbn; [reflexivity|]. rewrite (H y (or_introl eq_refl)).
    destruct (g x y); [|reflexivity]. f_equal. apply IH. intros z Hz. apply H. now right.
  Qed.
  Lemma fold_ins_ext (f g : A -> A -> bool) l : forall acc, NoDup (map key (acc ++ l)) ->
    (forall x y, In x (acc ++ l) -> In y (acc ++ l) -> key x <> key y -> f x y = g x y) ->
    fold_left (fun rs x => ins f x rs) l acc = fold_left (fun rs x => ins g x rs) l acc.
  Proof.
    induction l as [|x l IH]; intros acc Hnd Hfg; cbn [fold_left]; [reflexivity|].
    assert (Hins : ins f x acc = ins g x acc).
    { apply ins_ext. intros y Hy. apply Hfg; [apply in_or_app; right; now left | apply in_or_app; now left |].
      rewrite map_app in Hnd. cbn [map] in Hnd. apply NoDup_remove_2 in Hnd. intros E. apply Hnd. rewrite E.
      apply in_or_app. left. now apply in_map. }
    rewrite Hins. assert (Hp : Permutation (ins g x acc ++ l) (acc ++ x :: l)).
    { rewrite (ins_perm g x acc). cbn [app]. apply Permutation_middle. }
    apply IH.
    - eapply Permutation_NoDup; [|exact Hnd]. apply Permutation_map. symmetry. exact Hp.
    - intros a b Ha Hb. apply Hfg; eapply Permutation_in; eauto.
  Qed.
  Lemma isort_ext (f g : A -> A -> bool) l : NoDup (map key l) ->
    (forall x y, In x l -> In y l -> key x <> key y -> f x y = g x y) -> isort f l = isort g l.
  Proof. intros Hnd Hfg. unfold isort. f_equal. apply (fold_ins_ext f g l []); assumption. Qed.

  (* the canonical comparator *)
  Definition klt (x y : A) : bool := lex_lt (key x) (key y).
  (* the accumulator of the sort is strictly descending *)
  Definition desc (x y : A) : Prop := klt y x = true.
  Lemma ins_desc x rs : StronglySorted desc rs -> ~ In (key x) (map key rs) -> StronglySorted desc (ins klt x rs).
  Proof.
    induction rs as [|y r IH]; intros Hs Hn; cbn [ins].
    - constructor; constructor.
    - inversion Hs as [|? ? Hs' Hall]; subst. destruct (klt x y) eqn:E.
      + constructor.
        * apply IH; auto. intros Hin. apply Hn. now right.
        * assert (Hp := ins_perm klt x r). rewrite Forall_forall in *. intros z Hz.
          eapply Permutation_in in Hz; [|exact Hp]. destruct Hz as [<-|Hz]; [exact E|]. now apply Hall.
      + assert (Hyx : klt y x = true).
        { destruct (lex_lt_total (key x) (key y)) as [H|H]; [|unfold klt in E; congruence|exact H].
          intros E'. apply Hn. left. now symmetry. }
        constructor; [exact Hs|]. constructor; [exact Hyx|].
        rewrite Forall_forall in *. intros z Hz. unfold desc, klt in *. eapply lex_lt_trans; [apply Hall; exact Hz | exact Hyx].
  Qed.
  Lemma fold_ins_desc l : forall acc, StronglySorted desc acc -> NoDup (map key (acc ++ l)) ->
    StronglySorted desc (fold_left (fun rs x => ins klt x rs) l acc).
  Proof.
    induction l as [|x l IH]; intros acc Hs Hnd; cbn [fold_left]; [exact Hs|].
    apply IH.
    - apply ins_desc; [exact Hs|]. rewrite map_app in Hnd. cbn [map] in Hnd. apply NoDup_remove_2 in Hnd.
      intros Hin. apply Hnd. apply in_or_app. now left.
    - eapply Permutation_NoDup; [|exact Hnd]. apply Permutation_map. rewrite (ins_perm klt x acc). cbn [app]. symmetry. apply Permutation_middle.
  Qed.
  Lemma desc_unique l1 : forall l2, StronglySorted desc l1 -> StronglySorted desc l2 -> Permutation l1 l2 -> l1 = l2.
  Proof.
    induction l1 as [|a t1 IH]; intros l2 H1 H2 Hp.
    - apply Permutation_nil in Hp. now subst.
    - destruct l2 as [|b t2]; [apply Permutation_sym, Permutation_nil in Hp; discriminate|].
      inversion H1 as [|? ? H1' A1]; inversion H2 as [|? ? H2' A2]; subst.
      assert (a = b).
      { assert (Ha : In a (b :: t2)) by (eapply Permutation_in; [exact Hp | now left]).
        assert (Hb : In b (a :: t1)) by (eapply Permutation_in; [symmetry; exact Hp | now left]).
        destruct Ha as [Ha|Ha]; [now symmetry|]. destruct Hb as [Hb|Hb]; [exact Hb|].
        rewrite Forall_forall in A1, A2. specialize (A1 _ Hb). specialize (A2 _ Ha). unfold desc, klt in *.
        apply lex_lt_asym in A1. congruence. }
      subst b. f_equal. apply IH; auto. eapply Permutation_cons_inv. exact Hp.
  Qed.
  (* uniqueness: the result does not depend on the order of the input *)
  Theorem sort_unique l1 l2 : Permutation l1 l2 -> NoDup (map key l1) -> isort klt l1 = isort klt l2.
  Proof.
    intros Hp Hnd. unfold isort. f_equal. apply desc_unique.
    - apply fold_ins_desc; [constructor | exact Hnd].
    - apply fold_ins_desc; [constructor |]. eapply Permutation_NoDup; [|exact Hnd]. now apply Permutation_map.
    - rewrite (fold_ins_perm klt l1 []), (fold_ins_perm klt l2 []). exact Hp.
  Qed.
  (* ... and sorting commutes with filtering *)
  Lemma filter_rev (p : A -> bool) l : filter p (rev l) = rev (filter p l).
  Proof.
    induction l as [|x l IH]; [reflexivity|]. cbn [rev filter]. rewrite filter_app, IH. cbn [filter].
    destruct (p x); cbn [rev]; [reflexivity | now rewrite app_nil_r].
  Qed.
  Lemma filter_desc (p : A -> bool) l : StronglySorted desc l -> StronglySorted desc (filter p l).
  Proof.
    induction 1 as [|a l Hs IH Hall]; cbn [filter]; [constructor|]. destruct (p a); [|exact IH].
    constructor; [exact IH|]. rewrite Forall_forall in *. intros z Hz. apply filter_In in Hz as [Hz _]. now apply Hall.
  Qed.
  Lemma NoDup_map_filter (p : A -> bool) l : NoDup (map key l) -> NoDup (map key (filter p l)).
  Proof.
    induction l as [|x l IH]; cbn [map filter]; intros H; [constructor|]. inversion H as [|? ? Hn Hd]; subst.
    destruct (p x); [|auto]. cbn [map]. constructor; [|auto]. intros Hin. apply Hn.
    apply in_map_iff in Hin as [y [Hy Hin]]. apply filter_In in Hin as [Hin _]. rewrite <- Hy. now apply in_map.
  Qed.
  Theorem sort_filter (p : A -> bool) l : NoDup (map key l) -> filter p (isort klt l) = isort klt (filter p l).
  Proof.
    intros Hnd. unfold isort. rewrite filter_rev. f_equal. apply desc_unique.
    - apply filter_desc. apply fold_ins_desc; [constructor | exact Hnd].
    - apply fold_ins_desc; [constructor |]. now apply NoDup_map_filter.
    - rewrite (fold_ins_perm klt (filter p l) []). cbn [app].
      assert (Hp := fold_ins_perm klt l []). cbn [app] in Hp.
      clear Hnd. revert Hp. generalize (fold_left (fun rs x => ins klt x rs) l []). intros d Hp.
      induction Hp as [|x a b Hp IH|x y a|a b c H1 IH1 H2 IH2]; cbn [filter].
      + constructor.
      + destruct (p x); [now constructor | exact IH].
      + destruct (p x), (p y); try reflexivity. apply perm_swap.
      + etransitivity; eauto.
  Qed.
End SortFacts.

(* sorting a mapped list: when the comparator only looks at the image *)
Lemma ins_map {A B} (p : A -> B) (f : A -> A -> bool) (g : B -> B -> bool) x rs :
  (forall a b, f a b = g (p a) (p b)) -> map p (ins f x rs) = ins g (p x) (map p rs).
Proof.
  intros H. induction rs as [|y r IH]; cbn; [reflexivity|]. rewrite <- H. destruct (f x y); cbn [map]; [now rewrite IH | reflexivity].
Qed.
Lemma isort_map {A B} (p : A -> B) (f : A -> A -> bool) (g : B -> B -> bool) l :
  (forall a b, f a b = g (p a) (p b)) -> map p (isort f l) = isort g (map p l).
Proof.
  intros H. unfold isort. rewrite map_rev. f_equal.
  assert (G : forall acc, map p (fold_left (fun rs x => ins f x rs) l acc) = fold_left (fun rs x => ins g x rs) (map p l) (map p acc)).
  { induction l as [|x l IH]; intros acc; cbn [fold_left map]; [reflexivity|]. rewrite IH. f_equal. now apply ins_map. }
  apply (G []).
Qed.
