(* FmtMSI/ProofsSer.v — part 2: the 128-byte directory entry: field positions, what prehashMsiDirent writes, and the two
   comparisons (relic's closure, the specification's memcmp) as the canonical order on well-formed names. *)
From Relic Require Import Base.Prelude Base.Enc Generated.FmtMSI_gen FmtMSI.Model FmtMSI.Proofs.
From Coq Require Import Permutation Sorted.

(* ================================================================== slices of a concatenation *)
Lemma zslice_app_skip (x r : bytes) a b : zlen x <= a -> zslice a b (x ++ r) = zslice (a - zlen x) (b - zlen x) r.
Proof. unfold zslice. intros H. rewrite zdrop_app_r by lia. f_equal. lia. Qed.
Lemma zslice_app_here (x r : bytes) b : b = zlen x -> zslice 0 b (x ++ r) = x.
Proof.
  unfold zslice. intros ->. rewrite zdrop_0, Z.sub_0_r. rewrite ztake_app_l by lia. apply ztake_all. lia.
Qed.
(* the i-th piece of a concatenation sits at the sum of the lengths before it *)
Lemma zslice_concat (ps : list bytes) : forall i, (i < length ps)%nat ->
  zslice (zlen (concat (firstn i ps))) (zlen (concat (firstn i ps)) + zlen (nth i ps [])) (concat ps) = nth i ps [].
Proof.
  induction ps as [|p ps IH]; intros [|i] Hi; cbn [length] in Hi; try lia.
  - cbn [firstn concat nth]. rewrite zlen_nil. cbn [Z.add]. apply zslice_app_here. reflexivity.
  - cbn [firstn concat nth]. rewrite zlen_app. rewrite zslice_app_skip by (pose proof (zlen_nonneg (concat (firstn i ps))); lia).
    replace (zlen p + zlen (concat (firstn i ps)) - zlen p) with (zlen (concat (firstn i ps))) by lia.
    replace (zlen p + zlen (concat (firstn i ps)) + zlen (nth i ps []) - zlen p) with (zlen (concat (firstn i ps)) + zlen (nth i ps [])) by lia.
    apply IH. lia.
Qed.

Lemma units_le_zlen l : zlen (units_le l) = 2 * zlen l.
Proof.
  unfold units_le. induction l as [|u l IH]; [reflexivity|]. cbn [map concat]. rewrite zlen_app, zlen_cons, IH.
  change (zlen (le_enc 2 u)) with 2. lia.
Qed.
Lemma units_le_cons u l : units_le (u :: l) = [u mod 256; u / 256 mod 256] ++ units_le l.
Proof. reflexivity. Qed.
Lemma units_le_app a b : units_le (a ++ b) = units_le a ++ units_le b.
Proof. unfold units_le. now rewrite map_app, concat_app. Qed.
Lemma ztake_units_le l : forall j, ztake (2 * Z.of_nat j) (units_le l) = units_le (firstn j l).
Proof.
  induction l as [|u l IH]; intros [|j].
  - reflexivity.
  - unfold ztake. cbn. now rewrite firstn_nil.
  - reflexivity.
  - rewrite units_le_cons. cbn [firstn]. rewrite units_le_cons.
    replace (2 * Z.of_nat (S j)) with (2 + 2 * Z.of_nat j) by lia.
    unfold ztake. replace (Z.to_nat (2 + 2 * Z.of_nat j)) with (S (S (Z.to_nat (2 * Z.of_nat j)))) by lia.
    cbn [app firstn]. f_equal. f_equal. apply IH.
Qed.

(* the serialised entry as its fourteen fields *)
Definition ser_pieces (e : dirent) : list bytes :=
  [units_le (de_runes e); le_enc 2 (de_nlen e); le_enc 1 (de_type e); le_enc 1 (de_color e); le_enc 4 (de_left e); le_enc 4 (de_right e);
   le_enc 4 (de_sroot e); de_uid e; le_enc 4 (de_flags e); le_enc 8 (de_ctime e); le_enc 8 (de_mtime e); le_enc 4 (de_next e);
   le_enc 4 (de_size e); le_enc 4 (de_pad e)].
Lemma ser_dirent_pieces e : ser_dirent e = concat (ser_pieces e).
Proof. unfold ser_dirent, ser_pieces. cbn [concat]. rewrite app_nil_r. reflexivity. Qed.
(* the layout relic declares is the one of [MS-CFB] 2.6.1 *)
Lemma layout_is_mscfb :
  [msi_de_off_NameRunes; msi_de_off_NameLength; msi_de_off_Type; msi_de_off_Color; msi_de_off_LeftChild; msi_de_off_RightChild; msi_de_off_StorageRoot;
   msi_de_off_UID; msi_de_off_UserFlags; msi_de_off_CreateTime; msi_de_off_ModifyTime; msi_de_off_NextSector; msi_de_off_StreamSize; msi_de_size]
  = [0; 64; 66; 67; 68; 72; 76; 80; 96; 100; 108; 116; 120; 128] /\
  msi_de_widths = [64; 2; 1; 1; 4; 4; 4; 16; 4; 8; 8; 4; 4; 4] /\ msi_pre_enc_cap = msi_de_size.
Proof. repeat split. Qed.

Definition shape_ok (e : dirent) : Prop := zlen (de_runes e) = 32 /\ zlen (de_uid e) = 16.
Lemma ser_zlen e : shape_ok e -> zlen (ser_dirent e) = 128.
Proof.
  intros [Hr Hu]. unfold ser_dirent. rewrite !zlen_app, units_le_zlen, Hr, Hu, !le_enc_zlen. reflexivity.
Qed.
(* field i at its offset *)
Lemma ser_field e i off w : shape_ok e -> (i < 14)%nat ->
  zlen (concat (firstn i (ser_pieces e))) = off -> zlen (nth i (ser_pieces e) []) = w ->
  zslice off (off + w) (ser_dirent e) = nth i (ser_pieces e) [].
Proof. intros _ Hi <- <-. rewrite ser_dirent_pieces. apply zslice_concat. exact Hi. Qed.
Ltac ser_len H := destruct H as [Hr_ Hu_]; unfold ser_pieces; cbn [firstn concat nth]; rewrite ?zlen_app, ?units_le_zlen, ?Hr_, ?Hu_, ?le_enc_zlen, ?zlen_nil; reflexivity.
Lemma ser_namefield e : shape_ok e -> ztake 64 (ser_dirent e) = units_le (de_runes e).
Proof.
  intros H. change (ztake 64 (ser_dirent e)) with (zslice 0 (0 + 64) (ser_dirent e)).
  apply (ser_field e 0 0 64 H); [lia | reflexivity | ser_len H].
Qed.
Lemma ser_nlen e : shape_ok e -> zslice 64 66 (ser_dirent e) = le_enc 2 (de_nlen e).
Proof. intros H. apply (ser_field e 1 64 2 H); [lia | ser_len H | reflexivity]. Qed.
Lemma ser_type e : shape_ok e -> zslice 66 67 (ser_dirent e) = le_enc 1 (de_type e).
Proof. intros H. apply (ser_field e 2 66 1 H); [lia | ser_len H | reflexivity]. Qed.
Lemma ser_uid e : shape_ok e -> zslice 80 96 (ser_dirent e) = de_uid e.
Proof. intros H. apply (ser_field e 7 80 16 H); [lia | ser_len H | destruct H as [_ Hu]; exact Hu]. Qed.
Lemma ser_flags e : shape_ok e -> zslice 96 100 (ser_dirent e) = le_enc 4 (de_flags e).
Proof. intros H. apply (ser_field e 8 96 4 H); [lia | ser_len H | reflexivity]. Qed.
Lemma ser_size e : shape_ok e -> zslice 120 124 (ser_dirent e) = le_enc 4 (de_size e).
Proof. intros H. apply (ser_field e 12 120 4 H); [lia | ser_len H | reflexivity]. Qed.
Lemma ser_times e : shape_ok e -> zslice 100 116 (ser_dirent e) = le_enc 8 (de_ctime e) ++ le_enc 8 (de_mtime e).
Proof.
  intros H.
  set (ps := [units_le (de_runes e); le_enc 2 (de_nlen e); le_enc 1 (de_type e); le_enc 1 (de_color e); le_enc 4 (de_left e); le_enc 4 (de_right e);
              le_enc 4 (de_sroot e); de_uid e; le_enc 4 (de_flags e); le_enc 8 (de_ctime e) ++ le_enc 8 (de_mtime e); le_enc 4 (de_next e);
              le_enc 4 (de_size e); le_enc 4 (de_pad e)]).
  assert (E : ser_dirent e = concat ps).
  { unfold ser_dirent, ps. cbn [concat]. rewrite app_nil_r, <- !app_assoc. reflexivity. }
  rewrite E. destruct H as [Hr Hu].
  assert (L : zlen (concat (firstn 9 ps)) = 100).
  { unfold ps. cbn [firstn concat]. rewrite ?zlen_app, ?units_le_zlen, ?Hr, ?Hu, ?le_enc_zlen, ?zlen_nil. reflexivity. }
  assert (W : zlen (nth 9 ps []) = 16) by (unfold ps; cbn [nth]; rewrite zlen_app, !le_enc_zlen; reflexivity).
  change (nth 9 ps []) with (le_enc 8 (de_ctime e) ++ le_enc 8 (de_mtime e)) in *.
  rewrite <- L at 1. replace 116 with (zlen (concat (firstn 9 ps)) + zlen (le_enc 8 (de_ctime e) ++ le_enc 8 (de_mtime e))) by (rewrite L, W; reflexivity).
  apply (zslice_concat ps 9). unfold ps. cbn. lia.
Qed.
Lemma ser_name e n : shape_ok e -> 0 <= n <= 64 -> zslice 0 n (ser_dirent e) = ztake n (units_le (de_runes e)).
Proof.
  intros H Hn. unfold zslice. rewrite zdrop_0, Z.sub_0_r. unfold ser_dirent. rewrite ztake_app_l; [reflexivity|].
  destruct H as [Hr _]. rewrite units_le_zlen, Hr. lia.
Qed.

(* ================================================================== prehashMsiDirent: exactly the documented fields *)
Definition pre_fields (e : dirent) : bytes :=
  (if negb (de_type e =? 5) then ztake (de_nlen e - 2) (units_le (de_runes e)) else []) ++
  (if (de_type e =? 5) || (de_type e =? 1) then de_uid e else []) ++
  (if de_type e =? 2 then le_enc 4 (de_size e) else []) ++
  le_enc 4 (de_flags e) ++
  (if negb (de_type e =? 5) then le_enc 8 (de_ctime e) ++ le_enc 8 (de_mtime e) else []).
Lemma pre_dirent_fields e : shape_ok e -> msi_pre_badlen (de_type e) (de_nlen e) = false -> pre_dirent e = Ok (pre_fields e).
Proof.
  intros H Hb. unfold pre_dirent. rewrite Hb. unfold msi_pre_plan, write_plan, pre_fields.
  unfold msi_pre_badlen in Hb.
  assert (W : forall a b, 0 <= a -> a <= b -> b <= 128 -> go_slice (ser_dirent e) (wrap16 a) (wrap16 b) msi_pre_enc_cap = Ok (zslice a b (ser_dirent e))).
  { intros a b Ha Hab Hb'. unfold go_slice, wrap16. rewrite !Z.mod_small by lia. change msi_pre_enc_cap with 128.
    replace ((0 <=? a) && (a <=? b) && (b <=? 128)) with true by lia. reflexivity. }
  rewrite (W 96 100), (ser_flags e H) by lia.
  destruct (de_type e =? 5) eqn:E5; cbn [negb orb bind].
  - rewrite (W 80 96), (ser_uid e H) by lia. cbn [bind].
    destruct (de_type e =? 2) eqn:E2; [lia|]. cbn [bind app]. rewrite app_nil_r. reflexivity.
  - cbn [negb andb] in Hb. assert (Hn : 2 <= de_nlen e <= 64) by lia.
    rewrite (W 0 (de_nlen e - 2)), (ser_name e _ H) by lia. rewrite (W 100 116), (ser_times e H) by lia. cbn [bind].
    destruct (de_type e =? 1) eqn:E1; cbn [bind].
    + rewrite (W 80 96), (ser_uid e H) by lia. cbn [bind]. destruct (de_type e =? 2) eqn:E2; [lia|]. cbn [bind app]. rewrite app_nil_r. reflexivity.
    + destruct (de_type e =? 2) eqn:E2; cbn [bind app].
      * rewrite (W 120 124), (ser_size e H) by lia. cbn [bind]. rewrite app_nil_r. reflexivity.
      * rewrite app_nil_r. reflexivity.
Qed.
(* C11: with the guard in place no slice leaves the buffer, whatever the entry holds *)
Lemma pre_dirent_no_panic e p : shape_ok e -> pre_dirent e <> Panic p.
Proof.
  intros H. unfold pre_dirent. destruct (msi_pre_badlen (de_type e) (de_nlen e)) eqn:Hb; [discriminate|].
  assert (G := pre_dirent_fields e H Hb). unfold pre_dirent in G. rewrite Hb in G. rewrite G. discriminate.
Qed.

(* ================================================================== reading the entry back as the specification does *)
Definition vals_ok (e : dirent) : Prop := shape_ok e /\ 0 <= de_nlen e < 65536 /\ 0 <= de_type e < 256.
Lemma fields_ok_vals e : fields_ok e = true -> vals_ok e /\ Forall uok (de_runes e).
Proof.
  unfold fields_ok, in_range. intros H. repeat (apply andb_true_iff in H as [H ?]).
  repeat match goal with X : (_ <=? _) && (_ <? 256 ^ 4) = true |- _ => clear X end.
  repeat match goal with X : (_ <=? _) && (_ <? 256 ^ 8) = true |- _ => clear X end.
  change (256 ^ 2) with 65536 in *. change (256 ^ 1) with 256 in *.
  split.
  - unfold vals_ok, shape_ok. lia.
  - apply Forall_forall. intros u Hu. apply unit_ok_uok.
    match goal with X : forallb unit_ok _ = true |- _ => rewrite forallb_forall in X; now apply X end.
Qed.
Lemma le_dec_enc_small w n : 0 <= n < 256 ^ Z.of_nat w -> le_dec (le_enc w n) = n.
Proof. apply le_dec_enc. Qed.
Lemma s_nlen_ser e : vals_ok e -> s_nlen (ser_dirent e) = de_nlen e.
Proof. intros [H [Hn _]]. unfold s_nlen. rewrite (ser_nlen e H). apply le_dec_enc. change (256 ^ Z.of_nat 2) with 65536. lia. Qed.
Lemma s_type_ser e : vals_ok e -> s_type (ser_dirent e) = de_type e.
Proof. intros [H [_ Ht]]. unfold s_type. rewrite (ser_type e H). apply le_dec_enc. change (256 ^ Z.of_nat 1) with 256. lia. Qed.
Lemma s_namefield_ser e : vals_ok e -> s_namefield (ser_dirent e) = units_le (de_runes e).
Proof. intros [H _]. unfold s_namefield. apply ser_namefield. exact H. Qed.
Lemma s_clsid_ser e : vals_ok e -> s_clsid (ser_dirent e) = de_uid e.
Proof. intros [H _]. apply ser_uid. exact H. Qed.

(* the specification's entry metadata is what prehashMsiDirent writes *)
Lemma s_pre_entry_ser e : vals_ok e ->
  s_pre_entry (ser_dirent e) = match pre_dirent e with Ok b => Some b | _ => None end.
Proof.
  intros V. pose proof V as [H [Hn Ht]]. unfold s_pre_entry. rewrite (s_type_ser e V), (s_nlen_ser e V), (s_namefield_ser e V).
  unfold S_ROOT, S_STORAGE, S_STREAM.
  destruct (msi_pre_badlen (de_type e) (de_nlen e)) eqn:Hb.
  - unfold pre_dirent. rewrite Hb. unfold msi_pre_badlen in Hb.
    replace (negb (de_type e =? 5) && ((de_nlen e <? 2) || (64 <? de_nlen e))) with true by lia. reflexivity.
  - rewrite (pre_dirent_fields e H Hb). unfold msi_pre_badlen in Hb.
    replace (negb (de_type e =? 5) && ((de_nlen e <? 2) || (64 <? de_nlen e))) with false by lia.
    unfold pre_fields, s_state, s_times, s_size32. rewrite (s_clsid_ser e V), (ser_flags e H), (ser_times e H), (ser_size e H).
    destruct (de_type e =? 5); reflexivity.
Qed.

(* ================================================================== the two comparisons on well-formed names *)
Definition wname (e : dirent) : list Z := ztake (de_nlen e / 2 - 1) (de_runes e).
Definition dkey (e : dirent) : list Z := map bkey (wname e).
(* name_ok, unpacked *)
Lemma nonul_of_forallb l : forallb unit_ok l = true -> forallb (fun u => negb (u =? 0)) l = true -> nonul l.
Proof.
  induction l as [|u l IH]; cbn [forallb]; intros H1 H2; [constructor|].
  apply andb_true_iff in H1 as [A1 B1]. apply andb_true_iff in H2 as [A2 B2].
  constructor; [split; [now apply unit_ok_uok | lia] | apply IH; assumption].
Qed.
Lemma name_ok_split e : name_ok e = true -> exists k pad,
  (1 <= k <= 31)%nat /\ de_nlen e = 2 * (Z.of_nat k + 1) /\ length (wname e) = k /\ nonul (wname e) /\
  de_runes e = wname e ++ 0 :: pad /\ Forall uok (de_runes e) /\ length (de_runes e) = 32%nat.
Proof.
  unfold name_ok. intros H. repeat (apply andb_true_iff in H as [H ?]).
  set (k := de_nlen e / 2 - 1) in *.
  assert (Hl : length (de_runes e) = 32%nat) by (unfold zlen in H; lia).
  assert (Hk : 1 <= k <= 31) by lia.
  assert (Hw : wname e = firstn (Z.to_nat k) (de_runes e)) by reflexivity.
  exists (Z.to_nat k), (skipn (S (Z.to_nat k)) (de_runes e)).
  split; [lia|]. split; [pose proof (Z.div_mod (de_nlen e) 2); lia|]. split; [rewrite Hw, firstn_length; lia|].
  split; [apply nonul_of_forallb; [rewrite Hw; now apply forallb_firstn | assumption]|].
  split.
  - rewrite Hw. rewrite (nth_split_at (de_runes e) (Z.to_nat k) 1) at 1 by lia.
    f_equal. f_equal. lia.
  - split; [|exact Hl]. apply Forall_forall. intros u Hu. apply unit_ok_uok. rewrite forallb_forall in *. auto.
Qed.

Lemma sort_n_min a b : msi_sort_n a b = Z.min a b.
Proof. unfold msi_sort_n. destruct (b <? a) eqn:E; lia. Qed.

(* relic's closure is the canonical order *)
Lemma relic_lt_key a b : name_ok a = true -> name_ok b = true -> wname a <> wname b ->
  relic_lt a b = lex_lt (dkey a) (dkey b).
Proof.
  intros Ha Hb Hne.
  destruct (name_ok_split a Ha) as [ka [pa [Hka [Hna [Hla [Hnua [Hra [Hua Hlena]]]]]]]].
  destruct (name_ok_split b Hb) as [kb [pb [Hkb [Hnb [Hlb [Hnub [Hrb [Hub Hlenb]]]]]]]].
  unfold relic_lt, relic_less. change (zlen (de_runes a)) with (0 + zlen (de_runes a)).
  rewrite less_loop_ulex; [| lia | assumption | assumption | lia].
  rewrite sort_n_min. unfold dkey.
  set (m := Z.to_nat (Z.min (Z.min (de_nlen a) (de_nlen b)) (0 + zlen (de_runes a)) - 0)).
  rewrite Hra, Hrb. rewrite (ulex3_names (wname a) (wname b) pa pb m Hnua Hnub Hne).
  - destruct (lex_lt (map bkey (wname a)) (map bkey (wname b))); reflexivity.
  - unfold m, zlen. rewrite Hlena, Hla, Hlb. lia.
Qed.

(* the specification's memcmp is the canonical order too *)
Lemma lex_cmp_units la : forall lb, Forall uok la -> Forall uok lb -> lex_cmp (units_le la) (units_le lb) = ulex3 la lb.
Proof.
  induction la as [|x la IH]; intros [|y lb] Ha Hb; try reflexivity.
  inversion Ha as [|? ? Hx Ha']; inversion Hb as [|? ? Hy Hb']; subst.
  rewrite !units_le_cons. cbn [app lex_cmp ulex3]. unfold uok, bkey in *.
  rewrite (Z.mod_small (x / 256) 256) by lia. rewrite (Z.mod_small (y / 256) 256) by lia.
  destruct (x mod 256 <? y mod 256) eqn:E1.
  - replace (x mod 256 * 256 + x / 256 <? y mod 256 * 256 + y / 256) with true by lia. reflexivity.
  - destruct (y mod 256 <? x mod 256) eqn:E2.
    + replace (x mod 256 * 256 + x / 256 <? y mod 256 * 256 + y / 256) with false by lia.
      replace (y mod 256 * 256 + y / 256 <? x mod 256 * 256 + x / 256) with true by lia. reflexivity.
    + destruct (x / 256 <? y / 256) eqn:E3.
      * replace (x mod 256 * 256 + x / 256 <? y mod 256 * 256 + y / 256) with true by lia. reflexivity.
      * destruct (y / 256 <? x / 256) eqn:E4.
        -- replace (x mod 256 * 256 + x / 256 <? y mod 256 * 256 + y / 256) with false by lia.
           replace (y mod 256 * 256 + y / 256 <? x mod 256 * 256 + x / 256) with true by lia. reflexivity.
        -- replace (x mod 256 * 256 + x / 256 <? y mod 256 * 256 + y / 256) with false by lia.
           replace (y mod 256 * 256 + y / 256 <? x mod 256 * 256 + x / 256) with false by lia. apply IH; assumption.
Qed.
Lemma Forall_firstn {A} (P : A -> Prop) n (l : list A) : Forall P l -> Forall P (firstn n l).
Proof. revert n; induction l as [|x l IH]; intros [|n] H; cbn; auto. inversion H; subst. constructor; auto. Qed.
Lemma s_less_key a b : fields_ok a = true -> fields_ok b = true -> name_ok a = true -> name_ok b = true -> wname a <> wname b ->
  s_less (ser_dirent a) (ser_dirent b) = lex_lt (dkey a) (dkey b).
Proof.
  intros Fa Fb Ha Hb Hne.
  destruct (fields_ok_vals a Fa) as [Va _]. destruct (fields_ok_vals b Fb) as [Vb _].
  destruct (name_ok_split a Ha) as [ka [pa [Hka [Hna [Hla [Hnua [Hra [Hua Hlena]]]]]]]].
  destruct (name_ok_split b Hb) as [kb [pb [Hkb [Hnb [Hlb [Hnub [Hrb [Hub Hlenb]]]]]]]].
  unfold s_less. rewrite !s_nlen_ser, !s_namefield_ser by assumption.
  set (j := S (Nat.min ka kb)).
  replace (Z.min (de_nlen a) (de_nlen b)) with (2 * Z.of_nat j) by (unfold j; lia).
  rewrite !ztake_units_le. rewrite lex_cmp_units by (apply Forall_firstn; assumption).
  rewrite Hra, Hrb. rewrite (ulex3_names (wname a) (wname b) pa pb j Hnua Hnub Hne) by (unfold j; lia).
  unfold dkey. destruct (lex_lt (map bkey (wname a)) (map bkey (wname b))); reflexivity.
Qed.
(* C05: on well-formed distinct names relic orders as the specification does *)
Lemma less_eq_spec a b : fields_ok a = true -> fields_ok b = true -> name_ok a = true -> name_ok b = true -> wname a <> wname b ->
  relic_less a b = Ok (s_less (ser_dirent a) (ser_dirent b)).
Proof.
  intros Fa Fb Ha Hb Hne. rewrite (s_less_key a b) by assumption. rewrite <- (relic_lt_key a b) by assumption.
  unfold relic_lt. destruct (name_ok_split a Ha) as [_ [_ [_ [_ [_ [_ [_ [_ La]]]]]]]]. destruct (name_ok_split b Hb) as [_ [_ [_ [_ [_ [_ [_ [_ Lb]]]]]]]].
  unfold relic_less. change (zlen (de_runes a)) with (0 + zlen (de_runes a)).
  destruct (less_loop_ok (de_runes a) (de_runes b) 0 (msi_sort_n (de_nlen a) (de_nlen b)) (msi_sort_tiebreak (de_nlen a) (de_nlen b)) ltac:(lia)) as [r Hr].
  rewrite Hr. reflexivity.
Qed.
(* C11 *)
Lemma less_no_panic a b p : length (de_runes a) = length (de_runes b) -> relic_less a b <> Panic p.
Proof.
  intros Hl. unfold relic_less. change (zlen (de_runes a)) with (0 + zlen (de_runes a)).
  destruct (less_loop_ok (de_runes a) (de_runes b) 0 (msi_sort_n (de_nlen a) (de_nlen b)) (msi_sort_tiebreak (de_nlen a) (de_nlen b)) Hl) as [r Hr].
  rewrite Hr. discriminate.
Qed.
(* without the no-NUL condition the two comparisons differ: "a" against "a\0b" *)
Definition ex_ent (name : list Z) (nlen ty : Z) (uid : bytes) (flags ct mt size : Z) : dirent :=
  mkDe (name ++ zeros (32 - zlen name)) nlen ty 1 4294967295 4294967295 4294967295 uid flags ct mt 0 size 0.
Lemma less_embedded_nul_refuted :
  let a := ex_ent [97] 4 2 (zeros 16) 0 0 0 0 in let b := ex_ent [97; 0; 98] 8 2 (zeros 16) 0 0 0 0 in
  fields_ok a = true /\ fields_ok b = true /\ relic_less a b = Ok true /\ s_less (ser_dirent a) (ser_dirent b) = false.
Proof. vm_compute. repeat split. Qed.
