(* FmtMSI/Run.v — evaluation entry for the harness.
   entry  = [ [u0 .. u31] nlen type color left right sroot xUID flags ctime mtime next size pad ]
   tree   = [ entry xCONTENT [ tree* ] ]
   input  [0 tree]                      -> digest view (see view_of)
          [1 entryA entryB]             -> [ status less  spec_less  name_ok_a name_ok_b ]
          [2 [rune*]]                   -> [rune*]            msiDecodeName
          [3 entry]                     -> [ status xPRE  spec_ok xSPEC ]   prehashMsiDirent / the specification's entry metadata
          [4 tree xBLOB extended xHF]   -> [ status view ]    embed with Hf = constant xHF (the prehash digest computed outside)
          [5 tree]                      -> 1 iff decode (encode tree) re-encodes to the same code *)
From Relic Require Import Base.Prelude Base.Enc Base.Val Generated.FmtMSI_gen FmtMSI.Model.

Definition de_of (v : val) : dirent :=
  mkDe (map vz (vl (vnth 0 v))) (vz (vnth 1 v)) (vz (vnth 2 v)) (vz (vnth 3 v)) (vz (vnth 4 v)) (vz (vnth 5 v)) (vz (vnth 6 v))
       (vb (vnth 7 v)) (vz (vnth 8 v)) (vz (vnth 9 v)) (vz (vnth 10 v)) (vz (vnth 11 v)) (vz (vnth 12 v)) (vz (vnth 13 v)).
Fixpoint node_of (v : val) : node :=
  match v with
  | VL (en :: VB c :: VL ks :: _) => Node (de_of en) c (map node_of ks)
  | _ => Node (de_of (VL [])) [] []
  end.

Definition res_b (r : result bytes) : val :=
  match r with Ok b => VL [VZ 0; VB b] | Err e => VL [VZ e; VB []] | Panic p => VL [VZ p; VB []] end.
Definition res_ob (r : result (option bytes)) : val :=
  match r with Ok (Some b) => VL [VZ 0; VZ 1; VB b] | Ok None => VL [VZ 0; VZ 0; VB []] | Err e => VL [VZ e; VZ 0; VB []] | Panic p => VL [VZ p; VZ 0; VB []] end.
Definition opt_b (r : option bytes) : val := match r with Some b => VL [VZ 1; VB b] | None => VL [VZ 0; VB []] end.
Definition segs_v (s : list (bool * bytes)) : val := VL (map (fun x : bool * bytes => VL [of_bool (fst x); VB (snd x)]) s).

Definition view_of (t : node) : val :=
  VL [ VB (hash_node t);                                   (* 0 hashMsiDir of the root *)
       res_b (pre_node t);                                  (* 1 prehashMsiDir of the root *)
       VB (s_hash true (to_spec t));                        (* 2 specification: content part *)
       opt_b (s_pre true (to_spec t));                      (* 3 specification: metadata part *)
       VL [of_bool (wf_tree t); of_bool (tar_safe t); of_bool (sig_slots_free t)];   (* 4 *)
       match msi_to_tar t with                              (* 5 tar members: names and sizes; segments of the tar digest *)
       | Ok ms => VL [VZ 0; VL (map (fun m : list Z * bytes => VL [VZs (fst m); VZ (zlen (snd m))]) ms); segs_v (tar_segs false ms); segs_v (tar_segs true ms)]
       | Err e => VL [VZ e; VL []; VL []; VL []]
       | Panic p => VL [VZ p; VL []; VL []; VL []]
       end;
       res_ob (extract_t t);                                (* 6 *)
       res_ob (root_exsig t);                               (* 7 *)
       VL (map (fun b => VZ (zlen b)) (body_pieces t));      (* 8 lengths of the digest pieces *)
       VL (map (fun k => VZs (name_units (node_ent k))) (node_kids t))   (* 9 names of the root's children, in the order given *)
     ].

Definition run (v : val) : val :=
  let k := vz (vnth 0 v) in
  if k =? 0 then view_of (node_of (vnth 1 v))
  else if k =? 1 then
    let a := de_of (vnth 1 v) in let b := de_of (vnth 2 v) in
    VL [ match relic_less a b with Ok r => VL [VZ 0; of_bool r] | Err e => VL [VZ e; VZ 0] | Panic p => VL [VZ p; VZ 0] end;
         of_bool (s_less (ser_dirent a) (ser_dirent b)); of_bool (name_ok a); of_bool (name_ok b) ]
  else if k =? 2 then VZs (msi_decode_name (map vz (vl (vnth 1 v))))
  else if k =? 3 then
    let e := de_of (vnth 1 v) in VL [ res_b (pre_dirent e); opt_b (s_pre_entry (ser_dirent e)) ]
  else if k =? 4 then
    let t := node_of (vnth 1 v) in
    match embed_t (fun _ => vb (vnth 4 v)) (vbool (vnth 3 v)) t (vb (vnth 2 v)) with
    | Ok g => VL [VZ 0; view_of g]
    | Err e => VL [VZ e; VL [VZ (embed_writes (fun _ => vb (vnth 4 v)) (vbool (vnth 3 v)) t (vb (vnth 2 v)))]]
    | Panic p => VL [VZ p; VL []]
    end
  else
    let t := node_of (vnth 1 v) in
    match decode_tree (encode_tree t) with
    | Ok t' => of_bool (list_eqb Z.eqb (encode_tree t') (encode_tree t))
    | _ => VZ 0
    end.
