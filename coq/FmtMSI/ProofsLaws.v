(* FmtMSI/ProofsLaws.v — part 4: the digest as a list of pieces (C02), trees as byte strings, InsertMSISignature and the
   format laws, the tar route, witnesses. *)
From Relic Require Import Base.Prelude Base.Enc Generated.FmtMSI_gen FmtMSI.Model FmtMSI.Proofs FmtMSI.ProofsSer FmtMSI.ProofsTree Laws.Pipeline.
From Coq Require Import Permutation Sorted.

(* ================================================================== C02: the content part as pieces *)
Definition contrib_b (k : node) : list bytes :=
  if msi_hash_is_stream (de_type (node_ent k)) then [node_content k] else if msi_hash_is_storage (de_type (node_ent k)) then body_pieces k else [].
Lemma body_pieces_nf e c kids : body_pieces (Node e c kids) =
  cat_pieces (hash_skip (de_type e)) (isort rlt (map (fun k => (node_ent k, contrib_b k)) kids)) ++ [de_uid e].
Proof. reflexivity. Qed.
Lemma cat_items_concat skip (l : list (dirent * list bytes)) :
  cat_items skip (map (fun it => (fst it, concat (snd it))) l) = concat (cat_pieces skip l).
Proof.
  induction l as [|[e c] l IH]; [reflexivity|]. cbn [map fst snd cat_items cat_pieces].
  destruct (skip e); [exact IH|]. rewrite concat_app, IH. reflexivity.
Qed.
(* the byte string hashMsiDir feeds to the digest is the concatenation of the pieces *)
Theorem hash_is_concat_pieces : forall t, hash_node t = concat (body_pieces t).
Proof.
  apply node_ind'. intros e c kids IH. rewrite hash_node_nf, body_pieces_nf. rewrite concat_app. cbn [concat]. rewrite app_nil_r. f_equal.
  rewrite <- cat_items_concat. f_equal.
  rewrite (isort_map (fun it : dirent * list bytes => (fst it, concat (snd it))) rlt rlt) by reflexivity.
  f_equal. unfold items_h. rewrite map_map. apply map_ext_in. intros k Hk. cbn [fst snd]. f_equal.
  unfold contrib_h, contrib_b. destruct (msi_hash_is_stream _); [cbn [concat]; now rewrite app_nil_r|].
  destruct (msi_hash_is_storage _); [|reflexivity]. rewrite Forall_forall in IH. apply IH. exact Hk.
Qed.
Lemma app_inj_length {A} (x y a b : list A) : length x = length y -> x ++ a = y ++ b -> x = y /\ a = b.
Proof.
  revert y; induction x as [|h x IH]; intros [|g y] Hl H; cbn in *; try discriminate; [auto|].
  injection H as -> H. destruct (IH y ltac:(lia) H) as [-> ->]. auto.
Qed.
Lemma concat_inj_lengths {A} (xs : list (list A)) : forall ys, map (@length A) xs = map (@length A) ys -> concat xs = concat ys -> xs = ys.
Proof.
  induction xs as [|x xs IH]; intros [|y ys] Hl H; cbn in *; try discriminate; [reflexivity|].
  injection Hl as Hl1 Hl2. destruct (app_inj_length x y _ _ Hl1 H) as [-> H']. f_equal. apply IH; assumption.
Qed.
(* C02: two trees whose digested pieces have the same lengths (same stream sizes, same nesting) and the same digest input
   have the same stream contents and CLSIDs, piece by piece *)
Theorem protect_pieces t1 t2 : map (@length Z) (body_pieces t1) = map (@length Z) (body_pieces t2) ->
  hash_node t1 = hash_node t2 -> body_pieces t1 = body_pieces t2.
Proof. intros Hl H. rewrite !hash_is_concat_pieces in H. apply concat_inj_lengths; assumption. Qed.

(* one entry's metadata: given type and name length, the bytes determine name, CLSID / size, state bits and times *)
Lemma units_le_inj a : forall b, Forall uok a -> Forall uok b -> units_le a = units_le b -> a = b.
Proof.
  induction a as [|x a IH]; intros [|y b] Ha Hb H; try reflexivity; try (rewrite units_le_cons in H; cbn in H; discriminate).
  rewrite !units_le_cons in H. cbn [app] in H. inversion Ha as [|? ? Hx Ha']; inversion Hb as [|? ? Hy Hb']; subst. unfold uok in *.
  injection H as E1 E2 E3. rewrite (Z.mod_small (x / 256) 256) in E2 by lia. rewrite (Z.mod_small (y / 256) 256) in E2 by lia.
  f_equal; [pose proof (Z.div_mod x 256); pose proof (Z.div_mod y 256); lia | apply IH; assumption].
Qed.
Lemma le_enc_inj w x y : 0 <= x < 256 ^ Z.of_nat w -> 0 <= y < 256 ^ Z.of_nat w -> le_enc w x = le_enc w y -> x = y.
Proof. intros Hx Hy H. rewrite <- (le_dec_enc w x Hx), <- (le_dec_enc w y Hy). now rewrite H. Qed.
Theorem pre_fields_inj e1 e2 : fields_ok e1 = true -> fields_ok e2 = true -> name_ok e1 = true -> name_ok e2 = true ->
  de_type e1 = de_type e2 -> de_nlen e1 = de_nlen e2 -> pre_fields e1 = pre_fields e2 ->
  (de_type e1 <> 5 -> wname e1 = wname e2 /\ de_ctime e1 = de_ctime e2 /\ de_mtime e1 = de_mtime e2) /\
  (de_type e1 = 5 \/ de_type e1 = 1 -> de_uid e1 = de_uid e2) /\ (de_type e1 = 2 -> de_size e1 = de_size e2) /\ de_flags e1 = de_flags e2.
Proof.
  intros F1 F2 N1 N2 Et En H.
  assert (R1 : in_range 4 (de_flags e1) = true /\ in_range 8 (de_ctime e1) = true /\ in_range 8 (de_mtime e1) = true /\ in_range 4 (de_size e1) = true /\ zlen (de_uid e1) = 16).
  { unfold fields_ok in F1. repeat (apply andb_true_iff in F1 as [F1 ?]). repeat split; try assumption. lia. }
  assert (R2 : in_range 4 (de_flags e2) = true /\ in_range 8 (de_ctime e2) = true /\ in_range 8 (de_mtime e2) = true /\ in_range 4 (de_size e2) = true /\ zlen (de_uid e2) = 16).
  { unfold fields_ok in F2. repeat (apply andb_true_iff in F2 as [F2 ?]). repeat split; try assumption. lia. }
  destruct R1 as [A1 [B1 [C1 [D1 U1]]]]. destruct R2 as [A2 [B2 [C2 [D2 U2]]]]. unfold in_range in *.
  destruct (name_ok_split e1 N1) as [k1 [p1 [Hk1 [Hn1 [Hl1 _]]]]]. destruct (name_ok_split e2 N2) as [k2 [p2 [Hk2 [Hn2 [Hl2 _]]]]].
  assert (Ek : k1 = k2) by lia.
  assert (W : forall e k, de_nlen e = 2 * (Z.of_nat k + 1) -> ztake (de_nlen e - 2) (units_le (de_runes e)) = units_le (wname e)).
  { intros e k Hn. rewrite Hn. replace (2 * (Z.of_nat k + 1) - 2) with (2 * Z.of_nat k) by lia. rewrite ztake_units_le.
    unfold wname. rewrite Hn. replace (2 * (Z.of_nat k + 1) / 2 - 1) with (Z.of_nat k) by (rewrite Z.mul_comm, Z.div_mul; lia). now rewrite ztake_firstn. }
  unfold pre_fields in H. rewrite <- Et in H. rewrite (W e1 k1 Hn1), (W e2 k2 Hn2) in H.
  assert (LW : length (units_le (wname e1)) = length (units_le (wname e2))).
  { apply Nat2Z.inj. change (zlen (units_le (wname e1)) = zlen (units_le (wname e2))). rewrite !units_le_zlen. unfold zlen. rewrite Hl1, Hl2. lia. }
  assert (LU : length (de_uid e1) = length (de_uid e2)) by (unfold zlen in U1, U2; lia).
  destruct (de_type e1 =? 5) eqn:E5; cbn [negb orb] in H.
  - (* root: CLSID, state bits *)
    destruct (de_type e1 =? 2) eqn:E2; [lia|]. cbn [app] in H. rewrite !app_nil_r in H.
    apply app_inj_length in H as [Hu Hf]; [|exact LU]. apply le_enc_inj in Hf; [|lia|lia].
    repeat split; auto; lia.
  - apply app_inj_length in H as [Hw H]; [|exact LW].
    apply units_le_inj in Hw; [|now apply wname_uok|now apply wname_uok].
    destruct (de_type e1 =? 1) eqn:E1; destruct (de_type e1 =? 2) eqn:E2; try lia; cbn [app] in H.
    + apply app_inj_length in H as [Hu H]; [|exact LU]. apply app_inj_length in H as [Hf H]; [|now rewrite !le_enc_length].
      apply app_inj_length in H as [Hc Hm]; [|now rewrite !le_enc_length]. apply le_enc_inj in Hf, Hc, Hm; try lia.
      repeat split; auto; lia.
    + apply app_inj_length in H as [Hs H]; [|now rewrite !le_enc_length]. apply app_inj_length in H as [Hf H]; [|now rewrite !le_enc_length].
      apply app_inj_length in H as [Hc Hm]; [|now rewrite !le_enc_length]. apply le_enc_inj in Hs, Hf, Hc, Hm; try lia.
      repeat split; auto; lia.
    + apply app_inj_length in H as [Hf H]; [|now rewrite !le_enc_length].
      apply app_inj_length in H as [Hc Hm]; [|now rewrite !le_enc_length]. apply le_enc_inj in Hf, Hc, Hm; try lia.
      repeat split; auto; lia.
Qed.

(* ================================================================== trees as byte strings: decode (encode t) = t *)
Definition enc_forest (ts : list node) : list Z := concat (map enc_node ts) ++ [2].
Lemma enc_node_forest e c kids : enc_node (Node e c kids) = 1 :: enc_dirent e ++ zlen c :: c ++ enc_forest kids.
Proof. reflexivity. Qed.
Lemma enc_forest_cons t ts : enc_forest (t :: ts) = enc_node t ++ enc_forest ts.
Proof. unfold enc_forest. cbn [map concat]. now rewrite app_assoc. Qed.
Lemma dec_dirent_enc e rest : shape_okb e = true -> dec_dirent (enc_dirent e ++ rest) = Some (e, rest).
Proof.
  unfold shape_okb. intros H. apply andb_true_iff in H as [Hr Hu]. apply Z.eqb_eq in Hr, Hu.
  unfold dec_dirent, enc_dirent. destruct e as [r nl ty co le ri sr uid fl ct mt nx sz pd]. cbn [de_runes de_nlen de_type de_color de_left de_right de_sroot de_uid de_flags de_ctime de_mtime de_next de_size de_pad] in *.
  set (sc := [nl; ty; co; le; ri; sr; fl; ct; mt; nx; sz; pd]).
  assert (Hsc : zlen sc = 12) by reflexivity.
  assert (L : zlen ((r ++ sc ++ uid) ++ rest) >= 60) by (rewrite !zlen_app, Hr, Hu, Hsc; pose proof (zlen_nonneg rest); lia).
  replace (zlen ((r ++ sc ++ uid) ++ rest) <? 60) with false by lia.
  rewrite <- !app_assoc.
  assert (E1 : ztake 32 (r ++ sc ++ uid ++ rest) = r) by (rewrite ztake_app_l by lia; apply ztake_all; lia).
  assert (E2 : zslice 32 44 (r ++ sc ++ uid ++ rest) = sc).
  { rewrite zslice_app_skip by lia. rewrite Hr. change (32 - 32) with 0. change (44 - 32) with 12. apply zslice_app_here. reflexivity. }
  assert (E3 : zslice 44 60 (r ++ sc ++ uid ++ rest) = uid).
  { rewrite zslice_app_skip by lia. rewrite Hr. change (44 - 32) with 12. change (60 - 32) with 28.
    rewrite zslice_app_skip by lia. rewrite Hsc. change (12 - 12) with 0. change (28 - 12) with 16. apply zslice_app_here. lia. }
  assert (E4 : zdrop 60 (r ++ sc ++ uid ++ rest) = rest).
  { rewrite zdrop_app_r by lia. rewrite Hr. change (60 - 32) with 28. rewrite zdrop_app_r by lia. rewrite Hsc. change (28 - 12) with 16.
    rewrite zdrop_app_r by lia. rewrite Hu. change (16 - 16) with 0. apply zdrop_0. }
  rewrite E1, E2, E3, E4. reflexivity.
Qed.
Fixpoint nsize (t : node) : nat := match t with Node _ _ kids => S (fold_right (fun k a => (nsize k + a)%nat) 0%nat kids) end.
Definition fsize (ts : list node) : nat := fold_right (fun k a => (nsize k + a)%nat) 0%nat ts.
Lemma dec_forest_enc fuel : forall ts rest, (fsize ts < fuel)%nat -> forallb all_shape ts = true ->
  dec_forest fuel (enc_forest ts ++ rest) = Some (ts, rest).
Proof.
  induction fuel as [|f IH]; intros ts rest Hs Ha; [lia|].
  destruct ts as [|[e c kids] ts'].
  - reflexivity.
  - cbn [forallb all_shape] in Ha. apply andb_true_iff in Ha as [Ha Ha']. apply andb_true_iff in Ha as [He Hk].
    rewrite enc_forest_cons, enc_node_forest. cbn [fsize fold_right nsize] in Hs. fold (fsize kids) in Hs. fold (fsize ts') in Hs.
    cbn [app dec_forest]. rewrite <- !app_assoc. rewrite (dec_dirent_enc e _ He).
    cbn [app]. rewrite <- !app_assoc. pose proof (zlen_nonneg c) as Hc.
    replace ((zlen c <? 0) || (zlen (c ++ enc_forest kids ++ enc_forest ts' ++ rest) <? zlen c)) with false
      by (rewrite zlen_app; pose proof (zlen_nonneg (enc_forest kids ++ enc_forest ts' ++ rest)); lia).
    rewrite zdrop_app_r by lia. rewrite Z.sub_diag, zdrop_0. rewrite ztake_app_l by lia. rewrite ztake_all by lia.
    rewrite (IH kids (enc_forest ts' ++ rest)) by (try lia; assumption).
    rewrite (IH ts' rest) by (try lia; assumption). reflexivity.
Qed.
Lemma fsize_le_concat kids : Forall (fun t => (nsize t <= length (enc_node t))%nat) kids ->
  (fsize kids <= length (concat (map enc_node kids)))%nat.
Proof.
  induction 1 as [|k kids Hk Hf IH]; [cbn; lia|]. cbn [fsize fold_right map concat]. fold (fsize kids). rewrite app_length. lia.
Qed.
Lemma nsize_le_enc : forall t, (nsize t <= length (enc_node t))%nat.
Proof.
  apply node_ind'. intros e c kids IH. rewrite enc_node_forest. cbn [nsize]. fold (fsize kids).
  pose proof (fsize_le_concat kids IH) as G. unfold enc_forest. cbn [length]. rewrite !app_length. cbn [length]. rewrite !app_length. lia.
Qed.
Theorem decode_encode t : all_shape t = true -> decode_tree (encode_tree t) = Ok t.
Proof.
  intros Ha. unfold decode_tree, encode_tree.
  change (enc_node t ++ [2]) with (enc_node t ++ [2] ++ []). 
  assert (E : enc_node t ++ [2] ++ [] = enc_forest [t] ++ []) by (rewrite enc_forest_cons; unfold enc_forest; cbn [map concat app]; now rewrite <- app_assoc).
  rewrite E. rewrite dec_forest_enc; [reflexivity | | cbn [forallb]; now rewrite Ha].
  cbn [fsize fold_right]. rewrite app_nil_r, enc_forest_cons, app_length. pose proof (nsize_le_enc t). lia.
Qed.

(* ================================================================== InsertMSISignature on the tree *)
Definition is_slot (e : dirent) : bool := cfb_match msi_sig_fold e || cfb_match msi_sigex_fold e.
Definition notslot (k : node) : bool := negb (is_slot (node_ent k)).
Definition news (pkcs exsig : bytes) : list node :=
  (if msi_insert_has_ex (zlen exsig) then [new_stream msi_sigex_name exsig] else []) ++ [new_stream msi_sig_name pkcs].

Lemma delete_root_spec m kids : forall r, delete_root m kids = Ok r ->
  r = filter (fun k => negb (m (node_ent k))) kids /\ (forall k, In k kids -> m (node_ent k) = true -> de_type (node_ent k) = 2).
Proof.
  induction kids as [|k kids IH]; intros r H; cbn [delete_root] in H.
  - injection H as <-. split; [reflexivity | intros ? []].
  - cbn [filter]. destruct (m (node_ent k)) eqn:Em; cbn [negb].
    + change msi_DirStream with 2 in H. destruct (de_type (node_ent k) =? 2) eqn:Et; [|discriminate].
      destruct (IH r H) as [-> Hs]. split; [reflexivity|]. intros k' [<-|Hin] Hm; [lia | auto].
    + destruct (delete_root m kids) as [r'| |] eqn:Ed; cbn [bind] in H; try discriminate. injection H as <-.
      destruct (IH r' eq_refl) as [-> Hs]. split; [reflexivity|]. intros k' [<-|Hin] Hm; [congruence | auto].
Qed.
Lemma delete_root_ok m kids : (forall k, In k kids -> m (node_ent k) = true -> de_type (node_ent k) = 2) ->
  delete_root m kids = Ok (filter (fun k => negb (m (node_ent k))) kids).
Proof.
  induction kids as [|k kids IH]; intros H; [reflexivity|]. cbn [delete_root filter].
  destruct (m (node_ent k)) eqn:Em; cbn [negb].
  - change msi_DirStream with 2. rewrite (H k (or_introl eq_refl) Em). cbn. apply IH. intros k' Hin. apply H. now right.
  - rewrite IH by (intros k' Hin; apply H; now right). reflexivity.
Qed.
Lemma delete_root_err m kids e : delete_root m kids = Err e -> e = E_STORAGE /\ exists k, In k kids /\ m (node_ent k) = true /\ de_type (node_ent k) <> 2.
Proof.
  induction kids as [|k kids IH]; cbn [delete_root]; intros H; [discriminate|].
  destruct (m (node_ent k)) eqn:Em.
  - change msi_DirStream with 2 in H. destruct (de_type (node_ent k) =? 2) eqn:Et.
    + destruct (IH H) as [-> [k' [Hin Hk]]]. split; [reflexivity|]. exists k'. split; [now right | exact Hk].
    + injection H as <-. split; [reflexivity|]. exists k. split; [now left|]. split; [exact Em | lia].
  - destruct (delete_root m kids) as [r'| |] eqn:Ed; cbn [bind] in H; try discriminate. injection H as <-.
    destruct (IH eq_refl) as [-> [k' [Hin Hk]]]. split; [reflexivity|]. exists k'. split; [now right | exact Hk].
Qed.
Lemma delete_root_no_panic m kids p : delete_root m kids <> Panic p.
Proof.
  induction kids as [|k kids IH]; cbn [delete_root]; [discriminate|]. destruct (m (node_ent k)).
  - destruct (_ =? _); [exact IH | discriminate].
  - destruct (delete_root m kids); cbn [bind]; try discriminate. exact IH.
Qed.
Lemma filter_filter_and {A} (p q : A -> bool) l : filter p (filter q l) = filter (fun x => q x && p x) l.
Proof. induction l as [|x l IH]; [reflexivity|]. cbn [filter]. destruct (q x); cbn [filter andb]; [destruct (p x); now rewrite IH | exact IH]. Qed.
Lemma new_ex_not_sig x : cfb_match msi_sig_fold (node_ent (new_stream msi_sigex_name x)) = false.
Proof. reflexivity. Qed.
Lemma new_slot name x : name = msi_sig_name \/ name = msi_sigex_name -> is_slot (node_ent (new_stream name x)) = true.
Proof. intros [->| ->]; reflexivity. Qed.

(* what insert_sig does to the root's children *)
Lemma insert_body_spec e c kids pkcs exsig g : insert_body (Node e c kids) pkcs exsig = Ok g ->
  g = Node e c (filter notslot kids ++ news pkcs exsig) /\ (forall k, In k kids -> is_slot (node_ent k) = true -> de_type (node_ent k) = 2).
Proof.
  unfold insert_body, msi_insert_calls, news. intros H.
  assert (Hstep : forall k1, (if msi_insert_has_ex (zlen exsig) then add_file msi_sigex_fold msi_sigex_name exsig kids else delete_root (cfb_match msi_sigex_fold) kids) = Ok k1 ->
     k1 = filter (fun k => negb (cfb_match msi_sigex_fold (node_ent k))) kids ++ (if msi_insert_has_ex (zlen exsig) then [new_stream msi_sigex_name exsig] else [])
     /\ (forall k, In k kids -> cfb_match msi_sigex_fold (node_ent k) = true -> de_type (node_ent k) = 2)).
  { intros k1 H1. destruct (msi_insert_has_ex (zlen exsig)).
    - unfold add_file in H1. destruct (delete_root (cfb_match msi_sigex_fold) kids) as [r| |] eqn:Ed; cbn [bind] in H1; try discriminate.
      injection H1 as <-. destruct (delete_root_spec _ _ _ Ed) as [-> Hs]. auto.
    - destruct (delete_root_spec _ _ _ H1) as [-> Hs]. rewrite app_nil_r. auto. }
  cbn [do_call] in H. change (0 =? 0) with true in H. change (1 =? 0) with false in H. cbn [name_of alts_of] in H.
  change (if true then msi_sig_name else msi_sigex_name) with msi_sig_name in H.
  match type of H with (k1 <- ?X ;; _) = _ => destruct X as [k1| |] eqn:E1; cbn [bind] in H; try discriminate end.
  assert (E1' : (if msi_insert_has_ex (zlen exsig) then add_file msi_sigex_fold msi_sigex_name exsig kids else delete_root (cfb_match msi_sigex_fold) kids) = Ok k1).
  { destruct (msi_insert_has_ex (zlen exsig)); exact E1. }
  destruct (Hstep k1 E1') as [-> Hs1]. clear E1 E1' Hstep.
  unfold add_file in H. match type of H with (k2 <- (r <- ?X ;; _) ;; _) = _ => destruct X as [r| |] eqn:E2; cbn [bind] in H; try discriminate end.
  injection H as <-. destruct (delete_root_spec _ _ _ E2) as [-> Hs2]. split.
  - f_equal. rewrite filter_app, filter_filter_and, <- app_assoc. f_equal.
    + apply filter_ext. intros k. unfold notslot, is_slot. rewrite negb_orb. apply andb_comm.
    + f_equal. destruct (msi_insert_has_ex (zlen exsig)); [|reflexivity]. cbn [filter]. rewrite new_ex_not_sig. reflexivity.
  - intros k Hin Hk. unfold is_slot in Hk. apply orb_true_iff in Hk as [Hk|Hk]; [|now apply Hs1].
    destruct (cfb_match msi_sigex_fold (node_ent k)) eqn:Ex; [now apply Hs1|]. apply Hs2; [|exact Hk].
    apply in_or_app. left. apply filter_In. split; [exact Hin | now rewrite Ex].
Qed.
(* ... and when it succeeds *)
Lemma kids_lists_eq kids x : (forall k, In k x -> cfb_match msi_sig_fold (node_ent k) = false) ->
  filter (fun k => negb (cfb_match msi_sig_fold (node_ent k))) (filter (fun k => negb (cfb_match msi_sigex_fold (node_ent k))) kids ++ x) =
  filter notslot kids ++ x.
Proof.
  intros Hx. rewrite filter_app, filter_filter_and. f_equal.
  - apply filter_ext. intros k. unfold notslot, is_slot. rewrite negb_orb. apply andb_comm.
  - induction x as [|k x IH]; [reflexivity|]. cbn [filter]. rewrite (Hx k (or_introl eq_refl)). cbn [negb]. f_equal. apply IH. intros k' Hin. apply Hx. now right.
Qed.
Lemma insert_body_ok e c kids pkcs exsig : (forall k, In k kids -> is_slot (node_ent k) = true -> de_type (node_ent k) = 2) ->
  insert_body (Node e c kids) pkcs exsig = Ok (Node e c (filter notslot kids ++ news pkcs exsig)).
Proof.
  intros Hs. unfold insert_body, msi_insert_calls, news.
  assert (D1 : delete_root (cfb_match msi_sigex_fold) kids = Ok (filter (fun k => negb (cfb_match msi_sigex_fold (node_ent k))) kids)).
  { apply delete_root_ok. intros k Hin Hk. apply Hs; [exact Hin|]. unfold is_slot. rewrite Hk. apply orb_true_r. }
  assert (D2 : forall x, (forall k, In k x -> cfb_match msi_sig_fold (node_ent k) = false) ->
     delete_root (cfb_match msi_sig_fold) (filter (fun k => negb (cfb_match msi_sigex_fold (node_ent k))) kids ++ x) = Ok (filter notslot kids ++ x)).
  { intros x Hx. rewrite delete_root_ok; [now rewrite (kids_lists_eq kids x Hx)|].
    intros k Hin Hk. apply in_app_or in Hin as [Hin|Hin].
    - apply filter_In in Hin as [Hin _]. apply Hs; [exact Hin|]. unfold is_slot. now rewrite Hk.
    - rewrite (Hx k Hin) in Hk. discriminate. }
  destruct (msi_insert_has_ex (zlen exsig)); cbn [do_call]; change (0 =? 0) with true; change (1 =? 0) with false;
    change (alts_of 1) with msi_sigex_fold; change (name_of 1) with msi_sigex_name; change (alts_of 0) with msi_sig_fold; change (name_of 0) with msi_sig_name.
  - unfold add_file. rewrite D1. cbn [bind]. rewrite D2 by (intros k [<-|[]]; reflexivity). cbn [bind]. now rewrite <- app_assoc.
  - rewrite D1. cbn [bind]. unfold add_file. specialize (D2 [] ltac:(intros ? [])). rewrite app_nil_r in D2. rewrite D2. cbn [bind app]. rewrite app_nil_r. reflexivity.
Qed.
Lemma insert_body_err e c kids pkcs exsig err : insert_body (Node e c kids) pkcs exsig = Err err ->
  err = E_STORAGE /\ exists k, In k kids /\ is_slot (node_ent k) = true /\ de_type (node_ent k) <> 2.
Proof.
  intros H.
  destruct (forallb (fun k => negb (is_slot (node_ent k)) || (de_type (node_ent k) =? 2)) kids) eqn:Ef.
  - rewrite insert_body_ok in H; [discriminate|]. rewrite forallb_forall in Ef. intros k Hin Hk. specialize (Ef k Hin). rewrite Hk in Ef. cbn in Ef. lia.
  - assert (Hex : exists k, In k kids /\ is_slot (node_ent k) = true /\ de_type (node_ent k) <> 2).
    { clear H. induction kids as [|k kids IH]; cbn [forallb] in Ef; [discriminate|]. apply andb_false_iff in Ef as [Ef|Ef].
      - exists k. split; [now left|]. apply orb_false_iff in Ef as [E1 E2]. split; [now apply negb_false_iff in E1 | lia].
      - destruct (IH Ef) as [k' [Hin Hk]]. exists k'. split; [now right | exact Hk]. }
    split; [|exact Hex].
    (* the error can only come out of delete_root *)
    unfold insert_body, msi_insert_calls in H.
    destruct (msi_insert_has_ex (zlen exsig)); cbn [do_call] in H; change (0 =? 0) with true in H; change (1 =? 0) with false in H;
      change (alts_of 1) with msi_sigex_fold in H; change (name_of 1) with msi_sigex_name in H; change (alts_of 0) with msi_sig_fold in H; change (name_of 0) with msi_sig_name in H; unfold add_file in H.
    + destruct (delete_root (cfb_match msi_sigex_fold) kids) as [r| |] eqn:D; cbn [bind] in H; try discriminate.
      * match type of H with (k2 <- (r0 <- ?X ;; _) ;; _) = _ => destruct X as [r2| |] eqn:D2; cbn [bind] in H; try discriminate end.
        injection H as <-. apply delete_root_err in D2. apply D2.
      * injection H as <-. apply delete_root_err in D. apply D.
    + destruct (delete_root (cfb_match msi_sigex_fold) kids) as [r| |] eqn:D; cbn [bind] in H; try discriminate.
      * match type of H with (k2 <- (r0 <- ?X ;; _) ;; _) = _ => destruct X as [r2| |] eqn:D2; cbn [bind] in H; try discriminate end.
        injection H as <-. apply delete_root_err in D2. apply D2.
      * injection H as <-. apply delete_root_err in D. apply D.
Qed.

(* ================================================================== exclusion = replacement slot, on well-formed entries *)
Lemma units_match_length us : forall alts, units_match us alts = true -> length us = length alts.
Proof.
  induction us as [|u us IH]; intros [|a alts] H; cbn [units_match] in H; try discriminate; [reflexivity|].
  apply andb_true_iff in H as [_ H]. cbn [length]. f_equal. auto.
Qed.
Lemma cfb_match_units alts e : name_ok e = true -> cfb_match alts e = units_match (wname e) alts.
Proof.
  intros N. destruct (name_ok_split e N) as [k [pad [Hk [Hnl [Hlw _]]]]]. unfold cfb_match.
  destruct (de_nlen e =? 2 * (zlen alts + 1)) eqn:E.
  - cbn [andb]. f_equal. unfold wname. f_equal. rewrite Hnl in *. assert (zlen alts = Z.of_nat k) by lia.
    replace (2 * (Z.of_nat k + 1) / 2 - 1) with (Z.of_nat k) by (rewrite Z.mul_comm, Z.div_mul; lia). lia.
  - cbn [andb]. symmetry. apply not_true_iff_false. intros Hm. apply units_match_length in Hm. unfold zlen in E. lia.
Qed.
Lemma slot_is_sig e : name_ok e = true -> de_type e <> 0 -> is_slot e = go_is_sig (go_name e).
Proof.
  intros N T. unfold is_slot. rewrite !cfb_match_units by exact N. unfold go_name. rewrite (name_units_wname e N T).
  now rewrite (go_is_sig_units _ (wname_uok e N)).
Qed.
Lemma root_skip_slot k : wf_kid k = true -> hash_skip 5 (node_ent k) = (de_type (node_ent k) =? 2) && is_slot (node_ent k).
Proof.
  intros W. destruct (wf_kid_inv k W) as [_ [N [T _]]]. rewrite (slot_is_sig _ N) by lia. reflexivity.
Qed.
Lemma pre_skip_hash_skip pty e : pre_skip pty e = hash_skip pty e. Proof. reflexivity. Qed.
Lemma new_wf name x : name = msi_sig_name \/ name = msi_sigex_name -> small x = true -> wf_kid (new_stream name x) = true.
Proof.
  unfold small. intros Hn Hx. pose proof (zlen_nonneg x).
  assert (R : in_range 4 (zlen x) = true) by (unfold in_range; change (256 ^ 4) with 4294967296; lia).
  destruct Hn as [-> | ->]; unfold new_stream; cbn [wf_kid]; unfold fields_ok;
    cbn [de_runes de_nlen de_type de_color de_left de_right de_sroot de_uid de_flags de_ctime de_mtime de_next de_size de_pad];
    rewrite R, (Z.eqb_refl (zlen x)); reflexivity.
Qed.
Lemma new_skip name x : name = msi_sig_name \/ name = msi_sigex_name -> hash_skip 5 (node_ent (new_stream name x)) = true.
Proof. intros [->| ->]; reflexivity. Qed.
Lemma new_shape name x : name = msi_sig_name \/ name = msi_sigex_name -> all_shape (new_stream name x) = true.
Proof. intros [->| ->]; reflexivity. Qed.
Lemma news_in pkcs exsig k : In k (news pkcs exsig) -> exists name x, (name = msi_sig_name \/ name = msi_sigex_name) /\ k = new_stream name x /\ (x = pkcs \/ x = exsig).
Proof.
  unfold news. intros H. apply in_app_or in H as [H|H].
  - destruct (msi_insert_has_ex (zlen exsig)); [|destruct H]. destruct H as [<-|[]]. exists msi_sigex_name, exsig. auto.
  - destruct H as [<-|[]]. exists msi_sig_name, pkcs. auto.
Qed.

(* the check in front of InsertMSISignature: on well-formed children it fires exactly when a slot is taken by a non-stream *)
Lemma refused_early_iff kids : forallb wf_kid kids = true ->
  refused_early kids = existsb (fun k => negb (de_type (node_ent k) =? 2) && is_slot (node_ent k)) kids.
Proof.
  intros W. rewrite forallb_forall in W. unfold refused_early. change msi_insert_check_first with true. cbn [andb].
  induction kids as [|k kids IH]; [reflexivity|]. cbn [existsb]. rewrite IH by (intros k' Hin; apply W; now right). f_equal.
  destruct (wf_kid_inv k (W k (or_introl eq_refl))) as [_ [N [T _]]]. rewrite (slot_is_sig _ N) by lia. reflexivity.
Qed.
Lemma insert_sig_spec e c kids pkcs exsig g : insert_sig (Node e c kids) pkcs exsig = Ok g ->
  g = Node e c (filter notslot kids ++ news pkcs exsig) /\ (forall k, In k kids -> is_slot (node_ent k) = true -> de_type (node_ent k) = 2).
Proof. unfold insert_sig. cbn [node_kids]. destruct (refused_early kids); [discriminate|]. apply insert_body_spec. Qed.
Lemma insert_sig_ok e c kids pkcs exsig : forallb wf_kid kids = true -> (forall k, In k kids -> is_slot (node_ent k) = true -> de_type (node_ent k) = 2) ->
  insert_sig (Node e c kids) pkcs exsig = Ok (Node e c (filter notslot kids ++ news pkcs exsig)).
Proof.
  intros W Hs. unfold insert_sig. cbn [node_kids]. rewrite (refused_early_iff kids W).
  replace (existsb _ kids) with false; [now apply insert_body_ok|]. symmetry. apply not_true_iff_false. intros E.
  apply existsb_exists in E as [k [Hin Hk]]. apply andb_true_iff in Hk as [H1 H2]. rewrite (Hs k Hin H2) in H1. discriminate.
Qed.
(* a refusal comes from that check, before anything is written *)
Lemma insert_sig_err e c kids pkcs exsig err : forallb wf_kid kids = true -> insert_sig (Node e c kids) pkcs exsig = Err err ->
  err = E_STORAGE /\ (exists k, In k kids /\ is_slot (node_ent k) = true /\ de_type (node_ent k) <> 2) /\ insert_writes (Node e c kids) pkcs exsig = 0.
Proof.
  intros W H. unfold insert_sig, insert_writes in *. cbn [node_kids] in *. destruct (refused_early kids) eqn:R.
  - injection H as <-. split; [reflexivity|]. split; [|reflexivity]. rewrite (refused_early_iff kids W) in R.
    apply existsb_exists in R as [k [Hin Hk]]. apply andb_true_iff in Hk as [H1 H2]. exists k. split; [exact Hin|]. split; [exact H2 | lia].
  - exfalso. destruct (insert_body_err _ _ _ _ _ _ H) as [_ [k [Hin [Hk Ht]]]]. rewrite (refused_early_iff kids W) in R.
    assert (existsb (fun k => negb (de_type (node_ent k) =? 2) && is_slot (node_ent k)) kids = true); [|congruence].
    apply existsb_exists. exists k. split; [exact Hin|]. rewrite Hk. replace (de_type (node_ent k) =? 2) with false by lia. reflexivity.
Qed.

(* ================================================================== what survives the exclusion does not change *)
Definition nsk (k : node) : bool := negb (hash_skip 5 (node_ent k)).
Definition nsI {B} (it : dirent * B) : bool := negb (hash_skip 5 (fst it)).
Lemma filter_sub {A} (p q : A -> bool) l : (forall x, In x l -> p x = true -> q x = true) -> filter p (filter q l) = filter p l.
Proof.
  induction l as [|x l IH]; intros H; [reflexivity|]. cbn [filter]. destruct (q x) eqn:Eq; cbn [filter].
  - destruct (p x); rewrite IH; auto; intros y Hy; apply H; now right.
  - destruct (p x) eqn:Ep; [rewrite (H x (or_introl eq_refl) Ep) in Eq; discriminate|]. apply IH. intros y Hy. apply H. now right.
Qed.
Lemma kept_same kids pkcs exsig : forallb wf_kid kids = true -> (forall k, In k kids -> is_slot (node_ent k) = true -> de_type (node_ent k) = 2) ->
  filter nsk (filter notslot kids ++ news pkcs exsig) = filter nsk kids.
Proof.
  intros W Hs. rewrite forallb_forall in W. rewrite filter_app.
  assert (N : filter nsk (news pkcs exsig) = []).
  { assert (G : forall l, (forall k, In k l -> nsk k = false) -> filter nsk l = []).
    { induction l as [|k l IH]; intros Hk; [reflexivity|]. cbn [filter]. rewrite (Hk k (or_introl eq_refl)). apply IH. intros k' Hin. apply Hk. now right. }
    apply G. intros k Hin. destruct (news_in _ _ _ Hin) as [name [x [Hn [-> _]]]]. unfold nsk. now rewrite (new_skip name x Hn). }
  rewrite N, app_nil_r. apply filter_sub. intros k Hin Hk. unfold nsk in Hk. rewrite (root_skip_slot k (W k Hin)) in Hk. unfold notslot.
  destruct (is_slot (node_ent k)) eqn:E; [|reflexivity]. rewrite (Hs k Hin E) in Hk. discriminate.
Qed.
Lemma filter_map_comm {A B} (f : A -> B) (p : B -> bool) l : filter p (map f l) = map f (filter (fun x => p (f x)) l).
Proof. induction l as [|x l IH]; [reflexivity|]. cbn [map filter]. destruct (p (f x)); cbn [map]; now rewrite IH. Qed.
Lemma NoDup_distinct l : NoDup l -> distinct_names l = true.
Proof.
  induction 1 as [|n r Hn Hd IH]; [reflexivity|]. cbn [distinct_names]. rewrite IH, andb_true_r. apply negb_true_iff. apply not_true_iff_false.
  intros E. apply existsb_exists in E as [m [Hm Em]]. apply list_eqb_Z_eq in Em. subst m. contradiction.
Qed.
(* the sorted, filtered items depend only on the children that survive the exclusion *)
Lemma sorted_filter_dep {B} (C : node -> B) kids1 kids2 : kids_ok kids1 -> kids_ok kids2 -> filter nsk kids1 = filter nsk kids2 ->
  filter nsI (isort rlt (map (fun k => (node_ent k, C k)) kids1)) = filter nsI (isort rlt (map (fun k => (node_ent k, C k)) kids2)).
Proof.
  intros O1 O2 E.
  assert (G : forall kids, kids_ok kids -> filter nsI (isort rlt (map (fun k => (node_ent k, C k)) kids)) = isort (klt ikey) (map (fun k => (node_ent k, C k)) (filter nsk kids))).
  { intros kids O. pose proof (kids_items_ok C kids O) as Io. rewrite (isort_rlt_klt _ Io). rewrite sort_filter by apply Io.
    f_equal. rewrite filter_map_comm. reflexivity. }
  rewrite (G kids1 O1), (G kids2 O2), E. reflexivity.
Qed.
Lemma cat_items_filter skip (l : list (dirent * bytes)) : cat_items skip l = cat_items (fun _ => false) (filter (fun it => negb (skip (fst it))) l).
Proof. induction l as [|[e c] l IH]; [reflexivity|]. cbn [cat_items filter fst]. destruct (skip e); cbn [negb cat_items]; now rewrite IH. Qed.
Lemma cat_items_r_filter skip (l : list (dirent * result bytes)) : cat_items_r skip l = cat_items_r (fun _ => false) (filter (fun it => negb (skip (fst it))) l).
Proof. induction l as [|[e c] l IH]; [reflexivity|]. cbn [cat_items_r filter fst]. destruct (skip e); cbn [negb cat_items_r]; now rewrite IH. Qed.

Lemma NoDup_app_intro {A} (a b : list A) : NoDup a -> NoDup b -> (forall x, In x a -> In x b -> False) -> NoDup (a ++ b).
Proof.
  induction a as [|x a IH]; intros Ha Hb Hd; [exact Hb|]. cbn [app]. inversion Ha as [|? ? Hn Ha']; subst. constructor.
  - intros Hin. apply in_app_or in Hin as [Hin|Hin]; [contradiction | apply (Hd x); [now left | exact Hin]].
  - apply IH; auto. intros y Hy. apply Hd. now right.
Qed.
(* the well-formedness of the signed tree *)
Lemma signed_kids_ok kids pkcs exsig : kids_ok kids -> small pkcs = true -> small exsig = true -> kids_ok (filter notslot kids ++ news pkcs exsig).
Proof.
  intros [Hd Hw] Sp Sx. pose proof Hw as Hw'. rewrite forallb_forall in Hw'. split.
  - apply NoDup_distinct. unfold kid_names. rewrite map_app. apply distinct_names_NoDup in Hd. unfold kid_names in Hd.
    assert (Hk : NoDup (map (fun k => name_units (node_ent k)) (filter notslot kids))) by (apply (NoDup_map_filter (fun k => name_units (node_ent k))); exact Hd).
    assert (Hkeep : forall n, (n = msi_sig_name \/ n = msi_sigex_name) -> ~ In n (map (fun k => name_units (node_ent k)) (filter notslot kids))).
    { intros n Hn Hin. apply in_map_iff in Hin as [k [Ek Hin]]. apply filter_In in Hin as [Hin Hns]. unfold notslot in Hns. apply negb_true_iff in Hns.
      destruct (wf_kid_inv k (Hw' k Hin)) as [_ [N [T _]]]. unfold is_slot in Hns. rewrite !cfb_match_units in Hns by exact N.
      rewrite <- (name_units_wname _ N) in Hns by lia. rewrite Ek in Hns. destruct Hn as [-> | ->]; vm_compute in Hns; discriminate. }
    unfold news. destruct (msi_insert_has_ex (zlen exsig)); cbn [app map].
    + apply NoDup_app_intro; [exact Hk | | ].
      * constructor; [intros [E|[]]; vm_compute in E; discriminate | constructor; [intros [] | constructor]].
      * intros n Hin [<-|[<-|[]]]; [apply (Hkeep _ (or_intror eq_refl) Hin) | apply (Hkeep _ (or_introl eq_refl) Hin)].
    + apply NoDup_app_intro; [exact Hk | constructor; [intros [] | constructor] |].
      intros n Hin [<-|[]]. apply (Hkeep _ (or_introl eq_refl) Hin).
  - rewrite forallb_app. apply andb_true_iff. split.
    + apply forallb_forall. intros k Hin. apply filter_In in Hin as [Hin _]. auto.
    + apply forallb_forall. intros k Hin. destruct (news_in _ _ _ Hin) as [name [x [Hn [-> [-> | ->]]]]]; apply new_wf; auto.
Qed.

(* ================================================================== the laws on trees *)
Lemma cat_items_r_ok skip (l : list (dirent * result bytes)) : (forall it, In it l -> exists b, snd it = Ok b) -> exists b, cat_items_r skip l = Ok b.
Proof.
  induction l as [|[e c] l IH]; intros H; [now exists []|]. cbn [cat_items_r].
  destruct (IH (fun it Hin => H it (or_intror Hin))) as [y Hy]. destruct (skip e); [eauto|].
  destruct (H (e, c) (or_introl eq_refl)) as [x Hx]. cbn [snd] in Hx. rewrite Hx, Hy. cbn [bind]. eauto.
Qed.
Lemma name_ok_goodlen e : name_ok e = true -> msi_pre_badlen (de_type e) (de_nlen e) = false.
Proof. intros N. destruct (name_ok_split e N) as [k [_ [Hk [Hn _]]]]. unfold msi_pre_badlen. lia. Qed.
Lemma pre_node_ok : forall t, fields_ok (node_ent t) = true -> (de_type (node_ent t) = 5 \/ name_ok (node_ent t) = true) -> kids_ok (node_kids t) ->
  exists x, pre_node t = Ok x.
Proof.
  intros t. induction t as [e c kids IH] using node_ind'. intros F T O. cbn [node_ent node_kids] in *.
  assert (S : shape_ok e) by (apply fields_ok_vals in F; apply F).
  assert (B : msi_pre_badlen (de_type e) (de_nlen e) = false) by (destruct T as [T|T]; [unfold msi_pre_badlen; rewrite T; reflexivity | now apply name_ok_goodlen]).
  assert (Hw : forall k, In k kids -> wf_kid k = true) by (destruct O as [_ Hw]; rewrite forallb_forall in Hw; exact Hw).
  destruct (cat_items_r_ok (pre_skip (de_type e)) (isort rlt (items_p kids))) as [b Hb].
  - intros it Hin. apply in_isort in Hin. apply in_map_iff in Hin as [k [<- Hk]]. cbn [snd]. unfold contrib_p.
    destruct (wf_kid_inv k (Hw k Hk)) as [Fk [Nk [Tk [_ Kk]]]].
    change (msi_pre_is_stream (de_type (node_ent k))) with (de_type (node_ent k) =? 2).
    change (msi_pre_is_storage (de_type (node_ent k))) with (de_type (node_ent k) =? 1).
    destruct Tk as [Tk|Tk]; rewrite Tk; cbn [Z.eqb Pos.eqb].
    + assert (Sk : shape_ok (node_ent k)) by (apply fields_ok_vals in Fk; apply Fk). rewrite (pre_dirent_fields _ Sk (name_ok_goodlen _ Nk)). eauto.
    + rewrite Forall_forall in IH. apply (IH k Hk Fk (or_intror Nk) (Kk Tk)).
  - exists (pre_fields e ++ b). rewrite pre_node_nf, (pre_dirent_fields e S B). cbn [bind]. rewrite Hb. reflexivity.
Qed.
Lemma wf_tree_inv t : wf_tree t = true -> fields_ok (node_ent t) = true /\ de_type (node_ent t) = 5 /\ kids_ok (node_kids t).
Proof.
  destruct t as [e c kids]. cbn [wf_tree node_ent node_kids]. change msi_DirRoot with 5. intros H.
  apply andb_true_iff in H as [H H0]. apply andb_true_iff in H as [H H1]. apply andb_true_iff in H as [H H2].
  split; [exact H|]. split; [lia|]. split; assumption.
Qed.
Lemma wf_tree_intro e c kids : fields_ok e = true -> de_type e = 5 -> kids_ok kids -> wf_tree (Node e c kids) = true.
Proof. intros F T [O1 O2]. cbn [wf_tree]. change msi_DirRoot with 5. rewrite F, O1, O2, T. reflexivity. Qed.

Section TreeLaws.
  Variable Hf : bytes -> bytes.
  Definition exsig_of (extended : bool) (t : node) : bytes :=
    if extended then match pre_node t with Ok ex => Hf ex | _ => [] end else [].
  Definition signed_tree (extended : bool) (t : node) (blob : bytes) : node :=
    match t with Node e c kids => Node e c (filter notslot kids ++ news blob (exsig_of extended t)) end.
  Lemma embed_insert ext t blob : wf_tree t = true -> embed_t Hf ext t blob = insert_sig t blob (exsig_of ext t).
  Proof.
    intros W. destruct (wf_tree_inv t W) as [F [T O]]. destruct (pre_node_ok t F (or_introl T) O) as [ex Hex].
    unfold embed_t, exsig_of. destruct ext; [|reflexivity]. rewrite Hex. reflexivity.
  Qed.
  (* embed succeeds exactly when the two slots are not occupied by storages, and then yields signed_tree *)
  Lemma embed_ok ext t blob g : wf_tree t = true -> embed_t Hf ext t blob = Ok g ->
    g = signed_tree ext t blob /\ (forall k, In k (node_kids t) -> is_slot (node_ent k) = true -> de_type (node_ent k) = 2).
  Proof. intros W H. rewrite (embed_insert ext t blob W) in H. destruct t as [e c kids]. apply insert_sig_spec in H. exact H. Qed.
  Lemma embed_writes_insert ext t blob : wf_tree t = true -> embed_writes Hf ext t blob = insert_writes t blob (exsig_of ext t).
  Proof.
    intros W. destruct (wf_tree_inv t W) as [F [T O]]. destruct (pre_node_ok t F (or_introl T) O) as [ex Hex].
    unfold embed_writes, exsig_of. destruct ext; [|reflexivity]. rewrite Hex. reflexivity.
  Qed.

  Lemma signed_facts ext t blob : wf_tree t = true -> small blob = true -> small (exsig_of ext t) = true ->
    (forall k, In k (node_kids t) -> is_slot (node_ent k) = true -> de_type (node_ent k) = 2) ->
    let g := signed_tree ext t blob in
    wf_tree g = true /\ hash_node g = hash_node t /\ pre_node g = pre_node t /\ (all_shape t = true -> all_shape g = true) /\
    s_payload true (to_spec g) = s_payload true (to_spec t).
  Proof.
    intros W Sb Sx Hs. destruct t as [e c kids]. destruct (wf_tree_inv _ W) as [F [T O]]. cbn [node_ent node_kids] in *.
    cbn zeta. unfold signed_tree. set (x := exsig_of ext (Node e c kids)) in *. set (gk := filter notslot kids ++ news blob x).
    assert (Og : kids_ok gk) by (apply signed_kids_ok; assumption).
    assert (Ek : filter nsk gk = filter nsk kids) by (apply kept_same; [apply O | exact Hs]).
    split; [apply wf_tree_intro; assumption|]. split; [|split; [|split]].
    - rewrite !hash_node_nf. rewrite T. f_equal. rewrite (cat_items_filter _ (isort rlt (items_h gk))), (cat_items_filter _ (isort rlt (items_h kids))).
      f_equal. apply (sorted_filter_dep contrib_h gk kids Og O Ek).
    - rewrite !pre_node_nf. rewrite T. rewrite (cat_items_r_filter _ (isort rlt (items_p gk))), (cat_items_r_filter _ (isort rlt (items_p kids))).
      change (fun it : dirent * result bytes => negb (pre_skip 5 (fst it))) with (@nsI (result bytes)).
      unfold items_p. rewrite (sorted_filter_dep contrib_p gk kids Og O Ek). reflexivity.
    - cbn [all_shape]. intros Ha. apply andb_true_iff in Ha as [Ha1 Ha2]. rewrite Ha1. cbn [andb]. unfold gk. rewrite forallb_app. apply andb_true_iff. split.
      + apply forallb_forall. intros k Hin. apply filter_In in Hin as [Hin _]. rewrite forallb_forall in Ha2. auto.
      + apply forallb_forall. intros k Hin. destruct (news_in _ _ _ Hin) as [name [y [Hn [-> _]]]]. now apply new_shape.
    - (* payload: the children that are not signature streams, in the canonical order *)
      cbn [to_spec s_payload]. f_equal.
      assert (G : forall ks, kids_ok ks ->
        map snd (filter (fun it : bytes * pnode => negb (true && s_is_sig (fst it))) (s_sort (map (fun k => (s_entry k, s_payload false k)) (map to_spec ks)))) =
        map snd (filter nsI (isort rlt (map (fun k => (node_ent k, s_payload false (to_spec k))) ks)))).
      { intros ks Ok. pose proof Ok as [_ Wk]. rewrite forallb_forall in Wk.
        assert (E1 : map (fun k => (s_entry k, s_payload false k)) (map to_spec ks) = map tos (map (fun k => (node_ent k, s_payload false (to_spec k))) ks)).
        { rewrite !map_map. apply map_ext. intros [? ? ?]. reflexivity. }
        rewrite E1. unfold s_sort. change (fun a b : bytes * pnode => s_less (fst a) (fst b)) with (@slt pnode).
        rewrite <- map_tos_isort.
        2:{ apply kids_items_ok. exact Ok. }
        2:{ intros it Hin. apply in_map_iff in Hin as [k [<- Hk]]. cbn [fst]. apply (wf_kid_inv k (Wk k Hk)). }
        rewrite filter_map_comm, map_map. cbn [tos snd].
        f_equal. apply filter_ext_in. intros it Hin. apply in_isort in Hin. apply in_map_iff in Hin as [k [<- Hk]]. cbn [tos fst]. unfold nsI. cbn [fst]. f_equal. cbn [andb].
        destruct (wf_kid_inv k (Wk k Hk)) as [Fk [Nk [Tk _]]]. rewrite (skip_is_spec _ Fk Nk) by lia. reflexivity. }
      rewrite (G gk Og), (G kids O). f_equal. apply (sorted_filter_dep (fun k => s_payload false (to_spec k)) gk kids Og O Ek).
  Qed.
End TreeLaws.

(* ================================================================== what the verifier finds in a signed tree *)
Lemma find_stream_skip is l : forall r acc, (forall k, In k l -> de_type (node_ent k) <> 2 \/ is (go_name (node_ent k)) = false) -> find_stream is (l ++ r) acc = find_stream is r acc.
Proof.
  induction l as [|k l IH]; intros r acc H; [reflexivity|]. cbn [app find_stream]. change msi_verify_nonstream_first with true. unfold msi_verify_skip_nonstream. cbn [andb].
  rewrite IH by (intros k' Hin; apply H; now right).
  destruct (H k (or_introl eq_refl)) as [Ht|Hi]; [replace (de_type (node_ent k) =? 2) with false by lia; reflexivity|].
  rewrite Hi. destruct (negb (de_type (node_ent k) =? 2)); reflexivity.
Qed.
Lemma kept_not_sig kids k : forallb wf_kid kids = true -> In k (filter notslot kids) ->
  v_is_sig (go_name (node_ent k)) = false /\ v_is_sigex (go_name (node_ent k)) = false.
Proof.
  intros W Hin. apply filter_In in Hin as [Hin Hns]. rewrite forallb_forall in W. destruct (wf_kid_inv k (W k Hin)) as [_ [N [T _]]].
  unfold notslot in Hns. apply negb_true_iff in Hns. unfold is_slot in Hns. apply orb_false_iff in Hns as [H1 H2].
  rewrite cfb_match_units in H1, H2 by exact N.
  assert (E : forall alts, alts_plain alts -> same_name alts (go_name (node_ent k)) = units_match (wname (node_ent k)) alts).
  { intros alts Hp. unfold same_name, go_name. rewrite (name_units_wname _ N) by lia. apply (utf16_roundtrip_match (length (wname (node_ent k)))); auto using wname_uok. }
  destruct sig_fold_plain as [P1 P2]. split.
  - unfold v_is_sig, msi_verify_is_sig. rewrite (E _ P1). exact H1.
  - unfold v_is_sigex, msi_verify_is_sigex. rewrite (E _ P2), H2. apply andb_false_r.
Qed.
Section TreeLaws2.
  Variable Hf : bytes -> bytes.
  Lemma signed_extract ext t blob : wf_tree t = true -> zlen blob <> 0 ->
    extract_t (signed_tree Hf ext t blob) = Ok (Some blob) /\
    root_exsig (signed_tree Hf ext t blob) = Ok (if msi_insert_has_ex (zlen (exsig_of Hf ext t)) then Some (exsig_of Hf ext t) else None).
  Proof.
    intros W Hb. destruct t as [e c kids]. destruct (wf_tree_inv _ W) as [_ [_ [_ Wk]]]. cbn [node_kids] in Wk.
    unfold signed_tree. set (x := exsig_of Hf ext (Node e c kids)).
    assert (R1 : root_sig (Node e c (filter notslot kids ++ news blob x)) = Ok (Some blob)).
    { unfold root_sig. cbn [node_kids]. rewrite find_stream_skip by (intros k Hin; right; apply (kept_not_sig kids k Wk Hin)).
      unfold news. destruct (msi_insert_has_ex (zlen x)); reflexivity. }
    assert (R2 : root_exsig (Node e c (filter notslot kids ++ news blob x)) = Ok (if msi_insert_has_ex (zlen x) then Some x else None)).
    { unfold root_exsig. cbn [node_kids]. rewrite find_stream_skip by (intros k Hin; right; apply (kept_not_sig kids k Wk Hin)).
      unfold news. destruct (msi_insert_has_ex (zlen x)); reflexivity. }
    split; [|exact R2]. unfold extract_t. rewrite R1, R2. cbn [bind]. unfold msi_verify_unsigned. replace (zlen blob =? 0) with false by lia. reflexivity.
  Qed.
  (* the verifier picks the digest mode the signer used, and its comparison of MsiDigitalSignatureEx succeeds *)
  Lemma signed_verify_mode ext t blob : wf_tree t = true -> small blob = true -> exsig_ok Hf ext t = true ->
    (forall k, In k (node_kids t) -> is_slot (node_ent k) = true -> de_type (node_ent k) = 2) ->
    verify_pre Hf (signed_tree Hf ext t blob) = digest_pre Hf ext (signed_tree Hf ext t blob).
  Proof.
    intros W Sb Ex Hs. destruct (wf_tree_inv t W) as [F [T O]]. destruct (pre_node_ok t F (or_introl T) O) as [ex Hex].
    assert (Sx : small (exsig_of Hf ext t) = true).
    { unfold exsig_of, exsig_ok in *. destruct ext; [|reflexivity]. rewrite Hex in *. apply andb_true_iff in Ex. apply Ex. }
    destruct (signed_facts Hf ext t blob W Sb Sx Hs) as [_ [_ [Hp _]]].
    unfold verify_pre. 
    assert (R2 : root_exsig (signed_tree Hf ext t blob) = Ok (if msi_insert_has_ex (zlen (exsig_of Hf ext t)) then Some (exsig_of Hf ext t) else None)).
    { destruct t as [e c kids]. destruct (wf_tree_inv _ W) as [_ [_ [_ Wk]]]. cbn [node_kids] in Wk. unfold signed_tree. set (x := exsig_of Hf ext (Node e c kids)).
      unfold root_exsig. cbn [node_kids]. rewrite find_stream_skip by (intros k Hin; right; apply (kept_not_sig kids k Wk Hin)).
      unfold news. destruct (msi_insert_has_ex (zlen x)); reflexivity. }
    rewrite R2. cbn [bind]. unfold exsig_of, exsig_ok in *. destruct ext.
    - rewrite Hex in *. apply andb_true_iff in Ex as [Ex1 _]. unfold msi_insert_has_ex. pose proof (zlen_nonneg (Hf ex)).
      replace (zlen (Hf ex) >? 0) with true by lia. rewrite Hp. cbn [bind].
      replace (bytes_eqb (Hf ex) (Hf ex)) with true by (symmetry; apply list_eqb_Z_eq; reflexivity). reflexivity.
    - reflexivity.
  Qed.
End TreeLaws2.

(* ================================================================== the format of Laws/Pipeline.v *)
Definition msi_format (Hf : bytes -> bytes) (ext : bool) : format pnode :=
  mkFormat pnode (msi_hashin Hf ext) (msi_embed Hf ext) msi_extract msi_payload.
Section FormatLaws.
  Variable Hf : bytes -> bytes.
  Variable ext : bool.
  Lemma msi_embed_inv f b g : msi_embed Hf ext f b = Ok g -> exists t,
    decode_tree f = Ok t /\ wf_tree t = true /\ all_shape t = true /\ zlen b <> 0 /\ small b = true /\ exsig_ok Hf ext t = true /\
    (forall k, In k (node_kids t) -> is_slot (node_ent k) = true -> de_type (node_ent k) = 2) /\ g = encode_tree (signed_tree Hf ext t b).
  Proof.
    unfold msi_embed. destruct (decode_tree f) as [t| |] eqn:D; cbn [bind]; try discriminate.
    destruct (msi_dom t && negb (zlen b =? 0) && small b && exsig_ok Hf ext t) eqn:C; [|discriminate].
    apply andb_true_iff in C as [C C4]. apply andb_true_iff in C as [C C3]. apply andb_true_iff in C as [C1 C2].
    unfold msi_dom in C1. apply andb_true_iff in C1 as [W A].
    destruct (embed_t Hf ext t b) as [g'| |] eqn:E; cbn [bind]; try discriminate. intros H. injection H as <-.
    destruct (embed_ok Hf ext t b g' W E) as [-> Hs]. exists t. repeat split; auto. lia.
  Qed.
  Lemma small_exsig t : wf_tree t = true -> exsig_ok Hf ext t = true -> small (exsig_of Hf ext t) = true.
  Proof.
    intros W Ex. destruct (wf_tree_inv t W) as [F [T O]]. destruct (pre_node_ok t F (or_introl T) O) as [ex Hex].
    unfold exsig_of, exsig_ok in *. destruct ext; [|reflexivity]. rewrite Hex in *. apply andb_true_iff in Ex. apply Ex.
  Qed.
  Lemma signed_dom t b : wf_tree t = true -> all_shape t = true -> small b = true -> exsig_ok Hf ext t = true ->
    (forall k, In k (node_kids t) -> is_slot (node_ent k) = true -> de_type (node_ent k) = 2) ->
    decode_tree (encode_tree (signed_tree Hf ext t b)) = Ok (signed_tree Hf ext t b) /\ msi_dom (signed_tree Hf ext t b) = true.
  Proof.
    intros W A Sb Ex Hs. destruct (signed_facts Hf ext t b W Sb (small_exsig t W Ex) Hs) as [Wg [_ [_ [Ag _]]]].
    split; [apply decode_encode; auto | unfold msi_dom; rewrite Wg, (Ag A); reflexivity].
  Qed.
  Theorem msi_law_extract : law_extract pnode (msi_format Hf ext).
  Proof.
    unfold law_extract, msi_format. cbn [f_embed f_extract]. intros f b g H.
    destruct (msi_embed_inv f b g H) as [t [D [W [A [Nb [Sb [Ex [Hs ->]]]]]]]].
    destruct (signed_dom t b W A Sb Ex Hs) as [Dg Mg]. unfold msi_extract. rewrite Dg. cbn [bind]. rewrite Mg.
    apply (signed_extract Hf ext t b W Nb).
  Qed.
  Theorem msi_law_hashin : law_hashin pnode (msi_format Hf ext).
  Proof.
    unfold law_hashin, msi_format. cbn [f_embed f_hashin]. intros f b g H.
    destruct (msi_embed_inv f b g H) as [t [D [W [A [Nb [Sb [Ex [Hs ->]]]]]]]].
    destruct (signed_dom t b W A Sb Ex Hs) as [Dg Mg]. unfold msi_hashin. rewrite Dg, D. cbn [bind]. rewrite Mg. unfold msi_dom. rewrite W, A. cbn [andb].
    destruct (signed_facts Hf ext t b W Sb (small_exsig t W Ex) Hs) as [_ [Hh [Hp _]]].
    unfold digest_pre, digest_segs. rewrite Hh, Hp. reflexivity.
  Qed.
  Theorem msi_law_payload : law_payload pnode (msi_format Hf ext).
  Proof.
    unfold law_payload, msi_format. cbn [f_embed f_payload]. intros f b g H.
    destruct (msi_embed_inv f b g H) as [t [D [W [A [Nb [Sb [Ex [Hs ->]]]]]]]].
    destruct (signed_dom t b W A Sb Ex Hs) as [Dg Mg]. unfold msi_payload. rewrite Dg, D. cbn [bind]. rewrite Mg. unfold msi_dom. rewrite W, A. cbn [andb].
    destruct (signed_facts Hf ext t b W Sb (small_exsig t W Ex) Hs) as [_ [_ [_ [_ Hpl]]]]. now rewrite Hpl.
  Qed.
  (* the real verifier (mode chosen from the file) computes the imprint the signer computed *)
  Theorem msi_verifier_mode f b g : msi_embed Hf ext f b = Ok g -> msi_verify_hashin Hf g = msi_hashin Hf ext g.
  Proof.
    intros H. destruct (msi_embed_inv f b g H) as [t [D [W [A [Nb [Sb [Ex [Hs ->]]]]]]]].
    destruct (signed_dom t b W A Sb Ex Hs) as [Dg Mg]. unfold msi_verify_hashin, msi_hashin. rewrite Dg. cbn [bind]. rewrite Mg.
    apply signed_verify_mode; assumption.
  Qed.
  (* the signed file is in the domain again: signing can be repeated *)
  Theorem msi_wf_preserved f b g : msi_embed Hf ext f b = Ok g -> exists t, decode_tree g = Ok t /\ msi_dom t = true.
  Proof.
    intros H. destruct (msi_embed_inv f b g H) as [t [D [W [A [Nb [Sb [Ex [Hs ->]]]]]]]].
    destruct (signed_dom t b W A Sb Ex Hs) as [Dg Mg]. eauto.
  Qed.
  (* on the domain the embed succeeds unless a storage occupies one of the two stream names, and that is the only refusal *)
  Theorem msi_embed_defined t b : msi_dom t = true -> zlen b <> 0 -> small b = true -> exsig_ok Hf ext t = true -> sig_slots_free t = true ->
    msi_embed Hf ext (encode_tree t) b = Ok (encode_tree (signed_tree Hf ext t b)).
  Proof.
    intros M Nb Sb Ex Fr. pose proof M as M'. unfold msi_dom in M'. apply andb_true_iff in M' as [W A].
    unfold msi_embed. rewrite (decode_encode t A). cbn [bind]. rewrite M, Sb, Ex. replace (zlen b =? 0) with false by lia. cbn [negb andb].
    rewrite (embed_insert Hf ext t b W). destruct (wf_tree_inv t W) as [_ [_ [_ Wk]]]. destruct t as [e c kids]. cbn [node_kids] in Wk. rewrite insert_sig_ok; [reflexivity | exact Wk |].
    intros k Hin Hk. unfold sig_slots_free in Fr. cbn [node_kids] in Fr. rewrite forallb_forall in Fr. specialize (Fr k Hin). cbn zeta in Fr.
    unfold is_slot in Hk. rewrite Hk in Fr. change msi_DirStream with 2 in Fr. lia.
  Qed.
  (* a refusal: the only one is a non-stream in a signature slot, it is found by the check in front of the first AddFile, and
     nothing has been written to the file at that point *)
  Theorem msi_refuses_clean t b e : msi_dom t = true -> embed_t Hf ext t b = Err e ->
    e = E_STORAGE /\ sig_slots_free t = false /\ embed_writes Hf ext t b = 0.
  Proof.
    intros M H. unfold msi_dom in M. apply andb_true_iff in M as [W A]. rewrite (embed_insert Hf ext t b W) in H. rewrite (embed_writes_insert Hf ext t b W).
    destruct (wf_tree_inv t W) as [_ [_ [_ Wk]]].
    destruct t as [e0 c kids]. cbn [node_kids] in Wk. apply (insert_sig_err _ _ _ _ _ _ Wk) in H as [-> [[k [Hin [Hk Ht]]] Hw]]. split; [reflexivity|]. split; [|exact Hw].
    unfold sig_slots_free. cbn [node_kids]. apply not_true_iff_false. intros Fr. rewrite forallb_forall in Fr. specialize (Fr k Hin). cbn zeta in Fr.
    unfold is_slot in Hk. rewrite Hk in Fr. change msi_DirStream with 2 in Fr. lia.
  Qed.
End FormatLaws.

(* ================================================================== the pipeline theorems, symbolic cryptography *)
Section MSICrypto.
  Variables key pubk sigv : Type.
  Variable H : Z -> bytes -> bytes.
  Variable pub : key -> pubk.
  Variable sign : key -> bytes -> sigv.
  Variable vrfy : pubk -> bytes -> sigv -> bool.
  Hypothesis sign_correct : forall k m, vrfy (pub k) m (sign k m) = true.
  Variable tbs : Z -> bytes -> bytes.
  Variable ser : sigblob pubk sigv -> bytes.
  Variable deser : bytes -> option (sigblob pubk sigv).
  Hypothesis deser_ser : forall b, deser (ser b) = Some b.
  Variable Hf : bytes -> bytes.
  Variable ext : bool.
  Theorem msi_sign_then_verify : forall k a f g,
    sign_file key pubk sigv H pub sign tbs ser pnode (msi_format Hf ext) k a f = Ok g ->
    verify_file pubk sigv H vrfy tbs deser pnode (msi_format Hf ext) g = Accept pubk (pub k) a.
  Proof.
    apply (sign_then_verify key pubk sigv H pub sign vrfy sign_correct tbs ser deser deser_ser pnode (msi_format Hf ext)).
    - apply msi_law_extract.
    - apply msi_law_hashin.
  Qed.
  Theorem msi_resign_history : forall hist f g k a,
    resign key pubk sigv H pub sign tbs ser pnode (msi_format Hf ext) (hist ++ [(k, a)]) f = Ok g ->
    verify_file pubk sigv H vrfy tbs deser pnode (msi_format Hf ext) g = Accept pubk (pub k) a
    /\ is_signed pnode (msi_format Hf ext) g = true
    /\ msi_payload g = msi_payload f /\ msi_hashin Hf ext g = msi_hashin Hf ext f.
  Proof.
    apply (resign_history key pubk sigv H pub sign vrfy sign_correct tbs ser deser deser_ser pnode (msi_format Hf ext)).
    - apply msi_law_extract.
    - apply msi_law_hashin.
    - apply msi_law_payload.
  Qed.
End MSICrypto.
