(* FmtMSI/ProofsTar.v — part 5: the tar route (MsiToTar + DigestMsiTar, what the server digests) against the direct digest. *)
From Relic Require Import Base.Prelude Base.Enc Generated.FmtMSI_gen FmtMSI.Model FmtMSI.Proofs FmtMSI.ProofsSer FmtMSI.ProofsTree FmtMSI.ProofsLaws.
From Coq Require Import Permutation Sorted.

Lemma flatten_app Hf a b : flatten_segs Hf (a ++ b) = flatten_segs Hf a ++ flatten_segs Hf b.
Proof. unfold flatten_segs. now rewrite map_app, concat_app. Qed.
Lemma tar_segs_app ext a b : tar_segs ext (a ++ b) = tar_segs ext a ++ tar_segs ext b.
Proof. unfold tar_segs. now rewrite map_app, concat_app. Qed.
Lemma tar_segs_cons ext m ms : tar_segs ext (m :: ms) = tar_segs ext [m] ++ tar_segs ext ms.
Proof. apply (tar_segs_app ext [m] ms). Qed.
Lemma segs_plain Hf ext ms : (forall m, In m ms -> tar_special (fst m) = false) -> flatten_segs Hf (tar_segs ext ms) = concat (map snd ms).
Proof.
  induction ms as [|m ms IH]; intros H; [reflexivity|]. rewrite tar_segs_cons, flatten_app, IH by (intros m' Hin; apply H; now right).
  cbn [map concat]. f_equal. pose proof (H m (or_introl eq_refl)) as Hm. unfold tar_special in Hm. apply orb_false_iff in Hm as [H1 H2].
  unfold tar_segs. cbn [map concat]. unfold msi_tar_is_exmeta, msi_tar_is_sig. change (bytes_eqb (fst m) msi_tar_exmeta_name) with (units_eqb (fst m) msi_tar_exmeta_name).
  rewrite H1, H2. cbn. now rewrite !app_nil_r.
Qed.

(* names matched by a signature name consist of the listed code units only *)
Lemma same_name_all (P : Z -> Prop) alts : alts_plain alts -> (forall a, In a alts -> forall x, In x a -> P x) ->
  forall n, same_name alts n = true -> Forall P n.
Proof.
  intros Hp. unfold same_name. revert Hp. induction alts as [|a alts IH]; intros Hp HP n H.
  - destruct n as [|r n]; [constructor|]. exfalso. unfold utf16_encode in H. cbn [map concat] in H.
    destruct (((0 <=? r) && (r <? 55296)) || ((57344 <=? r) && (r <? 65536))); [cbn in H; discriminate|].
    destruct ((65536 <=? r) && (r <=? 1114111)); cbn in H; discriminate.
  - destruct n as [|r n]; [constructor|]. unfold utf16_encode in H. cbn [map concat] in H. fold (utf16_encode n) in H.
    destruct (((0 <=? r) && (r <? 55296)) || ((57344 <=? r) && (r <? 65536))) eqn:E1.
    + cbn [app units_match] in H. apply andb_true_iff in H as [H1 H2]. constructor.
      * apply existsb_exists in H1 as [x [Hx Ex]]. apply Z.eqb_eq in Ex. subst x. apply (HP a (or_introl eq_refl)). exact Hx.
      * apply IH; [eapply alts_plain_tl; eassumption | intros a' Ha; apply HP; now right | exact H2].
    + exfalso. destruct ((65536 <=? r) && (r <=? 1114111)) eqn:E2.
      * cbn [app] in H. rewrite (units_match_high _ _ _ Hp) in H; [discriminate|]. pose proof (Z.div_pos (r - 65536) 1024). lia.
      * cbn [app] in H. rewrite (units_match_high _ _ _ Hp) in H; [discriminate | lia].
Qed.
Lemma sig_name_runes (P : Z -> Prop) n : (forall x, In x (concat msi_sig_fold ++ concat msi_sigex_fold) -> P x) -> go_is_sig n = true -> Forall P n.
Proof.
  intros HP H. unfold go_is_sig, msi_is_sig_name in H. destruct sig_fold_plain as [P1 P2]. apply orb_true_iff in H as [H|H].
  - apply (same_name_all P msi_sig_fold P1); [|exact H]. intros a Ha x Hx. apply HP. apply in_or_app. left. apply in_concat. eauto.
  - apply (same_name_all P msi_sigex_fold P2); [|exact H]. intros a Ha x Hx. apply HP. apply in_or_app. right. apply in_concat. eauto.
Qed.
Lemma in_small_list (P : Z -> Prop) l : Forall P l -> forall x, In x l -> P x.
Proof. intros H x. rewrite Forall_forall in H. apply H. Qed.
Lemma sig_name_no_slash n : go_is_sig n = true -> ~ In 47 n.
Proof.
  intros H Hin. assert (F : Forall (fun r => r <> 47) n).
  { apply sig_name_runes; [|exact H]. apply in_small_list. repeat (constructor; [lia|]). constructor. }
  rewrite Forall_forall in F. apply (F 47 Hin). reflexivity.
Qed.
Lemma sig_name_decodes n : go_is_sig n = true -> msi_decode_name n = n.
Proof.
  intros H. assert (F : Forall (fun r => 0 <= r < 14336) n).
  { apply sig_name_runes; [|exact H]. apply in_small_list. repeat (constructor; [lia|]). constructor. }
  clear H. unfold msi_decode_name. induction F as [|r n Hr Hf IH]; [reflexivity|]. cbn [map concat]. rewrite IH.
  unfold dn_rune, msi_dn_pair, msi_dn_single, msi_dn_table. replace (r >=? 14336) with false by lia. replace (r >=? 18432) with false by lia.
  replace (r =? 18496) with false by lia. reflexivity.
Qed.
Lemma special_no_slash n : In 47 n -> tar_special n = false.
Proof.
  intros Hin. unfold tar_special. apply orb_false_iff. split.
  - apply not_true_iff_false. intros E. apply list_eqb_Z_eq in E. subst n. vm_compute in Hin. intuition discriminate.
  - apply not_true_iff_false. intros E. now apply sig_name_no_slash in E.
Qed.
Lemma sig_not_exmeta n : go_is_sig n = true -> units_eqb n msi_tar_exmeta_name = false.
Proof. intros H. apply not_true_iff_false. intros E. apply list_eqb_Z_eq in E. subst n. vm_compute in H. discriminate. Qed.

(* ================================================================== the members of a storage, next to what hashMsiDir takes from it *)
Definition members (path : list Z) (k : node) : list (list Z * bytes) :=
  let ip := msi_tard_item_path path (msi_decode_name (go_name (node_ent k))) in
  if msi_tard_is_stream (de_type (node_ent k)) then [(ip, node_content k)]
  else if msi_tard_is_storage (de_type (node_ent k)) then tar_dir k (msi_tard_sub_path ip) else [].
Lemma tar_dir_nf e c kids path : tar_dir (Node e c kids) path =
  concat (map snd (isort rlt (map (fun k => (node_ent k, members path k)) kids))) ++ [(msi_tard_uid_path path, de_uid e)].
Proof. reflexivity. Qed.
Definition comb (path : list Z) (k : node) : bytes * list (list Z * bytes) := (contrib_h k, members path k).
Lemma sorted_h path kids : isort rlt (items_h kids) = map (fun it : dirent * (bytes * list (list Z * bytes)) => (fst it, fst (snd it))) (isort rlt (map (fun k => (node_ent k, comb path k)) kids)).
Proof. rewrite (isort_map (fun it : dirent * (bytes * list (list Z * bytes)) => (fst it, fst (snd it))) rlt rlt) by reflexivity. f_equal. unfold items_h. rewrite map_map. reflexivity. Qed.
Lemma sorted_t path kids : isort rlt (map (fun k => (node_ent k, members path k)) kids) =
  map (fun it : dirent * (bytes * list (list Z * bytes)) => (fst it, snd (snd it))) (isort rlt (map (fun k => (node_ent k, comb path k)) kids)).
Proof. rewrite (isort_map (fun it : dirent * (bytes * list (list Z * bytes)) => (fst it, snd (snd it))) rlt rlt) by reflexivity. f_equal. rewrite map_map. reflexivity. Qed.

(* below the root: every member name contains the '/' of its path, nothing is left out on either side *)
Definition nested_P (t : node) : Prop := forall path, In 47 path -> de_type (node_ent t) <> 5 -> kids_ok (node_kids t) ->
  (forall m, In m (tar_dir t path) -> In 47 (fst m)) /\ concat (map snd (tar_dir t path)) = hash_node t.
Lemma nested_ok : forall t, nested_P t.
Proof.
  apply node_ind'. intros e c kids IH path Hp Ht O. cbn [node_ent node_kids] in *. rewrite Forall_forall in IH.
  assert (Hw : forall k, In k kids -> wf_kid k = true) by (destruct O as [_ Hw]; rewrite forallb_forall in Hw; exact Hw).
  assert (Hk : forall k, In k kids -> (forall m, In m (members path k) -> In 47 (fst m)) /\ concat (map snd (members path k)) = contrib_h k).
  { intros k Hin. destruct (wf_kid_inv k (Hw k Hin)) as [_ [_ [Tk [_ Kk]]]]. unfold members, contrib_h.
    change (msi_tard_is_stream (de_type (node_ent k))) with (de_type (node_ent k) =? 2). change (msi_tard_is_storage (de_type (node_ent k))) with (de_type (node_ent k) =? 1).
    change (msi_hash_is_stream (de_type (node_ent k))) with (de_type (node_ent k) =? 2). change (msi_hash_is_storage (de_type (node_ent k))) with (de_type (node_ent k) =? 1).
    unfold msi_tard_item_path, msi_tard_sub_path.
    destruct Tk as [Tk|Tk]; rewrite Tk; cbn [Z.eqb Pos.eqb].
    - split; [intros m [<-|[]]; cbn [fst]; apply in_or_app; now left | cbn; now rewrite app_nil_r].
    - apply (IH k Hin); [apply in_or_app; left; apply in_or_app; now left | lia | exact (Kk Tk)]. }
  rewrite tar_dir_nf, hash_node_nf. rewrite (sorted_t path kids), (sorted_h path kids).
  assert (Hall : forall it, In it (isort rlt (map (fun k => (node_ent k, comb path k)) kids)) ->
            (forall m, In m (snd (snd it)) -> In 47 (fst m)) /\ concat (map snd (snd (snd it))) = fst (snd it)).
  { intros it Hin. apply in_isort in Hin. apply in_map_iff in Hin as [k [<- Hin]]. cbn [snd fst comb]. apply (Hk k Hin). }
  revert Hall. generalize (isort rlt (map (fun k => (node_ent k, comb path k)) kids)). intros L Hall. split.
  - intros m Hin. apply in_app_or in Hin as [Hin|[<-|[]]]; [|cbn [fst]; unfold msi_tard_uid_path; apply in_or_app; now left].
    apply in_concat in Hin as [ms [Hms Hm]]. rewrite map_map in Hms. apply in_map_iff in Hms as [it [<- Hit]]. cbn [snd] in Hm. apply (proj1 (Hall it Hit) m Hm).
  - rewrite map_app, concat_app. cbn [map concat snd]. rewrite app_nil_r. f_equal.
    induction L as [|[e' [h ms]] L IHL]; [reflexivity|]. cbn [map concat fst snd cat_items]. rewrite map_app, concat_app.
    replace (hash_skip (de_type e) e') with false by (unfold hash_skip, msi_hash_skip, sig_stream, msi_is_sig_stream; symmetry; replace (de_type e =? 5) with false by lia; reflexivity).
    rewrite IHL by (intros it Hit; apply Hall; now right). f_equal. apply (proj2 (Hall (e', (h, ms)) (or_introl eq_refl))).
Qed.

(* the root: a child contributes to the tar digest what it contributes to the direct digest *)
Theorem tar_is_direct Hf ext t ms : wf_tree t = true -> tar_safe t = true -> msi_to_tar t = Ok ms ->
  digest_pre Hf ext t = Ok (digest_tar_pre Hf ext ms).
Proof.
  intros W Ts Hms. destruct t as [e c kids]. destruct (wf_tree_inv _ W) as [F [T O]]. cbn [node_ent node_kids] in *.
  unfold msi_to_tar in Hms. destruct (pre_node (Node e c kids)) as [ex| |] eqn:Hex; cbn [bind] in Hms; try discriminate.
  set (td := tar_dir (Node e c kids) []) in Hms. change msi_tar_exmeta_first with true in Hms. cbv iota in Hms.
  destruct (existsb tar_member_bad _); [discriminate|]. injection Hms as <-.
  unfold digest_pre, digest_segs, digest_tar_pre. rewrite Hex. rewrite tar_segs_cons, flatten_app.
  assert (Hw : forall k, In k kids -> wf_kid k = true) by (destruct O as [_ Hw]; rewrite forallb_forall in Hw; exact Hw).
  (* the children *)
  assert (Hk : forall k, In k kids -> flatten_segs Hf (tar_segs ext (members [] k)) = if hash_skip 5 (node_ent k) then [] else contrib_h k).
  { intros k Hin. destruct (wf_kid_inv k (Hw k Hin)) as [_ [_ [Tk [_ Kk]]]].
    unfold tar_safe in Ts. cbn [node_kids] in Ts. rewrite forallb_forall in Ts. specialize (Ts k Hin). cbn zeta in Ts. change msi_DirStream with 2 in Ts.
    unfold members, contrib_h, hash_skip, msi_hash_skip, sig_stream, msi_is_sig_stream.
    change (msi_tard_is_stream (de_type (node_ent k))) with (de_type (node_ent k) =? 2). change (msi_tard_is_storage (de_type (node_ent k))) with (de_type (node_ent k) =? 1).
    change (msi_hash_is_stream (de_type (node_ent k))) with (de_type (node_ent k) =? 2). change (msi_hash_is_storage (de_type (node_ent k))) with (de_type (node_ent k) =? 1).
    unfold msi_tard_item_path, msi_tard_sub_path. cbn [app].
    destruct Tk as [Tk|Tk]; rewrite Tk in Ts |- *; cbn [Z.eqb Pos.eqb andb] in Ts |- *.
    - destruct (go_is_sig (go_name (node_ent k))) eqn:Es.
      + (* a signature stream: its member keeps the name, DigestMsiTar leaves it out *)
        rewrite (sig_name_decodes _ Es). unfold tar_segs. cbn [map concat fst snd].
        unfold msi_tar_is_exmeta, msi_tar_is_sig. change (bytes_eqb (go_name (node_ent k)) msi_tar_exmeta_name) with (units_eqb (go_name (node_ent k)) msi_tar_exmeta_name).
        rewrite (sig_not_exmeta _ Es), Es. reflexivity.
      + cbn [orb] in Ts. apply negb_true_iff in Ts. rewrite segs_plain by (intros m [<-|[]]; exact Ts). cbn. now rewrite app_nil_r.
    - destruct (nested_ok k (msi_decode_name (go_name (node_ent k)) ++ [47]) ltac:(apply in_or_app; right; now left) ltac:(lia) (Kk Tk)) as [N1 N2].
      rewrite segs_plain by (intros m Hm; apply special_no_slash; apply N1; exact Hm). exact N2. }
  assert (Hall : forall it, In it (isort rlt (map (fun k => (node_ent k, comb [] k)) kids)) ->
            flatten_segs Hf (tar_segs ext (snd (snd it))) = if hash_skip 5 (fst it) then [] else fst (snd it)).
  { intros it Hin. apply in_isort in Hin. apply in_map_iff in Hin as [k [<- Hin]]. cbn [snd fst comb]. apply (Hk k Hin). }
  assert (Hbody : flatten_segs Hf (tar_segs ext td) = hash_node (Node e c kids)).
  { unfold td. rewrite tar_dir_nf, hash_node_nf, T. rewrite (sorted_t [] kids), (sorted_h [] kids). rewrite tar_segs_app, flatten_app. f_equal.
    - revert Hall. generalize (isort rlt (map (fun k => (node_ent k, comb [] k)) kids)). intros L Hall.
      induction L as [|[e' [h ms]] L IHL]; [reflexivity|]. cbn [map concat fst snd cat_items]. rewrite tar_segs_app, flatten_app.
      rewrite IHL by (intros it Hit; apply Hall; now right). pose proof (Hall (e', (h, ms)) (or_introl eq_refl)) as H0. cbn [fst snd] in H0. rewrite H0.
      destruct (hash_skip 5 e'); reflexivity.
    - rewrite segs_plain by (intros m [<-|[]]; reflexivity). cbn. now rewrite app_nil_r. }
  rewrite Hbody. unfold tar_segs at 1. cbn [map concat fst snd]. change (msi_tar_is_exmeta msi_tar_exmeta_name) with true. cbn iota.
  unfold msi_digest_with_prehash, msi_tar_exmeta_dropped. change msi_digest_prehash_first with true.
  destruct ext; cbn [negb bind]; unfold flatten_segs; cbn [map concat fst snd app]; rewrite ?app_nil_r; reflexivity.
Qed.
