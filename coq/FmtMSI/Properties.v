(* FmtMSI/Properties.v — the MSI Authenticode digest layer (lib/authenticode msiverify.go msitar.go msisign.go msinames.go,
   signers/msi).  Statements only; each is closed by a lemma of FmtMSI/Proofs*.v.  Grouped by the property served
   (C05 C11 C01 C08 C03 C02); checks/fmtmsi.py ASPECT_THEOREMS lists the same names.
   A compound file is a tree `node` of directory entries (the 128-byte RawDirEnt field by field, stream bytes, children in the
   order ListDir returns them); sectors and the directory's red-black trees are unit C18.
   wf_tree (Model.v): root of type 5; every other entry a stream or a storage with a name of 1..31 non-NUL code units, NUL
   terminated, NameLength = 2(k+1); sibling names pairwise distinct; fields in range; stream content as long as StreamSize.
   Where the faithful model violates a statement at full strength the theorem `*_refuted` exhibits a witness (replayed on the
   real code by checks/fmtmsi.py) and the theorem itself is stated on the domain where it holds. *)
From Relic Require Import Base.Prelude Base.Enc Generated.FmtMSI_gen FmtMSI.Model Laws.Pipeline.
From Relic Require FmtMSI.Proofs FmtMSI.ProofsSer FmtMSI.ProofsTree FmtMSI.ProofsLaws FmtMSI.ProofsTar FmtMSI.ProofsWit.
From Coq Require Import Permutation.
Import FmtMSI.Proofs FmtMSI.ProofsSer FmtMSI.ProofsTree FmtMSI.ProofsLaws FmtMSI.ProofsTar FmtMSI.ProofsWit.

(* ====================================================================================================== C05 *)
(* the entry layout relic declares (generated offsets / widths) is the one of [MS-CFB] 2.6.1; the buffer prehashMsiDirent slices is
   exactly one entry long *)
Theorem msi_layout_is_mscfb :
  [msi_de_off_NameRunes; msi_de_off_NameLength; msi_de_off_Type; msi_de_off_Color; msi_de_off_LeftChild; msi_de_off_RightChild; msi_de_off_StorageRoot;
   msi_de_off_UID; msi_de_off_UserFlags; msi_de_off_CreateTime; msi_de_off_ModifyTime; msi_de_off_NextSector; msi_de_off_StreamSize; msi_de_size]
  = [0; 64; 66; 67; 68; 72; 76; 80; 96; 100; 108; 116; 120; 128] /\
  msi_de_widths = [64; 2; 1; 1; 4; 4; 4; 16; 4; 8; 8; 4; 4; 4] /\ msi_pre_enc_cap = msi_de_size.
Proof. exact FmtMSI.ProofsSer.layout_is_mscfb. Qed.

(* the comparison closure of sortMsiFiles = the documented comparison (memcmp of the raw UTF-16LE names over the shorter
   NameLength, terminator included; longer name first on a tie), for two well-formed entries with different names.
   Full statement (all entries): fails, see msi_less_embedded_nul_refuted *)
Theorem msi_less_eq_spec : forall a b, fields_ok a = true -> fields_ok b = true -> name_ok a = true -> name_ok b = true ->
  wname a <> wname b -> relic_less a b = Ok (s_less (ser_dirent a) (ser_dirent b)).
Proof. exact FmtMSI.ProofsSer.less_eq_spec. Qed.
(* witness: "a" against "a\0b" (a NUL inside a name): relic looks at NameLength code units, i.e. past the shorter name *)
Theorem msi_less_embedded_nul_refuted :
  let a := ex_ent [97] 4 2 (zeros 16) 0 0 0 0 in let b := ex_ent [97; 0; 98] 8 2 (zeros 16) 0 0 0 0 in
  fields_ok a = true /\ fields_ok b = true /\ relic_less a b = Ok true /\ s_less (ser_dirent a) (ser_dirent b) = false.
Proof. exact FmtMSI.ProofsSer.less_embedded_nul_refuted. Qed.
(* the children of a well-formed storage come out of sortMsiFiles in the specification's order, whatever they carry *)
Theorem msi_sort_is_spec_sort : forall (B : Type) (C : node -> B) kids, kids_ok kids ->
  map tos (sort_items msi_hash_sorts (map (fun k => (node_ent k, C k)) kids)) = s_sort (map tos (map (fun k => (node_ent k, C k)) kids)).
Proof. exact (@FmtMSI.ProofsWit.sort_is_spec_sort). Qed.
(* sorting under the canonical order does not depend on the order of the input (any sorting algorithm gives this list) *)
Theorem msi_sort_unique : forall (A : Type) (key : A -> list Z) (l1 l2 : list A), Permutation l1 l2 -> NoDup (map key l1) ->
  isort (klt key) l1 = isort (klt key) l2.
Proof. exact (@FmtMSI.Proofs.sort_unique). Qed.

(* msi_digest_order_spec: the byte string hashMsiDir feeds to the digest is the specification's: children in the documented
   order, stream contents, storages recursively, then the CLSID; the signature streams (streams of the root named as the two
   documented names, compared as [MS-CFB] compares names) left out *)
Theorem msi_digest_order_spec : forall t, wf_tree t = true -> hash_node t = s_hash true (to_spec t).
Proof. exact FmtMSI.ProofsWit.digest_order_spec. Qed.
(* msi_ex_prehash_spec: prehashMsiDir writes the specification's metadata string (and never fails on a well-formed tree) *)
Theorem msi_ex_prehash_spec : forall t, wf_tree t = true -> exists x, pre_node t = Ok x /\ s_pre true (to_spec t) = Some x.
Proof. exact FmtMSI.ProofsWit.ex_prehash_spec. Qed.
(* ... which per entry is exactly: name without terminator (not root), CLSID (root, storage), StreamSize (stream), UserFlags,
   CreateTime and ModifyTime (not root), in this order, each little endian *)
Theorem msi_ex_prehash_fields : forall e, shape_ok e -> msi_pre_badlen (de_type e) (de_nlen e) = false ->
  pre_dirent e = Ok ((if negb (de_type e =? 5) then ztake (de_nlen e - 2) (units_le (de_runes e)) else []) ++
                     (if (de_type e =? 5) || (de_type e =? 1) then de_uid e else []) ++
                     (if de_type e =? 2 then le_enc 4 (de_size e) else []) ++
                     le_enc 4 (de_flags e) ++
                     (if negb (de_type e =? 5) then le_enc 8 (de_ctime e) ++ le_enc 8 (de_mtime e) else [])).
Proof. exact FmtMSI.ProofsSer.pre_dirent_fields. Qed.
(* the imprint preimage of DigestMSI in both modes *)
Theorem msi_hashin_eq_spec : forall Hf ext t, wf_tree t = true -> exists x, s_pre true (to_spec t) = Some x /\
  digest_pre Hf ext t = Ok (if ext then Hf x ++ s_hash true (to_spec t) else s_hash true (to_spec t)).
Proof. exact FmtMSI.ProofsWit.hashin_eq_spec. Qed.
(* msi_digest_tree_shape_independent: the same entries listed in any order, with any sibling links, colours and start sectors,
   give the same digest input in both parts *)
Theorem msi_digest_tree_shape_independent : forall t t', wf_tree t = true -> shape_eq t t' ->
  hash_node t = hash_node t' /\ pre_node t = pre_node t' /\ forall Hf ext, digest_pre Hf ext t = digest_pre Hf ext t'.
Proof. exact FmtMSI.ProofsWit.tree_shape_independent. Qed.

(* ====================================================================================================== C11 *)
(* the comparison closure never indexes past NameRunes, whatever the two entries hold (arrays of equal length, as in Go) *)
Theorem msi_less_no_panic : forall a b p, length (de_runes a) = length (de_runes b) -> relic_less a b <> Panic p.
Proof. exact FmtMSI.ProofsSer.less_no_panic. Qed.
(* prehashMsiDirent / prehashMsiDir never slice outside the 128-byte buffer, whatever NameLength and type say *)
Theorem msi_prehash_no_panic : (forall e p, shape_ok e -> pre_dirent e <> Panic p) /\ (forall t p, all_shape t = true -> pre_node t <> Panic p).
Proof. exact (conj FmtMSI.ProofsSer.pre_dirent_no_panic FmtMSI.ProofsWit.pre_node_no_panic). Qed.
Theorem msi_decode_total : forall l p, decode_tree l <> Panic p.
Proof. exact FmtMSI.ProofsWit.decode_total. Qed.

(* ====================================================================================================== C01 *)
(* the format handed to Laws/Pipeline.v: msi_format Hf ext = (msi_hashin Hf ext, msi_embed Hf ext, msi_extract, msi_payload) over
   the byte code of trees (encode_tree / decode_tree, FmtMSI.ProofsLaws.decode_encode); msi_embed signs exactly the trees of
   msi_dom with a non-empty blob below 4 GiB (and a non-empty prehash digest in extended mode) *)
Theorem msi_law_extract : forall Hf ext, law_extract pnode (msi_format Hf ext).
Proof. exact FmtMSI.ProofsLaws.msi_law_extract. Qed.
(* C01 + C08: the digest of the signed file is the digest of the input: existing signature streams are not digested, the new
   ones neither, and the order in which the children end up is irrelevant *)
Theorem msi_law_hashin : forall Hf ext, law_hashin pnode (msi_format Hf ext).
Proof. exact FmtMSI.ProofsLaws.msi_law_hashin. Qed.
(* VerifyMSI chooses the digest mode from the presence of MsiDigitalSignatureEx and compares that stream with the recomputed
   prehash: on relic's output this is the mode the signer used and the comparison succeeds *)
Theorem msi_verifier_mode : forall Hf ext f b g, msi_embed Hf ext f b = Ok g -> msi_verify_hashin Hf g = msi_hashin Hf ext g.
Proof. exact FmtMSI.ProofsLaws.msi_verifier_mode. Qed.
(* on the domain signing succeeds unless a STORAGE of the root carries one of the two signature names; that is the only refusal *)
Theorem msi_embed_defined : forall Hf ext t b, msi_dom t = true -> zlen b <> 0 -> small b = true -> exsig_ok Hf ext t = true -> sig_slots_free t = true ->
  msi_embed Hf ext (encode_tree t) b = Ok (encode_tree (signed_tree Hf ext t b)).
Proof. exact FmtMSI.ProofsLaws.msi_embed_defined. Qed.
(* a refusal (relic 66af42b): error, raised by the check in front of the first AddFile / DeleteFile, and at that point
   InsertMSISignature has written nothing: embed_writes counts the streams written into the file (comdoc writes sectors only in
   AddFile and in Close), so the refused input is byte-identical *)
Theorem msi_refuses_clean : forall Hf ext t b e, msi_dom t = true -> embed_t Hf ext t b = Err e ->
  e = E_STORAGE /\ sig_slots_free t = false /\ embed_writes Hf ext t b = 0.
Proof. exact FmtMSI.ProofsLaws.msi_refuses_clean. Qed.
(* msi_tar_eq_direct: what the server digests (DigestMsiTar of MsiToTar of the file) is what DigestMSI digests, in both modes.
   tar_safe: no stream of the root has a msiDecodeName-decoded name equal to __exmeta or to a signature name unless the stream
   itself is a signature stream.  Full statement without tar_safe: fails, two witnesses below *)
Theorem msi_tar_eq_direct : forall Hf ext t ms, wf_tree t = true -> tar_safe t = true -> msi_to_tar t = Ok ms ->
  digest_pre Hf ext t = Ok (digest_tar_pre Hf ext ms).
Proof. exact FmtMSI.ProofsTar.tar_is_direct. Qed.
(* witness: root stream whose four code units U+47FF U+46E8 U+4230 U+4137 decode to "__exmeta": DigestMsiTar takes it for the
   metadata member and drops its content *)
Theorem msi_tar_exmeta_refuted : exists ms, wf_tree w_exmeta_tree = true /\ tar_safe w_exmeta_tree = false /\ msi_to_tar w_exmeta_tree = Ok ms /\
  forall Hf, digest_pre Hf false w_exmeta_tree <> Ok (digest_tar_pre Hf false ms).
Proof. exact FmtMSI.ProofsWit.tar_exmeta_refuted. Qed.
(* witness: root stream named U+0005 + eight code units that decode to "DigitalSignature": digested directly, left out by the tar route *)
Theorem msi_tar_decoded_sig_refuted : exists ms, wf_tree w_decoded_sig_tree = true /\ tar_safe w_decoded_sig_tree = false /\ msi_to_tar w_decoded_sig_tree = Ok ms /\
  forall Hf, digest_pre Hf false w_decoded_sig_tree <> Ok (digest_tar_pre Hf false ms).
Proof. exact FmtMSI.ProofsWit.tar_decoded_sig_refuted. Qed.

Section Crypto.
  Variables key pubk sigv : Type.
  Variable H : Z -> bytes -> bytes.
  Variable pub : key -> pubk.
  Variable sign : key -> bytes -> sigv.
  Variable vrfy : pubk -> bytes -> sigv -> bool.
  Hypothesis sign_correct : forall k m, vrfy (pub k) m (sign k m) = true.
  Variable tbs : Z -> bytes -> bytes.
  Variable ser : sigblob pubk sigv -> bytes.
  Variable deser : bytes -> option (sigblob pubk sigv).
  Hypothesis deser_ser : forall b, deser (ser b) = Some b.
  (* C01 (sign_then_verify instantiated): whatever relic signs is accepted under the signing key's certificate and the requested digest *)
  Theorem msi_sign_then_verify : forall Hf ext k a f g,
    sign_file key pubk sigv H pub sign tbs ser pnode (msi_format Hf ext) k a f = Ok g ->
    verify_file pubk sigv H vrfy tbs deser pnode (msi_format Hf ext) g = Accept pubk (pub k) a.
  Proof. exact (FmtMSI.ProofsLaws.msi_sign_then_verify key pubk sigv H pub sign vrfy sign_correct tbs ser deser deser_ser). Qed.
  (* C08 (resign_history instantiated) *)
  Theorem msi_resign_history : forall Hf ext hist f g k a,
    resign key pubk sigv H pub sign tbs ser pnode (msi_format Hf ext) (hist ++ [(k, a)]) f = Ok g ->
    verify_file pubk sigv H vrfy tbs deser pnode (msi_format Hf ext) g = Accept pubk (pub k) a
    /\ is_signed pnode (msi_format Hf ext) g = true
    /\ msi_payload g = msi_payload f /\ msi_hashin Hf ext g = msi_hashin Hf ext f.
  Proof. exact (FmtMSI.ProofsLaws.msi_resign_history key pubk sigv H pub sign vrfy sign_correct tbs ser deser deser_ser). Qed.
End Crypto.

(* ====================================================================================================== C08 *)
(* the signed file is in the domain again (signing can be repeated) *)
Theorem msi_wf_preserved : forall Hf ext f b g, msi_embed Hf ext f b = Ok g -> exists t, decode_tree g = Ok t /\ msi_dom t = true.
Proof. exact FmtMSI.ProofsLaws.msi_wf_preserved. Qed.
(* the is-signed probe (relic 8d92d9a): NotSignedError exactly as the specification says on every well-formed tree in which no
   STREAM of the root carries a signature name — a storage of that name does not count; the blob on relic's output *)
Theorem msi_is_signed_spec :
  (forall t, wf_tree t = true -> (forall k, In k (node_kids t) -> de_type (node_ent k) = 2 -> is_slot (node_ent k) = false) ->
     extract_t t = Ok None /\ s_signed (to_spec t) = false) /\
  (forall Hf ext t blob, wf_tree t = true -> zlen blob <> 0 ->
     extract_t (signed_tree Hf ext t blob) = Ok (Some blob) /\ s_signed (to_spec (signed_tree Hf ext t blob)) = true).
Proof. exact (conj FmtMSI.ProofsWit.unsigned_probe FmtMSI.ProofsWit.signed_probe). Qed.
(* the former witness, now a regression statement: a root STORAGE named \005DigitalSignature *)
Theorem msi_signature_named_storage :
  msi_dom w_sigstorage = true /\ extract_t w_sigstorage = Ok None /\ s_signed (to_spec w_sigstorage) = false /\
  (forall Hf ext blob, embed_t Hf ext w_sigstorage blob = Err E_STORAGE /\ embed_writes Hf ext w_sigstorage blob = 0).
Proof. exact FmtMSI.ProofsWit.signature_named_storage. Qed.

(* ====================================================================================================== C03 *)
(* Laws.law_payload: the specification reader's view (every entry except the two signature streams of the root: name, type, CLSID,
   state bits, times, size, stream bytes; children in the canonical order) is unchanged *)
Theorem msi_law_payload : forall Hf ext, law_payload pnode (msi_format Hf ext).
Proof. exact FmtMSI.ProofsLaws.msi_law_payload. Qed.
(* the signed tree is the input tree with the root's signature slots removed and the new signature stream(s) appended; the root
   entry and every other child are the same nodes in the same order *)
Theorem msi_only_signature_streams_differ : forall Hf ext f b g, msi_embed Hf ext f b = Ok g -> exists e c kids x,
  decode_tree f = Ok (Node e c kids) /\ decode_tree g = Ok (Node e c (filter notslot kids ++ news b x)).
Proof. exact FmtMSI.ProofsWit.only_signature_streams_differ. Qed.

(* ====================================================================================================== C02 *)
(* body_pieces: every stream content and storage CLSID entering the content part, in digest order; hash_node = their concatenation.
   msi_protect: with the same piece lengths (same stream sizes and nesting — what MsiDigitalSignatureEx is there to pin down), an
   equal content part means equal stream contents and CLSIDs, piece by piece.
   Full statement "equal imprint => equal contents and names": fails, three witnesses below; all three are properties of the FORMAT
   (concatenation without lengths, names and types not framed), not of relic *)
Theorem msi_protect : forall t1 t2, map (@length Z) (body_pieces t1) = map (@length Z) (body_pieces t2) ->
  hash_node t1 = hash_node t2 -> body_pieces t1 = body_pieces t2.
Proof. exact FmtMSI.ProofsLaws.protect_pieces. Qed.
Theorem msi_hash_is_concat_pieces : forall t, hash_node t = concat (body_pieces t).
Proof. exact FmtMSI.ProofsLaws.hash_is_concat_pieces. Qed.
(* msi_protect_ex: the metadata of ONE entry is injective once type and name length are fixed: equal bytes => equal name,
   CLSID (root/storage), size (stream), state bits, times *)
Theorem msi_protect_ex : forall e1 e2, fields_ok e1 = true -> fields_ok e2 = true -> name_ok e1 = true -> name_ok e2 = true ->
  de_type e1 = de_type e2 -> de_nlen e1 = de_nlen e2 -> pre_fields e1 = pre_fields e2 ->
  (de_type e1 <> 5 -> wname e1 = wname e2 /\ de_ctime e1 = de_ctime e2 /\ de_mtime e1 = de_mtime e2) /\
  (de_type e1 = 5 \/ de_type e1 = 1 -> de_uid e1 = de_uid e2) /\ (de_type e1 = 2 -> de_size e1 = de_size e2) /\ de_flags e1 = de_flags e2.
Proof. exact FmtMSI.ProofsLaws.pre_fields_inj. Qed.
(* witness (plain mode): streams a="xy" b="z" against a="x" b="yz": same content part, same verifier input; the extended
   metadata differs (sizes), which is what the extended mode adds *)
Theorem msi_protect_boundary_refuted :
  wf_tree w_b1 = true /\ wf_tree w_b2 = true /\ hash_node w_b1 = hash_node w_b2 /\ body_pieces w_b1 <> body_pieces w_b2 /\
  extract_t w_b1 = extract_t w_b2 /\ (forall Hf, digest_pre Hf false w_b1 = digest_pre Hf false w_b2) /\ pre_node w_b1 <> pre_node w_b2.
Proof. exact FmtMSI.ProofsWit.protect_boundary_refuted. Qed.
(* witness (plain mode): a stream renamed from "a" to "b": names are not digested at all without the extended metadata *)
Theorem msi_protect_names_refuted :
  wf_tree w_n1 = true /\ wf_tree w_n2 = true /\ (forall Hf, digest_pre Hf false w_n1 = digest_pre Hf false w_n2) /\
  kid_names (node_kids w_n1) <> kid_names (node_kids w_n2) /\ pre_node w_n1 <> pre_node w_n2.
Proof. exact FmtMSI.ProofsWit.protect_names_refuted. Qed.
(* witness (BOTH modes): the 16-byte stream "abcdefg" with content 62 00 63 00 64 00 65 00 66 00 67 00 10 00 00 00 against the
   empty storage "a" whose CLSID is that content: identical metadata string, identical content part, hence identical imprint *)
Theorem msi_protect_ex_ambiguity_refuted :
  wf_tree w_a1 = true /\ wf_tree w_a2 = true /\ pre_node w_a1 = pre_node w_a2 /\ hash_node w_a1 = hash_node w_a2 /\
  (forall Hf ext, digest_pre Hf ext w_a1 = digest_pre Hf ext w_a2) /\ s_payload true (to_spec w_a1) <> s_payload true (to_spec w_a2).
Proof. exact FmtMSI.ProofsWit.protect_ex_ambiguity_refuted. Qed.

(* ====================================================================================================== non-vacuity *)
Example msi_domain_inhabited : msi_dom w_ok = true /\ tar_safe w_ok = true /\ sig_slots_free w_ok = true /\
  embed_t (fun x => [1; 2]) true w_ok [48; 49] = Ok (signed_tree (fun x => [1; 2]) true w_ok [48; 49]) /\
  exists ms, msi_to_tar w_ok = Ok ms.
Proof. exact FmtMSI.ProofsWit.w_ok_facts. Qed.
Example msi_code_roundtrip : decode_tree (encode_tree w_ok) = Ok w_ok.
Proof. apply FmtMSI.ProofsLaws.decode_encode. reflexivity. Qed.
Example msi_order_example :   (* "a" < "ab" (terminator against 'b'), U+0100 < U+00FF (bytes 00 01 against FF 00) *)
  relic_lt (ex_ent [97] 4 2 (zeros 16) 0 0 0 0) (ex_ent [97; 98] 6 2 (zeros 16) 0 0 0 0) = true /\
  relic_lt (ex_ent [256] 4 2 (zeros 16) 0 0 0 0) (ex_ent [255] 4 2 (zeros 16) 0 0 0 0) = true.
Proof. split; reflexivity. Qed.
