(* FmtMSI/ProofsTree.v — part 3: the digest of a tree: normal form, independence of the directory's shape, equality with the
   specification. *)
From Relic Require Import Base.Prelude Base.Enc Generated.FmtMSI_gen FmtMSI.Model FmtMSI.Proofs FmtMSI.ProofsSer.
From Coq Require Import Permutation Sorted.

Lemma node_ind' (P : node -> Prop) : (forall e c kids, Forall P kids -> P (Node e c kids)) -> forall t, P t.
Proof.
  intros H. fix IH 1. intros [e c kids]. apply H.
  induction kids as [|k kids IHk]; constructor; [apply IH | exact IHk].
Qed.

(* ================================================================== only name, name length and type matter for order and exclusion *)
Definition dK (e : dirent) : dirent := mkDe (de_runes e) (de_nlen e) (de_type e) 0 0 0 0 [] 0 0 0 0 0 0.
Definition canon {B} (it : dirent * B) : dirent * B := (dK (fst it), snd it).
Definition rlt {B} (a b : dirent * B) : bool := relic_lt (fst a) (fst b).
Definition ikey {B} (it : dirent * B) : list Z := dkey (fst it).
Lemma relic_lt_dK a b : relic_lt a b = relic_lt (dK a) (dK b). Proof. reflexivity. Qed.
Lemma rlt_canon {B} (a b : dirent * B) : rlt a b = rlt (canon a) (canon b). Proof. reflexivity. Qed.
Lemma dkey_dK e : dkey (dK e) = dkey e. Proof. reflexivity. Qed.
Lemma name_ok_dK e : name_ok (dK e) = name_ok e. Proof. reflexivity. Qed.
Lemma wname_dK e : wname (dK e) = wname e. Proof. reflexivity. Qed.
Lemma go_name_dK e : go_name (dK e) = go_name e. Proof. reflexivity. Qed.
Lemma hash_skip_dK pty e : hash_skip pty (dK e) = hash_skip pty e. Proof. reflexivity. Qed.
Lemma pre_skip_dK pty e : pre_skip pty (dK e) = pre_skip pty e. Proof. reflexivity. Qed.
Lemma map_canon_isort {B} (l : list (dirent * B)) : map canon (isort rlt l) = isort rlt (map canon l).
Proof. apply isort_map. intros a b. apply rlt_canon. Qed.

Lemma cat_items_canon skip (l : list (dirent * bytes)) : (forall e, skip (dK e) = skip e) -> cat_items skip (map canon l) = cat_items skip l.
Proof. intros H. induction l as [|[e c] l IH]; [reflexivity|]. cbn [map canon fst snd cat_items]. rewrite H, IH. reflexivity. Qed.
Lemma cat_items_r_canon skip (l : list (dirent * result bytes)) : (forall e, skip (dK e) = skip e) -> cat_items_r skip (map canon l) = cat_items_r skip l.
Proof. intros H. induction l as [|[e c] l IH]; [reflexivity|]. cbn [map canon fst snd cat_items_r]. rewrite H, IH. reflexivity. Qed.
Lemma cat_pieces_canon skip (l : list (dirent * list bytes)) : (forall e, skip (dK e) = skip e) -> cat_pieces skip (map canon l) = cat_pieces skip l.
Proof. intros H. induction l as [|[e c] l IH]; [reflexivity|]. cbn [map canon fst snd cat_pieces]. rewrite H, IH. reflexivity. Qed.
Lemma map_snd_canon {B} (l : list (dirent * B)) : map snd (map canon l) = map snd l.
Proof. rewrite map_map. apply map_ext. intros [e c]. reflexivity. Qed.

(* ================================================================== well-formed sibling lists: relic's order is the canonical one *)
Lemma distinct_names_NoDup l : distinct_names l = true -> NoDup l.
Proof.
  induction l as [|n r IH]; cbn [distinct_names]; intros H; [constructor|].
  apply andb_true_iff in H as [H1 H2]. constructor; [|auto].
  intros Hin. apply negb_true_iff in H1. assert (existsb (units_eqb n) r = true); [|congruence].
  apply existsb_exists. exists n. split; [exact Hin|]. apply list_eqb_Z_eq. reflexivity.
Qed.
Lemma NoDup_map_trans {A B C} (f : A -> B) (g : A -> C) l : NoDup (map f l) ->
  (forall x y, In x l -> In y l -> g x = g y -> f x = f y) -> NoDup (map g l).
Proof.
  induction l as [|a l IH]; cbn [map]; intros H Hfg; [constructor|]. inversion H as [|? ? Hn Hd]; subst.
  constructor.
  - intros Hin. apply in_map_iff in Hin as [y [Hy Hin]]. apply Hn. rewrite <- (Hfg y a); [now apply in_map | now right | now left | exact Hy].
  - apply IH; [exact Hd|]. intros x y Hx Hy. apply Hfg; now right.
Qed.
Lemma map_bkey_inj a : forall b, Forall uok a -> Forall uok b -> map bkey a = map bkey b -> a = b.
Proof.
  induction a as [|x a IH]; intros [|y b] Ha Hb H; cbn in H; try discriminate; [reflexivity|].
  inversion Ha; inversion Hb; subst. injection H as E1 E2. f_equal; [apply bkey_inj; assumption | apply IH; assumption].
Qed.
Lemma name_units_wname e : name_ok e = true -> de_type e <> 0 -> name_units e = wname e.
Proof.
  intros Hn Ht. destruct (name_ok_split e Hn) as [k [pad [Hk [Hnl _]]]].
  unfold name_units, wname, msi_name_used, msi_name_empty, wrap16.
  rewrite Z.quot_div_nonneg by lia. rewrite Hnl. replace (2 * (Z.of_nat k + 1) / 2) with (Z.of_nat k + 1) by (rewrite Z.mul_comm, Z.div_mul; lia).
  rewrite Z.mod_small by lia. replace (de_type e =? 0) with false by lia. replace (Z.of_nat k + 1 - 1 >? 32) with false by lia. reflexivity.
Qed.
Lemma wname_uok e : name_ok e = true -> Forall uok (wname e).
Proof. intros H. destruct (name_ok_split e H) as [k [pad [_ [_ [_ [Hn _]]]]]]. eapply Forall_impl; [|exact Hn]. cbn. tauto. Qed.

(* a list of items whose entries have well-formed, pairwise distinct names *)
Definition items_ok {B} (l : list (dirent * B)) : Prop :=
  (forall it, In it l -> name_ok (fst it) = true) /\ NoDup (map ikey l).
Lemma items_ok_perm {B} (l l' : list (dirent * B)) : Permutation l l' -> items_ok l -> items_ok l'.
Proof.
  intros Hp [H1 H2]. split.
  - intros it Hin. apply H1. eapply Permutation_in; [symmetry; exact Hp | exact Hin].
  - eapply Permutation_NoDup; [|exact H2]. now apply Permutation_map.
Qed.
Lemma isort_rlt_klt {B} (l : list (dirent * B)) : items_ok l -> isort rlt l = isort (klt ikey) l.
Proof.
  intros [H1 H2]. apply (isort_ext ikey); [exact H2|].
  intros x y Hx Hy Hne. unfold rlt, klt, ikey. apply relic_lt_key; auto.
  intros E. apply Hne. unfold ikey, dkey. now rewrite E.
Qed.
(* the sorted list does not depend on the order of the items *)
Lemma isort_rlt_perm {B} (l l' : list (dirent * B)) : Permutation l l' -> items_ok l -> isort rlt l = isort rlt l'.
Proof.
  intros Hp Hok. rewrite (isort_rlt_klt l Hok), (isort_rlt_klt l' (items_ok_perm _ _ Hp Hok)).
  apply sort_unique; [exact Hp | apply Hok].
Qed.
Lemma items_ok_canon {B} (l : list (dirent * B)) : items_ok l -> items_ok (map canon l).
Proof.
  intros [H1 H2]. split.
  - intros it Hin. apply in_map_iff in Hin as [x [<- Hx]]. cbn [canon fst]. rewrite name_ok_dK. auto.
  - rewrite map_map. erewrite map_ext; [exact H2|]. intros [e c]. reflexivity.
Qed.

Definition kids_ok (kids : list node) : Prop := distinct_names (kid_names kids) = true /\ forallb wf_kid kids = true.
Lemma wf_kid_inv k : wf_kid k = true ->
  fields_ok (node_ent k) = true /\ name_ok (node_ent k) = true /\ (de_type (node_ent k) = 2 \/ de_type (node_ent k) = 1) /\
  (de_type (node_ent k) = 2 -> zlen (node_content k) = de_size (node_ent k)) /\ (de_type (node_ent k) = 1 -> kids_ok (node_kids k)).
Proof.
  destruct k as [e c kids]. cbn [wf_kid node_ent node_content node_kids]. change msi_DirStream with 2. change msi_DirStorage with 1.
  intros H. apply andb_true_iff in H as [H H0]. apply andb_true_iff in H as [H H1]. apply andb_true_iff in H as [H H2].
  apply andb_true_iff in H as [Hf Hn].
  split; [assumption|]. split; [assumption|]. split; [lia|]. split.
  - intros E. rewrite E in H1. cbn in H1. lia.
  - intros E. rewrite E in H0. cbn in H0. apply andb_true_iff in H0 as [X1 X2]. split; assumption.
Qed.
Lemma kids_items_ok {B} (C : node -> B) kids : kids_ok kids -> items_ok (map (fun k => (node_ent k, C k)) kids).
Proof.
  intros [Hd Hw]. split.
  - intros it Hin. apply in_map_iff in Hin as [k [<- Hk]]. cbn [fst]. rewrite forallb_forall in Hw. apply (wf_kid_inv k (Hw k Hk)).
  - rewrite map_map. unfold ikey. cbn [fst].
    apply distinct_names_NoDup in Hd. unfold kid_names in Hd.
    apply (NoDup_map_trans (fun k => name_units (node_ent k)) (fun k => dkey (node_ent k)) kids Hd).
    intros x y Hx Hy E. rewrite forallb_forall in Hw.
    destruct (wf_kid_inv x (Hw x Hx)) as [_ [Nx [Tx _]]]. destruct (wf_kid_inv y (Hw y Hy)) as [_ [Ny [Ty _]]].
    rewrite !name_units_wname by (auto; lia). unfold dkey in E. apply map_bkey_inj in E; auto using wname_uok.
Qed.

(* ================================================================== normal forms *)
Definition contrib_h (k : node) : bytes :=
  if msi_hash_is_stream (de_type (node_ent k)) then node_content k else if msi_hash_is_storage (de_type (node_ent k)) then hash_node k else [].
Definition items_h (kids : list node) : list (dirent * bytes) := map (fun k => (node_ent k, contrib_h k)) kids.
Lemma hash_node_nf e c kids : hash_node (Node e c kids) = cat_items (hash_skip (de_type e)) (isort rlt (items_h kids)) ++ de_uid e.
Proof. reflexivity. Qed.
Definition contrib_p (k : node) : result bytes :=
  if msi_pre_is_stream (de_type (node_ent k)) then pre_dirent (node_ent k) else if msi_pre_is_storage (de_type (node_ent k)) then pre_node k else Ok [].
Definition items_p (kids : list node) : list (dirent * result bytes) := map (fun k => (node_ent k, contrib_p k)) kids.
Lemma pre_node_nf e c kids : pre_node (Node e c kids) =
  (own <- pre_dirent e ;; body <- cat_items_r (pre_skip (de_type e)) (isort rlt (items_p kids)) ;; Ok (own ++ body)).
Proof. reflexivity. Qed.

(* ================================================================== independence of the directory's shape *)
Lemma same_hashed_pre e e' : shape_ok e -> same_hashed e e' -> pre_dirent e = pre_dirent e'.
Proof.
  intros S [H1 [H2 [H3 [H4 [H5 [H6 [H7 H8]]]]]]].
  assert (S' : shape_ok e') by (destruct S; split; congruence).
  destruct (msi_pre_badlen (de_type e) (de_nlen e)) eqn:Hb.
  - unfold pre_dirent. rewrite <- H2, <- H3, Hb. reflexivity.
  - rewrite (pre_dirent_fields e S Hb). rewrite (pre_dirent_fields e' S') by (rewrite <- H2, <- H3; exact Hb).
    unfold pre_fields. rewrite <- H1, <- H2, <- H3, <- H4, <- H5, <- H6, <- H7, <- H8. reflexivity.
Qed.
Lemma same_hashed_dK e e' : same_hashed e e' -> dK e = dK e'.
Proof. intros [H1 [H2 [H3 _]]]. unfold dK. now rewrite H1, H2, H3. Qed.

(* pairwise related children give the same canonical items *)
Lemma all2_items {B} (C C' : node -> B) kids : forall mid,
  all2 (fun k m => dK (node_ent k) = dK (node_ent m) /\ C k = C' m) kids mid ->
  map canon (map (fun k => (node_ent k, C k)) kids) = map canon (map (fun k => (node_ent k, C' k)) mid).
Proof.
  induction kids as [|k kids IH]; intros [|m mid] H; cbn [all2] in H; try contradiction; [reflexivity|].
  destruct H as [[H1 H2] H3]. cbn [map]. f_equal; [unfold canon; cbn [fst snd]; rewrite H1, H2; reflexivity | apply IH; exact H3].
Qed.
Lemma all2_impl {A B} (R R' : A -> B -> Prop) ks : forall ms, (forall k m, In k ks -> R k m -> R' k m) -> all2 R ks ms -> all2 R' ks ms.
Proof.
  induction ks as [|k ks IH]; intros [|m ms] H HR; cbn [all2] in *; try contradiction; auto.
  destruct HR as [H1 H2]. split; [apply H; [now left | exact H1] | apply IH; [|exact H2]]. intros k' m' Hin. apply H. now right.
Qed.
(* the sorted canonical items of two related sibling lists coincide *)
Lemma sorted_items_shape {B} (C C' : node -> B) kids mid kids' : kids_ok kids ->
  all2 (fun k m => dK (node_ent k) = dK (node_ent m) /\ C k = C' m) kids mid -> Permutation mid kids' ->
  map canon (isort rlt (map (fun k => (node_ent k, C k)) kids)) = map canon (isort rlt (map (fun k => (node_ent k, C' k)) kids')).
Proof.
  intros Hok Ha Hp. rewrite !map_canon_isort. rewrite (all2_items C C' kids mid Ha).
  apply isort_rlt_perm.
  - apply Permutation_map. apply Permutation_map. exact Hp.
  - rewrite <- (all2_items C C' kids mid Ha). apply items_ok_canon. apply kids_items_ok. exact Hok.
Qed.

Definition shape_P (t : node) : Prop :=
  forall t', shape_ok (node_ent t) -> kids_ok (node_kids t) -> shape_eq t t' -> hash_node t = hash_node t' /\ pre_node t = pre_node t'.
Lemma shape_eq_ent k m : shape_eq k m -> same_hashed (node_ent k) (node_ent m) /\ node_content k = node_content m.
Proof. destruct k as [e c ks], m as [e' c' ms]. cbn [shape_eq node_ent node_content]. tauto. Qed.
Theorem shape_independent : forall t, shape_P t.
Proof.
  apply node_ind'. intros e c kids IH [e' c' kids'] Hso Hok Hs. cbn [node_kids node_ent] in *. cbn [shape_eq] in Hs.
  destruct Hs as [He [Hc [mid [Ha Hp]]]]. subst c'.
  pose proof He as [_ [_ [Ety [Euid _]]]].
  assert (Hw : forall k, In k kids -> wf_kid k = true) by (destruct Hok as [_ Hw]; rewrite forallb_forall in Hw; exact Hw).
  (* every child and its counterpart contribute the same *)
  assert (Hrel : all2 (fun k m => dK (node_ent k) = dK (node_ent m) /\ contrib_h k = contrib_h m /\ contrib_p k = contrib_p m) kids mid).
  { rewrite Forall_forall in IH. eapply all2_impl; [|exact Ha]. intros k m Hin Hkm. cbn beta.
    destruct (shape_eq_ent k m Hkm) as [Hh Hcc]. pose proof Hh as [_ [_ [Hty _]]].
    destruct (wf_kid_inv k (Hw k Hin)) as [Fk [Nk [Tk [_ Kk]]]].
    assert (Sk : shape_ok (node_ent k)) by (apply fields_ok_vals in Fk; apply Fk).
    split; [apply same_hashed_dK; exact Hh|].
    unfold contrib_h, contrib_p. rewrite <- Hty, <- Hcc.
    change (msi_hash_is_stream (de_type (node_ent k))) with (de_type (node_ent k) =? 2).
    change (msi_hash_is_storage (de_type (node_ent k))) with (de_type (node_ent k) =? 1).
    change (msi_pre_is_stream (de_type (node_ent k))) with (de_type (node_ent k) =? 2).
    change (msi_pre_is_storage (de_type (node_ent k))) with (de_type (node_ent k) =? 1).
    destruct Tk as [Tk|Tk]; rewrite Tk; cbn [Z.eqb Pos.eqb].
    - split; [reflexivity|]. apply same_hashed_pre; assumption.
    - destruct (IH k Hin m Sk (Kk Tk) Hkm) as [I1 I2]. split; assumption. }
  split.
  - rewrite !hash_node_nf. rewrite <- Ety, <- Euid. f_equal.
    rewrite <- (cat_items_canon _ (isort rlt (items_h kids))) by (intros; apply hash_skip_dK).
    rewrite <- (cat_items_canon _ (isort rlt (items_h kids'))) by (intros; apply hash_skip_dK).
    f_equal. unfold items_h. apply (sorted_items_shape contrib_h contrib_h kids mid kids' Hok); [|exact Hp].
    eapply all2_impl; [|exact Hrel]. cbn beta. tauto.
  - rewrite !pre_node_nf. rewrite <- Ety. rewrite <- (same_hashed_pre e e' Hso He).
    rewrite <- (cat_items_r_canon _ (isort rlt (items_p kids))) by (intros; apply pre_skip_dK).
    rewrite <- (cat_items_r_canon _ (isort rlt (items_p kids'))) by (intros; apply pre_skip_dK).
    unfold items_p. rewrite (sorted_items_shape contrib_p contrib_p kids mid kids' Hok); [reflexivity | | exact Hp].
    eapply all2_impl; [|exact Hrel]. cbn beta. tauto.
Qed.

(* ================================================================== signature names: relic's test and the specification's *)
Definition alts_plain (alts : list (list Z)) : Prop := Forall (Forall (fun a => 0 <= a < 55296)) alts.
Lemma units_match_high h t alts : alts_plain alts -> 55296 <= h -> units_match (h :: t) alts = false.
Proof.
  intros Hp Hh. destruct alts as [|a alts]; [reflexivity|]. cbn [units_match]. inversion Hp as [|? ? Ha _]; subst.
  assert (E : existsb (Z.eqb h) a = false).
  { apply not_true_iff_false. intros E. apply existsb_exists in E as [x [Hx Ex]]. rewrite Forall_forall in Ha. specialize (Ha x Hx). lia. }
  rewrite E. reflexivity.
Qed.
Lemma alts_plain_tl a alts : alts_plain (a :: alts) -> alts_plain alts.
Proof. intros H. inversion H; assumption. Qed.
Lemma utf16_roundtrip_match n : forall us alts, (length us <= n)%nat -> Forall uok us -> alts_plain alts ->
  units_match (utf16_encode (utf16_decode us)) alts = units_match us alts.
Proof.
  induction n as [|n IH]; intros us alts Hl Hu Hp.
  - destruct us; [reflexivity | cbn in Hl; lia].
  - destruct us as [|u r]; [reflexivity|]. cbn [length] in Hl. inversion Hu as [|? ? Hu0 Hur]; subst. unfold uok in Hu0.
    cbn [utf16_decode]. unfold is_surr1, is_surr2.
    destruct ((55296 <=? u) && (u <? 56320)) eqn:E1.
    + rewrite (units_match_high u r alts Hp) by lia.
      destruct r as [|v r'].
      * cbn. apply (units_match_high 65533 [] alts Hp). lia.
      * destruct ((56320 <=? v) && (v <? 57344)) eqn:E2.
        -- unfold utf16_encode. cbn [map concat].
           set (cp := (u - 55296) * 1024 + (v - 56320) + 65536).
           replace (((0 <=? cp) && (cp <? 55296)) || ((57344 <=? cp) && (cp <? 65536))) with false by (unfold cp; lia).
           replace ((65536 <=? cp) && (cp <=? 1114111)) with true by (unfold cp; lia).
           cbn [app]. apply (units_match_high _ _ alts Hp). pose proof (Z.div_pos (cp - 65536) 1024). unfold cp. lia.
        -- unfold utf16_encode. cbn [map concat]. cbn [app]. apply (units_match_high 65533 _ alts Hp). lia.
    + destruct ((56320 <=? u) && (u <? 57344)) eqn:E2.
      * rewrite (units_match_high u r alts Hp) by lia. unfold utf16_encode. cbn [map concat app]. apply (units_match_high 65533 _ alts Hp). lia.
      * unfold utf16_encode. cbn [map concat].
        replace (((0 <=? u) && (u <? 55296)) || ((57344 <=? u) && (u <? 65536))) with true by lia.
        cbn [app]. destruct alts as [|a alts']; [reflexivity|]. cbn [units_match]. f_equal.
        apply (IH r alts'); [lia | assumption | eapply alts_plain_tl; eassumption].
Qed.
Lemma sig_fold_plain : alts_plain msi_sig_fold /\ alts_plain msi_sigex_fold.
Proof. split; unfold alts_plain; repeat (constructor; [repeat (constructor; [lia|]); constructor|]); constructor. Qed.
Lemma go_is_sig_units us : Forall uok us ->
  go_is_sig (utf16_decode us) = units_match us msi_sig_fold || units_match us msi_sigex_fold.
Proof.
  intros Hu. unfold go_is_sig, msi_is_sig_name, same_name. destruct sig_fold_plain as [P1 P2].
  rewrite !(utf16_roundtrip_match (length us)) by auto. reflexivity.
Qed.

(* the specification's comparison of a name with one of the two ASCII names *)
Lemma s_name_eq_units us : forall alts cs, Forall uok us ->
  Forall2 (fun alt c => forall u, existsb (Z.eqb u) alt = s_upper_eq u c) alts cs ->
  s_name_eq (units_le us) cs = units_match us alts.
Proof.
  induction us as [|u us IH]; intros alts cs Hu Hf.
  - inversion Hf; subst; reflexivity.
  - inversion Hu as [|? ? Hu0 Hur]; subst. rewrite units_le_cons. cbn [app s_name_eq].
    inversion Hf as [|alt c alts' cs' Hh Ht]; subst; [reflexivity|]. cbn [units_match]. rewrite Hh.
    unfold uok in Hu0. replace (u mod 256 + 256 * (u / 256 mod 256)) with u by (rewrite (Z.mod_small (u / 256) 256) by lia; pose proof (Z.div_mod u 256); lia).
    f_equal. apply IH; assumption.
Qed.
Lemma fold_is_spec_fold :
  Forall2 (fun alt c => forall u, existsb (Z.eqb u) alt = s_upper_eq u c) msi_sig_fold s_sig_ascii /\
  Forall2 (fun alt c => forall u, existsb (Z.eqb u) alt = s_upper_eq u c) msi_sigex_fold s_sigex_ascii.
Proof.
  split; repeat (constructor; [intros u; unfold s_upper_eq; cbn [existsb]; lia|]); constructor.
Qed.
(* relic's exclusion test is the specification's, on well-formed entries *)
Lemma skip_is_spec e : fields_ok e = true -> name_ok e = true -> de_type e <> 0 ->
  s_is_sig (ser_dirent e) = (de_type e =? 2) && go_is_sig (go_name e).
Proof.
  intros F N T. destruct (fields_ok_vals e F) as [V Hu]. destruct (name_ok_split e N) as [k [pad [Hk [Hnl [Hlw _]]]]].
  unfold s_is_sig. rewrite (s_type_ser e V), (s_nlen_ser e V), (s_namefield_ser e V). unfold S_STREAM. f_equal.
  assert (Ew : ztake (de_nlen e - 2) (units_le (de_runes e)) = units_le (wname e)).
  { rewrite Hnl. replace (2 * (Z.of_nat k + 1) - 2) with (2 * Z.of_nat k) by lia. rewrite ztake_units_le.
    unfold wname. rewrite Hnl. replace (2 * (Z.of_nat k + 1) / 2 - 1) with (Z.of_nat k) by (rewrite Z.mul_comm, Z.div_mul; lia).
    now rewrite ztake_firstn. }
  rewrite Ew. destruct fold_is_spec_fold as [F1 F2]. pose proof (wname_uok e N) as Hw.
  rewrite (s_name_eq_units (wname e) msi_sig_fold s_sig_ascii Hw F1), (s_name_eq_units (wname e) msi_sigex_fold s_sigex_ascii Hw F2).
  unfold go_name. rewrite (name_units_wname e N T). now rewrite (go_is_sig_units (wname e) Hw).
Qed.

(* ================================================================== relic's digest input is the specification's *)
Definition tos {B} (it : dirent * B) : bytes * B := (ser_dirent (fst it), snd it).
Definition slt {B} (a b : bytes * B) : bool := s_less (fst a) (fst b).
Definition items_fok {B} (l : list (dirent * B)) : Prop := forall it, In it l -> fields_ok (fst it) = true.
Lemma map_tos_isort {B} (l : list (dirent * B)) : items_ok l -> items_fok l -> map tos (isort rlt l) = isort slt (map tos l).
Proof.
  intros Hok Hf. transitivity (map tos (isort (fun a b => slt (tos a) (tos b)) l)).
  - f_equal. destruct Hok as [H1 H2]. apply (isort_ext ikey); [exact H2|]. intros x y Hx Hy Hne.
    unfold rlt, slt, tos. cbn [fst]. assert (Hw : wname (fst x) <> wname (fst y)) by (intros E; apply Hne; unfold ikey, dkey; now rewrite E).
    rewrite relic_lt_key, s_less_key; auto.
  - apply isort_map. reflexivity.
Qed.
Lemma s_cat_tos skip_s skip_r (l : list (dirent * bytes)) :
  (forall it, In it l -> skip_s (ser_dirent (fst it)) = skip_r (fst it)) ->
  s_cat skip_s (fun c => c) (map tos l) = cat_items skip_r l.
Proof.
  induction l as [|[e c] l IH]; intros H; [reflexivity|]. cbn [map]. change (tos (e, c)) with (ser_dirent e, c). cbn [s_cat cat_items].
  pose proof (H (e, c) (or_introl eq_refl)) as H0. cbn [fst] in H0. rewrite H0. rewrite IH; [reflexivity|]. intros it Hin. apply H. now right.
Qed.
Lemma s_cat_o_tos skip_s skip_r (l : list (dirent * result bytes)) (l' : list (bytes * option bytes)) :
  (forall it, In it l -> skip_s (ser_dirent (fst it)) = skip_r (fst it)) ->
  l' = map (fun it => (ser_dirent (fst it), match snd it with Ok b => Some b | _ => None end)) l ->
  s_cat_o skip_s l' = match cat_items_r skip_r l with Ok b => Some b | _ => None end.
Proof.
  intros H ->. induction l as [|[e c] l IH]; [reflexivity|]. cbn [map fst snd s_cat_o cat_items_r].
  pose proof (H (e, c) (or_introl eq_refl)) as H0. cbn [fst] in H0. rewrite H0. assert (IH' := IH (fun it Hin => H it (or_intror Hin))). clear IH.
  destruct (skip_r e); [exact IH'|]. rewrite IH'. destruct c as [b| |]; cbn [bind opt_app]; try reflexivity.
  destruct (cat_items_r skip_r l); reflexivity.
Qed.

Lemma in_isort {A} (lt : A -> A -> bool) l x : In x (isort lt l) -> In x l.
Proof. intros H. eapply Permutation_in; [apply isort_perm | exact H]. Qed.

Definition contrib_s (k : snode) : bytes :=
  if s_type (s_entry k) =? S_STREAM then s_data k else if s_type (s_entry k) =? S_STORAGE then s_hash false k else [].
Definition contrib_sp (k : snode) : option bytes :=
  if s_type (s_entry k) =? S_STREAM then s_pre_entry (s_entry k) else if s_type (s_entry k) =? S_STORAGE then s_pre false k else Some [].
Lemma s_hash_nf r en d kids : s_hash r (SNode en d kids) =
  s_cat (fun e => r && s_is_sig e) (fun c => c) (isort slt (map (fun k => (s_entry k, contrib_s k)) kids)) ++ s_clsid en.
Proof. reflexivity. Qed.
Lemma s_pre_nf r en d kids : s_pre r (SNode en d kids) =
  opt_app (s_pre_entry en) (s_cat_o (fun e => r && s_is_sig e) (isort slt (map (fun k => (s_entry k, contrib_sp k)) kids))).
Proof. reflexivity. Qed.
Definition r2o (r : result bytes) : option bytes := match r with Ok b => Some b | _ => None end.

Definition spec_P (t : node) : Prop :=
  fields_ok (node_ent t) = true -> kids_ok (node_kids t) ->
  hash_node t = s_hash (de_type (node_ent t) =? 5) (to_spec t) /\ r2o (pre_node t) = s_pre (de_type (node_ent t) =? 5) (to_spec t).
Theorem digest_is_spec : forall t, spec_P t.
Proof.
  apply node_ind'. intros e c kids IH Fe Hok. cbn [node_ent node_kids] in *.
  destruct (fields_ok_vals e Fe) as [Ve _].
  assert (Hw : forall k, In k kids -> wf_kid k = true) by (destruct Hok as [_ Hw]; rewrite forallb_forall in Hw; exact Hw).
  rewrite Forall_forall in IH.
  (* the children, seen by the specification *)
  assert (Hent : forall k, s_entry (to_spec k) = ser_dirent (node_ent k)) by (intros [? ? ?]; reflexivity).
  assert (Hdat : forall k, s_data (to_spec k) = node_content k) by (intros [? ? ?]; reflexivity).
  assert (Hch : forall k, In k kids -> contrib_s (to_spec k) = contrib_h k /\ contrib_sp (to_spec k) = r2o (contrib_p k)).
  { intros k Hin. destruct (wf_kid_inv k (Hw k Hin)) as [Fk [Nk [Tk [_ Kk]]]]. destruct (fields_ok_vals _ Fk) as [Vk _].
    unfold contrib_s, contrib_sp, contrib_h, contrib_p. rewrite Hent, (s_type_ser _ Vk), Hdat. unfold S_STREAM, S_STORAGE.
    change (msi_hash_is_stream (de_type (node_ent k))) with (de_type (node_ent k) =? 2).
    change (msi_hash_is_storage (de_type (node_ent k))) with (de_type (node_ent k) =? 1).
    change (msi_pre_is_stream (de_type (node_ent k))) with (de_type (node_ent k) =? 2).
    change (msi_pre_is_storage (de_type (node_ent k))) with (de_type (node_ent k) =? 1).
    destruct Tk as [Tk|Tk]; rewrite Tk; cbn [Z.eqb Pos.eqb].
    - split; [reflexivity|]. apply s_pre_entry_ser. exact Vk.
    - destruct (IH k Hin Fk (Kk Tk)) as [I1 I2]. rewrite Tk in I1, I2. cbn [Z.eqb Pos.eqb] in I1, I2. split; [now rewrite I1 | now rewrite I2]. }
  assert (Hio : forall B (C : node -> B), items_ok (map (fun k => (node_ent k, C k)) kids) /\ items_fok (map (fun k => (node_ent k, C k)) kids)).
  { intros B C. split; [apply kids_items_ok; exact Hok|]. intros it Hin. apply in_map_iff in Hin as [k [<- Hk]]. cbn [fst]. apply (wf_kid_inv k (Hw k Hk)). }
  (* exclusion: the same entries *)
  assert (Hskip : forall B (C : node -> B) it, In it (isort rlt (map (fun k => (node_ent k, C k)) kids)) ->
            ((de_type e =? 5) && s_is_sig (ser_dirent (fst it))) = hash_skip (de_type e) (fst it)).
  { intros B C it Hin. apply in_isort in Hin. apply in_map_iff in Hin as [k [<- Hk]]. cbn [fst].
    destruct (wf_kid_inv k (Hw k Hk)) as [Fk [Nk [Tk _]]]. rewrite (skip_is_spec _ Fk Nk) by lia.
    unfold hash_skip, msi_hash_skip, sig_stream, msi_is_sig_stream. rewrite andb_assoc. reflexivity. }
  cbn [to_spec]. split.
  - rewrite hash_node_nf, s_hash_nf. rewrite (s_clsid_ser e Ve). f_equal.
    rewrite map_map. erewrite (map_ext_in _ (fun k => tos (node_ent k, contrib_h k))).
    2:{ intros k Hk. unfold tos. cbn [fst snd]. rewrite Hent. now rewrite (proj1 (Hch k Hk)). }
    rewrite <- (map_map (fun k => (node_ent k, contrib_h k)) tos).
    destruct (Hio bytes contrib_h) as [O1 O2]. rewrite <- (map_tos_isort _ O1 O2).
    symmetry. apply s_cat_tos. intros it Hin. apply (Hskip bytes contrib_h it Hin).
  - rewrite pre_node_nf, s_pre_nf. rewrite (s_pre_entry_ser e Ve).
    destruct (Hio (result bytes) contrib_p) as [O1 O2].
    assert (E : s_cat_o (fun e0 => (de_type e =? 5) && s_is_sig e0) (isort slt (map (fun k => (s_entry k, contrib_sp k)) (map to_spec kids)))
                = r2o (cat_items_r (pre_skip (de_type e)) (isort rlt (items_p kids)))).
    { apply s_cat_o_tos.
      - intros it Hin. rewrite (Hskip (result bytes) contrib_p it Hin). reflexivity.
      - set (q := fun it : dirent * result bytes => (ser_dirent (fst it), match snd it with Ok b => Some b | _ => None end)).
        transitivity (isort slt (map q (items_p kids))).
        + f_equal. unfold items_p. rewrite !map_map. apply map_ext_in. intros k Hk. unfold q. cbn [fst snd]. rewrite Hent.
          rewrite (proj2 (Hch k Hk)). reflexivity.
        + (* q = (second component mapped) after tos *)
          set (g := fun it : bytes * result bytes => (fst it, match snd it with Ok b => Some b | _ => None end)).
          assert (Eq : forall l, map q l = map g (map tos l)) by (intros l; rewrite map_map; reflexivity).
          rewrite (Eq (isort rlt (items_p kids))), (Eq (items_p kids)).
          unfold items_p. rewrite (map_tos_isort _ O1 O2).
          symmetry. apply isort_map. reflexivity. }
    rewrite E. unfold r2o. destruct (pre_dirent e) as [own| |]; cbn [bind opt_app]; try reflexivity.
    destruct (cat_items_r (pre_skip (de_type e)) (isort rlt (items_p kids))); reflexivity.
Qed.
