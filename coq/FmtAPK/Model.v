(* FmtAPK/Model.v — Android APK Signature Scheme v2 as relic implements it (signers/apk: signer.go, digest.go, verify.go,
   serializer.go, structs.go, merkle.go Finish) together with the parts of lib/zipslicer the APK code drives (FindDirectory / Read /
   ReadWithDirectory, WriteDirectory's end record, GetOriginalDirectory(trim), NextFileOffset, Dump) and the v1/v2 binding of
   lib/signjar DigestManifest.  Definitions only.

   FAITHFUL side.  Every constant, offset, slice bound, comparison and argument is a definition of Generated/FmtAPK_gen.v.
   Slices, integer reads and allocations of getSigBlock and of the ID-value pair loop go through the CHECKED primitives of
   C11.Model (cslice / cle / alloc: Panic exactly where Go panics), the length-prefixed parser is C11.Model.unmarshal itself.
   What the ZIP layer contributes per member is GetTotalSize (local header + data + data descriptor: unit C17's model); it enters
   here as a table `szs` of member sizes in directory order, everything else (end record, central directory walk, offsets) is
   read from the bytes.  The merkle digest is a function of three byte strings (C09.merkle_eq_spec): `secs`.

   SPEC side (bottom half).  An independent reader and writer written from source.android.com "APK Signature Scheme v2"
   (APK Signing Block, signer / signed data structures, integrity-protected contents) and APPNOTE 4.3.16; it shares no definition
   with the faithful side and does not use the member table. *)
From Relic Require Import Base.Prelude Base.Enc Generated.C11_gen Generated.FmtAPK_gen.
From Relic Require C11.Model.
Import C11.Model.

(* ---- error classes *)
Definition E_ZIP := 11.        (* ZIP layer error (unit C17): no end record, truncated directory, read beyond EOF, seek backwards *)
Definition E_ZIP64 := 12.      (* ZIP64 structures present or required: outside this model (Android has no ZIP64; Finish refuses DirLoc >= 2^32) *)
Definition E_NOFILES := 13.    (* "no files in APK" *)
Definition E_ORACLE := 14.     (* the member size table does not fit the directory *)
Definition E_ORIG := 15.       (* GetOriginalDirectory: "new zipfile" / "non-ZIP data out of bounds" *)
Definition E_PATCH := 16.      (* patch set not applicable (negative or overlapping range: lib/binpatch, unit C12) *)
Definition E_OOM := 17.        (* larger than any Go allocation *)
Definition E_TRUNC := 18.      (* errTruncated *)
Definition E_DOMAIN := 19.     (* outside the stated domain of the restricted pipeline instance *)

Definition fld (off w : Z) (l : bytes) : Z := le_dec (zslice off (off + w) l).
Definition enc_struct (ws vs : list Z) : bytes := concat (map (fun p => le_enc (Z.to_nat (fst p)) (snd p)) (combine ws vs)).
Definition zeros (n : Z) : bytes := repeat 0 (Z.to_nat n).

(* ================================================================== ZIP layer, as far as the APK code needs it *)
Record cdent := mkCd { cd_raw : bytes; cd_off : Z; cd_rv : Z }.

Definition hdr_fn (cd : bytes) : Z := fld apk_zcd_off_FilenameLen apk_zcd_w_FilenameLen cd.
Definition hdr_ex (cd : bytes) : Z := fld apk_zcd_off_ExtraLen apk_zcd_w_ExtraLen cd.
Definition hdr_cm (cd : bytes) : Z := fld apk_zcd_off_CommentLen apk_zcd_w_CommentLen cd.
Definition hdr_len (cd : bytes) : Z := apk_z_cdh_len + hdr_fn cd + hdr_ex cd + hdr_cm cd.
Definition hdr_off (cd : bytes) : Z := fld apk_zcd_off_Offset apk_zcd_w_Offset cd.
Definition hdr_rv (cd : bytes) : Z := fld apk_zcd_off_ReaderVersion apk_zcd_w_ReaderVersion cd.
Definition hdr_saturated (cd : bytes) : bool :=
  (hdr_off cd =? apk_z_u32max) || (fld apk_zcd_off_CompressedSize apk_zcd_w_CompressedSize cd =? apk_z_u32max)
  || (fld apk_zcd_off_UncompressedSize apk_zcd_w_UncompressedSize cd =? apk_z_u32max).

(* ReadWithDirectory: the entry loop; (entries, what follows them) *)
Fixpoint walk (fuel : nat) (cd : bytes) : result (list cdent * bytes) :=
  match fuel with
  | O => Err E_ZIP
  | S k =>
      if apk_z_rw_short (zlen cd) then Err E_ZIP
      else if apk_z_rw_stops_at_other_sig && negb (fld 0 4 cd =? apk_z_cdh_sig) then Ok ([], cd)
      else if apk_z_rw_hdr_short (zlen cd) then Err E_ZIP
      else if apk_z_rw_entry_short (zlen cd) (hdr_fn cd) (hdr_ex cd) (hdr_cm cd) then Err E_ZIP
      else if hdr_saturated cd then Err E_ZIP64
      else if hdr_len cd <? apk_z_cdh_len then Err E_ZIP          (* cannot happen on bytes: the three lengths are unsigned *)
      else
        r <- walk k (zdrop (hdr_len cd) cd) ;;
        Ok (mkCd (ztake (hdr_len cd) cd) (hdr_off cd) (hdr_rv cd) :: fst r, snd r)
  end.

Record zdir := mkZd { zd_files : list cdent; zd_dirloc : Z; zd_end : bytes }.

Definition end_total (e : bytes) : Z := fld apk_zend_off_TotalCDCount apk_zend_w_TotalCDCount e.
Definition end_cdsize (e : bytes) : Z := fld apk_zend_off_CDSize apk_zend_w_CDSize e.
Definition end_cdoff (e : bytes) : Z := fld apk_zend_off_CDOffset apk_zend_w_CDOffset e.
Definition end_sig (e : bytes) : Z := fld apk_zend_off_Signature apk_zend_w_Signature e.

(* FindDirectory: the end record is the last directoryEndLen bytes *)
Definition find_directory (f : bytes) : result Z :=
  let size := zlen f in
  if size <? apk_z_end_len then Err E_ZIP else
  let e := zdrop (apk_z_fd_pos size + apk_z_loc64_len) f in
  if apk_z_fd_bad_sig (end_sig e) then Err E_ZIP else
  if apk_z_fd_zip64 (end_total e) (end_cdsize e) (end_cdoff e) then Err E_ZIP64 else
  Ok (end_cdoff e).

(* Read / ReadWithDirectory.  The record after the entries must be a plain end record and the last thing in the file (anything
   else is a ZIP64 archive or has bytes after the record the directory walk stops at: outside this model, class E_ZIP/E_ZIP64) *)
Definition read_zip (f : bytes) : result zdir :=
  loc <- find_directory f ;;
  if apk_z_loc_oob loc (zlen f) then Err E_ZIP else
  let cd := zdrop loc f in
  r <- walk (S (length cd)) cd ;;
  let rem := snd r in
  if fld 0 4 rem =? apk_z_end64_sig then Err E_ZIP64 else
  if negb (fld 0 4 rem =? apk_z_end_sig) then Err E_ZIP else
  if negb (zlen rem =? apk_z_end_len) then Err E_ZIP else
  Ok (mkZd (fst r) (apk_z_rw_dirloc (zlen f) (zlen cd)) rem).

(* member extents (offset from the directory entry, total size from the ZIP layer) *)
Fixpoint extents (es : list cdent) (szs : list Z) : result (list (Z * Z)) :=
  match es, szs with
  | [], [] => Ok []
  | e :: es', s :: szs' => r <- extents es' szs' ;; Ok ((cd_off e, s) :: r)
  | _, _ => Err E_ORACLE
  end.
(* end of the extents in directory order, starting from pos *)
Fixpoint ext_end (pos : Z) (xs : list (Z * Z)) : Z :=
  match xs with [] => pos | (o, s) :: r => ext_end (o + s) r end.
(* NextFileOffset *)
Definition next_file_offset (xs : list (Z * Z)) : Z :=
  if apk_z_nfo_empty (zlen xs) then 0 else if apk_z_nfo_last_end && apk_z_nfo_uses_last then ext_end 0 xs else 0.

(* File.Dump of every member in directory order into the hasher: from a stream (signing: contents.zip is read once, front to
   back) or from a file (verification) *)
Inductive mode := Stream | Random.
Fixpoint dump_all (m : mode) (f : bytes) (pos : Z) (xs : list (Z * Z)) : result bytes :=
  match xs with
  | [] => Ok []
  | (o, s) :: r =>
      if (o <? 0) || (s <? 0) || (zlen f <? o + s) then Err E_ZIP else
      if (match m with Stream => o <? pos | Random => false end) then Err E_ZIP else
      rest <- dump_all m f (o + s) r ;;
      Ok (zslice o (o + s) f ++ rest)
  end.

Definition cdir_bytes (es : list cdent) : bytes := concat (map cd_raw es).
Definition min_version (es : list cdent) : Z :=
  fold_left (fun m e => if apk_z_wd_raises_min (cd_rv e) m then cd_rv e else m) es apk_z_wd_min0.
Definition fresh_end (count size cdoff : Z) : bytes := enc_struct apk_zend_widths (apk_z_wd_end count size cdoff).
(* WriteDirectory(wcd, weod, force): entries are the cached raw headers (GetDirectoryHeader returns f.raw) *)
Definition write_directory (es : list cdent) (dirloc : Z) (force : bool) : result (bytes * bytes) :=
  let count := zlen es in
  let size := zlen (cdir_bytes es) in
  let cdoff := apk_z_wd_cdoff dirloc in
  let minv := if apk_z_wd_needs_zip64 count size cdoff force then apk_z_zip45 else min_version es in
  if apk_z_wd_zip64_branch minv then Err E_ZIP64
  else if apk_z_gdh_returns_raw then Ok (cdir_bytes es, fresh_end count size cdoff) else Err E_ZIP.

Definition set_cdoff (e : bytes) (v : Z) : bytes :=
  ztake apk_zend_off_CDOffset e ++ le_enc (Z.to_nat apk_zend_w_CDOffset) v ++ zdrop (apk_zend_off_CDOffset + apk_zend_w_CDOffset) e.
(* GetOriginalDirectory(trim) with d.DirLoc = dirloc: the end record as read, its directory offset moved back over the non-ZIP data *)
Definition get_original (d : zdir) (trim : bool) (content_end : Z) : result (bytes * bytes) :=
  if apk_z_go_new_zip (end_sig (zd_end d)) then Err E_ORIG else
  w <- write_directory (zd_files d) (zd_dirloc d) apk_z_go_force_zip64 ;;
  if trim then
    let delta := apk_z_go_delta (zd_dirloc d) content_end in
    if apk_z_go_delta_bad delta then Err E_ORIG else
    if apk_z_go_adjust_end (end_cdoff (zd_end d)) 0 && apk_z_go_subtracts_delta
    then Ok (fst w, set_cdoff (zd_end d) (end_cdoff (zd_end d) - delta))
    else Ok (fst w, zd_end d)
  else Ok (fst w, zd_end d).

(* ================================================================== digest input: three sections *)
Definition secs := (bytes * bytes * bytes)%type.
Definition enc_secs (s : secs) : bytes :=
  le_enc 8 (zlen (fst (fst s))) ++ le_enc 8 (zlen (snd (fst s))) ++ fst (fst s) ++ snd (fst s) ++ snd s.

(* merkleHasher.Finish(inz, modified) with inz.DirLoc = dl: which directory and end-of-directory bytes are digested *)
Definition finish (modified : bool) (d : zdir) (dl content_end : Z) : result (bytes * bytes) :=
  if apk_fin_dirloc_too_big dl then Err E_ZIP64 else
  if modified then write_directory (zd_files d) dl apk_fin_force_zip64
  else if apk_fin_original_when_unmodified then get_original (mkZd (zd_files d) dl (zd_end d)) apk_fin_trim content_end else Err E_ZIP.

(* digestApkStream: members dumped (statement apk_ds_ix_dump), sigLoc computed, DirLoc redirected to sigLoc for Finish *)
Definition ds_redirects : bool :=
  (apk_ds_ix_dump <? apk_ds_ix_sigloc) && (apk_ds_ix_sigloc <? apk_ds_ix_save) && (apk_ds_ix_save <? apk_ds_ix_redirect)
  && (apk_ds_ix_redirect <? apk_ds_ix_finish) && (apk_ds_ix_finish <? apk_ds_ix_restore).
Definition hashin_sign (szs : list Z) (f : bytes) : result secs :=
  d <- read_zip f ;;
  xs <- extents (zd_files d) szs ;;
  s1 <- dump_all Stream f 0 xs ;;
  let sig_loc := next_file_offset xs in
  w <- finish apk_ds_finish_modified d (if ds_redirects then sig_loc else zd_dirloc d) sig_loc ;;
  Ok (s1, fst w, snd w).
(* apkSigner.Verify: the same over the file, directory as it is *)
Definition hashin_verify (szs : list Z) (g : bytes) : result secs :=
  d <- read_zip g ;;
  xs <- extents (zd_files d) szs ;;
  s1 <- dump_all Random g 0 xs ;;
  w <- finish apk_vf_finish_modified d (zd_dirloc d) (next_file_offset xs) ;;
  Ok (s1, fst w, snd w).

(* ================================================================== makeSigBlock *)
(* copy(dst[off:], src) into a buffer *)
Definition poke (buf : bytes) (off : Z) (src : bytes) : bytes :=
  let n := Z.min (zlen src) (zlen buf - off) in
  if (off <? 0) || (zlen buf <? off) then buf else ztake off buf ++ ztake n src ++ zdrop (off + n) buf.
Definition mk_sig_block (sblob : bytes) : bytes :=
  let n := zlen sblob in
  let b0 := zeros (apk_mb_len n) in
  let b1 := poke b0 (apk_mb_size_off n) (le_enc 8 (apk_mb_size_val n)) in
  let b2 := poke b1 (apk_mb_pair_off n) (le_enc 8 (apk_mb_pair_val n)) in
  let b3 := poke b2 (apk_mb_id_off n) (le_enc 4 (apk_mb_id_val n)) in
  let b4 := if apk_mb_copies_blob then poke b3 (apk_mb_blob_off n) sblob else b3 in
  let so := apk_mb_suffix_off n in
  let b5 := if apk_mb_copies_size then poke b4 (so + apk_mb_again_dst n) (zslice (apk_mb_again_src_lo n) (apk_mb_again_src_hi n) b4) else b4 in
  if apk_mb_copies_magic then poke b5 (so + apk_mb_magic_dst n) apk_sig_magic else b5.

(* ================================================================== Digest.Sign: the patch set, applied (lib/binpatch reference semantics) *)
Fixpoint splice (f : bytes) (pos : Z) (ps : list (Z * Z * bytes)) : result bytes :=
  match ps with
  | [] => Ok (zdrop pos f)
  | (o, old, b) :: r =>
      if (o <? pos) || (old <? 0) || (zlen f <? o + old) then Err E_PATCH else
      rest <- splice f (o + old) r ;;
      Ok (zslice pos o f ++ b ++ rest)
  end.
Definition sign_patches (d : zdir) (sig_loc : Z) (block : bytes) : result (list (Z * Z * bytes)) :=
  let dir_loc := zd_dirloc d in
  w <- write_directory (zd_files d) (apk_new_dirloc sig_loc (zlen block)) apk_sign_force_zip64 ;;
  if apk_p1_blob_is_block && apk_p2_blob_is_eod then
    Ok [ (apk_p1_off sig_loc dir_loc, apk_p1_old sig_loc dir_loc, block);
         (apk_p2_off dir_loc (zlen (fst w)), apk_p2_old (zlen (snd w)), snd w) ]
  else Err E_PATCH.
(* sign: digestApkStream must succeed first; then the block around sblob, the two patches, Apply *)
Definition embed (szs : list Z) (f sblob : bytes) : result bytes :=
  _ <- hashin_sign szs f ;;
  d <- read_zip f ;;
  xs <- extents (zd_files d) szs ;;
  if 4611686018427387904 <=? zlen sblob then Err E_OOM else
  if negb apk_sign_block_from_sblob then Err E_PATCH else
  ps <- sign_patches d (next_file_offset xs) (mk_sig_block sblob) ;;
  splice f 0 ps.

(* the SPEC side is further down; the restricted instance needs its content-end function, so it is defined after it: see embed_wf *)

(* ================================================================== getSigBlock and the ID-value pair loop of verify *)
(* the bytes between the last member and the central directory: None = nothing there (not signed) *)
Definition gsb (input_len sig_loc dir_loc : Z) (gap : bytes) : result (option bytes) :=
  if apk_sb_unsigned sig_loc dir_loc then Ok None else
  if apk_sb_out_of_range sig_loc dir_loc then Err E_INVALID else
  _ <- alloc input_len (apk_sb_blob_len sig_loc dir_loc) ;;
  let blob := gap in
  if apk_sb_checks_magic_suffix && negb (has_suffix_b blob apk_sig_magic) then Err E_INVALID else
  if apk_sb_too_short (zlen blob) (zlen apk_sig_magic) then Err E_INVALID else
  let expected := apk_sb_expected (zlen blob) in
  t1 <- cslice (apk_sb_size1_off (zlen blob)) (zlen blob) blob ;;
  size1 <- cle 8 0 t1 ;;
  t2 <- cslice (apk_sb_size2_off (zlen blob)) (zlen blob) blob ;;
  size2 <- cle 8 0 t2 ;;
  if apk_sb_size_bad size1 size2 expected then Err E_INVALID else
  r <- cslice (apk_sb_pairs_lo (zlen blob)) (apk_sb_pairs_hi (zlen blob)) blob ;;
  Ok (Some r).
Definition locate (szs : list Z) (g : bytes) : result (option bytes) :=
  d <- read_zip g ;;
  if apk_sb_no_files (zlen (zd_files d)) then Err E_NOFILES else
  xs <- extents (zd_files d) szs ;;
  let sig_loc := next_file_offset xs in
  gsb (zlen g) sig_loc (zd_dirloc d) (zslice (apk_sb_read_at sig_loc (zd_dirloc d)) (zd_dirloc d) g).
(* all (id, value) pairs of the block, in order *)
Fixpoint pairs_raw (fuel : nat) (block : bytes) : result (list (Z * bytes)) :=
  match fuel with
  | O => Panic P_HANG
  | S k =>
      if apk_pair_more (zlen block) then
        if apk_pair_short (zlen block) then Err E_TRUNC else
        part_size <- cle 8 0 block ;;
        b1 <- cslice (apk_pair_after_size part_size) (zlen block) block ;;
        if apk_pair_size_bad part_size (zlen b1) then Err E_TRUNC else
        part_type <- cle 4 0 b1 ;;
        v <- cslice (apk_pair_value_lo part_size) (apk_pair_value_hi part_size) b1 ;;
        b2 <- cslice (apk_pair_next part_size) (zlen b1) b1 ;;
        r <- pairs_raw k b2 ;;
        Ok ((part_type, v) :: r)
      else Ok []
  end.
Definition v2_values (ps : list (Z * bytes)) : list bytes :=
  map snd (filter (fun p => negb (apk_pair_other (fst p))) ps).
(* what the verifier finds: the values of the v2 pairs; None = unsigned as far as v2 goes *)
Definition extract_all (szs : list Z) (g : bytes) : result (list bytes) :=
  b <- locate szs g ;;
  match b with
  | None => Ok []
  | Some block => ps <- pairs_raw (S (length block)) block ;; Ok (v2_values ps)
  end.
Definition extract (szs : list Z) (g : bytes) : result (option bytes) :=
  vs <- extract_all szs g ;; Ok (match vs with [] => None | v :: _ => Some v end).

(* ================================================================== marshal (serializer.go) over C11's value type *)
Definition lp (b : bytes) : bytes :=
  le_enc (Z.to_nat apk_m_prefix_width) (apk_m_prefix_val 0 (apk_m_prefix_width + zlen b)) ++ b.
Fixpoint enc (v : aval) : bytes :=
  match v with
  | AU32 z => le_enc (Z.to_nat apk_m_u32_width) z
  | ABytes b => lp b
  | ARaw raw => if apk_m_raw_verbatim && (apk_m_ix_raw <? apk_m_ix_prefix) then raw else lp raw
  | ASlice l => lp (concat (map enc l))
  | AStruct l => lp (concat (map enc l))
  end.
(* the schemas of structs.go, from the generated field classes *)
Definition schema_of_code (c : Z) : schema :=
  if c =? 0 then SU32 else if c =? 1 then SBytes else if c =? 2 then SRaw
  else if c =? 3 then SSlice (SStruct (map (fun k => if k =? 0 then SU32 else SBytes) apk_schema_attribute))
  else if c =? 4 then SSlice SBytes else SRaw.
Definition g_signer : schema := SStruct (map schema_of_code apk_schema_signer).
Definition g_signer_list : schema := SSlice g_signer.
Definition g_signed_data : schema := SStruct (map schema_of_code apk_schema_signed_data).
(* well-typed values whose lengths and integers fit their 32-bit fields *)
Fixpoint typed (fuel : nat) (s : schema) (v : aval) : bool :=
  match fuel with
  | O => false
  | S k =>
      match s, v with
      | SU32, AU32 z => (0 <=? z) && (z <? 4294967296)
      | SBytes, ABytes b => zlen b <? 4294967296
      | SRaw, ARaw raw => (4 <=? zlen raw) && (zlen raw - 4 <? 4294967296) && bytes_eqb (ztake 4 raw) (le_enc 4 (zlen raw - 4))
      | SSlice e, ASlice l => forallb (typed k e) l && (zlen (concat (map enc l)) <? 4294967296)
      | SStruct fs, AStruct l =>
          (fix go (fs : list schema) (l : list aval) : bool :=
             match fs, l with [], [] => true | f :: fs', x :: l' => typed k f x && go fs' l' | _, _ => false end) fs l
          && (zlen (concat (map enc l)) <? 4294967296)
      | _, _ => false
      end
  end.

(* what Digest.Sign assembles: signed data (one digest, the certificate chain, no attributes), one signer, one signature *)
Definition v_attr (id : Z) (value : bytes) : aval := AStruct [AU32 id; ABytes value].
Definition v_signed_data (sigid : Z) (digest : bytes) (certs : list bytes) : aval :=
  AStruct [ASlice (if apk_sign_one_digest then [v_attr sigid digest] else []);
           ASlice (if apk_sign_chain_certs then map ABytes certs else []); ASlice []].
Definition v_signer_list (sigid : Z) (digest : bytes) (certs : list bytes) (sigv pubkey : bytes) : aval :=
  ASlice (if apk_sign_one_signer then
            [AStruct [ARaw (enc (v_signed_data sigid digest certs)); ASlice [v_attr sigid sigv]; ABytes pubkey]] else []).
(* the bytes the signature value covers: apkRaw.Bytes() of the signed data, on both sides *)
Definition signed_bytes (raw : bytes) : bytes := zdrop apk_raw_body_off raw.
Definition sign_and_verify_cover_same_bytes : bool := apk_sign_over_signed_data_body && apk_vf_sig_over_signed_data_body.

(* signature type: selection in Digest.Sign, lookup in sigTypeByID, algorithms VerifySignature can check *)
Definition st_id (t : Z * Z * Z * bool) : Z := fst (fst (fst t)).
Definition st_hash (t : Z * Z * Z * bool) : Z := snd (fst (fst t)).
Definition st_alg (t : Z * Z * Z * bool) : Z := snd (fst t).
Definition st_pss (t : Z * Z * Z * bool) : bool := snd t.
Definition select_type (hash alg : Z) : option (Z * Z * Z * bool) :=
  match find (fun t => apk_sign_type_matches (st_hash t) hash (st_alg t) alg (st_pss t)) apk_sig_types with
  | Some t => if apk_sign_no_type (st_id t) then None else Some t
  | None => None
  end.
Definition type_by_id (id : Z) : option (Z * Z * Z * bool) :=
  match find (fun t => apk_st_id_matches (st_id t) id) apk_sig_types with
  | Some t => if apk_st_unknown (st_id t) then None else Some t
  | None => None
  end.
Definition verifiable_alg (alg : Z) : bool := existsb (Z.eqb alg) apk_vs_algs.

(* apkSigner.Verify: every signed digest is compared with the recomputed one (hmac.Equal over the whole value); the leaf certificate
   is the one whose SubjectPublicKeyInfo equals the signer's public key *)
Definition digests_match (signed computed : list bytes) : bool :=
  if apk_vf_compares_digests then list_eqb bytes_eqb signed computed else true.
Definition leaf_of (certs_spki : list bytes) (pubkey : bytes) : option Z :=
  if apk_vf_leaf_by_public_key then
    (fix go (i : Z) (l : list bytes) (acc : option Z) : option Z :=
       match l with [] => acc | c :: r => go (i + 1) r (if bytes_eqb c pubkey then Some i else acc) end) 0 certs_spki None
  else Some 0.

(* ================================================================== v1 / v2 binding *)
(* DigestManifest: the main section of the .SF as (name, value) attributes in the order written; only the statements that matter
   here are distinguished: Signature-Version first, the marker guarded by the flag, the blank line ends the section *)
Definition sf_main_attrs (apk_v2 : bool) (others : list (bytes * bytes)) : list (bytes * bytes) :=
  others ++ (if apk_sf_marker_guard_is_flag && apk_v2 && (apk_sf_ix_version <? apk_sf_ix_marker) && (apk_sf_ix_marker <? apk_sf_ix_blank)
             then [(apk_sf_marker_name, apk_sf_marker_value)] else []).
Definition write_attr (nv : bytes * bytes) : bytes := fst nv ++ [58; 32] ++ snd nv ++ [13; 10].   (* unfolded form: name ": " value CRLF *)
Definition sf_main (apk_v2 : bool) (others : list (bytes * bytes)) : bytes :=
  concat (map write_attr (sf_main_attrs apk_v2 others)) ++ [13; 10].
(* verify: after the v2 pass, every v1 signature whose header names a '2' needs a v2 signature *)
Definition v1_check (hdr_value : bytes) (n_v2_sigs : Z) : bool :=      (* true = rejected *)
  apk_v1_stripped hdr_value (apk_v2_present n_v2_sigs).
Definition header_names_agree : bool := bytes_eqb apk_v1_header_name apk_sf_marker_name.

(* ================================================================== SPEC: independent reader / writer *)
(* APPNOTE 4.3.16, archive without comment: (directory offset, directory size, the 22-byte record) *)
Definition spec_eocd (f : bytes) : option (Z * Z * bytes) :=
  let n := zlen f in
  if n <? 22 then None else
  let e := zdrop (n - 22) f in
  if negb (le_dec (ztake 4 e) =? 101010256) then None else          (* 0x06054b50 *)
  if negb (le_dec (zslice 20 22 e) =? 0) then None else              (* .ZIP file comment length *)
  let off := le_dec (zslice 16 20 e) in
  let sz := le_dec (zslice 12 16 e) in
  if negb (off + sz =? n - 22) then None else Some (off, sz, e).
Definition spec_magic : bytes := [65; 80; 75; 32; 83; 105; 103; 32; 66; 108; 111; 99; 107; 32; 52; 50].   (* "APK Sig Block 42" *)
(* "APK Signing Block": located immediately before the ZIP Central Directory: uint64 size of block (excluding this field),
   sequence of uint64-length-prefixed ID-value pairs, uint64 size of block (same as the first), uint128 magic *)
Inductive sblock := NoBlock | BadBlock | Block (start : Z) (pairs : bytes).
Definition spec_block (f : bytes) (cdoff : Z) : sblock :=
  if cdoff <? 32 then NoBlock else
  if negb (bytes_eqb (zslice (cdoff - 16) cdoff f) spec_magic) then NoBlock else
  let size2 := le_dec (zslice (cdoff - 24) (cdoff - 16) f) in
  if (size2 <? 24) || (cdoff <? size2 + 8) then BadBlock else
  let start := cdoff - size2 - 8 in
  let size1 := le_dec (zslice start (start + 8) f) in
  if negb (size1 =? size2) then BadBlock else Block start (zslice (start + 8) (cdoff - 24) f).
(* ID-value pairs: uint64 length, uint32 ID, value (length - 4 bytes) *)
Fixpoint spec_pairs (fuel : nat) (l : bytes) : option (list (Z * bytes)) :=
  match fuel with
  | O => None
  | S k =>
      if zlen l =? 0 then Some [] else
      if zlen l <? 12 then None else
      let n := le_dec (ztake 8 l) in
      if (n <? 4) || (zlen l - 8 <? n) then None else
      match spec_pairs k (zdrop (8 + n) l) with
      | Some r => Some ((le_dec (zslice 8 12 l), zslice 12 (8 + n) l) :: r)
      | None => None
      end
  end.
Definition spec_read_pairs (f : bytes) : option (list (Z * bytes)) :=
  match spec_eocd f with
  | Some (off, _, _) =>
      match spec_block f off with
      | Block _ p => spec_pairs (S (length p)) p
      | NoBlock => Some []
      | BadBlock => None
      end
  | None => None
  end.
(* writer of a block with arbitrary pairs *)
Definition spec_pair (p : Z * bytes) : bytes := le_enc 8 (4 + zlen (snd p)) ++ le_enc 4 (fst p) ++ snd p.
Definition spec_write_block (ps : list (Z * bytes)) : bytes :=
  let body := concat (map spec_pair ps) in
  le_enc 8 (zlen body + 24) ++ body ++ le_enc 8 (zlen body + 24) ++ spec_magic.
Definition V2_ID : Z := 1896449818.   (* 0x7109871a *)

(* "integrity-protected contents": section 1 = contents of ZIP entries (offset 0 .. start of the APK Signing Block), 3 = ZIP
   Central Directory, 4 = ZIP End of Central Directory with its central directory offset field set to the START OF THE SIGNING
   BLOCK.  These three are also everything of the file that is not signature: the payload. *)
Definition spec_sections (f : bytes) : option secs :=
  match spec_eocd f with
  | Some (off, sz, e) =>
      match spec_block f off with
      | BadBlock => None
      | NoBlock => Some (ztake off f, zslice off (off + sz) f, ztake 16 e ++ le_enc 4 off ++ zdrop 20 e)
      | Block start _ => Some (ztake start f, zslice off (off + sz) f, ztake 16 e ++ le_enc 4 start ++ zdrop 20 e)
      end
  | None => None
  end.
Definition spec_content_end (f : bytes) : option Z :=
  match spec_eocd f with
  | Some (off, _, _) => match spec_block f off with BadBlock => None | NoBlock => Some off | Block s _ => Some s end
  | None => None
  end.

(* length-prefixed (uint32) items, sequences of them; signer, signed data, digests, certificates, attributes *)
Definition spec_lp_take (l : bytes) : option (bytes * bytes) :=
  if zlen l <? 4 then None else
  let n := le_dec (ztake 4 l) in
  if zlen l - 4 <? n then None else Some (zslice 4 (4 + n) l, zdrop (4 + n) l).
Fixpoint spec_lp_seq (fuel : nat) (l : bytes) : option (list bytes) :=
  match fuel with
  | O => None
  | S k =>
      if zlen l =? 0 then Some [] else
      match spec_lp_take l with
      | Some (x, r) => match spec_lp_seq k r with Some xs => Some (x :: xs) | None => None end
      | None => None
      end
  end.
Definition spec_seq (l : bytes) : option (list bytes) := spec_lp_seq (S (length l)) l.
Fixpoint opt_all {A} (l : list (option A)) : option (list A) :=
  match l with [] => Some [] | Some x :: r => match opt_all r with Some xs => Some (x :: xs) | None => None end | None :: _ => None end.
(* digest / signature: ID (uint32), length-prefixed value *)
Definition spec_id_lpvalue (x : bytes) : option (Z * bytes) :=
  if zlen x <? 4 then None else
  match spec_lp_take (zdrop 4 x) with
  | Some (v, []) => Some (le_dec (ztake 4 x), v)
  | _ => None
  end.
(* additional attribute: ID (uint32), value (the rest of the item: NOT length-prefixed) *)
Definition spec_id_rawvalue (x : bytes) : option (Z * bytes) :=
  if zlen x <? 4 then None else Some (le_dec (ztake 4 x), zdrop 4 x).
Record spec_sd := mkSsd { ssd_digests : list (Z * bytes); ssd_certs : list bytes; ssd_attrs : list (Z * bytes) }.
Definition spec_signed_data (body : bytes) : option spec_sd :=
  match spec_lp_take body with
  | Some (dg, r1) =>
      match spec_lp_take r1 with
      | Some (ce, r2) =>
          match spec_lp_take r2 with
          | Some (at_, []) =>
              match spec_seq dg, spec_seq ce, spec_seq at_ with
              | Some ds, Some cs, Some ats =>
                  match opt_all (map spec_id_lpvalue ds), opt_all (map spec_id_rawvalue ats) with
                  | Some ds', Some ats' => Some (mkSsd ds' cs ats')
                  | _, _ => None
                  end
              | _, _, _ => None
              end
          | _ => None
          end
      | None => None
      end
  | None => None
  end.
Record spec_signer := mkSsg { ssg_signed : bytes; ssg_sd : spec_sd; ssg_sigs : list (Z * bytes); ssg_key : bytes }.
Definition spec_signer_of (x : bytes) : option spec_signer :=
  match spec_lp_take x with
  | Some (sdb, r1) =>
      match spec_lp_take r1 with
      | Some (sg, r2) =>
          match spec_lp_take r2 with
          | Some (pk, []) =>
              match spec_signed_data sdb, spec_seq sg with
              | Some sd, Some sgs =>
                  match opt_all (map spec_id_lpvalue sgs) with
                  | Some sgs' => Some (mkSsg sdb sd sgs' pk)
                  | None => None
                  end
              | _, _ => None
              end
          | _ => None
          end
      | None => None
      end
  | None => None
  end.
(* the value of the v2 pair: length-prefixed sequence of length-prefixed signers *)
Definition spec_v2_value (v : bytes) : option (list spec_signer) :=
  match spec_lp_take v with
  | Some (body, []) => match spec_seq body with Some xs => opt_all (map spec_signer_of xs) | None => None end
  | _ => None
  end.
(* spec writer of an additional attribute (stripping protection: ID 0xbeeff00d, value uint32 3 = scheme v3) *)
Definition spec_lp (b : bytes) : bytes := le_enc 4 (zlen b) ++ b.
Definition spec_attr (id : Z) (value : bytes) : bytes := spec_lp (le_enc 4 id ++ value).
Definition STRIPPING_PROTECTION_ID : Z := 3203395597.   (* 0xbeeff00d *)

(* JAR signature file main section (JAR specification: "name: value" lines, a blank line ends the section) *)
Fixpoint spec_lines (fuel : nat) (l cur : bytes) : list bytes :=
  match fuel with
  | O => []
  | S k =>
      match l with
      | 13 :: 10 :: r => rev cur :: spec_lines k r []
      | c :: r => spec_lines k r (c :: cur)
      | [] => match cur with [] => [] | _ => [rev cur] end
      end
  end.
Fixpoint spec_main_lines (ls : list bytes) : list bytes :=
  match ls with [] => [] | [] :: _ => [] | x :: r => x :: spec_main_lines r end.
Fixpoint split_colon (l acc : bytes) : option (bytes * bytes) :=
  match l with
  | 58 :: 32 :: r => Some (rev acc, r)
  | c :: r => split_colon r (c :: acc)
  | [] => None
  end.
Definition spec_sf_lookup (sf name : bytes) : option bytes :=
  let ls := spec_main_lines (spec_lines (S (length sf)) sf []) in
  match find (fun nv => match nv with Some (n, _) => bytes_eqb n name | None => false end) (map (fun l => split_colon l []) ls) with
  | Some (Some (_, v)) => Some v
  | _ => None
  end.

(* ================================================================== the class the payload law is stated for *)
(* members back to back from offset 0 in directory order (nothing in front of the directory belongs to no member), at least one
   member, an end record exactly as WriteDirectory would write it, and the documentation's reader and the ZIP layer agree on where
   the content ends (the bytes between the last member and the directory are empty or one well-formed signing block) *)
Fixpoint contigb (pos : Z) (xs : list (Z * Z)) : bool :=
  match xs with [] => true | (o, s) :: r => (o =? pos) && (0 <=? s) && contigb (o + s) r end.
Definition wfb (szs : list Z) (f : bytes) : bool :=
  match read_zip f with
  | Ok d =>
      match extents (zd_files d) szs with
      | Ok xs =>
          contigb 0 xs && negb (zlen (zd_files d) =? 0)
          && bytes_eqb (zd_end d) (fresh_end (zlen (zd_files d)) (zlen (cdir_bytes (zd_files d))) (zd_dirloc d))
          && match spec_content_end f with Some s => s =? next_file_offset xs | None => false end
      | _ => false
      end
  | _ => false
  end.
Definition embed_wf (szs : list Z) (f sblob : bytes) : result bytes := if wfb szs f then embed szs f sblob else Err E_DOMAIN.
