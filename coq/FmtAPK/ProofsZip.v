(* FmtAPK/ProofsZip.v — the ZIP layer as far as the APK code needs it: the directory walk, read_zip as a decomposition
   f = pre ++ directory ++ end record, member dumps. *)
From Relic Require Import Base.Prelude Base.Enc Generated.C11_gen Generated.FmtAPK_gen FmtAPK.Model FmtAPK.Lib.

Lemma fld_app_l off w (a b : bytes) : 0 <= off -> off + w <= zlen a -> fld off w (a ++ b) = fld off w a.
Proof. intros H1 H2. unfold fld. rewrite zslice_app_l by lia. reflexivity. Qed.

(* ------------------------------------------------------------------ central directory headers *)
Definition hdr_ok (H : bytes) : Prop :=
  46 <= zlen H /\ fld 0 4 H = apk_z_cdh_sig /\ hdr_len H = zlen H /\ hdr_saturated H = false.
Inductive cd_headers : bytes -> list cdent -> Prop :=
| cdh_nil : cd_headers [] []
| cdh_cons H C es : hdr_ok H -> cd_headers C es -> cd_headers (H ++ C) (mkCd H (hdr_off H) (hdr_rv H) :: es).

Lemma hdr_fields_app H X : 46 <= zlen H ->
  hdr_fn (H ++ X) = hdr_fn H /\ hdr_ex (H ++ X) = hdr_ex H /\ hdr_cm (H ++ X) = hdr_cm H /\ hdr_off (H ++ X) = hdr_off H /\
  hdr_rv (H ++ X) = hdr_rv H /\ hdr_saturated (H ++ X) = hdr_saturated H /\ fld 0 4 (H ++ X) = fld 0 4 H /\ hdr_len (H ++ X) = hdr_len H.
Proof.
  intros L. unfold hdr_len, hdr_saturated, hdr_fn, hdr_ex, hdr_cm, hdr_off, hdr_rv.
  unfold apk_zcd_off_FilenameLen, apk_zcd_w_FilenameLen, apk_zcd_off_ExtraLen, apk_zcd_w_ExtraLen, apk_zcd_off_CommentLen, apk_zcd_w_CommentLen,
    apk_zcd_off_Offset, apk_zcd_w_Offset, apk_zcd_off_ReaderVersion, apk_zcd_w_ReaderVersion, apk_zcd_off_CompressedSize, apk_zcd_w_CompressedSize,
    apk_zcd_off_UncompressedSize, apk_zcd_w_UncompressedSize.
  rewrite !(fld_app_l _ _ H X) by lia. repeat split; reflexivity.
Qed.

Lemma cd_headers_bytes C es : cd_headers C es -> C = cdir_bytes es.
Proof. induction 1 as [|H C es Hh Hc IH]; [reflexivity|]. unfold cdir_bytes in *. cbn [map concat cd_raw]. now rewrite <- IH. Qed.
Lemma cd_headers_count C es : cd_headers C es -> (length es <= length C)%nat.
Proof.
  induction 1 as [|H C es [L _] Hc IH]; [cbn; lia|]. cbn [length]. rewrite app_length. unfold zlen in L. lia.
Qed.

Lemma walk_build C es : cd_headers C es -> forall e k, 4 <= zlen e -> (fld 0 4 e =? apk_z_cdh_sig) = false -> (length es < k)%nat ->
  walk k (C ++ e) = Ok (es, e).
Proof.
  induction 1 as [|H C es Hh Hc IH]; intros e k Le Se Hk.
  - destruct k as [|k]; [cbn in Hk; lia|]. cbn [app walk]. unfold apk_z_rw_short, apk_z_rw_stops_at_other_sig.
    replace (zlen e <? 4) with false by lia. rewrite Se. reflexivity.
  - destruct k as [|k]; [cbn in Hk; lia|]. cbn [length] in Hk. rewrite <- app_assoc.
    destruct Hh as (L & Sg & Hl & Sat).
    destruct (hdr_fields_app H (C ++ e) L) as (Efn & Eex & Ecm & Eoff & Erv & Esat & Esig & Elen).
    cbn [walk]. rewrite Efn, Eex, Ecm, Eoff, Erv, Esat, Esig, Elen, Sg, Sat, Hl.
    unfold apk_z_rw_short, apk_z_rw_stops_at_other_sig, apk_z_rw_hdr_short, apk_z_rw_entry_short.
    assert (Lz : zlen (H ++ C ++ e) = zlen H + zlen (C ++ e)) by apply zlen_app. pose proof (zlen_nonneg (C ++ e)).
    replace (zlen (H ++ C ++ e) <? 4) with false by lia. rewrite Z.eqb_refl. cbn [negb andb].
    replace (zlen (H ++ C ++ e) <? 46) with false by lia.
    unfold hdr_len, apk_z_cdh_len in Hl.
    replace (zlen (H ++ C ++ e) <? 46 + hdr_fn H + hdr_ex H + hdr_cm H) with false by lia.
    unfold apk_z_cdh_len. replace (zlen H <? 46) with false by lia.
    rewrite zdrop_app_exact, ztake_app_exact. rewrite (IH e k Le Se ltac:(lia)). reflexivity.
Qed.

Lemma walk_inv k : forall cd es e, walk k cd = Ok (es, e) ->
  exists C, cd = C ++ e /\ cd_headers C es /\ 4 <= zlen e /\ (fld 0 4 e =? apk_z_cdh_sig) = false.
Proof.
  induction k as [|k IH]; intros cd es e Hw; [discriminate|].
  cbn [walk] in Hw. unfold apk_z_rw_short, apk_z_rw_stops_at_other_sig, apk_z_rw_hdr_short, apk_z_rw_entry_short in Hw.
  destruct (zlen cd <? 4) eqn:E1; [discriminate|]. cbn [andb] in Hw.
  destruct (fld 0 4 cd =? apk_z_cdh_sig) eqn:E2; cbn [negb] in Hw.
  - destruct (zlen cd <? 46) eqn:E3; [discriminate|].
    destruct (zlen cd <? 46 + hdr_fn cd + hdr_ex cd + hdr_cm cd) eqn:E4; [discriminate|].
    destruct (hdr_saturated cd) eqn:E5; [discriminate|].
    destruct (hdr_len cd <? apk_z_cdh_len) eqn:E6; [discriminate|]. unfold apk_z_cdh_len in E6.
    destruct (walk k (zdrop (hdr_len cd) cd)) as [[es' e']| |] eqn:Hr; cbn [bind fst snd] in Hw; try discriminate.
    injection Hw as <- <-.
    destruct (IH _ _ _ Hr) as (C & Ec & Hc & Le & Se).
    assert (Hlen : hdr_len cd = 46 + hdr_fn cd + hdr_ex cd + hdr_cm cd) by reflexivity.
    exists (ztake (hdr_len cd) cd ++ C). split; [|split; [|split; assumption]].
    + rewrite <- app_assoc, <- Ec. symmetry. apply ztake_zdrop.
    + set (H := ztake (hdr_len cd) cd).
      assert (Hnn : 46 <= hdr_len cd) by lia.
      assert (LH : zlen H = hdr_len cd) by (unfold H; apply zlen_ztake; lia).
      assert (Ecd : cd = H ++ zdrop (hdr_len cd) cd) by (symmetry; apply ztake_zdrop).
      destruct (hdr_fields_app H (zdrop (hdr_len cd) cd) ltac:(lia)) as (Efn & Eex & Ecm & Eoff & Erv & Esat & Esig & Elen).
      rewrite <- Ecd in *.
      replace (hdr_off cd) with (hdr_off H) by (symmetry; exact Eoff). replace (hdr_rv cd) with (hdr_rv H) by (symmetry; exact Erv).
      constructor; [|exact Hc]. repeat split; try lia.
      rewrite <- Esat. exact E5.
  - injection Hw as <- <-. exists []. repeat split; [constructor|lia|exact E2].
Qed.

(* ------------------------------------------------------------------ read_zip = a decomposition of the file *)
Definition end_ok (e : bytes) (dirloc : Z) : Prop :=
  zlen e = 22 /\ fld 0 4 e = apk_z_end_sig /\ apk_z_fd_zip64 (end_total e) (end_cdsize e) (end_cdoff e) = false /\ end_cdoff e = dirloc.

Lemma end_sig_fld e : end_sig e = fld 0 4 e.
Proof. reflexivity. Qed.

Lemma read_zip_inv f d : read_zip f = Ok d ->
  f = ztake (zd_dirloc d) f ++ cdir_bytes (zd_files d) ++ zd_end d /\ 0 <= zd_dirloc d <= zlen f /\
  cd_headers (cdir_bytes (zd_files d)) (zd_files d) /\ end_ok (zd_end d) (zd_dirloc d).
Proof.
  unfold read_zip, find_directory. unfold apk_z_fd_pos, apk_z_loc64_len, apk_z_end_len, apk_z_fd_bad_sig, apk_z_loc_oob, apk_z_rw_dirloc.
  replace (zlen f - 22 - 20 + 20) with (zlen f - 22) by lia. set (e0 := zdrop (zlen f - 22) f). rewrite end_sig_fld.
  destruct (zlen f <? 22) eqn:E0; [discriminate|].
  destruct (negb (fld 0 4 e0 =? apk_z_end_sig)) eqn:E1; [discriminate|].
  destruct (apk_z_fd_zip64 (end_total e0) (end_cdsize e0) (end_cdoff e0)) eqn:E2; [discriminate|].
  cbn [bind]. set (loc := end_cdoff e0).
  destruct ((loc <? 0) || (loc >? zlen f)) eqn:E3; [discriminate|].
  set (cd := zdrop loc f).
  destruct (walk (S (length cd)) cd) as [[es rem]| |] eqn:Hw; cbn [bind fst snd]; try discriminate.
  destruct (fld 0 4 rem =? apk_z_end64_sig) eqn:E4; [discriminate|].
  destruct (negb (fld 0 4 rem =? apk_z_end_sig)) eqn:E5; [discriminate|].
  destruct (negb (zlen rem =? 22)) eqn:E6; [discriminate|].
  intros Hd. injection Hd as <-. cbn [zd_dirloc zd_files zd_end].
  destruct (walk_inv _ _ _ _ Hw) as (C & Ec & Hc & _ & _).
  assert (Lcd : zlen cd = zlen f - loc) by (unfold cd; apply zlen_zdrop; lia).
  rewrite Lcd. replace (zlen f - (zlen f - loc)) with loc by lia.
  pose proof (cd_headers_bytes _ _ Hc) as EC. subst C.
  assert (Ef : f = ztake loc f ++ cdir_bytes es ++ rem) by (rewrite <- Ec; symmetry; apply ztake_zdrop).
  assert (Lr : zlen rem = 22) by lia.
  assert (Erem : rem = e0).
  { unfold e0. rewrite Ef at 2. rewrite app_assoc. symmetry. apply zdrop_app_exact'.
    apply (f_equal (@zlen Z)) in Ef. rewrite !zlen_app in Ef. rewrite zlen_app. lia. }
  split; [exact Ef|]. split; [lia|]. split; [exact Hc|].
  unfold end_ok. rewrite Erem. repeat split.
  - rewrite <- Erem. exact Lr.
  - apply Z.eqb_eq. destruct (fld 0 4 e0 =? apk_z_end_sig); [reflexivity|discriminate].
  - exact E2.
Qed.

Lemma end_sigs_differ : (apk_z_end_sig =? apk_z_cdh_sig) = false /\ (apk_z_end_sig =? apk_z_end64_sig) = false.
Proof. split; reflexivity. Qed.

Lemma read_zip_build pre es e : cd_headers (cdir_bytes es) es -> end_ok e (zlen pre) ->
  read_zip (pre ++ cdir_bytes es ++ e) = Ok (mkZd es (zlen pre) e).
Proof.
  intros Hc (Le & Sg & Z64 & Off). set (C := cdir_bytes es) in *. set (f := pre ++ C ++ e).
  assert (Lf : zlen f = zlen pre + zlen C + 22) by (unfold f; rewrite !zlen_app; lia).
  pose proof (zlen_nonneg pre). pose proof (zlen_nonneg C).
  unfold read_zip, find_directory. unfold apk_z_fd_pos, apk_z_loc64_len, apk_z_end_len, apk_z_fd_bad_sig, apk_z_loc_oob, apk_z_rw_dirloc.
  replace (zlen f - 22 - 20 + 20) with (zlen f - 22) by lia.
  assert (E0 : zdrop (zlen f - 22) f = e).
  { unfold f. rewrite app_assoc. apply zdrop_app_exact'. rewrite zlen_app. lia. }
  rewrite E0, end_sig_fld, Sg, Z.eqb_refl, Z64, Off. replace (zlen f <? 22) with false by lia. cbn [negb bind].
  replace ((zlen pre <? 0) || (zlen pre >? zlen f)) with false by lia.
  assert (Ecd : zdrop (zlen pre) f = C ++ e) by (unfold f; apply zdrop_app_exact).
  rewrite Ecd.
  destruct end_sigs_differ as [D1 D2].
  rewrite (walk_build C es Hc e (S (length (C ++ e)))); [| lia | rewrite Sg; exact D1 |].
  - cbn [bind fst snd]. rewrite Sg, D2, Z.eqb_refl. cbn [negb]. replace (zlen e =? 22) with true by lia. cbn [negb].
    f_equal. f_equal. rewrite zlen_app. lia.
  - pose proof (cd_headers_count _ _ Hc). rewrite app_length. lia.
Qed.

(* ------------------------------------------------------------------ extents, dumps *)
Lemma extents_length es szs xs : extents es szs = Ok xs -> length xs = length es.
Proof.
  revert szs xs. induction es as [|e es IH]; intros [|s szs] xs H; cbn [extents] in H; try discriminate.
  - injection H as <-. reflexivity.
  - destruct (extents es szs) as [r| |] eqn:E; cbn [bind] in H; try discriminate. injection H as <-. cbn [length]. f_equal. eapply IH. exact E.
Qed.

(* every extent lies in [pos, ext_end], in order: what a successful streamed dump establishes *)
Fixpoint ordered (pos : Z) (xs : list (Z * Z)) : Prop :=
  match xs with [] => True | (o, s) :: r => pos <= o /\ 0 <= s /\ ordered (o + s) r end.
Lemma ordered_end pos xs : ordered pos xs -> pos <= ext_end pos xs.
Proof.
  revert pos. induction xs as [|[o s] r IH]; intros pos H; cbn [ext_end]; [lia|].
  destruct H as (H1 & H2 & H3). specialize (IH _ H3). lia.
Qed.
Lemma dump_stream_ordered f pos xs s1 : 0 <= pos <= zlen f -> dump_all Stream f pos xs = Ok s1 -> ordered pos xs /\ ext_end pos xs <= zlen f.
Proof.
  revert pos s1. induction xs as [|[o s] r IH]; intros pos s1 Hp H; cbn [dump_all ordered ext_end] in *.
  - split; [exact I|lia].
  - destruct ((o <? 0) || (s <? 0) || (zlen f <? o + s)) eqn:E1; [discriminate|].
    destruct (o <? pos) eqn:E2; [discriminate|].
    destruct (dump_all Stream f (o + s) r) as [rest| |] eqn:E3; cbn [bind] in H; try discriminate.
    destruct (IH (o + s) rest ltac:(lia) E3) as [H1 H2]. repeat split; try lia; assumption.
Qed.

Definition slices (f : bytes) (xs : list (Z * Z)) : bytes := concat (map (fun x => zslice (fst x) (fst x + snd x) f) xs).
Lemma dump_ok m f pos xs : 0 <= pos -> ordered pos xs -> ext_end pos xs <= zlen f -> dump_all m f pos xs = Ok (slices f xs).
Proof.
  revert pos. induction xs as [|[o s] r IH]; intros pos Hp Ho He; cbn [dump_all ordered ext_end slices map concat fst snd] in *; [reflexivity|].
  destruct Ho as (H1 & H2 & H3). pose proof (ordered_end _ _ H3).
  replace ((o <? 0) || (s <? 0) || (zlen f <? o + s)) with false by lia.
  replace (match m with Stream => o <? pos | Random => false end) with false by (destruct m; lia).
  rewrite (IH (o + s)) by (try assumption; lia). reflexivity.
Qed.
Lemma slices_agree n f f' pos xs : 0 <= pos -> ordered pos xs -> ext_end pos xs <= n -> ztake n f = ztake n f' -> slices f xs = slices f' xs.
Proof.
  revert pos. induction xs as [|[o s] r IH]; intros pos Hp Ho He Ha; cbn [ordered ext_end slices map concat fst snd] in *; [reflexivity|].
  destruct Ho as (H1 & H2 & H3). pose proof (ordered_end _ _ H3). f_equal.
  - rewrite <- (zslice_ztake f o (o + s) n), <- (zslice_ztake f' o (o + s) n) by lia. now rewrite Ha.
  - apply (IH (o + s)); try assumption; lia.
Qed.
(* members back to back from pos *)
Fixpoint contig (pos : Z) (xs : list (Z * Z)) : Prop :=
  match xs with [] => True | (o, s) :: r => o = pos /\ 0 <= s /\ contig (o + s) r end.
Lemma contig_ordered pos xs : contig pos xs -> ordered pos xs.
Proof. revert pos. induction xs as [|[o s] r IH]; intros pos H; cbn [contig ordered] in *; [exact I|]. destruct H as (-> & H2 & H3). repeat split; try lia. apply IH. exact H3. Qed.
Lemma slices_contig f pos xs : 0 <= pos -> contig pos xs -> ext_end pos xs <= zlen f -> slices f xs = zslice pos (ext_end pos xs) f.
Proof.
  revert pos. induction xs as [|[o s] r IH]; intros pos Hp Hc He; cbn [contig ext_end slices map concat fst snd] in *.
  - unfold zslice. rewrite Z.sub_diag. reflexivity.
  - destruct Hc as (-> & H2 & H3). pose proof (ordered_end _ _ (contig_ordered _ _ H3)).
    fold (slices f r). rewrite (IH (pos + s)) by (try assumption; lia). symmetry. apply zslice_split; lia.
Qed.
Lemma nfo_eq xs : next_file_offset xs = ext_end 0 xs.
Proof.
  unfold next_file_offset, apk_z_nfo_empty. change (apk_z_nfo_last_end && apk_z_nfo_uses_last) with true. cbv iota.
  destruct xs as [|x r]; [reflexivity|]. rewrite zlen_cons. pose proof (zlen_nonneg r). replace (1 + zlen r =? 0) with false by lia. reflexivity.
Qed.
