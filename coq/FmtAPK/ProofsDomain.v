(* FmtAPK/ProofsDomain.v — the class wfb: closed under signing, payload kept, relic's digest input = the documentation's
   sections, tamper protection in the documentation's terms, the end record fix-up. *)
From Relic Require Import Base.Prelude Base.Enc Generated.C11_gen Generated.FmtAPK_gen FmtAPK.Model FmtAPK.Lib FmtAPK.ProofsZip FmtAPK.ProofsBlock FmtAPK.ProofsLaws.
From Relic Require C11.Model.
Import C11.Model.

Lemma contigb_spec pos xs : contigb pos xs = true <-> contig pos xs.
Proof.
  revert pos. induction xs as [|[o s] r IH]; intros pos; cbn [contigb contig]; [tauto|].
  rewrite !andb_true_iff, IH. split; intros H.
  - destruct H as [[H1 H2] H3]. repeat split; try lia. exact H3.
  - destruct H as (H1 & H2 & H3). repeat split; try lia. exact H3.
Qed.

Record wf_view (szs : list Z) (f : bytes) (d : zdir) (xs : list (Z * Z)) : Prop := mkWf {
  wv_read : read_zip f = Ok d;
  wv_ext : extents (zd_files d) szs = Ok xs;
  wv_contig : contig 0 xs;
  wv_nonempty : zd_files d <> [];
  wv_end : zd_end d = fresh_for (zd_files d) (zd_dirloc d);
  wv_spec : spec_content_end f = Some (ext_end 0 xs) }.

Lemma wfb_view szs f : wfb szs f = true <-> exists d xs, wf_view szs f d xs.
Proof.
  unfold wfb. split.
  - destruct (read_zip f) as [d| |] eqn:Er; try discriminate.
    destruct (extents (zd_files d) szs) as [xs| |] eqn:Ex; try discriminate.
    rewrite !andb_true_iff. intros [[[H1 H2] H3] H4]. exists d, xs. constructor; try assumption.
    + apply contigb_spec. exact H1.
    + intros E. rewrite E in H2. discriminate.
    + apply bytes_eqb_eq in H3. exact H3.
    + destruct (spec_content_end f) as [s|]; [|discriminate]. rewrite nfo_eq in H4. f_equal. lia.
  - intros (d & xs & [Er Ex Hc Hn He Hs]). rewrite Er, Ex, Hs, nfo_eq, Z.eqb_refl.
    replace (contigb 0 xs) with true by (symmetry; apply contigb_spec; exact Hc).
    fold (fresh_for (zd_files d) (zd_dirloc d)). rewrite <- He, bytes_eqb_refl.
    destruct (zd_files d) as [|x r]; [contradiction|]. rewrite zlen_cons. pose proof (zlen_nonneg r). replace (1 + zlen r =? 0) with false by lia. reflexivity.
Qed.

(* what the documentation's reader sees in a file of the class *)
Lemma spec_sections_of_end f s : spec_content_end f = Some s ->
  exists off sz e, spec_eocd f = Some (off, sz, e) /\
    spec_sections f = Some (ztake s f, zslice off (off + sz) f, ztake 16 e ++ le_enc 4 s ++ zdrop 20 e).
Proof.
  unfold spec_content_end, spec_sections. destruct (spec_eocd f) as [[[off sz] e]|]; [|discriminate].
  destruct (spec_block f off) as [| |st p]; intros H; try discriminate; injection H as <-; exists off, sz, e; split; reflexivity.
Qed.

Lemma spec_eocd_view f d off sz e : read_zip f = Ok d -> zd_end d = fresh_for (zd_files d) (zd_dirloc d) -> spec_eocd f = Some (off, sz, e) ->
  e = zd_end d /\ off = zd_dirloc d /\ sz = zlen (cdir_bytes (zd_files d)) /\ zslice off (off + sz) f = cdir_bytes (zd_files d).
Proof.
  intros Er He. destruct (read_zip_inv _ _ Er) as (Ef & Hd & Hc & (Le & Sg & Z64 & Off)).
  set (dl := zd_dirloc d) in *. set (C := cdir_bytes (zd_files d)) in *. pose proof (zlen_nonneg C).
  assert (Lf : zlen f = dl + zlen C + 22).
  { pose proof (f_equal (@zlen Z) Ef) as L. rewrite !zlen_app, zlen_ztake in L by lia. lia. }
  assert (Ee : zdrop (zlen f - 22) f = zd_end d).
  { rewrite Ef at 2. rewrite app_assoc. apply zdrop_app_exact'. rewrite zlen_app, zlen_ztake by lia. lia. }
  unfold spec_eocd. cbv zeta. rewrite Ee. destruct (zlen f <? 22); [discriminate|].
  destruct (negb (le_dec (ztake 4 (zd_end d)) =? 101010256)); [discriminate|].
  destruct (negb (le_dec (zslice 20 22 (zd_end d)) =? 0)); [discriminate|].
  change (le_dec (zslice 16 20 (zd_end d))) with (end_cdoff (zd_end d)). rewrite Off.
  destruct (negb (dl + le_dec (zslice 12 16 (zd_end d)) =? zlen f - 22)) eqn:E; [discriminate|].
  intros Hq. injection Hq as <- <- <-.
  assert (Es : le_dec (zslice 12 16 (zd_end d)) = zlen C) by lia.
  rewrite Es. repeat split. rewrite Ef at 1. apply zslice_app_mid; rewrite ?zlen_ztake by lia; lia.
Qed.

Lemma spec_sections_wf szs f d xs : wf_view szs f d xs ->
  spec_sections f = Some (ztake (ext_end 0 xs) f, cdir_bytes (zd_files d), fresh_for (zd_files d) (ext_end 0 xs)).
Proof.
  intros [Er Ex Hc Hn He Hs]. destruct (spec_sections_of_end _ _ Hs) as (off & sz & e & Eo & Es).
  destruct (spec_eocd_view _ _ _ _ _ Er He Eo) as (-> & -> & -> & Ec). rewrite Es, Ec.
  change (ztake 16 (zd_end d) ++ le_enc 4 (ext_end 0 xs) ++ zdrop 20 (zd_end d)) with (set_cdoff (zd_end d) (ext_end 0 xs)).
  rewrite He. unfold fresh_for. rewrite set_cdoff_fresh. reflexivity.
Qed.

(* C05: on the class, the bytes relic digests when signing are the documentation's sections 1, 3, 4 *)
Lemma hashin_sign_eq_spec szs f s : wfb szs f = true -> hashin_sign szs f = Ok s -> spec_sections f = Some s.
Proof.
  intros Hw Hh. apply wfb_view in Hw. destruct Hw as (d & xs & V). rewrite (spec_sections_wf _ _ _ _ V). destruct V as [Er Ex Hc Hn He Hs].
  destruct (hashin_sign_inv _ _ _ Hh) as (d' & xs' & Er' & Ex' & Ho & Hl & Hwd & ->).
  rewrite Er in Er'. apply Ok_inj in Er'. subst d'. rewrite Ex in Ex'. apply Ok_inj in Ex'. subst xs'.
  rewrite (slices_contig f 0 xs) by (try assumption; lia). rewrite zslice_0. reflexivity.
Qed.

(* C05 / C02: on the class, the bytes relic's VERIFIER digests are the documentation's sections *)
Lemma hashin_verify_eq_spec szs g s : wfb szs g = true -> hashin_verify szs g = Ok s -> spec_sections g = Some s.
Proof.
  intros Hw Hh. apply wfb_view in Hw. destruct Hw as (d & xs & V). rewrite (spec_sections_wf _ _ _ _ V). destruct V as [Er Ex Hc Hn He Hs].
  destruct (read_zip_inv _ _ Er) as (Ef & Hd & Hcd & (Le & Sg & Z64 & Off)).
  pose proof (contig_ordered _ _ Hc) as Ho. pose proof (ordered_end _ _ Ho) as Hs0.
  revert Hh. unfold hashin_verify. rewrite Er. cbn [bind]. rewrite Ex. cbn [bind].
  destruct (dump_all Random g 0 xs) as [s1| |] eqn:Ed; cbn [bind]; try discriminate.
  rewrite nfo_eq. unfold finish. change apk_vf_finish_modified with false. change apk_fin_original_when_unmodified with true. change apk_fin_trim with true. cbv iota.
  unfold apk_fin_dirloc_too_big. destruct (zd_dirloc d >=? Z.shiftl 1 32) eqn:Eb; [discriminate|]. change (Z.shiftl 1 32) with 4294967296 in Eb.
  unfold get_original. cbn [zd_files zd_dirloc zd_end]. rewrite end_sig_fld, Sg. change (apk_z_go_new_zip apk_z_end_sig) with false. cbv iota.
  change apk_z_go_force_zip64 with false.
  destruct (write_directory (zd_files d) (zd_dirloc d) false) as [w| |] eqn:Ew; cbn [bind]; try discriminate.
  destruct (write_directory_inv _ _ _ Ew) as [Hwd ->]. cbn [fst snd].
  unfold apk_z_go_delta, apk_z_go_delta_bad.
  destruct ((zd_dirloc d - ext_end 0 xs <? 0) || (zd_dirloc d - ext_end 0 xs >? apk_z_u32max)) eqn:Edl; [discriminate|].
  rewrite Off. unfold apk_z_go_adjust_end. change (0 =? 0) with true. rewrite orb_true_r. change apk_z_go_subtracts_delta with true. cbn [andb].
  intros H. apply Ok_inj in H. subst s.
  rewrite He. unfold fresh_for. rewrite set_cdoff_fresh. replace (zd_dirloc d - (zd_dirloc d - ext_end 0 xs)) with (ext_end 0 xs) by lia.
  assert (Es1 : s1 = ztake (ext_end 0 xs) g).
  { assert (Hle : ext_end 0 xs <= zlen g) by lia.
    rewrite (dump_ok Random g 0 xs) in Ed by (try assumption; lia). apply Ok_inj in Ed. subst s1.
    rewrite (slices_contig g 0 xs) by (try assumption; lia). apply zslice_0. }
  rewrite Es1. reflexivity.
Qed.

(* C02: two files of the class with the same verifier digest input agree on everything the scheme protects *)
Lemma protect szs1 szs2 g1 g2 s : wfb szs1 g1 = true -> wfb szs2 g2 = true ->
  hashin_verify szs1 g1 = Ok s -> hashin_verify szs2 g2 = Ok s -> spec_sections g1 = spec_sections g2.
Proof. intros W1 W2 H1 H2. rewrite (hashin_verify_eq_spec _ _ _ W1 H1), (hashin_verify_eq_spec _ _ _ W2 H2). reflexivity. Qed.

(* the class is closed under signing; the payload (the documentation's three sections) is kept *)
Lemma wf_closed szs f b g : wfb szs f = true -> embed szs f b = Ok g -> wfb szs g = true.
Proof.
  intros Hw He. apply wfb_view in Hw. destruct Hw as (d & xs & [Er Ex Hc Hn Hend Hs]).
  destruct (signed_facts _ _ _ _ He) as (d' & xs' & Er' & Ex' & Ho & Hsl & Hdl & Hw1 & Hw2 & Hb & Eg & Erg & Esl & Ehf).
  rewrite Er in Er'. apply Ok_inj in Er'. subst d'. rewrite Ex in Ex'. apply Ok_inj in Ex'. subst xs'.
  destruct (spec_view _ _ _ _ He) as (d' & xs' & Er' & Ex' & _ & _ & Hce).
  rewrite Er in Er'. apply Ok_inj in Er'. subst d'. rewrite Ex in Ex'. apply Ok_inj in Ex'. subst xs'.
  apply wfb_view. eexists. exists xs. constructor; [exact Erg| | | | |]; cbn [zd_files zd_dirloc zd_end]; try assumption. reflexivity.
Qed.
Lemma payload_kept szs f b g : wfb szs f = true -> embed szs f b = Ok g -> spec_sections g = spec_sections f.
Proof.
  intros Hw He. apply wfb_view in Hw. destruct Hw as (d & xs & V). rewrite (spec_sections_wf _ _ _ _ V). destruct V as [Er Ex Hc Hn Hend Hs].
  destruct (spec_view _ _ _ _ He) as (d' & xs' & Er' & Ex' & _ & Hss & _).
  rewrite Er in Er'. apply Ok_inj in Er'. subst d'. rewrite Ex in Ex'. apply Ok_inj in Ex'. subst xs'. exact Hss.
Qed.

(* the end record after signing: only the directory offset field differs, and it is content end + block length *)
Lemma eocd_fixup szs f b g : wfb szs f = true -> embed szs f b = Ok g ->
  exists d xs, read_zip f = Ok d /\ extents (zd_files d) szs = Ok xs /\
    zdrop (zlen g - 22) g = set_cdoff (zd_end d) (ext_end 0 xs + zlen (mk_sig_block b)) /\
    zslice (zlen g - 22 - zlen (cdir_bytes (zd_files d))) (zlen g - 22) g = cdir_bytes (zd_files d) /\
    (ext_end 0 xs = zd_dirloc d -> end_cdoff (zdrop (zlen g - 22) g) = end_cdoff (zd_end d) + zlen (mk_sig_block b)).
Proof.
  intros Hw He. apply wfb_view in Hw. destruct Hw as (d & xs & [Er Ex Hc Hn Hend Hs]).
  destruct (signed_facts _ _ _ _ He) as (d' & xs' & Er' & Ex' & Ho & Hsl & Hdl & Hw1 & Hw2 & Hb & Eg & Erg & Esl & Ehf).
  rewrite Er in Er'. apply Ok_inj in Er'. subst d'. rewrite Ex in Ex'. apply Ok_inj in Ex'. subst xs'.
  exists d, xs. split; [exact Er|]. split; [exact Ex|].
  rewrite mk_sig_block_nf, zlen_block_nf. pose proof (zlen_nonneg b). set (C := cdir_bytes (zd_files d)) in *. pose proof (zlen_nonneg C).
  set (sl := ext_end 0 xs) in *. set (E := fresh_for (zd_files d) (sl + (zlen b + 44))).
  assert (Lg : zlen g = sl + (zlen b + 44) + zlen C + 22) by (rewrite Eg; apply zlen_signed; lia).
  assert (Ee : zdrop (zlen g - 22) g = E).
  { rewrite Eg at 2. unfold signed_nf. fold C E. rewrite (app_assoc (ztake sl f)), (app_assoc (ztake sl f ++ block_nf b)).
    apply zdrop_app_exact'. rewrite !zlen_app, zlen_ztake, zlen_block_nf by lia. lia. }
  destruct (wd_ok_bounds _ _ Hw2) as (B1 & B2 & B3).
  destruct (read_zip_inv _ _ Er) as (_ & _ & _ & (_ & _ & _ & Off)).
  split; [|split].
  - rewrite Ee, Hend. unfold E, fresh_for. rewrite set_cdoff_fresh. reflexivity.
  - rewrite Eg at 3. unfold signed_nf. fold C E. rewrite (app_assoc (ztake sl f)).
    apply zslice_app_mid; rewrite ?zlen_app, ?zlen_ztake, ?zlen_block_nf by lia; lia.
  - intros Hu. rewrite Ee, Off. unfold E, fresh_for. rewrite fresh_end_cdoff, le_dec_enc4 by lia. lia.
Qed.
