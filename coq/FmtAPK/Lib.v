(* FmtAPK/Lib.v — list / slice / little-endian lemmas used by the FmtAPK proofs. *)
From Relic Require Import Base.Prelude Base.Enc.

Lemma ztake_app_exact {A} (a b : list A) : ztake (zlen a) (a ++ b) = a.
Proof. unfold ztake, zlen. rewrite Nat2Z.id, firstn_app, Nat.sub_diag, firstn_all. cbn. apply app_nil_r. Qed.
Lemma zdrop_app_exact {A} (a b : list A) : zdrop (zlen a) (a ++ b) = b.
Proof. unfold zdrop, zlen. rewrite Nat2Z.id, skipn_app, Nat.sub_diag, skipn_all. reflexivity. Qed.
Lemma ztake_app_exact' {A} n (a b : list A) : n = zlen a -> ztake n (a ++ b) = a.
Proof. intros ->. apply ztake_app_exact. Qed.
Lemma zdrop_app_exact' {A} n (a b : list A) : n = zlen a -> zdrop n (a ++ b) = b.
Proof. intros ->. apply zdrop_app_exact. Qed.

Lemma zslice_app_mid {A} (a b c : list A) p q : p = zlen a -> q = zlen a + zlen b -> zslice p q (a ++ b ++ c) = b.
Proof.
  intros -> ->. unfold zslice. rewrite zdrop_app_exact. replace (zlen a + zlen b - zlen a) with (zlen b) by lia. apply ztake_app_exact.
Qed.
Lemma zslice_full {A} (l : list A) n : n = zlen l -> zslice 0 n l = l.
Proof. intros ->. unfold zslice. rewrite zdrop_0, Z.sub_0_r. apply ztake_all. lia. Qed.
Lemma zslice_0 {A} (l : list A) n : zslice 0 n l = ztake n l.
Proof. unfold zslice. rewrite zdrop_0, Z.sub_0_r. reflexivity. Qed.
Lemma zslice_to_end {A} (l : list A) p n : n = zlen l -> 0 <= p -> zslice p n l = zdrop p l.
Proof.
  intros -> Hp. unfold zslice. destruct (Z_le_gt_dec p (zlen l)).
  - apply ztake_all. rewrite zlen_zdrop by lia. lia.
  - rewrite zdrop_all by lia. unfold ztake. apply firstn_nil.
Qed.
Lemma zlen_zslice {A} (l : list A) p q : 0 <= p <= q -> q <= zlen l -> zlen (zslice p q l) = q - p.
Proof. intros H1 H2. unfold zslice. rewrite zlen_ztake; [reflexivity|]. rewrite zlen_zdrop by lia. lia. Qed.
Lemma zslice_app_l {A} (a b : list A) p q : 0 <= p -> q <= zlen a -> zslice p q (a ++ b) = zslice p q a.
Proof.
  intros Hp Hq. unfold zslice. destruct (Z_le_gt_dec p (zlen a)).
  - rewrite zdrop_app_l by lia. apply ztake_app_l. rewrite zlen_zdrop by lia. lia.
  - rewrite !ztake_neg by lia. reflexivity.
Qed.
Lemma zslice_app_r {A} (a b : list A) p q : zlen a <= p -> zslice p q (a ++ b) = zslice (p - zlen a) (q - zlen a) b.
Proof. intros Hp. unfold zslice. rewrite zdrop_app_r by lia. f_equal. lia. Qed.
Lemma ztake_ztake {A} (l : list A) a b : a <= b -> ztake a (ztake b l) = ztake a l.
Proof. unfold ztake. intros H. rewrite firstn_firstn. f_equal. apply Nat.min_l. lia. Qed.
Lemma zslice_ztake {A} (l : list A) p q n : 0 <= p -> q <= n -> zslice p q (ztake n l) = zslice p q l.
Proof.
  intros Hp H. unfold zslice, ztake, zdrop.
  rewrite skipn_firstn_comm, firstn_firstn. f_equal. rewrite Nat.min_l by lia. reflexivity.
Qed.
Lemma zslice_split {A} (l : list A) p q r : 0 <= p <= q -> q <= r -> zslice p r l = zslice p q l ++ zslice q r l.
Proof.
  intros H1 H2. unfold zslice.
  replace (zdrop q l) with (zdrop (q - p) (zdrop p l)) by (rewrite zdrop_zdrop by lia; f_equal; lia).
  set (m := zdrop p l). rewrite <- (ztake_zdrop (q - p) (ztake (r - p) m)).
  rewrite ztake_ztake by lia. f_equal.
  unfold ztake, zdrop. rewrite skipn_firstn_comm. f_equal. lia.
Qed.
Lemma ztake_as_slice {A} (l : list A) n : ztake n l = zslice 0 n l.
Proof. symmetry. apply zslice_0. Qed.

Lemma zlen_repeat {A} (x : A) n : zlen (repeat x n) = Z.of_nat n.
Proof. unfold zlen. now rewrite repeat_length. Qed.
Lemma zlen_concat_map {A} (f : A -> bytes) l : zlen (concat (map f l)) = fold_right (fun x s => zlen (f x) + s) 0 l.
Proof. induction l as [|x l IH]; cbn [map concat fold_right]; [reflexivity|]. rewrite zlen_app, IH. reflexivity. Qed.

(* little endian *)
Lemma le_dec_enc4 n : 0 <= n < 4294967296 -> le_dec (le_enc 4 n) = n.
Proof. intros H. apply le_dec_enc. change (256 ^ Z.of_nat 4) with 4294967296. exact H. Qed.
Lemma le_dec_enc8 n : 0 <= n < 18446744073709551616 -> le_dec (le_enc 8 n) = n.
Proof. intros H. apply le_dec_enc. change (256 ^ Z.of_nat 8) with 18446744073709551616. exact H. Qed.
Lemma le_dec_enc2 n : 0 <= n < 65536 -> le_dec (le_enc 2 n) = n.
Proof. intros H. apply le_dec_enc. change (256 ^ Z.of_nat 2) with 65536. exact H. Qed.
Lemma zlen_le_enc4 n : zlen (le_enc 4 n) = 4. Proof. apply le_enc_zlen. Qed.
Lemma zlen_le_enc8 n : zlen (le_enc 8 n) = 8. Proof. apply le_enc_zlen. Qed.
Lemma zlen_le_enc2 n : zlen (le_enc 2 n) = 2. Proof. apply le_enc_zlen. Qed.

(* injectivity of le_enc on a range *)
Lemma le_enc_inj w a b : 0 <= a < 256 ^ Z.of_nat w -> 0 <= b < 256 ^ Z.of_nat w -> le_enc w a = le_enc w b -> a = b.
Proof. intros Ha Hb H. rewrite <- (le_dec_enc w a Ha), <- (le_dec_enc w b Hb), H. reflexivity. Qed.

Lemma bytes_eqb_refl b : bytes_eqb b b = true.
Proof. apply list_eqb_Z_eq. reflexivity. Qed.
Lemma bytes_eqb_eq a b : bytes_eqb a b = true <-> a = b.
Proof. apply list_eqb_Z_eq. Qed.
Lemma bytes_eqb_neq a b : a <> b -> bytes_eqb a b = false.
Proof. intros H. destruct (bytes_eqb a b) eqn:E; [|reflexivity]. apply bytes_eqb_eq in E. contradiction. Qed.

Lemma app_inv_len {A} (a b c d : list A) : a ++ b = c ++ d -> zlen a = zlen c -> a = c /\ b = d.
Proof.
  revert c. induction a as [|x a IH]; intros [|y c] H L.
  - split; [reflexivity|exact H].
  - rewrite zlen_cons, zlen_nil in L. pose proof (zlen_nonneg c). lia.
  - rewrite zlen_cons, zlen_nil in L. pose proof (zlen_nonneg a). lia.
  - cbn [app] in H. inversion H as [[Hx H']]. subst y. rewrite !zlen_cons in L.
    destruct (IH c H' ltac:(lia)) as [-> ->]. split; reflexivity.
Qed.

Lemma Ok_inj {A} (a b : A) : @Ok A a = Ok b -> a = b.
Proof. intros H. injection H. auto. Qed.
