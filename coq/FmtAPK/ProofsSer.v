(* FmtAPK/ProofsSer.v — marshal (serializer.go) followed by C11's model of unmarshal is the identity on every well-typed value
   whose lengths fit 32 bits; what Digest.Sign assembles is read back by the documentation's reader. *)
From Relic Require Import Base.Prelude Base.Enc Generated.C11_gen Generated.FmtAPK_gen FmtAPK.Model FmtAPK.Lib FmtAPK.ProofsBlock.
From Relic Require C11.Model.
Import C11.Model.

Lemma lp_eq b : lp b = le_enc 4 (zlen b) ++ b.
Proof. unfold lp, apk_m_prefix_width, apk_m_prefix_val. f_equal. f_equal. lia. Qed.

(* well-typed values in range *)
Inductive wt : schema -> aval -> Prop :=
| wt_u32 z : 0 <= z < 4294967296 -> wt SU32 (AU32 z)
| wt_bytes b : zlen b < 4294967296 -> wt SBytes (ABytes b)
| wt_raw inner : zlen inner < 4294967296 -> wt SRaw (ARaw (le_enc 4 (zlen inner) ++ inner))
| wt_slice e l : Forall (wt e) l -> zlen (concat (map enc l)) < 4294967296 -> wt (SSlice e) (ASlice l)
| wt_struct fs l : Forall2 wt fs l -> zlen (concat (map enc l)) < 4294967296 -> wt (SStruct fs) (AStruct l).

Lemma enc_raw raw : enc (ARaw raw) = raw. Proof. reflexivity. Qed.
Lemma enc_slice l : enc (ASlice l) = lp (concat (map enc l)). Proof. reflexivity. Qed.
Lemma enc_struct l : enc (AStruct l) = lp (concat (map enc l)). Proof. reflexivity. Qed.
Lemma enc_bytes b : enc (ABytes b) = lp b. Proof. reflexivity. Qed.
Lemma enc_u32 z : enc (AU32 z) = le_enc 4 z. Proof. reflexivity. Qed.
Lemma enc_len s v : wt s v -> 4 <= zlen (enc v).
Proof.
  intros H. destruct H; rewrite ?enc_u32, ?enc_raw; cbn [enc]; rewrite ?lp_eq, ?zlen_app, ?zlen_le_enc4.
  - lia.
  - pose proof (zlen_nonneg b). lia.
  - pose proof (zlen_nonneg inner). lia.
  - pose proof (zlen_nonneg (concat (map enc l))). lia.
  - pose proof (zlen_nonneg (concat (map enc l))). lia.
Qed.

(* one-step equations of C11's parser *)
Lemma um_items_S rec n b : um_items rec (S n) b =
  if c11_um_slice_more (zlen b) then (x <- rec b ;; r <- um_items rec n (snd x) ;; Ok (fst x :: r)) else Ok [].
Proof. reflexivity. Qed.
Lemma um_fields_nil rec b : um_fields rec [] b = if c11_um_struct_trailing (zlen b) then Err E_TRAILING else Ok [].
Proof. reflexivity. Qed.
Lemma um_fields_cons rec f fs b : um_fields rec (f :: fs) b = (x <- rec f b ;; r <- um_fields rec fs (snd x) ;; Ok (fst x :: r)).
Proof. reflexivity. Qed.

Lemma um_u32 k z rest : 0 <= z < 4294967296 -> um (S k) SU32 (le_enc 4 z ++ rest) = Ok (AU32 z, rest).
Proof.
  intros Hz. cbn [um]. unfold c11_um_scalar_short. pose proof (zlen_nonneg rest). rewrite zlen_app, zlen_le_enc4.
  replace (4 + zlen rest <? 4) with false by lia.
  rewrite cle_ok by (rewrite ?zlen_app, ?zlen_le_enc4; lia). cbn [bind].
  rewrite zslice_0, (ztake_app_exact' 4) by (rewrite zlen_le_enc4; reflexivity). rewrite le_dec_enc4 by lia.
  rewrite cslice_ok by (rewrite ?zlen_app, ?zlen_le_enc4; lia). cbn [bind].
  rewrite zslice_to_end by (rewrite ?zlen_app, ?zlen_le_enc4; lia). rewrite (zdrop_app_exact' 4) by (rewrite zlen_le_enc4; reflexivity). reflexivity.
Qed.

(* the common front of every length-prefixed type *)
Definition after_prefix (k : nat) (s : schema) (body rest : bytes) : result (aval * bytes) :=
  match s with
  | SU32 => Ok (AU32 0, rest)
  | SBytes => Ok (ABytes body, rest)
  | SRaw => Ok (ARaw (le_enc 4 (zlen body) ++ body), rest)
  | SSlice e => rmap (fun l => (ASlice l, rest)) (um_items (um k e) (S (length body)) body)
  | SStruct fs => rmap (fun l => (AStruct l, rest)) (um_fields (um k) fs body)
  end.
Lemma um_prefixed k s body rest : s <> SU32 -> zlen body < 4294967296 ->
  um (S k) s (le_enc 4 (zlen body) ++ body ++ rest) = after_prefix k s body rest.
Proof.
  intros Hs Hb. pose proof (zlen_nonneg body). pose proof (zlen_nonneg rest).
  set (blob := le_enc 4 (zlen body) ++ body ++ rest).
  assert (Lb : zlen blob = 4 + zlen body + zlen rest) by (unfold blob; rewrite !zlen_app, zlen_le_enc4; lia).
  assert (Hcommon : forall (K : bytes -> bytes -> bytes -> result (aval * bytes)),
    (if c11_um_prefix_short (zlen blob) then Err E_EOF else
     size <- cle 4 0 blob ;; if c11_um_size_exceeds size (zlen blob) then Err E_EOF else
     remainder <- cslice (4 + size) (zlen blob) blob ;; raw <- cslice 0 (4 + size) blob ;; inner <- cslice 4 (zlen raw) raw ;; K remainder raw inner)
    = K rest (le_enc 4 (zlen body) ++ body) body).
  { intros K. unfold c11_um_prefix_short, c11_um_size_exceeds. rewrite Lb. replace (4 + zlen body + zlen rest <? 4) with false by lia.
    rewrite cle_ok by lia. cbn [bind]. unfold blob. rewrite zslice_0, (ztake_app_exact' 4) by (rewrite zlen_le_enc4; reflexivity).
    rewrite le_dec_enc4 by lia. replace (zlen body >? 4 + zlen body + zlen rest - 4) with false by lia.
    fold blob. rewrite cslice_ok by lia. cbn [bind]. rewrite cslice_ok by lia. cbn [bind].
    assert (Eraw : zslice 0 (4 + zlen body) blob = le_enc 4 (zlen body) ++ body).
    { unfold blob. rewrite zslice_0, app_assoc. apply ztake_app_exact'. rewrite zlen_app, zlen_le_enc4. reflexivity. }
    assert (Erem : zslice (4 + zlen body) (4 + zlen body + zlen rest) blob = rest).
    { unfold blob. rewrite app_assoc. rewrite zslice_to_end by (try lia; rewrite !zlen_app, zlen_le_enc4; lia).
      apply zdrop_app_exact'. rewrite zlen_app, zlen_le_enc4. reflexivity. }
    rewrite Eraw, Erem. rewrite zlen_app, zlen_le_enc4. rewrite cslice_ok by (rewrite ?zlen_app, ?zlen_le_enc4; lia). cbn [bind].
    rewrite zslice_to_end by (try lia; rewrite zlen_app, zlen_le_enc4; lia). rewrite (zdrop_app_exact' 4) by (rewrite zlen_le_enc4; reflexivity). reflexivity. }
  destruct s as [| | |e|fs]; [contradiction| | | |]; cbn [um]; fold blob; rewrite Hcommon; reflexivity.
Qed.

Lemma depth_pos s : (1 <= depth s)%nat.
Proof. destruct s; cbn [depth]; lia. Qed.
Lemma depth_field fs f : In f fs -> (depth f <= fold_right (fun f n => Nat.max (depth f) n) O fs)%nat.
Proof. induction fs as [|x r IH]; intros H; [contradiction|]. cbn [fold_right]. destruct H as [->|H]; [lia|]. specialize (IH H). lia. Qed.

Lemma items_ok (rec : bytes -> result (aval * bytes)) e l :
  Forall (wt e) l -> (forall v rest, In v l -> rec (enc v ++ rest) = Ok (v, rest)) ->
  forall n, (length l < n)%nat -> um_items rec n (concat (map enc l)) = Ok l.
Proof.
  intros Hw Hr. induction l as [|v l IH]; intros n Hn.
  - destruct n as [|n]; [lia|]. rewrite um_items_S. reflexivity.
  - destruct n as [|n]; [cbn in Hn; lia|]. cbn [length] in Hn. rewrite um_items_S. cbn [map concat].
    inversion Hw as [|? ? Hv Hl]; subst. pose proof (enc_len _ _ Hv). pose proof (zlen_nonneg (concat (map enc l))).
    unfold c11_um_slice_more. rewrite zlen_app. replace (zlen (enc v) + zlen (concat (map enc l)) >? 0) with true by lia.
    rewrite (Hr v _ (or_introl eq_refl)). cbn [bind fst snd].
    rewrite (IH Hl (fun v' rest' Hin => Hr v' rest' (or_intror Hin)) n ltac:(lia)). reflexivity.
Qed.

Lemma fields_ok (rec : schema -> bytes -> result (aval * bytes)) fs l :
  Forall2 wt fs l -> (forall f v rest, In f fs -> wt f v -> rec f (enc v ++ rest) = Ok (v, rest)) ->
  um_fields rec fs (concat (map enc l)) = Ok l.
Proof.
  intros Hw. induction Hw as [|f v fs l Hv Hl IH]; intros Hr.
  - rewrite um_fields_nil. reflexivity.
  - rewrite um_fields_cons. cbn [map concat]. rewrite (Hr f v _ (or_introl eq_refl) Hv). cbn [bind fst snd].
    rewrite IH by (intros f' v' rest' Hin; apply Hr; right; exact Hin). reflexivity.
Qed.

Lemma items_fuel l e : Forall (wt e) l -> (length l <= length (concat (map enc l)))%nat.
Proof.
  induction 1 as [|v l Hv Hl IH]; [cbn; lia|]. cbn [map concat length]. rewrite app_length.
  pose proof (enc_len _ _ Hv) as L. unfold zlen in L. lia.
Qed.

Theorem um_enc : forall k s v rest, (depth s <= k)%nat -> wt s v -> um k s (enc v ++ rest) = Ok (v, rest).
Proof.
  induction k as [|k IH]; intros s v rest Hd Hw; [pose proof (depth_pos s); lia|].
  destruct Hw as [z Hz|b Hb|inner Hi|e l Hl Hlen|fs l Hl Hlen].
  - rewrite enc_u32. apply um_u32. exact Hz.
  - cbn [enc]. rewrite lp_eq, <- app_assoc. rewrite um_prefixed by (try discriminate; exact Hb). reflexivity.
  - rewrite enc_raw, <- app_assoc. rewrite um_prefixed by (try discriminate; exact Hi). reflexivity.
  - cbn [enc]. rewrite lp_eq, <- app_assoc. rewrite um_prefixed by (try discriminate; exact Hlen). cbn [after_prefix].
    cbn [depth] in Hd.
    rewrite (items_ok (um k e) e l Hl).
    + reflexivity.
    + intros v rest' Hin. apply IH; [lia|]. rewrite Forall_forall in Hl. apply Hl. exact Hin.
    + pose proof (items_fuel l e Hl). lia.
  - cbn [enc]. rewrite lp_eq, <- app_assoc. rewrite um_prefixed by (try discriminate; exact Hlen). cbn [after_prefix].
    cbn [depth] in Hd.
    rewrite (fields_ok (um k) fs l Hl).
    + reflexivity.
    + intros f v rest' Hin Hv. apply IH; [|exact Hv]. pose proof (depth_field fs f Hin). lia.
Qed.

Theorem unmarshal_enc s v : wt s v -> unmarshal s (enc v) = Ok v.
Proof.
  intros Hw. unfold unmarshal. rewrite <- (app_nil_r (enc v)). rewrite (um_enc (depth s) s v [] (le_n _) Hw). reflexivity.
Qed.

(* the schemas generated from structs.go are the ones C11 proves panic freedom for *)
Lemma schemas_match : g_signer_list = s_signer_list /\ g_signed_data = s_signed_data.
Proof. split; reflexivity. Qed.

(* ------------------------------------------------------------------ what Digest.Sign assembles *)
Definition in32 (b : bytes) : Prop := zlen b < 4294967296.
Lemma wt_attr id value : 0 <= id < 4294967296 -> zlen value + 8 < 4294967296 -> wt s_attribute (v_attr id value).
Proof.
  intros Hi Hv. pose proof (zlen_nonneg value). unfold s_attribute, v_attr. constructor.
  - constructor; [constructor; exact Hi|]. constructor; [constructor; lia|constructor].
  - cbn [map concat]. rewrite enc_u32. cbn [enc]. rewrite lp_eq, app_nil_r, !zlen_app, !zlen_le_enc4. lia.
Qed.
Lemma zlen_enc_attr id value : zlen (enc (v_attr id value)) = 12 + zlen value.
Proof. unfold v_attr. cbn [enc map concat]. rewrite !lp_eq, app_nil_r, !zlen_app. change (Z.to_nat apk_m_u32_width) with 4%nat. rewrite !zlen_le_enc4. lia. Qed.

Definition certs_len (certs : list bytes) : Z := fold_right (fun c s => 4 + zlen c + s) 0 certs.
Lemma zlen_enc_certs certs : zlen (concat (map enc (map ABytes certs))) = certs_len certs.
Proof. induction certs as [|c r IH]; [reflexivity|]. cbn [map concat enc certs_len fold_right]. rewrite zlen_app, lp_eq, zlen_app, zlen_le_enc4, IH. reflexivity. Qed.
Lemma certs_len_nonneg certs : 0 <= certs_len certs.
Proof. induction certs as [|c r IH]; cbn [certs_len fold_right]; [lia|]. pose proof (zlen_nonneg c). fold (certs_len r). lia. Qed.
Lemma wt_certs certs : certs_len certs < 4294967296 -> wt (SSlice SBytes) (ASlice (map ABytes certs)).
Proof.
  intros H. constructor; [|rewrite zlen_enc_certs; exact H].
  induction certs as [|c r IH]; [constructor|]. cbn [map]. cbn [certs_len fold_right] in H. fold (certs_len r) in H.
  pose proof (certs_len_nonneg r). pose proof (zlen_nonneg c). constructor; [constructor; lia|apply IH; lia].
Qed.

(* sizes of what Digest.Sign builds: everything is far below 4 GiB for real certificates; stated as a bound on the total *)
Definition sign_sizes_ok (digest : bytes) (certs : list bytes) (sigv pubkey : bytes) : Prop :=
  zlen digest + certs_len certs + zlen sigv + zlen pubkey + 100 < 4294967296.

Lemma wt_signed_data sigid digest certs : 0 <= sigid < 4294967296 -> zlen digest + certs_len certs + 40 < 4294967296 ->
  wt s_signed_data (v_signed_data sigid digest certs) /\ zlen (enc (v_signed_data sigid digest certs)) = 4 + (4 + (12 + zlen digest)) + (4 + certs_len certs) + 4.
Proof.
  intros Hi Hs. pose proof (zlen_nonneg digest). pose proof (certs_len_nonneg certs).
  unfold v_signed_data. change apk_sign_one_digest with true. change apk_sign_chain_certs with true. cbv iota.
  assert (L1 : zlen (enc (ASlice [v_attr sigid digest])) = 4 + (12 + zlen digest)).
  { cbn [enc map concat]. rewrite lp_eq, app_nil_r, zlen_app, zlen_le_enc4. fold (enc (v_attr sigid digest)). rewrite zlen_enc_attr. reflexivity. }
  assert (L2 : zlen (enc (ASlice (map ABytes certs))) = 4 + certs_len certs).
  { cbn [enc]. rewrite lp_eq, zlen_app, zlen_le_enc4, zlen_enc_certs. reflexivity. }
  assert (L3 : zlen (enc (ASlice [])) = 4) by reflexivity.
  assert (Lall : zlen (concat (map enc [ASlice [v_attr sigid digest]; ASlice (map ABytes certs); ASlice []])) = (4 + (12 + zlen digest)) + (4 + certs_len certs) + 4).
  { cbn [map concat]. rewrite app_nil_r, !zlen_app, L1, L2, L3. lia. }
  split.
  - unfold s_signed_data. constructor; [|rewrite Lall; lia].
    constructor; [|constructor; [|constructor; [|constructor]]].
    + constructor; [constructor; [apply wt_attr; lia|constructor]|]. cbn [map concat]. rewrite app_nil_r. fold (enc (v_attr sigid digest)). rewrite zlen_enc_attr. lia.
    + apply wt_certs. lia.
    + constructor; [constructor|]. cbn. lia.
  - cbn [enc]. rewrite lp_eq, zlen_app, zlen_le_enc4. fold enc. rewrite Lall. lia.
Qed.

Theorem sign_roundtrip sigid digest certs sigv pubkey : 0 <= sigid < 4294967296 -> sign_sizes_ok digest certs sigv pubkey ->
  unmarshal g_signer_list (enc (v_signer_list sigid digest certs sigv pubkey)) = Ok (v_signer_list sigid digest certs sigv pubkey) /\
  unmarshal g_signed_data (enc (v_signed_data sigid digest certs)) = Ok (v_signed_data sigid digest certs).
Proof.
  intros Hi Hs. unfold sign_sizes_ok in Hs. pose proof (zlen_nonneg digest). pose proof (certs_len_nonneg certs). pose proof (zlen_nonneg sigv). pose proof (zlen_nonneg pubkey).
  destruct schemas_match as [-> ->].
  destruct (wt_signed_data sigid digest certs Hi ltac:(lia)) as [Wsd Lsd].
  split; [|apply unmarshal_enc; exact Wsd].
  apply unmarshal_enc. unfold v_signer_list. change apk_sign_one_signer with true. cbv iota.
  set (sd := enc (v_signed_data sigid digest certs)) in *.
  assert (Esd : sd = le_enc 4 (zlen (zdrop 4 sd)) ++ zdrop 4 sd).
  { unfold sd, v_signed_data. cbn [enc]. rewrite lp_eq. rewrite (zdrop_app_exact' 4) by (rewrite zlen_le_enc4; reflexivity). reflexivity. }
  assert (Ld : zlen (zdrop 4 sd) = zlen sd - 4) by (apply zlen_zdrop; lia).
  assert (Wraw : wt SRaw (ARaw sd)) by (rewrite Esd; constructor; lia).
  assert (Lsig : zlen (enc (ASlice [v_attr sigid sigv])) = 4 + (12 + zlen sigv)).
  { cbn [enc map concat]. rewrite lp_eq, app_nil_r, zlen_app, zlen_le_enc4. fold (enc (v_attr sigid sigv)). rewrite zlen_enc_attr. reflexivity. }
  assert (Linner : zlen (concat (map enc [ARaw sd; ASlice [v_attr sigid sigv]; ABytes pubkey])) = zlen sd + (4 + (12 + zlen sigv)) + (4 + zlen pubkey)).
  { cbn [map concat]. rewrite app_nil_r, !zlen_app, enc_raw, Lsig. cbn [enc]. rewrite lp_eq, zlen_app, zlen_le_enc4. lia. }
  unfold s_signer_list. constructor.
  - constructor; [|constructor]. unfold s_signer. constructor; [|rewrite Linner; lia].
    constructor; [exact Wraw|]. constructor; [|constructor; [constructor; lia|constructor]].
    constructor; [constructor; [apply wt_attr; lia|constructor]|]. cbn [map concat]. rewrite app_nil_r. fold (enc (v_attr sigid sigv)). rewrite zlen_enc_attr. lia.
  - cbn [map concat]. rewrite app_nil_r. cbn [enc]. rewrite lp_eq, zlen_app, zlen_le_enc4. fold enc. rewrite Linner. lia.
Qed.

(* ------------------------------------------------------------------ the documentation's reader on relic's encoding *)
Lemma spec_lp_take_app b r : zlen b < 4294967296 -> spec_lp_take (le_enc 4 (zlen b) ++ b ++ r) = Some (b, r).
Proof.
  intros Hb. pose proof (zlen_nonneg b). pose proof (zlen_nonneg r). unfold spec_lp_take.
  rewrite !zlen_app, zlen_le_enc4. replace (4 + (zlen b + zlen r) <? 4) with false by lia.
  rewrite (ztake_app_exact' 4) by (rewrite zlen_le_enc4; reflexivity). rewrite le_dec_enc4 by lia.
  replace (4 + (zlen b + zlen r) - 4 <? zlen b) with false by lia. f_equal. f_equal.
  - apply zslice_app_mid; rewrite ?zlen_le_enc4; lia.
  - rewrite app_assoc. apply zdrop_app_exact'. rewrite zlen_app, zlen_le_enc4. reflexivity.
Qed.
Definition lp' (x : bytes) : bytes := le_enc 4 (zlen x) ++ x.
Lemma spec_lp_take_lp b r : zlen b < 4294967296 -> spec_lp_take (lp' b ++ r) = Some (b, r).
Proof. intros H. unfold lp'. rewrite <- app_assoc. apply spec_lp_take_app. exact H. Qed.
Lemma spec_lp_take_lp_end b : zlen b < 4294967296 -> spec_lp_take (lp' b) = Some (b, []).
Proof. intros H. rewrite <- (app_nil_r (lp' b)). apply spec_lp_take_lp. exact H. Qed.
Lemma zlen_lp' b : zlen (lp' b) = 4 + zlen b.
Proof. unfold lp'. rewrite zlen_app, zlen_le_enc4. reflexivity. Qed.
Lemma spec_lp_seq_lps xs : Forall in32 xs -> forall k, (length xs < k)%nat -> spec_lp_seq k (concat (map lp' xs)) = Some xs.
Proof.
  induction 1 as [|x xs Hx Hxs IH]; intros k Hk.
  - destruct k as [|k]; [lia|]. reflexivity.
  - destruct k as [|k]; [cbn in Hk; lia|]. cbn [length] in Hk. cbn [map concat]. specialize (IH k ltac:(lia)).
    set (R := concat (map lp' xs)) in *. pose proof (zlen_nonneg x). pose proof (zlen_nonneg R).
    unfold lp'. rewrite <- app_assoc. cbn [spec_lp_seq].
    rewrite !zlen_app, zlen_le_enc4. replace (4 + (zlen x + zlen R) =? 0) with false by lia.
    rewrite spec_lp_take_app by exact Hx. rewrite IH. reflexivity.
Qed.
Lemma lps_fuel xs : (length xs <= length (concat (map lp' xs)))%nat.
Proof. induction xs as [|x xs IH]; [cbn; lia|]. cbn [map concat length]. unfold lp' at 1. rewrite !app_length, le_enc_length. lia. Qed.
Lemma spec_seq_lps xs : Forall in32 xs -> spec_seq (concat (map lp' xs)) = Some xs.
Proof. intros H. unfold spec_seq. apply spec_lp_seq_lps; [exact H|]. pose proof (lps_fuel xs). lia. Qed.

Lemma spec_id_lpvalue_ok id v : 0 <= id < 4294967296 -> zlen v < 4294967296 -> spec_id_lpvalue (le_enc 4 id ++ le_enc 4 (zlen v) ++ v) = Some (id, v).
Proof.
  intros Hi Hv. pose proof (zlen_nonneg v). unfold spec_id_lpvalue. rewrite !zlen_app, !zlen_le_enc4. replace (4 + (4 + zlen v) <? 4) with false by lia.
  rewrite (zdrop_app_exact' 4) by (rewrite zlen_le_enc4; reflexivity). rewrite <- (app_nil_r v) at 2. rewrite spec_lp_take_app by exact Hv.
  rewrite (ztake_app_exact' 4) by (rewrite zlen_le_enc4; reflexivity). rewrite le_dec_enc4 by lia. reflexivity.
Qed.

Lemma enc_attr_eq id v : enc (v_attr id v) = lp' (le_enc 4 id ++ le_enc 4 (zlen v) ++ v).
Proof. unfold v_attr, lp'. cbn [enc map concat]. rewrite !lp_eq, app_nil_r. change (Z.to_nat apk_m_u32_width) with 4%nat. reflexivity. Qed.
Lemma enc_certs_eq certs : concat (map enc (map ABytes certs)) = concat (map lp' certs).
Proof. induction certs as [|c r IH]; [reflexivity|]. cbn [map concat enc]. rewrite lp_eq, IH. reflexivity. Qed.
Lemma certs_in32 certs : certs_len certs < 4294967296 -> Forall in32 certs.
Proof.
  induction certs as [|c r IH]; intros H; [constructor|]. cbn [certs_len fold_right] in H. fold (certs_len r) in H.
  pose proof (certs_len_nonneg r). pose proof (zlen_nonneg c). constructor; [unfold in32; lia|apply IH; lia].
Qed.

(* the body of the signed data Digest.Sign writes, as the documentation's reader sees it: one digest, the chain, no attributes *)
Definition sd_body (sigid : Z) (digest : bytes) (certs : list bytes) : bytes :=
  lp' (lp' (le_enc 4 sigid ++ le_enc 4 (zlen digest) ++ digest)) ++ lp' (concat (map lp' certs)) ++ lp' [].
Lemma enc_sd_eq sigid digest certs : enc (v_signed_data sigid digest certs) = lp' (sd_body sigid digest certs).
Proof.
  unfold v_signed_data, sd_body. change apk_sign_one_digest with true. change apk_sign_chain_certs with true. cbv iota.
  cbn [enc map concat]. rewrite !lp_eq, !app_nil_r. fold (enc (v_attr sigid digest)). rewrite enc_attr_eq. fold enc. rewrite enc_certs_eq.
  unfold lp'. cbn [concat map zlen length app]. rewrite <- !app_assoc. reflexivity.
Qed.

Lemma spec_signed_data_relic sigid digest certs : 0 <= sigid < 4294967296 -> zlen digest + certs_len certs + 40 < 4294967296 ->
  spec_signed_data (sd_body sigid digest certs) = Some (mkSsd [(sigid, digest)] certs []).
Proof.
  intros Hi Hs. pose proof (zlen_nonneg digest). pose proof (certs_len_nonneg certs).
  assert (Lc : zlen (concat (map lp' certs)) = certs_len certs) by (rewrite <- enc_certs_eq; apply zlen_enc_certs).
  set (a := le_enc 4 sigid ++ le_enc 4 (zlen digest) ++ digest).
  assert (La : zlen a = 8 + zlen digest) by (unfold a; rewrite !zlen_app, !zlen_le_enc4; lia).
  unfold spec_signed_data, sd_body. fold a.
  rewrite spec_lp_take_lp by (rewrite zlen_lp'; lia).
  rewrite spec_lp_take_lp by lia.
  rewrite spec_lp_take_lp_end by (cbn; lia).
  replace (lp' a) with (concat (map lp' [a])) by (cbn [map concat]; apply app_nil_r).
  rewrite spec_seq_lps by (constructor; [unfold in32; lia|constructor]).
  rewrite spec_seq_lps by (apply certs_in32; lia).
  change (spec_seq []) with (Some (@nil bytes)). cbn [map opt_all]. unfold a. rewrite spec_id_lpvalue_ok by lia. reflexivity.
Qed.

Theorem spec_reads_relic_signer sigid digest certs sigv pubkey : 0 <= sigid < 4294967296 -> sign_sizes_ok digest certs sigv pubkey ->
  spec_v2_value (enc (v_signer_list sigid digest certs sigv pubkey)) =
  Some [mkSsg (sd_body sigid digest certs) (mkSsd [(sigid, digest)] certs []) [(sigid, sigv)] pubkey].
Proof.
  intros Hi Hs. unfold sign_sizes_ok in Hs. pose proof (zlen_nonneg digest). pose proof (certs_len_nonneg certs). pose proof (zlen_nonneg sigv). pose proof (zlen_nonneg pubkey).
  assert (Lc : zlen (concat (map lp' certs)) = certs_len certs) by (rewrite <- enc_certs_eq; apply zlen_enc_certs).
  set (body := sd_body sigid digest certs).
  assert (Lb : zlen body = (4 + (4 + (8 + zlen digest))) + (4 + certs_len certs) + 4).
  { unfold body, sd_body. rewrite !zlen_app, !zlen_lp', !zlen_app, !zlen_le_enc4, Lc. cbn [zlen length Z.of_nat]. lia. }
  set (s := le_enc 4 sigid ++ le_enc 4 (zlen sigv) ++ sigv).
  assert (Ls : zlen s = 8 + zlen sigv) by (unfold s; rewrite !zlen_app, !zlen_le_enc4; lia).
  set (signer := lp' body ++ lp' (lp' s) ++ lp' pubkey).
  assert (Lsg : zlen signer = (4 + zlen body) + (4 + (4 + zlen s)) + (4 + zlen pubkey)) by (unfold signer, lp'; rewrite !zlen_app, !zlen_le_enc4; lia).
  assert (Ev : enc (v_signer_list sigid digest certs sigv pubkey) = lp' (lp' signer)).
  { unfold v_signer_list. change apk_sign_one_signer with true. cbv iota.
    rewrite enc_slice. cbn [map concat]. rewrite enc_struct. cbn [map concat]. rewrite enc_raw, enc_sd_eq, enc_slice, enc_bytes. cbn [map concat].
    rewrite enc_attr_eq, !lp_eq, !app_nil_r. unfold signer, lp', body, s. rewrite <- !app_assoc. reflexivity. }
  rewrite Ev. unfold spec_v2_value.
  rewrite spec_lp_take_lp_end by (rewrite zlen_lp'; lia).
  replace (lp' signer) with (concat (map lp' [signer])) by (cbn [map concat]; apply app_nil_r).
  rewrite spec_seq_lps by (constructor; [unfold in32; lia|constructor]). cbn [map opt_all].
  unfold spec_signer_of, signer.
  rewrite spec_lp_take_lp by lia.
  rewrite spec_lp_take_lp by (rewrite zlen_lp'; lia).
  rewrite spec_lp_take_lp_end by lia.
  unfold body. rewrite spec_signed_data_relic by lia.
  replace (lp' s) with (concat (map lp' [s])) by (cbn [map concat]; apply app_nil_r).
  rewrite spec_seq_lps by (constructor; [unfold in32; lia|constructor]). cbn [map opt_all]. unfold s. rewrite spec_id_lpvalue_ok by lia. reflexivity.
Qed.
