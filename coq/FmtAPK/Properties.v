(* FmtAPK/Properties.v — Android APK Signature Scheme v2 as relic implements it (signers/apk + the zipslicer calls it drives +
   the v1 marker of lib/signjar).  Statements only; every proof is `exact` of a lemma of the Proofs* files.
   `szs` is the table of member sizes (File.GetTotalSize, unit C17) in directory order; a signed file is read with the same table
   (members are not touched).  `secs` = the three byte strings the 1 MiB chunk digest of unit C09 is applied to. *)
From Relic Require Import Base.Prelude Base.Enc Generated.C11_gen Generated.FmtAPK_gen FmtAPK.Model.
From Relic Require C11.Model Laws.Pipeline.
From Relic Require FmtAPK.Lib FmtAPK.ProofsZip FmtAPK.ProofsBlock FmtAPK.ProofsLaws FmtAPK.ProofsDomain FmtAPK.ProofsWit FmtAPK.ProofsSer FmtAPK.Proofs.
Import C11.Model.

(* ================================================================== C01 *)
(* C01 C05: the block makeSigBlock writes is the documentation's block with the single pair (0x7109871a, sblob): size | pair |
   size | magic, both size fields equal, magic last *)
Theorem apk_sigblock_is_spec : forall b, mk_sig_block b = spec_write_block [(V2_ID, b)].
Proof. intros b. rewrite FmtAPK.ProofsBlock.mk_sig_block_nf. apply FmtAPK.ProofsBlock.block_is_spec. Qed.
(* C01 C05: in the signed file the documentation's reader (EOCD -> directory offset -> magic and size in front of it -> size at the
   block start) finds exactly that pair, the block starts where the members end, and the three protected sections are the bytes
   in front of it, the directory, and the end record with its offset set back to the block start *)
Theorem apk_sigblock_roundtrip : forall szs f b g, embed szs f b = Ok g ->
  exists d xs, read_zip f = Ok d /\ extents (zd_files d) szs = Ok xs /\
    spec_read_pairs g = Some [(V2_ID, b)] /\
    spec_sections g = Some (ztake (ext_end 0 xs) f, cdir_bytes (zd_files d), FmtAPK.ProofsLaws.fresh_for (zd_files d) (ext_end 0 xs)) /\
    spec_content_end g = Some (ext_end 0 xs).
Proof. exact FmtAPK.ProofsLaws.spec_view. Qed.
(* C01 C11: relic's locator and pair loop read EVERY pair list the documentation's writer can produce *)
Theorem apk_reader_reads_spec_blocks : forall ps n sl, Forall FmtAPK.ProofsBlock.pair_ok ps ->
  let P := concat (map spec_pair ps) in
  zlen P < 4611686018427387904 -> zlen P + 32 <= n -> 0 <= sl ->
  spec_write_block ps = FmtAPK.ProofsBlock.region_block P /\
  gsb n sl (sl + (zlen P + 32)) (spec_write_block ps) = Ok (Some P) /\ pairs_raw (S (length P)) P = Ok ps.
Proof.
  intros ps n sl Hp P H1 H2 H3. split; [reflexivity|]. split.
  - apply FmtAPK.ProofsBlock.gsb_region; assumption.
  - apply FmtAPK.ProofsBlock.pairs_raw_spec; [exact Hp|]. pose proof (FmtAPK.ProofsBlock.pairs_fuel ps). fold P in H. lia.
Qed.
(* C01: the verifier's locator finds exactly the embedded value *)
Theorem apk_law_extract : forall szs f b g, embed szs f b = Ok g -> forall d, read_zip f = Ok d -> zd_files d <> [] -> extract szs g = Ok (Some b).
Proof. exact FmtAPK.ProofsLaws.law_extract. Qed.
(* C01 C08: the signer's digest input does not see the block *)
Theorem apk_law_hashin : forall szs f b g, embed szs f b = Ok g -> hashin_sign szs g = hashin_sign szs f.
Proof. exact FmtAPK.ProofsLaws.law_hashin_sign. Qed.
(* C01: signer and verifier use the same convention: Finish(modified) with DirLoc redirected to the block start and
   GetOriginalDirectory(trim) of the signed file yield the same three sections, for every archive layout embed accepts *)
Theorem apk_verify_convention : forall szs f b g, embed szs f b = Ok g -> hashin_verify szs g = hashin_sign szs f.
Proof. exact FmtAPK.ProofsLaws.verify_convention. Qed.
(* C01: exactly when signing succeeds (the refusals: ZIP layer errors, ZIP64 needed, members not in stream order, member past
   the directory) *)
Theorem apk_embed_domain : forall szs f b g, embed szs f b = Ok g ->
  exists d xs, read_zip f = Ok d /\ extents (zd_files d) szs = Ok xs /\ FmtAPK.ProofsZip.ordered 0 xs /\ ext_end 0 xs <= zd_dirloc d /\
    FmtAPK.ProofsLaws.wd_ok (zd_files d) (ext_end 0 xs) /\ FmtAPK.ProofsLaws.wd_ok (zd_files d) (ext_end 0 xs + (zlen b + 44)) /\
    zlen b < 4611686018427387904 /\ g = FmtAPK.ProofsLaws.signed_nf f d (ext_end 0 xs) b.
Proof. exact FmtAPK.ProofsLaws.embed_inv. Qed.
Theorem apk_embed_defined : forall szs f b d xs, read_zip f = Ok d -> extents (zd_files d) szs = Ok xs -> FmtAPK.ProofsZip.ordered 0 xs ->
  ext_end 0 xs <= zd_dirloc d -> FmtAPK.ProofsLaws.wd_ok (zd_files d) (ext_end 0 xs) ->
  FmtAPK.ProofsLaws.wd_ok (zd_files d) (ext_end 0 xs + (zlen b + 44)) -> zlen b < 4611686018427387904 ->
  embed szs f b = Ok (FmtAPK.ProofsLaws.signed_nf f d (ext_end 0 xs) b).
Proof. exact FmtAPK.ProofsLaws.embed_ok. Qed.
(* C01: marshal then unmarshal (C11's model of the parser) is the identity on EVERY well-typed value whose lengths fit 32 bits *)
Theorem apk_marshal_roundtrip : forall s v, FmtAPK.ProofsSer.wt s v -> unmarshal s (enc v) = Ok v.
Proof. exact FmtAPK.ProofsSer.unmarshal_enc. Qed.
(* C01 C05: what Digest.Sign assembles (one digest, the chain, no attributes; one signer, one signature) parses back with the
   schemas generated from structs.go, and the documentation's reader sees the same digests, certificates, signature, key *)
Theorem apk_signed_data_roundtrip : forall sigid digest certs sigv pubkey, 0 <= sigid < 4294967296 ->
  FmtAPK.ProofsSer.sign_sizes_ok digest certs sigv pubkey ->
  unmarshal g_signer_list (enc (v_signer_list sigid digest certs sigv pubkey)) = Ok (v_signer_list sigid digest certs sigv pubkey) /\
  unmarshal g_signed_data (enc (v_signed_data sigid digest certs)) = Ok (v_signed_data sigid digest certs) /\
  spec_v2_value (enc (v_signer_list sigid digest certs sigv pubkey)) =
    Some [mkSsg (FmtAPK.ProofsSer.sd_body sigid digest certs) (mkSsd [(sigid, digest)] certs []) [(sigid, sigv)] pubkey].
Proof.
  intros. destruct (FmtAPK.ProofsSer.sign_roundtrip sigid digest certs sigv pubkey H H0) as [A B].
  split; [exact A|]. split; [exact B|]. apply FmtAPK.ProofsSer.spec_reads_relic_signer; assumption.
Qed.
(* C01: the signature type Digest.Sign selects is found again by sigTypeByID, has the requested digest, and VerifySignature has a
   branch for RSA and ECDSA; signature and verification cover the same bytes (signed data without its length prefix) *)
Theorem apk_sigtype_selected : forall hash alg t, select_type hash alg = Some t ->
  st_hash t = hash /\ st_alg t = alg /\ st_pss t = false /\ type_by_id (st_id t) = Some t.
Proof. exact FmtAPK.Proofs.select_type_sound. Qed.
Theorem apk_sigtype_defined : forall hash alg, (hash = 5 \/ hash = 7) -> (alg = 1 \/ alg = 3) ->
  exists t, select_type hash alg = Some t /\ verifiable_alg alg = true.
Proof. exact FmtAPK.Proofs.select_type_defined. Qed.
Theorem apk_signature_covers : sign_and_verify_cover_same_bytes = true /\ apk_raw_body_off = 4.
Proof. exact FmtAPK.Proofs.covers_same_bytes. Qed.
(* C01 witness: an archive WITHOUT members is signed and the result is then refused by getSigBlock *)
Theorem apk_empty_archive_refuted : exists g, embed [] FmtAPK.ProofsWit.w_empty [] = Ok g /\ extract [] g = Err E_NOFILES.
Proof. exact FmtAPK.ProofsWit.empty_archive_signed_then_refused. Qed.

(* ================================================================== C08 *)
(* C08: signing a signed file gives byte for byte what signing the original gives: the old block is replaced *)
Theorem apk_resign_replaces : forall szs f b1 b2 g1 g2, embed szs f b1 = Ok g1 -> embed szs f b2 = Ok g2 -> embed szs g1 b2 = Ok g2.
Proof. exact FmtAPK.ProofsLaws.resign_replaces. Qed.
(* C08: the is-signed probe: nothing between members and directory = not signed; relic's output = signed (apk_law_extract) *)
Theorem apk_is_signed_spec : forall szs f d xs, read_zip f = Ok d -> zd_files d <> [] -> extents (zd_files d) szs = Ok xs ->
  ext_end 0 xs = zd_dirloc d -> extract szs f = Ok None.
Proof. exact FmtAPK.ProofsLaws.extract_unsigned. Qed.

(* ================================================================== C03 *)
(* C03 C08: the class (members back to back from 0, at least one, canonical end record, documentation's reader agrees on the
   content end) is closed under signing, and the payload — everything of the file that is not signature, as the documentation's
   reader sees it — is kept *)
Theorem apk_wf_closed : forall szs f b g, wfb szs f = true -> embed szs f b = Ok g -> wfb szs g = true.
Proof. exact FmtAPK.ProofsDomain.wf_closed. Qed.
Theorem apk_law_payload : forall szs f b g, wfb szs f = true -> embed szs f b = Ok g -> spec_sections g = spec_sections f.
Proof. exact FmtAPK.ProofsDomain.payload_kept. Qed.
(* C03: for EVERY input embed accepts: members and directory bytes are copied, the bytes between the last member and the
   directory are replaced by the block, the end record is rebuilt *)
Theorem apk_only_these_ranges_differ : forall szs f b g, embed szs f b = Ok g ->
  exists d xs, read_zip f = Ok d /\ extents (zd_files d) szs = Ok xs /\
    f = ztake (ext_end 0 xs) f ++ zslice (ext_end 0 xs) (zd_dirloc d) f ++ cdir_bytes (zd_files d) ++ zd_end d /\
    g = ztake (ext_end 0 xs) f ++ mk_sig_block b ++ cdir_bytes (zd_files d) ++
        FmtAPK.ProofsLaws.fresh_for (zd_files d) (ext_end 0 xs + zlen (mk_sig_block b)).
Proof. exact FmtAPK.ProofsLaws.only_these_ranges_differ. Qed.
(* C03: the end record of the signed file is the old one with ONLY the directory offset changed, to content end + block length
   (old offset + block length for an unsigned input); the directory bytes in front of it are unchanged *)
Theorem apk_eocd_fixup : forall szs f b g, wfb szs f = true -> embed szs f b = Ok g ->
  exists d xs, read_zip f = Ok d /\ extents (zd_files d) szs = Ok xs /\
    zdrop (zlen g - 22) g = set_cdoff (zd_end d) (ext_end 0 xs + zlen (mk_sig_block b)) /\
    zslice (zlen g - 22 - zlen (cdir_bytes (zd_files d))) (zlen g - 22) g = cdir_bytes (zd_files d) /\
    (ext_end 0 xs = zd_dirloc d -> end_cdoff (zdrop (zlen g - 22) g) = end_cdoff (zd_end d) + zlen (mk_sig_block b)).
Proof. exact FmtAPK.ProofsDomain.eocd_fixup. Qed.
(* ... outside the class the record is rebuilt, not patched: a disk number is lost (members are not affected) *)
Theorem apk_eocd_fixup_refuted : exists g,
  embed FmtAPK.ProofsWit.w_szs (FmtAPK.ProofsWit.w_disk 5) [] = Ok g /\
  zdrop (zlen g - 22) g <> set_cdoff (FmtAPK.ProofsWit.w_end 5 31) (31 + zlen (mk_sig_block [])) /\
  zdrop (zlen g - 22) g = set_cdoff (FmtAPK.ProofsWit.w_end 0 31) (31 + zlen (mk_sig_block [])).
Proof. exact FmtAPK.ProofsWit.end_record_normalised. Qed.

(* ================================================================== C05 *)
(* C05: on the class, the bytes relic digests when signing / when verifying are the documentation's sections 1, 3, 4 *)
Theorem apk_hashin_eq_spec : forall szs f s, wfb szs f = true -> hashin_sign szs f = Ok s -> spec_sections f = Some s.
Proof. exact FmtAPK.ProofsDomain.hashin_sign_eq_spec. Qed.
Theorem apk_verify_hashin_eq_spec : forall szs g s, wfb szs g = true -> hashin_verify szs g = Ok s -> spec_sections g = Some s.
Proof. exact FmtAPK.ProofsDomain.hashin_verify_eq_spec. Qed.
(* C05 C02 witness: one byte in front of the member (section 1 of the scheme, no member): relic's digest input skips it when
   signing and when verifying; the documentation's sections of the signed file differ from what was digested *)
Theorem apk_hashin_gap_refuted : exists g s s',
  embed FmtAPK.ProofsWit.w_szs (FmtAPK.ProofsWit.w_gap 35) [] = Ok g /\ hashin_sign FmtAPK.ProofsWit.w_szs (FmtAPK.ProofsWit.w_gap 35) = Ok s /\
  hashin_verify FmtAPK.ProofsWit.w_szs g = Ok s /\ spec_sections g = Some s' /\ s <> s'.
Proof. exact FmtAPK.ProofsWit.gap_not_digested. Qed.
(* C05 witness: an additional attribute framed as the documentation says (stripping protection, value uint32 3) is rejected by
   relic's parser (which wants a second length prefix); relic itself never writes attributes *)
Theorem apk_attr_framing_refuted :
  spec_signed_data FmtAPK.ProofsWit.w_sd_doc = Some (mkSsd [(259, [9; 9])] [[7]] [(STRIPPING_PROTECTION_ID, [3; 0; 0; 0])]) /\
  unmarshal g_signed_data (spec_lp FmtAPK.ProofsWit.w_sd_doc) = Err E_EOF.
Proof. exact FmtAPK.ProofsWit.attribute_framing. Qed.
(* the schemas generated from structs.go are those of C11's no-panic theorems *)
Theorem apk_schemas_match : g_signer_list = s_signer_list /\ g_signed_data = s_signed_data.
Proof. exact FmtAPK.ProofsSer.schemas_match. Qed.

(* ================================================================== C02 *)
(* C02: two files of the class whose verifier digest input is the same agree on every byte in front of the block, on the central
   directory and on the end record (offset set to the block start): the scheme's sections 1, 3, 4 *)
Theorem apk_protect : forall szs1 szs2 g1 g2 s, wfb szs1 g1 = true -> wfb szs2 g2 = true ->
  hashin_verify szs1 g1 = Ok s -> hashin_verify szs2 g2 = Ok s -> spec_sections g1 = spec_sections g2.
Proof. exact FmtAPK.ProofsDomain.protect. Qed.
(* C02: apkSigner.Verify compares every signed digest with the recomputed one over its whole length, and takes as leaf a certificate
   whose SubjectPublicKeyInfo is the signer's public key *)
Theorem apk_digest_compared : forall signed computed, digests_match signed computed = true -> signed = computed.
Proof. exact FmtAPK.Proofs.digests_match_eq. Qed.
Theorem apk_leaf_has_signer_key : forall certs pubkey i, leaf_of certs pubkey = Some i -> In pubkey certs.
Proof. exact FmtAPK.Proofs.leaf_of_matches. Qed.
(* C02 witness (outside the class): two signed files that differ in a byte in front of the block that belongs to no member have
   the same verifier digest input and the same embedded value *)
Theorem apk_protect_gap_refuted : exists g1 g2 s,
  embed FmtAPK.ProofsWit.w_szs (FmtAPK.ProofsWit.w_gap 35) [] = Ok g1 /\ embed FmtAPK.ProofsWit.w_szs (FmtAPK.ProofsWit.w_gap 36) [] = Ok g2 /\
  hashin_verify FmtAPK.ProofsWit.w_szs g1 = Ok s /\ hashin_verify FmtAPK.ProofsWit.w_szs g2 = Ok s /\
  extract FmtAPK.ProofsWit.w_szs g1 = extract FmtAPK.ProofsWit.w_szs g2 /\ spec_sections g1 <> spec_sections g2.
Proof. exact FmtAPK.ProofsWit.gap_unprotected. Qed.
(* C02 (inherent to the format): ID-value pairs other than the v2 pair are neither digested nor interpreted *)
Theorem apk_other_pairs_unprotected : exists s v,
  FmtAPK.ProofsWit.w_padded 0 <> FmtAPK.ProofsWit.w_padded 1 /\
  wfb FmtAPK.ProofsWit.w_szs (FmtAPK.ProofsWit.w_padded 0) = true /\ wfb FmtAPK.ProofsWit.w_szs (FmtAPK.ProofsWit.w_padded 1) = true /\
  hashin_verify FmtAPK.ProofsWit.w_szs (FmtAPK.ProofsWit.w_padded 0) = Ok s /\ hashin_verify FmtAPK.ProofsWit.w_szs (FmtAPK.ProofsWit.w_padded 1) = Ok s /\
  extract FmtAPK.ProofsWit.w_szs (FmtAPK.ProofsWit.w_padded 0) = Ok (Some v) /\ extract FmtAPK.ProofsWit.w_szs (FmtAPK.ProofsWit.w_padded 1) = Ok (Some v).
Proof. exact FmtAPK.ProofsWit.other_pairs_unprotected. Qed.
(* C02: v1 / v2 binding.  With apkV2 the main section DigestManifest writes carries X-Android-APK-Signed: 2 as the JAR
   specification's reader sees it (for every list of other attributes), without the flag it does not; verify rejects a v1 signature
   whose header names '2' exactly when no v2 signature was found; the header name verify asks for is the one written.
   (The apk signer itself never touches the .SF — apk_only_these_ranges_differ — so the binding exists only if the jar signer was
   run with --apk-v2-present, as doc/android.md prescribes.) *)
Theorem apk_v1_v2_binding : forall others, Forall FmtAPK.Proofs.attr_ok others -> Forall (fun nv => fst nv <> apk_sf_marker_name) others ->
  spec_sf_lookup (sf_main true others) apk_v1_header_name = Some apk_sf_marker_value /\
  spec_sf_lookup (sf_main false others) apk_v1_header_name = None.
Proof. exact FmtAPK.Proofs.sf_marker_written. Qed.
Theorem apk_strip_detected : forall hdr n, v1_check hdr n = true <-> (In 50 hdr /\ n = 0).
Proof. exact FmtAPK.Proofs.v1_check_spec. Qed.
Theorem apk_v1_header_names_agree : header_names_agree = true /\ In 50 apk_sf_marker_value.
Proof. split; [exact FmtAPK.Proofs.names_agree|left; reflexivity]. Qed.

(* ================================================================== C11 *)
(* C11: the block locator and the pair loop on ARBITRARY bytes and an arbitrary member size table never panic ... *)
Theorem apk_locator_no_panic : forall szs f p, extract szs f <> Panic p.
Proof. exact FmtAPK.Proofs.extract_no_panic. Qed.
(* ... the getSigBlock of this unit is the one of C11, and C11's theorem about (sig_loc, dir_loc, gap) lifts to file bytes: the
   guards of the ZIP reader establish its hypotheses *)
Theorem apk_gsb_is_c11 : forall n sl dl gap, gsb n sl dl gap = sig_block n sl dl gap.
Proof. exact FmtAPK.Proofs.gsb_is_c11_sig_block. Qed.
Theorem apk_parse_no_panic : forall vok szs f p, all_bytes f = true -> FmtAPK.Proofs.parse_file vok szs f <> Panic p.
Proof. exact FmtAPK.Proofs.parse_file_no_panic. Qed.

(* ================================================================== the pipeline instance (C01 C08 C02) *)
Section Crypto.
  Variables key pubk sigv : Type.
  Variable H : Z -> bytes -> bytes.
  Variable pub : key -> pubk.
  Variable sign : key -> bytes -> sigv.
  Variable vrfy : pubk -> bytes -> sigv -> bool.
  Hypothesis sign_correct : forall k m, vrfy (pub k) m (sign k m) = true.
  Variable tbs : Z -> bytes -> bytes.
  Variable ser : Laws.Pipeline.sigblob pubk sigv -> bytes.
  Variable deser : bytes -> option (Laws.Pipeline.sigblob pubk sigv).
  Hypothesis deser_ser : forall b, deser (ser b) = Some b.
  Variable szs : list Z.

  (* the signer's format (digest input of digestApkStream) and the verifier's (apkSigner.Verify), on the class *)
  Definition Fs : Laws.Pipeline.format (option secs) :=
    Laws.Pipeline.mkFormat (option secs) (fun f => rmap enc_secs (hashin_sign szs f)) (embed_wf szs) (extract szs) (fun f => Ok (spec_sections f)).
  Definition Fv : Laws.Pipeline.format (option secs) :=
    Laws.Pipeline.mkFormat (option secs) (fun f => rmap enc_secs (hashin_verify szs f)) (embed_wf szs) (extract szs) (fun f => Ok (spec_sections f)).

  Lemma embed_wf_inv f b g : embed_wf szs f b = Ok g -> wfb szs f = true /\ embed szs f b = Ok g.
  Proof. unfold embed_wf. destruct (wfb szs f); [intros E; split; [reflexivity|exact E]|discriminate]. Qed.

  Theorem apk_format_laws : Laws.Pipeline.law_extract (option secs) Fs /\ Laws.Pipeline.law_hashin (option secs) Fs /\ Laws.Pipeline.law_payload (option secs) Fs.
  Proof.
    split; [|split]; intros f b g E; cbn [Laws.Pipeline.f_embed Laws.Pipeline.f_extract Laws.Pipeline.f_hashin Laws.Pipeline.f_payload Fs] in *;
      destruct (embed_wf_inv _ _ _ E) as [W E'].
    - apply FmtAPK.ProofsDomain.wfb_view in W. destruct W as (d & xs & V). destruct V. eapply FmtAPK.ProofsLaws.law_extract; eassumption.
    - now rewrite (FmtAPK.ProofsLaws.law_hashin_sign _ _ _ _ E').
    - now rewrite (FmtAPK.ProofsDomain.payload_kept _ _ _ _ W E').
  Qed.
  (* on relic's outputs the verifier's view is the signer's view *)
  Theorem apk_verifier_view : forall f b g, embed_wf szs f b = Ok g ->
    Laws.Pipeline.verify_file pubk sigv H vrfy tbs deser (option secs) Fv g =
    Laws.Pipeline.verify_file pubk sigv H vrfy tbs deser (option secs) Fs g.
  Proof.
    intros f b g E. destruct (embed_wf_inv _ _ _ E) as [W E']. unfold Laws.Pipeline.verify_file.
    cbn [Laws.Pipeline.f_extract Laws.Pipeline.f_hashin Fv Fs].
    now rewrite (FmtAPK.ProofsLaws.verify_convention _ _ _ _ E'), (FmtAPK.ProofsLaws.law_hashin_sign _ _ _ _ E').
  Qed.
  (* C01: whatever is signed (digestApkStream, Sign, Apply) verifies (getSigBlock, pair loop, apkSigner.Verify's recomputation)
     and names the configured certificate and the requested digest *)
  Theorem apk_sign_then_verify : forall k a f g,
    Laws.Pipeline.sign_file key pubk sigv H pub sign tbs ser (option secs) Fs k a f = Ok g ->
    Laws.Pipeline.verify_file pubk sigv H vrfy tbs deser (option secs) Fv g = Laws.Pipeline.Accept pubk (pub k) a.
  Proof.
    intros k a f g E. destruct apk_format_laws as (L1 & L2 & L3).
    pose proof (Laws.Pipeline.sign_then_verify key pubk sigv H pub sign vrfy sign_correct tbs ser deser deser_ser (option secs) Fs L1 L2 k a f g E) as V.
    unfold Laws.Pipeline.sign_file in E. destruct (Laws.Pipeline.f_hashin (option secs) Fs f) as [pre| |]; cbn [bind] in E; try discriminate.
    cbn [Laws.Pipeline.f_embed Fs] in E. rewrite (apk_verifier_view _ _ _ E). exact V.
  Qed.
  (* C08: any history of re-signing with differing keys and digests: verifiable under the last key, signed, original payload,
     original digest input *)
  Theorem apk_resign_history : forall hist f g k a,
    Laws.Pipeline.resign key pubk sigv H pub sign tbs ser (option secs) Fs (hist ++ [(k, a)]) f = Ok g ->
    Laws.Pipeline.verify_file pubk sigv H vrfy tbs deser (option secs) Fs g = Laws.Pipeline.Accept pubk (pub k) a /\
    Laws.Pipeline.is_signed (option secs) Fs g = true /\
    Laws.Pipeline.f_payload (option secs) Fs g = Laws.Pipeline.f_payload (option secs) Fs f /\
    Laws.Pipeline.f_hashin (option secs) Fs g = Laws.Pipeline.f_hashin (option secs) Fs f.
  Proof.
    destruct apk_format_laws as (L1 & L2 & L3).
    exact (Laws.Pipeline.resign_history key pubk sigv H pub sign vrfy sign_correct tbs ser deser deser_ser (option secs) Fs L1 L2 L3).
  Qed.
  (* C02: an accepted file carries a digest its signer issued over the file's verifier digest input *)
  Theorem apk_tamper_rejected : forall (issued : key -> Z -> bytes -> Prop),
    (forall k a d s, vrfy (pub k) (tbs a d) s = true -> issued k a d) ->
    forall g' k a, Laws.Pipeline.verify_file pubk sigv H vrfy tbs deser (option secs) Fv g' = Laws.Pipeline.Accept pubk (pub k) a ->
    exists pre, Laws.Pipeline.f_hashin (option secs) Fv g' = Ok pre /\ issued k a (H a pre).
  Proof.
    intros issued Hunf. exact (Laws.Pipeline.tamper_rejected key pubk sigv H pub vrfy tbs deser (option secs) Fv issued Hunf).
  Qed.
End Crypto.

(* non-vacuity *)
Example apk_class_inhabited : wfb FmtAPK.ProofsWit.w_szs FmtAPK.ProofsWit.w_plain = true.
Proof. exact FmtAPK.ProofsWit.w_plain_in_class. Qed.
Example apk_embed_example : exists g, embed FmtAPK.ProofsWit.w_szs FmtAPK.ProofsWit.w_plain [1; 2; 3] = Ok g /\ zlen g = zlen FmtAPK.ProofsWit.w_plain + 47.
Proof. eexists. split; vm_compute; reflexivity. Qed.
Example apk_block_example : mk_sig_block [7] =
  [37; 0; 0; 0; 0; 0; 0; 0; 5; 0; 0; 0; 0; 0; 0; 0; 26; 135; 9; 113; 7; 37; 0; 0; 0; 0; 0; 0; 0; 65; 80; 75; 32; 83; 105; 103; 32; 66; 108; 111; 99; 107; 32; 52; 50].
Proof. vm_compute. reflexivity. Qed.
