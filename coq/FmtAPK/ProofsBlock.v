(* FmtAPK/ProofsBlock.v — makeSigBlock in normal form; getSigBlock and the pair loop on it; the documentation's reader on it. *)
From Relic Require Import Base.Prelude Base.Enc Generated.C11_gen Generated.FmtAPK_gen FmtAPK.Model FmtAPK.Lib.
From Relic Require C11.Model.
Import C11.Model.

Lemma zeros_app a b : 0 <= a -> 0 <= b -> zeros (a + b) = zeros a ++ zeros b.
Proof. intros Ha Hb. unfold zeros. rewrite Z2Nat.inj_add by lia. apply repeat_app. Qed.
Lemma zlen_zeros n : 0 <= n -> zlen (zeros n) = n.
Proof. intros H. unfold zeros. rewrite zlen_repeat. lia. Qed.

Lemma poke_exact buf a z c off src : buf = a ++ z ++ c -> off = zlen a -> zlen z = zlen src -> poke buf off src = a ++ src ++ c.
Proof.
  intros -> -> Hz. unfold poke. pose proof (zlen_nonneg a). pose proof (zlen_nonneg c). pose proof (zlen_nonneg src).
  rewrite !zlen_app. replace ((zlen a <? 0) || (zlen a + (zlen z + zlen c) <? zlen a)) with false by lia.
  replace (Z.min (zlen src) (zlen a + (zlen z + zlen c) - zlen a)) with (zlen src) by lia.
  rewrite ztake_app_exact. rewrite (ztake_all (zlen src) src) by lia. f_equal. f_equal.
  rewrite app_assoc. apply zdrop_app_exact'. rewrite zlen_app. lia.
Qed.

Definition block_nf (b : bytes) : bytes :=
  le_enc 8 (zlen b + 36) ++ le_enc 8 (zlen b + 4) ++ le_enc 4 apk_sig_v2_id ++ b ++ le_enc 8 (zlen b + 36) ++ apk_sig_magic.

Lemma mk_sig_block_nf b : mk_sig_block b = block_nf b.
Proof.
  unfold mk_sig_block, block_nf. set (n := zlen b). pose proof (zlen_nonneg b) as Hn. fold n in Hn.
  unfold apk_mb_len, apk_mb_size_off, apk_mb_size_val, apk_mb_pair_off, apk_mb_pair_val, apk_mb_id_off, apk_mb_id_val, apk_mb_blob_off,
    apk_mb_suffix_off, apk_mb_again_dst, apk_mb_again_src_lo, apk_mb_again_src_hi, apk_mb_magic_dst.
  change apk_mb_copies_blob with true. change apk_mb_copies_size with true. change apk_mb_copies_magic with true. cbv iota.
  replace (8 + 4 + n + 8 + 16) with (n + 36) by lia. replace (4 + n) with (n + 4) by lia.
  assert (Z0 : zeros (8 + 12 + n + 24) = zeros 8 ++ zeros 8 ++ zeros 4 ++ zeros n ++ zeros 8 ++ zeros 16).
  { replace (8 + 12 + n + 24) with (8 + (8 + (4 + (n + (8 + 16))))) by lia. rewrite !zeros_app by lia. reflexivity. }
  rewrite Z0.
  set (X := le_enc 8 (n + 36)). set (Y := le_enc 8 (n + 4)). set (I := le_enc 4 apk_sig_v2_id).
  assert (LX : zlen X = 8) by apply zlen_le_enc8. assert (LY : zlen Y = 8) by apply zlen_le_enc8. assert (LI : zlen I = 4) by apply zlen_le_enc4.
  rewrite (poke_exact _ [] (zeros 8) (zeros 8 ++ zeros 4 ++ zeros n ++ zeros 8 ++ zeros 16) 0 X) by (try reflexivity; rewrite zlen_zeros by lia; lia).
  cbn [app].
  rewrite (poke_exact _ X (zeros 8) (zeros 4 ++ zeros n ++ zeros 8 ++ zeros 16) 8 Y) by (try reflexivity; try lia; rewrite zlen_zeros by lia; lia).
  rewrite (poke_exact _ (X ++ Y) (zeros 4) (zeros n ++ zeros 8 ++ zeros 16) (8 + 8) I)
    by (rewrite <- ?app_assoc; try reflexivity; rewrite ?zlen_app, ?zlen_zeros by lia; lia).
  rewrite (poke_exact _ ((X ++ Y) ++ I) (zeros n) (zeros 8 ++ zeros 16) (8 + 8 + 4) b)
    by (rewrite <- ?app_assoc; try reflexivity; rewrite ?zlen_app, ?zlen_zeros by lia; lia).
  set (b4 := ((X ++ Y) ++ I) ++ b ++ zeros 8 ++ zeros 16).
  assert (S4 : zslice 0 8 b4 = X).
  { unfold b4. rewrite <- !app_assoc. rewrite zslice_0. apply ztake_app_exact'. lia. }
  rewrite S4.
  rewrite (poke_exact b4 (((X ++ Y) ++ I) ++ b) (zeros 8) (zeros 16) (8 + 8 + 4 + n + 0) X)
    by (unfold b4; rewrite <- ?app_assoc; try reflexivity; rewrite ?zlen_app, ?zlen_zeros by lia; fold n; lia).
  rewrite (poke_exact _ ((((X ++ Y) ++ I) ++ b) ++ X) (zeros 16) [] (8 + 8 + 4 + n + 8) apk_sig_magic)
    by (rewrite <- ?app_assoc, ?app_nil_r; try reflexivity; rewrite ?zlen_app, ?zlen_zeros by lia; fold n; try lia; reflexivity).
  rewrite <- !app_assoc, app_nil_r. reflexivity.
Qed.

Lemma zlen_magic : zlen apk_sig_magic = 16. Proof. reflexivity. Qed.
Lemma zlen_block_nf b : zlen (block_nf b) = zlen b + 44.
Proof. unfold block_nf. rewrite !zlen_app, !zlen_le_enc8, zlen_le_enc4, zlen_magic. lia. Qed.

(* ------------------------------------------------------------------ checked primitives on in-range arguments *)
Lemma cle_ok w off l : 0 <= off -> 0 <= w -> off + w <= zlen l -> cle w off l = Ok (le_dec (zslice off (off + w) l)).
Proof.
  intros H1 H2 H3. unfold cle. replace ((off <? 0) || (zlen l <? off)) with false by lia.
  replace (zlen l - off <? w) with false by lia. reflexivity.
Qed.
Lemma cslice_ok a b l : 0 <= a <= b -> b <= zlen l -> cslice a b l = Ok (zslice a b l).
Proof. intros H1 H2. unfold cslice. replace ((a <? 0) || (b <? a) || (zlen l <? b)) with false by lia. reflexivity. Qed.

Lemma has_suffix_app x suf : has_suffix_b (x ++ suf) suf = true.
Proof.
  unfold has_suffix_b. rewrite zlen_app. pose proof (zlen_nonneg x). replace (zlen x + zlen suf <? zlen suf) with false by lia.
  replace (zlen x + zlen suf - zlen suf) with (zlen x) by lia. rewrite zdrop_app_exact.
  induction suf as [|c r IH]; [reflexivity|]. rewrite Z.eqb_refl. exact IH.
Qed.

(* ------------------------------------------------------------------ getSigBlock on relic's block *)
Definition pairs_nf (b : bytes) : bytes := le_enc 8 (zlen b + 4) ++ le_enc 4 apk_sig_v2_id ++ b.

Lemma gsb_block n sl b : zlen b < 4611686018427387904 -> zlen b + 44 <= n -> 0 <= sl ->
  gsb n sl (sl + (zlen b + 44)) (block_nf b) = Ok (Some (pairs_nf b)).
Proof.
  intros Hb Hn Hs. pose proof (zlen_nonneg b) as H0. set (B := block_nf b). assert (LB : zlen B = zlen b + 44) by apply zlen_block_nf.
  unfold gsb. unfold apk_sb_unsigned, apk_sb_out_of_range, apk_sb_blob_len, apk_sb_too_short, apk_sb_expected, apk_sb_size1_off, apk_sb_size2_off,
    apk_sb_size_bad, apk_sb_pairs_lo, apk_sb_pairs_hi.
  replace (sl =? sl + (zlen b + 44)) with false by lia.
  replace ((sl <? 0) || (sl >? sl + (zlen b + 44))) with false by lia.
  replace (sl + (zlen b + 44) - sl) with (zlen b + 44) by lia.
  unfold alloc, alloc_limit. replace (zlen b + 44 <? 0) with false by lia. replace (64 * n + 1048576 <? zlen b + 44) with false by lia. cbn [bind].
  change apk_sb_checks_magic_suffix with true.
  assert (HS : has_suffix_b B apk_sig_magic = true).
  { unfold B, block_nf. rewrite !app_assoc. apply has_suffix_app. }
  rewrite HS. cbn [negb andb]. rewrite LB, zlen_magic. replace (zlen b + 44 <? 8 + 8 + 16) with false by lia.
  rewrite (cslice_ok 0 (zlen b + 44) B) by lia. cbn [bind]. rewrite (zslice_full B) by lia.
  rewrite (cle_ok 8 0 B) by lia. cbn [bind].
  assert (S1 : zslice 0 (0 + 8) B = le_enc 8 (zlen b + 36)).
  { unfold B, block_nf. rewrite zslice_0. apply ztake_app_exact'. rewrite zlen_le_enc8. reflexivity. }
  rewrite S1, le_dec_enc8 by lia.
  rewrite (cslice_ok (zlen b + 44 - 24) (zlen b + 44) B) by lia. cbn [bind].
  assert (S2 : zslice (zlen b + 44 - 24) (zlen b + 44) B = le_enc 8 (zlen b + 36) ++ apk_sig_magic).
  { unfold B, block_nf. rewrite !app_assoc. rewrite <- (app_assoc _ (le_enc 8 (zlen b + 36)) apk_sig_magic).
    rewrite zslice_to_end by (try lia; rewrite !zlen_app, !zlen_le_enc8, zlen_le_enc4, zlen_magic; lia).
    apply zdrop_app_exact'. rewrite !zlen_app, !zlen_le_enc8, zlen_le_enc4. lia. }
  rewrite S2. rewrite (cle_ok 8 0) by (rewrite ?zlen_app, ?zlen_le_enc8, ?zlen_magic; lia). cbn [bind].
  rewrite zslice_0, (ztake_app_exact' 8) by (rewrite zlen_le_enc8; reflexivity). rewrite le_dec_enc8 by lia.
  replace (negb (zlen b + 36 =? zlen b + 44 - 8) || negb (zlen b + 36 =? zlen b + 44 - 8)) with false by lia.
  rewrite (cslice_ok 8 (zlen b + 44 - 24) B) by lia. cbn [bind].
  f_equal. f_equal. unfold B, block_nf, pairs_nf.
  rewrite (app_assoc (le_enc 8 (zlen b + 4))), (app_assoc (le_enc 8 (zlen b + 4) ++ le_enc 4 apk_sig_v2_id)).
  apply zslice_app_mid; rewrite ?zlen_app, ?zlen_le_enc8, ?zlen_le_enc4; lia.
Qed.

Lemma pairs_raw_nf b k : zlen b < 4611686018427387904 -> (2 <= k)%nat -> pairs_raw k (pairs_nf b) = Ok [(apk_sig_v2_id, b)].
Proof.
  intros Hb Hk. pose proof (zlen_nonneg b) as H0. destruct k as [|[|k]]; try lia.
  set (P := pairs_nf b). assert (LP : zlen P = zlen b + 12) by (unfold P, pairs_nf; rewrite !zlen_app, zlen_le_enc8, zlen_le_enc4; lia).
  cbn [pairs_raw]. unfold apk_pair_more, apk_pair_short, apk_pair_after_size, apk_pair_size_bad, apk_pair_value_lo, apk_pair_value_hi, apk_pair_next.
  rewrite LP. replace (zlen b + 12 >? 0) with true by lia. replace (zlen b + 12 <? 12) with false by lia.
  rewrite (cle_ok 8 0 P) by lia. cbn [bind].
  assert (S1 : zslice 0 (0 + 8) P = le_enc 8 (zlen b + 4)) by (unfold P, pairs_nf; rewrite zslice_0; apply ztake_app_exact'; rewrite zlen_le_enc8; reflexivity).
  rewrite S1, le_dec_enc8 by lia.
  rewrite (cslice_ok 8 (zlen b + 12) P) by lia. cbn [bind].
  assert (S2 : zslice 8 (zlen b + 12) P = le_enc 4 apk_sig_v2_id ++ b).
  { unfold P, pairs_nf. rewrite zslice_to_end by (try lia; rewrite !zlen_app, zlen_le_enc8, zlen_le_enc4; lia). apply zdrop_app_exact'. rewrite zlen_le_enc8. reflexivity. }
  rewrite S2. set (B1 := le_enc 4 apk_sig_v2_id ++ b). assert (L1 : zlen B1 = zlen b + 4) by (unfold B1; rewrite zlen_app, zlen_le_enc4; lia).
  rewrite L1. replace ((zlen b + 4 <? 4) || (zlen b + 4 >? zlen b + 4)) with false by lia.
  rewrite (cle_ok 4 0 B1) by lia. cbn [bind].
  assert (S3 : zslice 0 (0 + 4) B1 = le_enc 4 apk_sig_v2_id) by (unfold B1; rewrite zslice_0; apply ztake_app_exact'; rewrite zlen_le_enc4; reflexivity).
  rewrite S3, le_dec_enc4 by (unfold apk_sig_v2_id; lia).
  rewrite (cslice_ok 4 (zlen b + 4) B1) by lia. cbn [bind].
  assert (S4 : zslice 4 (zlen b + 4) B1 = b).
  { unfold B1. rewrite zslice_to_end by (try lia; rewrite zlen_app, zlen_le_enc4; lia). apply zdrop_app_exact'. rewrite zlen_le_enc4. reflexivity. }
  rewrite S4. rewrite (cslice_ok (zlen b + 4) (zlen b + 4) B1) by lia. cbn [bind].
  assert (S5 : zslice (zlen b + 4) (zlen b + 4) B1 = []) by (unfold zslice; rewrite Z.sub_diag; reflexivity).
  rewrite S5. cbn [pairs_raw zlen length]. unfold apk_pair_more. cbn [Z.of_nat Z.gtb Z.compare bind]. reflexivity.
Qed.

Lemma v2_values_single b : v2_values [(apk_sig_v2_id, b)] = [b].
Proof. unfold v2_values, apk_pair_other. cbn [filter fst]. rewrite Z.eqb_refl. reflexivity. Qed.

(* ------------------------------------------------------------------ the documentation's reader on a file A ++ block ++ C ++ E *)
Lemma spec_magic_same : spec_magic = apk_sig_magic. Proof. reflexivity. Qed.
Lemma v2_id_same : V2_ID = apk_sig_v2_id. Proof. reflexivity. Qed.

Lemma spec_block_relic A b R : zlen b < 4611686018427387904 ->
  spec_block (A ++ block_nf b ++ R) (zlen A + (zlen b + 44)) = Block (zlen A) (pairs_nf b).
Proof.
  intros Hb. pose proof (zlen_nonneg b) as H0. pose proof (zlen_nonneg A) as HA.
  set (n := zlen b) in *. set (cd := zlen A + (n + 44)).
  (* the file as prefix ++ size ++ pairs ++ size ++ magic ++ rest *)
  set (X := le_enc 8 (n + 36)). assert (LX : zlen X = 8) by apply zlen_le_enc8.
  set (P := pairs_nf b). assert (LP : zlen P = n + 12) by (unfold P, pairs_nf; rewrite !zlen_app, zlen_le_enc8, zlen_le_enc4; fold n; lia).
  assert (Ef : A ++ block_nf b ++ R = A ++ X ++ P ++ X ++ apk_sig_magic ++ R).
  { unfold block_nf, P, pairs_nf. fold n X. rewrite <- !app_assoc. reflexivity. }
  rewrite Ef. unfold spec_block. cbv zeta. replace (cd <? 32) with false by (unfold cd; lia).
  assert (M : zslice (cd - 16) cd (A ++ X ++ P ++ X ++ apk_sig_magic ++ R) = spec_magic).
  { rewrite (app_assoc A), (app_assoc (A ++ X)), (app_assoc ((A ++ X) ++ P)). rewrite spec_magic_same.
    apply zslice_app_mid; rewrite ?zlen_app, ?LX, ?LP, ?zlen_magic; unfold cd; lia. }
  rewrite M, bytes_eqb_refl. cbn [negb].
  assert (S2 : zslice (cd - 24) (cd - 16) (A ++ X ++ P ++ X ++ apk_sig_magic ++ R) = X).
  { rewrite (app_assoc A), (app_assoc (A ++ X)). apply zslice_app_mid; rewrite ?zlen_app, ?LX, ?LP; unfold cd; lia. }
  assert (DX : le_dec X = n + 36) by (unfold X; apply le_dec_enc8; lia).
  rewrite !S2, !DX.
  replace ((n + 36 <? 24) || (cd <? n + 36 + 8)) with false by (unfold cd; lia).
  replace (cd - (n + 36) - 8) with (zlen A) by (unfold cd; lia).
  assert (S1 : zslice (zlen A) (zlen A + 8) (A ++ X ++ P ++ X ++ apk_sig_magic ++ R) = X) by (apply zslice_app_mid; lia).
  rewrite S1, DX. rewrite Z.eqb_refl. cbn [negb].
  f_equal. rewrite (app_assoc A). apply zslice_app_mid; rewrite ?zlen_app, ?LX, ?LP; unfold cd; lia.
Qed.

Lemma spec_pairs_nf b k : zlen b < 4611686018427387904 -> (2 <= k)%nat -> spec_pairs k (pairs_nf b) = Some [(V2_ID, b)].
Proof.
  intros Hb Hk. pose proof (zlen_nonneg b) as H0. destruct k as [|[|k]]; try lia.
  set (P := pairs_nf b). assert (LP : zlen P = zlen b + 12) by (unfold P, pairs_nf; rewrite !zlen_app, zlen_le_enc8, zlen_le_enc4; lia).
  cbn [spec_pairs]. rewrite LP. replace (zlen b + 12 =? 0) with false by lia. replace (zlen b + 12 <? 12) with false by lia.
  assert (S1 : ztake 8 P = le_enc 8 (zlen b + 4)) by (unfold P, pairs_nf; apply ztake_app_exact'; rewrite zlen_le_enc8; reflexivity).
  rewrite S1, le_dec_enc8 by lia.
  replace ((zlen b + 4 <? 4) || (zlen b + 12 - 8 <? zlen b + 4)) with false by lia.
  assert (S2 : zdrop (8 + (zlen b + 4)) P = []) by (apply zdrop_all; lia).
  rewrite S2. cbn [zlen length Z.of_nat Z.eqb].
  assert (S3 : zslice 8 12 P = le_enc 4 apk_sig_v2_id).
  { unfold P, pairs_nf. apply zslice_app_mid; rewrite ?zlen_le_enc8, ?zlen_le_enc4; lia. }
  rewrite S3, le_dec_enc4 by (unfold apk_sig_v2_id; lia).
  assert (S4 : zslice 12 (8 + (zlen b + 4)) P = b).
  { unfold P, pairs_nf. rewrite app_assoc. rewrite zslice_to_end by (try lia; rewrite !zlen_app, zlen_le_enc8, zlen_le_enc4; lia).
    apply zdrop_app_exact'. rewrite zlen_app, zlen_le_enc8, zlen_le_enc4. reflexivity. }
  rewrite S4. reflexivity.
Qed.

(* ------------------------------------------------------------------ every pair list: the documentation's writer, relic's readers *)
Lemma block_is_spec b : block_nf b = spec_write_block [(V2_ID, b)].
Proof.
  unfold block_nf, spec_write_block, spec_pair. cbn [map concat fst snd]. rewrite app_nil_r, !zlen_app, zlen_le_enc8, zlen_le_enc4.
  replace (8 + (4 + zlen b) + 24) with (zlen b + 36) by lia. replace (4 + zlen b) with (zlen b + 4) by lia.
  rewrite <- !app_assoc. reflexivity.
Qed.

Definition region_block (P : bytes) : bytes := le_enc 8 (zlen P + 24) ++ P ++ le_enc 8 (zlen P + 24) ++ apk_sig_magic.
Lemma gsb_region n sl P : zlen P < 4611686018427387904 -> zlen P + 32 <= n -> 0 <= sl ->
  gsb n sl (sl + (zlen P + 32)) (region_block P) = Ok (Some P).
Proof.
  intros Hb Hn Hs. pose proof (zlen_nonneg P) as H0. set (B := region_block P).
  assert (LB : zlen B = zlen P + 32) by (unfold B, region_block; rewrite !zlen_app, !zlen_le_enc8, zlen_magic; lia).
  unfold gsb. unfold apk_sb_unsigned, apk_sb_out_of_range, apk_sb_blob_len, apk_sb_too_short, apk_sb_expected, apk_sb_size1_off, apk_sb_size2_off,
    apk_sb_size_bad, apk_sb_pairs_lo, apk_sb_pairs_hi.
  replace (sl =? sl + (zlen P + 32)) with false by lia.
  replace ((sl <? 0) || (sl >? sl + (zlen P + 32))) with false by lia.
  replace (sl + (zlen P + 32) - sl) with (zlen P + 32) by lia.
  unfold alloc, alloc_limit. replace (zlen P + 32 <? 0) with false by lia. replace (64 * n + 1048576 <? zlen P + 32) with false by lia. cbn [bind].
  change apk_sb_checks_magic_suffix with true.
  assert (HS : has_suffix_b B apk_sig_magic = true) by (unfold B, region_block; rewrite !app_assoc; apply has_suffix_app).
  rewrite HS. cbn [negb andb]. rewrite LB, zlen_magic. replace (zlen P + 32 <? 8 + 8 + 16) with false by lia.
  rewrite (cslice_ok 0 (zlen P + 32) B) by lia. cbn [bind]. rewrite (zslice_full B) by lia.
  rewrite (cle_ok 8 0 B) by lia. cbn [bind].
  assert (S1 : zslice 0 (0 + 8) B = le_enc 8 (zlen P + 24)) by (unfold B, region_block; rewrite zslice_0; apply ztake_app_exact'; rewrite zlen_le_enc8; reflexivity).
  rewrite S1, le_dec_enc8 by lia.
  rewrite (cslice_ok (zlen P + 32 - 24) (zlen P + 32) B) by lia. cbn [bind].
  assert (S2 : zslice (zlen P + 32 - 24) (zlen P + 32) B = le_enc 8 (zlen P + 24) ++ apk_sig_magic).
  { unfold B, region_block. rewrite app_assoc. rewrite zslice_to_end by (try lia; rewrite !zlen_app, !zlen_le_enc8, zlen_magic; lia).
    apply zdrop_app_exact'. rewrite zlen_app, zlen_le_enc8. lia. }
  rewrite S2. rewrite (cle_ok 8 0) by (rewrite ?zlen_app, ?zlen_le_enc8, ?zlen_magic; lia). cbn [bind].
  rewrite zslice_0, (ztake_app_exact' 8) by (rewrite zlen_le_enc8; reflexivity). rewrite le_dec_enc8 by lia.
  replace (negb (zlen P + 24 =? zlen P + 32 - 8) || negb (zlen P + 24 =? zlen P + 32 - 8)) with false by lia.
  rewrite (cslice_ok 8 (zlen P + 32 - 24) B) by lia. cbn [bind].
  f_equal. f_equal. unfold B, region_block. apply zslice_app_mid; rewrite ?zlen_le_enc8; lia.
Qed.

Definition pair_ok (p : Z * bytes) : Prop := 0 <= fst p < 4294967296 /\ zlen (snd p) < 4611686018427387904.
Lemma zlen_spec_pair p : zlen (spec_pair p) = 12 + zlen (snd p).
Proof. unfold spec_pair. rewrite !zlen_app, zlen_le_enc8, zlen_le_enc4. lia. Qed.

Lemma pairs_raw_spec ps : Forall pair_ok ps -> forall k, (length ps < k)%nat -> pairs_raw k (concat (map spec_pair ps)) = Ok ps.
Proof.
  induction 1 as [|[id v] ps [Hid Hv] Hps IH]; intros k Hk.
  - destruct k as [|k]; [lia|]. reflexivity.
  - destruct k as [|k]; [cbn in Hk; lia|]. cbn [length] in Hk. cbn [fst snd] in Hid, Hv. cbn [map concat]. set (R := concat (map spec_pair ps)) in *.
    pose proof (zlen_nonneg v). pose proof (zlen_nonneg R). set (blk := spec_pair (id, v) ++ R).
    assert (LB : zlen blk = 12 + zlen v + zlen R) by (unfold blk; rewrite zlen_app, zlen_spec_pair; reflexivity).
    assert (Eb : blk = le_enc 8 (4 + zlen v) ++ le_enc 4 id ++ v ++ R) by (unfold blk, spec_pair; cbn [fst snd]; rewrite <- !app_assoc; reflexivity).
    cbn [pairs_raw]. unfold apk_pair_more, apk_pair_short, apk_pair_after_size, apk_pair_size_bad, apk_pair_value_lo, apk_pair_value_hi, apk_pair_next.
    rewrite LB. replace (12 + zlen v + zlen R >? 0) with true by lia. replace (12 + zlen v + zlen R <? 12) with false by lia.
    rewrite (cle_ok 8 0 blk) by lia. cbn [bind].
    assert (S1 : zslice 0 (0 + 8) blk = le_enc 8 (4 + zlen v)) by (rewrite Eb, zslice_0; apply ztake_app_exact'; rewrite zlen_le_enc8; reflexivity).
    rewrite S1, le_dec_enc8 by lia.
    rewrite (cslice_ok 8 (12 + zlen v + zlen R) blk) by lia. cbn [bind].
    assert (S2 : zslice 8 (12 + zlen v + zlen R) blk = le_enc 4 id ++ v ++ R).
    { rewrite zslice_to_end by lia. rewrite Eb. apply zdrop_app_exact'. rewrite zlen_le_enc8. reflexivity. }
    rewrite S2. set (B1 := le_enc 4 id ++ v ++ R). assert (L1 : zlen B1 = 4 + zlen v + zlen R) by (unfold B1; rewrite !zlen_app, zlen_le_enc4; lia).
    rewrite L1. replace ((4 + zlen v <? 4) || (4 + zlen v >? 4 + zlen v + zlen R)) with false by lia.
    rewrite (cle_ok 4 0 B1) by lia. cbn [bind].
    assert (S3 : zslice 0 (0 + 4) B1 = le_enc 4 id) by (unfold B1; rewrite zslice_0; apply ztake_app_exact'; rewrite zlen_le_enc4; reflexivity).
    rewrite S3, le_dec_enc4 by lia.
    rewrite (cslice_ok 4 (4 + zlen v) B1) by lia. cbn [bind].
    assert (S4 : zslice 4 (4 + zlen v) B1 = v) by (unfold B1; apply zslice_app_mid; rewrite ?zlen_le_enc4; lia).
    rewrite S4. rewrite (cslice_ok (4 + zlen v) (4 + zlen v + zlen R) B1) by lia. cbn [bind].
    assert (S5 : zslice (4 + zlen v) (4 + zlen v + zlen R) B1 = R).
    { rewrite zslice_to_end by lia. unfold B1. rewrite app_assoc. apply zdrop_app_exact'. rewrite zlen_app, zlen_le_enc4. reflexivity. }
    rewrite S5, (IH k ltac:(lia)). reflexivity.
Qed.
Lemma pairs_fuel ps : (length ps <= length (concat (map spec_pair ps)))%nat.
Proof. induction ps as [|p ps IH]; [cbn; lia|]. cbn [map concat length]. rewrite app_length. pose proof (zlen_spec_pair p) as L. pose proof (zlen_nonneg (snd p)). unfold zlen in L. lia. Qed.
