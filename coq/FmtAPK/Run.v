(* FmtAPK/Run.v — evaluation of the faithful model and of the specification reader on harness cases.
   input [0 f szs blob]  -> [hashin_sign locate pairs hashin_verify spec_sections spec_pairs embed extract]
         [1 sblob]       -> makeSigBlock
         [2 which blob]  -> unmarshal with the generated schema (0 signer list, 1 signed data): [status value]
         [3 value]       -> marshal
         [4 blob]        -> the documentation's reader on a v2 pair value
         [5 hdr n]       -> the v1 check of verify (1 = rejected)
         [6 flag]        -> main section written by DigestManifest for the fixed leading attributes, and the specification lookup
         [7 hash alg id] -> signature type selection / lookup *)
From Relic Require Import Base.Prelude Base.Enc Base.Val Generated.C11_gen Generated.FmtAPK_gen FmtAPK.Model.
From Relic Require C11.Model.
Import C11.Model.

Definition st_of {A} (r : result A) : Z := match r with Ok _ => 0 | Err e => e | Panic e => 100 + e end.
Definition vsecs (s : secs) : val := VL [VB (fst (fst s)); VB (snd (fst s)); VB (snd s)].
Definition vres_secs (r : result secs) : val := VL [VZ (st_of r); match r with Ok s => vsecs s | _ => VL [] end].
Definition vres_bytes (r : result bytes) : val := VL [VZ (st_of r); VB (match r with Ok b => b | _ => [] end)].
Definition vopt_bytes (o : option bytes) : val := match o with Some b => VL [VZ 1; VB b] | None => VL [VZ 0; VB []] end.
Definition vpairs (l : list (Z * bytes)) : val := VL (map (fun p => VL [VZ (fst p); VB (snd p)]) l).

Fixpoint aval_to_val (v : aval) : val :=
  match v with
  | AU32 z => VL [VZ 0; VZ z]
  | ABytes b => VL [VZ 1; VB b]
  | ARaw b => VL [VZ 2; VB b]
  | ASlice l => VL (VZ 3 :: map aval_to_val l)
  | AStruct l => VL (VZ 4 :: map aval_to_val l)
  end.
Fixpoint val_to_aval (v : val) : aval :=
  match v with
  | VL (VZ t :: rest) =>
      if t =? 0 then AU32 (match rest with VZ z :: _ => z | _ => 0 end)
      else if t =? 1 then ABytes (match rest with VB b :: _ => b | _ => [] end)
      else if t =? 2 then ARaw (match rest with VB b :: _ => b | _ => [] end)
      else if t =? 3 then ASlice (map val_to_aval rest)
      else AStruct (map val_to_aval rest)
  | _ => AU32 0
  end.

Definition vsd (s : spec_sd) : val := VL [vpairs (ssd_digests s); VL (map VB (ssd_certs s)); vpairs (ssd_attrs s)].
Definition vsigner (s : spec_signer) : val := VL [VB (ssg_signed s); vsd (ssg_sd s); vpairs (ssg_sigs s); VB (ssg_key s)].

Definition run_file (v : val) : val :=
  let f := vb (vnth 1 v) in
  let szs := map vz (vl (vnth 2 v)) in
  let blob := vb (vnth 3 v) in
  let loc := locate szs f in
  VL [ vres_secs (hashin_sign szs f);
       VL [VZ (st_of loc); match loc with Ok o => vopt_bytes o | _ => vopt_bytes None end];
       match loc with
       | Ok (Some block) => let r := pairs_raw (S (length block)) block in VL [VZ (st_of r); match r with Ok ps => vpairs ps | _ => VL [] end]
       | _ => VL [VZ (-1); VL []]
       end;
       vres_secs (hashin_verify szs f);
       match spec_sections f with Some s => VL [VZ 1; vsecs s] | None => VL [VZ 0; VL []] end;
       match spec_read_pairs f with Some ps => VL [VZ 1; vpairs ps] | None => VL [VZ 0; VL []] end;
       vres_bytes (embed szs f blob);
       let e := extract szs f in VL [VZ (st_of e); match e with Ok o => vopt_bytes o | _ => vopt_bytes None end] ].

Definition run (v : val) : val :=
  let k := vz (vnth 0 v) in
  if k =? 0 then run_file v
  else if k =? 1 then VB (mk_sig_block (vb (vnth 1 v)))
  else if k =? 2 then
    let r := unmarshal (if vz (vnth 1 v) =? 0 then g_signer_list else g_signed_data) (vb (vnth 2 v)) in
    VL [VZ (st_of r); match r with Ok a => aval_to_val a | _ => VL [] end]
  else if k =? 3 then VB (enc (val_to_aval (vnth 1 v)))
  else if k =? 4 then
    match spec_v2_value (vb (vnth 1 v)) with Some l => VL [VZ 1; VL (map vsigner l)] | None => VL [VZ 0; VL []] end
  else if k =? 5 then of_bool (v1_check (vb (vnth 1 v)) (vz (vnth 2 v)))
  else if k =? 6 then
    let sf := sf_main (vbool (vnth 1 v)) [([83; 105; 103; 110; 97; 116; 117; 114; 101; 45; 86; 101; 114; 115; 105; 111; 110], [49; 46; 48])] in
    VL [VB sf; vopt_bytes (spec_sf_lookup sf apk_v1_header_name)]
  else
    VL [ match select_type (vz (vnth 1 v)) (vz (vnth 2 v)) with Some t => VZ (st_id t) | None => VZ 0 end;
         match type_by_id (vz (vnth 3 v)) with Some t => VL [VZ (st_hash t); VZ (st_alg t); of_bool (st_pss t)] | None => VL [] end;
         of_bool (verifiable_alg (vz (vnth 2 v))) ].
