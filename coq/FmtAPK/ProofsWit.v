(* FmtAPK/ProofsWit.v — concrete witnesses (closed by computation): what the faithful model does outside the class of
   ProofsDomain, and what the format leaves unprotected. *)
From Relic Require Import Base.Prelude Base.Enc Generated.C11_gen Generated.FmtAPK_gen FmtAPK.Model FmtAPK.Lib.
From Relic Require C11.Model.
Import C11.Model.

Definition w_lfh : bytes := [80; 75; 3; 4; 20; 0; 0; 0; 0; 0; 0; 0; 0; 0; 0; 0; 0; 0; 0; 0; 0; 0; 0; 0; 0; 0; 1; 0; 0; 0; 97].
Definition w_cd0 : bytes := [80; 75; 1; 2; 20; 0; 20; 0; 0; 0; 0; 0; 0; 0; 0; 0; 0; 0; 0; 0; 0; 0; 0; 0; 0; 0; 0; 0; 1; 0; 0; 0; 0; 0; 0; 0; 0; 0; 0; 0; 0; 0; 0; 0; 0; 0; 97].   (* one central directory entry, member at offset 0 *)
Definition w_cd1 : bytes := [80; 75; 1; 2; 20; 0; 20; 0; 0; 0; 0; 0; 0; 0; 0; 0; 0; 0; 0; 0; 0; 0; 0; 0; 0; 0; 0; 0; 1; 0; 0; 0; 0; 0; 0; 0; 0; 0; 0; 0; 0; 0; 1; 0; 0; 0; 97].   (* the same entry, member at offset 1 *)
Definition w_end (dn off : Z) : bytes := [80; 75; 5; 6; dn; 0; 0; 0; 1; 0; 1; 0; 47; 0; 0; 0; off; 0; 0; 0; 0; 0].
Definition w_empty : bytes := [80; 75; 5; 6; 0; 0; 0; 0; 0; 0; 0; 0; 0; 0; 0; 0; 0; 0; 0; 0; 0; 0].   (* an archive without members *)

(* a well-formed one-member archive; the same with one byte x in front of the member; the same with disk number dn in the end record *)
Definition w_plain : bytes := w_lfh ++ w_cd0 ++ w_end 0 31.
Definition w_gap (x : Z) : bytes := [x] ++ w_lfh ++ w_cd1 ++ w_end 0 32.
Definition w_disk (dn : Z) : bytes := w_lfh ++ w_cd0 ++ w_end dn 31.
Definition w_szs : list Z := [31].

Lemma w_plain_in_class : wfb w_szs w_plain = true.
Proof. vm_compute. reflexivity. Qed.

(* C05 / C02: a byte in front of the signing block that belongs to no member is section 1 of the scheme, but relic neither digests
   it when signing nor when verifying *)
Lemma gap_not_digested : exists g s s',
  embed w_szs (w_gap 35) [] = Ok g /\ hashin_sign w_szs (w_gap 35) = Ok s /\ hashin_verify w_szs g = Ok s /\
  spec_sections g = Some s' /\ s <> s'.
Proof.
  eexists. eexists. eexists. split; [vm_compute; reflexivity|]. split; [vm_compute; reflexivity|]. split; [vm_compute; reflexivity|].
  split; [vm_compute; reflexivity|]. intros H. discriminate H.
Qed.
Lemma gap_unprotected : exists g1 g2 s,
  embed w_szs (w_gap 35) [] = Ok g1 /\ embed w_szs (w_gap 36) [] = Ok g2 /\
  hashin_verify w_szs g1 = Ok s /\ hashin_verify w_szs g2 = Ok s /\ extract w_szs g1 = extract w_szs g2 /\
  spec_sections g1 <> spec_sections g2.
Proof.
  eexists. eexists. eexists. split; [vm_compute; reflexivity|]. split; [vm_compute; reflexivity|]. split; [vm_compute; reflexivity|].
  split; [vm_compute; reflexivity|]. split; [vm_compute; reflexivity|]. vm_compute. intros H. discriminate H.
Qed.

(* C03: an end record that WriteDirectory would not have written (disk number 5) is replaced by a fresh one, not patched *)
Lemma end_record_normalised : exists g,
  embed w_szs (w_disk 5) [] = Ok g /\ zdrop (zlen g - 22) g <> set_cdoff (w_end 5 31) (31 + zlen (mk_sig_block [])) /\
  zdrop (zlen g - 22) g = set_cdoff (w_end 0 31) (31 + zlen (mk_sig_block [])).
Proof. eexists. split; [vm_compute; reflexivity|]. split; [vm_compute; intros H; discriminate H|vm_compute; reflexivity]. Qed.

(* C02: ID-value pairs other than the v2 pair are neither digested nor looked at *)
Definition w_padded (x : Z) : bytes :=
  let blk := spec_write_block [(V2_ID, [1; 2; 3]); (1114793335, [x])] in
  w_lfh ++ blk ++ w_cd0 ++ fresh_end 1 47 (31 + zlen blk).
Lemma other_pairs_unprotected : exists s v,
  w_padded 0 <> w_padded 1 /\ wfb w_szs (w_padded 0) = true /\ wfb w_szs (w_padded 1) = true /\
  hashin_verify w_szs (w_padded 0) = Ok s /\ hashin_verify w_szs (w_padded 1) = Ok s /\
  extract w_szs (w_padded 0) = Ok (Some v) /\ extract w_szs (w_padded 1) = Ok (Some v).
Proof.
  eexists. eexists. split; [vm_compute; intros H; discriminate H|]. split; [vm_compute; reflexivity|]. split; [vm_compute; reflexivity|].
  split; [vm_compute; reflexivity|]. split; [vm_compute; reflexivity|]. split; vm_compute; reflexivity.
Qed.

(* C01: an archive without members is signed, and the result is refused by the block locator *)
Lemma empty_archive_signed_then_refused : exists g, embed [] w_empty [] = Ok g /\ extract [] g = Err E_NOFILES.
Proof. eexists. split; vm_compute; reflexivity. Qed.

(* C05: an additional attribute as the documentation frames it (ID, value = rest of the item; here stripping protection, value
   uint32 3) is read by the documentation's reader and rejected by relic's parser, which expects a second length prefix *)
Definition w_sd_doc : bytes :=
  spec_lp (spec_lp (le_enc 4 259 ++ spec_lp [9; 9])) ++ spec_lp (spec_lp [7]) ++ spec_lp (spec_attr STRIPPING_PROTECTION_ID (le_enc 4 3)).
Lemma attribute_framing : spec_signed_data w_sd_doc = Some (mkSsd [(259, [9; 9])] [[7]] [(STRIPPING_PROTECTION_ID, [3; 0; 0; 0])]) /\
  unmarshal g_signed_data (spec_lp w_sd_doc) = Err E_EOF.
Proof. split; vm_compute; reflexivity. Qed.
(* ... while an attribute written by relic's marshal (never done by Digest.Sign, which writes none) is read by the documentation's
   reader with the inner length prefix as part of the value *)
Lemma attribute_framing_converse :
  spec_signed_data (zdrop 4 (enc (AStruct [ASlice []; ASlice []; ASlice [AStruct [AU32 7; ABytes [1]]]]))) = Some (mkSsd [] [] [(7, [1; 0; 0; 0; 1])]).
Proof. vm_compute. reflexivity. Qed.
