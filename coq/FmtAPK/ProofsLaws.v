(* FmtAPK/ProofsLaws.v — embed in normal form; the verifier's and the signer's view of a signed file; the format laws. *)
From Relic Require Import Base.Prelude Base.Enc Generated.C11_gen Generated.FmtAPK_gen FmtAPK.Model FmtAPK.Lib FmtAPK.ProofsZip FmtAPK.ProofsBlock.
From Relic Require C11.Model.
Import C11.Model.

(* ------------------------------------------------------------------ the end record WriteDirectory builds *)
Lemma fresh_end_cdoff c s o : end_cdoff (fresh_end c s o) = le_dec (le_enc 4 o). Proof. reflexivity. Qed.
Lemma set_cdoff_fresh c s o v : set_cdoff (fresh_end c s o) v = fresh_end c s v. Proof. reflexivity. Qed.
Lemma fresh_end_total c s o : end_total (fresh_end c s o) = le_dec (le_enc 2 c). Proof. reflexivity. Qed.
Lemma fresh_end_size c s o : end_cdsize (fresh_end c s o) = le_dec (le_enc 4 s). Proof. reflexivity. Qed.
Lemma fresh_end_sig c s o : fld 0 4 (fresh_end c s o) = apk_z_end_sig. Proof. reflexivity. Qed.
Lemma fresh_end_len c s o : zlen (fresh_end c s o) = 22. Proof. reflexivity. Qed.

Definition wd_ok (es : list cdent) (dl : Z) : Prop :=
  apk_z_wd_needs_zip64 (zlen es) (zlen (cdir_bytes es)) dl false = false /\ (min_version es =? apk_z_zip45) = false.
Definition fresh_for (es : list cdent) (dl : Z) : bytes := fresh_end (zlen es) (zlen (cdir_bytes es)) dl.

Lemma zlen_fresh_for es dl : zlen (fresh_for es dl) = 22. Proof. reflexivity. Qed.

Lemma wd_ok_bounds es dl : wd_ok es dl -> zlen es < 65535 /\ zlen (cdir_bytes es) < 4294967295 /\ dl < 4294967295.
Proof. intros [H _]. unfold apk_z_wd_needs_zip64, apk_z_u16max, apk_z_u32max in H. lia. Qed.

Lemma write_directory_inv es dl w : write_directory es dl false = Ok w -> wd_ok es dl /\ w = (cdir_bytes es, fresh_for es dl).
Proof.
  unfold write_directory, wd_ok, fresh_for, apk_z_wd_cdoff, apk_z_wd_zip64_branch. change apk_z_gdh_returns_raw with true.
  destruct (apk_z_wd_needs_zip64 (zlen es) (zlen (cdir_bytes es)) dl false) eqn:E1.
  - rewrite Z.eqb_refl. discriminate.
  - destruct (min_version es =? apk_z_zip45) eqn:E2; [discriminate|]. intros H. injection H as <-. repeat split.
Qed.
Lemma write_directory_ok es dl : wd_ok es dl -> write_directory es dl false = Ok (cdir_bytes es, fresh_for es dl).
Proof.
  intros [E1 E2]. unfold write_directory, fresh_for, apk_z_wd_cdoff, apk_z_wd_zip64_branch. change apk_z_gdh_returns_raw with true.
  rewrite E1, E2. reflexivity.
Qed.

Lemma end_ok_fresh es dl : wd_ok es dl -> 0 <= dl -> end_ok (fresh_for es dl) dl.
Proof.
  intros Hw Hd. destruct (wd_ok_bounds _ _ Hw) as (B1 & B2 & B3). pose proof (zlen_nonneg es). pose proof (zlen_nonneg (cdir_bytes es)).
  unfold end_ok, fresh_for. rewrite fresh_end_len, fresh_end_sig, fresh_end_total, fresh_end_size, fresh_end_cdoff.
  rewrite le_dec_enc2, !le_dec_enc4 by lia. repeat split.
  unfold apk_z_fd_zip64, apk_z_u16max, apk_z_u32max. lia.
Qed.

(* ------------------------------------------------------------------ the sign-side digest input *)
Lemma ds_redirects_true : ds_redirects = true. Proof. reflexivity. Qed.

Lemma finish_modified d dl ce : finish true d dl ce = if apk_fin_dirloc_too_big dl then Err E_ZIP64 else write_directory (zd_files d) dl false.
Proof. reflexivity. Qed.

Lemma hashin_sign_inv szs f s : hashin_sign szs f = Ok s ->
  exists d xs, read_zip f = Ok d /\ extents (zd_files d) szs = Ok xs /\ ordered 0 xs /\ ext_end 0 xs <= zlen f /\
    wd_ok (zd_files d) (ext_end 0 xs) /\
    s = (slices f xs, cdir_bytes (zd_files d), fresh_for (zd_files d) (ext_end 0 xs)).
Proof.
  unfold hashin_sign. rewrite ds_redirects_true. change apk_ds_finish_modified with true. cbv iota.
  destruct (read_zip f) as [d| |] eqn:Er; cbn [bind]; try discriminate.
  destruct (extents (zd_files d) szs) as [xs| |] eqn:Ex; cbn [bind]; try discriminate.
  destruct (dump_all Stream f 0 xs) as [s1| |] eqn:Ed; cbn [bind]; try discriminate.
  rewrite nfo_eq, finish_modified.
  destruct (apk_fin_dirloc_too_big (ext_end 0 xs)); [discriminate|].
  destruct (write_directory (zd_files d) (ext_end 0 xs) false) as [w| |] eqn:Ew; cbn [bind]; try discriminate.
  intros H. injection H as <-.
  pose proof (zlen_nonneg f). destruct (dump_stream_ordered f 0 xs s1 ltac:(lia) Ed) as [Ho He].
  destruct (write_directory_inv _ _ _ Ew) as [Hw ->]. cbn [fst snd].
  exists d, xs. split; [first [exact Er|reflexivity]|]. split; [first [exact Ex|reflexivity]|]. split; [exact Ho|]. split; [exact He|]. split; [exact Hw|].
  rewrite (dump_ok Stream f 0 xs) in Ed by (try assumption; lia). injection Ed as <-. reflexivity.
Qed.
Lemma hashin_sign_ok szs f d xs : read_zip f = Ok d -> extents (zd_files d) szs = Ok xs -> ordered 0 xs -> ext_end 0 xs <= zlen f ->
  wd_ok (zd_files d) (ext_end 0 xs) ->
  hashin_sign szs f = Ok (slices f xs, cdir_bytes (zd_files d), fresh_for (zd_files d) (ext_end 0 xs)).
Proof.
  intros Er Ex Ho He Hw. unfold hashin_sign. rewrite ds_redirects_true. change apk_ds_finish_modified with true. cbv iota.
  rewrite Er. cbn [bind]. rewrite Ex. cbn [bind]. rewrite (dump_ok Stream f 0 xs) by (try assumption; lia). cbn [bind].
  rewrite nfo_eq, finish_modified. destruct (wd_ok_bounds _ _ Hw) as (_ & _ & B).
  unfold apk_fin_dirloc_too_big. replace (ext_end 0 xs >=? Z.shiftl 1 32) with false by (change (Z.shiftl 1 32) with 4294967296; lia).
  rewrite (write_directory_ok _ _ Hw). reflexivity.
Qed.

(* ------------------------------------------------------------------ embed in normal form *)
Definition signed_nf (f : bytes) (d : zdir) (sl : Z) (b : bytes) : bytes :=
  ztake sl f ++ block_nf b ++ cdir_bytes (zd_files d) ++ fresh_for (zd_files d) (sl + (zlen b + 44)).

Lemma embed_inv szs f b g : embed szs f b = Ok g ->
  exists d xs, read_zip f = Ok d /\ extents (zd_files d) szs = Ok xs /\ ordered 0 xs /\ ext_end 0 xs <= zd_dirloc d /\
    wd_ok (zd_files d) (ext_end 0 xs) /\ wd_ok (zd_files d) (ext_end 0 xs + (zlen b + 44)) /\ zlen b < 4611686018427387904 /\
    g = signed_nf f d (ext_end 0 xs) b.
Proof.
  unfold embed. destruct (hashin_sign szs f) as [s| |] eqn:Eh; cbn [bind]; try discriminate.
  destruct (hashin_sign_inv _ _ _ Eh) as (d & xs & Er & Ex & Ho & He & Hw & _).
  rewrite Er. cbn [bind]. rewrite Ex. cbn [bind].
  destruct (4611686018427387904 <=? zlen b) eqn:Eb; [discriminate|]. change apk_sign_block_from_sblob with true. cbn [negb].
  rewrite nfo_eq, mk_sig_block_nf. unfold sign_patches. unfold apk_new_dirloc. rewrite zlen_block_nf. change apk_sign_force_zip64 with false.
  destruct (write_directory (zd_files d) (ext_end 0 xs + (zlen b + 44)) false) as [w| |] eqn:Ew; cbn [bind]; try discriminate.
  destruct (write_directory_inv _ _ _ Ew) as [Hw2 ->]. cbn [fst snd].
  change (apk_p1_blob_is_block && apk_p2_blob_is_eod) with true. cbv iota. cbn [bind].
  unfold apk_p1_off, apk_p1_old, apk_p2_off, apk_p2_old. set (sl := ext_end 0 xs) in *. set (dl := zd_dirloc d).
  destruct (read_zip_inv _ _ Er) as (Ef & Hd & Hc & He0). fold dl in Ef, Hd, He0.
  set (C := cdir_bytes (zd_files d)) in *. destruct He0 as (Le0 & _).
  assert (Lf : zlen f = dl + zlen C + 22).
  { pose proof (f_equal (@zlen Z) Ef) as L. rewrite !zlen_app, zlen_ztake in L by lia. lia. }
  cbn [splice]. pose proof (ordered_end _ _ Ho) as Hs0. fold sl in Hs0. pose proof (zlen_nonneg C).
  destruct ((sl <? 0) || (dl - sl <? 0) || (zlen f <? sl + (dl - sl))) eqn:E1; [discriminate|].
  rewrite !zlen_fresh_for.
  replace ((dl + zlen C <? sl + (dl - sl)) || (22 <? 0) || (zlen f <? dl + zlen C + 22)) with false by lia.
  cbn [bind]. intros Hg. apply Ok_inj in Hg. subst g.
  exists d, xs. split; [first [exact Er|reflexivity]|]. split; [first [exact Ex|reflexivity]|]. split; [exact Ho|]. split; [lia|]. split; [exact Hw|]. split; [exact Hw2|]. split; [lia|].
  unfold signed_nf. fold C sl. rewrite zslice_0. f_equal. f_equal.
  replace (sl + (dl - sl)) with dl by lia.
  rewrite (zdrop_all (dl + zlen C + 22) f) by lia. rewrite app_nil_r. f_equal.
  rewrite Ef at 1. apply zslice_app_mid; rewrite ?zlen_ztake by lia; lia.
Qed.

Lemma embed_ok szs f b d xs : read_zip f = Ok d -> extents (zd_files d) szs = Ok xs -> ordered 0 xs -> ext_end 0 xs <= zd_dirloc d ->
  wd_ok (zd_files d) (ext_end 0 xs) -> wd_ok (zd_files d) (ext_end 0 xs + (zlen b + 44)) -> zlen b < 4611686018427387904 ->
  embed szs f b = Ok (signed_nf f d (ext_end 0 xs) b).
Proof.
  intros Er Ex Ho Hsl Hw Hw2 Hb.
  destruct (read_zip_inv _ _ Er) as (Ef & Hd & Hc & He0). set (dl := zd_dirloc d) in *. set (C := cdir_bytes (zd_files d)) in *. destruct He0 as (Le0 & _).
  assert (Lf : zlen f = dl + zlen C + 22).
  { pose proof (f_equal (@zlen Z) Ef) as L. rewrite !zlen_app, zlen_ztake in L by lia. lia. }
  pose proof (zlen_nonneg C). pose proof (ordered_end _ _ Ho) as Hs0. set (sl := ext_end 0 xs) in *.
  unfold embed. rewrite (hashin_sign_ok szs f d xs) by (try assumption; fold sl; lia). cbn [bind]. rewrite Er. cbn [bind]. rewrite Ex. cbn [bind].
  replace (4611686018427387904 <=? zlen b) with false by lia. change apk_sign_block_from_sblob with true. cbn [negb].
  rewrite nfo_eq, mk_sig_block_nf. unfold sign_patches. unfold apk_new_dirloc. rewrite zlen_block_nf. change apk_sign_force_zip64 with false.
  fold sl. rewrite (write_directory_ok _ _ Hw2). cbn [bind fst snd].
  change (apk_p1_blob_is_block && apk_p2_blob_is_eod) with true. cbv iota. cbn [bind].
  unfold apk_p1_off, apk_p1_old, apk_p2_off, apk_p2_old. fold dl C. cbn [splice].
  replace ((sl <? 0) || (dl - sl <? 0) || (zlen f <? sl + (dl - sl))) with false by lia.
  rewrite !zlen_fresh_for.
  replace ((dl + zlen C <? sl + (dl - sl)) || (22 <? 0) || (zlen f <? dl + zlen C + 22)) with false by lia.
  cbn [bind]. f_equal. unfold signed_nf. fold C. rewrite zslice_0. f_equal. f_equal.
  replace (sl + (dl - sl)) with dl by lia.
  rewrite (zdrop_all (dl + zlen C + 22) f) by lia. rewrite app_nil_r. f_equal.
  rewrite Ef at 1. apply zslice_app_mid; rewrite ?zlen_ztake by lia; lia.
Qed.

(* ------------------------------------------------------------------ what the ZIP layer sees in a signed file *)
Lemma read_zip_signed f d sl b : read_zip f = Ok d -> 0 <= sl <= zd_dirloc d -> wd_ok (zd_files d) (sl + (zlen b + 44)) ->
  read_zip (signed_nf f d sl b) = Ok (mkZd (zd_files d) (sl + (zlen b + 44)) (fresh_for (zd_files d) (sl + (zlen b + 44)))).
Proof.
  intros Er Hs Hw. destruct (read_zip_inv _ _ Er) as (Ef & Hd & Hc & He0). pose proof (zlen_nonneg b).
  unfold signed_nf. rewrite (app_assoc (ztake sl f) (block_nf b)).
  assert (Lp : zlen (ztake sl f ++ block_nf b) = sl + (zlen b + 44)) by (rewrite zlen_app, zlen_ztake, zlen_block_nf by lia; reflexivity).
  rewrite <- Lp. apply read_zip_build; [exact Hc|]. rewrite Lp. apply end_ok_fresh; [exact Hw|lia].
Qed.

Lemma ztake_signed f d sl b : 0 <= sl <= zlen f -> ztake sl (signed_nf f d sl b) = ztake sl f.
Proof. intros H. unfold signed_nf. apply ztake_app_exact'. rewrite zlen_ztake by lia. reflexivity. Qed.
Lemma zlen_signed f d sl b : 0 <= sl <= zlen f ->
  zlen (signed_nf f d sl b) = sl + (zlen b + 44) + zlen (cdir_bytes (zd_files d)) + 22.
Proof. intros H. unfold signed_nf, fresh_for. rewrite !zlen_app, zlen_ztake, zlen_block_nf, fresh_end_len by lia. lia. Qed.

(* ------------------------------------------------------------------ laws *)
Section Signed.
  Variables (szs : list Z) (f b g : bytes).
  Hypothesis Hemb : embed szs f b = Ok g.

  (* the pieces, named once *)
  Lemma signed_facts : exists d xs,
    read_zip f = Ok d /\ extents (zd_files d) szs = Ok xs /\ ordered 0 xs /\ 0 <= ext_end 0 xs <= zd_dirloc d /\ zd_dirloc d <= zlen f /\
    wd_ok (zd_files d) (ext_end 0 xs) /\ wd_ok (zd_files d) (ext_end 0 xs + (zlen b + 44)) /\ zlen b < 4611686018427387904 /\
    g = signed_nf f d (ext_end 0 xs) b /\
    read_zip g = Ok (mkZd (zd_files d) (ext_end 0 xs + (zlen b + 44)) (fresh_for (zd_files d) (ext_end 0 xs + (zlen b + 44)))) /\
    slices g xs = slices f xs /\
    hashin_sign szs f = Ok (slices f xs, cdir_bytes (zd_files d), fresh_for (zd_files d) (ext_end 0 xs)).
  Proof.
    destruct (embed_inv _ _ _ _ Hemb) as (d & xs & Er & Ex & Ho & Hsl & Hw & Hw2 & Hb & Eg).
    destruct (read_zip_inv _ _ Er) as (_ & Hd & _ & _). pose proof (ordered_end _ _ Ho) as Hs0.
    exists d, xs. split; [exact Er|]. split; [exact Ex|]. split; [exact Ho|]. split; [lia|]. split; [lia|]. split; [exact Hw|].
    split; [exact Hw2|]. split; [exact Hb|]. split; [exact Eg|]. split; [|split].
    - rewrite Eg. apply read_zip_signed; [exact Er|lia|exact Hw2].
    - apply (slices_agree (ext_end 0 xs) g f 0 xs); [lia|exact Ho|lia|]. rewrite Eg. apply ztake_signed. lia.
    - apply hashin_sign_ok; try assumption. lia.
  Qed.

  (* C08 / C01: the signer's digest input of the signed file is that of the input *)
  Lemma law_hashin_sign : hashin_sign szs g = hashin_sign szs f.
  Proof.
    destruct signed_facts as (d & xs & Er & Ex & Ho & Hsl & Hdl & Hw & Hw2 & Hb & Eg & Erg & Esl & Ehf).
    rewrite Ehf. pose proof (zlen_nonneg b). pose proof (zlen_nonneg (cdir_bytes (zd_files d))).
    rewrite (hashin_sign_ok szs g _ xs Erg); cbn [zd_files]; try assumption.
    - rewrite Esl. reflexivity.
    - rewrite Eg, zlen_signed by lia. lia.
  Qed.

  (* C01: the verifier recomputes exactly the bytes the signer digested (the end record's offset points at the block start) *)
  Lemma verify_convention : hashin_verify szs g = hashin_sign szs f.
  Proof.
    destruct signed_facts as (d & xs & Er & Ex & Ho & Hsl & Hdl & Hw & Hw2 & Hb & Eg & Erg & Esl & Ehf).
    rewrite Ehf. pose proof (zlen_nonneg b). pose proof (zlen_nonneg (cdir_bytes (zd_files d))).
    destruct (wd_ok_bounds _ _ Hw2) as (B1 & B2 & B3).
    unfold hashin_verify. rewrite Erg. cbn [bind zd_files zd_dirloc zd_end]. rewrite Ex. cbn [bind].
    rewrite (dump_ok Random g 0 xs) by (try assumption; try lia; rewrite Eg, zlen_signed by lia; lia). cbn [bind].
    rewrite nfo_eq. unfold finish. change apk_vf_finish_modified with false. change apk_fin_original_when_unmodified with true. change apk_fin_trim with true.
    cbv iota. unfold apk_fin_dirloc_too_big. set (sl := ext_end 0 xs) in *.
    replace (sl + (zlen b + 44) >=? Z.shiftl 1 32) with false by (change (Z.shiftl 1 32) with 4294967296; lia).
    unfold get_original. cbn [zd_files zd_dirloc zd_end]. rewrite end_sig_fld. unfold fresh_for at 1. rewrite fresh_end_sig.
    change (apk_z_go_new_zip apk_z_end_sig) with false. cbv iota. change apk_z_go_force_zip64 with false.
    rewrite (write_directory_ok _ _ Hw2). cbn [bind fst snd].
    unfold apk_z_go_delta, apk_z_go_delta_bad, apk_z_u32max. replace (sl + (zlen b + 44) - sl) with (zlen b + 44) by lia.
    replace ((zlen b + 44 <? 0) || (zlen b + 44 >? 4294967295)) with false by lia.
    unfold fresh_for at 1 2 3. rewrite fresh_end_cdoff, le_dec_enc4 by lia.
    unfold apk_z_go_adjust_end. change (0 =? 0) with true. rewrite orb_true_r. change apk_z_go_subtracts_delta with true. cbn [andb].
    rewrite set_cdoff_fresh. replace (sl + (zlen b + 44) - (zlen b + 44)) with sl by lia. rewrite Esl. reflexivity.
  Qed.

  (* C01: the verifier's locator finds exactly the embedded value (an archive without members is refused by getSigBlock) *)
  Lemma law_extract : forall d, read_zip f = Ok d -> zd_files d <> [] -> extract szs g = Ok (Some b).
  Proof.
    intros d0 Er0 Hne.
    destruct signed_facts as (d & xs & Er & Ex & Ho & Hsl & Hdl & Hw & Hw2 & Hb & Eg & Erg & Esl & Ehf).
    rewrite Er in Er0. apply Ok_inj in Er0. subst d0. pose proof (zlen_nonneg b). pose proof (zlen_nonneg (cdir_bytes (zd_files d))).
    set (sl := ext_end 0 xs) in *.
    unfold extract, extract_all, locate. rewrite Erg. cbn [bind zd_files zd_dirloc]. unfold apk_sb_no_files.
    assert (Hn : (zlen (zd_files d) =? 0) = false).
    { destruct (zd_files d) as [|x r]; [contradiction|]. rewrite zlen_cons. pose proof (zlen_nonneg r). lia. }
    rewrite Hn, Ex. cbn [bind]. rewrite nfo_eq. fold sl. unfold apk_sb_read_at.
    assert (Eb : zslice sl (sl + (zlen b + 44)) g = block_nf b).
    { rewrite Eg. unfold signed_nf. apply zslice_app_mid; rewrite ?zlen_ztake, ?zlen_block_nf by lia; lia. }
    rewrite Eb. rewrite gsb_block by (try lia; rewrite Eg, zlen_signed by lia; lia). cbn [bind].
    rewrite pairs_raw_nf; [|exact Hb|].
    - cbn [bind]. rewrite v2_values_single. reflexivity.
    - unfold pairs_nf. rewrite !app_length, !le_enc_length. lia.
  Qed.

  (* C05 / C03: what the documentation's reader finds in the signed file *)
  Lemma spec_view : exists d xs, read_zip f = Ok d /\ extents (zd_files d) szs = Ok xs /\
    spec_read_pairs g = Some [(V2_ID, b)] /\
    spec_sections g = Some (ztake (ext_end 0 xs) f, cdir_bytes (zd_files d), fresh_for (zd_files d) (ext_end 0 xs)) /\
    spec_content_end g = Some (ext_end 0 xs).
  Proof.
    destruct signed_facts as (d & xs & Er & Ex & Ho & Hsl & Hdl & Hw & Hw2 & Hb & Eg & Erg & Esl & Ehf).
    exists d, xs. split; [exact Er|]. split; [exact Ex|].
    pose proof (zlen_nonneg b). set (C := cdir_bytes (zd_files d)) in *. pose proof (zlen_nonneg C). set (sl := ext_end 0 xs) in *.
    destruct (wd_ok_bounds _ _ Hw2) as (B1 & B2 & B3). fold C in B2. pose proof (zlen_nonneg (zd_files d)).
    set (E := fresh_for (zd_files d) (sl + (zlen b + 44))).
    assert (Lg : zlen g = sl + (zlen b + 44) + zlen C + 22) by (rewrite Eg; apply zlen_signed; lia).
    assert (Ee : zdrop (zlen g - 22) g = E).
    { rewrite Eg at 2. unfold signed_nf. fold C E. rewrite (app_assoc (ztake sl f)), (app_assoc (ztake sl f ++ block_nf b)).
      apply zdrop_app_exact'. rewrite !zlen_app, zlen_ztake, zlen_block_nf by lia. lia. }
    assert (Eo : spec_eocd g = Some (sl + (zlen b + 44), zlen C, E)).
    { unfold spec_eocd. cbv zeta. rewrite Ee. replace (zlen g <? 22) with false by lia.
      change (le_dec (ztake 4 E)) with 101010256. change (le_dec (zslice 20 22 E)) with (le_dec (le_enc 2 0)).
      change (le_dec (zslice 16 20 E)) with (le_dec (le_enc 4 (sl + (zlen b + 44)))). change (le_dec (zslice 12 16 E)) with (le_dec (le_enc 4 (zlen C))).
      rewrite !le_dec_enc4 by lia. change (101010256 =? 101010256) with true. change (le_dec (le_enc 2 0)) with 0. change (0 =? 0) with true. cbn [negb].
      replace (sl + (zlen b + 44) + zlen C =? zlen g - 22) with true by lia. reflexivity. }
    assert (Eblk : spec_block g (sl + (zlen b + 44)) = Block sl (pairs_nf b)).
    { rewrite Eg. unfold signed_nf. set (A := ztake sl f). assert (LA : zlen A = sl) by (apply zlen_ztake; lia).
      rewrite <- LA. apply spec_block_relic. exact Hb. }
    split; [|split].
    - unfold spec_read_pairs. rewrite Eo, Eblk. apply spec_pairs_nf; [exact Hb|]. unfold pairs_nf. rewrite !app_length, !le_enc_length. lia.
    - unfold spec_sections. rewrite Eo, Eblk. apply f_equal. apply f_equal2; [apply f_equal2|].
      + rewrite Eg. apply ztake_signed. lia.
      + rewrite Eg. unfold signed_nf. fold C E. rewrite (app_assoc (ztake sl f)).
        apply zslice_app_mid; rewrite ?zlen_app, ?zlen_ztake, ?zlen_block_nf by lia; lia.
      + change (ztake 16 E ++ le_enc 4 sl ++ zdrop 20 E) with (set_cdoff E sl). unfold E, fresh_for. apply set_cdoff_fresh.
    - unfold spec_content_end. rewrite Eo, Eblk. reflexivity.
  Qed.
End Signed.

(* C08: signing a signed file again gives byte for byte the file that signing the original gives *)
Lemma resign_replaces szs f b1 b2 g1 g2 : embed szs f b1 = Ok g1 -> embed szs f b2 = Ok g2 -> embed szs g1 b2 = Ok g2.
Proof.
  intros H1 H2.
  destruct (signed_facts _ _ _ _ H1) as (d & xs & Er & Ex & Ho & Hsl & Hdl & Hw & Hw1 & Hb1 & Eg1 & Erg1 & Esl1 & _).
  destruct (embed_inv _ _ _ _ H2) as (d' & xs' & Er' & Ex' & _ & _ & _ & Hw2 & Hb2 & Eg2).
  rewrite Er in Er'. apply Ok_inj in Er'. subst d'. rewrite Ex in Ex'. apply Ok_inj in Ex'. subst xs'.
  pose proof (zlen_nonneg b1).
  rewrite (embed_ok szs g1 b2 _ xs Erg1); cbn [zd_files zd_dirloc]; try assumption; try lia.
  f_equal. rewrite Eg2. unfold signed_nf. cbn [zd_files]. f_equal. rewrite Eg1. apply ztake_signed. lia.
Qed.

(* C08: nothing between the last member and the directory: the locator says "not signed" *)
Lemma extract_unsigned szs f d xs : read_zip f = Ok d -> zd_files d <> [] -> extents (zd_files d) szs = Ok xs -> ext_end 0 xs = zd_dirloc d ->
  extract szs f = Ok None.
Proof.
  intros Er Hn Ex He. unfold extract, extract_all, locate. rewrite Er. cbn [bind]. unfold apk_sb_no_files.
  assert (Hz : (zlen (zd_files d) =? 0) = false).
  { destruct (zd_files d) as [|x r]; [contradiction|]. rewrite zlen_cons. pose proof (zlen_nonneg r). lia. }
  rewrite Hz, Ex. cbn [bind]. rewrite nfo_eq, He. unfold gsb, apk_sb_unsigned. rewrite Z.eqb_refl. reflexivity.
Qed.

(* the whole signed file in terms of the input: only the bytes between content end and directory, and the end record, differ *)
Lemma only_these_ranges_differ szs f b g : embed szs f b = Ok g ->
  exists d xs, read_zip f = Ok d /\ extents (zd_files d) szs = Ok xs /\
    f = ztake (ext_end 0 xs) f ++ zslice (ext_end 0 xs) (zd_dirloc d) f ++ cdir_bytes (zd_files d) ++ zd_end d /\
    g = ztake (ext_end 0 xs) f ++ mk_sig_block b ++ cdir_bytes (zd_files d) ++ fresh_for (zd_files d) (ext_end 0 xs + zlen (mk_sig_block b)).
Proof.
  intros He. destruct (signed_facts _ _ _ _ He) as (d & xs & Er & Ex & Ho & Hsl & Hdl & Hw & Hw2 & Hb & Eg & _).
  exists d, xs. split; [exact Er|]. split; [exact Ex|]. rewrite mk_sig_block_nf, zlen_block_nf. split; [|exact Eg].
  destruct (read_zip_inv _ _ Er) as (Ef & Hd & _ & _). rewrite app_assoc.
  replace (ztake (ext_end 0 xs) f ++ zslice (ext_end 0 xs) (zd_dirloc d) f) with (ztake (zd_dirloc d) f); [exact Ef|].
  rewrite !ztake_as_slice. apply zslice_split; lia.
Qed.
