(* FmtAPK/Proofs.v — the block locator never panics on any byte string (C11's theorems lifted from (sig_loc, dir_loc, gap) to
   file bytes), signature type table, v1 / v2 binding. *)
From Relic Require Import Base.Prelude Base.Enc Generated.C11_gen Generated.FmtAPK_gen FmtAPK.Model FmtAPK.Lib FmtAPK.ProofsZip FmtAPK.ProofsBlock.
From Relic Require C11.Model C11.Proofs.
Import C11.Model.

(* ------------------------------------------------------------------ getSigBlock here = getSigBlock of C11 *)
Lemma gsb_is_c11_sig_block n sl dl gap : gsb n sl dl gap = sig_block n sl dl gap.
Proof.
  unfold gsb, sig_block.
  change (apk_sb_unsigned sl dl) with (c11_sb_unsigned sl dl). change (apk_sb_out_of_range sl dl) with (c11_sb_out_of_range sl dl).
  change (apk_sb_blob_len sl dl) with (dl - sl). change apk_sb_checks_magic_suffix with true. change apk_sig_magic with sig_magic.
  change (apk_sb_too_short (zlen gap) (zlen sig_magic)) with (c11_sb_too_short (zlen gap) (zlen sig_magic)).
  unfold apk_sb_size1_off, apk_sb_size2_off, apk_sb_expected, apk_sb_pairs_lo, apk_sb_pairs_hi.
  destruct (c11_sb_unsigned sl dl); [reflexivity|]. destruct (c11_sb_out_of_range sl dl); [reflexivity|].
  destruct (alloc n (dl - sl)); cbn [bind]; try reflexivity. cbn [andb].
  destruct (negb (has_suffix_b gap sig_magic)); [reflexivity|]. destruct (c11_sb_too_short (zlen gap) (zlen sig_magic)); [reflexivity|].
  pose proof (zlen_nonneg gap). rewrite (cslice_ok 0 (zlen gap) gap) by lia. cbn [bind]. rewrite zslice_full by reflexivity.
  reflexivity.
Qed.

Lemma walk_no_panic k : forall cd p, walk k cd <> Panic p.
Proof.
  induction k as [|k IH]; intros cd p; cbn [walk]; [discriminate|].
  repeat match goal with |- (if ?c then _ else _) <> _ => destruct c; try discriminate end.
  destruct (walk k (zdrop (hdr_len cd) cd)) as [r| |] eqn:E; cbn [bind]; try discriminate. exfalso. exact (IH _ _ E).
Qed.
Lemma read_zip_no_panic f p : read_zip f <> Panic p.
Proof.
  unfold read_zip, find_directory.
  repeat match goal with |- context [if ?c then _ else _] => destruct c; cbn [bind]; try discriminate end.
  destruct (walk _ _) as [r| |] eqn:E; cbn [bind]; try discriminate.
  - repeat match goal with |- context [if ?c then _ else _] => destruct c; try discriminate end.
  - exfalso. exact (walk_no_panic _ _ _ E).
Qed.
Lemma extents_no_panic es : forall szs p, extents es szs <> Panic p.
Proof.
  induction es as [|e es IH]; intros [|s szs] p; cbn [extents]; try discriminate.
  destruct (extents es szs) as [r| |] eqn:E; cbn [bind]; try discriminate. exfalso. exact (IH _ _ E).
Qed.

Lemma In_firstn {A} (x : A) n l : In x (firstn n l) -> In x l.
Proof. revert l. induction n as [|n IH]; intros [|y l] H; cbn [firstn] in H; try contradiction. destruct H as [->|H]; [left; reflexivity|right; apply IH; exact H]. Qed.
Lemma In_skipn {A} (x : A) n l : In x (skipn n l) -> In x l.
Proof. revert l. induction n as [|n IH]; intros [|y l] H; cbn [skipn] in H; try contradiction; try exact H. right. apply IH. exact H. Qed.
Lemma all_bytes_zslice a b l : all_bytes l = true -> all_bytes (zslice a b l) = true.
Proof.
  intros H. rewrite all_bytes_forall in *. rewrite Forall_forall in *. intros x Hx. apply H.
  unfold zslice, ztake, zdrop in Hx. apply In_firstn in Hx. apply In_skipn in Hx. exact Hx.
Qed.

(* C11: the block locator, the ID-value pair loop and the parse of every v2 signer list, on ARBITRARY file bytes and an arbitrary
   member size table: the guards of the ZIP reader establish what C11's theorem apk_v2_parse_no_panic needs *)
Definition parse_file (vok : aval -> bool) (szs : list Z) (f : bytes) : result (list aval) :=
  d <- read_zip f ;;
  if apk_sb_no_files (zlen (zd_files d)) then Err E_NOFILES else
  xs <- extents (zd_files d) szs ;;
  apk_v2_parse vok (zlen f) (next_file_offset xs) (zd_dirloc d) (zslice (next_file_offset xs) (zd_dirloc d) f).
Theorem parse_file_no_panic vok szs f p : all_bytes f = true -> parse_file vok szs f <> Panic p.
Proof.
  intros Hb. unfold parse_file. destruct (read_zip f) as [d| |] eqn:Er; cbn [bind]; try discriminate; [|exfalso; exact (read_zip_no_panic _ _ Er)].
  destruct (apk_sb_no_files (zlen (zd_files d))); [discriminate|].
  destruct (extents (zd_files d) szs) as [xs| |] eqn:Ex; cbn [bind]; try discriminate; [|exfalso; exact (extents_no_panic _ _ _ Ex)].
  destruct (read_zip_inv _ _ Er) as (_ & Hd & _ & _). pose proof (zlen_nonneg f).
  apply C11.Proofs.apk_v2_parse_no_panic; [apply all_bytes_zslice; exact Hb|lia|lia|].
  intros Hs. apply zlen_zslice; lia.
Qed.

Lemma pairs_raw_no_panic : forall fuel block p, (length block < fuel)%nat -> pairs_raw fuel block <> Panic p.
Proof.
  induction fuel as [|k IH]; intros block p Hf; [lia|]. cbn [pairs_raw].
  unfold apk_pair_more, apk_pair_short, apk_pair_after_size, apk_pair_size_bad, apk_pair_value_lo, apk_pair_value_hi, apk_pair_next.
  destruct (zlen block >? 0) eqn:E0; [|discriminate]. destruct (zlen block <? 12) eqn:E1; [discriminate|].
  rewrite cle_ok by lia. cbn [bind]. set (ps := le_dec (zslice 0 (0 + 8) block)).
  rewrite cslice_ok by lia. cbn [bind]. set (b1 := zslice 8 (zlen block) block).
  assert (L1 : zlen b1 = zlen block - 8) by (unfold b1; apply zlen_zslice; lia).
  destruct ((ps <? 4) || (ps >? zlen b1)) eqn:E2; [discriminate|].
  rewrite cle_ok by lia. cbn [bind]. rewrite cslice_ok by lia. cbn [bind]. rewrite cslice_ok by lia. cbn [bind].
  set (b2 := zslice ps (zlen b1) b1).
  assert (L2 : zlen b2 = zlen b1 - ps) by (unfold b2; apply zlen_zslice; lia).
  destruct (pairs_raw k b2) as [r| |] eqn:Er; cbn [bind]; try discriminate.
  exfalso. apply (IH b2 e); [|exact Er]. unfold zlen in *. lia.
Qed.

Theorem extract_no_panic szs f p : extract szs f <> Panic p.
Proof.
  unfold extract, extract_all, locate.
  destruct (read_zip f) as [d| |] eqn:Er; cbn [bind]; try discriminate; [|exfalso; exact (read_zip_no_panic _ _ Er)].
  destruct (apk_sb_no_files (zlen (zd_files d))); [cbn [bind]; discriminate|].
  destruct (extents (zd_files d) szs) as [xs| |] eqn:Ex; cbn [bind]; try discriminate; [|exfalso; exact (extents_no_panic _ _ _ Ex)].
  destruct (read_zip_inv _ _ Er) as (_ & Hd & _ & _). rewrite nfo_eq. unfold apk_sb_read_at. set (sl := ext_end 0 xs). set (dl := zd_dirloc d) in *.
  (* getSigBlock on the bytes between sl and dl *)
  unfold gsb, apk_sb_unsigned, apk_sb_out_of_range, apk_sb_blob_len, apk_sb_too_short, apk_sb_expected, apk_sb_size1_off, apk_sb_size2_off,
    apk_sb_size_bad, apk_sb_pairs_lo, apk_sb_pairs_hi.
  destruct (sl =? dl) eqn:E0; [cbn [bind]; discriminate|]. destruct ((sl <? 0) || (sl >? dl)) eqn:E1; [cbn [bind]; discriminate|].
  pose proof (zlen_nonneg f). set (gap := zslice sl dl f). assert (Lg : zlen gap = dl - sl) by (unfold gap; apply zlen_zslice; lia).
  rewrite (C11.Proofs.alloc_ok (zlen f) (dl - sl)) by (unfold alloc_limit; lia). cbn [bind].
  destruct (apk_sb_checks_magic_suffix && negb (has_suffix_b gap apk_sig_magic)); [cbn [bind]; discriminate|].
  rewrite zlen_magic. destruct (zlen gap <? 8 + 8 + 16) eqn:E2; [cbn [bind]; discriminate|].
  rewrite cslice_ok by lia. cbn [bind]. rewrite zslice_full by reflexivity. rewrite cle_ok by lia. cbn [bind].
  rewrite cslice_ok by lia. cbn [bind]. rewrite cle_ok by (try lia; rewrite zlen_zslice by lia; lia). cbn [bind].
  match goal with |- context [if ?c then _ else _] => destruct c; [cbn [bind]; discriminate|] end.
  rewrite cslice_ok by lia. cbn [bind].
  set (pr := zslice 8 (zlen gap - 24) gap).
  destruct (pairs_raw (S (length pr)) pr) as [r| |] eqn:Ep; cbn [bind]; try discriminate.
  exfalso. apply (pairs_raw_no_panic _ _ e (Nat.lt_succ_diag_r _) Ep).
Qed.

(* ------------------------------------------------------------------ signature types *)
Lemma select_type_sound hash alg t : select_type hash alg = Some t ->
  st_hash t = hash /\ st_alg t = alg /\ st_pss t = false /\ type_by_id (st_id t) = Some t.
Proof.
  unfold select_type, apk_sig_types. cbn [find st_hash st_alg st_pss st_id fst snd]. unfold apk_sign_type_matches.
  repeat match goal with |- context [if ?c then _ else _] => destruct c eqn:? end; intros H; try discriminate; injection H as <-;
    cbn [st_hash st_alg st_pss st_id fst snd] in *; (repeat split; try lia; try reflexivity).
Qed.
Lemma select_type_defined : forall hash alg, (hash = 5 \/ hash = 7) -> (alg = 1 \/ alg = 3) ->
  exists t, select_type hash alg = Some t /\ verifiable_alg alg = true.
Proof. intros hash alg [-> | ->] [-> | ->]; eexists; split; reflexivity. Qed.
(* the table also offers DSA with SHA-256; VerifySignature has no branch for it *)
Lemma dsa_selected_not_verifiable : exists t, select_type 5 2 = Some t /\ verifiable_alg 2 = false.
Proof. eexists. split; reflexivity. Qed.
Lemma covers_same_bytes : sign_and_verify_cover_same_bytes = true /\ apk_raw_body_off = 4.
Proof. split; reflexivity. Qed.

Lemma digests_match_eq signed computed : digests_match signed computed = true -> signed = computed.
Proof.
  unfold digests_match. change apk_vf_compares_digests with true. cbv iota. revert computed.
  induction signed as [|a s IH]; intros [|b c] H; cbn [list_eqb] in H; try discriminate; [reflexivity|].
  apply andb_true_iff in H as [H1 H2]. apply list_eqb_Z_eq in H1. subst b. f_equal. apply IH. exact H2.
Qed.
Lemma leaf_of_matches certs pubkey i : leaf_of certs pubkey = Some i -> In pubkey certs.
Proof.
  unfold leaf_of. change apk_vf_leaf_by_public_key with true. cbv iota.
  assert (G : forall l j acc, (fix go (i : Z) (l : list bytes) (acc : option Z) : option Z :=
       match l with [] => acc | c :: r => go (i + 1) r (if bytes_eqb c pubkey then Some i else acc) end) j l acc = Some i -> acc = Some i \/ In pubkey l).
  { induction l as [|c r IH]; intros j acc H; [left; exact H|]. destruct (IH _ _ H) as [E|E]; [|right; right; exact E].
    destruct (bytes_eqb c pubkey) eqn:B; [right; left; apply list_eqb_Z_eq; exact B|left; exact E]. }
  intros H. destruct (G _ _ _ H) as [E|E]; [discriminate|exact E].
Qed.

(* ------------------------------------------------------------------ v1 / v2 binding *)
Lemma v1_check_spec hdr n : v1_check hdr n = true <-> (In 50 hdr /\ n = 0).
Proof.
  unfold v1_check, apk_v1_stripped, apk_v2_present, contains_rune. rewrite andb_true_iff, existsb_exists. split.
  - intros [[x [Hx Ex]] Hn]. apply Z.eqb_eq in Ex. subst x. split; [exact Hx|]. destruct (n =? 0) eqn:E; [lia|discriminate].
  - intros [Hx ->]. split; [exists 50; split; [exact Hx|reflexivity]|reflexivity].
Qed.
Lemma names_agree : header_names_agree = true. Proof. reflexivity. Qed.

(* the documentation's line reader on "name: value CRLF" lines *)
Definition no13 (l : bytes) : Prop := ~ In 13 l.
Lemma spec_lines_line x : no13 x -> forall acc r fuel, (length x + 2 <= fuel)%nat ->
  spec_lines fuel (x ++ 13 :: 10 :: r) acc = (rev acc ++ x) :: spec_lines (fuel - length x - 1) r [].
Proof.
  induction x as [|c x IH]; intros Hn acc r fuel Hf.
  - destruct fuel as [|fuel]; [cbn in Hf; lia|]. cbn [app spec_lines length]. rewrite app_nil_r. replace (S fuel - 0 - 1)%nat with fuel by lia. reflexivity.
  - destruct fuel as [|fuel]; [cbn in Hf; lia|]. cbn [length] in Hf. cbn [app].
    assert (Hc : c <> 13) by (intros ->; apply Hn; left; reflexivity).
    assert (Hx : no13 x) by (intros H; apply Hn; right; exact H).
    assert (Estep : spec_lines (S fuel) (c :: x ++ 13 :: 10 :: r) acc = spec_lines fuel (x ++ 13 :: 10 :: r) (c :: acc)).
    { cbn [spec_lines]. destruct (Z.eq_dec c 13) as [->|Hne]; [contradiction|].
      destruct c as [|pc|pc]; try reflexivity.
      do 4 (destruct pc as [pc|pc|]; try reflexivity). contradiction Hne. reflexivity. }
    rewrite Estep, (IH Hx (c :: acc) r fuel ltac:(lia)). cbn [rev length]. rewrite <- app_assoc. cbn [app].
    replace (S fuel - S (length x) - 1)%nat with (fuel - length x - 1)%nat by lia. reflexivity.
Qed.

Definition attr_ok (nv : bytes * bytes) : Prop := no13 (fst nv) /\ no13 (snd nv) /\ ~ In 58 (fst nv).
Definition line_of (nv : bytes * bytes) : bytes := fst nv ++ [58; 32] ++ snd nv.
Lemma no13_line nv : attr_ok nv -> no13 (line_of nv).
Proof.
  intros (H1 & H2 & _) H. unfold line_of in H. rewrite !in_app_iff in H. destruct H as [H|[H|H]]; [exact (H1 H)| |exact (H2 H)].
  cbn in H. destruct H as [H|[H|[]]]; discriminate.
Qed.
Lemma split_colon_line n v acc : ~ In 58 n -> split_colon (n ++ [58; 32] ++ v) acc = Some (rev acc ++ n, v).
Proof.
  revert acc. induction n as [|c n IH]; intros acc Hn.
  - cbn [app split_colon]. rewrite app_nil_r. reflexivity.
  - assert (Hc : c <> 58) by (intros ->; apply Hn; left; reflexivity).
    assert (Hn' : ~ In 58 n) by (intros H; apply Hn; right; exact H).
    assert (Estep : split_colon ((c :: n) ++ [58; 32] ++ v) acc = split_colon (n ++ [58; 32] ++ v) (c :: acc)).
    { cbn [app split_colon]. destruct c as [|pc|pc]; try reflexivity.
      do 6 (destruct pc as [pc|pc|]; try reflexivity). contradiction Hc. reflexivity. }
    rewrite Estep, (IH (c :: acc) Hn'). cbn [rev]. rewrite <- app_assoc. reflexivity.
Qed.

Lemma lines_of_attrs attrs : Forall attr_ok attrs -> forall fuel, (length (concat (map write_attr attrs)) + 3 <= fuel)%nat ->
  spec_main_lines (spec_lines fuel (concat (map write_attr attrs) ++ [13; 10]) []) = map line_of attrs.
Proof.
  induction 1 as [|nv attrs Hnv Hrest IH]; intros fuel Hf.
  - cbn [map concat app length] in *. destruct fuel as [|fuel]; [lia|]. reflexivity.
  - cbn [map concat] in *. unfold write_attr at 1. unfold write_attr at 1 in Hf.
    replace ((fst nv ++ [58; 32] ++ snd nv ++ [13; 10]) ++ concat (map write_attr attrs)) with (line_of nv ++ 13 :: 10 :: concat (map write_attr attrs)) in *
      by (unfold line_of; rewrite <- !app_assoc; reflexivity).
    rewrite <- app_assoc. cbn [app]. rewrite app_length in Hf. cbn [length] in Hf.
    rewrite (spec_lines_line (line_of nv) (no13_line nv Hnv) [] _ fuel) by lia. cbn [rev app].
    assert (Hne : line_of nv <> []) by (unfold line_of; destruct (fst nv); discriminate).
    destruct (line_of nv) as [|c l] eqn:El; [contradiction|]. cbn [spec_main_lines]. f_equal.
    apply IH. cbn [length] in *. lia.
Qed.

(* the main section DigestManifest writes with apkV2 carries the marker, as the documentation's reader of the .SF sees it;
   without the flag it does not (the apk signer never rewrites the .SF: see payload_kept) *)
Theorem sf_marker_written others : Forall attr_ok others -> Forall (fun nv => fst nv <> apk_sf_marker_name) others ->
  spec_sf_lookup (sf_main true others) apk_v1_header_name = Some apk_sf_marker_value /\
  spec_sf_lookup (sf_main false others) apk_v1_header_name = None.
Proof.
  intros Hok Hno.
  assert (Hm : attr_ok (apk_sf_marker_name, apk_sf_marker_value)).
  { repeat split; cbn; intros H; repeat (destruct H as [H|H]; [discriminate H|]); exact H. }
  assert (Hfind : forall tail, find (fun nv => match nv with Some (n, _) => bytes_eqb n apk_v1_header_name | None => false end)
                      (map (fun l => split_colon l []) (map line_of others) ++ tail) =
                    find (fun nv => match nv with Some (n, _) => bytes_eqb n apk_v1_header_name | None => false end) tail).
  { intros tail. induction Hok as [|nv others Hnv Hrest IH]; [reflexivity|]. inversion Hno as [|? ? Hn1 Hn2]; subst. cbn [map app find].
    unfold line_of at 1. destruct Hnv as (_ & _ & H58). rewrite split_colon_line by exact H58. cbn [rev app].
    rewrite bytes_eqb_neq by exact Hn1. apply IH. exact Hn2. }
  unfold spec_sf_lookup, sf_main, sf_main_attrs.
  change (apk_sf_marker_guard_is_flag && true && (apk_sf_ix_version <? apk_sf_ix_marker) && (apk_sf_ix_marker <? apk_sf_ix_blank)) with true.
  change (apk_sf_marker_guard_is_flag && false && (apk_sf_ix_version <? apk_sf_ix_marker) && (apk_sf_ix_marker <? apk_sf_ix_blank)) with false.
  cbv iota. split.
  - assert (Hall : Forall attr_ok (others ++ [(apk_sf_marker_name, apk_sf_marker_value)])) by (apply Forall_app; split; [exact Hok|constructor; [exact Hm|constructor]]).
    rewrite (lines_of_attrs _ Hall) by (rewrite app_length; cbn [length]; lia).
    rewrite map_app, map_app. cbn [map]. rewrite Hfind. unfold line_of. cbn [fst snd find].
    rewrite split_colon_line by (destruct Hm as (_ & _ & H); exact H). cbn [rev app]. change (bytes_eqb apk_sf_marker_name apk_v1_header_name) with true. reflexivity.
  - rewrite app_nil_r. rewrite (lines_of_attrs _ Hok) by (rewrite app_length; cbn [length]; lia).
    rewrite <- (app_nil_r (map _ (map line_of others))). rewrite Hfind. reflexivity.
Qed.
