(* FmtMAGIC/ProofsDetect.v — the generated decision list of lib/magic.Detect equals the hand-written reference cascade; no panic;
   bounded read. *)
From Relic Require Import Base.Prelude Base.Enc FmtMAGIC.Lib Generated.FmtMAGIC_gen FmtMAGIC.Model FmtMAGIC.ProofsLib.

Lemma all_bytes_zdrop n l : all_bytes l = true -> all_bytes (zdrop n l) = true.
Proof.
  intros H. rewrite <- (ztake_zdrop n l) in H. rewrite all_bytes_app in H. apply andb_true_iff in H as [_ H]. exact H.
Qed.
Lemma all_bytes_zslice a b l : all_bytes l = true -> all_bytes (zslice a b l) = true.
Proof. intros H. unfold zslice. apply all_bytes_ztake. apply all_bytes_zdrop. exact H. Qed.

Lemma le16_range l : all_bytes l = true -> 62 <= zlen l -> 0 <= le_dec (zslice 60 62 l) < 65536.
Proof.
  intros Hb Hl. pose proof (le_dec_range _ (all_bytes_zslice 60 62 l Hb)) as H.
  rewrite zslice_len in H by lia. exact H.
Qed.

(* the body of the "MZ" clause *)
Lemma pe_probe_spec l : all_bytes l = true ->
  pe_probe (mkReader l 4096) = Ok (if pe_core l then Some 6 else None).
Proof.
  intros Hb. unfold pe_probe, pe_core. rewrite peek_mk. unfold magic_pe_peek1, magic_pe_cond1.
  change (Z.min 62 4096) with 62. rewrite zlen_ztake_min by lia.
  destruct (62 <=? zlen l) eqn:E62.
  2:{ replace (Z.min 62 (zlen l) =? 62) with false by lia. reflexivity. }
  replace (Z.min 62 (zlen l) =? 62) with true by lia. cbn [andb].
  unfold buf_slice at 1. unfold magic_pe_reloc_lo, magic_pe_reloc_hi. cbn [rd_buf].
  change ((0 <=? 60) && (60 <=? 62) && (62 <=? 4096)) with true. cbv iota.
  rewrite window_slice by lia. cbn [bind].
  unfold go_uint16, magic_pe_reloc_little_endian. rewrite zslice_len by lia.
  change (62 - 60 <? 2) with false. cbv iota. rewrite ztake_all by (rewrite zslice_len; lia). cbn [bind].
  pose proof (le16_range l Hb ltac:(lia)) as He. set (e := le_dec (zslice 60 62 l)) in *. cbv zeta.
  unfold magic_pe_cond2, magic_pe_peek2, rd_peek_ok. rewrite peek_mk. rewrite zlen_ztake_min by lia.
  replace (0 <=? e + 4) with true by lia. cbn [andb].
  unfold at_off. change (zlen [80; 69; 0; 0]) with 4.
  destruct (e + 4 <=? 4096) eqn:E1.
  2:{ replace (Z.min (Z.min (e + 4) 4096) (zlen l) =? e + 4) with false by lia. reflexivity. }
  destruct (4 + e <=? zlen l) eqn:E2.
  2:{ replace (Z.min (Z.min (e + 4) 4096) (zlen l) =? e + 4) with false by lia. reflexivity. }
  replace (Z.min (Z.min (e + 4) 4096) (zlen l) =? e + 4) with true by lia. cbn [andb].
  unfold buf_slice, magic_pe_sig_lo, magic_pe_sig_hi. cbn [rd_buf].
  replace ((0 <=? e) && (e <=? e + 4) && (e + 4 <=? 4096)) with true by lia. cbv iota.
  rewrite window_slice by lia. cbn [bind]. rewrite zslice_as_take. unfold magic_pe_sig, magic_pe_type.
  change 4 with (zlen [80; 69; 0; 0]) at 1. rewrite eqb_take_prefix by (change (zlen [80; 69; 0; 0]) with 4; rewrite zlen_zdrop_any by lia; lia).
  destruct (is_prefix [80; 69; 0; 0] (zdrop e l)); reflexivity.
Qed.

Lemma small_le (p : bytes) : (zlen p <=? 4096) = true -> zlen p <= 4096.
Proof. lia. Qed.

(* the whole of Detect: the generated, ordered decision list interpreted over a fresh 4096-byte bufio.Reader answers what the
   reference cascade answers *)
Theorem detect_eq_ref l : all_bytes l = true -> detect_bytes l = Ok (detect_ref l).
Proof.
  intros Hb. unfold detect_bytes, detect, magic_detect_cases. change magic_detect_bufsize with 4096.
  cbn [run_cases existsb eval_test].
  rewrite !hasprefix_spec by (apply small_le; reflexivity).
  rewrite !contains_spec by lia.
  rewrite istar_spec by lia.
  rewrite pe_probe_spec by exact Hb.
  rewrite !orb_false_r.
  unfold detect_ref, rel_rpm, rel_deb, rel_pgp_armor, rel_cat, rel_pkcs7, rel_tar, rel_mz, rel_pe, rel_cfb, rel_cab, rel_manifest, rel_macho, rel_fat, rel_xar, rel_pgp_bin, in256,
    OID_CTL, OID_SIGNED_DATA, rel_mz, magic_detectTar, magic_detect_default.
  destruct (is_prefix [237; 171; 238; 219] l); [reflexivity|].
  destruct (is_prefix [33; 60; 97; 114; 99; 104; 62; 10; 100; 101; 98; 105; 97; 110] l); [reflexivity|].
  destruct (is_prefix [45; 45; 45; 45; 45; 66; 69; 71; 73; 78; 32; 80; 71; 80] l); [reflexivity|].
  destruct (bytes_contains (ztake 256 l) [6; 9; 43; 6; 1; 4; 1; 130; 55; 10; 1]); [reflexivity|].
  destruct (bytes_contains (ztake 256 l) [6; 9; 42; 134; 72; 134; 247; 13; 1; 7; 2]); [reflexivity|].
  destruct (at_off 257 [117; 115; 116; 97; 114] l); [reflexivity|].
  destruct (is_prefix [77; 90] l).
  { cbn [andb bind]. destruct (pe_core l); reflexivity. }
  destruct (is_prefix [208; 207] l); [reflexivity|].
  destruct (is_prefix [77; 83; 67; 70] l); [reflexivity|].
  destruct (bytes_contains (ztake 256 l) [60; 97; 115; 115; 101; 109; 98; 108; 121]); [reflexivity|].
  destruct (bytes_contains (ztake 256 l) [58; 97; 115; 115; 101; 109; 98; 108; 121]); [reflexivity|].
  destruct (is_prefix [207; 250; 237; 254] l); [reflexivity|].
  destruct (is_prefix [206; 250; 237; 254] l); [reflexivity|].
  destruct (is_prefix [202; 254; 186; 190] l); [reflexivity|].
  destruct (is_prefix [120; 97; 114; 33] l); [reflexivity|].
  destruct (is_prefix [137] l); [reflexivity|].
  destruct (is_prefix [194] l); [reflexivity|].
  destruct (is_prefix [196] l); reflexivity.
Qed.

(* ---------------------------------------------------------------- bounded read: nothing behind the reader's buffer matters,
   for ANY decision list built from the four helpers and the PE probe (not only today's) *)
Lemma reader_ext a b : rd_buf a = rd_buf b -> ztake (rd_buf a) (rd_data a) = ztake (rd_buf b) (rd_data b) ->
  (forall n, rd_peek a n = rd_peek b n) /\ rd_window a = rd_window b.
Proof.
  intros HB HD. split.
  - intros n. unfold rd_peek. rewrite <- HB.
    replace (Z.min n (rd_buf a)) with (Z.min (Z.min n (rd_buf a)) (rd_buf a)) by lia.
    rewrite <- !ztake_ztake. rewrite HD, <- HB. reflexivity.
  - unfold rd_window. rewrite HD, <- HB. reflexivity.
Qed.
Lemma eval_test_ext a b t : (forall n, rd_peek a n = rd_peek b n) -> eval_test a t = eval_test b t.
Proof.
  intros H. destruct t; cbn [eval_test]; unfold magic_hasPrefix, magic_isTar, magic_atPosition, magic_contains; rewrite ?H; reflexivity.
Qed.
Lemma pe_probe_ext a b : rd_buf a = rd_buf b -> (forall n, rd_peek a n = rd_peek b n) -> rd_window a = rd_window b -> pe_probe a = pe_probe b.
Proof.
  intros HB HP HW. unfold pe_probe, rd_peek_ok, buf_slice. rewrite HW, HB. rewrite HP.
  destruct (magic_pe_cond1 (zlen (rd_peek b magic_pe_peek1))); [|reflexivity].
  destruct ((0 <=? magic_pe_reloc_lo) && (magic_pe_reloc_lo <=? magic_pe_reloc_hi) && (magic_pe_reloc_hi <=? rd_buf b)); [|reflexivity].
  cbn [bind]. destruct (go_uint16 _ _) as [reloc| |]; cbn [bind]; [|reflexivity|reflexivity].
  rewrite HP. reflexivity.
Qed.
Lemma run_cases_ext a b cases : rd_buf a = rd_buf b -> ztake (rd_buf a) (rd_data a) = ztake (rd_buf b) (rd_data b) ->
  run_cases a cases = run_cases b cases.
Proof.
  intros HB HD. destruct (reader_ext a b HB HD) as [HP HW].
  induction cases as [|[ts r] rest IH]; [reflexivity|]. cbn [run_cases].
  replace (existsb (eval_test a) ts) with (existsb (eval_test b) ts).
  2:{ induction ts as [|t ts IHt]; [reflexivity|]. cbn [existsb]. rewrite IHt, (eval_test_ext a b t HP). reflexivity. }
  destruct (existsb (eval_test b) ts); [|exact IH].
  destruct r; try reflexivity. rewrite (pe_probe_ext a b HB HP HW). reflexivity.
Qed.
Theorem detect_bounded_peek l l' : ztake magic_detect_bufsize l = ztake magic_detect_bufsize l' -> detect_bytes l = detect_bytes l'.
Proof. intros H. unfold detect_bytes, detect. apply run_cases_ext; [reflexivity|exact H]. Qed.

(* the possible answers *)
Definition detect_answers : list Z := [0; 1; 2; 3; 5; 6; 7; 8; 9; 10; 15; 16; 18].
Lemma detect_ref_range l : In (detect_ref l) detect_answers.
Proof.
  unfold detect_ref, detect_answers.
  repeat match goal with |- context [if ?c then _ else _] => destruct c end; cbn; tauto.
Qed.
Theorem detect_total_no_panic l : all_bytes l = true -> exists t, detect_bytes l = Ok t /\ In t detect_answers.
Proof. intros H. exists (detect_ref l). split; [apply detect_eq_ref; exact H|apply detect_ref_range]. Qed.
