(* FmtMAGIC/ProofsDispatch.v — the registered module table and the look-ups of signers/signers.go and its callers. *)
From Coq Require Import Permutation.
From Relic Require Import Base.Prelude Base.Enc FmtMAGIC.Lib Generated.FmtMAGIC_gen FmtMAGIC.Model FmtMAGIC.ProofsLib.

(* ---------------------------------------------------------------- ByMagic / ByName do not depend on the registration order
   (the order of the init functions is decided by the Go linker) as long as the keys are unique *)
Lemma by_magic_in_sound tbl m s : by_magic_in tbl m = Some s -> In s tbl /\ m_magic s = m.
Proof.
  induction tbl as [|x r IH]; cbn [by_magic_in]; [discriminate|]. unfold signers_bymagic_match.
  destruct (m_magic x =? m) eqn:E.
  - intros H. injection H as <-. split; [left; reflexivity|lia].
  - intros H. destruct (IH H). split; [right; assumption|assumption].
Qed.
Lemma by_magic_in_complete tbl m s : In s tbl -> m_magic s = m -> exists s', by_magic_in tbl m = Some s'.
Proof.
  induction tbl as [|x r IH]; cbn [by_magic_in In]; [contradiction|]. unfold signers_bymagic_match.
  intros [->|Hin] Hm.
  - rewrite Hm, Z.eqb_refl. eauto.
  - destruct (m_magic x =? m); eauto.
Qed.
Definition unique_magic (tbl : list smod) : Prop := forall a b, In a tbl -> In b tbl -> m_magic a = m_magic b -> m_magic a <> 0 -> a = b.
Theorem by_magic_order_independent tbl tbl' m : unique_magic tbl -> Permutation tbl tbl' -> m <> 0 -> by_magic_in tbl m = by_magic_in tbl' m.
Proof.
  intros U P Hm.
  destruct (by_magic_in tbl m) as [s|] eqn:E.
  - apply by_magic_in_sound in E as [Hin Hs].
    destruct (by_magic_in_complete tbl' m s (Permutation_in _ P Hin) Hs) as [s' E']. rewrite E'.
    apply by_magic_in_sound in E' as [Hin' Hs']. f_equal.
    apply U; [exact Hin|exact (Permutation_in _ (Permutation_sym P) Hin')|congruence|congruence].
  - destruct (by_magic_in tbl' m) as [s'|] eqn:E'; [|reflexivity].
    apply by_magic_in_sound in E' as [Hin' Hs'].
    destruct (by_magic_in_complete tbl m s' (Permutation_in _ (Permutation_sym P) Hin') Hs') as [s'' E'']. congruence.
Qed.

Definition names_of (s : smod) : list bytes := m_name s :: m_aliases s.
Lemma existsb_alias l name : existsb (fun a => signers_byname_match_alias a name) l = true <-> In name l.
Proof.
  unfold signers_byname_match_alias. rewrite existsb_exists. split.
  - intros [a [Hin E]]. apply bytes_eqb_eq in E. subst. exact Hin.
  - intros H. exists name. split; [exact H|apply bytes_eqb_refl].
Qed.
Lemma by_name_in_sound tbl n s : by_name_in tbl n = Some s -> In s tbl /\ In n (names_of s).
Proof.
  induction tbl as [|x r IH]; cbn [by_name_in]; [discriminate|]. unfold signers_byname_match_name.
  destruct (bytes_eqb (m_name x) n) eqn:E.
  - intros H. injection H as <-. apply bytes_eqb_eq in E. split; [left; reflexivity|left; exact E].
  - destruct (existsb (fun a => signers_byname_match_alias a n) (m_aliases x)) eqn:E2.
    + intros H. injection H as <-. apply existsb_alias in E2. split; [left; reflexivity|right; exact E2].
    + intros H. destruct (IH H). split; [right; assumption|assumption].
Qed.
Lemma by_name_in_complete tbl n s : In s tbl -> In n (names_of s) -> exists s', by_name_in tbl n = Some s'.
Proof.
  induction tbl as [|x r IH]; cbn [by_name_in In]; [contradiction|]. unfold signers_byname_match_name.
  intros [->|Hin] Hn.
  - destruct Hn as [<-|Hn]; [rewrite bytes_eqb_refl; eauto|].
    destruct (bytes_eqb (m_name s) n); [eauto|]. apply existsb_alias in Hn. rewrite Hn. eauto.
  - destruct (bytes_eqb (m_name x) n); [eauto|]. destruct (existsb (fun a => signers_byname_match_alias a n) (m_aliases x)); eauto.
Qed.
Definition unique_names (tbl : list smod) : Prop := forall a b n, In a tbl -> In b tbl -> In n (names_of a) -> In n (names_of b) -> a = b.
Theorem by_name_order_independent tbl tbl' n : unique_names tbl -> Permutation tbl tbl' -> by_name_in tbl n = by_name_in tbl' n.
Proof.
  intros U P.
  destruct (by_name_in tbl n) as [s|] eqn:E.
  - apply by_name_in_sound in E as [Hin Hs].
    destruct (by_name_in_complete tbl' n s (Permutation_in _ P Hin) Hs) as [s' E']. rewrite E'.
    apply by_name_in_sound in E' as [Hin' Hs']. f_equal.
    apply (U s s' n); [exact Hin|exact (Permutation_in _ (Permutation_sym P) Hin')|exact Hs|exact Hs'].
  - destruct (by_name_in tbl' n) as [s'|] eqn:E'; [|reflexivity].
    apply by_name_in_sound in E' as [Hin' Hs'].
    destruct (by_name_in_complete tbl n s' (Permutation_in _ (Permutation_sym P) Hin') Hs') as [s'' E'']. congruence.
Qed.

(* ---------------------------------------------------------------- the generated table: keys are unique (decided by computation) *)
Fixpoint nodup_z (l : list Z) : bool := match l with [] => true | x :: r => negb (existsb (Z.eqb x) r) && nodup_z r end.
Fixpoint nodup_b (l : list bytes) : bool := match l with [] => true | x :: r => negb (existsb (bytes_eqb x) r) && nodup_b r end.
Definition nonzero_magics : list Z := filter (fun m => negb (m =? 0)) (map m_magic signers_table).
Definition all_names : list bytes := flat_map names_of signers_table.

Ltac in_table H := repeat (destruct H as [<-|H]; [|]); [..|contradiction].
Lemma table_unique_magic : unique_magic signers_table.
Proof.
  intros a b Ha Hb. unfold signers_table in Ha, Hb. cbn [In] in Ha, Hb.
  repeat (destruct Ha as [<-|Ha]; [repeat (destruct Hb as [<-|Hb]; [cbn [m_magic]; intros E N; first [reflexivity|discriminate E|exfalso; apply N; reflexivity]|]); contradiction|]).
  contradiction.
Qed.
Lemma table_unique_names : unique_names signers_table.
Proof.
  intros a b n Ha Hb. unfold signers_table in Ha, Hb. cbn [In] in Ha, Hb.
  repeat (destruct Ha as [<-|Ha]; [repeat (destruct Hb as [<-|Hb]; [cbn [names_of m_name m_aliases In]; intros Na Nb; first [reflexivity|exfalso; intuition congruence]|]); contradiction|]).
  contradiction.
Qed.

(* ---------------------------------------------------------------- types detection can answer = Magic fields of the registered modules *)
Fixpoint case_types (cases : list (list mtest * mres)) : list Z :=
  match cases with
  | [] => []
  | (_, RType t) :: r => t :: case_types r
  | (_, RPE) :: r => magic_pe_type :: case_types r
  | (_, RTar) :: r => magic_detectTar :: case_types r
  end.
Definition zip_types : list Z := map (fun e => if snd e =? -1 then magic_zip_deferred_type else snd e) magic_zip_exact ++ map snd magic_zip_suffix.
Definition detect_types : list Z := filter (fun t => negb (t =? 0)) (case_types magic_detect_cases ++ zip_types ++ [magic_detect_default; magic_zip_default; magic_zip_open_error_type]).
Definition subset_z (a b : list Z) : bool := forallb (fun x => existsb (Z.eqb x) b) a.

(* ---------------------------------------------------------------- routes *)
Theorem route_sign_eq_verify name t : signers_byfile_stdin name = false ->
  route_mod (by_file [] name true (Ok (t, 0))) = vroute_mod (verify_route name (Ok (t, 0))).
Proof.
  intros Hs. unfold by_file, verify_route. rewrite Hs.
  unfold signers_byfile_explicit, signers_byfile_refuses_compression, signers_byfile_magic_found, signers_byfile_name_found,
    verify_falls_back_to_name, verify_unknown, verify_uses_stream, verify_refuses_compression. cbn [bytes_eqb list_eqb negb].
  change (0 =? magic_CompressedNone) with true. cbn [negb].
  destruct (by_magic t) as [m|]; cbn [is_some negb route_mod].
  - destruct (m_has_stream m); reflexivity.
  - destruct (by_filename name) as [m|]; cbn [is_some negb route_mod vroute_mod]; [destruct (m_has_stream m); reflexivity|reflexivity].
Qed.
Theorem sign_refuses_compressed name t c : signers_byfile_stdin name = false -> c <> 0 -> by_file [] name true (Ok (t, c)) = Refused E_COMPRESSED.
Proof.
  intros Hs Hc. unfold by_file. rewrite Hs. unfold signers_byfile_explicit, signers_byfile_refuses_compression. cbn [bytes_eqb list_eqb negb].
  change magic_CompressedNone with 0. replace (c =? 0) with false by lia. reflexivity.
Qed.
Theorem verify_compressed name t c : c <> 0 ->
  verify_route name (Ok (t, c)) =
  match (match by_magic t with Some m => Some m | None => by_filename name end) with
  | None => VRefused E_UNKNOWN
  | Some m => if m_has_stream m then VStream m c else VRefused E_COMPRESSED
  end.
Proof.
  intros Hc. unfold verify_route, verify_falls_back_to_name, verify_unknown, verify_uses_stream, verify_refuses_compression.
  change magic_CompressedNone with 0. replace (c =? 0) with false by lia. cbn [negb].
  destruct (by_magic t) as [m|]; cbn [is_some negb]; [reflexivity|]. destruct (by_filename name); reflexivity.
Qed.
Theorem explicit_type_ignores_content sigtype n1 n2 o1 o2 d1 d2 : sigtype <> [] -> by_file sigtype n1 o1 d1 = by_file sigtype n2 o2 d2.
Proof.
  intros H. unfold by_file, signers_byfile_explicit. replace (bytes_eqb sigtype []) with false; [reflexivity|].
  symmetry. apply bytes_eqb_neq. exact H.
Qed.

(* Signer.IsSigned *)
Theorem is_signed_spec m outcome :
  is_signed_result m outcome =
  if m_has_stream m || m_has_verify m then Some ((outcome =? 0) || (outcome =? 2), negb ((outcome =? 0) || (outcome =? 1) || (outcome =? 2))) else None.
Proof.
  unfold is_signed_result. destruct (m_has_stream m || m_has_verify m); [|reflexivity].
  unfold signers_issigned_table, signers_issigned_default. cbn [lookup_z].
  destruct (outcome =? 0) eqn:E0; [reflexivity|]. destruct (outcome =? 1) eqn:E1; [replace (outcome =? 2) with false by lia; reflexivity|].
  destruct (outcome =? 2); reflexivity.
Qed.

(* ---------------------------------------------------------------- file names *)
Lemma has_suffix_app_dmg y : has_suffix (y ++ [46; 100; 109; 103]) [46; 100; 109; 103] = true.
Proof. unfold has_suffix. rewrite rev_app_distr. apply is_prefix_refl_app. Qed.
Lemma ext_of_dmg y : path_ext (y ++ [46; 100; 109; 103]) = [46; 100; 109; 103].
Proof. unfold path_ext. rewrite rev_app_distr. reflexivity. Qed.
Lemma has_suffix_split p s : has_suffix p s = true -> exists y, p = y ++ s.
Proof.
  unfold has_suffix. intros H. apply is_prefix_iff in H as [r Hr]. exists (rev r).
  apply (f_equal (@rev Z)) in Hr. rewrite rev_involutive, rev_app_distr, rev_involutive in Hr. exact Hr.
Qed.
Definition ps_module : option smod := by_name [112; 115].
Definition dmg_module : option smod := by_name [100; 109; 103].
Theorem filename_rules path :
  by_filename path = if is_some (lookup_exact ps_ext_table (path_ext path)) then ps_module
                     else if has_suffix path [46; 100; 109; 103] then dmg_module else None.
Proof.
  destruct (has_suffix path [46; 100; 109; 103]) eqn:Hd.
  - apply has_suffix_split in Hd as [y ->]. rewrite ext_of_dmg.
    unfold by_filename, signers_table. cbn [by_filename_in m_testpath]. unfold signers_byfilename_match, testpath_eval.
    cbn [Z.eqb negb andb signers_testpath_ps signers_testpath_dmg]. unfold dmg_testPath. rewrite has_suffix_app_dmg. reflexivity.
  - unfold by_filename, signers_table. cbn [by_filename_in m_testpath]. unfold signers_byfilename_match, testpath_eval.
    cbn [Z.eqb negb andb signers_testpath_ps signers_testpath_dmg]. unfold dmg_testPath. rewrite Hd.
    destruct (is_some (lookup_exact ps_ext_table (path_ext path))); reflexivity.
Qed.
