(* FmtMAGIC/ProofsLib.v — byte-string lemmas and the reduction of the generated helpers (hasPrefix / contains / atPosition / isTar
   over a fresh bufio.Reader) to plain predicates on the input. *)
From Relic Require Import Base.Prelude Base.Enc FmtMAGIC.Lib Generated.FmtMAGIC_gen FmtMAGIC.Model.

(* ---------------------------------------------------------------- is_prefix *)
Lemma is_prefix_iff p l : is_prefix p l = true <-> exists r, l = p ++ r.
Proof.
  revert l; induction p as [|x p IH]; intros l; cbn [is_prefix].
  - split; [intros _; exists l; reflexivity|reflexivity].
  - destruct l as [|y l]; [split; [discriminate|intros [r H]; discriminate]|].
    rewrite andb_true_iff, Z.eqb_eq, IH. split.
    + intros [-> [r ->]]. exists r. reflexivity.
    + intros [r H]. cbn in H. injection H as -> ->. split; [reflexivity|exists r; reflexivity].
Qed.
Lemma is_prefix_len p l : is_prefix p l = true -> zlen p <= zlen l.
Proof. intros H. apply is_prefix_iff in H as [r ->]. rewrite zlen_app. pose proof (zlen_nonneg r). lia. Qed.
Lemma is_prefix_app a b l : is_prefix (a ++ b) l = is_prefix a l && is_prefix b (zdrop (zlen a) l).
Proof.
  revert l; induction a as [|x a IH]; intros l; cbn [app is_prefix].
  - rewrite zlen_nil, zdrop_0. reflexivity.
  - destruct l as [|y l]; [reflexivity|]. rewrite IH, andb_assoc. f_equal.
    rewrite zlen_cons. unfold zdrop. replace (Z.to_nat (1 + zlen a)) with (S (Z.to_nat (zlen a))) by (pose proof (zlen_nonneg a); lia). reflexivity.
Qed.
Lemma is_prefix_refl_app p r : is_prefix p (p ++ r) = true.
Proof. apply is_prefix_iff. exists r. reflexivity. Qed.
Lemma is_prefix_ztake p l n : zlen p <= n -> is_prefix p (ztake n l) = is_prefix p l.
Proof.
  revert l n; induction p as [|x p IH]; intros l n H; [reflexivity|].
  rewrite zlen_cons in H. pose proof (zlen_nonneg p).
  unfold ztake. replace (Z.to_nat n) with (S (Z.to_nat (n - 1))) by lia.
  destruct l as [|y l]; [reflexivity|]. cbn [firstn is_prefix]. f_equal. apply (IH l (n - 1)). lia.
Qed.
(* two prefixes of the same string are comparable *)
Lemma is_prefix_comparable p q l : is_prefix p l = true -> is_prefix q l = true -> is_prefix p q || is_prefix q p = true.
Proof.
  revert q l; induction p as [|x p IH]; intros q l Hp Hq; [reflexivity|].
  destruct q as [|y q]; [reflexivity|].
  destruct l as [|z l]; [discriminate|]. cbn [is_prefix] in *.
  apply andb_true_iff in Hp as [Hx Hp]. apply andb_true_iff in Hq as [Hy Hq].
  apply Z.eqb_eq in Hx, Hy. subst. rewrite Z.eqb_refl. cbn [andb]. exact (IH _ _ Hp Hq).
Qed.
Lemma bytes_eqb_refl a : bytes_eqb a a = true.
Proof. apply list_eqb_Z_eq. reflexivity. Qed.
Lemma bytes_eqb_eq a b : bytes_eqb a b = true <-> a = b.
Proof. apply list_eqb_Z_eq. Qed.
Lemma bytes_eqb_neq a b : bytes_eqb a b = false <-> a <> b.
Proof. split; intros H; [intros E; apply bytes_eqb_eq in E; congruence|]. destruct (bytes_eqb a b) eqn:E; [apply bytes_eqb_eq in E; contradiction|reflexivity]. Qed.
(* comparing a string of the right length with p is the prefix test *)
Lemma eqb_take_prefix p x : zlen p <= zlen x -> bytes_eqb (ztake (zlen p) x) p = is_prefix p x.
Proof.
  revert x; induction p as [|a p IH]; intros x H.
  - reflexivity.
  - rewrite zlen_cons in *. pose proof (zlen_nonneg p). destruct x as [|b x]; [rewrite zlen_nil in H; lia|].
    rewrite zlen_cons in H. unfold ztake. replace (Z.to_nat (1 + zlen p)) with (S (Z.to_nat (zlen p))) by lia.
    cbn [firstn is_prefix]. unfold bytes_eqb. cbn [list_eqb]. rewrite Z.eqb_sym. f_equal.
    specialize (IH x ltac:(lia)). unfold bytes_eqb, ztake in IH. exact IH.
Qed.

(* ---------------------------------------------------------------- ztake / zdrop *)
Lemma zlen_ztake_min {A} n (l : list A) : 0 <= n -> zlen (ztake n l) = Z.min n (zlen l).
Proof. intros H. unfold zlen, ztake. rewrite firstn_length. lia. Qed.
Lemma ztake_ztake {A} a b (l : list A) : ztake a (ztake b l) = ztake (Z.min a b) l.
Proof.
  unfold ztake. rewrite firstn_firstn. f_equal. lia.
Qed.
Lemma zdrop_ztake {A} n k (l : list A) : 0 <= n -> 0 <= k -> zdrop n (ztake (n + k) l) = ztake k (zdrop n l).
Proof.
  intros Hn Hk. unfold zdrop, ztake. replace (Z.to_nat (n + k)) with (Z.to_nat n + Z.to_nat k)%nat by lia.
  generalize (Z.to_nat n) (Z.to_nat k). clear. intros a b. revert l. induction a as [|a IH]; intros l; cbn; [reflexivity|].
  destruct l as [|x l]; [now rewrite firstn_nil|]. apply IH.
Qed.
Lemma zlen_zdrop_any {A} n (l : list A) : 0 <= n -> zlen (zdrop n l) = Z.max 0 (zlen l - n).
Proof. intros H. unfold zlen, zdrop. rewrite skipn_length. lia. Qed.

(* ---------------------------------------------------------------- bytes_contains *)
Lemma contains_len d p : bytes_contains d p = true -> zlen p <= zlen d.
Proof.
  induction d as [|x d IH]; cbn [bytes_contains]; intros H.
  - rewrite orb_false_r in H. apply is_prefix_len in H. exact H.
  - apply orb_true_iff in H as [H|H]; [apply is_prefix_len in H; exact H|]. specialize (IH H). rewrite zlen_cons. lia.
Qed.
Lemma contains_at d p k : 0 <= k -> is_prefix p (zdrop k d) = true -> k <= zlen d -> bytes_contains d p = true.
Proof.
  intros Hk. revert d. pattern k. apply natlike_ind; [| |exact Hk].
  - intros d H _. rewrite zdrop_0 in H. destruct d; cbn [bytes_contains]; rewrite H; reflexivity.
  - intros j Hj IH d H Hl. destruct d as [|x d]; [rewrite zlen_nil in Hl; lia|].
    cbn [bytes_contains]. apply orb_true_iff. right. apply IH.
    + unfold zdrop in *. replace (Z.to_nat (Z.succ j)) with (S (Z.to_nat j)) in H by lia. exact H.
    + rewrite zlen_cons in Hl. lia.
Qed.
(* a pattern that starts at offset k and ends inside the first n bytes is found in those n bytes *)
Lemma contains_in_window p l k n : 0 <= k -> k + zlen p <= n -> is_prefix p (zdrop k l) = true -> bytes_contains (ztake n l) p = true.
Proof.
  intros Hk Hn H. pose proof (zlen_nonneg p) as Hp. pose proof (is_prefix_len _ _ H) as Hl.
  rewrite zlen_zdrop_any in Hl by lia.
  destruct p as [|a p]; [destruct (ztake n l); reflexivity|]. rewrite zlen_cons in *. pose proof (zlen_nonneg p).
  apply (contains_at _ _ k Hk).
  - replace n with (k + (n - k)) by lia. rewrite zdrop_ztake by lia. rewrite is_prefix_ztake by (rewrite zlen_cons; lia). exact H.
  - rewrite zlen_ztake_min by lia. lia.
Qed.

(* ---------------------------------------------------------------- the generated helpers on a fresh reader *)
Lemma peek_mk l B n : rd_peek (mkReader l B) n = ztake (Z.min n B) l.
Proof. reflexivity. Qed.

Lemma atpos_spec l B p n : 0 <= n -> n + zlen p <= B ->
  magic_atPosition (mkReader l B) p n = at_off n p l.
Proof.
  intros Hn HB. pose proof (zlen_nonneg p) as Hp. unfold magic_atPosition, at_off. rewrite peek_mk.
  rewrite Z.min_l by lia. rewrite zlen_ztake_min by lia.
  destruct (Z.min (n + zlen p) (zlen l) <? n + zlen p) eqn:E.
  - replace (zlen p + n <=? zlen l) with false by lia. reflexivity.
  - replace (zlen p + n <=? zlen l) with true by lia. cbn [andb].
    rewrite zdrop_ztake by lia. apply eqb_take_prefix. rewrite zlen_zdrop_any by lia. lia.
Qed.
Lemma at_off_0 p l : at_off 0 p l = is_prefix p l.
Proof.
  unfold at_off. rewrite zdrop_0. destruct (is_prefix p l) eqn:E; [|apply andb_false_r].
  apply is_prefix_len in E. rewrite andb_true_r. lia.
Qed.
Lemma hasprefix_spec l B p : zlen p <= B -> magic_hasPrefix (mkReader l B) p = is_prefix p l.
Proof. intros H. unfold magic_hasPrefix. rewrite atpos_spec by lia. apply at_off_0. Qed.
Lemma contains_spec l B p n : 0 <= n <= B -> magic_contains (mkReader l B) p n = bytes_contains (ztake n l) p.
Proof.
  intros H. unfold magic_contains. rewrite peek_mk, Z.min_l by lia.
  destruct (zlen (ztake n l) <? zlen p) eqn:E; [|reflexivity].
  destruct (bytes_contains (ztake n l) p) eqn:C; [|reflexivity]. apply contains_len in C. lia.
Qed.
Lemma istar_spec l B : 262 <= B -> magic_isTar (mkReader l B) = at_off 257 [117; 115; 116; 97; 114] l.
Proof. intros H. unfold magic_isTar, bytes_of. apply atpos_spec; [lia|]. change (zlen [117; 115; 116; 97; 114]) with 5. lia. Qed.

(* ---------------------------------------------------------------- the window behind a Peek *)
Lemma zslice_ztake {A} lo hi n (l : list A) : 0 <= lo -> hi <= n -> zslice lo hi (ztake n l) = zslice lo hi l.
Proof.
  intros Hlo Hhi. unfold zslice. destruct (Z.le_gt_cases hi lo) as [H|H].
  - rewrite !ztake_neg by lia. reflexivity.
  - replace n with (lo + (n - lo)) by lia. rewrite zdrop_ztake by lia. rewrite ztake_ztake. f_equal. lia.
Qed.
Lemma zslice_app_l {A} lo hi (a b : list A) : 0 <= lo -> hi <= zlen a -> zslice lo hi (a ++ b) = zslice lo hi a.
Proof.
  intros Hlo Hhi. unfold zslice. destruct (Z.le_gt_cases hi lo) as [H|H].
  - rewrite !ztake_neg by lia. reflexivity.
  - rewrite zdrop_app_l by lia. apply ztake_app_l. rewrite zlen_zdrop by lia. lia.
Qed.
Lemma window_slice l B lo hi : 0 <= lo -> hi <= B -> hi <= zlen l -> zslice lo hi (rd_window (mkReader l B)) = zslice lo hi l.
Proof.
  intros Hlo HB Hl. unfold rd_window. cbn [rd_buf rd_data].
  destruct (Z.le_gt_cases hi lo) as [H|H]; [unfold zslice; rewrite !ztake_neg by lia; reflexivity|].
  rewrite zslice_app_l; [apply zslice_ztake; lia|lia|]. rewrite zlen_ztake_min by lia. lia.
Qed.
Lemma zslice_len {A} lo hi (l : list A) : 0 <= lo <= hi -> hi <= zlen l -> zlen (zslice lo hi l) = hi - lo.
Proof. intros H1 H2. unfold zslice. rewrite zlen_ztake_min by lia. rewrite zlen_zdrop_any by lia. lia. Qed.
Lemma zslice_as_take {A} lo k (l : list A) : zslice lo (lo + k) l = ztake k (zdrop lo l).
Proof. unfold zslice. f_equal. lia. Qed.

(* ---------------------------------------------------------------- bytes and little-endian numbers *)
Lemma all_bytes_ztake n l : all_bytes l = true -> all_bytes (ztake n l) = true.
Proof.
  intros H. rewrite <- (ztake_zdrop n l) in H. rewrite all_bytes_app in H. apply andb_true_iff in H as [H _]. exact H.
Qed.
