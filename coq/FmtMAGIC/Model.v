(* FmtMAGIC/Model.v — file type detection (lib/magic) and signer dispatch (signers/signers.go and its callers).
   Executable definitions only.
   MODEL side: interpreters of the GENERATED decision lists, helper translations, match conditions and module table of
   Generated/FmtMAGIC_gen.v (a changed magic number, peek size, comparison, clause order or Magic field changes these definitions).
   SPEC side (second half): the published magic numbers of the formats, written by hand from the format documents; it shares
   nothing with the generated file. *)
From Relic Require Import Base.Prelude Base.Enc FmtMAGIC.Lib Generated.FmtMAGIC_gen.

Definition P_SLICE : Z := 1.       (* Go: slice bounds out of range *)
Definition P_INDEX : Z := 2.       (* Go: index out of range (binary.*.Uint16 on a short slice) *)

Definition is_some {A} (o : option A) : bool := match o with Some _ => true | None => false end.

(* ================================================================== lib/magic.Detect *)
Definition eval_test (br : reader) (t : mtest) : bool :=
  match t with
  | TPrefix b => magic_hasPrefix br b
  | TContains b n => magic_contains br b n
  | TAt b n => magic_atPosition br b n
  | TTar => magic_isTar br
  end.

(* x[lo:hi] where x is a slice returned by Peek: legal up to the CAPACITY (the buffer), not the length *)
Definition buf_slice (br : reader) (lo hi : Z) : result bytes :=
  if (0 <=? lo) && (lo <=? hi) && (hi <=? rd_buf br) then Ok (zslice lo hi (rd_window br)) else Panic P_SLICE.
Definition go_uint16 (little : bool) (s : bytes) : result Z :=
  if zlen s <? 2 then Panic P_INDEX else Ok (if little then le_dec (ztake 2 s) else be_dec (ztake 2 s)).

(* the body of the "MZ" clause; Ok None = the clause ends without a return and the switch is left *)
Definition pe_probe (br : reader) : result (option Z) :=
  let blob := rd_peek br magic_pe_peek1 in
  if magic_pe_cond1 (zlen blob) then
    rl <- buf_slice br magic_pe_reloc_lo magic_pe_reloc_hi ;;
    reloc <- go_uint16 magic_pe_reloc_little_endian rl ;;
    if magic_pe_cond2 (rd_peek_ok br (magic_pe_peek2 reloc)) then
      sg <- buf_slice br (magic_pe_sig_lo reloc) (magic_pe_sig_hi reloc) ;;
      (* the second Peek returned exactly peek2 bytes; what lies between its length and the capacity is the window *)
      if bytes_eqb sg magic_pe_sig then Ok (Some magic_pe_type) else Ok None
    else Ok None
  else Ok None.

Fixpoint run_cases (br : reader) (cases : list (list mtest * mres)) : result Z :=
  match cases with
  | [] => Ok magic_detect_default
  | (ts, r) :: rest =>
      if existsb (eval_test br) ts then
        match r with
        | RType t => Ok t
        | RTar => Ok magic_detectTar
        | RPE => o <- pe_probe br ;; Ok (match o with Some t => t | None => magic_detect_default end)
        end
      else run_cases br rest
  end.
Definition detect (br : reader) : result Z := run_cases br magic_detect_cases.
Definition detect_bytes (l : bytes) : result Z := detect (mkReader l magic_detect_bufsize).

(* ================================================================== lib/magic.detectZip on the member names (central directory order) *)
Definition zip_norm (name : bytes) : bytes :=
  let n := if has_prefix name magic_zip_abs_prefix then magic_zip_abs_fix ++ name else name in
  if magic_zip_cleans then path_clean_rel n else n.
Fixpoint lookup_exact (tbl : list (bytes * Z)) (n : bytes) : option Z :=
  match tbl with [] => None | (k, v) :: r => if bytes_eqb n k then Some v else lookup_exact r n end.
Fixpoint lookup_suffix (tbl : list (bytes * Z)) (n : bytes) : option Z :=
  match tbl with [] => None | (k, v) :: r => if has_suffix n k then Some v else lookup_suffix r n end.
Inductive zact := ZRet (t : Z) | ZJar | ZNone.
Definition zip_member_action (name : bytes) : zact :=
  let n := zip_norm name in
  match lookup_exact magic_zip_exact n with
  | Some t => if t =? -1 then (match lookup_suffix magic_zip_suffix n with Some t' => ZRet t' | None => ZJar end) else ZRet t
  | None => match lookup_suffix magic_zip_suffix n with Some t => ZRet t | None => ZNone end
  end.
Fixpoint zip_loop (names : list bytes) (isjar : bool) : Z :=
  match names with
  | [] => if isjar then magic_zip_deferred_type else magic_zip_default
  | n :: r => match zip_member_action n with ZRet t => t | ZJar => zip_loop r true | ZNone => zip_loop r isjar end
  end.
(* None = Seek or zip.NewReader failed *)
Definition zip_detect (names : option (list bytes)) : Z :=
  match names with None => magic_zip_open_error_type | Some ns => zip_loop ns false end.

(* ================================================================== lib/magic.DetectCompressed
   The decompressors and the zip directory reader are library code: their outcome is part of the environment. *)
Record zenv := mkEnv { e_gz : option bytes;               (* gzip.NewReader: None = error, Some p = the plain stream *)
                       e_xz : option bytes;               (* xz.NewReader *)
                       e_zip : option (list bytes) }.     (* zip.NewReader: member names in directory order *)
Definition sniff (plain : option bytes) : Z :=
  match plain with
  | None => magic_FileTypeUnknown
  | Some p => if magic_isTar (mkReader p go_bufio_defaultBufSize) then magic_detectTar else magic_FileTypeUnknown
  end.
Fixpoint run_dc (e : zenv) (br : reader) (cases : list (list mtest * dcres)) : result (Z * Z) :=
  match cases with
  | [] => t <- detect br ;; Ok (t, magic_dc_default_comp)
  | (ts, r) :: rest =>
      if existsb (eval_test br) ts then
        match r with
        | DSniff lib c => Ok (sniff (if lib =? 1 then e_gz e else e_xz e), c)
        | DZip c => Ok (zip_detect (e_zip e), c)
        end
      else run_dc e br rest
  end.
Definition detect_compressed (e : zenv) (l : bytes) : result (Z * Z) := run_dc e (mkReader l magic_detect_bufsize) magic_dc_cases.

(* ================================================================== signers: look-ups over the registered module table *)
Fixpoint by_magic_in (tbl : list smod) (m : Z) : option smod :=
  match tbl with [] => None | s :: r => if signers_bymagic_match (m_magic s) m then Some s else by_magic_in r m end.
Definition by_magic (m : Z) : option smod := if signers_bymagic_refuses m then None else by_magic_in signers_table m.
Fixpoint by_name_in (tbl : list smod) (name : bytes) : option smod :=
  match tbl with
  | [] => None
  | s :: r => if signers_byname_match_name (m_name s) name then Some s
              else if existsb (fun a => signers_byname_match_alias a name) (m_aliases s) then Some s
              else by_name_in r name
  end.
Definition by_name (name : bytes) : option smod := by_name_in signers_table name.
Definition testpath_eval (id : Z) (path : bytes) : bool :=
  if id =? 0 then false
  else if id =? signers_testpath_ps then is_some (lookup_exact ps_ext_table (path_ext path))
  else if id =? signers_testpath_dmg then dmg_testPath path
  else false.
Fixpoint by_filename_in (tbl : list smod) (path : bytes) : option smod :=
  match tbl with
  | [] => None
  | s :: r => if signers_byfilename_match (negb (m_testpath s =? 0)) (testpath_eval (m_testpath s) path) then Some s else by_filename_in r path
  end.
Definition by_filename (path : bytes) : option smod := by_filename_in signers_table path.

Definition E_NO_SIGNER : Z := 1.
Definition E_STDIN : Z := 2.
Definition E_OPEN : Z := 3.
Definition E_COMPRESSED : Z := 4.
Definition E_UNKNOWN : Z := 5.
Definition E_NILMOD : Z := 6.          (* the caller would dereference a nil module *)
Definition E_PANIC : Z := 7.
Definition E_VERIFY_ONLY : Z := 8.
Definition E_NO_STDIN : Z := 9.
Inductive route := Chosen (m : smod) | Refused (e : Z).

(* signers.ByFile(name, sigtype); opened = os.Open succeeded, det = what DetectCompressed returns for the file *)
Definition by_file (sigtype name : bytes) (opened : bool) (det : result (Z * Z)) : route :=
  if signers_byfile_explicit sigtype then
    (if signers_byfile_explicit_missing (is_some (by_name sigtype)) then Refused E_NO_SIGNER
     else match by_name sigtype with Some m => Chosen m | None => Refused E_NILMOD end)
  else if signers_byfile_stdin name then Refused E_STDIN
  else if negb opened then Refused E_OPEN
  else match det with
       | Ok (t, c) =>
           if signers_byfile_refuses_compression c then Refused E_COMPRESSED
           else if signers_byfile_magic_found (is_some (by_magic t)) then
             (match by_magic t with Some m => Chosen m | None => Refused E_NILMOD end)
           else if signers_byfile_name_found (is_some (by_filename name)) then
             (match by_filename name with Some m => Chosen m | None => Refused E_NILMOD end)
           else Refused E_UNKNOWN
       | _ => Refused E_PANIC
       end.
(* `relic sign` / `relic remote sign`: ByFile, then the module must be able to sign, and must allow stdin when the input is "-" *)
Definition sign_route (sigtype name : bytes) (opened : bool) (det : result (Z * Z)) : route :=
  match by_file sigtype name opened det with
  | Chosen m => if token_sign_refuses_verify_only (m_has_sign m) then Refused E_VERIFY_ONLY
                else if signers_byfile_stdin name && token_sign_refuses_stdin (m_stdin m) then Refused E_NO_STDIN
                else Chosen m
  | r => r
  end.
(* what the client tells the server, and what the server does with it *)
Definition server_route (sigtype_param : bytes) : route :=
  let o := by_name sigtype_param in
  (* `mod == nil || mod.Sign == nil`: the second operand is only evaluated for a module that exists *)
  if server_sign_unknown_type (is_some o) (match o with Some m => m_has_sign m | None => false end) then Refused E_NO_SIGNER
  else match o with Some m => Chosen m | None => Refused E_NILMOD end.

(* `relic verify`: which verifier runs *)
Inductive vroute := VStream (m : smod) (comp : Z) | VFile (m : smod) | VRefused (e : Z).
Definition verify_route (path : bytes) (det : result (Z * Z)) : vroute :=
  match det with
  | Ok (t, c) =>
      let m1 := by_magic t in
      let m2 := if verify_falls_back_to_name (is_some m1) then by_filename path else m1 in
      if verify_unknown (is_some m2) then VRefused E_UNKNOWN
      else match m2 with
           | None => VRefused E_NILMOD
           | Some m => if verify_uses_stream (m_has_stream m) then VStream m c
                       else if verify_refuses_compression c then VRefused E_COMPRESSED
                       else VFile m
           end
  | _ => VRefused E_PANIC
  end.
Definition vroute_mod (v : vroute) : option smod := match v with VStream m _ => Some m | VFile m => Some m | VRefused _ => None end.
Definition route_mod (r : route) : option smod := match r with Chosen m => Some m | Refused _ => None end.

(* Signer.IsSigned: outcome class of the verifier (0 nil, 1 NotSignedError, 2 ErrNoKey, other) -> Some (signed, error) ; None = cannot check *)
Fixpoint lookup_z {A} (tbl : list (Z * A)) (k : Z) : option A :=
  match tbl with [] => None | (k', v) :: r => if k =? k' then Some v else lookup_z r k end.
Definition is_signed_result (m : smod) (outcome : Z) : option (bool * bool) :=
  if m_has_stream m || m_has_verify m then
    Some (match lookup_z signers_issigned_table outcome with Some r => r | None => signers_issigned_default end)
  else None.

(* ================================================================== SPEC: published magic numbers (hand-written, independent) *)
(* spec type ids: relic's FileType numbers where relic has one; 100 tar, 101 Java class file, 103 binary OpenPGP signature *)
Definition S_RPM := 1.  Definition S_DEB := 2.  Definition S_PGP_ARMOR := 3.  Definition S_JAR := 4.  Definition S_PKCS7 := 5.
Definition S_PE := 6.   Definition S_CFB := 7.  Definition S_CAB := 8.  Definition S_MANIFEST := 9.  Definition S_CAT := 10.
Definition S_APPX := 11. Definition S_VSIX := 12. Definition S_XAP := 13. Definition S_APK := 14.
Definition S_MACHO := 15. Definition S_FAT := 16. Definition S_IPA := 17. Definition S_XAR := 18.
Definition S_TAR := 100. Definition S_JAVA := 101. Definition S_PGP_BIN := 103.
(* what relic is expected to answer for a spec type *)
Definition relic_code (s : Z) : Z := if s =? S_TAR then 0 else if s =? S_JAVA then 0 else if s =? S_PGP_BIN then 3 else s.

Definition at_off (off : Z) (p l : bytes) : bool := (zlen p + off <=? zlen l) && is_prefix p (zdrop off l).

(* RPM file format (LSB, Maximum RPM): lead magic ED AB EE DB *)
Definition spec_rpm (l : bytes) : bool := is_prefix [237; 171; 238; 219] l.
(* deb(5): an ar archive ("!<arch>" LF) whose first member is named debian-binary *)
Definition spec_deb (l : bytes) : bool :=
  is_prefix [33; 60; 97; 114; 99; 104; 62; 10] l && is_prefix [100; 101; 98; 105; 97; 110; 45; 98; 105; 110; 97; 114; 121] (zdrop 8 l).
(* RFC 4880 6.2: armor header line "-----BEGIN PGP " + type *)
Definition spec_pgp_armor (l : bytes) : bool := is_prefix [45; 45; 45; 45; 45; 66; 69; 71; 73; 78; 32; 80; 71; 80; 32] l.
(* RFC 4880 4.2 / 4.3 / 5.2 / 5.4: the first packet is a signature (tag 2, version 3, 4 or 5) or a one-pass signature (tag 4,
   version 3); old format header 10tttt ll with 1, 2 or 4 length octets (ll = 3: indeterminate), new format 11tttttt with a
   one-, two- or five-octet (or partial) length *)
Definition pgp_first_packet (l : bytes) : option (Z * bytes) :=
  match l with
  | o :: r =>
      if (128 <=? o) && (o <? 192) then
        let lt := (o - 128) mod 4 in
        Some ((o - 128) / 4, zdrop (if lt =? 0 then 1 else if lt =? 1 then 2 else if lt =? 2 then 4 else 0) r)
      else if (192 <=? o) && (o <? 256) then
        match r with
        | a :: r' => Some (o - 192, if a <? 192 then r' else if a <? 224 then zdrop 1 r' else if a =? 255 then zdrop 4 r' else r')
        | [] => None
        end
      else None
  | [] => None
  end.
Definition spec_pgp_bin (l : bytes) : bool :=
  match pgp_first_packet l with
  | Some (t, v :: _) => ((t =? 2) && ((v =? 3) || (v =? 4) || (v =? 5))) || ((t =? 4) && (v =? 3))
  | _ => false
  end.
(* X.690 definite-length header, DER (minimal length octets, at most four) : (tag, length, rest) *)
Definition der_hdr (l : bytes) : option (Z * Z * bytes) :=
  match l with
  | t :: n :: r =>
      if n <? 128 then Some (t, n, r)
      else let k := n - 128 in
           if (k =? 0) || (4 <? k) || (zlen r <? k) then None
           else let v := be_dec (ztake k r) in
                if (v <? 128) || (hd 0 r =? 0) then None else Some (t, v, zdrop k r)
  | _ => None
  end.
Definition OID_SIGNED_DATA : bytes := [42; 134; 72; 134; 247; 13; 1; 7; 2].      (* 1.2.840.113549.1.7.2 *)
Definition OID_CTL : bytes := [43; 6; 1; 4; 1; 130; 55; 10; 1].                   (* 1.3.6.1.4.1.311.10.1 szOID_CTL *)
(* RFC 5652: ContentInfo { signedData, [0] SignedData { version, digestAlgorithms, encapContentInfo { eContentType ... *)
Definition spec_cms_econtent (l : bytes) : option bytes :=
  match der_hdr l with
  | Some (48, _, r1) =>
      if is_prefix (6 :: 9 :: OID_SIGNED_DATA) r1 then
        match der_hdr (zdrop 11 r1) with
        | Some (160, _, r3) =>
            match der_hdr r3 with
            | Some (48, _, r4) =>
                match der_hdr r4 with
                | Some (2, vn, r5) =>
                    match der_hdr (zdrop vn r5) with
                    | Some (49, dn, r6) =>
                        match der_hdr (zdrop dn r6) with
                        | Some (48, _, r7) =>
                            match der_hdr r7 with
                            | Some (6, on, r8) => if zlen r8 <? on then None else Some (ztake on r8)
                            | _ => None
                            end
                        | _ => None
                        end
                    | _ => None
                    end
                | _ => None
                end
            | _ => None
            end
        | _ => None
        end
      else None
  | _ => None
  end.
Definition spec_cat (l : bytes) : bool := match spec_cms_econtent l with Some o => bytes_eqb o OID_CTL | None => false end.
Definition spec_pkcs7 (l : bytes) : bool := match spec_cms_econtent l with Some o => negb (bytes_eqb o OID_CTL) | None => false end.
(* POSIX.1 ustar: magic "ustar" at offset 257 of the first header block *)
Definition spec_tar (l : bytes) : bool := at_off 257 [117; 115; 116; 97; 114] l.
(* PE/COFF specification: "MZ", 32-bit e_lfanew at 0x3c, "PE\0\0" at e_lfanew *)
Definition spec_pe (l : bytes) : bool :=
  is_prefix [77; 90] l && (64 <=? zlen l) && at_off (le_dec (zslice 60 64 l)) [80; 69; 0; 0] l.
(* [MS-CFB] 2.2: header signature D0 CF 11 E0 A1 B1 1A E1 *)
Definition spec_cfb (l : bytes) : bool := is_prefix [208; 207; 17; 224; 161; 177; 26; 225] l.
(* [MS-CAB]: signature "MSCF" *)
Definition spec_cab (l : bytes) : bool := is_prefix [77; 83; 67; 70] l.
(* ClickOnce / side-by-side manifests: the document element is <assembly> or <asmv1:assembly> of urn:schemas-microsoft-com:asm.v1;
   "near the start" is taken as: its start tag begins within the first 4096 bytes *)
Definition spec_manifest (l : bytes) : bool :=
  bytes_contains (ztake 4096 l) [60; 97; 115; 115; 101; 109; 98; 108; 121] ||
  bytes_contains (ztake 4096 l) [60; 97; 115; 109; 118; 49; 58; 97; 115; 115; 101; 109; 98; 108; 121].
(* <mach-o/loader.h>: MH_MAGIC FEEDFACE / MH_MAGIC_64 FEEDFACF, stored in the byte order of the target; <mach-o/fat.h>: FAT_MAGIC
   CAFEBABE big-endian followed by nfat_arch; the Java class file format has the same first four bytes followed by minor and major
   version (major >= 45), the customary discriminator (file(1)) is the value of the second word *)
Definition spec_macho (l : bytes) : bool :=
  is_prefix [207; 250; 237; 254] l || is_prefix [206; 250; 237; 254] l || is_prefix [254; 237; 250; 207] l || is_prefix [254; 237; 250; 206] l.
Definition spec_fat (l : bytes) : bool := is_prefix [202; 254; 186; 190] l && (8 <=? zlen l) && (be_dec (zslice 4 8 l) <=? 30).
Definition spec_java (l : bytes) : bool := is_prefix [202; 254; 186; 190] l && (8 <=? zlen l) && (30 <? be_dec (zslice 4 8 l)).
(* xar: header magic "xar!" *)
Definition spec_xar (l : bytes) : bool := is_prefix [120; 97; 114; 33] l.

Definition spec_table : list (Z * (bytes -> bool)) :=
  [(S_RPM, spec_rpm); (S_DEB, spec_deb); (S_PGP_ARMOR, spec_pgp_armor); (S_CAT, spec_cat); (S_PKCS7, spec_pkcs7); (S_TAR, spec_tar);
   (S_PE, spec_pe); (S_CFB, spec_cfb); (S_CAB, spec_cab); (S_MANIFEST, spec_manifest); (S_MACHO, spec_macho); (S_FAT, spec_fat);
   (S_JAVA, spec_java); (S_XAR, spec_xar); (S_PGP_BIN, spec_pgp_bin)].
Definition spec_matches (l : bytes) : list Z := map fst (filter (fun e => snd e l) spec_table).

(* ---- relic's per-type tests, written by hand with literal constants (tied to the generated decision list by the theorem
   magic_detect_eq_ref); rel_* l is "the clause of type * fires on l, order ignored" *)
Definition in256 (p l : bytes) : bool := bytes_contains (ztake 256 l) p.
Definition rel_rpm (l : bytes) : bool := is_prefix [237; 171; 238; 219] l.
Definition rel_deb (l : bytes) : bool := is_prefix [33; 60; 97; 114; 99; 104; 62; 10; 100; 101; 98; 105; 97; 110] l.
Definition rel_pgp_armor (l : bytes) : bool := is_prefix [45; 45; 45; 45; 45; 66; 69; 71; 73; 78; 32; 80; 71; 80] l.
Definition rel_cat (l : bytes) : bool := in256 (6 :: 9 :: OID_CTL) l.
Definition rel_pkcs7 (l : bytes) : bool := in256 (6 :: 9 :: OID_SIGNED_DATA) l.
Definition rel_tar (l : bytes) : bool := at_off 257 [117; 115; 116; 97; 114] l.
Definition rel_mz (l : bytes) : bool := is_prefix [77; 90] l.
Definition pe_core (l : bytes) : bool :=
  (62 <=? zlen l) && let e := le_dec (zslice 60 62 l) in (e + 4 <=? 4096) && at_off e [80; 69; 0; 0] l.
Definition rel_pe (l : bytes) : bool := rel_mz l && pe_core l.
Definition rel_cfb (l : bytes) : bool := is_prefix [208; 207] l.
Definition rel_cab (l : bytes) : bool := is_prefix [77; 83; 67; 70] l.
Definition rel_manifest (l : bytes) : bool := in256 [60; 97; 115; 115; 101; 109; 98; 108; 121] l || in256 [58; 97; 115; 115; 101; 109; 98; 108; 121] l.
Definition rel_macho (l : bytes) : bool := is_prefix [207; 250; 237; 254] l || is_prefix [206; 250; 237; 254] l.
Definition rel_fat (l : bytes) : bool := is_prefix [202; 254; 186; 190] l.
Definition rel_xar (l : bytes) : bool := is_prefix [120; 97; 114; 33] l.
Definition rel_pgp_bin (l : bytes) : bool := is_prefix [137] l || is_prefix [194] l || is_prefix [196] l.
(* the reference cascade: relic's ORDER *)
Definition detect_ref (l : bytes) : Z :=
  if rel_rpm l then 1 else if rel_deb l then 2 else if rel_pgp_armor l then 3
  else if rel_cat l then 10 else if rel_pkcs7 l then 5 else if rel_tar l then 0
  else if rel_mz l then (if rel_pe l then 6 else 0)
  else if rel_cfb l then 7 else if rel_cab l then 8 else if rel_manifest l then 9
  else if rel_macho l then 15 else if rel_fat l then 16 else if rel_xar l then 18
  else if rel_pgp_bin l then 3 else 0.
(* a catalog is a SignedData as well: relic answers PKCS7 only when the catalog test has not fired (nested formats, resolved by ORDER) *)
Definition rel_pkcs7_only (l : bytes) : bool := rel_pkcs7 l && negb (rel_cat l).
Definition rel_table : list (Z * (bytes -> bool)) :=
  [(S_RPM, rel_rpm); (S_DEB, rel_deb); (S_PGP_ARMOR, rel_pgp_armor); (S_CAT, rel_cat); (S_PKCS7, rel_pkcs7_only); (S_TAR, rel_tar);
   (S_PE, rel_pe); (S_CFB, rel_cfb); (S_CAB, rel_cab); (S_MANIFEST, rel_manifest); (S_MACHO, rel_macho); (S_FAT, rel_fat);
   (S_JAVA, fun _ => false); (S_XAR, rel_xar); (S_PGP_BIN, rel_pgp_bin)].
(* the input is free of quirks: for every type, relic's test says what the published magic says, and an "MZ" file is a PE file *)
Fixpoint agree_tables (s r : list (Z * (bytes -> bool))) (l : bytes) : bool :=
  match s, r with
  | (_, f) :: s', (_, g) :: r' => Bool.eqb (f l) (g l) && agree_tables s' r' l
  | [], [] => true
  | _, _ => false
  end.
Definition quirk_free (l : bytes) : bool := agree_tables spec_table rel_table l && (negb (rel_mz l) || rel_pe l).

(* ---- ZIP family, from the member names as stored (no normalisation): the manifest that defines the package type *)
Definition N_ANDROID : bytes := [65; 110; 100; 114; 111; 105; 100; 77; 97; 110; 105; 102; 101; 115; 116; 46; 120; 109; 108].
Definition N_XAP : bytes := [65; 112; 112; 77; 97; 110; 105; 102; 101; 115; 116; 46; 120; 97; 109; 108].
Definition N_APPX : bytes := [65; 112; 112; 120; 77; 97; 110; 105; 102; 101; 115; 116; 46; 120; 109; 108].
Definition N_BUNDLE : bytes := [65; 112; 112; 120; 77; 101; 116; 97; 100; 97; 116; 97; 47; 65; 112; 112; 120; 66; 117; 110; 100; 108; 101; 77; 97; 110; 105; 102; 101; 115; 116; 46; 120; 109; 108].
Definition N_VSIX : bytes := [101; 120; 116; 101; 110; 115; 105; 111; 110; 46; 118; 115; 105; 120; 109; 97; 110; 105; 102; 101; 115; 116].
Definition N_JAR : bytes := [77; 69; 84; 65; 45; 73; 78; 70; 47; 77; 65; 78; 73; 70; 69; 83; 84; 46; 77; 70].
Definition N_PAYLOAD : bytes := [80; 97; 121; 108; 111; 97; 100; 47].                        (* "Payload/" *)
Definition N_APP_PLIST : bytes := [46; 97; 112; 112; 47; 73; 110; 102; 111; 46; 112; 108; 105; 115; 116].   (* ".app/Info.plist" *)
Definition has_name (n : bytes) (names : list bytes) : bool := existsb (bytes_eqb n) names.
(* iOS application archive: Payload/<name>.app/Info.plist *)
Definition is_ipa_plist (n : bytes) : bool :=
  has_prefix n N_PAYLOAD && has_suffix n N_APP_PLIST && negb (existsb (Z.eqb SLASH) (zslice 8 (zlen n - 15) n)).
Definition spec_zip (names : list bytes) : list Z :=
  (if has_name N_ANDROID names then [S_APK] else []) ++ (if has_name N_XAP names then [S_XAP] else []) ++
  (if has_name N_APPX names || has_name N_BUNDLE names then [S_APPX] else []) ++ (if has_name N_VSIX names then [S_VSIX] else []) ++
  (if existsb is_ipa_plist names then [S_IPA] else []).
(* a JAR is a ZIP with META-INF/MANIFEST.MF that is none of the more specific package types *)
Definition spec_zip_type (names : list bytes) : option Z :=
  match spec_zip names with
  | [t] => Some t
  | [] => if has_name N_JAR names then Some S_JAR else Some 0
  | _ => None           (* several specific manifests: not a well-formed package of any one type *)
  end.
(* a member name in the form every ZIP writer of these ecosystems produces: relative, no empty, "." or ".." components, no trailing "/" *)
Definition plain_name (n : bytes) : bool :=
  negb (bytes_eqb n []) && forallb (fun c => negb (bytes_eqb c []) && negb (is_dot c) && negb (is_dotdot c)) (split_slash n).
