(* FmtMAGIC/ProofsZip.v — lib/magic.detectZip on member names: only "trigger" members matter; the names relic's ZIP-family signers
   add are not triggers (for every key alias / part name); ordering witnesses. *)
From Relic Require Import Base.Prelude Base.Enc FmtMAGIC.Lib Generated.FmtMAGIC_gen FmtMAGIC.Model FmtMAGIC.ProofsLib.

Definition neutral (n : bytes) : bool := match zip_member_action n with ZNone => true | _ => false end.
Definition triggers (names : list bytes) : list bytes := filter (fun n => negb (neutral n)) names.

Lemma zip_loop_filter names j : zip_loop names j = zip_loop (triggers names) j.
Proof.
  revert j; induction names as [|n r IH]; intros j; [reflexivity|].
  unfold triggers. cbn [zip_loop filter]. unfold neutral. destruct (zip_member_action n) eqn:E; cbn [negb zip_loop]; rewrite ?E; try reflexivity; apply IH.
Qed.
(* two archives with the same trigger members in the same order have the same type: members that are not triggers can be added,
   removed, renamed or moved freely *)
Theorem zip_only_triggers a b : triggers a = triggers b -> zip_detect (Some a) = zip_detect (Some b).
Proof. intros H. cbn [zip_detect]. rewrite (zip_loop_filter a), (zip_loop_filter b), H. reflexivity. Qed.

(* ---------------------------------------------------------------- suffixes *)
Lemma has_suffix_app y c : has_suffix (y ++ c) c = true.
Proof. unfold has_suffix. rewrite rev_app_distr. apply is_prefix_refl_app. Qed.
Lemma has_suffix_trans m c s : has_suffix m c = true -> has_suffix c s = true -> has_suffix m s = true.
Proof.
  unfold has_suffix. intros H1 H2. apply is_prefix_iff in H1 as [r1 E1]. apply is_prefix_iff in H2 as [r2 E2].
  apply is_prefix_iff. exists (r2 ++ r1). rewrite E1, E2, app_assoc. reflexivity.
Qed.
Lemma has_suffix_comparable m a b : has_suffix m a = true -> has_suffix m b = true -> has_suffix a b || has_suffix b a = true.
Proof. unfold has_suffix. intros H1 H2. rewrite orb_comm. exact (is_prefix_comparable _ _ _ H1 H2). Qed.
Lemma has_suffix_eq k s : has_suffix k s = false -> forall m, has_suffix m s = true -> m <> k.
Proof. intros H m Hm E. subst. congruence. Qed.

(* a suffix no trigger name ends with, and that is not comparable with any trigger suffix *)
Definition sfx_safe (s : bytes) : bool :=
  forallb (fun e => negb (has_suffix (fst e) s)) magic_zip_exact &&
  forallb (fun e => negb (has_suffix (fst e) s || has_suffix s (fst e))) magic_zip_suffix.
Lemma lookup_exact_none tbl m s : forallb (fun e : bytes * Z => negb (has_suffix (fst e) s)) tbl = true -> has_suffix m s = true -> lookup_exact tbl m = None.
Proof.
  intros H Hm. induction tbl as [|[k v] r IH]; [reflexivity|]. cbn [forallb fst] in H. apply andb_true_iff in H as [Hk Hr].
  cbn [lookup_exact]. destruct (bytes_eqb m k) eqn:E; [|exact (IH Hr)].
  apply bytes_eqb_eq in E. subst. rewrite Hm in Hk. discriminate.
Qed.
Lemma lookup_suffix_none tbl m s : forallb (fun e : bytes * Z => negb (has_suffix (fst e) s || has_suffix s (fst e))) tbl = true -> has_suffix m s = true -> lookup_suffix tbl m = None.
Proof.
  intros H Hm. induction tbl as [|[k v] r IH]; [reflexivity|]. cbn [forallb fst] in H. apply andb_true_iff in H as [Hk Hr].
  cbn [lookup_suffix]. destruct (has_suffix m k) eqn:E; [|exact (IH Hr)].
  rewrite (has_suffix_comparable m k s E Hm) in Hk. discriminate.
Qed.
Lemma neutral_by_suffix n s : sfx_safe s = true -> has_suffix (zip_norm n) s = true -> neutral n = true.
Proof.
  unfold sfx_safe, neutral, zip_member_action. intros H Hs. apply andb_true_iff in H as [H1 H2].
  rewrite (lookup_exact_none _ _ _ H1 Hs), (lookup_suffix_none _ _ _ H2 Hs). reflexivity.
Qed.

(* ---------------------------------------------------------------- path.Clean keeps a regular last component *)
Definition no_slash (c : bytes) : Prop := ~ In SLASH c.
Definition regular (c : bytes) : Prop := c <> [] /\ is_dot c = false /\ is_dotdot c = false.
Lemma split_aux_noslash c cur : no_slash c -> split_slash_aux c cur = [rev cur ++ c].
Proof.
  revert cur; induction c as [|x c IH]; intros cur H; cbn [split_slash_aux]; [rewrite app_nil_r; reflexivity|].
  destruct (x =? SLASH) eqn:E; [apply Z.eqb_eq in E; subst; exfalso; apply H; left; reflexivity|].
  rewrite IH by (intros Hin; apply H; right; exact Hin). cbn [rev]. rewrite <- app_assoc. reflexivity.
Qed.
Lemma split_aux_snoc pre c cur : no_slash c -> split_slash_aux (pre ++ SLASH :: c) cur = split_slash_aux pre cur ++ [c].
Proof.
  intros Hc. revert cur; induction pre as [|x pre IH]; intros cur; cbn [app split_slash_aux].
  - rewrite Z.eqb_refl. rewrite (split_aux_noslash c [] Hc). reflexivity.
  - destruct (x =? SLASH); [rewrite IH; reflexivity|apply IH].
Qed.
Lemma clean_comps_snoc cs c st : regular c -> exists st', clean_comps (cs ++ [c]) st = rev st' ++ [c].
Proof.
  intros [Hne [Hd Hdd]]. revert st; induction cs as [|x cs IH]; intros st.
  - cbn [app clean_comps]. destruct c as [|c0 c']; [contradiction|]. rewrite Hd, Hdd. cbn [clean_comps rev]. exists st. reflexivity.
  - cbn [app clean_comps]. destruct x as [|x0 x']; [apply IH|].
    destruct (is_dot (x0 :: x')); [apply IH|]. destruct (is_dotdot (x0 :: x')); [|apply IH].
    destruct st as [|top below]; [apply IH|]. destruct (is_dotdot top); apply IH.
Qed.
Lemma has_suffix_app_l p m c : has_suffix m c = true -> has_suffix (p ++ m) c = true.
Proof.
  unfold has_suffix. intros H. apply is_prefix_iff in H as [r Hr]. rewrite rev_app_distr, Hr, <- app_assoc. apply is_prefix_refl_app.
Qed.
Lemma join_cons2 x y ys : join_slash (x :: y :: ys) = (x ++ [SLASH]) ++ join_slash (y :: ys).
Proof. cbn [join_slash]. rewrite <- app_assoc. reflexivity. Qed.
Lemma join_snoc xs c : has_suffix (join_slash (xs ++ [c])) c = true.
Proof.
  induction xs as [|x xs IH]; [cbn [app join_slash]; apply (has_suffix_app [] c)|].
  cbn [app]. destruct (xs ++ [c]) as [|y ys] eqn:E; [destruct xs; discriminate|].
  rewrite join_cons2. apply has_suffix_app_l. exact IH.
Qed.
Theorem clean_keeps_last pre c : no_slash c -> regular c -> has_suffix (path_clean_rel (pre ++ SLASH :: c)) c = true.
Proof.
  intros Hs Hr. unfold path_clean_rel, split_slash. rewrite split_aux_snoc by exact Hs.
  destruct (clean_comps_snoc (split_slash_aux pre []) c [] Hr) as [st' ->].
  destruct (rev st' ++ [c]) as [|y ys] eqn:E; [destruct (rev st'); discriminate|]. rewrite <- E. apply join_snoc.
Qed.

(* a name  dir "/" x sfx  with a slash-free x and a suffix sfx of at least three bytes without "/" *)
Lemma regular_with_suffix x s : 3 <= zlen s -> regular (x ++ s).
Proof.
  intros H. assert (Hl : 3 <= zlen (x ++ s)) by (rewrite zlen_app; pose proof (zlen_nonneg x); lia).
  destruct (x ++ s) as [|a [|b [|c r]]]; [exfalso; unfold zlen in Hl; cbn [length] in Hl; lia ..|].
  unfold regular. split; [discriminate|]. split; reflexivity.
Qed.
Theorem added_name_neutral dir x s : sfx_safe s = true -> 3 <= zlen s -> no_slash x -> no_slash s ->
  has_prefix (dir ++ SLASH :: x ++ s) magic_zip_abs_prefix = false -> neutral (dir ++ SLASH :: x ++ s) = true.
Proof.
  intros Hsafe Hlen Hx Hs Habs. apply (neutral_by_suffix _ s Hsafe). unfold zip_norm. rewrite Habs.
  change magic_zip_cleans with true. cbv iota.
  apply (has_suffix_trans _ (x ++ s)); [|apply has_suffix_app].
  apply clean_keeps_last; [|apply regular_with_suffix; exact Hlen].
  intros Hin. apply in_app_or in Hin as [Hin|Hin]; [exact (Hx Hin)|exact (Hs Hin)].
Qed.

(* ---------------------------------------------------------------- normal form of the loop: the first member with a returning rule decides;
   otherwise JAR if any member is the JAR manifest *)
Fixpoint first_ret (names : list bytes) : option Z :=
  match names with [] => None | n :: r => match zip_member_action n with ZRet t => Some t | _ => first_ret r end end.
Definition has_jar (names : list bytes) : bool := existsb (fun n => match zip_member_action n with ZJar => true | _ => false end) names.
Lemma zip_loop_normal names j :
  zip_loop names j = match first_ret names with Some t => t | None => if j || has_jar names then magic_zip_deferred_type else magic_zip_default end.
Proof.
  revert j; induction names as [|n r IH]; intros j; cbn [zip_loop first_ret has_jar existsb]; [rewrite orb_false_r; reflexivity|].
  destruct (zip_member_action n); [reflexivity| |]; rewrite IH; unfold has_jar; [rewrite orb_true_r|]; reflexivity.
Qed.
(* where the JAR manifest sits, and how many there are, does not matter *)
Theorem zip_detect_normal a b : first_ret a = first_ret b -> has_jar a = has_jar b -> zip_detect (Some a) = zip_detect (Some b).
Proof. intros H1 H2. cbn [zip_detect]. rewrite !zip_loop_normal, H1, H2. reflexivity. Qed.
Lemma first_ret_neutral_app a x : Forall (fun n => neutral n = true) x -> first_ret (a ++ x) = first_ret a /\ has_jar (a ++ x) = has_jar a.
Proof.
  intros Hx. induction a as [|n r [IH1 IH2]].
  - cbn [app]. induction Hx as [|y ys Hy _ [IHa IHb]]; [split; reflexivity|].
    unfold neutral in Hy. cbn [first_ret has_jar existsb]. destruct (zip_member_action y); try discriminate. split; [exact IHa|exact IHb].
  - cbn [app first_ret has_jar existsb]. unfold has_jar in IH2. rewrite IH1, IH2. split; reflexivity.
Qed.

(* ---------------------------------------------------------------- detectZip vs the manifest that defines the package type *)
Definition normalised (names : list bytes) : Prop := forall n, In n names -> zip_norm n = n.
(* the only members ending in .app/Info.plist or .app/Contents/Info.plist are Payload/<x>.app/Info.plist *)
Definition ipa_strict (names : list bytes) : Prop := forall n, In n names -> lookup_suffix magic_zip_suffix n <> None -> is_ipa_plist n = true.

Lemma has_name_in n names : In n names -> has_name n names = true.
Proof. intros H. unfold has_name. apply existsb_exists. exists n. split; [exact H|apply bytes_eqb_refl]. Qed.
Lemma has_name_out n names : has_name n names = true -> In n names.
Proof. unfold has_name. intros H. apply existsb_exists in H as [x [Hx E]]. apply bytes_eqb_eq in E. subst. exact Hx. Qed.
Lemma in_spec_apk names : has_name N_ANDROID names = true -> In S_APK (spec_zip names).
Proof. intros H. unfold spec_zip. rewrite H. left. reflexivity. Qed.
Lemma in_spec_xap names : has_name N_XAP names = true -> In S_XAP (spec_zip names).
Proof. intros H. unfold spec_zip. apply in_or_app. right. rewrite H. left. reflexivity. Qed.
Lemma in_spec_appx names : has_name N_APPX names || has_name N_BUNDLE names = true -> In S_APPX (spec_zip names).
Proof. intros H. unfold spec_zip. apply in_or_app. right. apply in_or_app. right. rewrite H. left. reflexivity. Qed.
Lemma in_spec_vsix names : has_name N_VSIX names = true -> In S_VSIX (spec_zip names).
Proof. intros H. unfold spec_zip. do 3 (apply in_or_app; right). rewrite H. left. reflexivity. Qed.
Lemma in_spec_ipa names : existsb is_ipa_plist names = true -> In S_IPA (spec_zip names).
Proof. intros H. unfold spec_zip. do 4 (apply in_or_app; right). rewrite H. left. reflexivity. Qed.

Lemma action_spec names n : normalised names -> ipa_strict names -> In n names ->
  match zip_member_action n with ZRet t => In t (spec_zip names) | ZJar => n = N_JAR | ZNone => True end.
Proof.
  intros Hn Hi Hin. unfold zip_member_action. rewrite (Hn n Hin). unfold magic_zip_exact. cbn [lookup_exact].
  destruct (bytes_eqb n N_ANDROID) eqn:E1; [apply bytes_eqb_eq in E1; subst; cbn; apply in_spec_apk, has_name_in, Hin|]. fold N_ANDROID in E1. change (bytes_eqb n [65; 110; 100; 114; 111; 105; 100; 77; 97; 110; 105; 102; 101; 115; 116; 46; 120; 109; 108]) with (bytes_eqb n N_ANDROID). rewrite E1.
  destruct (bytes_eqb n N_XAP) eqn:E2; [apply bytes_eqb_eq in E2; subst; cbn; apply in_spec_xap, has_name_in, Hin|]. change (bytes_eqb n [65; 112; 112; 77; 97; 110; 105; 102; 101; 115; 116; 46; 120; 97; 109; 108]) with (bytes_eqb n N_XAP). rewrite E2.
  destruct (bytes_eqb n N_APPX) eqn:E3; [apply bytes_eqb_eq in E3; subst; cbn; apply in_spec_appx; rewrite (has_name_in _ _ Hin); reflexivity|]. change (bytes_eqb n [65; 112; 112; 120; 77; 97; 110; 105; 102; 101; 115; 116; 46; 120; 109; 108]) with (bytes_eqb n N_APPX). rewrite E3.
  destruct (bytes_eqb n N_BUNDLE) eqn:E4; [apply bytes_eqb_eq in E4; subst; cbn; apply in_spec_appx; rewrite (has_name_in _ _ Hin); apply orb_true_r|]. change (bytes_eqb n [65; 112; 112; 120; 77; 101; 116; 97; 100; 97; 116; 97; 47; 65; 112; 112; 120; 66; 117; 110; 100; 108; 101; 77; 97; 110; 105; 102; 101; 115; 116; 46; 120; 109; 108]) with (bytes_eqb n N_BUNDLE). rewrite E4.
  destruct (bytes_eqb n N_VSIX) eqn:E5; [apply bytes_eqb_eq in E5; subst; cbn; apply in_spec_vsix, has_name_in, Hin|]. change (bytes_eqb n [101; 120; 116; 101; 110; 115; 105; 111; 110; 46; 118; 115; 105; 120; 109; 97; 110; 105; 102; 101; 115; 116]) with (bytes_eqb n N_VSIX). rewrite E5.
  destruct (bytes_eqb n N_JAR) eqn:E6; [apply bytes_eqb_eq in E6; subst; cbn; reflexivity|]. change (bytes_eqb n [77; 69; 84; 65; 45; 73; 78; 70; 47; 77; 65; 78; 73; 70; 69; 83; 84; 46; 77; 70]) with (bytes_eqb n N_JAR). rewrite E6.
  pose proof (Hi n Hin) as Hs. unfold magic_zip_suffix in *. cbn [lookup_suffix] in *.
  destruct (has_suffix n [46; 97; 112; 112; 47; 73; 110; 102; 111; 46; 112; 108; 105; 115; 116]).
  { apply in_spec_ipa. apply existsb_exists. exists n. split; [exact Hin|apply Hs; discriminate]. }
  destruct (has_suffix n [46; 97; 112; 112; 47; 67; 111; 110; 116; 101; 110; 116; 115; 47; 73; 110; 102; 111; 46; 112; 108; 105; 115; 116]); [|exact I].
  apply in_spec_ipa. apply existsb_exists. exists n. split; [exact Hin|apply Hs; discriminate].
Qed.

Lemma first_ret_none names : (forall n t, In n names -> zip_member_action n <> ZRet t) -> first_ret names = None.
Proof.
  induction names as [|n r IH]; intros H; [reflexivity|]. cbn [first_ret].
  destruct (zip_member_action n) eqn:E; [exfalso; apply (H n t); [left; reflexivity|exact E]| |]; apply IH; intros m t' Hm; apply H; right; exact Hm.
Qed.
Lemma first_ret_some names s : (exists n t, In n names /\ zip_member_action n = ZRet t) ->
  (forall n t, In n names -> zip_member_action n = ZRet t -> t = s) -> first_ret names = Some s.
Proof.
  induction names as [|n r IH]; intros [m [t [Hin Hm]]] Hall; [contradiction|]. cbn [first_ret].
  destruct (zip_member_action n) eqn:E.
  - f_equal. apply (Hall n t0); [left; reflexivity|exact E].
  - apply IH; [destruct Hin as [->|Hin]; [congruence|exists m, t; split; assumption]|intros k t' Hk; apply Hall; right; exact Hk].
  - apply IH; [destruct Hin as [->|Hin]; [congruence|exists m, t; split; assumption]|intros k t' Hk; apply Hall; right; exact Hk].
Qed.
Lemma ipa_plist_action n : zip_norm n = n -> is_ipa_plist n = true -> zip_member_action n = ZRet 17.
Proof.
  intros Hn H. unfold is_ipa_plist in H. apply andb_true_iff in H as [H _]. apply andb_true_iff in H as [Hp Hs].
  unfold zip_member_action. rewrite Hn.
  assert (Hex : lookup_exact magic_zip_exact n = None).
  { unfold magic_zip_exact. cbn [lookup_exact].
    repeat match goal with |- context [bytes_eqb n ?k] => let E := fresh "E" in destruct (bytes_eqb n k) eqn:E; [apply bytes_eqb_eq in E; subst n; vm_compute in Hp; discriminate Hp|] end.
    reflexivity. }
  rewrite Hex. unfold magic_zip_suffix. cbn [lookup_suffix]. unfold N_APP_PLIST in Hs. rewrite Hs. reflexivity.
Qed.

Theorem zip_eq_spec names t : normalised names -> ipa_strict names -> spec_zip_type names = Some t -> zip_detect (Some names) = t.
Proof.
  intros Hn Hi Hs. cbn [zip_detect]. rewrite zip_loop_normal. cbn [orb].
  pose proof (fun n Hin => action_spec names n Hn Hi Hin) as Hact.
  unfold spec_zip_type in Hs. destruct (spec_zip names) as [|s [|s2 rest]] eqn:Esp; [| |discriminate].
  - (* no specific manifest *)
    rewrite first_ret_none.
    2:{ intros n t' Hin E. specialize (Hact n Hin). rewrite E in Hact. exact Hact. }
    replace (has_jar names) with (has_name N_JAR names).
    { destruct (has_name N_JAR names); injection Hs as <-; reflexivity. }
    destruct (has_name N_JAR names) eqn:Ej; symmetry.
    + apply has_name_out in Ej. unfold has_jar. apply existsb_exists. exists N_JAR. split; [exact Ej|].
      unfold zip_member_action. rewrite (Hn _ Ej). reflexivity.
    + unfold has_jar. destruct (existsb _ names) eqn:Ee; [|reflexivity]. apply existsb_exists in Ee as [n [Hin En]].
      specialize (Hact n Hin). destruct (zip_member_action n); try discriminate. subst n. rewrite (has_name_in _ _ Hin) in Ej. discriminate.
  - (* exactly one specific manifest *)
    injection Hs as <-. rewrite (first_ret_some names s); [reflexivity| |].
    + unfold spec_zip in Esp.
      destruct (has_name N_ANDROID names) eqn:F1; [exists N_ANDROID, 14; apply has_name_out in F1; split; [exact F1|unfold zip_member_action; rewrite (Hn _ F1); reflexivity]|].
      destruct (has_name N_XAP names) eqn:F2; [exists N_XAP, 13; apply has_name_out in F2; split; [exact F2|unfold zip_member_action; rewrite (Hn _ F2); reflexivity]|].
      destruct (has_name N_APPX names) eqn:F3; [exists N_APPX, 11; apply has_name_out in F3; split; [exact F3|unfold zip_member_action; rewrite (Hn _ F3); reflexivity]|].
      destruct (has_name N_BUNDLE names) eqn:F4; [exists N_BUNDLE, 11; apply has_name_out in F4; split; [exact F4|unfold zip_member_action; rewrite (Hn _ F4); reflexivity]|].
      destruct (has_name N_VSIX names) eqn:F5; [exists N_VSIX, 12; apply has_name_out in F5; split; [exact F5|unfold zip_member_action; rewrite (Hn _ F5); reflexivity]|].
      destruct (existsb is_ipa_plist names) eqn:F6; [|discriminate Esp].
      apply existsb_exists in F6 as [n [Hin Hp]]. exists n, 17. split; [exact Hin|apply ipa_plist_action; [apply Hn; exact Hin|exact Hp]].
    + intros n t' Hin E. specialize (Hact n Hin). rewrite E in Hact. destruct Hact as [H|[]]. congruence.
Qed.

(* ---------------------------------------------------------------- plain member names are left alone by the normalisation *)
Lemma split_aux_nonempty l cur : split_slash_aux l cur <> [].
Proof. revert cur; induction l as [|c r IH]; intros cur; cbn [split_slash_aux]; [discriminate|]. destruct (c =? SLASH); [discriminate|apply IH]. Qed.
Lemma join_split_aux l cur : join_slash (split_slash_aux l cur) = rev cur ++ l.
Proof.
  revert cur; induction l as [|c r IH]; intros cur; cbn [split_slash_aux]; [cbn [join_slash]; rewrite app_nil_r; reflexivity|].
  destruct (c =? SLASH) eqn:E.
  - apply Z.eqb_eq in E. subst c. pose proof (split_aux_nonempty r []) as Hne. specialize (IH []).
    destruct (split_slash_aux r []) as [|y ys]; [contradiction|]. rewrite join_cons2, IH. cbn [rev app]. rewrite <- app_assoc. reflexivity.
  - rewrite IH. cbn [rev]. rewrite <- app_assoc. reflexivity.
Qed.
Definition comp_ok (c : bytes) : bool := negb (bytes_eqb c []) && negb (is_dot c) && negb (is_dotdot c).
Lemma clean_comps_regular cs st : forallb comp_ok cs = true -> clean_comps cs st = rev st ++ cs.
Proof.
  revert st; induction cs as [|c r IH]; intros st H; [cbn [clean_comps]; rewrite app_nil_r; reflexivity|].
  cbn [forallb] in H. apply andb_true_iff in H as [Hc Hr]. unfold comp_ok in Hc. apply andb_true_iff in Hc as [Hc Hdd]. apply andb_true_iff in Hc as [Hne Hd].
  cbn [clean_comps]. destruct c as [|c0 c']; [discriminate Hne|].
  destruct (is_dot (c0 :: c')); [discriminate Hd|]. destruct (is_dotdot (c0 :: c')); [discriminate Hdd|].
  rewrite IH by exact Hr. cbn [rev]. rewrite <- app_assoc. reflexivity.
Qed.
Theorem plain_is_normalised n : plain_name n = true -> zip_norm n = n.
Proof.
  unfold plain_name. intros H. apply andb_true_iff in H as [Hne Hall].
  assert (Hall' : forallb comp_ok (split_slash n) = true).
  { rewrite forallb_forall in *. intros c Hc. specialize (Hall c Hc). unfold comp_ok. exact Hall. }
  unfold zip_norm.
  assert (Habs : has_prefix n magic_zip_abs_prefix = false).
  { destruct n as [|c r]; [reflexivity|]. unfold has_prefix, magic_zip_abs_prefix. cbn [is_prefix]. destruct (47 =? c) eqn:E; [|reflexivity].
    apply Z.eqb_eq in E. subst c. unfold split_slash in Hall'. cbn [split_slash_aux] in Hall'. change (47 =? SLASH) with true in Hall'. cbv iota in Hall'. cbn in Hall'. discriminate Hall'. }
  rewrite Habs. change magic_zip_cleans with true. cbv iota. unfold path_clean_rel.
  rewrite clean_comps_regular by exact Hall'. cbn [rev app].
  pose proof (split_aux_nonempty n []) as Hs. unfold split_slash in *. destruct (split_slash_aux n []) as [|y ys] eqn:E; [contradiction|].
  rewrite <- E. rewrite join_split_aux. reflexivity.
Qed.
