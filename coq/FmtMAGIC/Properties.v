(* FmtMAGIC/Properties.v — file type detection (lib/magic) and signer dispatch (signers.By*, `relic sign`, `relic remote sign`,
   `relic verify`, the server's sign handler).  Statements only; every definition prefixed magic_ / signers_ / verify_ / token_ /
   remote_ / server_ / ps_ / dmg_ / jar_ / appx_ / vsix_ is GENERATED from the current Go source (Generated/FmtMAGIC_gen.v).
   detect_bytes / zip_detect / detect_compressed / by_* / by_file / verify_route interpret the generated tables; detect_ref is the
   hand-written reference cascade, spec_* the published magic numbers. *)
From Coq Require Import String.
From Relic Require Import Base.Prelude Base.Enc FmtMAGIC.Lib Generated.FmtMAGIC_gen FmtMAGIC.Model.
From Relic Require FmtMAGIC.ProofsLib FmtMAGIC.ProofsDetect FmtMAGIC.ProofsSpec FmtMAGIC.ProofsZip FmtMAGIC.ProofsDispatch FmtMAGIC.ProofsWit.
Import FmtMAGIC.ProofsDetect FmtMAGIC.ProofsSpec FmtMAGIC.ProofsZip FmtMAGIC.ProofsDispatch FmtMAGIC.ProofsWit.
From Coq Require Import Permutation.

(* ================================================================== C11: Detect on arbitrary bytes *)
(* C11: for EVERY byte string Detect returns one of thirteen answers; no slice or index goes out of range (the PE probe slices
   a Peek result by a 16-bit field of the input: in range because the second Peek must succeed first) *)
Theorem magic_detect_total_no_panic : forall l, all_bytes l = true -> exists t, detect_bytes l = Ok t /\ In t detect_answers.
Proof. exact detect_total_no_panic. Qed.
(* C11: bounded read, for ANY decision list built from the four helpers and the PE probe: two inputs that agree on the first
   magic_detect_bufsize (= bufio's default, 4096) bytes get the same answer, panics included *)
Theorem magic_detect_bounded_peek : forall l l', ztake magic_detect_bufsize l = ztake magic_detect_bufsize l' -> detect_bytes l = detect_bytes l'.
Proof. exact detect_bounded_peek. Qed.

(* ================================================================== C05 / C01: what Detect decides *)
(* the generated, ORDERED decision list (14 clauses, their byte strings and peek sizes, the translated helpers, the PE probe)
   is the reference cascade detect_ref of Model.v *)
Theorem magic_detect_eq_ref : forall l, all_bytes l = true -> detect_bytes l = Ok (detect_ref l).
Proof. exact detect_eq_ref. Qed.
(* where exactly one published magic matches and every per-type test of relic says what the published magic says (quirk_free),
   relic answers that type: on this class the ORDER of the clauses is immaterial *)
Theorem magic_detect_eq_spec : forall l t, spec_matches l = [t] -> quirk_free l = true -> detect_ref l = relic_code t.
Proof. exact detect_eq_spec. Qed.
(* per type: the published magic implies relic's test (equal for RPM, CAB, xar, tar; relic's test is looser for DEB, armored PGP,
   compound files, fat Mach-O, CMS; narrower for Mach-O (little-endian only), binary PGP (three first octets) and PE (e_lfanew + 4
   must fit a 16-bit field and the 4096-byte buffer)) *)
Theorem magic_spec_implies_test : forall l,
  spec_rpm l = rel_rpm l /\ spec_cab l = rel_cab l /\ spec_xar l = rel_xar l /\ spec_tar l = rel_tar l /\
  (spec_deb l = true -> rel_deb l = true) /\ (spec_pgp_armor l = true -> rel_pgp_armor l = true) /\
  (spec_cfb l = true -> rel_cfb l = true) /\ (spec_fat l = true -> rel_fat l = true) /\
  (spec_pkcs7 l = true -> rel_pkcs7 l = true) /\ (spec_cat l = true -> rel_pkcs7 l = true) /\
  (spec_macho l = true -> is_prefix [254; 237; 250] l = false -> rel_macho l = true) /\
  (spec_pgp_bin l = true -> In (hd 0 l) [137; 194; 196] -> rel_pgp_bin l = true) /\
  (all_bytes l = true -> spec_pe l = true -> le_dec (zslice 60 64 l) + 4 <= 4096 -> rel_pe l = true).
Proof.
  intros l. repeat split; [apply spec_deb_implies|apply spec_pgp_armor_implies|apply spec_cfb_implies|apply spec_fat_implies|apply spec_pkcs7_implies|
                           apply spec_cat_implies_pkcs7|apply spec_macho_implies|apply spec_pgp_bin_implies|apply spec_pe_implies].
Qed.
(* no two clauses of Detect (and no clause of DetectCompressed against any clause of Detect) can fire through their byte PREFIX tests
   on the same input: the overlaps are exactly those that involve the floating tests (OIDs / element names anywhere in the first 256
   bytes, "ustar" at 257) and the ZIP member rules *)
Theorem magic_prefix_clauses_disjoint :
  cross_ok (clause_prefixes magic_detect_cases) = true /\
  cross_ok (clause_prefixes (map (fun e => (fst e, RTar)) magic_dc_cases) ++ clause_prefixes magic_detect_cases) = true /\
  forall p q l, is_prefix p l = true -> is_prefix q l = true -> incompatible p q = false.
Proof.
  destruct prefix_clauses_disjoint as [H1 H2]. split; [exact H1|]. split; [exact H2|].
  intros p q l Hp Hq. unfold incompatible. rewrite (FmtMAGIC.ProofsLib.is_prefix_comparable p q l Hp Hq). reflexivity.
Qed.
(* the overlaps and how relic's ORDER resolves them, and the deviations from the published magics, with witnesses:
   PE with e_lfanew = 4093 -> unknown; PE whose DOS stub contains the catalog OID -> CAT; Java class file -> fat Mach-O; D0 CF + anything ->
   MSI; gpg's short signature (first octet 0x88) -> unknown; PNG -> PGP; big-endian Mach-O -> unknown; "MZ" non-PE with <assembly ->
   unknown (the MZ clause swallows it); cabinet with the signedData OID in its header -> PKCS7 *)
Theorem magic_order_resolves_overlaps :
  detect_ref w_pe64 = 6 /\ spec_matches w_pe64 = [S_PE] /\
  detect_ref w_pe_far = 0 /\ spec_matches w_pe_far = [S_PE] /\
  detect_ref w_pe_with_ctl_oid = 10 /\ spec_matches w_pe_with_ctl_oid = [S_PE] /\
  detect_ref w_java = 16 /\ spec_matches w_java = [S_JAVA] /\ detect_ref w_fat = 16 /\ spec_matches w_fat = [S_FAT] /\
  detect_ref w_cfb_2bytes = 7 /\ spec_matches w_cfb_2bytes = [] /\
  detect_ref w_pgp_0x88 = 0 /\ spec_matches w_pgp_0x88 = [S_PGP_BIN] /\
  detect_ref w_png = 3 /\ spec_matches w_png = [] /\
  detect_ref w_macho_be = 0 /\ spec_matches w_macho_be = [S_MACHO] /\
  detect_ref w_mz_assembly = 0 /\ spec_matches w_mz_assembly = [S_MANIFEST] /\
  detect_ref w_cab_with_oid = 5 /\ spec_matches w_cab_with_oid = [S_CAB].
Proof. exact w_examples. Qed.
(* ZIP family: APK beats JAR wherever the manifests sit; between APK / APPX / VSIX / XAP the FIRST member in directory order wins;
   names are normalised first (./x, /x, a/../x and a directory entry x/ all count as x); any member ending in .app/Info.plist makes an IPA *)
Theorem magic_zip_order_resolves_overlaps :
  zip_detect (Some zn_jar) = 4 /\
  zip_detect (Some (zn_jar ++ [bs "AndroidManifest.xml"])) = 14 /\
  zip_detect (Some [bs "AppxManifest.xml"; bs "AndroidManifest.xml"]) = 11 /\
  zip_detect (Some [bs "AndroidManifest.xml"; bs "AppxManifest.xml"]) = 14 /\
  zip_detect (Some [bs "extension.vsixmanifest"; bs "AppManifest.xaml"]) = 12 /\
  zip_detect (Some [bs "AppManifest.xaml"; bs "extension.vsixmanifest"]) = 13 /\
  zip_detect (Some [bs "./AndroidManifest.xml"]) = 14 /\ zip_detect (Some [bs "/AndroidManifest.xml"]) = 14 /\
  zip_detect (Some [bs "x/../AndroidManifest.xml"]) = 14 /\ zip_detect (Some [bs "AndroidManifest.xml/"]) = 14 /\
  zip_detect (Some [bs "res/AndroidManifest.xml"]) = 0 /\ zip_detect (Some [bs "androidmanifest.xml"]) = 0 /\
  zip_detect (Some (zn_jar ++ [bs "docs/sample.app/Info.plist"])) = 17 /\ spec_zip_type (zn_jar ++ [bs "docs/sample.app/Info.plist"]) = Some S_JAR /\
  zip_detect (Some [bs "Payload/Demo.app/Info.plist"]) = 17 /\ spec_zip_type [bs "Payload/Demo.app/Info.plist"] = Some S_IPA /\
  zip_detect (Some []) = 0 /\ zip_detect None = 0.
Proof. exact w_zip_examples. Qed.

(* ZIP family vs the manifest that defines the package type: on archives whose member names are in the plain form every packaging tool
   writes (relative, no empty, "." or ".." component: then the normalisation is the identity), whose only *.app/Info.plist members are
   Payload/<x>.app/Info.plist, and that carry at most one of the specific manifests, detectZip answers the type of that manifest, JAR if there
   is only META-INF/MANIFEST.MF, unknown otherwise — wherever the members sit in the directory *)
Theorem magic_zip_eq_spec : forall names t,
  (forall n, In n names -> plain_name n = true) -> ipa_strict names -> spec_zip_type names = Some t -> zip_detect (Some names) = t.
Proof. intros names t Hp. apply zip_eq_spec. intros n Hin. apply plain_is_normalised. exact (Hp n Hin). Qed.

(* ================================================================== C01 / C03 / C08: the signed output has the type of the input *)
(* byte-prefix formats (FmtPGP, FmtMSI, FmtCAB, FmtMACHO, FmtXAR; RPM, DEB): ANY file that starts with the magic of a clause is
   detected as that clause's type unless an earlier floating test fires; relic's signers never touch the leading magic *)
Theorem magic_stable_under_signing :
  (forall p t g, In (p, t) first_magics -> is_prefix p g = true -> detect_ref g = t) /\
  (forall p t g, In (p, t) mid_magics -> is_prefix p g = true -> rel_cat g = false -> rel_pkcs7 g = false -> rel_tar g = false -> detect_ref g = t) /\
  (forall p t g, In (p, t) late_magics -> is_prefix p g = true -> rel_cat g = false -> rel_pkcs7 g = false -> rel_tar g = false -> rel_manifest g = false -> detect_ref g = t) /\
  first_magics ++ mid_magics ++ late_magics = table_prefixes magic_detect_cases /\ length (table_prefixes magic_detect_cases) = 12%nat.
Proof. split; [exact stable_first|]. split; [exact stable_mid|]. split; [exact stable_late|]. split; reflexivity. Qed.
(* FmtPE: a file g that keeps the bytes of a PE file f up to the end of the PE signature (signing changes the checksum, the certificate
   table entry and appends) is a PE file for Detect, unless one of the three floating tests fires on g *)
Theorem magic_stable_under_signing_pe : forall f g, all_bytes f = true -> rel_mz f = true -> pe_core f = true ->
  (let w := Z.max 62 (le_dec (zslice 60 62 f) + 4) in ztake w g = ztake w f) ->
  rel_cat g = false -> rel_pkcs7 g = false -> rel_tar g = false -> detect_ref g = 6.
Proof.
  intros f g Hb Hmz Hpe Hw H1 H2 H3. destruct (pe_core_kept f g Hb Hpe Hw) as [Hpe' Hmz'].
  apply stable_pe; [rewrite Hmz'; exact Hmz|exact Hpe'|exact H1|exact H2|exact H3].
Qed.
(* ... and the floating tests are a real condition: a PE file whose checksum field lies in the first 256 bytes, next to seven bytes of the
   catalog OID; the same file with another checksum (what signing writes) is a catalog for Detect *)
Theorem magic_pe_checksum_flips_refuted : exists f g,
  detect_ref f = 6 /\ detect_ref g = 10 /\ ztake 152 g = ztake 152 f /\ zdrop 156 g = zdrop 156 f /\ zlen g = zlen f.
Proof. exists w_pe_pre_sign, w_pe_post_sign. exact w_pe_checksum_flips. Qed.
(* FmtPS (signature block appended; module chosen by file name) and every appending signer: bytes appended to a file of at least 262
   bytes that is not an MZ file, to a PE file whose header lies inside the file, or to any file of at least 4096 bytes change nothing *)
Theorem magic_stable_under_append :
  (forall f x, 262 <= zlen f -> rel_mz f = false -> detect_ref (f ++ x) = detect_ref f) /\
  (forall f x, all_bytes f = true -> 262 <= zlen f -> rel_mz f = true -> pe_core f = true -> detect_ref (f ++ x) = detect_ref f) /\
  (forall f x, magic_detect_bufsize <= zlen f -> detect_bytes (f ++ x) = detect_bytes f).
Proof. split; [exact stable_append_nonmz|]. split; [exact stable_append_pe|exact stable_append_long]. Qed.
(* C02: ... but a SHORT file can be re-routed by an appended tail: a 62-byte binary PGP signature followed by bytes containing the
   signedData OID is a PKCS#7 file for Detect *)
Theorem magic_append_flips_short_refuted : exists f x, detect_ref f = 3 /\ detect_ref (f ++ x) = 5 /\ zlen f = 62.
Proof. exists w_short_pgp, w_tail_with_oid. exact w_append_flips_short. Qed.

(* ZIP family (FmtJAR, FmtAPK, FmtAPPX, FmtVSIX; XAP appends a trailer and changes no member): the type is a function of the first
   member with a returning rule and of whether some member is the JAR manifest; members that trigger no rule can be added, removed,
   renamed, moved *)
Theorem magic_zip_only_triggers : forall a b,
  (triggers a = triggers b -> zip_detect (Some a) = zip_detect (Some b)) /\
  (first_ret a = first_ret b -> has_jar a = has_jar b -> zip_detect (Some a) = zip_detect (Some b)).
Proof. intros a b. split; [apply zip_only_triggers|apply zip_detect_normal]. Qed.
(* every member name relic's signers add triggers no rule — for EVERY key alias (JAR, APK v1: META-INF/<ALIAS>.SF / .RSA / .EC / .SIG,
   literals taken from lib/signjar.sigNames) and every signature part name (VSIX); the fixed names of APPX and VSIX by computation;
   the JAR manifest the signer rewrites is the JAR rule itself *)
Theorem magic_stable_under_signing_zip :
  (forall alias s, In s jar_sig_suffixes -> no_slash alias -> neutral (jar_metaInf ++ alias ++ s) = true) /\
  neutral jar_metaInf = true /\ zip_member_action jar_manifestName = ZJar /\
  (forall g, no_slash g -> neutral (vsix_xmlSigPath ++ SLASH :: g ++ SFX_PSDSXS) = true /\
                           neutral (vsix_xmlSigPath ++ bs "/_rels" ++ SLASH :: g ++ bs ".psdsxs.rels") = true) /\
  forallb neutral [appx_appxSignature; appx_appxCodeIntegrity; appx_appxBlockMap; appx_appxContentTypes;
                   vsix_contentTypesPath; vsix_originPath; vsix_rootRelsPath ++ bs "/.rels"; vsix_digSigPath ++ bs "/_rels/origin.psdor.rels"] = true /\
  (forall names added, Forall (fun n => neutral n = true) added -> zip_detect (Some (names ++ added)) = zip_detect (Some names)).
Proof.
  split; [exact jar_added_names_neutral|]. destruct jar_fixed_names as [J1 J2]. split; [exact J1|]. split; [exact J2|].
  split; [exact vsix_added_names_neutral|]. split; [exact fixed_added_names_neutral|].
  intros names added H. destruct (first_ret_neutral_app names added H) as [H1 H2]. apply zip_detect_normal; assumption.
Qed.
(* C02: ... while ONE added member re-routes the archive: a (signed) JAR plus a member AndroidManifest.xml is an APK for relic *)
Theorem magic_zip_added_member_flips_refuted : exists names n, zip_detect (Some names) = 4 /\ zip_detect (Some (names ++ [n])) = 14.
Proof. exists zn_jar, (bs "AndroidManifest.xml"). destruct w_zip_examples as [H1 [H2 _]]. split; assumption. Qed.

(* ================================================================== C01: dispatch *)
(* the Magic fields of the registered modules are pairwise different, names and aliases are pairwise different, the set of Magic
   values IS the set of types Detect / detectZip can answer (no type without a module, no module that can never be chosen), and the
   FileType enumeration has no further member *)
Theorem magic_dispatch_consistent :
  nodup_z nonzero_magics = true /\ nodup_b all_names = true /\
  subset_z detect_types nonzero_magics = true /\ subset_z nonzero_magics detect_types = true /\
  Z.of_nat (length (nodup Z.eq_dec (0 :: nonzero_magics))) = magic_FileType_count /\
  forall m, In m signers_table ->
    by_name (m_name m) = Some m /\ (forall a, In a (m_aliases m) -> by_name a = Some m) /\ (m_magic m <> 0 -> by_magic (m_magic m) = Some m) /\
    server_route (m_name m) = (if token_sign_refuses_verify_only (m_has_sign m) then Refused E_NO_SIGNER else Chosen m).
Proof.
  destruct table_facts as [A [B [C [D E]]]]. split; [exact A|]. split; [exact B|]. split; [exact C|]. split; [exact D|]. split; [exact E|].
  exact table_self_lookup.
Qed.
(* ByMagic and ByName do not depend on the order in which the modules' init functions ran *)
Theorem magic_lookup_order_independent : forall tbl',
  Permutation signers_table tbl' ->
  (forall m, m <> 0 -> by_magic_in signers_table m = by_magic_in tbl' m) /\ (forall n, by_name_in signers_table n = by_name_in tbl' n).
Proof.
  intros tbl' P. split; [intros m Hm; apply by_magic_order_independent; [exact table_unique_magic|exact P|exact Hm]|
                         intros n; apply by_name_order_independent; [exact table_unique_names|exact P]].
Qed.
(* without -T, `relic sign` / `relic remote sign` and `relic verify` choose the same module for the same content and name;
   signing refuses compressed input, verifying accepts it exactly for modules with a stream verifier; with -T the content is not looked at;
   the client sends the NAME of the module it chose and the server looks exactly that module up (it never inspects the content);
   the server refuses exactly the (verify-only) types the command line refuses *)
Theorem magic_route_consistent :
  (forall name t, signers_byfile_stdin name = false -> route_mod (by_file [] name true (Ok (t, 0))) = vroute_mod (verify_route name (Ok (t, 0)))) /\
  (forall name t c, signers_byfile_stdin name = false -> c <> 0 -> by_file [] name true (Ok (t, c)) = Refused E_COMPRESSED) /\
  (forall name t c, c <> 0 -> verify_route name (Ok (t, c)) =
     match (match by_magic t with Some m => Some m | None => by_filename name end) with
     | None => VRefused E_UNKNOWN | Some m => if m_has_stream m then VStream m c else VRefused E_COMPRESSED end) /\
  (forall sigtype n1 n2 o1 o2 d1 d2, sigtype <> [] -> by_file sigtype n1 o1 d1 = by_file sigtype n2 o2 d2) /\
  (forall sigtype name o det m, sign_route sigtype name o det = Chosen m -> server_route (m_name m) = Chosen m) /\
  (forall m, In m signers_table -> (exists e, server_route (m_name m) = Refused e) <-> token_sign_refuses_verify_only (m_has_sign m) = true).
Proof.
  split; [exact route_sign_eq_verify|]. split; [exact sign_refuses_compressed|]. split; [exact verify_compressed|]. split; [exact explicit_type_ignores_content|].
  split.
  - intros sigtype name o det m H. destruct (sign_route_can_sign _ _ _ _ _ H) as [Hin Hv].
    destruct (table_self_lookup m Hin) as [_ [_ [_ Hs]]]. rewrite Hs, Hv. reflexivity.
  - intros m Hin. destruct (table_self_lookup m Hin) as [_ [_ [_ Hs]]]. rewrite Hs.
    destruct (token_sign_refuses_verify_only (m_has_sign m)); split; [intros _; reflexivity|intros _; eauto|intros [e He]; discriminate|discriminate].
Qed.
(* the per-module fields: only the pgp module may read standard input; deb, pgp and rpm sign with PGP keys, every other module with X.509;
   mach-o-fat, ipa and pkcs7 are verify-only; `relic sign -f -` is refused without -T, goes to pgp with -T pgp, and is refused for every other
   type; a verify-only type is refused whatever the input *)
Theorem magic_module_fields :
  (map m_name (filter m_stdin signers_table) = [bs "pgp"] /\
   map m_name (filter (fun m => negb (Z.land (m_cert m) signers_CertTypePgp =? 0)) signers_table) = [bs "deb"; bs "pgp"; bs "rpm"] /\
   forallb (fun m => (m_cert m =? signers_CertTypeX509) || (m_cert m =? signers_CertTypePgp)) signers_table = true /\
   map m_name (filter (fun m => negb (m_has_sign m)) signers_table) = [bs "mach-o-fat"; bs "ipa"; bs "pkcs7"] /\
   forallb (fun m => m_has_verify m || m_has_stream m || bytes_eqb (m_name m) (bs "cosign")) signers_table = true) /\
  (forall det, sign_route [] (bs "-") true det = Refused E_STDIN) /\
  (forall det, option_map m_name (route_mod (sign_route (bs "pgp") (bs "-") true det)) = Some (bs "pgp")) /\
  (forall m det, In m signers_table -> m_has_sign m = true -> m_stdin m = false -> sign_route (m_name m) (bs "-") true det = Refused E_NO_STDIN) /\
  (forall m name det, In m signers_table -> m_has_sign m = false -> sign_route (m_name m) name true det = Refused E_VERIFY_ONLY).
Proof. split; [exact module_fields|exact stdin_rules]. Qed.
(* the shapes these models rely on (step list of ByFile, call order of verifyOne, first-match loops, which statements are present) *)
Theorem magic_callers_reviewed :
  signers_byfile_steps = [1; 2; 3; 3; 4; 5; 6; 7; 8] /\ verify_calls = [0; 1; 2; 3; 4; 5; 6] /\
  signers_byname_first_match = true /\ signers_bymagic_first_match = true /\ signers_byfilename_first_match = true /\
  verify_detects_compressed = true /\ verify_by_magic_first = true /\ verify_then_by_filename = true /\ verify_rewinds = true /\ verify_decompresses_for_stream = true /\
  token_sign_uses_byfile = true /\ remote_sign_uses_byfile = true /\ token_sign_probe_same_module = true /\ remote_sign_probe_same_module = true /\
  remote_sign_sends_module_name = true /\ server_sign_reads_sigtype = true /\ server_sign_by_name = true /\ server_sign_sniffs = false /\
  signers_issigned_prefers_stream = true /\ signers_testpath_known = true /\ magic_zip_cleans = true /\
  (forall b, token_sign_refuses_verify_only b = remote_sign_refuses_verify_only b) /\ (forall b, token_sign_refuses_stdin b = remote_sign_refuses_stdin b).
Proof. exact callers_reviewed. Qed.

(* file names: the ps module for exactly the seven PowerShell extensions (as filepath.Ext sees them: last element, last dot,
   CASE-SENSITIVE), the dmg module for names ending in ".dmg", nothing else; the extension table is the documented list *)
Theorem magic_filename_rules :
  (forall path, by_filename path = if is_some (lookup_exact ps_ext_table (path_ext path)) then ps_module
                                   else if has_suffix path [46; 100; 109; 103] then dmg_module else None) /\
  forallb (fun e => existsb (bytes_eqb e) (map fst ps_ext_table)) spec_ps_exts = true /\
  forallb (fun e => existsb (bytes_eqb e) spec_ps_exts) (map fst ps_ext_table) = true /\
  by_filename (bs "script.ps1") = ps_module /\ by_filename (bs "SCRIPT.PS1") = None /\ by_filename (bs "dir.ps1/readme") = None /\
  by_filename (bs "image.dmg") = dmg_module /\ by_filename (bs "image.DMG") = None /\ by_filename (bs "a.dmg.ps1") = ps_module /\
  is_some ps_module = true /\ is_some dmg_module = true.
Proof. split; [exact filename_rules|exact ps_ext_facts]. Qed.
(* C01: the content is looked at BEFORE the name, by sign and by verify alike: a PowerShell script whose first 256 bytes contain
   ":assembly" is routed to the ClickOnce manifest module although its name says .ps1 (with -T ps it can be signed, and then not verified) *)
Theorem magic_content_shadows_filename_refuted : exists l name,
  detect_ref l = 9 /\
  option_map m_name (route_mod (by_file [] name true (Ok (detect_ref l, 0)))) = Some (bs "appmanifest") /\
  option_map m_name (by_filename name) = Some (bs "ps") /\
  option_map m_name (vroute_mod (verify_route name (Ok (detect_ref l, 0)))) = Some (bs "appmanifest").
Proof. exists w_ps1_assembly, (bs "load.ps1"). exact w_content_shadows_name. Qed.

(* ================================================================== C08: the is-signed probe *)
(* IsSigned runs the chosen module's verifier (stream verifier first) without digests and chain: signed iff it succeeds or lacks only
   the key; unsigned iff it reports NotSignedError; any other error is passed on; `--if-unsigned` asks the module ByFile chose *)
Theorem magic_is_signed_spec : forall m outcome,
  is_signed_result m outcome =
  if m_has_stream m || m_has_verify m then Some ((outcome =? 0) || (outcome =? 2), negb ((outcome =? 0) || (outcome =? 1) || (outcome =? 2))) else None.
Proof. exact is_signed_spec. Qed.

(* non-vacuity *)
Example ex_quirk_free_pe : spec_matches w_pe64 = [S_PE] /\ quirk_free w_pe64 = true. Proof. vm_compute. split; reflexivity. Qed.
Example ex_detect_pe : detect_bytes w_pe64 = Ok 6. Proof. vm_compute. reflexivity. Qed.
Example ex_detect_compressed_zip : detect_compressed (mkEnv None None (Some zn_jar)) ([80; 75; 3; 4] ++ rep 30 0) = Ok (4, 0). Proof. vm_compute. reflexivity. Qed.
Example ex_detect_compressed_gz : detect_compressed (mkEnv (Some (rep 257 0 ++ bs "ustar")) None None) [31; 139; 8; 0] = Ok (0, 1). Proof. vm_compute. reflexivity. Qed.
Example ex_zip_spec_hyp : forallb plain_name zn_jar = true /\ spec_zip_type zn_jar = Some S_JAR /\ lookup_suffix magic_zip_suffix (bs "a/B.class") = None. Proof. vm_compute. repeat split; reflexivity. Qed.
Example ex_jar_alias : neutral (bs "META-INF/RELIC.SF") = true /\ In (bs ".SF") jar_sig_suffixes. Proof. split; [vm_compute; reflexivity|left; reflexivity]. Qed.
Example ex_pe_kept_hyp : all_bytes w_pe64 = true /\ rel_mz w_pe64 = true /\ pe_core w_pe64 = true. Proof. vm_compute. repeat split; reflexivity. Qed.
