(* FmtMAGIC/Run.v — input [kind ...]:
   kind 0  [0 bytes]                         -> [status type  ref  [spec ids]  quirk_free]      status 0 ok / 77 panic; ref = detect_ref
   kind 1  [1 bytes gz xz zip]               -> [status type comp]    gz, xz: [] (error) or [plain]; zip: [] (error) or [[name ...]]
   kind 2  [2 [name ...]]                    -> [type  spec_type(-1 none)  all_plain]
   kind 3  [3 name]                          -> [zip_norm(name)  path_ext(name)]
   kind 4  [4 magic]                         -> module name (empty = nil)
   kind 5  [5 name]                          -> module name
   kind 6  [6 path]                          -> [module name  path_ext]
   kind 7  [7 sigtype name opened t c]       -> [route_kind route_val  sign_kind sign_val  vroute_kind vroute_val vroute_comp]
             route: kind 0 = module (val = name), 1 = refused (val = [code]); vroute: 0 stream, 1 file, 2 refused
   kind 8  [8 module_name outcome]           -> [] (cannot check) or [signed err]
   kind 9  [9]                               -> the module table: [[name [aliases] magic cert stdin has_testpath verify stream sign transform fixup] ...] *)
From Relic Require Import Base.Prelude Base.Enc Base.Val FmtMAGIC.Lib Generated.FmtMAGIC_gen FmtMAGIC.Model.

Definition opt_bytes (v : val) : option bytes := match vl v with x :: _ => Some (vb x) | [] => None end.
Definition opt_names (v : val) : option (list bytes) := match vl v with x :: _ => Some (map vb (vl x)) | [] => None end.
Definition mod_name (o : option smod) : val := VB (match o with Some m => m_name m | None => [] end).
Definition route_val (r : route) : list val := match r with Chosen m => [VZ 0; VB (m_name m)] | Refused e => [VZ 1; VB [e]] end.
Definition run (v : val) : val :=
  let k := vz (vnth 0 v) in
  if k =? 0 then
    let l := vb (vnth 1 v) in
    match detect_bytes l with
    | Ok t => VL [VZ 0; VZ t; VZ (detect_ref l); VZs (spec_matches l); of_bool (quirk_free l)]
    | _ => VL [VZ 77; VZ (-1); VZ (detect_ref l); VZs (spec_matches l); of_bool (quirk_free l)]
    end
  else if k =? 1 then
    match detect_compressed (mkEnv (opt_bytes (vnth 2 v)) (opt_bytes (vnth 3 v)) (opt_names (vnth 4 v))) (vb (vnth 1 v)) with
    | Ok (t, c) => VL [VZ 0; VZ t; VZ c]
    | _ => VL [VZ 77; VZ (-1); VZ (-1)]
    end
  else if k =? 2 then
    let ns := map vb (vl (vnth 1 v)) in
    VL [VZ (zip_detect (Some ns)); VZ (match spec_zip_type ns with Some t => t | None => -1 end); of_bool (forallb plain_name ns)]
  else if k =? 3 then VL [VB (zip_norm (vb (vnth 1 v))); VB (path_ext (vb (vnth 1 v)))]
  else if k =? 4 then mod_name (by_magic (vz (vnth 1 v)))
  else if k =? 5 then mod_name (by_name (vb (vnth 1 v)))
  else if k =? 6 then VL [mod_name (by_filename (vb (vnth 1 v))); VB (path_ext (vb (vnth 1 v)))]
  else if k =? 7 then
    let det := Ok (vz (vnth 4 v), vz (vnth 5 v)) in
    let sigtype := vb (vnth 1 v) in let name := vb (vnth 2 v) in let opened := vbool (vnth 3 v) in
    VL (route_val (by_file sigtype name opened det) ++ route_val (sign_route sigtype name opened det) ++
        match verify_route name det with
        | VStream m c => [VZ 0; VB (m_name m); VZ c]
        | VFile m => [VZ 1; VB (m_name m); VZ 0]
        | VRefused e => [VZ 2; VB [e]; VZ 0]
        end)
  else if k =? 8 then
    match by_name (vb (vnth 1 v)) with
    | Some m => match is_signed_result m (vz (vnth 2 v)) with Some (s, e) => VL [of_bool s; of_bool e] | None => VL [] end
    | None => VL []
    end
  else
    VL (map (fun m => VL [VB (m_name m); VL (map VB (m_aliases m)); VZ (m_magic m); VZ (m_cert m); of_bool (m_stdin m); of_bool (negb (m_testpath m =? 0));
                          of_bool (m_has_verify m); of_bool (m_has_stream m); of_bool (m_has_sign m); of_bool (m_has_transform m); of_bool (m_has_fixup m)]) signers_table).
