(* FmtMAGIC/ProofsSpec.v — relic's ordered decision vs the published magic numbers; which published magics imply relic's tests;
   what keeps the detected type unchanged (leading magic kept, bytes appended). *)
From Relic Require Import Base.Prelude Base.Enc FmtMAGIC.Lib Generated.FmtMAGIC_gen FmtMAGIC.Model FmtMAGIC.ProofsLib FmtMAGIC.ProofsDetect.

Definition rel_matches (l : bytes) : list Z := map fst (filter (fun e => snd e l) rel_table).

Lemma agree_matches s r l : agree_tables s r l = true -> map fst s = map fst r ->
  map fst (filter (fun e => snd e l) s) = map fst (filter (fun e : Z * (bytes -> bool) => snd e l) r).
Proof.
  revert r; induction s as [|[i f] s IH]; intros [|[j g] r] Ha Hm; try discriminate; [reflexivity|].
  cbn [agree_tables] in Ha. apply andb_true_iff in Ha as [Hfg Ha]. apply Bool.eqb_prop in Hfg.
  cbn [map fst] in Hm. injection Hm as -> Hm. cbn [filter snd]. rewrite Hfg.
  destruct (g l); cbn [map fst]; [f_equal|]; apply IH; assumption.
Qed.
Lemma rel_in l id f : In (id, f) rel_table -> f l = true -> In id (rel_matches l).
Proof.
  intros Hin Hf. unfold rel_matches. apply (in_map fst _ (id, f)). apply filter_In. split; [exact Hin|exact Hf].
Qed.

Ltac hit l Hm id f E :=
  let H := fresh "Hin" in
  assert (H : In id (rel_matches l)) by (apply (rel_in l id f); [cbn; tauto|exact E]);
  rewrite Hm in H; cbn [In] in H; destruct H as [H|[]]; subst; reflexivity.

(* relic's ORDER does not matter on inputs where exactly one published magic matches and every per-type test says what the
   published magic says *)
Theorem detect_eq_spec l t : spec_matches l = [t] -> quirk_free l = true -> detect_ref l = relic_code t.
Proof.
  intros Hs Hq. unfold quirk_free in Hq. apply andb_true_iff in Hq as [Ha Hmz].
  assert (Hm : rel_matches l = [t]).
  { unfold rel_matches. rewrite <- (agree_matches _ _ _ Ha eq_refl). exact Hs. }
  unfold detect_ref.
  destruct (rel_rpm l) eqn:E1; [hit l Hm S_RPM rel_rpm E1|].
  destruct (rel_deb l) eqn:E2; [hit l Hm S_DEB rel_deb E2|].
  destruct (rel_pgp_armor l) eqn:E3; [hit l Hm S_PGP_ARMOR rel_pgp_armor E3|].
  destruct (rel_cat l) eqn:E4; [hit l Hm S_CAT rel_cat E4|].
  destruct (rel_pkcs7 l) eqn:E5.
  { assert (E5' : rel_pkcs7_only l = true) by (unfold rel_pkcs7_only; rewrite E5, E4; reflexivity). hit l Hm S_PKCS7 rel_pkcs7_only E5'. }
  destruct (rel_tar l) eqn:E6; [hit l Hm S_TAR rel_tar E6|].
  destruct (rel_mz l) eqn:E7.
  { cbn [negb orb] in Hmz. rewrite Hmz. hit l Hm S_PE rel_pe Hmz. }
  destruct (rel_cfb l) eqn:E8; [hit l Hm S_CFB rel_cfb E8|].
  destruct (rel_cab l) eqn:E9; [hit l Hm S_CAB rel_cab E9|].
  destruct (rel_manifest l) eqn:E10; [hit l Hm S_MANIFEST rel_manifest E10|].
  destruct (rel_macho l) eqn:E11; [hit l Hm S_MACHO rel_macho E11|].
  destruct (rel_fat l) eqn:E12; [hit l Hm S_FAT rel_fat E12|].
  destruct (rel_xar l) eqn:E13; [hit l Hm S_XAR rel_xar E13|].
  destruct (rel_pgp_bin l) eqn:E14; [hit l Hm S_PGP_BIN rel_pgp_bin E14|].
  exfalso. unfold rel_matches, rel_table in Hm. cbn [filter snd] in Hm.
  unfold rel_pkcs7_only, rel_pe in Hm. rewrite E1, E2, E3, E4, E5, E6, E7, E8, E9, E10, E11, E12, E13, E14 in Hm. cbn in Hm. discriminate.
Qed.

(* ---------------------------------------------------------------- published magic => relic's test (per type) *)
Lemma spec_rpm_exact l : spec_rpm l = rel_rpm l. Proof. reflexivity. Qed.
Lemma spec_cab_exact l : spec_cab l = rel_cab l. Proof. reflexivity. Qed.
Lemma spec_xar_exact l : spec_xar l = rel_xar l. Proof. reflexivity. Qed.
Lemma spec_tar_exact l : spec_tar l = rel_tar l. Proof. reflexivity. Qed.

Lemma is_prefix_weaken a b l : is_prefix (a ++ b) l = true -> is_prefix a l = true.
Proof. rewrite is_prefix_app. intros H. apply andb_true_iff in H as [H _]. exact H. Qed.
Lemma spec_deb_implies l : spec_deb l = true -> rel_deb l = true.
Proof.
  unfold spec_deb, rel_deb. intros H. apply andb_true_iff in H as [H1 H2].
  change [33; 60; 97; 114; 99; 104; 62; 10; 100; 101; 98; 105; 97; 110] with ([33; 60; 97; 114; 99; 104; 62; 10] ++ [100; 101; 98; 105; 97; 110]).
  rewrite is_prefix_app, H1. cbn [andb]. change (zlen [33; 60; 97; 114; 99; 104; 62; 10]) with 8.
  apply (is_prefix_weaken [100; 101; 98; 105; 97; 110] [45; 98; 105; 110; 97; 114; 121]). exact H2.
Qed.
Lemma spec_pgp_armor_implies l : spec_pgp_armor l = true -> rel_pgp_armor l = true.
Proof. unfold spec_pgp_armor, rel_pgp_armor. apply (is_prefix_weaken [45; 45; 45; 45; 45; 66; 69; 71; 73; 78; 32; 80; 71; 80] [32]). Qed.
Lemma spec_cfb_implies l : spec_cfb l = true -> rel_cfb l = true.
Proof. unfold spec_cfb, rel_cfb. apply (is_prefix_weaken [208; 207] [17; 224; 161; 177; 26; 225]). Qed.
Lemma spec_fat_implies l : spec_fat l = true -> rel_fat l = true.
Proof. unfold spec_fat, rel_fat. intros H. apply andb_true_iff in H as [H _]. apply andb_true_iff in H as [H _]. exact H. Qed.
(* Mach-O: only the little-endian byte order (Intel, ARM) is known to relic *)
Lemma spec_macho_implies l : spec_macho l = true -> is_prefix [254; 237; 250] l = false -> rel_macho l = true.
Proof.
  unfold spec_macho, rel_macho. intros H Hbe.
  destruct (is_prefix [207; 250; 237; 254] l); [reflexivity|]. destruct (is_prefix [206; 250; 237; 254] l); [reflexivity|]. cbn [orb] in *.
  apply orb_true_iff in H as [H|H]; [apply (is_prefix_weaken [254; 237; 250] [207]) in H|apply (is_prefix_weaken [254; 237; 250] [206]) in H]; congruence.
Qed.
(* binary OpenPGP: only three of the first octets a signature can start with are known to relic *)
Lemma spec_pgp_bin_implies l : spec_pgp_bin l = true -> In (hd 0 l) [137; 194; 196] -> rel_pgp_bin l = true.
Proof.
  intros _ H. unfold rel_pgp_bin. destruct l as [|o r]; cbn [hd In] in H.
  - destruct H as [H|[H|[H|[]]]]; discriminate.
  - cbn [is_prefix]. destruct H as [<-|[<-|[<-|[]]]]; reflexivity.
Qed.

(* DER header: what follows it starts 2..6 bytes into the input *)
Lemma zdrop_cons {A} k (x : A) l : 0 <= k -> zdrop (1 + k) (x :: l) = zdrop k l.
Proof. intros H. unfold zdrop. replace (Z.to_nat (1 + k)) with (S (Z.to_nat k)) by lia. reflexivity. Qed.
Lemma der_hdr_rest l t n r1 : der_hdr l = Some (t, n, r1) -> exists k, 2 <= k <= 6 /\ r1 = zdrop k l.
Proof.
  destruct l as [|t0 [|n0 r]]; try discriminate. unfold der_hdr.
  destruct (n0 <? 128) eqn:E0.
  - intros H. injection H as _ _ <-. exists 2. split; [lia|reflexivity].
  - set (k := n0 - 128). destruct ((k =? 0) || (4 <? k) || (zlen r <? k)) eqn:E; [discriminate|].
    destruct ((be_dec (ztake k r) <? 128) || (hd 0 r =? 0)); [discriminate|].
    intros H. injection H as _ _ <-. exists (2 + k). split; [lia|].
    replace (2 + k) with (1 + (1 + k)) by lia. rewrite !zdrop_cons by lia. reflexivity.
Qed.
(* every CMS SignedData (catalogs included) carries the signedData OID where relic looks for it *)
Lemma spec_cms_implies l o : spec_cms_econtent l = Some o -> rel_pkcs7 l = true.
Proof.
  unfold spec_cms_econtent. destruct (der_hdr l) as [[[t n] r1]|] eqn:E; [|discriminate].
  destruct (t =? 48) eqn:Et; [apply Z.eqb_eq in Et; subst t|destruct t as [|p|p]; try discriminate; repeat (destruct p as [p|p|]; try discriminate)].
  destruct (is_prefix (6 :: 9 :: OID_SIGNED_DATA) r1) eqn:Ep; [|discriminate]. intros _.
  apply der_hdr_rest in E as [k [Hk ->]]. unfold rel_pkcs7, in256.
  apply (contains_in_window _ _ k); [lia| |exact Ep]. change (zlen (6 :: 9 :: OID_SIGNED_DATA)) with 11. lia.
Qed.
Lemma spec_pkcs7_implies l : spec_pkcs7 l = true -> rel_pkcs7 l = true.
Proof. unfold spec_pkcs7. destruct (spec_cms_econtent l) as [o|] eqn:E; [intros _; exact (spec_cms_implies l o E)|discriminate]. Qed.
Lemma spec_cat_implies_pkcs7 l : spec_cat l = true -> rel_pkcs7 l = true.
Proof. unfold spec_cat. destruct (spec_cms_econtent l) as [o|] eqn:E; [intros _; exact (spec_cms_implies l o E)|discriminate]. Qed.

(* PE: relic reads 16 of the 32 bits of e_lfanew and needs the PE signature inside the reader's buffer *)
Lemma le_dec_app a b : le_dec (a ++ b) = le_dec a + 256 ^ zlen a * le_dec b.
Proof.
  induction a as [|x a IH]; [cbn [app le_dec]; change (zlen (@nil Z)) with 0; lia|].
  cbn [app le_dec]. rewrite IH, zlen_cons. rewrite Z.pow_add_r by (pose proof (zlen_nonneg a); lia). lia.
Qed.
Lemma zslice_split {A} a b c (l : list A) : 0 <= a <= b -> b <= c -> c <= zlen l -> zslice a c l = zslice a b l ++ zslice b c l.
Proof.
  intros H1 H2 H3. unfold zslice. replace (c - a) with ((b - a) + (c - b)) by lia.
  rewrite <- (ztake_zdrop (b - a) (ztake (b - a + (c - b)) (zdrop a l))). f_equal.
  - rewrite ztake_ztake. f_equal. lia.
  - rewrite zdrop_ztake by lia. rewrite zdrop_zdrop by lia. f_equal. f_equal. lia.
Qed.
Lemma spec_pe_implies l : all_bytes l = true -> spec_pe l = true -> le_dec (zslice 60 64 l) + 4 <= 4096 -> rel_pe l = true.
Proof.
  intros Hb H He. unfold spec_pe in H. apply andb_true_iff in H as [H Hat]. apply andb_true_iff in H as [Hmz Hl].
  unfold rel_pe, rel_mz, pe_core. rewrite Hmz. cbn [andb].
  assert (H64 : 64 <= zlen l) by lia. replace (62 <=? zlen l) with true by lia. cbn [andb]. cbv zeta.
  rewrite (zslice_split 60 62 64) in He, Hat by lia. rewrite le_dec_app in He, Hat. rewrite zslice_len in He, Hat by lia.
  pose proof (le_dec_range _ (all_bytes_zslice 60 62 l Hb)) as R1. rewrite zslice_len in R1 by lia.
  pose proof (le_dec_range _ (all_bytes_zslice 62 64 l Hb)) as R2. rewrite zslice_len in R2 by lia.
  change (256 ^ (62 - 60)) with 65536 in *. change (256 ^ (64 - 62)) with 65536 in *.
  assert (Hz : le_dec (zslice 62 64 l) = 0) by lia. rewrite Hz in *. rewrite Z.mul_0_r, Z.add_0_r in *.
  rewrite Hat. replace (le_dec (zslice 60 62 l) + 4 <=? 4096) with true by lia. reflexivity.
Qed.

(* ---------------------------------------------------------------- what keeps the detected type: the leading magic *)
Fixpoint test_prefixes (ts : list mtest) (t : Z) : list (bytes * Z) :=
  match ts with [] => [] | TPrefix b :: r => (b, t) :: test_prefixes r t | _ :: r => test_prefixes r t end.
Fixpoint table_prefixes (cases : list (list mtest * mres)) : list (bytes * Z) :=
  match cases with
  | [] => []
  | (ts, RType t) :: rest => test_prefixes ts t ++ table_prefixes rest
  | _ :: rest => table_prefixes rest
  end.
(* the (prefix, type) pairs of the GENERATED decision list, split by what precedes them in relic's order *)
Definition first_magics : list (bytes * Z) := firstn 3 (table_prefixes magic_detect_cases).
Definition mid_magics : list (bytes * Z) := firstn 2 (skipn 3 (table_prefixes magic_detect_cases)).
Definition late_magics : list (bytes * Z) := skipn 5 (table_prefixes magic_detect_cases).

Lemma prefix_excl p q l : is_prefix p l = true -> is_prefix p q || is_prefix q p = false -> is_prefix q l = false.
Proof.
  intros Hp Hc. destruct (is_prefix q l) eqn:Hq; [|reflexivity].
  rewrite (is_prefix_comparable _ _ _ Hp Hq) in Hc. discriminate.
Qed.
Ltac excl Hp :=
  repeat match goal with
         | |- context [is_prefix ?q ?g] =>
             match type of Hp with is_prefix ?p g = true => rewrite (prefix_excl p q g Hp eq_refl) end
         end.

(* RPM, DEB, armored PGP: the first three clauses; nothing can pre-empt them *)
Theorem stable_first p t g : In (p, t) first_magics -> is_prefix p g = true -> detect_ref g = t.
Proof.
  intros Hin Hp. vm_compute in Hin. unfold detect_ref, rel_rpm, rel_deb, rel_pgp_armor.
  destruct Hin as [H|[H|[H|[]]]]; injection H as <- <-; excl Hp; rewrite Hp; reflexivity.
Qed.
(* compound files and cabinets: pre-empted only by the three floating tests (two OIDs anywhere in the first 256 bytes, "ustar" at 257) *)
Theorem stable_mid p t g : In (p, t) mid_magics -> is_prefix p g = true ->
  rel_cat g = false -> rel_pkcs7 g = false -> rel_tar g = false -> detect_ref g = t.
Proof.
  intros Hin Hp H1 H2 H3. vm_compute in Hin. unfold detect_ref. rewrite H1, H2, H3.
  unfold rel_rpm, rel_deb, rel_pgp_armor, rel_mz, rel_cfb, rel_cab.
  destruct Hin as [H|[H|[]]]; injection H as <- <-; excl Hp; rewrite Hp; reflexivity.
Qed.
(* Mach-O, fat Mach-O, xar, binary PGP: additionally pre-empted by "<assembly" / ":assembly" in the first 256 bytes *)
Theorem stable_late p t g : In (p, t) late_magics -> is_prefix p g = true ->
  rel_cat g = false -> rel_pkcs7 g = false -> rel_tar g = false -> rel_manifest g = false -> detect_ref g = t.
Proof.
  intros Hin Hp H1 H2 H3 H4. vm_compute in Hin. unfold detect_ref. rewrite H1, H2, H3, H4.
  unfold rel_rpm, rel_deb, rel_pgp_armor, rel_mz, rel_cfb, rel_cab, rel_macho, rel_fat, rel_xar, rel_pgp_bin.
  destruct Hin as [H|[H|[H|[H|[H|[H|[H|[]]]]]]]]; injection H as <- <-; excl Hp; rewrite Hp; rewrite ?orb_true_r; reflexivity.
Qed.
(* PE: "MZ", the e_lfanew field and the PE signature it points to (inside the buffer), pre-empted by the floating tests *)
Theorem stable_pe g : rel_mz g = true -> pe_core g = true -> rel_cat g = false -> rel_pkcs7 g = false -> rel_tar g = false -> detect_ref g = 6.
Proof.
  intros Hmz Hpe H1 H2 H3. unfold detect_ref, rel_pe. rewrite H1, H2, H3, Hmz, Hpe.
  unfold rel_rpm, rel_deb, rel_pgp_armor. unfold rel_mz in Hmz. excl Hmz. reflexivity.
Qed.
(* ... and these three items are kept by anything that leaves the header up to the PE signature alone *)
Lemma ztake_eq_len {A} w (f g : list A) : 0 <= w -> w <= zlen f -> ztake w g = ztake w f -> w <= zlen g.
Proof. intros Hw Hf H. apply (f_equal zlen) in H. rewrite !zlen_ztake_min in H by lia. lia. Qed.
Lemma ztake_eq_slice {A} w lo hi (f g : list A) : 0 <= lo -> hi <= w -> ztake w g = ztake w f -> zslice lo hi g = zslice lo hi f.
Proof. intros Hlo Hhi H. rewrite <- (zslice_ztake lo hi w g), <- (zslice_ztake lo hi w f) by lia. rewrite H. reflexivity. Qed.
Lemma is_prefix_take4 p x : zlen p = 4 -> is_prefix p x = is_prefix p (ztake 4 x).
Proof. intros H. symmetry. apply is_prefix_ztake. lia. Qed.
Theorem pe_core_kept f g : all_bytes f = true -> pe_core f = true ->
  (let w := Z.max 62 (le_dec (zslice 60 62 f) + 4) in ztake w g = ztake w f) -> pe_core g = true /\ rel_mz g = rel_mz f.
Proof.
  intros Hb Hf. cbv zeta. intros Hw. unfold pe_core in *. apply andb_true_iff in Hf as [H62 Hf]. cbv zeta in Hf.
  pose proof (le16_range f Hb ltac:(lia)) as He. set (e := le_dec (zslice 60 62 f)) in *.
  apply andb_true_iff in Hf as [Hbuf Hat]. unfold at_off in Hat. change (zlen [80; 69; 0; 0]) with 4 in Hat. apply andb_true_iff in Hat as [Hlen Hpre].
  remember (Z.max 62 (e + 4)) as w eqn:Ew.
  assert (Hg : w <= zlen g) by (apply (ztake_eq_len w f g); [lia|lia|exact Hw]).
  assert (Hs : zslice 60 62 g = zslice 60 62 f) by (apply (ztake_eq_slice w); [lia|lia|exact Hw]).
  split.
  - replace (62 <=? zlen g) with true by lia. cbn [andb]. cbv zeta. rewrite Hs. fold e. rewrite Hbuf. cbn [andb].
    unfold at_off. change (zlen [80; 69; 0; 0]) with 4. replace (4 + e <=? zlen g) with true by lia. cbn [andb].
    rewrite (is_prefix_take4 _ (zdrop e g)) by reflexivity. rewrite (is_prefix_take4 _ (zdrop e f)) in Hpre by reflexivity.
    rewrite <- !zslice_as_take in *. rewrite (ztake_eq_slice w e (e + 4) f g) by (try lia; exact Hw). exact Hpre.
  - unfold rel_mz. rewrite <- (is_prefix_ztake [77; 90] g w), <- (is_prefix_ztake [77; 90] f w) by (change (zlen [77; 90]) with 2; lia). rewrite Hw. reflexivity.
Qed.

(* ---------------------------------------------------------------- appended bytes *)
Lemma is_prefix_app_long p f x : zlen p <= zlen f -> is_prefix p (f ++ x) = is_prefix p f.
Proof.
  intros H. rewrite <- (is_prefix_ztake p (f ++ x) (zlen f)) by exact H.
  rewrite ztake_app_l by lia. rewrite ztake_all by lia. reflexivity.
Qed.
Lemma in256_app p f x : 256 <= zlen f -> in256 p (f ++ x) = in256 p f.
Proof. intros H. unfold in256. rewrite ztake_app_l by lia. reflexivity. Qed.
Lemma at_off_app off p f x : 0 <= off -> zlen p + off <= zlen f -> at_off off p (f ++ x) = at_off off p f.
Proof.
  intros H0 H. unfold at_off. rewrite zlen_app. pose proof (zlen_nonneg x).
  replace (zlen p + off <=? zlen f + zlen x) with true by lia. replace (zlen p + off <=? zlen f) with true by lia. cbn [andb].
  rewrite zdrop_app_l by (pose proof (zlen_nonneg p); lia). apply is_prefix_app_long. rewrite zlen_zdrop_any by lia. lia.
Qed.
(* a file that is not an "MZ" file and is at least 262 bytes long keeps its type whatever is appended *)
Theorem stable_append_nonmz f x : 262 <= zlen f -> rel_mz f = false -> detect_ref (f ++ x) = detect_ref f.
Proof.
  intros Hl Hmz. unfold detect_ref, rel_rpm, rel_deb, rel_pgp_armor, rel_cat, rel_pkcs7, rel_tar, rel_pe, rel_cfb, rel_cab, rel_manifest, rel_macho, rel_fat, rel_xar, rel_pgp_bin.
  unfold rel_mz in *. rewrite !in256_app by lia. rewrite at_off_app by (change (zlen [117; 115; 116; 97; 114]) with 5; lia).
  rewrite !is_prefix_app_long by (apply Z.le_trans with 262; [apply Z.leb_le; reflexivity|exact Hl]).
  rewrite Hmz. reflexivity.
Qed.
(* a PE file (header inside the file) of at least 262 bytes keeps its type whatever is appended *)
Lemma pe_core_app f x : all_bytes f = true -> pe_core f = true -> pe_core (f ++ x) = true.
Proof.
  intros Hb Hpe. unfold pe_core in *. apply andb_true_iff in Hpe as [H62 Hpe]. cbv zeta in Hpe. apply andb_true_iff in Hpe as [Hbuf Hat].
  pose proof (le16_range f Hb ltac:(lia)) as He.
  rewrite zlen_app. pose proof (zlen_nonneg x). replace (62 <=? zlen f + zlen x) with true by lia. cbn [andb]. cbv zeta.
  assert (Hs : zslice 60 62 (f ++ x) = zslice 60 62 f) by (apply zslice_app_l; lia). rewrite Hs, Hbuf. cbn [andb].
  assert (Hlen : zlen [80; 69; 0; 0] + le_dec (zslice 60 62 f) <= zlen f).
  { unfold at_off in Hat. apply andb_true_iff in Hat as [Hlen _]. lia. }
  rewrite at_off_app by lia. exact Hat.
Qed.
Theorem stable_append_pe f x : all_bytes f = true -> 262 <= zlen f -> rel_mz f = true -> pe_core f = true -> detect_ref (f ++ x) = detect_ref f.
Proof.
  intros Hb Hl Hmz Hpe. pose proof (pe_core_app f x Hb Hpe) as Hpe'.
  unfold detect_ref, rel_rpm, rel_deb, rel_pgp_armor, rel_cat, rel_pkcs7, rel_tar, rel_pe. rewrite Hpe, Hpe'.
  unfold rel_mz in *. rewrite !in256_app by lia. rewrite at_off_app by (change (zlen [117; 115; 116; 97; 114]) with 5; lia).
  rewrite !is_prefix_app_long by (apply Z.le_trans with 262; [apply Z.leb_le; reflexivity|exact Hl]).
  rewrite Hmz. reflexivity.
Qed.
(* whatever the type: nothing behind the first 4096 bytes matters *)
Theorem stable_append_long f x : magic_detect_bufsize <= zlen f -> detect_bytes (f ++ x) = detect_bytes f.
Proof. intros H. apply detect_bounded_peek. rewrite ztake_app_l by exact H. reflexivity. Qed.
