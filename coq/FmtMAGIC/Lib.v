(* FmtMAGIC/Lib.v — what the generated file Generated/FmtMAGIC_gen.v is written in: byte-string predicates (targets of
   bytes.Equal / bytes.Contains / strings.HasPrefix / strings.HasSuffix), an abstract bufio.Reader that nobody has consumed
   from (Peek only), the syntax of the decision lists of lib/magic.Detect / DetectCompressed and of the signer module table,
   and hand-written models of two Go standard library functions the code under test calls (path.Clean on relative names,
   filepath.Ext); these two are tied to the real functions by the correspondence harness only. *)
From Relic Require Import Base.Prelude.

(* ---- byte strings *)
Fixpoint is_prefix (p l : bytes) : bool :=
  match p, l with
  | [], _ => true
  | x :: p', y :: l' => (x =? y) && is_prefix p' l'
  | _ :: _, [] => false
  end.
Definition has_prefix (s p : bytes) : bool := is_prefix p s.              (* strings.HasPrefix(s, p) *)
Definition has_suffix (s p : bytes) : bool := is_prefix (rev p) (rev s).  (* strings.HasSuffix(s, p) *)
Fixpoint bytes_contains (d blob : bytes) : bool :=                        (* bytes.Contains(d, blob) *)
  is_prefix blob d || match d with [] => false | _ :: d' => bytes_contains d' blob end.
Definition bytes_of (x : bytes) : bytes := x.                             (* []byte("literal") *)

(* ---- bufio.Reader, fresh, over the byte string rd_data, with a buffer of rd_buf bytes.
   Peek(n) returns the first min(n, rd_buf, len data) bytes; its error is nil exactly when it returns n bytes
   (ErrBufferFull when n exceeds the buffer, the reader's error / EOF when the data is shorter, ErrNegativeCount for n < 0). *)
Record reader := mkReader { rd_data : bytes; rd_buf : Z }.
Definition rd_peek (r : reader) (n : Z) : bytes := ztake (Z.min n (rd_buf r)) (rd_data r).
Definition rd_peek_ok (r : reader) (n : Z) : bool := (0 <=? n) && (zlen (rd_peek r n) =? n).
(* the slice Peek returns aliases the buffer: capacity rd_buf, bytes behind the data are the zeroes of make([]byte, size) *)
Definition rd_window (r : reader) : bytes :=
  let d := ztake (rd_buf r) (rd_data r) in d ++ repeat 0 (Z.to_nat (rd_buf r - zlen d)).

(* ---- syntax of the generated decision lists *)
Inductive mtest := TPrefix (b : bytes) | TContains (b : bytes) (n : Z) | TAt (b : bytes) (n : Z) | TTar.
Inductive mres := RType (t : Z) | RTar | RPE.
Inductive dcres := DSniff (lib comp : Z) | DZip (comp : Z).
Record smod := mkMod { m_name : bytes; m_aliases : list bytes; m_magic : Z; m_cert : Z; m_stdin : bool; m_testpath : Z;
                       m_has_verify : bool; m_has_stream : bool; m_has_sign : bool; m_has_transform : bool; m_has_fixup : bool }.

(* ---- path.Clean restricted to what detectZip feeds it: a non-empty name that does not start with "/" (a leading "/" has been
   turned into "./").  Component level: split at "/", drop "" and ".", ".." removes the component before it unless there is none
   (or only ".." components), join with "/", "." if nothing is left. *)
Definition SLASH : Z := 47.
Definition DOT : Z := 46.
Fixpoint split_slash_aux (l cur : bytes) : list bytes :=
  match l with
  | [] => [rev cur]
  | c :: r => if c =? SLASH then rev cur :: split_slash_aux r [] else split_slash_aux r (c :: cur)
  end.
Definition split_slash (l : bytes) : list bytes := split_slash_aux l [].
Definition is_dot (c : bytes) : bool := match c with [d] => d =? DOT | _ => false end.
Definition is_dotdot (c : bytes) : bool := match c with [d; e] => (d =? DOT) && (e =? DOT) | _ => false end.
(* stack holds the kept components, last first *)
Fixpoint clean_comps (cs : list bytes) (stack : list bytes) : list bytes :=
  match cs with
  | [] => rev stack
  | c :: r =>
      match c with
      | [] => clean_comps r stack
      | _ => if is_dot c then clean_comps r stack
             else if is_dotdot c then
               match stack with
               | top :: below => if is_dotdot top then clean_comps r (c :: stack) else clean_comps r below
               | [] => clean_comps r [c]
               end
             else clean_comps r (c :: stack)
      end
  end.
Fixpoint join_slash (cs : list bytes) : bytes :=
  match cs with
  | [] => []
  | [c] => c
  | c :: r => c ++ SLASH :: join_slash r
  end.
Definition path_clean_rel (name : bytes) : bytes :=
  match clean_comps (split_slash name) [] with
  | [] => [DOT]
  | cs => join_slash cs
  end.

(* ---- filepath.Ext (Unix): the suffix starting at the last "." of the last path element, "" if there is none *)
Fixpoint ext_scan (r acc : bytes) : bytes :=
  match r with
  | [] => []
  | c :: r' => if c =? SLASH then [] else if c =? DOT then DOT :: acc else ext_scan r' (c :: acc)
  end.
Definition path_ext (p : bytes) : bytes := ext_scan (rev p) [].
