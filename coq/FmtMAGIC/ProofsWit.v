(* FmtMAGIC/ProofsWit.v — concrete witnesses (overlaps resolved by ORDER, deviations from the published magics, instabilities) and the
   facts decided by computation on the generated tables. *)
From Coq Require Import String Ascii.
From Relic Require Import Base.Prelude Base.Enc FmtMAGIC.Lib Generated.FmtMAGIC_gen FmtMAGIC.Model FmtMAGIC.ProofsLib FmtMAGIC.ProofsDetect
  FmtMAGIC.ProofsSpec FmtMAGIC.ProofsZip FmtMAGIC.ProofsDispatch.

Fixpoint bs (s : string) : bytes := match s with EmptyString => [] | String c r => Z.of_N (N_of_ascii c) :: bs r end.
Definition rep (n b : Z) : bytes := repeat b (Z.to_nat n).
Definition PE00 : bytes := [80; 69; 0; 0].
Definition TLV_CTL : bytes := 6 :: 9 :: OID_CTL.
Definition TLV_SD : bytes := 6 :: 9 :: OID_SIGNED_DATA.

(* ---- byte-prefix formats *)
Definition w_pe64 : bytes := [77; 90] ++ rep 58 0 ++ [64; 0; 0; 0] ++ PE00 ++ rep 200 0.
Definition w_pe_far : bytes := [77; 90] ++ rep 58 0 ++ [253; 15; 0; 0] ++ rep (4093 - 64) 0 ++ PE00 ++ rep 100 0.      (* e_lfanew = 4093 *)
Definition w_pe_with_ctl_oid : bytes := [77; 90] ++ rep 58 0 ++ [128; 0; 0; 0] ++ TLV_CTL ++ rep (128 - 64 - 11) 0 ++ PE00 ++ rep 100 0.
Definition w_pe_pre_sign : bytes := [77; 90] ++ rep 58 0 ++ [64; 0; 0; 0] ++ PE00 ++ rep (145 - 68) 0 ++ [6; 9; 43; 6; 1; 4; 1] ++ [0; 0; 0; 0] ++ rep 150 0.
Definition w_pe_post_sign : bytes := [77; 90] ++ rep 58 0 ++ [64; 0; 0; 0] ++ PE00 ++ rep (145 - 68) 0 ++ [6; 9; 43; 6; 1; 4; 1] ++ [130; 55; 10; 1] ++ rep 150 0.
Definition w_java : bytes := [202; 254; 186; 190; 0; 0; 0; 52] ++ rep 24 0.
Definition w_fat : bytes := [202; 254; 186; 190; 0; 0; 0; 2] ++ rep 24 0.
Definition w_cfb_2bytes : bytes := [208; 207; 0; 0] ++ rep 60 0.
Definition w_pgp_0x88 : bytes := [136; 117; 4; 0; 19; 8] ++ rep 113 0.      (* old-format signature packet, one-octet length: what gpg writes for a short (ECDSA / EdDSA) signature *)
Definition w_png : bytes := [137; 80; 78; 71; 13; 10; 26; 10] ++ rep 24 0.
Definition w_macho_be : bytes := [254; 237; 250; 207] ++ rep 28 0.
Definition w_short_pgp : bytes := [194; 60; 4; 0; 1; 8] ++ rep 56 0.
Definition w_tail_with_oid : bytes := rep 10 0 ++ TLV_SD.
Definition w_mz_assembly : bytes := [77; 90] ++ rep 68 0 ++ bs "<assembly" ++ rep 40 0.
Definition w_ps1_assembly : bytes := bs "# loads [reflection:assembly] helpers" ++ [10].
Definition w_cab_with_oid : bytes := bs "MSCF" ++ rep 36 0 ++ TLV_SD ++ rep 20 0.

Lemma w_examples :
  detect_ref w_pe64 = 6 /\ spec_matches w_pe64 = [S_PE] /\
  detect_ref w_pe_far = 0 /\ spec_matches w_pe_far = [S_PE] /\
  detect_ref w_pe_with_ctl_oid = 10 /\ spec_matches w_pe_with_ctl_oid = [S_PE] /\
  detect_ref w_java = 16 /\ spec_matches w_java = [S_JAVA] /\ detect_ref w_fat = 16 /\ spec_matches w_fat = [S_FAT] /\
  detect_ref w_cfb_2bytes = 7 /\ spec_matches w_cfb_2bytes = [] /\
  detect_ref w_pgp_0x88 = 0 /\ spec_matches w_pgp_0x88 = [S_PGP_BIN] /\
  detect_ref w_png = 3 /\ spec_matches w_png = [] /\
  detect_ref w_macho_be = 0 /\ spec_matches w_macho_be = [S_MACHO] /\
  detect_ref w_mz_assembly = 0 /\ spec_matches w_mz_assembly = [S_MANIFEST] /\
  detect_ref w_cab_with_oid = 5 /\ spec_matches w_cab_with_oid = [S_CAB].
Proof. vm_compute. repeat split; reflexivity. Qed.

(* signing a PE file rewrites its checksum field; if the field sits in the first 256 bytes the new value can complete an OID there *)
Lemma w_pe_checksum_flips :
  detect_ref w_pe_pre_sign = 6 /\ detect_ref w_pe_post_sign = 10 /\
  ztake 152 w_pe_post_sign = ztake 152 w_pe_pre_sign /\ zdrop 156 w_pe_post_sign = zdrop 156 w_pe_pre_sign /\ zlen w_pe_post_sign = zlen w_pe_pre_sign.
Proof. vm_compute. repeat split; reflexivity. Qed.
Lemma w_append_flips_short : detect_ref w_short_pgp = 3 /\ detect_ref (w_short_pgp ++ w_tail_with_oid) = 5 /\ zlen w_short_pgp = 62.
Proof. vm_compute. repeat split; reflexivity. Qed.

(* ---- ZIP family *)
Definition zn_jar : list bytes := [bs "META-INF/MANIFEST.MF"; bs "a/B.class"].
Lemma w_zip_examples :
  zip_detect (Some zn_jar) = 4 /\
  zip_detect (Some (zn_jar ++ [bs "AndroidManifest.xml"])) = 14 /\
  zip_detect (Some [bs "AppxManifest.xml"; bs "AndroidManifest.xml"]) = 11 /\
  zip_detect (Some [bs "AndroidManifest.xml"; bs "AppxManifest.xml"]) = 14 /\
  zip_detect (Some [bs "extension.vsixmanifest"; bs "AppManifest.xaml"]) = 12 /\
  zip_detect (Some [bs "AppManifest.xaml"; bs "extension.vsixmanifest"]) = 13 /\
  zip_detect (Some [bs "./AndroidManifest.xml"]) = 14 /\ zip_detect (Some [bs "/AndroidManifest.xml"]) = 14 /\
  zip_detect (Some [bs "x/../AndroidManifest.xml"]) = 14 /\ zip_detect (Some [bs "AndroidManifest.xml/"]) = 14 /\
  zip_detect (Some [bs "res/AndroidManifest.xml"]) = 0 /\ zip_detect (Some [bs "androidmanifest.xml"]) = 0 /\
  zip_detect (Some (zn_jar ++ [bs "docs/sample.app/Info.plist"])) = 17 /\ spec_zip_type (zn_jar ++ [bs "docs/sample.app/Info.plist"]) = Some S_JAR /\
  zip_detect (Some [bs "Payload/Demo.app/Info.plist"]) = 17 /\ spec_zip_type [bs "Payload/Demo.app/Info.plist"] = Some S_IPA /\
  zip_detect (Some []) = 0 /\ zip_detect None = 0.
Proof. vm_compute. repeat split; reflexivity. Qed.

(* the suffixes of the names relic's JAR / APK (v1) signer writes: every string literal of sigNames that starts with "." *)
Definition jar_sig_suffixes : list bytes := filter (fun l => hd 0 l =? DOT) jar_sig_literals.
Lemma jar_suffixes_safe : forallb (fun s => sfx_safe s && (3 <=? zlen s) && negb (existsb (Z.eqb SLASH) s)) jar_sig_suffixes = true /\ jar_sig_suffixes <> [].
Proof. split; [vm_compute; reflexivity|discriminate]. Qed.
Lemma no_slash_dec s : existsb (Z.eqb SLASH) s = false -> no_slash s.
Proof.
  intros H Hin. assert (existsb (Z.eqb SLASH) s = true) by (apply existsb_exists; exists SLASH; split; [exact Hin|apply Z.eqb_refl]). congruence.
Qed.
Theorem jar_added_names_neutral alias s : In s jar_sig_suffixes -> no_slash alias -> neutral (jar_metaInf ++ alias ++ s) = true.
Proof.
  intros Hs Ha. destruct jar_suffixes_safe as [Hall _]. rewrite forallb_forall in Hall. specialize (Hall s Hs).
  apply andb_true_iff in Hall as [Hall Hns]. apply andb_true_iff in Hall as [Hsafe Hlen].
  change jar_metaInf with ([77; 69; 84; 65; 45; 73; 78; 70] ++ [SLASH]). rewrite <- app_assoc. cbn [app].
  apply (added_name_neutral [77; 69; 84; 65; 45; 73; 78; 70] alias s Hsafe); [lia|exact Ha|apply no_slash_dec; destruct (existsb (Z.eqb SLASH) s); [discriminate|reflexivity]|reflexivity].
Qed.
Lemma jar_fixed_names : neutral jar_metaInf = true /\ zip_member_action jar_manifestName = ZJar.
Proof. vm_compute. split; reflexivity. Qed.

Definition SFX_PSDSXS : bytes := bs ".psdsxs".
Definition SFX_RELS : bytes := bs ".rels".
Theorem vsix_added_names_neutral g :
  no_slash g ->
  neutral (vsix_xmlSigPath ++ SLASH :: g ++ SFX_PSDSXS) = true /\
  neutral (vsix_xmlSigPath ++ bs "/_rels" ++ SLASH :: g ++ bs ".psdsxs.rels") = true.
Proof.
  intros Hg. split.
  - apply added_name_neutral; [vm_compute; reflexivity|apply Z.leb_le; reflexivity|exact Hg|apply no_slash_dec; reflexivity|reflexivity].
  - rewrite app_assoc. apply added_name_neutral; [vm_compute; reflexivity|apply Z.leb_le; reflexivity|exact Hg|apply no_slash_dec; reflexivity|reflexivity].
Qed.
Lemma fixed_added_names_neutral :
  forallb neutral [appx_appxSignature; appx_appxCodeIntegrity; appx_appxBlockMap; appx_appxContentTypes;
                   vsix_contentTypesPath; vsix_originPath; vsix_rootRelsPath ++ bs "/.rels"; vsix_digSigPath ++ bs "/_rels/origin.psdor.rels"] = true.
Proof. vm_compute. reflexivity. Qed.

(* ---- the module table *)
Lemma table_facts :
  nodup_z nonzero_magics = true /\ nodup_b all_names = true /\
  subset_z detect_types nonzero_magics = true /\ subset_z nonzero_magics detect_types = true /\
  Z.of_nat (length (nodup Z.eq_dec (0 :: nonzero_magics))) = magic_FileType_count.
Proof. vm_compute. repeat split; reflexivity. Qed.
Lemma table_self_lookup m : In m signers_table ->
  by_name (m_name m) = Some m /\ (forall a, In a (m_aliases m) -> by_name a = Some m) /\ (m_magic m <> 0 -> by_magic (m_magic m) = Some m) /\
  server_route (m_name m) = (if token_sign_refuses_verify_only (m_has_sign m) then Refused E_NO_SIGNER else Chosen m).
Proof.
  intros H. unfold signers_table in H. cbn [In] in H.
  repeat (destruct H as [<-|H]; [split; [reflexivity|split; [cbn [m_aliases In]; intros a Ha; repeat (destruct Ha as [<-|Ha]; [reflexivity|]); contradiction|split; [intros N; first [reflexivity|exfalso; apply N; reflexivity]|reflexivity]]]|]).
  contradiction.
Qed.
Lemma by_file_in_table sigtype name o det m : by_file sigtype name o det = Chosen m -> In m signers_table.
Proof.
  unfold by_file. intros H.
  repeat match type of H with
         | (if ?c then _ else _) = _ => destruct c
         | match ?x with _ => _ end = _ => destruct x eqn:?
         end; try discriminate; injection H as <-;
  match goal with
  | E : by_name _ = Some _ |- _ => apply by_name_in_sound in E as [E _]; exact E
  | E : by_magic _ = Some _ |- _ => unfold by_magic in E; destruct (signers_bymagic_refuses _); [discriminate|]; apply by_magic_in_sound in E as [E _]; exact E
  | E : by_filename _ = Some _ |- _ => idtac
  end.
  all: match goal with E : by_filename ?n = Some _ |- _ => rewrite filename_rules in E; unfold ps_module, dmg_module in E;
         repeat match type of E with (if ?c then _ else _) = _ => destruct c end; try discriminate; apply by_name_in_sound in E as [E _]; exact E end.
Qed.
Lemma sign_route_can_sign sigtype name o det m : sign_route sigtype name o det = Chosen m -> In m signers_table /\ token_sign_refuses_verify_only (m_has_sign m) = false.
Proof.
  unfold sign_route. destruct (by_file sigtype name o det) as [m'|e] eqn:E; [|discriminate].
  destruct (token_sign_refuses_verify_only (m_has_sign m')) eqn:Ev; [discriminate|].
  destruct (signers_byfile_stdin name && token_sign_refuses_stdin (m_stdin m')); [discriminate|].
  intros H. injection H as <-. split; [exact (by_file_in_table _ _ _ _ _ E)|exact Ev].
Qed.

(* ---- file names *)
Definition spec_ps_exts : list bytes := [bs ".ps1"; bs ".psm1"; bs ".psd1"; bs ".ps1xml"; bs ".psc1"; bs ".cdxml"; bs ".mof"].
Lemma ps_ext_facts :
  forallb (fun e => existsb (bytes_eqb e) (map fst ps_ext_table)) spec_ps_exts = true /\
  forallb (fun e => existsb (bytes_eqb e) spec_ps_exts) (map fst ps_ext_table) = true /\
  by_filename (bs "script.ps1") = ps_module /\ by_filename (bs "SCRIPT.PS1") = None /\ by_filename (bs "dir.ps1/readme") = None /\
  by_filename (bs "image.dmg") = dmg_module /\ by_filename (bs "image.DMG") = None /\ by_filename (bs "a.dmg.ps1") = ps_module /\
  is_some ps_module = true /\ is_some dmg_module = true.
Proof. vm_compute. repeat split; reflexivity. Qed.
(* content is looked at before the name: a PowerShell script whose first 256 bytes mention ":assembly" goes to the manifest signer *)
Lemma w_content_shadows_name :
  detect_ref w_ps1_assembly = 9 /\
  option_map m_name (route_mod (by_file [] (bs "load.ps1") true (Ok (detect_ref w_ps1_assembly, 0)))) = Some (bs "appmanifest") /\
  option_map m_name (by_filename (bs "load.ps1")) = Some (bs "ps") /\
  option_map m_name (vroute_mod (verify_route (bs "load.ps1") (Ok (detect_ref w_ps1_assembly, 0)))) = Some (bs "appmanifest").
Proof. vm_compute. repeat split; reflexivity. Qed.

(* ---- prefix clauses of the generated decision list never overlap *)
Definition incompatible (p q : bytes) : bool := negb (is_prefix p q || is_prefix q p).
Fixpoint clause_prefixes (cases : list (list mtest * mres)) : list (list bytes) :=
  match cases with [] => [] | (ts, r) :: rest => map fst (test_prefixes ts 0) :: clause_prefixes rest end.
Fixpoint cross_ok (cls : list (list bytes)) : bool :=
  match cls with [] => true | c :: r => forallb (fun p => forallb (fun c' => forallb (incompatible p) c') r) c && cross_ok r end.
Lemma prefix_clauses_disjoint : cross_ok (clause_prefixes magic_detect_cases) = true /\ cross_ok (clause_prefixes (map (fun e => (fst e, RTar)) magic_dc_cases) ++ clause_prefixes magic_detect_cases) = true.
Proof. vm_compute. split; reflexivity. Qed.

(* ---- reviewed shapes of the callers *)
Lemma callers_reviewed :
  signers_byfile_steps = [1; 2; 3; 3; 4; 5; 6; 7; 8] /\ verify_calls = [0; 1; 2; 3; 4; 5; 6] /\
  signers_byname_first_match = true /\ signers_bymagic_first_match = true /\ signers_byfilename_first_match = true /\
  verify_detects_compressed = true /\ verify_by_magic_first = true /\ verify_then_by_filename = true /\ verify_rewinds = true /\ verify_decompresses_for_stream = true /\
  token_sign_uses_byfile = true /\ remote_sign_uses_byfile = true /\ token_sign_probe_same_module = true /\ remote_sign_probe_same_module = true /\
  remote_sign_sends_module_name = true /\ server_sign_reads_sigtype = true /\ server_sign_by_name = true /\ server_sign_sniffs = false /\
  signers_issigned_prefers_stream = true /\ signers_testpath_known = true /\ magic_zip_cleans = true /\
  (forall b, token_sign_refuses_verify_only b = remote_sign_refuses_verify_only b) /\ (forall b, token_sign_refuses_stdin b = remote_sign_refuses_stdin b).
Proof. repeat split; reflexivity. Qed.

(* ---- per-module fields: who may read standard input, who signs with PGP keys *)
Lemma module_fields :
  map m_name (filter m_stdin signers_table) = [bs "pgp"] /\
  map m_name (filter (fun m => negb (Z.land (m_cert m) signers_CertTypePgp =? 0)) signers_table) = [bs "deb"; bs "pgp"; bs "rpm"] /\
  forallb (fun m => (m_cert m =? signers_CertTypeX509) || (m_cert m =? signers_CertTypePgp)) signers_table = true /\
  map m_name (filter (fun m => negb (m_has_sign m)) signers_table) = [bs "mach-o-fat"; bs "ipa"; bs "pkcs7"] /\
  forallb (fun m => m_has_verify m || m_has_stream m || bytes_eqb (m_name m) (bs "cosign")) signers_table = true.
Proof. vm_compute. repeat split; reflexivity. Qed.
Lemma stdin_rules :
  (forall det, sign_route [] (bs "-") true det = Refused E_STDIN) /\
  (forall det, option_map m_name (route_mod (sign_route (bs "pgp") (bs "-") true det)) = Some (bs "pgp")) /\
  (forall m det, In m signers_table -> m_has_sign m = true -> m_stdin m = false -> sign_route (m_name m) (bs "-") true det = Refused E_NO_STDIN) /\
  (forall m name det, In m signers_table -> m_has_sign m = false -> sign_route (m_name m) name true det = Refused E_VERIFY_ONLY).
Proof.
  split; [intros det; reflexivity|]. split; [intros det; reflexivity|]. split.
  - intros m det H Hs Hi. unfold signers_table in H. cbn [In] in H.
    repeat (destruct H as [<-|H]; [first [discriminate Hs|discriminate Hi|reflexivity]|]). contradiction.
  - intros m name det H Hs. unfold signers_table in H. cbn [In] in H.
    repeat (destruct H as [<-|H]; [first [discriminate Hs|reflexivity]|]). contradiction.
Qed.
