(* C18/Proofs.v — declarative specifications and lemmas for C18. *)
From Relic Require Import Base.Prelude Base.Enc Generated.C18_gen C18.UnicodeSpec C18.Model.
From Coq Require Import Permutation.

(* ================================================================== Part 1: red-black insertion *)
Section RBProofs.
Variable A : Type.
Variable lt : A -> A -> bool.
Notation tree := (tree A).
Notation ins := (ins A lt).
Notation insert := (insert A lt).

(* declarative red-black trees: rbt t c n = t has root colour c (E counts as black), no red node has a red child,
   and every path from the root to a leaf crosses exactly n black nodes *)
Inductive rbt : tree -> color -> nat -> Prop :=
| rbt_E : rbt E Black 0
| rbt_R l x r n : rbt l Black n -> rbt r Black n -> rbt (T Red l x r) Red n
| rbt_B l x r cl cr n : rbt l cl n -> rbt r cr n -> rbt (T Black l x r) Black (S n).

(* a valid red-black tree in the sense of the property: black root, no red-red, equal black height *)
Definition rb_valid (t : tree) : Prop := exists n, rbt t Black n.

(* red root whose children are red-black trees, at most one of them red: what insertion may hand to its parent *)
Inductive infrared : tree -> nat -> Prop :=
| infra l x r cl cr n : rbt l cl n -> rbt r cr n -> (cl = Black \/ cr = Black) -> infrared (T Red l x r) n.

Lemma rbt_is_red t c n : rbt t c n -> is_red A t = match c with Red => true | Black => false end.
Proof. destruct 1; reflexivity. Qed.

Lemma infrared_is_red t n : infrared t n -> is_red A t = true.
Proof. destruct 1; reflexivity. Qed.

Lemma rbt_blacken_red t n : rbt t Red n -> rbt (blacken A t) Black (S n).
Proof. inversion 1; subst. cbn. econstructor; eassumption. Qed.

Lemma infrared_blacken t n : infrared t n -> rbt (blacken A t) Black (S n).
Proof. destruct 1. cbn. econstructor; eassumption. Qed.

Ltac red_facts :=
  repeat match goal with
  | H : rbt ?t ?c ?n |- context [is_red A ?t] => rewrite (rbt_is_red _ _ _ H)
  | H : infrared ?t ?n |- context [is_red A ?t] => rewrite (infrared_is_red _ _ H)
  end; cbn [negb].

Definition ins_post (t' : tree) (c : color) (n : nat) : Prop :=
  match c with Black => exists c', rbt t' c' n | Red => infrared t' n end.

Lemma ins_rbt a t c n : rbt t c n -> ins_post (ins true a t) c n.
Proof.
  induction 1 as [| l x r n Hl IHl Hr IHr | l x r cl cr n Hl IHl Hr IHr]; cbn [ins ins_post].
  - exists Red. constructor; constructor.
  - (* red node, both children black *)
    remember (ins true a l) as l' eqn:El'. remember (ins true a r) as r' eqn:Er'. clear El' Er'.
    cbn [ins_post] in IHl, IHr. destruct IHl as [cl' Hl'], IHr as [cr' Hr'].
    destruct (lt x a).
    + destruct cr'.
      * red_facts. inversion Hr'; subst. cbn [right_of left_of]. red_facts.
        econstructor; [eassumption | eassumption | left; reflexivity].
      * red_facts. econstructor; [eassumption | eassumption | left; reflexivity].
    + destruct cl'.
      * red_facts. inversion Hl'; subst. cbn [right_of left_of]. red_facts.
        econstructor; [eassumption | eassumption | right; reflexivity].
      * red_facts. econstructor; [eassumption | eassumption | left; reflexivity].
  - (* black node *)
    remember (ins true a l) as l' eqn:El'. remember (ins true a r) as r' eqn:Er'. clear El' Er'.
    destruct (lt x a).
    + (* insertion on the right *)
      destruct cr; cbn [ins_post] in IHr.
      * (* right child red: the result below is infrared *)
        red_facts. destruct cl; red_facts.
        { exists Red. constructor; [eapply rbt_blacken_red; eassumption | eapply infrared_blacken; eassumption]. }
        destruct IHr as [rl rx rr c1 c2 n H1 H2 Hor]. cbn [right_of left_of].
        destruct c2; red_facts.
        { (* right-right red: single rotation *)
          destruct Hor as [->|Hc]; [|discriminate]. cbn [rotate_left].
          exists Black. econstructor; [econstructor; eassumption | eassumption]. }
        destruct c1; red_facts.
        { (* right-left red: double rotation *)
          inversion H1; subst. cbn [rotate_right rotate_left].
          exists Black. econstructor; econstructor; eassumption. }
        exists Black. econstructor; [eassumption | econstructor; eassumption].
      * destruct IHr as [cr' Hr']. destruct cr'; red_facts.
        { destruct cl; red_facts.
          - exists Red. constructor; eapply rbt_blacken_red; eassumption.
          - inversion Hr'; subst. cbn [right_of left_of]. red_facts.
            exists Black. econstructor; eassumption. }
        exists Black. econstructor; eassumption.
    + (* insertion on the left *)
      destruct cl; cbn [ins_post] in IHl.
      * red_facts. destruct cr; red_facts.
        { exists Red. constructor; [eapply infrared_blacken; eassumption | eapply rbt_blacken_red; eassumption]. }
        destruct IHl as [ll lx lr c1 c2 n H1 H2 Hor]. cbn [right_of left_of].
        destruct c1; red_facts.
        { destruct Hor as [Hc| ->]; [discriminate|]. cbn [rotate_right].
          exists Black. econstructor; [eassumption | econstructor; eassumption]. }
        destruct c2; red_facts.
        { inversion H2; subst. cbn [rotate_right rotate_left].
          exists Black. econstructor; econstructor; eassumption. }
        exists Black. econstructor; [econstructor; eassumption | eassumption].
      * destruct IHl as [cl' Hl']. destruct cl'; red_facts.
        { destruct cr; red_facts.
          - exists Red. constructor; eapply rbt_blacken_red; eassumption.
          - inversion Hl'; subst. cbn [right_of left_of]. red_facts.
            exists Black. econstructor; eassumption. }
        exists Black. econstructor; eassumption.
Qed.

Lemma blacken_valid t c n : rbt t c n -> rb_valid (blacken A t).
Proof.
  destruct 1; cbn.
  - exists O. constructor.
  - exists (S n). econstructor; eassumption.
  - exists (S n). econstructor; eassumption.
Qed.

(* new nodes red + root blackened: validity is preserved by every insertion *)
Lemma rb_insert_valid a t : rb_valid t -> rb_valid (insert true true a t).
Proof.
  intros [n H]. unfold Model.insert. pose proof (ins_rbt a _ _ _ H) as [c' H']. cbn in H'.
  eapply blacken_valid; eassumption.
Qed.

Lemma rb_insert_all_valid l : rb_valid (insert_all A lt true true l).
Proof.
  unfold insert_all. assert (Hg : forall t, rb_valid t -> rb_valid (fold_left (fun t a => insert true true a t) l t)).
  { induction l as [|a l IH]; intros t Ht; cbn; [exact Ht|]. apply IH. apply rb_insert_valid; exact Ht. }
  apply Hg. exists O. constructor.
Qed.

(* ------------------------------------------------------------------ the boolean checker is exact *)
Lemma black_height_rbt t c n : rbt t c n -> black_height A t = Some n.
Proof.
  induction 1; cbn; [reflexivity| |]; rewrite IHrbt1, IHrbt2, Nat.eqb_refl; reflexivity.
Qed.
Lemma no_red_red_rbt t c n : rbt t c n -> no_red_red A t = true.
Proof.
  induction 1; cbn; [reflexivity| |].
  - rewrite (rbt_is_red _ _ _ H), (rbt_is_red _ _ _ H0), IHrbt1, IHrbt2. reflexivity.
  - rewrite IHrbt1, IHrbt2. reflexivity.
Qed.
Lemma rbt_of_checks t : no_red_red A t = true -> forall n, black_height A t = Some n ->
  rbt t (if is_red A t then Red else Black) n.
Proof.
  induction t as [|c l IHl x r IHr]; cbn; intros Hn n Hb.
  - inversion Hb. constructor.
  - destruct (black_height A l) as [a|] eqn:El; [|discriminate].
    destruct (black_height A r) as [b|] eqn:Er; [|discriminate].
    destruct (Nat.eqb a b) eqn:Eab; [|discriminate]. apply Nat.eqb_eq in Eab. subst b.
    apply andb_true_iff in Hn as [Hn Hnr]. apply andb_true_iff in Hn as [Hc Hnl].
    specialize (IHl Hnl a eq_refl). specialize (IHr Hnr a eq_refl).
    destruct c; inversion Hb; subst.
    + apply andb_true_iff in Hc as [H1 H2]. apply negb_true_iff in H1, H2. rewrite H1 in IHl. rewrite H2 in IHr.
      constructor; assumption.
    + econstructor; eassumption.
Qed.
Lemma rb_ok_iff t : rb_ok A t = true <-> rb_valid t.
Proof.
  unfold rb_ok, rb_valid. split.
  - intros H. apply andb_true_iff in H as [H Hb]. apply andb_true_iff in H as [Hr Hn].
    destruct (black_height A t) as [n|] eqn:E; [|discriminate]. exists n.
    pose proof (rbt_of_checks t Hn n E) as Ht. apply negb_true_iff in Hr. rewrite Hr in Ht. exact Ht.
  - intros [n H]. rewrite (rbt_is_red _ _ _ H), (no_red_red_rbt _ _ _ H), (black_height_rbt _ _ _ H). reflexivity.
Qed.

(* ------------------------------------------------------------------ search-tree order and contents *)
Fixpoint all (P : A -> Prop) (t : tree) : Prop :=
  match t with E => True | T _ l x r => P x /\ all P l /\ all P r end.
Fixpoint bst (t : tree) : Prop :=
  match t with
  | E => True
  | T _ l x r => all (fun y => lt y x = true) l /\ all (fun y => lt x y = true) r /\ bst l /\ bst r
  end.

Lemma all_b_iff p t : all_b A p t = true <-> all (fun y => p y = true) t.
Proof.
  induction t as [|c l IHl x r IHr]; cbn; [tauto|]. rewrite !andb_true_iff, IHl, IHr. tauto.
Qed.
Lemma bst_b_iff t : bst_b A lt t = true <-> bst t.
Proof.
  induction t as [|c l IHl x r IHr]; cbn; [tauto|]. rewrite !andb_true_iff, !all_b_iff, IHl, IHr. tauto.
Qed.
Lemma all_imp (P Q : A -> Prop) t : (forall y, P y -> Q y) -> all P t -> all Q t.
Proof. intros H. induction t; cbn; [tauto|]. intuition. Qed.
Lemma all_elements P t : all P t <-> Forall P (elements A t).
Proof.
  induction t as [|c l IHl x r IHr]; cbn; [split; constructor|].
  rewrite Forall_app, Forall_cons_iff, IHl, IHr. tauto.
Qed.
Lemma all_blacken P t : all P (blacken A t) <-> all P t.
Proof. destruct t; cbn; tauto. Qed.
Lemma bst_blacken t : bst (blacken A t) <-> bst t.
Proof. destruct t; cbn; tauto. Qed.
Lemma all_rotate_right P t : all P (rotate_right A t) <-> all P t.
Proof. destruct t as [|c [|c2 al ax ar] x r]; cbn; tauto. Qed.
Lemma all_rotate_left P t : all P (rotate_left A t) <-> all P t.
Proof. destruct t as [|c l x [|c2 bl bx br]]; cbn; tauto. Qed.

Hypothesis lt_trans : forall x y z, lt x y = true -> lt y z = true -> lt x z = true.

Lemma bst_rotate_right t : bst t -> bst (rotate_right A t).
Proof.
  destruct t as [|c [|c2 al ax ar] x r]; cbn; try tauto.
  intros ((Hax & Hal & Har) & Hr & (Hal' & Har' & Bal & Bar) & Br).
  repeat split; try assumption.
  eapply all_imp; [|exact Hr]. intros y Hy. cbn in Hy. eapply lt_trans; eassumption.
Qed.
Lemma bst_rotate_left t : bst t -> bst (rotate_left A t).
Proof.
  destruct t as [|c l x [|c2 bl bx br]]; cbn; try tauto.
  intros (Hl & (Hbx & Hbl & Hbr) & Bl & (Hbl' & Hbr' & Bbl & Bbr)).
  repeat split; try assumption.
  eapply all_imp; [|exact Hl]. intros y Hy. cbn in Hy. eapply lt_trans; eassumption.
Qed.

Lemma all_ins (P : A -> Prop) nr a t : P a -> all P t -> all P (ins nr a t).
Proof.
  intros Pa. induction t as [|c l IHl x r IHr]; cbn [ins]; intros H.
  - cbn. tauto.
  - cbn in H. destruct H as (Px & Hl & Hr). specialize (IHl Hl). specialize (IHr Hr).
    destruct (lt x a).
    + repeat match goal with |- context [if ?b then _ else _] => destruct b end;
        rewrite ?all_rotate_left; cbn [all]; rewrite ?all_blacken, ?all_rotate_right; tauto.
    + repeat match goal with |- context [if ?b then _ else _] => destruct b end;
        rewrite ?all_rotate_right; cbn [all]; rewrite ?all_blacken, ?all_rotate_left; tauto.
Qed.

(* the new key is comparable with (different from) every key already in the tree *)
Definition fresh (a : A) (t : tree) : Prop := all (fun y => lt a y = true \/ lt y a = true) t.

Lemma bst_ins nr a t : bst t -> fresh a t -> bst (ins nr a t).
Proof.
  induction t as [|c l IHl x r IHr]; cbn [ins]; intros B F.
  - cbn. tauto.
  - cbn in B, F. destruct B as (Hl & Hr & Bl & Br). destruct F as (Fx & Fl & Fr).
    specialize (IHl Bl Fl). specialize (IHr Br Fr).
    destruct (lt x a) eqn:Exa.
    + assert (Hr' : all (fun y => lt x y = true) (ins nr a r)) by (apply all_ins; assumption).
      assert (B0 : forall c0, bst (T c0 l x (ins nr a r))) by (intros; cbn; tauto).
      repeat match goal with |- context [if ?b then _ else _] => destruct b end; try apply B0.
      * cbn. rewrite !all_blacken, !bst_blacken. tauto.
      * apply bst_rotate_left. apply B0.
      * apply bst_rotate_left. cbn. rewrite all_rotate_right. repeat split; try assumption. apply bst_rotate_right; assumption.
    + assert (Hax : lt a x = true) by (destruct Fx as [H|H]; [exact H | congruence]).
      assert (Hl' : all (fun y => lt y x = true) (ins nr a l)) by (apply all_ins; assumption).
      assert (B0 : forall c0, bst (T c0 (ins nr a l) x r)) by (intros; cbn; tauto).
      repeat match goal with |- context [if ?b then _ else _] => destruct b end; try apply B0.
      * cbn. rewrite !all_blacken, !bst_blacken. tauto.
      * apply bst_rotate_right. apply B0.
      * apply bst_rotate_right. cbn. rewrite all_rotate_left. repeat split; try assumption. apply bst_rotate_left; assumption.
Qed.

Lemma elements_blacken t : elements A (blacken A t) = elements A t.
Proof. destruct t; reflexivity. Qed.
Lemma elements_rotate_right t : elements A (rotate_right A t) = elements A t.
Proof. destruct t as [|c [|c2 al ax ar] x r]; cbn; try reflexivity. rewrite <- app_assoc. reflexivity. Qed.
Lemma elements_rotate_left t : elements A (rotate_left A t) = elements A t.
Proof. destruct t as [|c l x [|c2 bl bx br]]; cbn; try reflexivity. rewrite <- app_assoc. reflexivity. Qed.

Lemma elements_ins nr a t : Permutation (elements A (ins nr a t)) (a :: elements A t).
Proof.
  induction t as [|c l IHl x r IHr]; cbn [ins].
  - cbn. apply Permutation_refl.
  - assert (PR : forall c0, Permutation (elements A (T c0 l x (ins nr a r))) (a :: elements A (T c l x r))).
    { intros. cbn. rewrite IHr. apply Permutation_sym. etransitivity; [apply Permutation_middle|].
      apply Permutation_app_head. apply perm_swap. }
    assert (PL : forall c0, Permutation (elements A (T c0 (ins nr a l) x r)) (a :: elements A (T c l x r))).
    { intros. cbn. rewrite IHl. apply Permutation_refl. }
    destruct (lt x a).
    + repeat match goal with |- context [if ?b then _ else _] => destruct b end; try apply PR.
      * cbn [elements]. rewrite !elements_blacken. apply (PR Red).
      * rewrite elements_rotate_left. apply PR.
      * rewrite elements_rotate_left. cbn [elements]. rewrite elements_rotate_right. apply (PR c).
    + repeat match goal with |- context [if ?b then _ else _] => destruct b end; try apply PL.
      * cbn [elements]. rewrite !elements_blacken. apply (PL Red).
      * rewrite elements_rotate_right. apply PL.
      * rewrite elements_rotate_right. cbn [elements]. rewrite elements_rotate_left. apply (PL c).
Qed.

Lemma bst_insert nr br a t : bst t -> fresh a t -> bst (insert nr br a t).
Proof. intros. unfold Model.insert. destruct br; [apply bst_blacken|]; apply bst_ins; assumption. Qed.
Lemma elements_insert nr br a t : Permutation (elements A (insert nr br a t)) (a :: elements A t).
Proof. unfold Model.insert. destruct br; [rewrite elements_blacken|]; apply elements_ins. Qed.

(* all keys pairwise comparable (a strict total order on distinct names gives this) *)
Fixpoint pairwise_cmp (l : list A) : Prop :=
  match l with [] => True | a :: r => Forall (fun y => lt a y = true \/ lt y a = true) r /\ pairwise_cmp r end.

Lemma insert_all_rev nr br l : pairwise_cmp l ->
  bst (insert_all A lt nr br (rev l)) /\ Permutation (elements A (insert_all A lt nr br (rev l))) l.
Proof.
  unfold insert_all. induction l as [|a l IH]; intros Hp.
  - cbn. split; [exact I | constructor].
  - cbn [rev]. rewrite fold_left_app. cbn [fold_left]. cbn in Hp. destruct Hp as [Hf Hp]. destruct (IH Hp) as [B P].
    split.
    + apply bst_insert; [exact B|]. unfold fresh. apply all_elements.
      eapply Permutation_Forall; [apply Permutation_sym; exact P|]. exact Hf.
    + rewrite elements_insert. rewrite P. apply Permutation_refl.
Qed.
Lemma insert_all_sound nr br l : pairwise_cmp (rev l) ->
  bst (insert_all A lt nr br l) /\ Permutation (elements A (insert_all A lt nr br l)) l.
Proof.
  intros Hp. destruct (insert_all_rev nr br (rev l) Hp) as [B P]. rewrite rev_involutive in B, P.
  split; [exact B|]. rewrite P. apply Permutation_sym, Permutation_rev.
Qed.
End RBProofs.

(* the code as it stands: nodes are created black and nothing is ever recoloured red at creation, so three ascending
   insertions give a right spine of three black nodes: black heights 1 and 3 at the root *)
Lemma rb_current_refuted : exists l : list Z, ~ rb_valid Z (insert_all Z Z.ltb false false l).
Proof.
  exists [0; 1; 2]. intros H. apply rb_ok_iff in H. vm_compute in H. discriminate.
Qed.
Lemma rb_current_refuted_two : ~ rb_valid Z (insert_all Z Z.ltb false false [0; 1]).
Proof. intros H. apply rb_ok_iff in H. vm_compute in H. discriminate. Qed.

(* ================================================================== Part 3: the MS-CFB validator is sound *)
(* declarative notions *)
Inductive chain (t : list Z) : Z -> list Z -> Prop :=
| chain_end : chain t ENDOFCHAIN []
| chain_step s l : 0 <= s < zlen t -> chain t (znth s t) l -> chain t s (s :: l).

Inductive difat_chain (b : bytes) (ss nsect : Z) : Z -> list Z -> Prop :=
| dc_end : difat_chain b ss nsect ENDOFCHAIN []
| dc_step s l : 0 <= s < nsect -> difat_chain b ss nsect (difat_next b ss s) l -> difat_chain b ss nsect s (s :: l).

Inductive dtree (ents : list dirent) : Z -> tree Z -> Prop :=
| dt_none : dtree ents NOSTREAM E
| dt_node i e l r : nth_ent ents i = Some e -> is_object e = true ->
    dtree ents (d_left e) l -> dtree ents (d_right e) r ->
    dtree ents i (T (if d_color e =? 0 then Red else Black) l i r).

Definition valid_with (b : bytes) (L : layout) : Prop :=
  let h := parse_header b in
  let ss := sector_size h in
  let nsect := sector_count b h in
  let fat := fat_of b ss (l_fatsects L) in
  let ents := dirents b ss (l_dir L) in
  let minifat := fat_of b ss (l_mf L) in
  let owned := l_fatsects L ++ l_difsects L ++ l_dir L ++ l_mf L ++ l_ms L ++ concat (l_big L) in
  let nodes := concat (map (elements Z) (l_trees L)) in
  header_ok b = true /\
  (* DIFAT: its sector chain, the FAT sector list it carries (no gaps), header counts *)
  difat_chain b ss nsect (h_dif0 h) (l_difsects L) /\ zlen (l_difsects L) = h_ndif h /\
  (exists k, difat_entries b h (l_difsects L) = l_fatsects L ++ repeat FREESECT k) /\
  Forall (fun s => 0 <= s < nsect) (l_fatsects L) /\ zlen (l_fatsects L) = h_nfat h /\
  (* the FAT covers the file and allocates nothing beyond it *)
  nsect <= zlen fat /\ (forall i, nsect <= i < zlen fat -> znth i fat = FREESECT) /\
  (* FAT and DIFAT sectors carry their markers and nothing else does *)
  (forall i, In i (l_fatsects L) <-> 0 <= i < zlen fat /\ znth i fat = FATSECT) /\
  (forall i, In i (l_difsects L) <-> 0 <= i < zlen fat /\ znth i fat = DIFSECT) /\
  (* directory chain, mini FAT chain, header counts *)
  chain fat (h_dir0 h) (l_dir L) /\ l_dir L <> [] /\
  (if h_major h =? 3 then h_ndir h = 0 else h_ndir h = zlen (l_dir L)) /\
  chain fat (h_mf0 h) (l_mf L) /\ zlen (l_mf L) = h_nmf h /\
  (* directory entries: syntactically well formed, entry 0 is the only root *)
  Forall (fun e => dirent_ok (h_major h) e = true) ents /\
  (exists root rest, ents = root :: rest /\ d_type root = 5 /\ Forall (fun e => d_type e <> 5) rest /\
     (* mini stream container and the streams stored in it *)
     chain fat (d_start root) (l_ms L) /\ d_size root <= zlen (l_ms L) * ss /\
     (forall i, zlen (l_ms L) * ss / 64 <= i < zlen minifat -> znth i minifat = FREESECT) /\
     Forall2 (fun e ch => chain minifat (d_start e) ch /\ zlen ch = ceil_div (d_size e) 64 /\
                          Forall (fun s => (s + 1) * 64 <= d_size root) ch)
             (mini_streams (h_cutoff h) ents) (l_mini L)) /\
  (* streams at or above the cutoff *)
  Forall2 (fun e ch => chain fat (d_start e) ch /\ zlen ch = ceil_div (d_size e) ss)
          (big_streams (h_cutoff h) ents) (l_big L) /\
  (* every allocated sector belongs to exactly one structure; nothing else is allocated *)
  NoDup owned /\ (forall i, In i owned <-> 0 <= i < nsect /\ znth i fat <> FREESECT) /\
  NoDup (concat (l_mini L)) /\
  (forall i, In i (concat (l_mini L)) <-> 0 <= i < zlen minifat /\ znth i minifat <> FREESECT) /\
  (* each storage's children: a tree of entries, ordered by the MS-CFB name order, valid red-black;
     every stream/storage entry is in exactly one tree *)
  Forall2 (fun e t => dtree ents (d_child e) t /\ bst Z (ent_lt ents) t /\ rb_valid Z t) (storages ents) (l_trees L) /\
  NoDup nodes /\ (forall i, In i nodes <-> exists e, nth_ent ents i = Some e /\ is_object e = true).

Definition cfb_valid (b : bytes) : Prop := exists L, valid_with b L.

(* ------------------------------------------------------------------ small lemmas *)
Lemma walk_sound fuel t s l : walk fuel t (zlen t) s = Some l -> chain t s l.
Proof.
  revert s l. induction fuel as [|k IH]; intros s l; cbn [walk].
  - destruct (s =? ENDOFCHAIN) eqn:E; [|discriminate]. intros H; inversion H. apply Z.eqb_eq in E. subst. constructor.
  - destruct (s =? ENDOFCHAIN) eqn:E.
    + intros H; inversion H. apply Z.eqb_eq in E. subst. constructor.
    + destruct ((0 <=? s) && (s <? zlen t)) eqn:B; [|discriminate].
      destruct (walk k t (zlen t) (znth s t)) as [l'|] eqn:W; [|discriminate].
      intros H; inversion H; subst. constructor; [lia | apply IH; exact W].
Qed.
Lemma walk_table_sound t s l : walk_table t s = Some l -> chain t s l.
Proof. apply walk_sound. Qed.

Lemma walk_difat_sound fuel b ss nsect s l : walk_difat fuel b ss nsect s = Some l -> difat_chain b ss nsect s l.
Proof.
  revert s l. induction fuel as [|k IH]; intros s l; cbn [walk_difat].
  - destruct (s =? ENDOFCHAIN) eqn:E; [|discriminate]. intros H; inversion H. apply Z.eqb_eq in E. subst. constructor.
  - destruct (s =? ENDOFCHAIN) eqn:E.
    + intros H; inversion H. apply Z.eqb_eq in E. subst. constructor.
    + destruct ((0 <=? s) && (s <? nsect)) eqn:B; [|discriminate].
      destruct (walk_difat k b ss nsect (difat_next b ss s)) as [l'|] eqn:W; [|discriminate].
      intros H; inversion H; subst. constructor; [lia | apply IH; exact W].
Qed.

Lemma take_drop_used l : l = take_used l ++ drop_used l.
Proof.
  induction l as [|v r IH]; cbn; [reflexivity|]. destruct (v =? FREESECT); cbn; [reflexivity|]. f_equal. exact IH.
Qed.
Lemma all_free_repeat l : all_free l = true -> l = repeat FREESECT (length l).
Proof.
  induction l as [|v r IH]; cbn; [reflexivity|]. intros H. apply andb_true_iff in H as [H1 H2].
  apply Z.eqb_eq in H1. subst. f_equal. apply IH. exact H2.
Qed.
Lemma all_free_nth l : all_free l = true -> forall n, (n < length l)%nat -> nth n l FREESECT = FREESECT.
Proof.
  induction l as [|v r IH]; cbn; intros H n Hn; [lia|]. apply andb_true_iff in H as [H1 H2].
  destruct n; [apply Z.eqb_eq; exact H1 | apply IH; [exact H2 | lia]].
Qed.
Lemma nth_skipn' {X} (k n : nat) (l : list X) d : nth n (skipn k l) d = nth (k + n) l d.
Proof.
  revert l. induction k as [|k IH]; intros l; [reflexivity|]. destruct l as [|x r]; [destruct n; reflexivity|]. cbn. apply IH.
Qed.
Lemma all_free_zdrop n l : 0 <= n -> all_free (zdrop n l) = true -> forall i, n <= i < zlen l -> znth i l = FREESECT.
Proof.
  intros Hn H i Hi. unfold znth. destruct (i <? 0) eqn:E; [lia|].
  pose proof (all_free_nth _ H (Z.to_nat i - Z.to_nat n)%nat) as Hx.
  unfold zdrop in Hx. rewrite nth_skipn' in Hx. rewrite skipn_length in Hx. unfold zlen in Hi.
  replace (Z.to_nat n + (Z.to_nat i - Z.to_nat n))%nat with (Z.to_nat i) in Hx by lia. apply Hx. lia.
Qed.

Lemma forallb2_Forall2 {X Y} (f : X -> Y -> bool) a b : forallb2 f a b = true -> Forall2 (fun x y => f x y = true) a b.
Proof.
  revert b. induction a as [|x a IH]; intros [|y b]; cbn; intros H; try discriminate; [constructor|].
  apply andb_true_iff in H as [H1 H2]. constructor; [exact H1 | apply IH; exact H2].
Qed.
Lemma map_opt_Forall2 {X Y} (f : X -> option Y) l ys : map_opt f l = Some ys -> Forall2 (fun x y => f x = Some y) l ys.
Proof.
  revert ys. induction l as [|x l IH]; cbn; intros ys H.
  - inversion H. constructor.
  - destruct (f x) as [y|] eqn:E; [|discriminate]. destruct (map_opt f l) as [ys'|]; [|discriminate].
    inversion H; subst. constructor; [exact E | apply IH; reflexivity].
Qed.
Lemma Forall2_and {X Y} (P Q : X -> Y -> Prop) a b : Forall2 P a b -> Forall2 Q a b -> Forall2 (fun x y => P x y /\ Q x y) a b.
Proof. induction 1; intros H2; inversion H2; subst; constructor; auto. Qed.
Lemma Forall2_imp {X Y} (P Q : X -> Y -> Prop) a b : (forall x y, P x y -> Q x y) -> Forall2 P a b -> Forall2 Q a b.
Proof. intros H. induction 1; constructor; auto. Qed.

(* indices carrying a given value *)
Lemma marked_In v t : forall j i, In i (marked v j t) <-> j <= i < j + zlen t /\ nth (Z.to_nat (i - j)) t FREESECT = v.
Proof.
  induction t as [|x r IH]; intros j i; cbn [marked].
  - unfold zlen; cbn; split; [tauto | lia].
  - rewrite zlen_cons. pose proof (zlen_nonneg r) as Hr. destruct (x =? v) eqn:E.
    + cbn [In]. rewrite IH. apply Z.eqb_eq in E. split.
      * intros [->|[H1 H2]]; [split; [lia|]; rewrite Z.sub_diag; exact E|].
        split; [lia|]. replace (Z.to_nat (i - j)) with (S (Z.to_nat (i - (j + 1)))) by lia. exact H2.
      * intros [H1 H2]. destruct (Z.eq_dec i j) as [->|Hne]; [left; reflexivity|right].
        split; [lia|]. replace (Z.to_nat (i - j)) with (S (Z.to_nat (i - (j + 1)))) in H2 by lia. exact H2.
    + rewrite IH. apply Z.eqb_neq in E. split.
      * intros [H1 H2]. split; [lia|]. replace (Z.to_nat (i - j)) with (S (Z.to_nat (i - (j + 1)))) by lia. exact H2.
      * intros [H1 H2]. destruct (Z.eq_dec i j) as [->|Hne]; [rewrite Z.sub_diag in H2; cbn in H2; congruence|].
        split; [lia|]. replace (Z.to_nat (i - j)) with (S (Z.to_nat (i - (j + 1)))) in H2 by lia. exact H2.
Qed.
Lemma marked_lb v t : forall j, Forall (fun i => j <= i) (marked v j t).
Proof.
  induction t as [|x r IH]; intros j; cbn [marked]; [constructor|].
  destruct (x =? v); [constructor; [lia|]|]; eapply Forall_impl; [|apply IH| |apply IH]; cbn; intros; lia.
Qed.
Lemma marked_NoDup v t : forall j, NoDup (marked v j t).
Proof.
  induction t as [|x r IH]; intros j; cbn [marked]; [constructor|].
  destruct (x =? v); [|apply IH]. constructor; [|apply IH].
  intros Hin. pose proof (marked_lb v r (j + 1)) as Hlb. rewrite Forall_forall in Hlb. specialize (Hlb _ Hin). lia.
Qed.
Lemma znth_nth i t : 0 <= i -> znth i t = nth (Z.to_nat i) t FREESECT.
Proof. intros. unfold znth. destruct (i <? 0) eqn:E; [lia|reflexivity]. Qed.

(* indices of used entries *)
Lemma used_from_In t : forall n j i, In i (used_from j n t) <->
  j <= i < j + Z.of_nat (Nat.min n (length t)) /\ nth (Z.to_nat (i - j)) t FREESECT <> FREESECT.
Proof.
  induction t as [|x r IH]; intros n j i.
  - destruct n; cbn; (split; [tauto|lia]).
  - destruct n as [|k]; [cbn; split; [tauto|lia]|]. cbn [used_from length Nat.min].
    destruct (x =? FREESECT) eqn:E.
    + rewrite IH. apply Z.eqb_eq in E. split.
      * intros [H1 H2]. split; [lia|]. replace (Z.to_nat (i - j)) with (S (Z.to_nat (i - (j + 1)))) by lia. exact H2.
      * intros [H1 H2]. destruct (Z.eq_dec i j) as [->|Hne]; [rewrite Z.sub_diag in H2; cbn in H2; congruence|].
        split; [lia|]. replace (Z.to_nat (i - j)) with (S (Z.to_nat (i - (j + 1)))) in H2 by lia. exact H2.
    + cbn [In]. rewrite IH. apply Z.eqb_neq in E. split.
      * intros [->|[H1 H2]]; [split; [lia|]; rewrite Z.sub_diag; exact E|].
        split; [lia|]. replace (Z.to_nat (i - j)) with (S (Z.to_nat (i - (j + 1)))) by lia. exact H2.
      * intros [H1 H2]. destruct (Z.eq_dec i j) as [->|Hne]; [left; reflexivity|right].
        split; [lia|]. replace (Z.to_nat (i - j)) with (S (Z.to_nat (i - (j + 1)))) in H2 by lia. exact H2.
Qed.
Lemma used_from_NoDup t : forall n j, NoDup (used_from j n t).
Proof.
  induction t as [|x r IH]; intros n j; destruct n as [|k]; cbn [used_from]; try constructor.
  destruct (x =? FREESECT); [apply IH|]. constructor; [|apply IH].
  intros Hin. apply used_from_In in Hin. lia.
Qed.

(* sorted equality gives "same elements, no repetition" *)
Lemma sort_eq_spec l u : list_eqb Z.eqb (ZSort.sort l) u = true -> NoDup u -> NoDup l /\ forall i, In i l <-> In i u.
Proof.
  intros H Hu. apply list_eqb_Z_eq in H. pose proof (ZSort.Permuted_sort l) as P. rewrite H in P.
  split.
  - eapply Permutation_NoDup; [apply Permutation_sym; exact P | exact Hu].
  - intros i. split; intros Hi; [eapply Permutation_in; [exact P|exact Hi] | eapply Permutation_in; [apply Permutation_sym; exact P|exact Hi]].
Qed.

(* directory trees *)
Lemma build_sound fuel ents : forall i bud t bud', build fuel ents i bud = Some (t, bud') -> dtree ents i t.
Proof.
  induction fuel as [|k IH]; intros i bud t bud'; cbn [build].
  - destruct (i =? NOSTREAM) eqn:E; [|discriminate]. intros H; inversion H. apply Z.eqb_eq in E. subst. constructor.
  - destruct (i =? NOSTREAM) eqn:E.
    + intros H; inversion H. apply Z.eqb_eq in E. subst. constructor.
    + destruct bud as [|bud]; [discriminate|].
      destruct (nth_ent ents i) as [e|] eqn:Ee; [|discriminate].
      destruct (is_object e) eqn:Eo; [|discriminate].
      destruct (build k ents (d_left e) bud) as [[l b1]|] eqn:El; [|discriminate].
      destruct (build k ents (d_right e) b1) as [[r b2]|] eqn:Er; [|discriminate].
      intros H; inversion H; subst. econstructor; eauto.
Qed.
Lemma build_tree_sound ents i t : build_tree ents i = Some t -> dtree ents i t.
Proof.
  unfold build_tree. destruct (build (S (length ents)) ents i (length ents)) as [[t' b']|] eqn:E; [|discriminate].
  intros H; inversion H; subst. eapply build_sound; exact E.
Qed.

(* ------------------------------------------------------------------ what a computed layout guarantees by construction *)
Lemma cfb_layout_facts b L : cfb_layout b = Some L ->
  let h := parse_header b in
  let ss := sector_size h in
  let nsect := sector_count b h in
  let fat := fat_of b ss (l_fatsects L) in
  let ents := dirents b ss (l_dir L) in
  let minifat := fat_of b ss (l_mf L) in
  difat_chain b ss nsect (h_dif0 h) (l_difsects L) /\
  l_fatsects L = take_used (difat_entries b h (l_difsects L)) /\
  Forall (fun s => 0 <= s < nsect) (l_fatsects L) /\
  chain fat (h_dir0 h) (l_dir L) /\ chain fat (h_mf0 h) (l_mf L) /\
  (exists root rest, ents = root :: rest /\ chain fat (d_start root) (l_ms L)) /\
  Forall2 (fun e ch => chain fat (d_start e) ch) (big_streams (h_cutoff h) ents) (l_big L) /\
  Forall2 (fun e ch => chain minifat (d_start e) ch) (mini_streams (h_cutoff h) ents) (l_mini L) /\
  Forall2 (fun e t => dtree ents (d_child e) t) (storages ents) (l_trees L).
Proof.
  unfold cfb_layout. intros H.
  set (h := parse_header b) in *. set (ss := sector_size h) in *. set (nsect := sector_count b h) in *.
  destruct (walk_difat (S (Z.to_nat nsect)) b ss nsect (h_dif0 h)) as [difsects|] eqn:Ed; [|discriminate].
  set (fatsects := take_used (difat_entries b h difsects)) in *.
  destruct (negb (forallb (fun s => (0 <=? s) && (s <? nsect)) fatsects)) eqn:Ef; [discriminate|].
  set (fat := fat_of b ss fatsects) in *.
  destruct (walk_table fat (h_dir0 h)) as [dir|] eqn:Edir; [|discriminate].
  destruct (walk_table fat (h_mf0 h)) as [mf|] eqn:Emf; [|discriminate].
  destruct (negb (forallb (fun s => s <? nsect) (dir ++ mf))) eqn:Eb; [discriminate|].
  set (ents := dirents b ss dir) in *. set (minifat := fat_of b ss mf) in *.
  destruct ents as [|root rest] eqn:Eents; [discriminate|].
  destruct (walk_table fat (d_start root)) as [ms|] eqn:Ems; [|discriminate].
  destruct (map_opt (fun e => walk_table fat (d_start e)) (big_streams (h_cutoff h) (root :: rest))) as [big|] eqn:Ebig; [|discriminate].
  destruct (map_opt (fun e => walk_table minifat (d_start e)) (mini_streams (h_cutoff h) (root :: rest))) as [mini|] eqn:Emini; [|discriminate].
  destruct (map_opt (fun e => build_tree (root :: rest) (d_child e)) (storages (root :: rest))) as [trees|] eqn:Etrees; [|discriminate].
  inversion H; subst L; clear H. cbn [l_difsects l_fatsects l_dir l_mf l_ms l_big l_mini l_trees].
  fold fatsects. fold fat. fold minifat. subst ents. rewrite Eents.
  repeat split.
  - eapply walk_difat_sound; exact Ed.
  - apply negb_false_iff in Ef. rewrite forallb_forall in Ef. apply Forall_forall. intros s Hs. specialize (Ef s Hs). lia.
  - apply walk_table_sound; exact Edir.
  - apply walk_table_sound; exact Emf.
  - exists root, rest. split; [reflexivity | apply walk_table_sound; exact Ems].
  - eapply Forall2_imp; [|apply map_opt_Forall2; exact Ebig]. cbn. intros e ch Hc. apply walk_table_sound; exact Hc.
  - eapply Forall2_imp; [|apply map_opt_Forall2; exact Emini]. cbn. intros e ch Hc. apply walk_table_sound; exact Hc.
  - eapply Forall2_imp; [|apply map_opt_Forall2; exact Etrees]. cbn. intros e t Hc. apply build_tree_sound; exact Hc.
Qed.

Lemma object_indices_spec ents i :
  In i (object_indices ents) <-> exists e, nth_ent ents i = Some e /\ is_object e = true.
Proof.
  unfold object_indices. rewrite marked_In. unfold nth_ent, zlen. rewrite map_length. rewrite Z.sub_0_r. split.
  - intros [H1 H2]. destruct (i <? 0) eqn:E; [lia|].
    destruct (nth_error ents (Z.to_nat i)) as [e|] eqn:Ee.
    + exists e. split; [reflexivity|].
      rewrite (nth_indep _ FREESECT 0) in H2 by (rewrite map_length; lia).
      change 0 with ((fun e => if is_object e then 1 else 0) (mkDirent [] 0 0 0 0 0 0 [] 0 0 0 0 0)) in H2 at 2.
      rewrite map_nth in H2. erewrite nth_error_nth in H2 by exact Ee. destruct (is_object e); [reflexivity|discriminate].
    + apply nth_error_None in Ee. lia.
  - intros (e & He & Ho). destruct (i <? 0) eqn:E; [discriminate|].
    assert (Hlt : (Z.to_nat i < length ents)%nat) by (apply nth_error_Some; congruence).
    split; [lia|].
    rewrite (nth_indep _ FREESECT 0) by (rewrite map_length; lia).
    change 0 with ((fun e => if is_object e then 1 else 0) (mkDirent [] 0 0 0 0 0 0 [] 0 0 0 0 0)) at 2.
    rewrite map_nth. erewrite nth_error_nth by exact He. rewrite Ho. reflexivity.
Qed.

Lemma in_marked_znth v t i : In i (marked v 0 t) <-> 0 <= i < zlen t /\ nth (Z.to_nat i) t FREESECT = v.
Proof. rewrite marked_In. rewrite Z.sub_0_r. tauto. Qed.

(* ------------------------------------------------------------------ soundness of the validator *)
Theorem cfb_check_sound b : cfb_check b = true -> cfb_valid b.
Proof.
  unfold cfb_check. intros H. apply andb_true_iff in H as [Hh H].
  destruct (cfb_layout b) as [L|] eqn:EL; [|discriminate].
  pose proof (cfb_layout_facts b L EL) as F. cbv zeta in F.
  destruct F as (Fdif & Ffat & Ffatb & Fdir & Fmf & (root & rest & Eents & Fms) & Fbig & Fmini & Ftrees).
  unfold cfb_conditions in H. cbv zeta in H. cbn [forallb snd] in H.
  rewrite Eents in H, Fbig, Fmini, Ftrees.
  repeat (apply andb_true_iff in H; let Hx := fresh "C" in destruct H as [Hx H]).
  clear H.
  exists L. unfold valid_with. cbv zeta. rewrite Eents.
  set (h := parse_header b) in *. set (ss := sector_size h) in *. set (nsect := sector_count b h) in *.
  set (fat := fat_of b ss (l_fatsects L)) in *. set (minifat := fat_of b ss (l_mf L)) in *.
  assert (Hnsect : 0 <= nsect).
  { unfold header_ok in Hh. fold h in Hh. fold ss in Hh. repeat (apply andb_true_iff in Hh as [Hh ?]).
    unfold nsect, sector_count. fold ss. assert (0 < ss) by (unfold ss, sector_size; apply Z.pow_pos_nonneg; [lia|];
      destruct ((h_major h =? 3) && (h_sshift h =? 9)) eqn:E1; lia).
    assert (1 <= zlen b / ss) by (apply Z.div_le_lower_bound; lia). lia. }
  (* sorted-equality conditions *)
  apply andb_true_iff in C3 as [C3a C3b].
  destruct (sort_eq_spec _ _ C3a (marked_NoDup _ _ _)) as [_ Mfat].
  destruct (sort_eq_spec _ _ C3b (marked_NoDup _ _ _)) as [_ Mdif].
  destruct (sort_eq_spec _ _ C10 (used_from_NoDup _ _ _)) as [Nown Mown].
  destruct (sort_eq_spec _ _ C11 (used_from_NoDup _ _ _)) as [Nmini Mmini].
  destruct (sort_eq_spec _ _ C14 (marked_NoDup _ _ _)) as [Nnodes Mnodes].
  apply andb_true_iff in C2 as [C2a C2b]. apply andb_true_iff in C4 as [C4a C4b].
  apply andb_true_iff in C6 as [C6a C6b]. apply andb_true_iff in C7 as [C7a C7b].
  repeat match goal with |- _ /\ _ => split end.
  - exact Hh.
  - exact Fdif.
  - lia.
  - exists (length (drop_used (difat_entries b h (l_difsects L)))).
    rewrite Ffat at 1. rewrite <- (all_free_repeat _ C0). apply take_drop_used.
  - exact Ffatb.
  - lia.
  - lia.
  - apply all_free_zdrop; [exact Hnsect | exact C2b].
  - intros i. split.
    + intros Hi. apply Mfat in Hi. apply in_marked_znth in Hi. destruct Hi as [Hi Hv]. rewrite znth_nth by lia. tauto.
    + intros [Hi Hv]. apply Mfat. apply in_marked_znth. split; [exact Hi|]. rewrite znth_nth in Hv by lia. exact Hv.
  - intros i. split.
    + intros Hi. apply Mdif in Hi. apply in_marked_znth in Hi. destruct Hi as [Hi Hv]. rewrite znth_nth by lia. tauto.
    + intros [Hi Hv]. apply Mdif. apply in_marked_znth. split; [exact Hi|]. rewrite znth_nth in Hv by lia. exact Hv.
  - exact Fdir.
  - intros Hnil. rewrite Hnil in C4a. cbn in C4a. discriminate.
  - destruct (h_major h =? 3); lia.
  - exact Fmf.
  - lia.
  - apply Forall_forall. rewrite forallb_forall in C6a. exact C6a.
  - exists root, rest. repeat match goal with |- _ /\ _ => split end.
    + reflexivity.
    + apply andb_true_iff in C6b as [Hr _]. lia.
    + apply andb_true_iff in C6b as [_ Hr]. rewrite forallb_forall in Hr. apply Forall_forall. intros e He.
      specialize (Hr e He). destruct (d_type e =? 5) eqn:E5; [discriminate | lia].
    + exact Fms.
    + lia.
    + apply all_free_zdrop; [|exact C7b]. apply Z.div_pos; [|lia].
      apply Z.mul_nonneg_nonneg; [apply zlen_nonneg|]. unfold ss, sector_size. apply Z.pow_nonneg. lia.
    + apply forallb2_Forall2 in C9. pose proof (Forall2_and _ _ _ _ Fmini C9) as Hx.
      eapply Forall2_imp; [|exact Hx]. cbn. intros e ch [Hc Hb]. apply andb_true_iff in Hb as [Hb1 Hb2].
      split; [exact Hc|]. split; [lia|]. apply Forall_forall. rewrite forallb_forall in Hb2. intros s Hs. specialize (Hb2 s Hs). lia.
  - apply forallb2_Forall2 in C8. pose proof (Forall2_and _ _ _ _ Fbig C8) as Hx.
    eapply Forall2_imp; [|exact Hx]. cbn. intros e ch [Hc Hb]. split; [exact Hc | lia].
  - exact Nown.
  - intros i. split.
    + intros Hi. apply Mown in Hi. apply used_from_In in Hi. destruct Hi as [Hi Hv]. rewrite Z.sub_0_r in Hv.
      rewrite znth_nth by lia. split; [lia | exact Hv].
    + intros [Hi Hv]. apply Mown. apply used_from_In. rewrite Z.sub_0_r. rewrite znth_nth in Hv by lia.
      split; [|exact Hv]. unfold zlen in C2a. lia.
  - exact Nmini.
  - intros i. split.
    + intros Hi. apply Mmini in Hi. apply used_from_In in Hi. destruct Hi as [Hi Hv]. rewrite Z.sub_0_r in Hv.
      rewrite znth_nth by lia. split; [unfold zlen; lia | exact Hv].
    + intros [Hi Hv]. apply Mmini. apply used_from_In. rewrite Z.sub_0_r. rewrite znth_nth in Hv by lia.
      split; [|exact Hv]. unfold zlen in Hi. lia.
  - assert (Hb : Forall (fun t => bst Z (ent_lt (root :: rest)) t /\ rb_valid Z t) (l_trees L)).
    { apply Forall_forall. intros t Ht. rewrite forallb_forall in C12, C13. split.
      - apply bst_b_iff. apply C12. exact Ht.
      - apply rb_ok_iff. apply C13. exact Ht. }
    clear - Ftrees Hb. induction Ftrees; [constructor|]. inversion Hb; subst. constructor; [tauto | auto].
  - exact Nnodes.
  - intros i. split.
    + intros Hi. apply object_indices_spec. apply Mnodes. exact Hi.
    + intros Hi. apply Mnodes. apply object_indices_spec. exact Hi.
Qed.

(* ================================================================== Part 2: sector allocation *)
(* chains in relic's signed tables *)
Inductive schain (t : list Z) : Z -> list Z -> Prop :=
| schain_end : schain t secid_eoc []
| schain_step s l : 0 <= s < zlen t -> schain t (sget t s) l -> schain t s (s :: l).

Lemma set_nat_length {X} n (v : X) l : length (set_nat n v l) = length l.
Proof. revert n; induction l as [|x r IH]; intros [|n]; cbn; auto. Qed.
Lemma sset_zlen t i v : zlen (sset t i v) = zlen t.
Proof. unfold zlen, sset. now rewrite set_nat_length. Qed.
Lemma set_nat_same {X} n (v d : X) l : (n < length l)%nat -> nth n (set_nat n v l) d = v.
Proof. revert n; induction l as [|x r IH]; intros [|n]; cbn; intros H; try lia; auto. apply IH. lia. Qed.
Lemma set_nat_other {X} n m (v d : X) l : n <> m -> nth m (set_nat n v l) d = nth m l d.
Proof. revert n m; induction l as [|x r IH]; intros [|n] [|m]; cbn; intros H; try congruence; auto. Qed.
Lemma sget_sset_same t i v : 0 <= i < zlen t -> sget (sset t i v) i = v.
Proof. intros H. unfold sget, sset. apply set_nat_same. unfold zlen in H. lia. Qed.
Lemma sget_sset_other t i j v : 0 <= i -> 0 <= j -> i <> j -> sget (sset t i v) j = sget t j.
Proof. intros Hi Hj H. unfold sget, sset. apply set_nat_other. lia. Qed.

(* ---- the scan loop *)
Lemma scan_free_spec t : forall i count l c, 0 < count -> scan_free i count t = (l, c) ->
  0 <= c /\ zlen l + c = count /\
  Forall (fun j => i <= j < i + zlen t /\ nth (Z.to_nat (j - i)) t 0 = secid_free) l /\
  (forall j, In j l -> i <= j) /\ NoDup l.
Proof.
  induction t as [|x r IH]; intros i count l c Hc H; cbn [scan_free] in H.
  - inversion H; subst. unfold zlen; cbn. repeat split; try lia; try constructor; try (intros j []).
  - rewrite zlen_cons. pose proof (zlen_nonneg r) as Hr. unfold mfs_skip in H.
    destruct (negb (x =? -1)) eqn:E.
    + destruct (IH _ _ _ _ Hc H) as (H1 & H2 & H3 & H4 & H5). repeat split; try assumption.
      * eapply Forall_impl; [|exact H3]. cbv beta. intros j [Hj Hv]. split; [lia|].
        replace (Z.to_nat (j - i)) with (S (Z.to_nat (j - (i + 1)))) by lia. exact Hv.
      * intros j Hj. specialize (H4 j Hj). lia.
    + apply negb_false_iff in E. apply Z.eqb_eq in E. subst x.
      destruct (count - 1 =? 0) eqn:E1.
      * inversion H; subst. unfold zlen at 1. cbn [length]. repeat split; try lia.
        -- constructor; [|constructor]. split; [lia|]. rewrite Z.sub_diag. reflexivity.
        -- intros j [->|[]]. lia.
        -- constructor; [intros []|constructor].
      * destruct (scan_free (i + 1) (count - 1) r) as [l' c'] eqn:Es. inversion H; subst.
        assert (Hc' : 0 < count - 1) by lia.
        destruct (IH _ _ _ _ Hc' Es) as (H1 & H2 & H3 & H4 & H5). rewrite zlen_cons. repeat split; try lia.
        -- constructor; [split; [lia|]; rewrite Z.sub_diag; reflexivity|].
           eapply Forall_impl; [|exact H3]. cbv beta. intros j [Hj Hv]. split; [lia|].
           replace (Z.to_nat (j - i)) with (S (Z.to_nat (j - (i + 1)))) by lia. exact Hv.
        -- intros j [->|Hj]; [lia|]. specialize (H4 j Hj). lia.
        -- constructor; [|exact H5]. intros Hin. specialize (H4 _ Hin). lia.
Qed.

Lemma nth_repeat_lt {X} (a d : X) m : forall n, (n < m)%nat -> nth n (repeat a m) d = a.
Proof. induction m as [|m IH]; intros [|n] H; cbn; try lia; auto. apply IH. lia. Qed.

Lemma NoDup_app_intro {X} (a b : list X) : NoDup a -> NoDup b -> (forall x, In x a -> In x b -> False) -> NoDup (a ++ b).
Proof.
  induction a as [|x a IH]; cbn; intros Ha Hb H; [exact Hb|]. inversion Ha; subst. constructor.
  - intros Hin. apply in_app_or in Hin as [Hin|Hin]; [contradiction | eapply H; [left; reflexivity | exact Hin]].
  - apply IH; auto. intros y Hy. apply H. right. exact Hy.
Qed.
Lemma quot_ceil_ge rem per : 0 < rem -> 0 < per -> rem <= Z.quot (rem + per - 1) per * per.
Proof. intros. rewrite Z.quot_div_nonneg by lia. nia. Qed.

(* alloc_fresh: makeFreeSectors returns exactly count distinct sector ids, each free in the (possibly extended) table,
   and the table is only extended, never rewritten *)
Lemma make_free_spec ss count t fl t' : 0 < count -> 0 < mfs_per_block ss -> make_free ss count t = (fl, t') ->
  zlen fl = count /\ NoDup fl /\ (exists k, t' = t ++ repeat secid_free k) /\
  Forall (fun j => 0 <= j < zlen t' /\ sget t' j = secid_free) fl.
Proof.
  intros Hc Hper. unfold make_free, mfs_nothing. destruct (count <=? 0) eqn:E0; [lia|].
  destruct (scan_free 0 count t) as [found rem] eqn:Es.
  destruct (scan_free_spec t 0 count found rem Hc Es) as (H1 & H2 & H3 & H4 & H5).
  destruct (rem =? 0) eqn:Er.
  - intros H; inversion H; subst. repeat split; [lia | exact H5 | exists O; cbn; now rewrite app_nil_r |].
    eapply Forall_impl; [|exact H3]. cbv beta. intros j [Hj Hv]. rewrite Z.sub_0_r in Hv. split; [lia | exact Hv].
  - intros H; inversion H; subst; clear H.
    set (per := mfs_per_block ss) in *. set (k := Z.to_nat (mfs_need_blocks rem per * per)).
    assert (Hrem : 0 < rem) by lia.
    assert (Hk : (Z.to_nat rem <= k)%nat).
    { unfold k, mfs_need_blocks. pose proof (quot_ceil_ge rem per Hrem Hper).
      replace (rem + per - 1) with (rem + per - 1) in H by lia. lia. }
    repeat split.
    + rewrite zlen_app. unfold zlen at 2. rewrite map_length, seq_length. lia.
    + apply NoDup_app_intro; [exact H5 | |].
      * apply FinFun.Injective_map_NoDup; [intros a b Hab; lia | apply seq_NoDup].
      * intros j Hj Hin. apply in_map_iff in Hin as (n & Hn & _). rewrite Forall_forall in H3. specialize (H3 j Hj). lia.
    + exists k. reflexivity.
    + apply Forall_app. split.
      * eapply Forall_impl; [|exact H3]. cbv beta. intros j [Hj Hv]. rewrite Z.sub_0_r in Hv. rewrite zlen_app.
        pose proof (zlen_nonneg (repeat secid_free k)). split; [lia|]. unfold sget. rewrite app_nth1; [exact Hv | unfold zlen in Hj; lia].
      * apply Forall_forall. intros j Hin. apply in_map_iff in Hin as (n & Hn & Hin). apply in_seq in Hin. subst j.
        split; [rewrite zlen_app; unfold zlen; rewrite repeat_length; lia|].
        unfold sget. rewrite app_nth2 by (unfold zlen; lia). apply nth_repeat_lt. unfold zlen. lia.
Qed.

(* ---- the chaining loop *)
Lemma link_spec fl : forall t, fl <> [] -> NoDup fl -> Forall (fun j => 0 <= j < zlen t) fl ->
  schain (link t fl) (first_of fl) fl /\
  (forall j, 0 <= j -> ~ In j fl -> sget (link t fl) j = sget t j) /\ zlen (link t fl) = zlen t.
Proof.
  induction fl as [|a r IH]; intros t Hne Hnd Hr; [congruence|].
  inversion Hnd as [|? ? Ha Hnd']; subst. inversion Hr as [|? ? Har Hr']; subst.
  destruct r as [|b r'].
  - cbn [link first_of]. repeat split.
    + constructor; [rewrite sset_zlen; exact Har|]. rewrite sget_sset_same by exact Har. constructor.
    + intros j Hj Hn. apply sget_sset_other; [lia | exact Hj |]. intros ->. apply Hn. left. reflexivity.
    + apply sset_zlen.
  - change (link t (a :: b :: r')) with (link (sset t a b) (b :: r')). cbn [first_of].
    assert (Hr2 : Forall (fun j => 0 <= j < zlen (sset t a b)) (b :: r')) by (rewrite sset_zlen; exact Hr').
    destruct (IH (sset t a b) ltac:(discriminate) Hnd' Hr2) as (Hc & Ho & Hl). cbn [first_of] in Hc.
    rewrite sset_zlen in Hl. repeat split.
    + constructor; [rewrite Hl; exact Har|]. rewrite Ho; [|lia|exact Ha]. rewrite sget_sset_same by exact Har. exact Hc.
    + intros j Hj Hn. rewrite Ho; [|exact Hj|intros Hin; apply Hn; right; exact Hin].
      apply sget_sset_other; [lia | exact Hj |]. intros ->. apply Hn. left. reflexivity.
    + exact Hl.
Qed.

Lemma schain_in_range t s l : schain t s l -> Forall (fun j => 0 <= j < zlen t) l.
Proof. induction 1; constructor; auto. Qed.
Lemma schain_elem_used t s l : schain t s l -> forall j, In j l -> sget t j <> secid_free.
Proof.
  induction 1 as [|s l Hs Hc IH]; intros j Hin; [destruct Hin|].
  destruct Hin as [->|Hin]; [|apply IH; exact Hin].
  remember (sget t j) as v eqn:Ev. inversion Hc; subst; unfold secid_eoc, secid_free in *; lia.
Qed.
Lemma schain_preserved t t' s l : schain t s l -> zlen t <= zlen t' -> (forall j, In j l -> sget t' j = sget t j) -> schain t' s l.
Proof.
  induction 1 as [|s l Hs Hc IH]; intros Hl Hsame; [constructor|].
  constructor; [lia|]. rewrite Hsame by (left; reflexivity). apply IH; [exact Hl|]. intros j Hj. apply Hsame. right. exact Hj.
Qed.
Lemma schain_det t s l1 : schain t s l1 -> forall l2, schain t s l2 -> l1 = l2.
Proof.
  induction 1 as [|s l Hs Hc IH]; intros l2 H2; inversion H2; subst; try reflexivity.
  - unfold secid_eoc in *. lia.
  - unfold secid_eoc in *. lia.
  - f_equal. apply IH. assumption.
Qed.
Lemma schain_suffix t s l : schain t s l -> forall x, In x l -> exists a b, l = a ++ x :: b /\ schain t x (x :: b).
Proof.
  induction 1 as [|s l Hs Hc IH]; intros x Hin; [destruct Hin|].
  destruct Hin as [->|Hin].
  - exists [], l. split; [reflexivity|]. constructor; assumption.
  - destruct (IH x Hin) as (a & b & -> & Hx). exists (s :: a), b. split; [reflexivity | exact Hx].
Qed.
Lemma schain_NoDup t s l : schain t s l -> NoDup l.
Proof.
  induction 1 as [|s l Hs Hc IH]; constructor; [|exact IH].
  intros Hin. assert (Hfull : schain t s (s :: l)) by (constructor; assumption).
  destruct (schain_suffix _ _ _ Hc s Hin) as (a & b & -> & Hx).
  pose proof (schain_det _ _ _ Hx _ Hfull) as E. inversion E as [E'].
  apply (f_equal (@length Z)) in E'. rewrite app_length in E'. cbn in E'. lia.
Qed.

(* add_stream_chain: a stream at or above the cutoff gets a fresh chain of exactly ceil(len/ss) sectors that reads back in
   order; every other entry of the table keeps its value *)
Lemma add_stream_long_spec ss len sat : 0 < len -> 0 < ss -> 0 < mfs_per_block ss ->
  exists fl sat1 k,
    sat1 = sat ++ repeat secid_free k /\
    add_stream_long ss len sat = Ok (first_of fl, link sat1 fl) /\
    zlen fl = ceil_div len ss /\ NoDup fl /\
    Forall (fun j => 0 <= j < zlen sat1 /\ sget sat1 j = secid_free) fl /\
    schain (link sat1 fl) (first_of fl) fl /\
    (forall j, 0 <= j -> ~ In j fl -> sget (link sat1 fl) j = sget sat1 j).
Proof.
  intros Hlen Hss Hper. unfold add_stream_long.
  assert (Hneed : stream_need_long len ss = ceil_div len ss).
  { unfold stream_need_long, ceil_div. apply Z.quot_div_nonneg; lia. }
  assert (Hpos : 0 < ceil_div len ss).
  { unfold ceil_div. apply Z.div_str_pos. lia. }
  destruct (make_free ss (stream_need_long len ss) sat) as [fl sat1] eqn:Em.
  rewrite Hneed in Em. destruct (make_free_spec _ _ _ _ _ Hpos Hper Em) as (H1 & H2 & (k & H3) & H4).
  exists fl, sat1, k.
  assert (Hne : fl <> []) by (intros ->; unfold zlen in H1; cbn in H1; lia).
  assert (Hr : Forall (fun j => 0 <= j < zlen sat1) fl) by (eapply Forall_impl; [|exact H4]; cbv beta; tauto).
  destruct (link_spec fl sat1 Hne H2 Hr) as (Hc & Ho & _).
  repeat split; try assumption. destruct fl; [congruence | reflexivity].
Qed.

(* chains that existed before are untouched by the new stream and share no sector with it *)
Lemma add_stream_keeps_chains sat k fl s l :
  Forall (fun j => 0 <= j < zlen (sat ++ repeat secid_free k) /\ sget (sat ++ repeat secid_free k) j = secid_free) fl ->
  fl <> [] -> NoDup fl -> schain sat s l ->
  schain (link (sat ++ repeat secid_free k) fl) s l /\ (forall j, In j l -> ~ In j fl).
Proof.
  intros Hfl Hne Hnd Hc. set (sat1 := sat ++ repeat secid_free k) in *.
  assert (Hr : Forall (fun j => 0 <= j < zlen sat1) fl) by (eapply Forall_impl; [|exact Hfl]; cbv beta; tauto).
  destruct (link_spec fl sat1 Hne Hnd Hr) as (_ & Ho & Hl).
  assert (Hsame : forall j, In j l -> sget sat1 j = sget sat j).
  { intros j Hj. pose proof (schain_in_range _ _ _ Hc) as R. rewrite Forall_forall in R. specialize (R j Hj).
    unfold sget, sat1. apply app_nth1. unfold zlen in R. lia. }
  assert (Hdis : forall j, In j l -> ~ In j fl).
  { intros j Hj Hin. rewrite Forall_forall in Hfl. destruct (Hfl j Hin) as [_ Hfree].
    rewrite Hsame in Hfree by exact Hj. exact (schain_elem_used _ _ _ Hc j Hj Hfree). }
  split; [|exact Hdis].
  eapply schain_preserved; [exact Hc | rewrite Hl; unfold sat1; rewrite zlen_app; pose proof (zlen_nonneg (repeat secid_free k)); lia |].
  intros j Hj. rewrite Ho; [apply Hsame; exact Hj | | apply Hdis; exact Hj].
  pose proof (schain_in_range _ _ _ Hc) as R. rewrite Forall_forall in R. specialize (R j Hj). lia.
Qed.

Lemma schain_nil_inv t s : schain t s [] -> s = secid_eoc.
Proof. inversion 1; reflexivity. Qed.
Lemma schain_cons_inv t s x l : schain t s (x :: l) -> s = x /\ 0 <= x < zlen t.
Proof. inversion 1; subst; auto. Qed.
(* delete_frees_only_own: freeSectors frees exactly the sectors of the chain it is given *)
Lemma free_chain_spec fuel : forall t s l, schain t s l -> l <> [] -> (length l <= fuel)%nat ->
  exists t', free_chain fuel t s = Ok t' /\ zlen t' = zlen t /\
    (forall j, In j l -> sget t' j = secid_free) /\ (forall j, 0 <= j -> ~ In j l -> sget t' j = sget t j).
Proof.
  induction fuel as [|k IH]; intros t s l Hc Hne Hlen.
  - destruct l; [congruence | cbn in Hlen; lia].
  - pose proof (schain_NoDup _ _ _ Hc) as Hnd.
    inversion Hc as [|s' l' Hs Hc']; subst; [congruence|]. cbn [free_chain].
    unfold in_range. replace ((0 <=? s) && (s <? zlen t)) with true by lia. cbn [negb].
    inversion Hnd as [|? ? Hnotin Hnd']; subst.
    assert (Hc2 : schain (sset t s secid_free) (sget t s) l').
    { eapply schain_preserved; [exact Hc' | rewrite sset_zlen; lia |].
      intros j Hj. apply sget_sset_other; [lia | | intros ->; contradiction].
      pose proof (schain_in_range _ _ _ Hc') as R. rewrite Forall_forall in R. specialize (R j Hj). lia. }
    destruct l' as [|x l''].
    + pose proof (schain_nil_inv _ _ Hc') as Hnx. unfold free_stop. rewrite Hnx.
      replace (secid_eoc <? 0) with true by (unfold secid_eoc; lia).
      eexists. split; [reflexivity|]. split; [apply sset_zlen|]. split.
      * intros j [->|[]]. apply sget_sset_same. exact Hs.
      * intros j Hj Hn. apply sget_sset_other; [lia | exact Hj | intros ->; apply Hn; left; reflexivity].
    + pose proof (schain_cons_inv _ _ _ _ Hc') as [Hnx Hxr].
      unfold free_stop. replace (sget t s <? 0) with false by lia.
      cbn in Hlen. destruct (IH _ _ _ Hc2 ltac:(discriminate) ltac:(cbn; lia)) as (t' & Hf & Hz & Hfree & Hother).
      exists t'. split; [exact Hf|]. split; [rewrite Hz; apply sset_zlen|]. split.
      * intros j [->|Hj]; [|apply Hfree; exact Hj]. rewrite Hother; [apply sget_sset_same; exact Hs | lia | exact Hnotin].
      * intros j Hj Hn. rewrite Hother; [|exact Hj|intros Hin; apply Hn; right; exact Hin].
        apply sget_sset_other; [lia | exact Hj | intros ->; apply Hn; left; reflexivity].
Qed.
Lemma schain_length t s l : schain t s l -> (length l <= length t)%nat.
Proof.
  intros Hc. pose proof (schain_NoDup _ _ _ Hc) as Hnd. pose proof (schain_in_range _ _ _ Hc) as R.
  assert (Hincl : incl (map Z.to_nat l) (seq 0 (length t))).
  { intros n Hn. apply in_map_iff in Hn as (j & <- & Hj). rewrite Forall_forall in R. specialize (R j Hj).
    apply in_seq. unfold zlen in R. lia. }
  assert (Hnd2 : NoDup (map Z.to_nat l)).
  { rewrite Forall_forall in R. clear Hincl Hc. induction l as [|a l IHl]; cbn; constructor.
    - inversion Hnd; subst. intros Hin. apply in_map_iff in Hin as (j & Hj & Hin).
      assert (j = a) by (pose proof (R a (or_introl eq_refl)); pose proof (R j (or_intror Hin)); lia). subst. contradiction.
    - inversion Hnd; subst. apply IHl; [assumption | intros; apply R; right; assumption]. }
  pose proof (NoDup_incl_length Hnd2 Hincl) as Hle. rewrite map_length, seq_length in Hle. exact Hle.
Qed.
Lemma free_sectors_spec t s l : schain t s l -> l <> [] ->
  exists t', free_sectors t s = Ok t' /\ zlen t' = zlen t /\
    (forall j, In j l -> sget t' j = secid_free) /\ (forall j, 0 <= j -> ~ In j l -> sget t' j = sget t j).
Proof.
  intros Hc Hne. apply free_chain_spec; [exact Hc | exact Hne|]. pose proof (schain_length _ _ _ Hc). lia.
Qed.

(* ================================================================== Part 4: directory comparators *)
Lemma less_loop_units a : forall b pa pb fuel k n,
  length pa = length pb -> k = zlen pa -> zlen a = zlen b -> n = k + zlen a -> n <= name_runes ->
  (length a < fuel)%nat -> forallb unit_agrees a = true -> forallb unit_agrees b = true ->
  less_loop fuel n name_runes k (pa ++ a) (pb ++ b) = units_lt a b.
Proof.
  induction a as [|x a IH]; intros b pa pb fuel k n Hp Hk Hl Hn Hcap Hf Ha Hb.
  - destruct b; [|unfold zlen in Hl; cbn in Hl; lia]. destruct fuel; [lia|]. cbn [less_loop units_lt].
    unfold less_loop_cond, less_equal_ret. unfold zlen in Hn; cbn in Hn. replace (k <? n) with false by lia. reflexivity.
  - destruct b as [|y b]; [unfold zlen in Hl; cbn in Hl; lia|]. destruct fuel as [|f]; [lia|].
    cbn [forallb] in Ha, Hb. apply andb_true_iff in Ha as [Hx Ha]. apply andb_true_iff in Hb as [Hy Hb].
    rewrite !zlen_cons in *. pose proof (zlen_nonneg a). cbn [less_loop units_lt].
    unfold less_loop_cond. replace ((k <? n) && (k <? name_runes)) with true by lia.
    assert (Hka : Z.to_nat k = length pa) by (unfold zlen in Hk; lia).
    rewrite Hka. rewrite app_nth2 by lia. rewrite Nat.sub_diag. cbn [nth].
    rewrite Hp. rewrite app_nth2 by lia. rewrite Nat.sub_diag. cbn [nth].
    unfold unit_agrees in Hx, Hy. apply Z.eqb_eq in Hx, Hy. rewrite Hx, Hy.
    unfold less_unit_differs, less_unit_ret.
    destruct (upcase x =? upcase y) eqn:E; cbn [negb].
    + replace (upcase x <? upcase y) with false by lia. replace (upcase y <? upcase x) with false by lia.
      replace (pa ++ x :: a) with ((pa ++ [x]) ++ a) by (rewrite <- app_assoc; reflexivity).
      replace (pb ++ y :: b) with ((pb ++ [y]) ++ b) by (rewrite <- app_assoc; reflexivity).
      apply IH; try assumption.
      * rewrite !app_length. cbn. lia.
      * rewrite zlen_app. unfold zlen at 2. cbn. lia.
      * lia.
      * lia.
      * cbn in Hf. lia.
    + destruct (upcase x <? upcase y) eqn:E2; [reflexivity|]. replace (upcase y <? upcase x) with true by lia. reflexivity.
Qed.

(* relic_order_eq_cfb: on names of at most 31 code units (every name a directory entry can hold) all of whose units are in
   the agreement domain, lessDirEnt is the MS-CFB sibling order *)
Lemma relic_less_eq_cfb_less a b : zlen a < name_runes -> zlen b < name_runes ->
  forallb unit_agrees a = true -> forallb unit_agrees b = true -> relic_less a b = cfb_less a b.
Proof.
  intros Hla Hlb Ha Hb. unfold relic_less, less_dirent, less_len_differs, less_len_ret, cfb_less.
  pose proof (zlen_nonneg a). pose proof (zlen_nonneg b).
  destruct (zlen a <? zlen b) eqn:E1.
  - replace (2 * (zlen a + 1) =? 2 * (zlen b + 1)) with false by lia. cbn [negb]. lia.
  - destruct (zlen b <? zlen a) eqn:E2.
    + replace (2 * (zlen a + 1) =? 2 * (zlen b + 1)) with false by lia. cbn [negb]. lia.
    + replace (2 * (zlen a + 1) =? 2 * (zlen b + 1)) with true by lia. cbn [negb].
      assert (Hn : less_n (2 * (zlen a + 1)) = zlen a).
      { unfold less_n. rewrite Z.quot_div_nonneg by lia. replace (2 * (zlen a + 1)) with ((zlen a + 1) * 2) by lia.
        rewrite Z.div_mul by lia. lia. }
      rewrite Hn. apply (less_loop_units a b [] []); try assumption; try reflexivity; try lia.
      unfold name_runes in *. unfold zlen in Hla. cbn in Hla |- *. unfold de_w_NameRunes in *. lia.
Qed.

(* relic upper-cases a code unit with unicode.ToUpper of the toolchain (srcgen table go_upper_runs, kept when the result fits 16
   bits, surrogate halves untouched); the MS-CFB order uses the Unicode Character Database table of C18/UnicodeSpec.v.  The two
   tables are the same list of runs and no run leaves the 16-bit range, so the two functions agree on EVERY code unit. *)
Lemma go_table_is_spec_table : go_upper_runs = spec_upper_runs.
Proof. vm_compute. reflexivity. Qed.
Lemma spec_runs_fit : forallb (fun r => let '(lo, hi, d) := r in (0 <=? lo) && (hi + d <=? 65535)) spec_upper_runs = true.
Proof. vm_compute. reflexivity. Qed.
Lemma lookup_upper_fits runs u :
  forallb (fun r => let '(lo, hi, d) := r in (0 <=? lo) && (hi + d <=? 65535)) runs = true ->
  lookup_upper runs u = u \/ lookup_upper runs u <= 65535.
Proof.
  induction runs as [|[[lo hi] d] r IH]; cbn [lookup_upper forallb]; intros H; [left; reflexivity|].
  apply andb_true_iff in H as [H1 H2]. destruct ((lo <=? u) && (u <=? hi)) eqn:E; [right; lia | apply IH; exact H2].
Qed.
Lemma upper_unit_is_upcase u : upper_unit u = upcase u.
Proof.
  unfold upper_unit, upcase, upper_unit_is_surrogate, go_to_upper, upper_unit_fits. rewrite go_table_is_spec_table.
  replace ((u >=? 55296) && (u <=? 57343)) with ((55296 <=? u) && (u <=? 57343)) by lia.
  destruct ((55296 <=? u) && (u <=? 57343)); [reflexivity|].
  destruct (lookup_upper_fits spec_upper_runs u spec_runs_fit) as [H|H].
  - rewrite H. destruct (u <=? 65535); reflexivity.
  - replace (lookup_upper spec_upper_runs u <=? 65535) with true by lia. reflexivity.
Qed.
Lemma unit_agrees_all u : unit_agrees u = true.
Proof. unfold unit_agrees. rewrite upper_unit_is_upcase. apply Z.eqb_refl. Qed.
Lemma forallb_unit_agrees l : forallb unit_agrees l = true.
Proof. induction l as [|x l IH]; cbn; [reflexivity|]. rewrite unit_agrees_all. exact IH. Qed.
(* relic_order_is_cfb: on names of at most 31 code units (every name a directory entry can hold) lessDirEnt IS the MS-CFB order *)
Lemma relic_less_is_cfb_less a b : zlen a < name_runes -> zlen b < name_runes -> relic_less a b = cfb_less a b.
Proof. intros. apply relic_less_eq_cfb_less; try assumption; apply forallb_unit_agrees. Qed.

(* cfb_less is a strict order on names: irreflexive and transitive (what the search-tree theorems need) *)
Lemma units_lt_irrefl a : units_lt a a = false.
Proof. induction a as [|x a IH]; [reflexivity|]. cbn. rewrite Z.ltb_irrefl. exact IH. Qed.
Lemma units_lt_trans a : forall b c, units_lt a b = true -> units_lt b c = true -> units_lt a c = true.
Proof.
  induction a as [|x a IH]; intros [|y b] [|z c]; cbn; try discriminate.
  destruct (upcase x <? upcase y) eqn:E1.
  - intros _. destruct (upcase y <? upcase z) eqn:E2; [intros _; replace (upcase x <? upcase z) with true by lia; reflexivity|].
    destruct (upcase z <? upcase y) eqn:E3; [discriminate|]. intros _. replace (upcase x <? upcase z) with true by lia. reflexivity.
  - destruct (upcase y <? upcase x) eqn:E1'; [discriminate|]. intros Hab.
    destruct (upcase y <? upcase z) eqn:E2; [intros _; replace (upcase x <? upcase z) with true by lia; reflexivity|].
    destruct (upcase z <? upcase y) eqn:E3; [discriminate|]. intros Hbc.
    replace (upcase x <? upcase z) with false by lia. replace (upcase z <? upcase x) with false by lia. eapply IH; eassumption.
Qed.
Lemma cfb_less_irrefl a : cfb_less a a = false.
Proof. unfold cfb_less. rewrite Z.ltb_irrefl. apply units_lt_irrefl. Qed.
Lemma cfb_less_trans a b c : cfb_less a b = true -> cfb_less b c = true -> cfb_less a c = true.
Proof.
  unfold cfb_less. intros H1 H2.
  destruct (zlen a <? zlen b) eqn:E1; destruct (zlen b <? zlen c) eqn:E2.
  - replace (zlen a <? zlen c) with true by lia. reflexivity.
  - destruct (zlen c <? zlen b) eqn:E3; [discriminate|]. replace (zlen a <? zlen c) with true by lia. reflexivity.
  - destruct (zlen b <? zlen a) eqn:E3; [discriminate|]. replace (zlen a <? zlen c) with true by lia. reflexivity.
  - destruct (zlen b <? zlen a) eqn:E3; [discriminate|]. destruct (zlen c <? zlen b) eqn:E4; [discriminate|].
    replace (zlen a <? zlen c) with false by lia. replace (zlen c <? zlen a) with false by lia. eapply units_lt_trans; eassumption.
Qed.
Lemma ent_lt_trans ents i j k : ent_lt ents i j = true -> ent_lt ents j k = true -> ent_lt ents i k = true.
Proof. unfold ent_lt. apply cfb_less_trans. Qed.

(* ================================================================== statements about the source as read by srcgen *)
Lemma rb_as_coded_valid (A : Type) (lt : A -> A -> bool) l :
  rb_valid A (insert_all A lt rb_new_node_red rb_root_blackened l).
Proof. change rb_new_node_red with true. change rb_root_blackened with true. apply rb_insert_all_valid. Qed.
Lemma rebuilt_tree_valid ents files :
  pairwise_cmp Z (ent_lt ents) (rev files) ->
  let t := insert_all Z (ent_lt ents) true true files in
  bst_b Z (ent_lt ents) t = true /\ rb_ok Z t = true /\ Permutation (elements Z t) files.
Proof.
  intros Hp t. destruct (insert_all_sound Z (ent_lt ents) (ent_lt_trans ents) true true files Hp) as [B P].
  split; [apply bst_b_iff; exact B|]. split; [apply rb_ok_iff; apply rb_insert_all_valid | exact P].
Qed.
