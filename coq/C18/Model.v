(* C18/Model.v — executable definitions only.
   Part 1: redblack.Insert as coded (functional: returns the new subtree root) and the red-black validity predicate.
   Part 2: lib/comdoc sector allocation (makeFreeSectors, freeSectors, addStream, writeShortSector chain growth).
   Part 3: an MS-CFB validator (cfb_check : bytes -> bool), written from the format specification, not from relic
           (case conversion of names: C18/UnicodeSpec.v, the Unicode Character Database).
   Part 4: directory comparators (relic's lessDirEnt and the MS-CFB order) and the MSI digest order.
   Constants, struct layouts and loop-free decisions come from Generated/C18_gen.v (srcgen). *)
From Relic Require Import Base.Prelude Base.Enc Generated.C18_gen C18.UnicodeSpec.
From Coq Require Import Sorting.Mergesort Orders.

(* ================================================================== Part 1: red-black insertion *)
Section RB.
Variable A : Type.
Variable lt : A -> A -> bool.     (* n.Less(n.Item, a.Item) *)

Inductive color := Red | Black.
Inductive tree := E | T (c : color) (l : tree) (x : A) (r : tree).

Definition is_red (t : tree) : bool := match t with T Red _ _ _ => true | _ => false end.
Definition left_of (t : tree) : tree := match t with T _ l _ _ => l | E => E end.
Definition right_of (t : tree) : tree := match t with T _ _ _ r => r | E => E end.
Definition blacken (t : tree) : tree := match t with T _ l x r => T Black l x r | E => E end.

(* n.rotate(1): a := n.Children[0]; n.Children[0] = a.Children[1]; a.Children[1] = n; n.Red = true; a.Red = false *)
Definition rotate_right (n : tree) : tree :=
  match n with T _ (T _ al ax ar) x r => T Black al ax (T Red ar x r) | _ => n end.
(* n.rotate(0) *)
Definition rotate_left (n : tree) : tree :=
  match n with T _ l x (T _ bl bx br) => T Black (T Red l x bl) bx br | _ => n end.

(* Node.insert; new_red = the Red field of the node literal in Tree.Insert *)
Fixpoint ins (new_red : bool) (a : A) (n : tree) : tree :=
  match n with
  | E => T (if new_red then Red else Black) E a E
  | T c l x r =>
      if lt x a then
        let r' := ins new_red a r in
        if negb (is_red r') then T c l x r'
        else if is_red l then T Red (blacken l) x (blacken r')
        else if is_red (right_of r') then rotate_left (T c l x r')
        else if is_red (left_of r') then rotate_left (T c l x (rotate_right r'))
        else T c l x r'
      else
        let l' := ins new_red a l in
        if negb (is_red l') then T c l' x r
        else if is_red r then T Red (blacken l') x (blacken r)
        else if is_red (left_of l') then rotate_right (T c l' x r)
        else if is_red (right_of l') then rotate_right (T c (rotate_left l') x r)
        else T c l' x r
  end.

(* Tree.Insert; blacken_root = presence of `t.Root.Red = false` *)
Definition insert (new_red blacken_root : bool) (a : A) (t : tree) : tree :=
  let t' := ins new_red a t in if blacken_root then blacken t' else t'.
Definition insert_all (new_red blacken_root : bool) (l : list A) : tree :=
  fold_left (fun t a => insert new_red blacken_root a t) l E.

Fixpoint elements (t : tree) : list A :=
  match t with E => [] | T _ l x r => elements l ++ x :: elements r end.
Fixpoint size (t : tree) : nat := match t with E => O | T _ l _ r => S (size l + size r) end.

(* validity, written from the textbook definition / [MS-CFB] 2.6.4: the checker computes the black height *)
Fixpoint black_height (t : tree) : option nat :=
  match t with
  | E => Some O
  | T c l _ r =>
      match black_height l, black_height r with
      | Some a, Some b => if Nat.eqb a b then Some (match c with Black => S a | Red => a end) else None
      | _, _ => None
      end
  end.
Fixpoint no_red_red (t : tree) : bool :=
  match t with
  | E => true
  | T c l _ r => (match c with Red => negb (is_red l) && negb (is_red r) | Black => true end) && no_red_red l && no_red_red r
  end.
Definition rb_ok (t : tree) : bool :=
  negb (is_red t) && no_red_red t && match black_height t with Some _ => true | None => false end.

(* strict search-tree order: everything on the left is less than the node, everything on the right greater *)
Fixpoint all_b (p : A -> bool) (t : tree) : bool :=
  match t with E => true | T _ l x r => p x && all_b p l && all_b p r end.
Fixpoint bst_b (t : tree) : bool :=
  match t with
  | E => true
  | T _ l x r => all_b (fun y => lt y x) l && all_b (fun y => lt x y) r && bst_b l && bst_b r
  end.
End RB.
Arguments E {A}.
Arguments T {A} c l x r.

(* trees over Z keys with the usual order (used by the correspondence with the real redblack package) *)
Definition zins := insert_all Z Z.ltb.

(* ================================================================== Part 2: sector allocation in lib/comdoc *)
(* Tables are lists of signed sector ids (SecID int32): secid_free = -1, secid_eoc = -2, secid_sat = -3, secid_msat = -4. *)
Definition sget (t : list Z) (i : Z) : Z := nth (Z.to_nat i) t 0.
Fixpoint set_nat {X} (n : nat) (v : X) (l : list X) : list X :=
  match l, n with
  | [], _ => []
  | _ :: r, O => v :: r
  | x :: r, S k => x :: set_nat k v r
  end.
Definition sset (t : list Z) (i v : Z) : list Z := set_nat (Z.to_nat i) v t.
Definition in_range (t : list Z) (i : Z) : bool := (0 <=? i) && (i <? zlen t).

(* the scan loop of makeFreeSectors: indices of free entries, in order, until count reaches zero *)
Fixpoint scan_free (i : Z) (count : Z) (t : list Z) : list Z * Z :=
  match t with
  | [] => ([], count)
  | j :: r =>
      if mfs_skip j then scan_free (i + 1) count r
      else if count - 1 =? 0 then ([i], 0)
      else let '(l, c) := scan_free (i + 1) (count - 1) r in (i :: l, c)
  end.
(* makeFreeSectors(count, _) on one table: (free list, table after the call) *)
Definition make_free (ss count : Z) (t : list Z) : list Z * list Z :=
  if mfs_nothing count then ([], t) else
  let '(found, rem) := scan_free 0 count t in
  if rem =? 0 then (found, t) else
  let per := mfs_per_block ss in
  let blocks := mfs_need_blocks rem per in
  (found ++ map (fun k => zlen t + Z.of_nat k) (seq 0 (Z.to_nat rem)),
   t ++ repeat secid_free (Z.to_nat (blocks * per))).

(* freeSectors: Go indexes sat[sector] first (panic when out of range), frees it, stops on a negative link *)
Fixpoint free_chain (fuel : nat) (t : list Z) (s : Z) : result (list Z) :=
  match fuel with
  | O => Err 1
  | S k =>
      if negb (in_range t s) then Panic 1 else
      let next := sget t s in
      let t' := sset t s secid_free in
      if free_stop next then Ok t' else free_chain k t' next
  end.
Definition free_sectors (t : list Z) (s : Z) : result (list Z) := free_chain (S (length t)) t s.

(* the chaining loop shared by addStream, writeShortSAT and writeDirStream: t[fl[k]] = fl[k+1], last = end of chain;
   with an empty list Go executes sat[SecIDEndOfChain] = ... and panics *)
Fixpoint link (t : list Z) (fl : list Z) : list Z :=
  match fl with
  | [] => t
  | a :: r => match r with [] => sset t a secid_eoc | b :: _ => link (sset t a b) r end
  end.
Definition first_of (fl : list Z) : Z := match fl with a :: _ => a | [] => secid_eoc end.

(* addStream(contents, short=false): (first sector, SAT after) *)
Definition add_stream_long (ss len : Z) (sat : list Z) : result (Z * list Z) :=
  let '(fl, sat1) := make_free ss (stream_need_long len ss) sat in
  match fl with [] => Panic 2 | _ => Ok (first_of fl, link sat1 fl) end.

(* writeShortSector(i, _): walks the mini stream container to the big sector holding mini sector i, extends it when the
   chain is too short, fails with a negative file offset when the root has no mini stream.  State: SAT, root start, root size *)
Fixpoint walk_big (fuel : nat) (sat : list Z) (id idx : Z) : result (Z * Z) :=
  if wss_walk_more idx then
    match fuel with
    | O => Err 1
    | S k => if negb (in_range sat id) then Panic 3 else
             let next := sget sat id in
             if wss_walk_stop next then Ok (id, idx) else walk_big k sat next (idx - 1)
    end
  else Ok (id, idx).
Fixpoint extend_from (sat : list Z) (id : Z) (fl : list Z) : result (list Z * Z) :=
  match fl with
  | [] => if in_range sat id then Ok (sset sat id secid_eoc, id) else Panic 4
  | s :: r => if in_range sat id then extend_from (sset sat id s) s r else Panic 4
  end.
Definition E_NEGATIVE_OFFSET : Z := 7.
Definition write_short_sector (ss mss : Z) (st : list Z * Z * Z) (i : Z) : result (list Z * Z * Z) :=
  let '(sat, root_next, root_size) := st in
  let idx := wss_big_index i mss ss in
  let offset := i * mss - idx * ss in
  r <- walk_big (S (Z.to_nat idx)) sat root_next idx ;;
  let '(id, rest) := r in
  r2 <- (if wss_extend rest then
           let '(fl, sat1) := make_free ss rest sat in extend_from sat1 id fl
         else Ok (sat, id)) ;;
  let '(sat2, id2) := r2 in
  if (if id2 <? 0 then -1 + offset else (if open_small_sector ss then 512 else ss) + id2 * ss + offset) <? 0 then Err E_NEGATIVE_OFFSET else
  let len := wss_stream_length i mss in
  Ok (sat2, root_next, if wss_grow_root len root_size then len else root_size).
Fixpoint write_short_sectors (ss mss : Z) (st : list Z * Z * Z) (fl : list Z) : result (list Z * Z * Z) :=
  match fl with
  | [] => Ok st
  | i :: r => st' <- write_short_sector ss mss st i ;; write_short_sectors ss mss st' r
  end.
(* addStream(contents, short=true): (first mini sector, SSAT after, SAT after, root size after) *)
Definition add_stream_short (ss mss len : Z) (sat ssat : list Z) (root_next root_size : Z)
  : result (Z * list Z * list Z * Z) :=
  let '(fl, ssat1) := make_free ss (stream_need_short len mss) ssat in
  st <- write_short_sectors ss mss (sat, root_next, root_size) fl ;;
  let '(sat2, _, size2) := st in
  match fl with [] => Panic 2 | _ => Ok (first_of fl, link ssat1 fl, sat2, size2) end.

(* ================================================================== Part 3: MS-CFB validator *)
(* Written from [MS-CFB]: header 2.2, FAT 2.3, mini FAT 2.4, DIFAT 2.5, directory entries 2.6.1-2.6.3, red-black tree and
   name order 2.6.4. Nothing here refers to relic's code or to Generated/C18_gen.v. *)
Definition FREESECT : Z := 4294967295.
Definition ENDOFCHAIN : Z := 4294967294.
Definition FATSECT : Z := 4294967293.
Definition DIFSECT : Z := 4294967292.
Definition MAXREGSECT : Z := 4294967290.
Definition NOSTREAM : Z := 4294967295.
Definition CFB_MAGIC : bytes := [208; 207; 17; 224; 161; 177; 26; 225].

Definition u16at (b : bytes) (off : Z) : Z := le_dec (zslice off (off + 2) b).
Definition u32at (b : bytes) (off : Z) : Z := le_dec (zslice off (off + 4) b).
Definition u64at (b : bytes) (off : Z) : Z := le_dec (zslice off (off + 8) b).
Fixpoint u32s (l : bytes) : list Z :=
  match l with a :: b :: c :: d :: r => (a + 256 * b + 65536 * c + 16777216 * d) :: u32s r | _ => [] end.
Fixpoint u16s (l : bytes) : list Z :=
  match l with a :: b :: r => (a + 256 * b) :: u16s r | _ => [] end.
Definition all_zero (l : bytes) : bool := forallb (Z.eqb 0) l.
Definition znth (i : Z) (l : list Z) : Z := if i <? 0 then FREESECT else nth (Z.to_nat i) l FREESECT.
Definition ceil_div (a d : Z) : Z := (a + d - 1) / d.

Record header := mkHeader {
  h_major : Z; h_sshift : Z; h_mshift : Z; h_ndir : Z; h_nfat : Z; h_dir0 : Z; h_cutoff : Z;
  h_mf0 : Z; h_nmf : Z; h_dif0 : Z; h_ndif : Z; h_difat : list Z }.
Definition parse_header (b : bytes) : header :=
  mkHeader (u16at b 26) (u16at b 30) (u16at b 32) (u32at b 40) (u32at b 44) (u32at b 48) (u32at b 56)
           (u32at b 60) (u32at b 64) (u32at b 68) (u32at b 72) (u32s (zslice 76 512 b)).
Definition sector_size (h : header) : Z := 2 ^ h_sshift h.
Definition sector_count (b : bytes) (h : header) : Z := zlen b / sector_size h - 1.

(* 2.2: signature, CLSID zero, byte order, version/sector shift pairs, mini shift 6, reserved zero, cutoff 4096;
   the file is the header sector followed by whole sectors *)
Definition header_ok (b : bytes) : bool :=
  let h := parse_header b in
  let ss := sector_size h in
  (512 <=? zlen b) && bytes_eqb (ztake 8 b) CFB_MAGIC && all_zero (zslice 8 24 b) && (u16at b 28 =? 65534)
  && (((h_major h =? 3) && (h_sshift h =? 9)) || ((h_major h =? 4) && (h_sshift h =? 12)))
  && (h_mshift h =? 6) && all_zero (zslice 34 40 b) && (h_cutoff h =? 4096)
  && all_zero (zslice 512 ss b) && (ss <=? zlen b) && (zlen b mod ss =? 0).

Definition sector (b : bytes) (ss s : Z) : bytes := zslice (ss * (s + 1)) (ss * (s + 2)) b.
Definition sector_u32s (b : bytes) (ss s : Z) : list Z := u32s (sector b ss s).

(* following a chain through an allocation table; None = leaves the table or does not terminate *)
Fixpoint walk (fuel : nat) (t : list Z) (n : Z) (s : Z) : option (list Z) :=
  if s =? ENDOFCHAIN then Some [] else
  match fuel with
  | O => None
  | S k => if (0 <=? s) && (s <? n) then
             match walk k t n (znth s t) with Some l => Some (s :: l) | None => None end
           else None
  end.
Definition walk_table (t : list Z) (s : Z) : option (list Z) := walk (S (length t)) t (zlen t) s.

(* the DIFAT chain: the next pointer is the last field of each DIFAT sector *)
Definition difat_next (b : bytes) (ss s : Z) : Z := u32at b (ss * (s + 2) - 4).
Fixpoint walk_difat (fuel : nat) (b : bytes) (ss nsect s : Z) : option (list Z) :=
  if s =? ENDOFCHAIN then Some [] else
  match fuel with
  | O => None
  | S k => if (0 <=? s) && (s <? nsect) then
             match walk_difat k b ss nsect (difat_next b ss s) with Some l => Some (s :: l) | None => None end
           else None
  end.
Definition difat_entries (b : bytes) (h : header) (difsects : list Z) : list Z :=
  let ss := sector_size h in
  h_difat h ++ concat (map (fun s => firstn (Z.to_nat (ss / 4 - 1)) (sector_u32s b ss s)) difsects).
Fixpoint take_used (l : list Z) : list Z :=
  match l with [] => [] | v :: r => if v =? FREESECT then [] else v :: take_used r end.
Fixpoint drop_used (l : list Z) : list Z :=
  match l with [] => [] | v :: r => if v =? FREESECT then l else drop_used r end.

(* directory entries 2.6.1 *)
Record dirent := mkDirent {
  d_units : list Z; d_nlen : Z; d_type : Z; d_color : Z; d_left : Z; d_right : Z; d_child : Z;
  d_clsid : bytes; d_state : Z; d_ctime : Z; d_mtime : Z; d_start : Z; d_size : Z }.
Definition parse_dirent (raw : bytes) : dirent :=
  mkDirent (u16s (ztake 64 raw)) (u16at raw 64) (znth 66 raw) (znth 67 raw) (u32at raw 68) (u32at raw 72) (u32at raw 76)
           (zslice 80 96 raw) (u32at raw 96) (u64at raw 100) (u64at raw 108) (u32at raw 116) (u64at raw 120).
Fixpoint chunks128 (n : nat) (l : bytes) : list bytes :=
  match n with O => [] | S k => firstn 128 l :: chunks128 k (skipn 128 l) end.
Definition dirents (b : bytes) (ss : Z) (dirchain : list Z) : list dirent :=
  let raw := concat (map (sector b ss) dirchain) in
  map parse_dirent (chunks128 (Z.to_nat (zlen raw / 128)) raw).
Definition d_name (e : dirent) : list Z := firstn (Z.to_nat (d_nlen e / 2 - 1)) (d_units e).
Definition illegal_char (u : Z) : bool := (u =? 47) || (u =? 92) || (u =? 58) || (u =? 33).
Definition is_object (e : dirent) : bool := (d_type e =? 1) || (d_type e =? 2).
Definition is_storage_like (e : dirent) : bool := (d_type e =? 1) || (d_type e =? 5).
Definition dirent_ok (major : Z) (e : dirent) : bool :=
  if d_type e =? 0 then true else
  ((d_type e =? 1) || (d_type e =? 2) || (d_type e =? 5))
  && ((d_color e =? 0) || (d_color e =? 1))
  && (d_nlen e mod 2 =? 0) && (2 <=? d_nlen e) && (d_nlen e <=? 64)
  && (znth (d_nlen e / 2 - 1) (d_units e) =? 0)
  && forallb (fun u => negb (u =? 0) && negb (illegal_char u)) (d_name e)
  && ((major =? 4) || negb (d_type e =? 2) || (d_size e <? 4294967296)).
Definition nth_ent (ents : list dirent) (i : Z) : option dirent :=
  if i <? 0 then None else nth_error ents (Z.to_nat i).

(* 2.6.4: shorter names first; equal lengths compare upper-cased UTF-16 code units.  The upper-casing is the simple
   (one-to-one) case conversion of the Unicode Character Database applied to single code units: the static table of
   C18/UnicodeSpec.v (UnicodeData.txt, Simple_Uppercase_Mapping); surrogate halves are compared as they are *)
Fixpoint lookup_upper (runs : list (Z * Z * Z)) (u : Z) : Z :=
  match runs with
  | [] => u
  | (lo, hi, d) :: r => if (lo <=? u) && (u <=? hi) then u + d else lookup_upper r u
  end.
Definition upcase (u : Z) : Z :=
  if (55296 <=? u) && (u <=? 57343) then u else lookup_upper spec_upper_runs u.
Fixpoint units_lt (a b : list Z) : bool :=
  match a, b with
  | x :: a', y :: b' => if upcase x <? upcase y then true else if upcase y <? upcase x then false else units_lt a' b'
  | _, _ => false
  end.
Definition cfb_less (a b : list Z) : bool :=
  if zlen a <? zlen b then true else if zlen b <? zlen a then false else units_lt a b.
Definition ent_name (ents : list dirent) (i : Z) : list Z :=
  match nth_ent ents i with Some e => d_name e | None => [] end.
Definition ent_lt (ents : list dirent) (i j : Z) : bool := cfb_less (ent_name ents i) (ent_name ents j).

(* the sibling tree of a storage as a tree of entry indices; budget bounds the total number of nodes *)
Fixpoint build (fuel : nat) (ents : list dirent) (i : Z) (budget : nat) : option (tree Z * nat) :=
  if i =? NOSTREAM then Some (E, budget) else
  match fuel, budget with
  | S k, S bud =>
      match nth_ent ents i with
      | Some e =>
          if is_object e then
            match build k ents (d_left e) bud with
            | Some (l, bud1) =>
                match build k ents (d_right e) bud1 with
                | Some (r, bud2) => Some (T (if d_color e =? 0 then Red else Black) l i r, bud2)
                | None => None
                end
            | None => None
            end
          else None
      | None => None
      end
  | _, _ => None
  end.
Definition build_tree (ents : list dirent) (i : Z) : option (tree Z) :=
  match build (S (length ents)) ents i (length ents) with Some (t, _) => Some t | None => None end.

Module ZOrder <: TotalLeBool.
  Definition t := Z.
  Definition leb := Z.leb.
  Theorem leb_total : forall a1 a2, leb a1 a2 = true \/ leb a2 a1 = true.
  Proof. intros. unfold leb. lia. Qed.
End ZOrder.
Module ZSort := Sort ZOrder.

(* indices (from i) of the table entries that are not free, among the first n entries *)
Fixpoint used_from (i : Z) (n : nat) (t : list Z) : list Z :=
  match n, t with
  | S k, v :: r => if v =? FREESECT then used_from (i + 1) k r else i :: used_from (i + 1) k r
  | _, _ => []
  end.
Fixpoint all_free (l : list Z) : bool := match l with [] => true | v :: r => (v =? FREESECT) && all_free r end.
Fixpoint marked (v : Z) (i : Z) (t : list Z) : list Z :=
  match t with [] => [] | x :: r => if x =? v then i :: marked v (i + 1) r else marked v (i + 1) r end.

Fixpoint map_opt {X Y} (f : X -> option Y) (l : list X) : option (list Y) :=
  match l with
  | [] => Some []
  | x :: r => match f x, map_opt f r with Some y, Some ys => Some (y :: ys) | _, _ => None end
  end.

Record layout := mkLayout {
  l_difsects : list Z; l_fatsects : list Z; l_dir : list Z; l_mf : list Z; l_ms : list Z;
  l_big : list (list Z); l_mini : list (list Z); l_trees : list (tree Z) }.

Definition fat_of (b : bytes) (ss : Z) (fatsects : list Z) : list Z := concat (map (sector_u32s b ss) fatsects).
Definition big_streams (cutoff : Z) (ents : list dirent) : list dirent :=
  filter (fun e => (d_type e =? 2) && (cutoff <=? d_size e)) ents.
Definition mini_streams (cutoff : Z) (ents : list dirent) : list dirent :=
  filter (fun e => (d_type e =? 2) && (0 <? d_size e) && (d_size e <? cutoff)) ents.
Definition storages (ents : list dirent) : list dirent := filter is_storage_like ents.
Definition object_indices (ents : list dirent) : list Z :=
  marked 1 0 (map (fun e => if is_object e then 1 else 0) ents).

(* computes every chain and tree of the file; None when some walk leaves its table or does not terminate *)
Definition cfb_layout (b : bytes) : option layout :=
  let h := parse_header b in
  let ss := sector_size h in
  let nsect := sector_count b h in
  match walk_difat (S (Z.to_nat nsect)) b ss nsect (h_dif0 h) with None => None | Some difsects =>
  let fatsects := take_used (difat_entries b h difsects) in
  if negb (forallb (fun s => (0 <=? s) && (s <? nsect)) fatsects) then None else
  let fat := fat_of b ss fatsects in
  match walk_table fat (h_dir0 h), walk_table fat (h_mf0 h) with
  | Some dir, Some mf =>
      if negb (forallb (fun s => s <? nsect) (dir ++ mf)) then None else
      let ents := dirents b ss dir in
      let minifat := fat_of b ss mf in
      match ents with
      | [] => None
      | root :: _ =>
          match walk_table fat (d_start root),
                map_opt (fun e => walk_table fat (d_start e)) (big_streams (h_cutoff h) ents),
                map_opt (fun e => walk_table minifat (d_start e)) (mini_streams (h_cutoff h) ents),
                map_opt (fun e => build_tree ents (d_child e)) (storages ents) with
          | Some ms, Some big, Some mini, Some trees => Some (mkLayout difsects fatsects dir mf ms big mini trees)
          | _, _, _, _ => None
          end
      end
  | _, _ => None
  end end.

Fixpoint forallb2 {X Y} (f : X -> Y -> bool) (a : list X) (b : list Y) : bool :=
  match a, b with
  | [], [] => true
  | x :: a', y :: b' => f x y && forallb2 f a' b'
  | _, _ => false
  end.

(* the numbered conditions a layout has to satisfy *)
Definition cfb_conditions (b : bytes) (L : layout) : list (Z * bool) :=
  let h := parse_header b in
  let ss := sector_size h in
  let nsect := sector_count b h in
  let fat := fat_of b ss (l_fatsects L) in
  let ents := dirents b ss (l_dir L) in
  let minifat := fat_of b ss (l_mf L) in
  let root_size := match ents with r :: _ => d_size r | [] => 0 end in
  let msbytes := zlen (l_ms L) * ss in
  [ (2, zlen (l_difsects L) =? h_ndif h);
    (3, all_free (drop_used (difat_entries b h (l_difsects L))));
    (4, zlen (l_fatsects L) =? h_nfat h);
    (5, (nsect <=? zlen fat) && all_free (zdrop nsect fat));
    (6, list_eqb Z.eqb (ZSort.sort (l_fatsects L)) (marked FATSECT 0 fat)
        && list_eqb Z.eqb (ZSort.sort (l_difsects L)) (marked DIFSECT 0 fat));
    (7, negb (zlen (l_dir L) =? 0) && (if h_major h =? 3 then h_ndir h =? 0 else h_ndir h =? zlen (l_dir L)));
    (8, zlen (l_mf L) =? h_nmf h);
    (9, forallb (dirent_ok (h_major h)) ents
        && match ents with r :: rest => (d_type r =? 5) && forallb (fun e => negb (d_type e =? 5)) rest | [] => false end);
    (10, (root_size <=? msbytes) && all_free (zdrop (msbytes / 64) minifat));
    (11, forallb2 (fun e ch => zlen ch =? ceil_div (d_size e) ss) (big_streams (h_cutoff h) ents) (l_big L));
    (12, forallb2 (fun e ch => (zlen ch =? ceil_div (d_size e) 64) && forallb (fun s => (s + 1) * 64 <=? root_size) ch)
                  (mini_streams (h_cutoff h) ents) (l_mini L));
    (13, list_eqb Z.eqb (ZSort.sort (l_fatsects L ++ l_difsects L ++ l_dir L ++ l_mf L ++ l_ms L ++ concat (l_big L)))
                        (used_from 0 (Z.to_nat nsect) fat));
    (14, list_eqb Z.eqb (ZSort.sort (concat (l_mini L))) (used_from 0 (length minifat) minifat));
    (15, forallb (fun t => bst_b Z (ent_lt ents) t) (l_trees L));
    (16, forallb (fun t => rb_ok Z t) (l_trees L));
    (17, list_eqb Z.eqb (ZSort.sort (concat (map (elements Z) (l_trees L)))) (object_indices ents)) ].

Definition cfb_problems (b : bytes) : list Z :=
  if negb (header_ok b) then [1] else
  match cfb_layout b with
  | None => [0]
  | Some L => map fst (filter (fun c => negb (snd c)) (cfb_conditions b L))
  end.
Definition cfb_check (b : bytes) : bool :=
  header_ok b && match cfb_layout b with Some L => forallb snd (cfb_conditions b L) | None => false end.

(* ================================================================== Part 4: table allocation on Close; comparators *)
(* allocSectorTables: one SAT sector per sat_per entries, MSAT sectors beyond the 109 header slots; each new table sector
   is taken from the free list, which may itself extend the SAT.  Err 1 = fuel exhausted (would be a hang). *)
Fixpoint alloc_tables (fuel : nat) (ss : Z) (sat msat msatlist : list Z) : result (list Z * list Z * list Z) :=
  match fuel with
  | O => Err 1
  | S k =>
      let sat_per := ast_sat_per ss in
      let msat_per := ast_msat_per sat_per in
      if negb (Z.rem (zlen sat) sat_per =? 0) then Panic 5 else
      if ast_need_sat (ast_sat_sectors (zlen sat) sat_per) (zlen msat) then
        let '(fl, sat1) := make_free ss 1 sat in
        let s := first_of fl in
        alloc_tables k ss (sset sat1 s secid_sat) (msat ++ [s]) msatlist
      else if ast_need_msat (ast_msat_sectors (zlen msat) msat_per) (zlen msatlist) then
        let '(fl, sat1) := make_free ss 1 sat in
        let s := first_of fl in
        alloc_tables k ss (sset sat1 s secid_msat) msat (msatlist ++ [s])
      else Ok (sat, msat, msatlist)
  end.

(* lessDirEnt as coded: NameLength first, then the upper-cased UTF-16 code units of the two NameRunes arrays, index by index.
   unicode.ToUpper is the toolchain's table as srcgen reads it (go_upper_runs); the conditions and returns are srcgen's. *)
Definition go_to_upper (u : Z) : Z := lookup_upper go_upper_runs u.
Definition upper_unit (u : Z) : Z :=
  if upper_unit_is_surrogate u then u else
  let r := go_to_upper u in if upper_unit_fits r then r else u.
Fixpoint less_loop (fuel : nat) (n cap k : Z) (ua ub : list Z) : bool :=
  match fuel with
  | O => less_equal_ret
  | S f =>
      if less_loop_cond k n cap then
        let a := upper_unit (nth (Z.to_nat k) ua 0) in
        let b := upper_unit (nth (Z.to_nat k) ub 0) in
        if less_unit_differs a b then less_unit_ret a b else less_loop f n cap (k + 1) ua ub
      else less_equal_ret
  end.
Definition name_runes : Z := de_w_NameRunes / 2.      (* len(e.NameRunes) = 32 *)
(* la, lb = NameLength fields; ua, ub = NameRunes arrays *)
Definition less_dirent (la lb : Z) (ua ub : list Z) : bool :=
  if less_len_differs la lb then less_len_ret la lb
  else less_loop (S (Z.to_nat name_runes)) (less_n la) name_runes 0 ua ub.
(* on names (code units without the terminator): NameLength = 2 * (units + terminator), array zero padded *)
Definition relic_less (a b : list Z) : bool :=
  less_dirent (2 * (zlen a + 1)) (2 * (zlen b + 1)) a b.
(* relic's upper-casing of a code unit is the one of the MS-CFB order (upcase) *)
Definition unit_agrees (u : Z) : bool := upper_unit u =? upcase u.

(* unicode/utf16.Decode followed by string(): surrogate pairs combine, lone surrogates become U+FFFD *)
Definition is_hi (u : Z) : bool := (55296 <=? u) && (u <? 56320).
Definition is_lo (u : Z) : bool := (56320 <=? u) && (u <? 57344).
Fixpoint utf16_decode (l : list Z) : list Z :=
  match l with
  | [] => []
  | a :: r =>
      match r with
      | b :: r' => if is_hi a && is_lo b then (65536 + (a - 55296) * 1024 + (b - 56320)) :: utf16_decode r'
                   else (if is_hi a || is_lo a then 65533 else a) :: utf16_decode r
      | [] => [if is_hi a || is_lo a then 65533 else a]
      end
  end.
Definition utf8_enc (r : Z) : bytes :=
  if r <? 128 then [r]
  else if r <? 2048 then [192 + r / 64; 128 + r mod 64]
  else if r <? 65536 then [224 + r / 4096; 128 + (r / 64) mod 64; 128 + r mod 64]
  else [240 + r / 262144; 128 + (r / 4096) mod 64; 128 + (r / 64) mod 64; 128 + r mod 64].
Definition utf8_of_units (l : list Z) : bytes := concat (map utf8_enc (utf16_decode l)).
