(* C18/DirModel.v — executable definitions only: the directory entries of the root storage.
   Part A: lib/comdoc DeleteFile / AddFile / newDirEnt / appendDirEnt as coded (name matching through lessDirEnt on a probe
           entry, release of the replaced stream's sectors, slot reuse), freeSectors as coded.
   Part B: rebuildTree: red-black insertion of the root entries keyed by lessDirEnt, links copied back into the entries.
   Part C: authenticode.InsertMSISignature as the srcgen plan of AddFile / DeleteFile calls on the two signature names.
   Part D: the SPECIFICATION, written from the property text and [MS-CFB] 2.6.4 (UnicodeSpec.v), not from relic:
           sibling names unique under the MS-CFB comparison; the tree read back from the entries is an ordered, valid
           red-black tree without duplicate keys containing exactly the root entries; a replace leaves one entry.
   Every constant, comparison, branch condition and statement-presence flag of the Go code is a definition of
   Generated/C18_gen.v. *)
From Relic Require Import Base.Prelude Base.Enc Generated.C18_gen C18.Model C18.UnicodeSpec.

(* ================================================================== names *)
(* unicode/utf16.Encode: runes outside the surrogate range below 0x10000 are one unit, runes up to 0x10FFFF a pair,
   everything else U+FFFD.  A Go string is modelled by its runes ([]rune(name)); valid UTF-8 is assumed for name arguments. *)
Definition utf16_encode_rune (r : Z) : list Z :=
  if ((0 <=? r) && (r <? 55296)) || ((57344 <=? r) && (r <? 65536)) then [r]
  else if (65536 <=? r) && (r <=? 1114111) then [55296 + (r - 65536) / 1024; 56320 + (r - 65536) mod 1024]
  else [65533].
Definition utf16_encode (l : list Z) : list Z := concat (map utf16_encode_rune l).

(* copy(x.NameRunes[:], runes): a 32 unit array, zero filled *)
Definition pad_runes (l : list Z) : list Z := firstn (Z.to_nat name_runes) (l ++ repeat 0 (Z.to_nat name_runes)).

(* ================================================================== Part A: entries and the writer's name matching *)
Record dent := mkDent {
  f_runes : list Z;      (* NameRunes *)
  f_nlen : Z;            (* NameLength *)
  f_type : Z; f_color : Z; f_left : Z; f_right : Z; f_child : Z;
  f_start : Z;           (* NextSector *)
  f_size : Z }.          (* StreamSize *)
Definition blank : dent := mkDent (repeat 0 (Z.to_nat name_runes)) 0 0 0 0 0 0 0 0.     (* DirEnt{} *)

(* lessDirEnt on two entries *)
Definition ent_less (a b : dent) : bool := less_dirent (f_nlen a) (f_nlen b) (f_runes a) (f_runes b).
(* DirEnt.name as readDir sets it: RawDirEnt.Name() *)
Definition ent_name (e : dent) : list Z :=
  let used := name_used (f_nlen e) in
  if name_is_empty (f_type e) used then [] else utf16_decode (ztake used (f_runes e)).

Record dstate := mkD {
  d_files : list dent;        (* r.Files *)
  d_root_files : list Z;      (* r.rootFiles *)
  d_sat : list Z; d_ssat : list Z;
  d_root : Z;                 (* r.rootStorage *)
  d_ss : Z; d_mss : Z; d_cutoff : Z;
  d_changed : bool }.         (* r.changed *)

Definition get_ent (fs : list dent) (i : Z) : dent := nth (Z.to_nat i) fs blank.
Definition set_ent (fs : list dent) (i : Z) (e : dent) : list dent := set_nat (Z.to_nat i) e fs.
Definition ent_in_range (fs : list dent) (i : Z) : bool := (0 <=? i) && (i <? zlen fs).

(* freeSectors as coded: stops on a start outside the table, frees, stops on a negative link *)
Fixpoint go_free_chain (fuel : nat) (t : list Z) (s : Z) : list Z :=
  match fuel with
  | O => t
  | S k =>
      if free_break s (zlen t) then t else
      let next := sget t s in
      let t' := sset t s secid_free in
      if free_stop next then t' else go_free_chain k t' next
  end.
Definition go_free (t : list Z) (s : Z) : list Z := go_free_chain (S (length t)) t s.

Definition E_STORAGE : Z := 11.          (* "can't delete or replace storages" *)
Definition E_NAME_TOO_LONG : Z := 12.    (* "name is too long" *)
Definition P_INDEX : Z := 20.            (* index out of range *)

(* the probe entry DeleteFile builds for a name *)
Definition name_units (name : list Z) (terminated : bool) : list Z := utf16_encode name ++ (if terminated then [0] else []).
Definition probe_of (name : list Z) : dent :=
  let runes := name_units name delete_probe_terminated in
  mkDent (if delete_probe_copied then pad_runes runes else repeat 0 (Z.to_nat name_runes)) (delete_probe_namelen (zlen runes)) 0 0 0 0 0 0 0.

(* the loop of DeleteFile over r.rootFiles; result code 0 = finished, otherwise the error / panic code; the state is returned
   in every case because AddFile's caller sees whatever was done before a failure *)
Fixpoint delete_loop (name : list Z) (probe : dent) (cutoff : Z) (idxs : list Z)
                     (fs : list dent) (sat ssat keep : list Z) (ch : bool)
                     : Z * (list dent * list Z * list Z * list Z * bool) :=
  match idxs with
  | [] => (0, (fs, sat, ssat, keep, ch))
  | i :: rest =>
      if negb (ent_in_range fs i) then (- P_INDEX, (fs, sat, ssat, keep, ch)) else
      let item := get_ent fs i in
      if delete_keeps ent_less item probe (ent_name item) name then
        delete_loop name probe cutoff rest fs sat ssat (if delete_keep_appends then keep ++ [i] else keep) ch
      else if delete_refuses (f_type item) then (E_STORAGE, (fs, sat, ssat, keep, ch))
      else
        let tbl := if delete_is_short (f_size item) cutoff then delete_free_table_short else delete_free_table_long in
        let start := if delete_free_from_next then f_start item else secid_eoc in
        let sat' := if tbl =? 0 then go_free sat start else sat in
        let ssat' := if tbl =? 1 then go_free ssat start else ssat in
        delete_loop name probe cutoff rest (if delete_blanks_entry then set_ent fs i blank else fs) sat' ssat' keep
                    (ch || delete_marks_changed)
  end.

Definition with_dir (st : dstate) (fs : list dent) (rf sat ssat : list Z) : dstate :=
  mkD fs rf sat ssat (d_root st) (d_ss st) (d_mss st) (d_cutoff st) (d_changed st).
Definition with_changed (st : dstate) (ch : bool) : dstate :=
  mkD (d_files st) (d_root_files st) (d_sat st) (d_ssat st) (d_root st) (d_ss st) (d_mss st) (d_cutoff st) ch.

(* DeleteFile: (code, state); code 0 = nil error *)
Definition delete_file_raw (name : list Z) (st : dstate) : Z * dstate :=
  let runes := name_units name delete_probe_terminated in
  if delete_name_too_long (zlen runes) name_runes then (0, st) else
  let '(code, (fs, sat, ssat, keep, ch)) :=
    delete_loop name (probe_of name) (d_cutoff st) (d_root_files st) (d_files st) (d_sat st) (d_ssat st) [] (d_changed st) in
  if code =? 0 then (0, with_changed (with_dir st fs (if delete_commits_keep then keep else d_root_files st) sat ssat) ch)
  else (code, with_changed (with_dir st fs (d_root_files st) sat ssat) ch).
Definition as_result (r : Z * dstate) : result dstate :=
  let '(code, st) := r in if code =? 0 then Ok st else if code <? 0 then Panic (- code) else Err code.
Definition delete_file (name : list Z) (st : dstate) : result dstate := as_result (delete_file_raw name st).

(* newDirEnt *)
Definition new_dirent (name : list Z) (size first : Z) : result dent :=
  let runes := name_units name newde_terminated in
  if newde_too_long (zlen runes) then Err E_NAME_TOO_LONG else
  Ok (mkDent (if newde_copied then pad_runes runes else repeat 0 (Z.to_nat name_runes)) (newde_namelen (zlen runes))
             newde_type 0 newde_left newde_right newde_child first size).

(* appendDirEnt: first slot whose type test holds, else extend the directory by one sector of entries *)
Fixpoint first_free (i : Z) (fs : list dent) : Z :=
  match fs with
  | [] => -1
  | e :: r => if append_slot_free (f_type e) then i else first_free (i + 1) r
  end.
Definition append_dirent (ss : Z) (de : dent) (fs : list dent) : result (Z * list dent) :=
  let idx := first_free 0 fs in
  if append_extends idx then
    let grow := append_grow ss in
    if grow <=? 0 then Panic P_INDEX else Ok (zlen fs, fs ++ de :: repeat blank (Z.to_nat (grow - 1)))
  else Ok (idx, set_ent fs idx de).

(* addStream on the state: the allocation models of C18/Model.v (makeFreeSectors, chain building, mini stream growth) *)
Definition add_stream (len : Z) (st : dstate) : result (Z * dstate) :=
  if add_is_short len (d_cutoff st) then
    if negb (ent_in_range (d_files st) (d_root st)) then Panic P_INDEX else
    let root := get_ent (d_files st) (d_root st) in
    x <- add_stream_short (d_ss st) (d_mss st) len (d_sat st) (d_ssat st) (f_start root) (f_size root) ;;
    let '(first, ssat', sat', size') := x in
    let root' := mkDent (f_runes root) (f_nlen root) (f_type root) (f_color root) (f_left root) (f_right root) (f_child root)
                        (f_start root) size' in
    Ok (first, with_dir st (set_ent (d_files st) (d_root st) root') (d_root_files st) sat' ssat')
  else
    x <- add_stream_long (d_ss st) len (d_sat st) ;;
    let '(first, sat') := x in
    Ok (first, with_dir st (d_files st) (d_root_files st) sat' (d_ssat st)).

(* AddFile(name, contents) with len = len(contents) *)
Definition add_file (name : list Z) (len : Z) (st : dstate) : result dstate :=
  let '(code, st1) := delete_file_raw name st in
  if negb (code =? 0) && (addfile_delete_err_returned || (code <? 0)) then as_result (code, st1) else
  x <- add_stream len st1 ;;
  let '(first, st2) := x in
  de <- new_dirent name len first ;;
  y <- append_dirent (d_ss st2) de (d_files st2) ;;
  let '(idx, fs) := y in
  Ok (with_changed (with_dir st2 fs (if addfile_appends_root then d_root_files st2 ++ [idx] else d_root_files st2) (d_sat st2) (d_ssat st2))
                   (d_changed st2 || addfile_marks_changed)).

(* ================================================================== Part B: rebuildTree *)
Definition idx_less (fs : list dent) (i j : Z) : bool := ent_less (get_ent fs i) (get_ent fs j).
(* redblack.New(lessDirEnt), one Insert per root file in r.rootFiles order *)
Definition rebuild_tree (fs : list dent) (rf : list Z) : tree Z :=
  insert_all Z (idx_less fs) rb_new_node_red rb_root_blackened rf.

Definition tree_root (t : tree Z) : option Z := match t with T _ _ i _ => Some i | E => None end.
Definition set_color (e : dent) (c : Z) : dent :=
  mkDent (f_runes e) (f_nlen e) (f_type e) c (f_left e) (f_right e) (f_child e) (f_start e) (f_size e).
Definition set_link (field : Z) (e : dent) (v : Z) : dent :=
  if field =? 0 then mkDent (f_runes e) (f_nlen e) (f_type e) (f_color e) v (f_right e) (f_child e) (f_start e) (f_size e)
  else mkDent (f_runes e) (f_nlen e) (f_type e) (f_color e) (f_left e) v (f_child e) (f_start e) (f_size e).
Definition set_child (e : dent) (v : Z) : dent :=
  mkDent (f_runes e) (f_nlen e) (f_type e) (f_color e) (f_left e) (f_right e) v (f_start e) (f_size e).
(* the body of the loop over tree.Nodes() for one node: colour, then Children[0], then Children[1] *)
Definition link_node (c : color) (l r : tree Z) (e : dent) : dent :=
  let e1 := set_color e (match c with Red => rebuild_color_if_red | Black => rebuild_color_if_black end) in
  let e2 := set_link rebuild_child0_field e1 (match tree_root l with Some j => j | None => rebuild_child0_none end) in
  set_link rebuild_child1_field e2 (match tree_root r with Some j => j | None => rebuild_child1_none end).
Fixpoint write_links (t : tree Z) (fs : list dent) : list dent :=
  match t with
  | E => fs
  | T c l i r => write_links r (write_links l (set_ent fs i (link_node c l r (get_ent fs i))))
  end.
(* rebuildTree(parent, files): an empty tree leaves the parent's StorageRoot as it was *)
Definition rebuild (st : dstate) : dstate :=
  if negb (wds_rebuilds_root && rebuild_by_less_dirent && rebuild_inserts_entries) then st else
  let t := rebuild_tree (d_files st) (d_root_files st) in
  let fs := write_links t (d_files st) in
  let fs' := match tree_root t with
             | Some i => if rebuild_sets_storage_root then set_ent fs (d_root st) (set_child (get_ent fs (d_root st)) i) else fs
             | None => fs
             end in
  with_dir st fs' (d_root_files st) (d_sat st) (d_ssat st).
(* the directory part of Close: nothing is rewritten unless an operation marked the document as changed *)
Definition close_dir (st : dstate) : dstate := if close_skips (d_changed st) then st else rebuild st.

(* ================================================================== Part C: InsertMSISignature *)
Definition plan_name (nm : Z) : list Z := if nm =? 0 then msi_sig_name else msi_sigex_name.
Definition run_step (pk ex : Z) (s : Z * Z * Z) (st : dstate) : result dstate :=
  let '(op, nm, pl) := s in
  if op =? 0 then add_file (plan_name nm) (if pl =? 0 then pk else ex) st else delete_file (plan_name nm) st.
Fixpoint run_plan (pk ex : Z) (p : list (Z * Z * Z)) (st : dstate) : result dstate :=
  match p with
  | [] => Ok st
  | s :: r => st' <- run_step pk ex s st ;; run_plan pk ex r st'
  end.
(* pk = len(pkcs), ex = len(exsig) *)
Definition insert_plan (ex : Z) : list (Z * Z * Z) :=
  (if insert_has_exsig ex then insert_plan_then else insert_plan_else) ++ insert_plan_tail.
Definition insert_sig_body (pk ex : Z) (st : dstate) : result dstate := run_plan pk ex (insert_plan ex) st.

(* comdoc.SameName on two Go strings (runes): UTF-16 encode both, same number of units, same upper-cased units *)
Fixpoint same_loop (ra rb : list Z) : bool :=
  match ra, rb with
  | x :: a, y :: b => if same_unit_differs (upper_unit x) (upper_unit y) then same_unit_ret else same_loop a b
  | _, _ => same_all_ret
  end.
Definition same_name (a b : list Z) : bool :=
  let ra := utf16_encode a in let rb := utf16_encode b in
  if same_len_differs (zlen ra) (zlen rb) then same_len_ret else same_loop ra rb.
(* isMsiSignatureName *)
Definition is_sig_name (name : list Z) : bool := is_sig_name_def same_name name msi_sig_name msi_sigex_name.

(* ComDoc.ListDir(nil): the entries reachable from the root's StorageRoot through the LeftChild / RightChild links as they are in
   memory (a stack walk: the right child is visited first), as a list of indices; it does NOT read r.rootFiles *)
Definition E_DIR : Z := 13.          (* "directory entry ID is out of range" / "directory tree loops" *)
Fixpoint list_walk (fuel : nat) (fs : list dent) (stack acc : list Z) : result (list Z) :=
  match stack with
  | [] => Ok acc
  | index :: rest =>
      match fuel with
      | O => Err 1
      | S k =>
          if listdir_oob index (zlen fs) then Err E_DIR else
          if listdir_loops (zlen acc) (zlen fs) then Err E_DIR else
          let item := get_ent fs index in
          let st1 := if listdir_has_left (f_left item) then f_left item :: rest else rest in
          let st2 := if listdir_has_right (f_right item) then f_right item :: st1 else st1 in
          list_walk k fs st2 (acc ++ [index])
      end
  end.
Definition list_root (st : dstate) : result (list Z) :=
  let child := f_child (get_ent (d_files st) (d_root st)) in
  if listdir_empty child then Ok [] else list_walk (S (S (length (d_files st)))) (d_files st) [child] [].
(* the pre-check of InsertMSISignature: refuse before anything is changed when a listed entry that is not a stream carries one of the
   two signature names *)
Definition sig_slot_blocked (fs : list dent) (i : Z) : bool :=
  insert_refuses (f_type (get_ent fs i)) (is_sig_name (ent_name (get_ent fs i))).
Definition precheck (st : dstate) : result unit :=
  if negb insert_precheck then Ok tt else
  l <- list_root st ;;
  if existsb (sig_slot_blocked (d_files st)) l then Err E_STORAGE else Ok tt.
Definition insert_sig (pk ex : Z) (st : dstate) : result dstate :=
  _ <- precheck st ;; insert_sig_body pk ex st.

(* histories of the three operations *)
Inductive dop := OpAdd (name : list Z) (len : Z) | OpDel (name : list Z) | OpSign (pk ex : Z).
Definition run_op (o : dop) (st : dstate) : result dstate :=
  match o with
  | OpAdd n len => add_file n len st
  | OpDel n => delete_file n st
  | OpSign pk ex => insert_sig pk ex st
  end.
Fixpoint run_ops (ops : list dop) (st : dstate) : result dstate :=
  match ops with
  | [] => Ok st
  | o :: r => st' <- run_op o st ;; run_ops r st'
  end.

(* ================================================================== Part D: specification *)
(* [MS-CFB] 2.6.4 on names given as UTF-16 code units without the terminator: cfb_less of C18/Model.v Part 3 (length, then
   code units upper-cased with the table of C18/UnicodeSpec.v) *)
Definition spec_upper : Z -> Z := upcase.
Definition spec_less : list Z -> list Z -> bool := cfb_less.
Definition spec_same (a b : list Z) : bool := negb (spec_less a b) && negb (spec_less b a).
(* two objects of one storage must not have the same name under that comparison *)
Fixpoint spec_unique (names : list (list Z)) : bool :=
  match names with
  | [] => true
  | a :: r => forallb (fun b => negb (spec_same a b)) r && spec_unique r
  end.

(* the name an entry carries, as [MS-CFB] 2.6.1 reads it: NameLength/2 - 1 code units *)
Definition ent_units (e : dent) : list Z := firstn (Z.to_nat (f_nlen e / 2 - 1)) (f_runes e).
Definition root_names (st : dstate) : list (list Z) := map (fun i => ent_units (get_ent (d_files st) i)) (d_root_files st).

(* the sibling tree of the root storage read back from the entries (colour, left, right) starting at the root's child id;
   -1 is relic's in-memory NOSTREAM; budget bounds the number of nodes, so a cycle gives None *)
Fixpoint read_tree (fuel : nat) (fs : list dent) (i : Z) : option (tree Z) :=
  if i =? -1 then Some E else
  match fuel with
  | O => None
  | S k =>
      if negb (ent_in_range fs i) then None else
      let e := get_ent fs i in
      match read_tree k fs (f_left e), read_tree k fs (f_right e) with
      | Some l, Some r => Some (T (if f_color e =? 0 then Red else Black) l i r)
      | _, _ => None
      end
  end.
Fixpoint strictly_increasing (names : list (list Z)) : bool :=
  match names with
  | a :: r => match r with b :: _ => spec_less a b && strictly_increasing r | [] => true end
  | [] => true
  end.
(* what the property demands of the root storage's directory tree: it can be read back, it is a valid red-black tree, its
   in-order name sequence is strictly increasing in the MS-CFB order (ordered, no duplicate keys), and it holds exactly
   the root entries (as many nodes as members, every node a member; the nodes are distinct because their names are) *)
Definition spec_tree_ok (fs : list dent) (child : Z) (members : list Z) : bool :=
  match read_tree (S (length fs)) fs child with
  | None => false
  | Some t =>
      rb_ok Z t && strictly_increasing (map (fun i => ent_units (get_ent fs i)) (elements Z t))
      && (length (elements Z t) =? length members)%nat && forallb (fun i => existsb (Z.eqb i) members) (elements Z t)
  end.
(* what a replace / insert of `name` demands of the root storage afterwards: exactly one entry carries that name (under the
   MS-CFB comparison), it is a stream of the given size; a delete leaves none *)
Definition count_same (name : list Z) (names : list (list Z)) : Z := zlen (filter (spec_same name) names).
