(* C18/Run.v — evaluation of the models and of the validator on harness cases. *)
From Relic Require Import Base.Prelude Base.Enc Base.Val Generated.C18_gen C18.Model.

(* ---- mode 0: red-black insertion on integer keys, as coded (colour of new nodes / root from srcgen)
   input [keys ; observed pre-order list of [key red left right] ; observed root key]
   output [codes ; valid-as-coded ; valid-if-repaired]   codes: 1 shape/colour differs from the model *)
Fixpoint flatten (t : tree Z) : list (list Z) :=
  match t with
  | E => []
  | T c l x r =>
      [x; (match c with Red => 1 | Black => 0 end);
       (match l with T _ _ y _ => y | E => -1 end); (match r with T _ _ y _ => y | E => -1 end)] :: flatten l ++ flatten r
  end.
Definition run_rb (v : val) : val :=
  let keys := map vz (vl (vnth 0 v)) in
  let obs := map (fun x => map vz (vl x)) (vl (vnth 1 v)) in
  let t := zins rb_new_node_red rb_root_blackened keys in
  let same := list_eqb (list_eqb Z.eqb) (flatten t) obs in
  VL [VZs (if same then [] else [1]); of_bool (rb_ok Z t && bst_b Z Z.ltb t);
      of_bool (rb_ok Z (zins true true keys))].

(* ---- mode 1: the validator on a whole file: output [ok ; problem codes] *)
Definition run_cfb (v : val) : val :=
  let b := vb (vnth 0 v) in
  VL [of_bool (cfb_check b); VZs (cfb_problems b)].

Definition run (v : val) : val :=
  let m := vz (vnth 0 v) in
  if m =? 0 then run_rb (vnth 1 v)
  else if m =? 1 then run_cfb (vnth 1 v)
  else VL [].
