(* C18/Run.v — evaluation of the models and of the validator on harness cases. *)
From Relic Require Import Base.Prelude Base.Enc Base.Val Generated.C18_gen C18.Model C18.DirModel.

(* ---- mode 0: red-black insertion on integer keys, as coded (colour of new nodes / root from srcgen)
   input [keys ; observed pre-order list of [key red left right] ; observed root key]
   output [codes ; valid-as-coded ; valid-if-repaired]   codes: 1 shape/colour differs from the model *)
Fixpoint flatten (t : tree Z) : list (list Z) :=
  match t with
  | E => []
  | T c l x r =>
      [x; (match c with Red => 1 | Black => 0 end);
       (match l with T _ _ y _ => y | E => -1 end); (match r with T _ _ y _ => y | E => -1 end)] :: flatten l ++ flatten r
  end.
Definition run_rb (v : val) : val :=
  let keys := map vz (vl (vnth 0 v)) in
  let obs := map (fun x => map vz (vl x)) (vl (vnth 1 v)) in
  let t := zins rb_new_node_red rb_root_blackened keys in
  let same := list_eqb (list_eqb Z.eqb) (flatten t) obs in
  VL [VZs (if same then [] else [1]); of_bool (rb_ok Z t && bst_b Z Z.ltb t);
      of_bool (rb_ok Z (zins true true keys))].

(* ---- mode 1: the validator on a whole file: output [ok ; problem codes] *)
Definition run_cfb (v : val) : val :=
  let b := vb (vnth 0 v) in
  VL [of_bool (cfb_check b); VZs (cfb_problems b)].

(* ---- mode 2: makeFreeSectors  input [ss count table obs_list obs_table']  output [codes]  (1 = differs from the model) *)
Definition zl (v : val) : list Z := map vz (vl v).
Definition run_free (v : val) : val :=
  let '(fl, t') := make_free (vz (vnth 0 v)) (vz (vnth 1 v)) (zl (vnth 2 v)) in
  VL [VZs (if list_eqb Z.eqb fl (zl (vnth 3 v)) && list_eqb Z.eqb t' (zl (vnth 4 v)) then [] else [1])].

(* ---- mode 3: addStream  input [ss len short sat ssat rootnext rootsize status first sat' ssat' rootsize']
   status: 0 ok, 1 error, 2 panic.  codes: 1 status differs, 2 result differs *)
Definition status_of {X} (r : result X) : Z := match r with Ok _ => 0 | Err _ => 1 | Panic _ => 2 end.
Definition run_stream (v : val) : val :=
  let ss := vz (vnth 0 v) in let len := vz (vnth 1 v) in let short := vbool (vnth 2 v) in
  let sat := zl (vnth 3 v) in let ssat := zl (vnth 4 v) in
  let rootnext := vz (vnth 5 v) in let rootsize := vz (vnth 6 v) in
  let o_status := vz (vnth 7 v) in let o_first := vz (vnth 8 v) in
  let o_sat := zl (vnth 9 v) in let o_ssat := zl (vnth 10 v) in let o_size := vz (vnth 11 v) in
  if short then
    let r := add_stream_short ss 64 len sat ssat rootnext rootsize in
    VL [VZs ((if status_of r =? o_status then [] else [1]) ++
             match r with
             | Ok (first, ssat', sat', size') =>
                 if (first =? o_first) && list_eqb Z.eqb ssat' o_ssat && list_eqb Z.eqb sat' o_sat && (size' =? o_size) then [] else [2]
             | _ => [] end)]
  else
    let r := add_stream_long ss len sat in
    VL [VZs ((if status_of r =? o_status then [] else [1]) ++
             match r with
             | Ok (first, sat') =>
                 if (first =? o_first) && list_eqb Z.eqb sat' o_sat && list_eqb Z.eqb ssat o_ssat && (rootsize =? o_size) then [] else [2]
             | _ => [] end)].

(* ---- mode 4: lessDirEnt  input [units_a units_b utf8_a utf8_b observed]
   output [codes ; ms-cfb order (Coq transcription) says a<b ; both names inside the agreement domain]
   codes: 1 comparator differs from the model, 2 UTF-8 form of the name (DirEnt.Name) differs *)
Definition run_less (v : val) : val :=
  let a := zl (vnth 0 v) in let b := zl (vnth 1 v) in
  VL [VZs ((if Bool.eqb (relic_less a b) (vbool (vnth 4 v)) then [] else [1]) ++
           (if bytes_eqb (utf8_of_units a) (vb (vnth 2 v)) && bytes_eqb (utf8_of_units b) (vb (vnth 3 v)) then [] else [2]));
      of_bool (cfb_less a b); of_bool (forallb unit_agrees a && forallb unit_agrees b)].

(* ---- mode 5: allocSectorTables  input [ss sat msat msatlist status sat' msat' msatlist']  codes as mode 3 *)
Definition run_tables (v : val) : val :=
  let sat := zl (vnth 1 v) in
  let r := alloc_tables (S (S (length sat))) (vz (vnth 0 v)) sat (zl (vnth 2 v)) (zl (vnth 3 v)) in
  VL [VZs ((if status_of r =? vz (vnth 4 v) then [] else [1]) ++
           match r with
           | Ok (sat', msat', ml') =>
               if list_eqb Z.eqb sat' (zl (vnth 5 v)) && list_eqb Z.eqb msat' (zl (vnth 6 v)) && list_eqb Z.eqb ml' (zl (vnth 7 v)) then [] else [2]
           | _ => [] end)].


(* ---- directory states:  [ss mss cutoff root sat ssat rootfiles files] ; one file = [runes nlen type color left right child start size] *)
Definition dent_of (v : val) : dent :=
  mkDent (zl (vnth 0 v)) (vz (vnth 1 v)) (vz (vnth 2 v)) (vz (vnth 3 v)) (vz (vnth 4 v)) (vz (vnth 5 v)) (vz (vnth 6 v))
         (vz (vnth 7 v)) (vz (vnth 8 v)).
Definition dstate_of (v : val) : dstate :=
  mkD (map dent_of (vl (vnth 7 v))) (zl (vnth 6 v)) (zl (vnth 4 v)) (zl (vnth 5 v)) (vz (vnth 3 v))
      (vz (vnth 0 v)) (vz (vnth 1 v)) (vz (vnth 2 v)) false.
Definition dent_eqb (a b : dent) : bool :=
  list_eqb Z.eqb (f_runes a) (f_runes b) && (f_nlen a =? f_nlen b) && (f_type a =? f_type b) && (f_color a =? f_color b)
  && (f_left a =? f_left b) && (f_right a =? f_right b) && (f_child a =? f_child b) && (f_start a =? f_start b) && (f_size a =? f_size b).
Definition links_eqb (a b : dent) : bool :=
  (f_color a =? f_color b) && (f_left a =? f_left b) && (f_right a =? f_right b) && (f_child a =? f_child b).
Definition status_code (r : result dstate) : Z :=
  match r with Ok _ => 0 | Err e => if (e =? E_STORAGE) || (e =? E_NAME_TOO_LONG) then e else 1 | Panic _ => 2 end.

(* ---- mode 6: one operation of the real writer (before Close) against the model
   input [pre op obs_status obs_state] ; op = [kind name a b] : kind 0 AddFile(name, a bytes), 1 DeleteFile(name), 2 InsertMSISignature(a, b bytes)
   obs_status: 0 ok, 1 error, 2 panic, 11 storage refused, 12 name too long
   output [codes ; model status ; names unique before (spec) ; names unique in the observed state (spec) ;
           entries of the observed root storage carrying each name of the operation (spec comparison)]
   codes: 1 status, 2 directory entries, 3 rootFiles, 4 SAT, 5 SSAT differ from the model *)
Definition op_of (v : val) : dop :=
  let k := vz (vnth 0 v) in
  if k =? 0 then OpAdd (zl (vnth 1 v)) (vz (vnth 2 v))
  else if k =? 1 then OpDel (zl (vnth 1 v))
  else OpSign (vz (vnth 2 v)) (vz (vnth 3 v)).
Definition op_names (o : dop) : list (list Z) :=
  match o with
  | OpAdd n _ => [utf16_encode n]
  | OpDel n => [utf16_encode n]
  | OpSign _ _ => [utf16_encode msi_sig_name; utf16_encode msi_sigex_name]
  end.
Definition run_dirop (v : val) : val :=
  let pre := dstate_of (vnth 0 v) in
  let o := op_of (vnth 1 v) in
  let o_status := vz (vnth 2 v) in
  let obs := dstate_of (vnth 3 v) in
  let r := run_op o pre in
  let sc := status_code r in
  let same_status := if (o_status =? 1) then (sc =? 1) || (sc =? E_STORAGE) || (sc =? E_NAME_TOO_LONG) else sc =? o_status in
  VL [VZs ((if same_status then [] else [1]) ++
           match r with
           | Ok st => if o_status =? 0 then
                 (if list_eqb dent_eqb (d_files st) (d_files obs) then [] else [2]) ++
                 (if list_eqb Z.eqb (d_root_files st) (d_root_files obs) then [] else [3]) ++
                 (if list_eqb Z.eqb (d_sat st) (d_sat obs) then [] else [4]) ++
                 (if list_eqb Z.eqb (d_ssat st) (d_ssat obs) then [] else [5])
               else []
           | _ => [] end);
      VZ sc; of_bool (spec_unique (root_names pre)); of_bool (spec_unique (root_names obs));
      VZs (map (fun n => count_same n (root_names obs)) (op_names o))].

Fixpoint diff_at {X} (eqb : X -> X -> bool) (i : Z) (a b : list X) : list Z :=
  match a, b with
  | x :: a', y :: b' => if eqb x y then diff_at eqb (i + 1) a' b' else i :: diff_at eqb (i + 1) a' b'
  | _, _ => []
  end.
(* ---- mode 7: the operation followed by the directory part of Close (rebuildTree when the document was changed)
   input [state before the operation ; op ; directory entries after Close]
   output [codes ; the tree read back from the OBSERVED entries satisfies the specification ; same for the model's entries]
   codes: 1 colour / left / right / StorageRoot of some entry differ from the model, followed by the indices of those entries;
          2 the model's operation does not succeed *)
Definition run_rebuild (v : val) : val :=
  let pre := dstate_of (vnth 0 v) in
  let obs := map dent_of (vl (vnth 2 v)) in
  match run_op (op_of (vnth 1 v)) pre with
  | Ok mid =>
      let st := close_dir mid in
      let same := list_eqb links_eqb (d_files st) (firstn (length (d_files st)) obs) in
      VL [VZs (if same then [] else 1 :: diff_at links_eqb 0 (d_files st) obs);
          of_bool (spec_tree_ok obs (f_child (get_ent obs (d_root mid))) (d_root_files mid));
          of_bool (spec_tree_ok (d_files st) (f_child (get_ent (d_files st) (d_root st))) (d_root_files st))]
  | _ => VL [VZs [2]; VZ 0; VZ 0]
  end.

Definition run (v : val) : val :=
  let m := vz (vnth 0 v) in
  if m =? 0 then run_rb (vnth 1 v)
  else if m =? 1 then run_cfb (vnth 1 v)
  else if m =? 2 then run_free (vnth 1 v)
  else if m =? 3 then run_stream (vnth 1 v)
  else if m =? 4 then run_less (vnth 1 v)
  else if m =? 5 then run_tables (vnth 1 v)
  else if m =? 6 then run_dirop (vnth 1 v)
  else if m =? 7 then run_rebuild (vnth 1 v)
  else VL [].
