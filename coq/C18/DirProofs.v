(* C18/DirProofs.v — lemmas about the directory model of C18/DirModel.v. *)
From Relic Require Import Base.Prelude Base.Enc Generated.C18_gen C18.UnicodeSpec C18.Model C18.Proofs C18.DirModel.
From Coq Require Import Permutation.

(* ================================================================== 1. lessDirEnt decides on a key *)
(* the comparison loop as a lexicographic comparison of two lists, with the three generated decisions *)
Fixpoint lex_lt (a b : list Z) : bool :=
  match a, b with
  | x :: a', y :: b' => if less_unit_differs x y then less_unit_ret x y else lex_lt a' b'
  | _, _ => less_equal_ret
  end.
(* number of loop iterations for a NameLength, and the upper-cased units the loop looks at *)
Definition iters (la : Z) : nat := Z.to_nat (Z.min (less_n la) name_runes).
Definition up_units (m : nat) (k : nat) (u : list Z) : list Z := map (fun j => upper_unit (nth j u 0)) (seq k m).
Definition ekey (e : dent) : list Z := f_nlen e :: up_units (iters (f_nlen e)) 0 (f_runes e).
Definition key_less (ka kb : list Z) : bool :=
  match ka, kb with
  | la :: ua, lb :: ub => if less_len_differs la lb then less_len_ret la lb else lex_lt ua ub
  | _, _ => false
  end.

Lemma less_loop_lex m : forall fuel k n ua ub, (m < fuel)%nat -> 0 <= k ->
  Z.of_nat m = Z.max 0 (Z.min n name_runes - k) ->
  less_loop fuel n name_runes k ua ub = lex_lt (up_units m (Z.to_nat k) ua) (up_units m (Z.to_nat k) ub).
Proof.
  induction m as [|m IH]; intros fuel k n ua ub Hf Hk Hm; (destruct fuel as [|f]; [lia|]); cbn [less_loop].
  - unfold less_loop_cond. replace ((k <? n) && (k <? name_runes)) with false by lia. reflexivity.
  - unfold less_loop_cond. replace ((k <? n) && (k <? name_runes)) with true by lia.
    unfold up_units. cbn [seq map lex_lt].
    destruct (less_unit_differs (upper_unit (nth (Z.to_nat k) ua 0)) (upper_unit (nth (Z.to_nat k) ub 0))); [reflexivity|].
    rewrite (IH f (k + 1) n ua ub) by lia. unfold up_units. replace (Z.to_nat (k + 1)) with (S (Z.to_nat k)) by lia. reflexivity.
Qed.

Lemma ent_less_key a b : ent_less a b = key_less (ekey a) (ekey b).
Proof.
  unfold ent_less, less_dirent, ekey, key_less.
  destruct (less_len_differs (f_nlen a) (f_nlen b)) eqn:E; [reflexivity|].
  unfold less_len_differs in E. apply negb_false_iff in E. apply Z.eqb_eq in E. rewrite <- E.
  rewrite (less_loop_lex (iters (f_nlen a))); [reflexivity | | lia |].
  - unfold iters, name_runes, de_w_NameRunes. cbn. lia.
  - unfold iters. unfold name_runes, de_w_NameRunes. cbn. lia.
Qed.

Lemma lex_lt_irrefl a : lex_lt a a = false.
Proof.
  induction a as [|x a IH]; cbn; [reflexivity|]. unfold less_unit_differs. rewrite Z.eqb_refl. cbn. exact IH.
Qed.
Lemma lex_lt_trans a : forall b c, lex_lt a b = true -> lex_lt b c = true -> lex_lt a c = true.
Proof.
  induction a as [|x a IH]; intros [|y b] [|z c]; cbn; try discriminate.
  unfold less_unit_differs, less_unit_ret.
  destruct (x =? y) eqn:E1; destruct (y =? z) eqn:E2; cbn [negb]; intros H1 H2.
  - replace (x =? z) with true by lia. cbn. eapply IH; eassumption.
  - replace (x =? z) with false by lia. cbn. lia.
  - replace (x =? z) with false by lia. cbn. lia.
  - replace (x =? z) with false by lia. cbn. lia.
Qed.
(* two lists of the same length that are not ordered either way are equal *)
Lemma lex_lt_total a : forall b, length a = length b -> lex_lt a b = false -> lex_lt b a = false -> a = b.
Proof.
  induction a as [|x a IH]; intros [|y b] Hl; cbn in Hl; try lia; [reflexivity|]. cbn.
  unfold less_unit_differs, less_unit_ret.
  destruct (x =? y) eqn:E1; cbn [negb].
  - replace (y =? x) with true by lia. cbn [negb]. intros H1 H2. apply Z.eqb_eq in E1. subst. f_equal. apply IH; [lia | assumption | assumption].
  - replace (y =? x) with false by lia. cbn [negb]. lia.
Qed.

Lemma key_less_irrefl k : key_less k k = false.
Proof.
  destruct k as [|l u]; [reflexivity|]. cbn. unfold less_len_differs. rewrite Z.eqb_refl. cbn. apply lex_lt_irrefl.
Qed.
Lemma key_less_trans a b c : key_less a b = true -> key_less b c = true -> key_less a c = true.
Proof.
  destruct a as [|la ua], b as [|lb ub], c as [|lc uc]; cbn; try discriminate.
  unfold less_len_differs, less_len_ret.
  destruct (la =? lb) eqn:E1; destruct (lb =? lc) eqn:E2; cbn [negb]; intros H1 H2.
  - replace (la =? lc) with true by lia. cbn. eapply lex_lt_trans; eassumption.
  - replace (la =? lc) with false by lia. cbn. lia.
  - replace (la =? lc) with false by lia. cbn. lia.
  - replace (la =? lc) with false by lia. cbn. lia.
Qed.

Lemma up_units_length m k u : length (up_units m k u) = m.
Proof. unfold up_units. now rewrite map_length, seq_length. Qed.

(* the relation "lessDirEnt orders the two entries neither way" is equality of keys *)
Definition ent_same (a b : dent) : bool := negb (ent_less a b) && negb (ent_less b a).
Lemma ent_same_iff a b : ent_same a b = true <-> ekey a = ekey b.
Proof.
  unfold ent_same. rewrite !ent_less_key. split.
  - intros H. apply andb_true_iff in H as [H1 H2]. apply negb_true_iff in H1, H2.
    unfold ekey in *. cbn [key_less] in H1, H2. unfold less_len_differs, less_len_ret in H1, H2.
    destruct (f_nlen a =? f_nlen b) eqn:E.
    + replace (f_nlen b =? f_nlen a) with true in H2 by lia. cbn [negb] in H1, H2. apply Z.eqb_eq in E.
      f_equal; [exact E|]. apply lex_lt_total; [|assumption|assumption]. rewrite !up_units_length, E. reflexivity.
    + replace (f_nlen b =? f_nlen a) with false in H2 by lia. cbn [negb] in H1, H2. lia.
  - intros E. rewrite E. rewrite key_less_irrefl. reflexivity.
Qed.
Lemma ent_less_irrefl a : ent_less a a = false.
Proof. rewrite ent_less_key. apply key_less_irrefl. Qed.
Lemma ent_less_trans a b c : ent_less a b = true -> ent_less b c = true -> ent_less a c = true.
Proof. rewrite !ent_less_key. apply key_less_trans. Qed.
Lemma ent_less_cmp a b : ekey a <> ekey b -> ent_less a b = true \/ ent_less b a = true.
Proof.
  intros H. destruct (ent_less a b) eqn:E1; [left; reflexivity|]. destruct (ent_less b a) eqn:E2; [right; reflexivity|].
  exfalso. apply H. apply ent_same_iff. unfold ent_same. rewrite E1, E2. reflexivity.
Qed.

(* ================================================================== 2. DeleteFile *)
Lemma get_set_same fs i e : 0 <= i < zlen fs -> get_ent (set_ent fs i e) i = e.
Proof. intros H. unfold get_ent, set_ent. apply set_nat_same. unfold zlen in H. lia. Qed.
Lemma get_set_other fs i j e : 0 <= i -> 0 <= j -> i <> j -> get_ent (set_ent fs i e) j = get_ent fs j.
Proof. intros Hi Hj H. unfold get_ent, set_ent. apply set_nat_other. lia. Qed.
Lemma zlen_set_ent fs i e : zlen (set_ent fs i e) = zlen fs.
Proof. unfold zlen, set_ent. now rewrite set_nat_length. Qed.
Lemma in_range_iff fs i : ent_in_range fs i = true <-> 0 <= i < zlen fs.
Proof. unfold ent_in_range. lia. Qed.

(* the keep test of DeleteFile as srcgen reads it: the entry and the probe are ordered one way or the other by lessDirEnt *)
Lemma ent_less_asym a b : ent_less a b = true -> ent_less b a = false.
Proof.
  intros H. destruct (ent_less b a) eqn:E; [|reflexivity]. pose proof (ent_less_trans _ _ _ H E) as T. rewrite ent_less_irrefl in T. discriminate.
Qed.
(* (any boolean combination of the two comparisons that agrees with "one of them holds" on the three possible outcomes passes:
   both cannot hold at once) *)
Lemma keeps_is_not_same (a p : dent) na n : delete_keeps ent_less a p na n = negb (ent_same a p).
Proof.
  unfold delete_keeps, ent_same. destruct (ent_less a p) eqn:E1; [rewrite (ent_less_asym _ _ E1); reflexivity|].
  destruct (ent_less p a); reflexivity.
Qed.

Definition matches (p : dent) (fs : list dent) (i : Z) : bool := ent_same (get_ent fs i) p.

Lemma filter_ext_in' {X} (f g : X -> bool) l : (forall x, In x l -> f x = g x) -> filter f l = filter g l.
Proof.
  induction l as [|x l IH]; cbn; intros H; [reflexivity|]. rewrite (H x (or_introl eq_refl)).
  rewrite IH by (intros; apply H; right; assumption). reflexivity.
Qed.

Ltac simpl_st := unfold with_dir, with_changed; cbn [d_files d_root_files d_sat d_ssat d_root d_ss d_mss d_cutoff d_changed].
Ltac split5 := split; [|split; [|split; [|split]]].
Lemma delete_loop_ok name p cutoff : forall idxs fs sat ssat keep ch fs' sat' ssat' keep' ch',
  NoDup idxs -> Forall (fun i => 0 <= i < zlen fs) idxs ->
  delete_loop name p cutoff idxs fs sat ssat keep ch = (0, (fs', sat', ssat', keep', ch')) ->
  keep' = keep ++ filter (fun i => negb (matches p fs i)) idxs /\
  zlen fs' = zlen fs /\
  (forall j, 0 <= j -> (~ In j idxs \/ matches p fs j = false) -> get_ent fs' j = get_ent fs j) /\
  (forall j, In j idxs -> matches p fs j = true -> get_ent fs' j = blank /\ delete_refuses (f_type (get_ent fs j)) = false) /\
  (ch' = ch || existsb (matches p fs) idxs).
Proof.
  induction idxs as [|i rest IH]; intros fs sat ssat keep ch fs' sat' ssat' keep' ch' Hnd Hr H; cbn [delete_loop] in H.
  - inversion H; subst. cbn. rewrite app_nil_r, orb_false_r. split5; auto; intros ? [].
  - inversion Hnd as [|? ? Hni Hnd']; subst. inversion Hr as [|? ? Hi Hr']; subst.
    replace (ent_in_range fs i) with true in H by (symmetry; apply in_range_iff; exact Hi). cbn [negb] in H.
    rewrite keeps_is_not_same in H. fold (matches p fs i) in H.
    destruct (matches p fs i) eqn:Em; cbn [negb] in H.
    + destruct (delete_refuses (f_type (get_ent fs i))) eqn:Eref; [inversion H; unfold E_STORAGE in *; lia|].
      unfold delete_blanks_entry, delete_marks_changed in H.
      assert (Hr2 : Forall (fun k => 0 <= k < zlen (set_ent fs i blank)) rest) by (rewrite zlen_set_ent; exact Hr').
      destruct (IH _ _ _ _ _ _ _ _ _ _ Hnd' Hr2 H) as (K & L & Same & Gone & Ch).
      assert (Hsame : forall j, In j rest -> matches p (set_ent fs i blank) j = matches p fs j).
      { intros j Hj. unfold matches. rewrite get_set_other; [reflexivity | lia | | intros ->; contradiction].
        rewrite Forall_forall in Hr'. specialize (Hr' j Hj). lia. }
      split5.
      * rewrite K. cbn [filter]. fold (matches p fs i). rewrite Em. cbn [negb]. f_equal. apply filter_ext_in'. intros j Hj. rewrite Hsame by exact Hj. reflexivity.
      * rewrite L. apply zlen_set_ent.
      * intros j Hj Hc. assert (Hji : j <> i).
        { intros ->. destruct Hc as [Hc|Hc]; [apply Hc; left; reflexivity | congruence]. }
        rewrite Same; [apply get_set_other; lia | exact Hj |].
        destruct Hc as [Hc|Hc]; [left; intros Hin; apply Hc; right; exact Hin|].
        right. unfold matches. rewrite get_set_other by lia. exact Hc.
      * intros j [->|Hj] Hm.
        -- split; [|exact Eref]. rewrite Same; [apply get_set_same; exact Hi | lia | left; exact Hni].
        -- rewrite <- Hsame in Hm by exact Hj. destruct (Gone j Hj Hm) as [G1 G2]. split; [exact G1|].
           assert (j <> i) by (intros ->; contradiction). rewrite get_set_other in G2; [exact G2 | lia | | lia].
           rewrite Forall_forall in Hr'. specialize (Hr' j Hj). lia.
      * rewrite Ch. cbn [existsb]. fold (matches p fs i). rewrite Em. cbn.
        rewrite orb_true_r. cbn. reflexivity.
    + unfold delete_keep_appends in H.
      destruct (IH _ _ _ _ _ _ _ _ _ _ Hnd' Hr' H) as (K & L & Same & Gone & Ch).
      split5.
      * rewrite K. cbn [filter]. fold (matches p fs i). rewrite Em. cbn [negb]. rewrite <- app_assoc. reflexivity.
      * exact L.
      * intros j Hj Hc. apply Same; [exact Hj|]. destruct Hc as [Hc|Hc]; [left; intros Hin; apply Hc; right; exact Hin | right; exact Hc].
      * intros j [->|Hj] Hm; [congruence | apply Gone; assumption].
      * rewrite Ch. cbn [existsb]. fold (matches p fs i). rewrite Em. reflexivity.
Qed.

(* ------------------------------------------------------------------ directory states the theorems speak about *)
Definition rkeys (fs : list dent) (rf : list Z) : list (list Z) := map (fun i => ekey (get_ent fs i)) rf.
(* what a compound file that was read gives: the root's children are entries of the directory, allocated ones, no two of them
   carry the same name under lessDirEnt, and the root storage is not its own child *)
(* a directory entry name as [MS-CFB] 2.6.1 allows it: NameLength even, 2..64 bytes, 32 code units of storage *)
Definition wf_name (e : dent) : Prop := 2 <= f_nlen e <= 64 /\ f_nlen e mod 2 = 0 /\ length (f_runes e) = 32%nat.
Record wf (st : dstate) : Prop := mk_wf {
  wf_names : Forall (fun i => wf_name (get_ent (d_files st) i)) (d_root_files st);
  wf_range : Forall (fun i => 0 <= i < zlen (d_files st)) (d_root_files st);
  wf_used : Forall (fun i => append_slot_free (f_type (get_ent (d_files st) i)) = false) (d_root_files st);
  wf_uniq : NoDup (rkeys (d_files st) (d_root_files st));
  wf_root : ~ In (d_root st) (d_root_files st);
  wf_root_used : 0 <= d_root st < zlen (d_files st) /\ append_slot_free (f_type (get_ent (d_files st) (d_root st))) = false }.

Definition fits (name : list Z) : bool := negb (delete_name_too_long (zlen (name_units name delete_probe_terminated)) name_runes).
Definition same_geometry (st st' : dstate) : Prop :=
  d_root st' = d_root st /\ d_ss st' = d_ss st /\ d_mss st' = d_mss st /\ d_cutoff st' = d_cutoff st.

Lemma NoDup_map_filter {X Y} (f : X -> Y) (g : X -> bool) l : NoDup (map f l) -> NoDup (map f (filter g l)).
Proof.
  induction l as [|x l IH]; cbn; intros H; [constructor|]. inversion H as [|? ? Hn Hd]; subst.
  destruct (g x); cbn; [constructor|]; auto.
  intros Hin. apply Hn. apply in_map_iff in Hin as (y & Hy & Hin). apply filter_In in Hin as [Hin _].
  apply in_map_iff. exists y. split; assumption.
Qed.
Lemma rkeys_ext fs fs' rf : (forall i, In i rf -> get_ent fs' i = get_ent fs i) -> rkeys fs' rf = rkeys fs rf.
Proof. intros H. unfold rkeys. apply map_ext_in. intros i Hi. rewrite H by exact Hi. reflexivity. Qed.

Lemma delete_raw_spec name st st' : wf st -> delete_file_raw name st = (0, st') ->
  (fits name = false -> st' = st) /\
  (fits name = true ->
     d_root_files st' = filter (fun i => negb (matches (probe_of name) (d_files st) i)) (d_root_files st) /\
     zlen (d_files st') = zlen (d_files st) /\
     (forall j, 0 <= j -> (~ In j (d_root_files st) \/ matches (probe_of name) (d_files st) j = false) ->
                get_ent (d_files st') j = get_ent (d_files st) j) /\
     (forall j, In j (d_root_files st) -> matches (probe_of name) (d_files st) j = true ->
                get_ent (d_files st') j = blank /\ delete_refuses (f_type (get_ent (d_files st) j)) = false) /\
     d_changed st' = d_changed st || existsb (matches (probe_of name) (d_files st)) (d_root_files st)) /\
  same_geometry st st'.
Proof.
  intros W H. unfold delete_file_raw, fits in *.
  destruct (delete_name_too_long (zlen (name_units name delete_probe_terminated)) name_runes) eqn:E; cbn [negb].
  - inversion H; subst. split; [reflexivity|]. split; [discriminate|]. unfold same_geometry. tauto.
  - destruct (delete_loop name (probe_of name) (d_cutoff st) (d_root_files st) (d_files st) (d_sat st) (d_ssat st) [] (d_changed st))
      as [code [[[[fs sat] ssat] keep] ch]] eqn:EL.
    destruct (code =? 0) eqn:Ec.
    + apply Z.eqb_eq in Ec. subst code. inversion H; subst; clear H.
      pose proof (NoDup_map_inv _ _ (wf_uniq _ W)) as Hnd.
      destruct (delete_loop_ok _ _ _ _ _ _ _ _ _ _ _ _ _ _ Hnd (wf_range _ W) EL) as (K & L & Same & Gone & Ch).
      split; [discriminate|]. split; [|unfold same_geometry; cbn; tauto]. intros _. cbn.
      unfold delete_commits_keep. cbn [app] in K. split5; assumption.
    + inversion H; subst. lia.
Qed.

Lemma delete_raw_wf name st st' : wf st -> delete_file_raw name st = (0, st') -> wf st'.
Proof.
  intros W H. destruct (delete_raw_spec _ _ _ W H) as (Hno & Hyes & G).
  destruct (fits name) eqn:F; [|rewrite Hno by reflexivity; exact W].
  destruct (Hyes eq_refl) as (RF & L & Same & Gone & Ch). clear Hno Hyes.
  assert (Hk : forall i, In i (d_root_files st') -> In i (d_root_files st) /\ get_ent (d_files st') i = get_ent (d_files st) i).
  { intros i Hi. rewrite RF in Hi. apply filter_In in Hi as [Hi Hm]. split; [exact Hi|].
    apply Same; [|right; apply negb_true_iff; exact Hm]. pose proof (wf_range _ W) as R. rewrite Forall_forall in R. specialize (R i Hi). lia. }
  constructor.
  - apply Forall_forall. intros i Hi. destruct (Hk i Hi) as [Hi' He]. rewrite He. pose proof (wf_names _ W) as R. rewrite Forall_forall in R. exact (R i Hi').
  - apply Forall_forall. intros i Hi. destruct (Hk i Hi) as [Hi' _]. pose proof (wf_range _ W) as R. rewrite Forall_forall in R. specialize (R i Hi'). lia.
  - apply Forall_forall. intros i Hi. destruct (Hk i Hi) as [Hi' He]. rewrite He. pose proof (wf_used _ W) as R. rewrite Forall_forall in R. exact (R i Hi').
  - rewrite (rkeys_ext (d_files st) (d_files st')) by (intros i Hi; apply Hk; exact Hi). rewrite RF. apply NoDup_map_filter. exact (wf_uniq _ W).
  - destruct G as (G1 & _). rewrite G1. intros Hin. destruct (Hk _ Hin) as [Hin' _]. exact (wf_root _ W Hin').
  - destruct G as (G1 & _). rewrite G1, L. destruct (wf_root_used _ W) as [R1 R2]. split; [exact R1|].
    rewrite Same; [exact R2 | lia | left; exact (wf_root _ W)].
Qed.

(* after DeleteFile(name) no child of the root carries the name any more *)
Lemma delete_raw_none_left name st st' : wf st -> delete_file_raw name st = (0, st') -> fits name = true ->
  forall i, In i (d_root_files st') -> matches (probe_of name) (d_files st') i = false.
Proof.
  intros W H F i Hi. destruct (delete_raw_spec _ _ _ W H) as (_ & Hyes & _). destruct (Hyes F) as (RF & L & Same & _).
  rewrite RF in Hi. apply filter_In in Hi as [Hi Hm]. apply negb_true_iff in Hm.
  unfold matches in *. rewrite Same; [exact Hm | | right; exact Hm].
  pose proof (wf_range _ W) as R. rewrite Forall_forall in R. specialize (R i Hi). lia.
Qed.

(* ================================================================== 3. AddFile *)
Definition same_but_size (a b : dent) : Prop :=
  f_runes a = f_runes b /\ f_nlen a = f_nlen b /\ f_type a = f_type b /\ f_color a = f_color b /\ f_left a = f_left b /\
  f_right a = f_right b /\ f_child a = f_child b /\ f_start a = f_start b.

Lemma add_stream_frame len st first st2 : 0 <= d_root st -> add_stream len st = Ok (first, st2) ->
  d_root_files st2 = d_root_files st /\ zlen (d_files st2) = zlen (d_files st) /\ same_geometry st st2 /\ d_changed st2 = d_changed st /\
  (forall j, 0 <= j -> j <> d_root st -> get_ent (d_files st2) j = get_ent (d_files st) j) /\
  same_but_size (get_ent (d_files st2) (d_root st)) (get_ent (d_files st) (d_root st)).
Proof.
  intros Hroot. unfold add_stream. destruct (add_is_short len (d_cutoff st)).
  - destruct (ent_in_range (d_files st) (d_root st)) eqn:Er; cbn [negb]; [|discriminate].
    destruct (add_stream_short (d_ss st) (d_mss st) len (d_sat st) (d_ssat st) (f_start (get_ent (d_files st) (d_root st)))
                (f_size (get_ent (d_files st) (d_root st)))) as [[[[f ssat'] sat'] size']| |]; cbn [bind]; try discriminate.
    intros H; inversion H; subst; clear H. simpl_st. apply in_range_iff in Er.
    split; [reflexivity|]. split; [apply zlen_set_ent|]. split; [unfold same_geometry; simpl_st; tauto|]. split; [reflexivity|]. split.
    + intros j Hj Hne. apply get_set_other; lia.
    + rewrite get_set_same by exact Er. unfold same_but_size. cbn. tauto.
  - destruct (add_stream_long (d_ss st) len (d_sat st)) as [[f sat']| |]; cbn [bind]; try discriminate.
    intros H; inversion H; subst; clear H. simpl_st.
    split; [reflexivity|]. split; [reflexivity|]. split; [unfold same_geometry; simpl_st; tauto|]. split; [reflexivity|]. split; [reflexivity|].
    unfold same_but_size. tauto.
Qed.

(* newDirEnt and the probe of DeleteFile are built the same way: same NameLength, same code units *)
Lemma new_dirent_spec name len first de : new_dirent name len first = Ok de ->
  fits name = true /\ ekey de = ekey (probe_of name) /\ f_type de = dir_stream /\ f_size de = len /\ f_start de = first /\
  f_runes de = pad_runes (name_units name true) /\ f_nlen de = 2 * zlen (name_units name true).
Proof.
  unfold new_dirent, fits, probe_of. unfold newde_terminated, delete_probe_terminated, newde_copied, delete_probe_copied.
  unfold newde_too_long, delete_name_too_long. change name_runes with 32.
  destruct (zlen (name_units name true) >? 32) eqn:E; [discriminate|]. intros H; inversion H; subst; clear H. cbn [negb].
  unfold ekey. cbn [f_nlen f_runes f_type f_size f_start]. unfold newde_namelen, delete_probe_namelen, newde_type, dir_stream. repeat split; reflexivity.
Qed.

Lemma first_free_spec fs : forall k, 0 <= k -> let idx := first_free k fs in
  (idx = -1 /\ Forall (fun e => append_slot_free (f_type e) = false) fs) \/
  (k <= idx < k + zlen fs /\ append_slot_free (f_type (nth (Z.to_nat (idx - k)) fs blank)) = true).
Proof.
  induction fs as [|e r IH]; intros k Hk; cbn [first_free].
  - left. split; [reflexivity | constructor].
  - rewrite zlen_cons. pose proof (zlen_nonneg r). destruct (append_slot_free (f_type e)) eqn:E.
    + right. split; [lia|]. rewrite Z.sub_diag. exact E.
    + destruct (IH (k + 1) ltac:(lia)) as [[H1 H2]|[H1 H2]].
      * left. split; [exact H1 | constructor; assumption].
      * right. split; [lia|].
        replace (Z.to_nat (first_free (k + 1) r - k)) with (S (Z.to_nat (first_free (k + 1) r - (k + 1)))) by lia. exact H2.
Qed.

Lemma get_ent_app_l fs tl j : 0 <= j < zlen fs -> get_ent (fs ++ tl) j = get_ent fs j.
Proof. intros H. unfold get_ent. apply app_nth1. unfold zlen in H. lia. Qed.
Lemma get_ent_app_at fs e tl : get_ent (fs ++ e :: tl) (zlen fs) = e.
Proof. unfold get_ent, zlen. rewrite Nat2Z.id. rewrite app_nth2 by lia. rewrite Nat.sub_diag. reflexivity. Qed.

(* appendDirEnt: the entry lands in a slot that was free (or in a new one); every other entry stays *)
Lemma append_dirent_spec ss de fs idx fs' : append_dirent ss de fs = Ok (idx, fs') ->
  0 <= idx < zlen fs' /\ get_ent fs' idx = de /\ zlen fs <= zlen fs' /\
  (forall j, 0 <= j < zlen fs -> j <> idx -> get_ent fs' j = get_ent fs j) /\
  (idx < zlen fs -> append_slot_free (f_type (get_ent fs idx)) = true).
Proof.
  unfold append_dirent. pose proof (first_free_spec fs 0 ltac:(lia)) as F. cbv zeta in F.
  unfold append_extends. destruct (first_free 0 fs <? 0) eqn:E.
  - destruct (append_grow ss <=? 0); [discriminate|]. intros H; inversion H; subst; clear H.
    rewrite zlen_app, zlen_cons. pose proof (zlen_nonneg fs). pose proof (zlen_nonneg (repeat blank (Z.to_nat (append_grow ss - 1)))).
    split; [lia|]. split; [apply get_ent_app_at|]. split; [lia|]. split; [|lia].
    intros j Hj _. apply get_ent_app_l. exact Hj.
  - intros H; inversion H; subst; clear H. destruct F as [[F1 _]|[F1 F2]]; [lia|]. rewrite Z.sub_0_r in F2.
    rewrite zlen_set_ent. split; [lia|]. split; [apply get_set_same; lia|]. split; [lia|]. split.
    + intros j Hj Hne. apply get_set_other; lia.
    + intros _. exact F2.
Qed.

Lemma NoDup_snoc {X} (l : list X) x : NoDup l -> ~ In x l -> NoDup (l ++ [x]).
Proof.
  intros Hl Hx. apply NoDup_app_intro; [exact Hl | constructor; [intros [] | constructor] |].
  intros y Hy [<-|[]]. contradiction.
Qed.

Lemma pad_runes_length l : length (pad_runes l) = 32%nat.
Proof. unfold pad_runes. change (Z.to_nat name_runes) with 32%nat. rewrite firstn_length, app_length, repeat_length. lia. Qed.
Lemma new_name_wf name (e : dent) : fits name = true -> f_runes e = pad_runes (name_units name true) ->
  f_nlen e = 2 * zlen (name_units name true) -> wf_name e.
Proof.
  unfold fits, delete_probe_terminated, delete_name_too_long. change name_runes with 32. intros F R N. unfold wf_name. rewrite R, N.
  assert (1 <= zlen (name_units name true)).
  { unfold name_units. rewrite zlen_app. pose proof (zlen_nonneg (utf16_encode name)). unfold zlen at 2. cbn. lia. }
  split; [lia|]. split; [|apply pad_runes_length]. rewrite Z.mul_comm. apply Z.mod_mul. lia.
Qed.

Definition kept_of (name : list Z) (st : dstate) : list Z :=
  filter (fun i => negb (matches (probe_of name) (d_files st) i)) (d_root_files st).

(* AddFile(name, contents): every child of the root that carries the name (under lessDirEnt) is gone, every other child is
   untouched, one new stream entry carrying the name is appended; the directory state stays well formed (names unique) *)
Lemma add_file_spec name len st st' : wf st -> add_file name len st = Ok st' ->
  exists idx,
    fits name = true /\
    d_root_files st' = kept_of name st ++ [idx] /\ ~ In idx (kept_of name st) /\ idx <> d_root st /\ 0 <= idx < zlen (d_files st') /\
    ekey (get_ent (d_files st') idx) = ekey (probe_of name) /\ f_type (get_ent (d_files st') idx) = dir_stream /\
    f_size (get_ent (d_files st') idx) = len /\
    (forall i, In i (kept_of name st) -> get_ent (d_files st') i = get_ent (d_files st) i) /\
    same_geometry st st' /\ d_changed st' = true /\ wf st'.
Proof.
  intros W. unfold add_file. destruct (delete_file_raw name st) as [code st1] eqn:ED.
  unfold addfile_delete_err_returned. cbn [orb]. rewrite andb_true_r.
  destruct (code =? 0) eqn:Ec; cbn [negb].
  2:{ unfold as_result. rewrite Ec. destruct (code <? 0); discriminate. }
  apply Z.eqb_eq in Ec. subst code.
  destruct (add_stream len st1) as [[first st2]| |] eqn:ES; cbn [bind]; try discriminate.
  destruct (new_dirent name len first) as [de| |] eqn:EN; cbn [bind]; try discriminate.
  destruct (append_dirent (d_ss st2) de (d_files st2)) as [[idx fs]| |] eqn:EA; cbn [bind]; try discriminate.
  intros H; inversion H; subst st'; clear H. unfold addfile_appends_root, addfile_marks_changed. rewrite orb_true_r.
  pose proof (delete_raw_wf _ _ _ W ED) as W1.
  destruct (new_dirent_spec _ _ _ _ EN) as (F & Kde & Tde & Sde & _ & Rde & Nde).
  destruct (delete_raw_spec _ _ _ W ED) as (_ & Hyes & G1). destruct (Hyes F) as (RF1 & L1 & Same1 & _). clear Hyes.
  destruct G1 as (Gr1 & Gs1 & Gm1 & Gc1).
  destruct (wf_root_used _ W) as [Rr Ru].
  destruct (add_stream_frame _ _ _ _ ltac:(rewrite Gr1; lia) ES) as (RF2 & L2 & G2 & _ & Same2 & Root2).
  destruct G2 as (Gr2 & Gs2 & Gm2 & Gc2). rewrite Gr1 in Same2, Root2.
  destruct (append_dirent_spec _ _ _ _ _ EA) as (Ri & Gi & L3 & Same3 & Free3).
  fold (kept_of name st) in RF1.
  pose proof (wf_range _ W) as Rng. rewrite Forall_forall in Rng.
  pose proof (wf_used _ W) as Usd. rewrite Forall_forall in Usd.
  assert (Hkept : forall i, In i (kept_of name st) ->
            In i (d_root_files st) /\ 0 <= i < zlen (d_files st) /\ i <> d_root st /\ get_ent (d_files st2) i = get_ent (d_files st) i).
  { intros i Hi. unfold kept_of in Hi. apply filter_In in Hi as [Hi Hm]. apply negb_true_iff in Hm.
    assert (Hne : i <> d_root st) by (intros ->; exact (wf_root _ W Hi)).
    specialize (Rng i Hi). split; [exact Hi|]. split; [exact Rng|]. split; [exact Hne|].
    rewrite Same2 by lia. apply Same1; [lia | right; exact Hm]. }
  assert (Hroot2 : append_slot_free (f_type (get_ent (d_files st2) (d_root st))) = false).
  { destruct Root2 as (_ & _ & Ht & _). rewrite Ht. rewrite Same1; [exact Ru | lia | left; exact (wf_root _ W)]. }
  assert (Hidx_kept : ~ In idx (kept_of name st)).
  { intros Hin. destruct (Hkept idx Hin) as (Hi & Hr & Hne & He).
    assert (Hlt : idx < zlen (d_files st2)) by lia. specialize (Free3 Hlt). rewrite He in Free3. rewrite (Usd idx Hi) in Free3. discriminate. }
  assert (Hidx_root : idx <> d_root st).
  { intros ->. assert (Hlt : d_root st < zlen (d_files st2)) by lia. specialize (Free3 Hlt). congruence. }
  assert (Hkept' : forall i, In i (kept_of name st) -> get_ent fs i = get_ent (d_files st) i).
  { intros i Hi. destruct (Hkept i Hi) as (_ & Hr & _ & He). rewrite Same3; [exact He | lia | intros ->; contradiction]. }
  exists idx. simpl_st. rewrite RF2, RF1.
  split; [exact F|]. split; [reflexivity|]. split; [exact Hidx_kept|]. split; [exact Hidx_root|]. split; [exact Ri|].
  rewrite Gi. split; [exact Kde|]. split; [exact Tde|]. split; [exact Sde|]. split; [exact Hkept'|].
  split; [unfold same_geometry; simpl_st; rewrite Gr2, Gs2, Gm2, Gc2; tauto|]. split; [reflexivity|].
  constructor; simpl_st.
  - apply Forall_app. split.
    + apply Forall_forall. intros i Hi. rewrite Hkept' by exact Hi. destruct (Hkept i Hi) as (Hi' & _).
      pose proof (wf_names _ W) as Nm. rewrite Forall_forall in Nm. exact (Nm i Hi').
    + constructor; [|constructor]. rewrite Gi. apply (new_name_wf name); [exact F | exact Rde | exact Nde].
  - apply Forall_app. split; [|constructor; [exact Ri | constructor]].
    apply Forall_forall. intros i Hi. destruct (Hkept i Hi) as (_ & Hr & _). lia.
  - apply Forall_app. split.
    + apply Forall_forall. intros i Hi. rewrite Hkept' by exact Hi. destruct (Hkept i Hi) as (Hi' & _). exact (Usd i Hi').
    + constructor; [|constructor]. rewrite Gi, Tde. reflexivity.
  - unfold rkeys. rewrite map_app. cbn [map]. rewrite Gi, Kde. apply NoDup_snoc.
    + erewrite map_ext_in; [apply NoDup_map_filter; exact (wf_uniq _ W)|]. intros i Hi. cbv beta. rewrite Hkept' by exact Hi. reflexivity.
    + intros Hin. apply in_map_iff in Hin as (i & Hk & Hi). rewrite Hkept' in Hk by exact Hi.
      apply ent_same_iff in Hk. unfold kept_of in Hi. apply filter_In in Hi as [_ Hm]. apply negb_true_iff in Hm. unfold matches in Hm. congruence.
  - rewrite Gr2, Gr1. intros Hin. apply in_app_or in Hin as [Hin|[Hin|[]]]; [|congruence].
    destruct (Hkept _ Hin) as (_ & _ & Hne & _). congruence.
  - rewrite Gr2, Gr1. split; [lia|]. rewrite Same3; [exact Hroot2 | lia | congruence].
Qed.

(* ================================================================== 4. histories *)
Lemma delete_file_ok name st st' : delete_file name st = Ok st' -> delete_file_raw name st = (0, st').
Proof.
  unfold delete_file, as_result. destruct (delete_file_raw name st) as [code s]. destruct (code =? 0) eqn:E.
  - intros H; inversion H; subst. apply Z.eqb_eq in E. subst. reflexivity.
  - destruct (code <? 0); discriminate.
Qed.
Lemma delete_file_wf name st st' : wf st -> delete_file name st = Ok st' -> wf st'.
Proof. intros W H. eapply delete_raw_wf; [exact W | apply delete_file_ok; exact H]. Qed.
Lemma add_file_wf name len st st' : wf st -> add_file name len st = Ok st' -> wf st'.
Proof. intros W H. destruct (add_file_spec _ _ _ _ W H) as (idx & Hx). tauto. Qed.

Lemma run_step_wf pk ex s st st' : wf st -> run_step pk ex s st = Ok st' -> wf st'.
Proof.
  destruct s as [[op nm] pl]. unfold run_step. destruct (op =? 0); intros W H; [eapply add_file_wf | eapply delete_file_wf]; eassumption.
Qed.
Lemma run_plan_wf pk ex p : forall st st', wf st -> run_plan pk ex p st = Ok st' -> wf st'.
Proof.
  induction p as [|s p IH]; intros st st' W H; cbn [run_plan] in H.
  - inversion H; subst. exact W.
  - destruct (run_step pk ex s st) as [s1| |] eqn:E; cbn [bind] in H; try discriminate.
    eapply IH; [eapply run_step_wf; eassumption | exact H].
Qed.
Lemma run_op_wf o st st' : wf st -> run_op o st = Ok st' -> wf st'.
Proof.
  destruct o as [n len|n|pk ex]; cbn [run_op]; intros W H.
  - eapply add_file_wf; eassumption.
  - eapply delete_file_wf; eassumption.
  - unfold insert_sig in H. destruct (precheck st); cbn [bind] in H; try discriminate. unfold insert_sig_body in H. eapply run_plan_wf; eassumption.
Qed.
(* every history of AddFile / DeleteFile / InsertMSISignature keeps the names of the root's children unique *)
Lemma run_ops_wf ops : forall st st', wf st -> run_ops ops st = Ok st' -> wf st'.
Proof.
  induction ops as [|o r IH]; intros st st' W H; cbn [run_ops] in H.
  - inversion H; subst. exact W.
  - destruct (run_op o st) as [s1| |] eqn:E; cbn [bind] in H; try discriminate.
    eapply IH; [eapply run_op_wf; eassumption | exact H].
Qed.

(* ================================================================== 5. InsertMSISignature *)
Definition p_sig : dent := probe_of msi_sig_name.
Definition p_ex : dent := probe_of msi_sigex_name.
(* the children of the root that carry neither of the two signature names *)
Definition others (st : dstate) : list Z :=
  filter (fun i => negb (matches p_ex (d_files st) i) && negb (matches p_sig (d_files st) i)) (d_root_files st).

Lemma sig_keys_differ : ekey p_ex <> ekey p_sig.
Proof. intros H. apply (f_equal (@hd Z 0)) in H. vm_compute in H. discriminate. Qed.
Lemma sig_names_fit : fits msi_sig_name = true /\ fits msi_sigex_name = true.
Proof. split; vm_compute; reflexivity. Qed.
Lemma filter_filter {X} (f g : X -> bool) l : filter f (filter g l) = filter (fun x => g x && f x) l.
Proof.
  induction l as [|x l IH]; cbn; [reflexivity|]. destruct (g x); cbn; [destruct (f x); cbn; rewrite IH; reflexivity | exact IH].
Qed.

Lemma others_of_kept st fs1 : (forall i, In i (kept_of msi_sigex_name st) -> get_ent fs1 i = get_ent (d_files st) i) ->
  filter (fun i => negb (matches p_sig fs1 i)) (kept_of msi_sigex_name st) = others st.
Proof.
  intros H. rewrite (filter_ext_in' _ (fun i => negb (matches p_sig (d_files st) i))).
  - unfold kept_of, others. rewrite filter_filter. reflexivity.
  - intros i Hi. unfold matches. rewrite H by exact Hi. reflexivity.
Qed.

Lemma insert_body_spec pk ex st st' : wf st -> insert_sig_body pk ex st = Ok st' ->
  wf st' /\ d_changed st' = true /\ same_geometry st st' /\
  (forall i, In i (others st) -> get_ent (d_files st') i = get_ent (d_files st) i) /\
  exists isig,
    ekey (get_ent (d_files st') isig) = ekey p_sig /\ f_type (get_ent (d_files st') isig) = dir_stream /\ f_size (get_ent (d_files st') isig) = pk /\
    if insert_has_exsig ex then
      exists iex, d_root_files st' = others st ++ [iex; isig] /\
        ekey (get_ent (d_files st') iex) = ekey p_ex /\ f_type (get_ent (d_files st') iex) = dir_stream /\ f_size (get_ent (d_files st') iex) = ex
    else d_root_files st' = others st ++ [isig].
Proof.
  intros W. unfold insert_sig_body, insert_plan. destruct (insert_has_exsig ex).
  - (* AddFile(msiDigitalSignatureEx, exsig); AddFile(msiDigitalSignature, pkcs) *)
    unfold insert_plan_then, insert_plan_tail. cbn [app run_plan run_step Z.eqb plan_name].
    destruct (add_file msi_sigex_name ex st) as [s1| |] eqn:E1; cbn [bind]; try discriminate.
    destruct (add_file msi_sig_name pk s1) as [s2| |] eqn:E2; cbn [bind]; try discriminate.
    intros H; inversion H; subst s2; clear H.
    destruct (add_file_spec _ _ _ _ W E1) as (iex & _ & RF1 & Nin1 & _ & _ & K1 & T1 & S1 & Keep1 & G1 & _ & W1).
    destruct (add_file_spec _ _ _ _ W1 E2) as (isig & _ & RF2 & Nin2 & _ & _ & K2 & T2 & S2 & Keep2 & G2 & C2 & W2).
    fold p_ex in K1. fold p_sig in K2.
    assert (Hk : kept_of msi_sig_name s1 = others st ++ [iex]).
    { unfold kept_of at 1. rewrite RF1, filter_app. fold p_sig. rewrite (others_of_kept st (d_files s1) Keep1). f_equal.
      cbn [filter]. unfold matches. replace (ent_same (get_ent (d_files s1) iex) p_sig) with false; [reflexivity|].
      symmetry. apply not_true_is_false. intros Hs. apply ent_same_iff in Hs. rewrite K1 in Hs. exact (sig_keys_differ Hs). }
    rewrite Hk in RF2, Keep2.
    assert (Hsub : forall i, In i (others st) -> In i (kept_of msi_sigex_name st)).
    { intros i Hi. unfold others in Hi. unfold kept_of. apply filter_In in Hi as [Hi Hm]. apply filter_In. split; [exact Hi|].
      apply andb_true_iff in Hm as [Hm _]. exact Hm. }
    split; [exact W2|]. split; [exact C2|]. split.
    { destruct G1 as (A1 & A2 & A3 & A4), G2 as (B1 & B2 & B3 & B4). unfold same_geometry. rewrite B1, B2, B3, B4. tauto. }
    split.
    { intros i Hi. rewrite Keep2 by (apply in_or_app; left; exact Hi). apply Keep1. apply Hsub. exact Hi. }
    exists isig. split; [exact K2|]. split; [exact T2|]. split; [exact S2|].
    exists iex. split; [rewrite RF2, <- app_assoc; reflexivity|].
    rewrite Keep2 by (apply in_or_app; right; left; reflexivity). tauto.
  - (* DeleteFile(msiDigitalSignatureEx); AddFile(msiDigitalSignature, pkcs) *)
    unfold insert_plan_else, insert_plan_tail. cbn [app run_plan run_step Z.eqb plan_name].
    destruct (delete_file msi_sigex_name st) as [s1| |] eqn:E1; cbn [bind]; try discriminate.
    destruct (add_file msi_sig_name pk s1) as [s2| |] eqn:E2; cbn [bind]; try discriminate.
    intros H; inversion H; subst s2; clear H.
    apply delete_file_ok in E1. pose proof (delete_raw_wf _ _ _ W E1) as W1.
    destruct (delete_raw_spec _ _ _ W E1) as (_ & Hyes & G1). destruct (Hyes (proj2 sig_names_fit)) as (RF1 & L1 & Same1 & _). clear Hyes.
    fold (kept_of msi_sigex_name st) in RF1.
    assert (Keep1 : forall i, In i (kept_of msi_sigex_name st) -> get_ent (d_files s1) i = get_ent (d_files st) i).
    { intros i Hi. unfold kept_of in Hi. apply filter_In in Hi as [Hi Hm]. apply negb_true_iff in Hm.
      pose proof (wf_range _ W) as R. rewrite Forall_forall in R. specialize (R i Hi). apply Same1; [lia | right; exact Hm]. }
    destruct (add_file_spec _ _ _ _ W1 E2) as (isig & _ & RF2 & Nin2 & _ & _ & K2 & T2 & S2 & Keep2 & G2 & C2 & W2).
    fold p_sig in K2.
    assert (Hk : kept_of msi_sig_name s1 = others st).
    { unfold kept_of at 1. rewrite RF1. fold p_sig. apply others_of_kept. exact Keep1. }
    rewrite Hk in RF2, Keep2.
    assert (Hsub : forall i, In i (others st) -> In i (kept_of msi_sigex_name st)).
    { intros i Hi. unfold others in Hi. unfold kept_of. apply filter_In in Hi as [Hi Hm]. apply filter_In. split; [exact Hi|].
      apply andb_true_iff in Hm as [Hm _]. exact Hm. }
    split; [exact W2|]. split; [exact C2|]. split.
    { destruct G1 as (A1 & A2 & A3 & A4), G2 as (B1 & B2 & B3 & B4). unfold same_geometry. rewrite B1, B2, B3, B4. tauto. }
    split.
    { intros i Hi. rewrite Keep2 by exact Hi. apply Keep1. apply Hsub. exact Hi. }
    exists isig. split; [exact K2|]. split; [exact T2|]. split; [exact S2|]. exact RF2.
Qed.

(* InsertMSISignature = pre-check, then the plan.  A refusal of the pre-check happens before any AddFile / DeleteFile is evaluated: the
   model returns the error without having touched the state (the state is not even threaded through the pre-check) *)
Lemma insert_sig_ok pk ex st st' : insert_sig pk ex st = Ok st' -> precheck st = Ok tt /\ insert_sig_body pk ex st = Ok st'.
Proof.
  unfold insert_sig. destruct (precheck st) as [[]| |]; cbn [bind]; try discriminate. intros H. split; [reflexivity | exact H].
Qed.
Lemma insert_sig_spec pk ex st st' : wf st -> insert_sig pk ex st = Ok st' ->
  wf st' /\ d_changed st' = true /\ same_geometry st st' /\
  (forall i, In i (others st) -> get_ent (d_files st') i = get_ent (d_files st) i) /\
  exists isig,
    ekey (get_ent (d_files st') isig) = ekey p_sig /\ f_type (get_ent (d_files st') isig) = dir_stream /\ f_size (get_ent (d_files st') isig) = pk /\
    if insert_has_exsig ex then
      exists iex, d_root_files st' = others st ++ [iex; isig] /\
        ekey (get_ent (d_files st') iex) = ekey p_ex /\ f_type (get_ent (d_files st') iex) = dir_stream /\ f_size (get_ent (d_files st') iex) = ex
    else d_root_files st' = others st ++ [isig].
Proof. intros W H. apply insert_sig_ok in H as [_ H]. apply insert_body_spec; assumption. Qed.
Lemma insert_sig_refusal pk ex st e : precheck st = Err e -> insert_sig pk ex st = Err e.
Proof. unfold insert_sig. intros ->. reflexivity. Qed.
(* a storage (anything that is not a stream) listed in the root storage under one of the two signature names makes InsertMSISignature
   refuse at the pre-check *)
Lemma slot_blocked_refused pk ex st l i : list_root st = Ok l -> In i l -> sig_slot_blocked (d_files st) i = true ->
  insert_sig pk ex st = Err E_STORAGE.
Proof.
  intros Hl Hi Hb. apply insert_sig_refusal. unfold precheck, insert_precheck. cbn [negb]. rewrite Hl. cbn [bind].
  replace (existsb (sig_slot_blocked (d_files st)) l) with true; [reflexivity|]. symmetry. apply existsb_exists. exists i. split; assumption.
Qed.

(* ================================================================== 6. rebuildTree *)
Lemma idx_less_trans fs i j k : idx_less fs i j = true -> idx_less fs j k = true -> idx_less fs i k = true.
Proof. unfold idx_less. apply ent_less_trans. Qed.

Lemma nodup_keys_pairwise fs l : NoDup (rkeys fs l) -> pairwise_cmp Z (idx_less fs) l.
Proof.
  induction l as [|a r IH]; cbn; intros H; [exact I|]. inversion H as [|? ? Hn Hd]; subst. split; [|apply IH; exact Hd].
  apply Forall_forall. intros y Hy. unfold idx_less. apply ent_less_cmp. intros E. apply Hn. unfold rkeys. apply in_map_iff. exists y. split; [symmetry; exact E | exact Hy].
Qed.
Lemma rkeys_rev fs l : rkeys fs (rev l) = rev (rkeys fs l).
Proof. unfold rkeys. apply map_rev. Qed.

(* in-order sequence of a search tree *)
Fixpoint sorted_by {X} (lt : X -> X -> bool) (l : list X) : Prop :=
  match l with [] => True | x :: r => Forall (fun y => lt x y = true) r /\ sorted_by lt r end.
Lemma sorted_by_app {X} (lt : X -> X -> bool) a b :
  sorted_by lt a -> sorted_by lt b -> (forall x y, In x a -> In y b -> lt x y = true) -> sorted_by lt (a ++ b).
Proof.
  induction a as [|x a IH]; cbn; intros Ha Hb H; [exact Hb|]. destruct Ha as [Ha1 Ha2]. split.
  - apply Forall_app. split; [exact Ha1|]. apply Forall_forall. intros y Hy. apply H; [left; reflexivity | exact Hy].
  - apply IH; [exact Ha2 | exact Hb|]. intros u v Hu Hv. apply H; [right; exact Hu | exact Hv].
Qed.
Lemma bst_sorted {X} (lt : X -> X -> bool) (Htr : forall x y z, lt x y = true -> lt y z = true -> lt x z = true) t :
  bst X lt t -> sorted_by lt (elements X t).
Proof.
  induction t as [|c l IHl x r IHr]; cbn; [tauto|]. intros (Hl & Hr & Bl & Br).
  apply (proj1 (all_elements X lt _ _)) in Hl. apply (proj1 (all_elements X lt _ _)) in Hr. rewrite Forall_forall in Hl, Hr.
  apply sorted_by_app; [apply IHl; exact Bl | cbn; split; [apply Forall_forall; exact Hr | apply IHr; exact Br] |].
  intros u v Hu [<-|Hv]; [apply Hl; exact Hu|]. eapply Htr; [apply Hl; exact Hu | apply Hr; exact Hv].
Qed.

(* the tree rebuildTree builds from a well-formed state: a search tree under lessDirEnt, a valid red-black tree, holding exactly
   the root's children, whose in-order sequence is strictly increasing (so no two nodes carry the same key) *)
Lemma rebuild_tree_valid st : wf st ->
  let t := rebuild_tree (d_files st) (d_root_files st) in
  bst Z (idx_less (d_files st)) t /\ rb_valid Z t /\ Permutation (elements Z t) (d_root_files st) /\
  sorted_by (idx_less (d_files st)) (elements Z t).
Proof.
  intros W t. unfold t, rebuild_tree.
  assert (Hp : pairwise_cmp Z (idx_less (d_files st)) (rev (d_root_files st))).
  { apply nodup_keys_pairwise. rewrite rkeys_rev. apply NoDup_rev. exact (wf_uniq _ W). }
  destruct (insert_all_sound Z (idx_less (d_files st)) (idx_less_trans (d_files st)) rb_new_node_red rb_root_blackened _ Hp) as [B P].
  split; [exact B|]. split; [apply rb_as_coded_valid|]. split; [exact P|].
  apply bst_sorted; [apply idx_less_trans | exact B].
Qed.
Lemma sorted_no_equal_keys fs l : sorted_by (idx_less fs) l -> NoDup (rkeys fs l).
Proof.
  induction l as [|x r IH]; cbn; intros H; [constructor|]. destruct H as [H1 H2]. constructor; [|apply IH; exact H2].
  intros Hin. unfold rkeys in Hin. apply in_map_iff in Hin as (y & Hk & Hy). rewrite Forall_forall in H1. specialize (H1 y Hy).
  unfold idx_less in H1. rewrite ent_less_key, Hk, key_less_irrefl in H1. discriminate.
Qed.

(* ------------------------------------------------------------------ lessDirEnt on entries is the MS-CFB order on their names *)
Lemma nth_firstn_lt {X} (l : list X) n k d : (k < n)%nat -> nth k (firstn n l) d = nth k l d.
Proof. revert l k. induction n as [|n IH]; intros [|x l] [|k] H; cbn; try lia; try reflexivity. apply IH. lia. Qed.
Lemma up_units_ext m k u v : (forall j, (k <= j < k + m)%nat -> nth j u 0 = nth j v 0) -> up_units m k u = up_units m k v.
Proof.
  intros H. unfold up_units. apply map_ext_in. intros j Hj. apply in_seq in Hj. rewrite H by lia. reflexivity.
Qed.

Lemma ent_less_is_spec_less a b : wf_name a -> wf_name b -> ent_less a b = spec_less (ent_units a) (ent_units b).
Proof.
  intros (A1 & A2 & A3) (B1 & B2 & B3). unfold spec_less.
  set (ua := ent_units a). set (ub := ent_units b).
  assert (La : zlen ua = f_nlen a / 2 - 1).
  { unfold ua, ent_units, zlen. rewrite firstn_length, A3. lia. }
  assert (Lb : zlen ub = f_nlen b / 2 - 1).
  { unfold ub, ent_units, zlen. rewrite firstn_length, B3. lia. }
  rewrite <- (relic_less_is_cfb_less ua ub) by (unfold name_runes, de_w_NameRunes; cbn; lia).
  unfold relic_less. replace (2 * (zlen ua + 1)) with (f_nlen a) by lia. replace (2 * (zlen ub + 1)) with (f_nlen b) by lia.
  (* both sides are less_dirent on the same NameLengths; the loop only looks at the first NameLength/2-1 units *)
  change (ent_less a b = ent_less (mkDent ua (f_nlen a) 0 0 0 0 0 0 0) (mkDent ub (f_nlen b) 0 0 0 0 0 0 0)).
  rewrite !ent_less_key. f_equal; unfold ekey; cbn [f_nlen f_runes]; f_equal; apply up_units_ext; intros j Hj.
  - unfold ua, ent_units. symmetry. apply nth_firstn_lt. unfold iters, less_n in Hj. rewrite Z.quot_div_nonneg in Hj by lia. lia.
  - unfold ub, ent_units. symmetry. apply nth_firstn_lt. unfold iters, less_n in Hj. rewrite Z.quot_div_nonneg in Hj by lia. lia.
Qed.

(* ------------------------------------------------------------------ the links rebuildTree writes read back as the tree *)
Definition root_id (t : tree Z) : Z := match tree_root t with Some j => j | None => -1 end.
Fixpoint height {X} (t : tree X) : nat := match t with E => O | T _ l _ r => S (Nat.max (height l) (height r)) end.

Lemma write_links_frame t : forall fs, Forall (fun i => 0 <= i) (elements Z t) ->
  zlen (write_links t fs) = zlen fs /\ forall j, 0 <= j -> ~ In j (elements Z t) -> get_ent (write_links t fs) j = get_ent fs j.
Proof.
  induction t as [|c l IHl i r IHr]; intros fs Hr; cbn [write_links elements] in *; [split; reflexivity + (intros; reflexivity)|].
  apply Forall_app in Hr as [Hl Hr]. inversion Hr as [|? ? Hi Hr']; subst.
  destruct (IHl (set_ent fs i (link_node c l r (get_ent fs i))) Hl) as [L1 F1].
  destruct (IHr (write_links l (set_ent fs i (link_node c l r (get_ent fs i)))) Hr') as [L2 F2].
  split; [rewrite L2, L1; apply zlen_set_ent|].
  intros j Hj Hn. rewrite F2, F1; [apply get_set_other; [lia | lia |] | exact Hj | | exact Hj |].
  - intros ->. apply Hn. apply in_or_app. right. left. reflexivity.
  - intros Hin. apply Hn. apply in_or_app. left. exact Hin.
  - intros Hin. apply Hn. apply in_or_app. right. right. exact Hin.
Qed.

Lemma read_tree_ext fuel : forall fs fs' i t, read_tree fuel fs i = Some t -> zlen fs' = zlen fs ->
  (forall j, In j (elements Z t) -> get_ent fs' j = get_ent fs j) -> read_tree fuel fs' i = Some t.
Proof.
  induction fuel as [|k IH]; intros fs fs' i t; cbn [read_tree].
  - destruct (i =? -1); [intros H; inversion H; reflexivity | discriminate].
  - destruct (i =? -1); [intros H; inversion H; reflexivity|].
    intros H L Hs. unfold ent_in_range in *. rewrite L. destruct ((0 <=? i) && (i <? zlen fs)); cbn [negb] in *; [|discriminate].
    destruct (read_tree k fs (f_left (get_ent fs i))) as [l|] eqn:El; [|discriminate].
    destruct (read_tree k fs (f_right (get_ent fs i))) as [r|] eqn:Er; [|discriminate].
    inversion H; subst t; clear H. cbn [elements] in Hs.
    rewrite (Hs i) by (apply in_or_app; right; left; reflexivity).
    rewrite (IH _ fs' _ _ El L) by (intros j Hj; apply Hs; apply in_or_app; left; exact Hj).
    rewrite (IH _ fs' _ _ Er L) by (intros j Hj; apply Hs; apply in_or_app; right; right; exact Hj).
    reflexivity.
Qed.

(* the colour and the two links of a node as link_node leaves them (the field numbers and the "no child" value are srcgen's) *)
Lemma link_node_fields c l r e :
  f_left (link_node c l r e) = root_id l /\ f_right (link_node c l r e) = root_id r /\
  (f_color (link_node c l r e) =? 0) = (match c with Red => true | Black => false end).
Proof.
  unfold link_node, set_link, set_color, root_id, rebuild_child0_field, rebuild_child1_field, rebuild_child0_none, rebuild_child1_none,
    rebuild_color_if_red, rebuild_color_if_black. cbn. destruct c; repeat split; reflexivity.
Qed.

Lemma NoDup_app_inv {X} (a b : list X) : NoDup (a ++ b) -> NoDup a /\ NoDup b /\ (forall x, In x a -> ~ In x b).
Proof.
  induction a as [|x a IH]; cbn; intros H; [split; [constructor | split; [exact H | intros ? []]]|].
  inversion H as [|? ? Hn Hd]; subst. destruct (IH Hd) as (Ha & Hb & Hdis). split; [|split; [exact Hb|]].
  - constructor; [|exact Ha]. intros Hin. apply Hn. apply in_or_app. left. exact Hin.
  - intros y [<-|Hy]; [intros Hin; apply Hn; apply in_or_app; right; exact Hin | apply Hdis; exact Hy].
Qed.

Lemma write_links_readback t : forall fs fuel, NoDup (elements Z t) -> Forall (fun i => 0 <= i < zlen fs) (elements Z t) ->
  (height t < fuel)%nat -> read_tree fuel (write_links t fs) (root_id t) = Some t.
Proof.
  induction t as [|c l IHl i r IHr]; intros fs fuel Hnd Hr Hf.
  - destruct fuel; reflexivity.
  - cbn [elements] in Hnd, Hr. cbn [height] in Hf. destruct fuel as [|k]; [lia|].
    apply Forall_app in Hr as [Hrl Hrr]. inversion Hrr as [|? ? Hi Hrr']; subst.
    destruct (NoDup_app_inv _ _ Hnd) as (Hnd_l & Hnd_ir & Hdis0).
    inversion Hnd_ir as [|? ? Hni_r Hnd_r]; subst.
    assert (Hni_l : ~ In i (elements Z l)) by (intros Hin; apply (Hdis0 i Hin); left; reflexivity).
    assert (Hdis : forall j, In j (elements Z l) -> ~ In j (elements Z r)).
    { intros j Hl Hr0. apply (Hdis0 j Hl). right. exact Hr0. }
    set (e' := link_node c l r (get_ent fs i)). set (fs1 := set_ent fs i e'). set (fs2 := write_links l fs1). cbn [write_links]. fold e' fs1 fs2.
    assert (P0l : Forall (fun j => 0 <= j) (elements Z l)) by (eapply Forall_impl; [|exact Hrl]; cbv beta; lia).
    assert (P0r : Forall (fun j => 0 <= j) (elements Z r)) by (eapply Forall_impl; [|exact Hrr']; cbv beta; lia).
    destruct (write_links_frame l fs1 P0l) as [L2 F2]. fold fs2 in L2, F2.
    destruct (write_links_frame r fs2 P0r) as [L3 F3].
    assert (L1 : zlen fs1 = zlen fs) by apply zlen_set_ent.
    assert (Ge : get_ent (write_links r fs2) i = e').
    { rewrite F3 by (lia || exact Hni_r). rewrite F2 by (lia || exact Hni_l). apply get_set_same. exact Hi. }
    cbn [read_tree root_id tree_root]. replace (i =? -1) with false by lia.
    unfold ent_in_range. rewrite L3, L2, L1. replace ((0 <=? i) && (i <? zlen fs)) with true by lia. cbn [negb]. rewrite Ge.
    destruct (link_node_fields c l r (get_ent fs i)) as (Fl & Fr & Fc). fold e' in Fl, Fr, Fc. rewrite Fl, Fr, Fc.
    assert (Rl : read_tree k (write_links r fs2) (root_id l) = Some l).
    { apply (read_tree_ext k fs2); [|rewrite L3; reflexivity|].
      - apply IHl; [exact Hnd_l | rewrite L1; exact Hrl | lia].
      - intros j Hj. apply F3; [rewrite Forall_forall in Hrl; specialize (Hrl j Hj); lia | apply Hdis; exact Hj]. }
    assert (Rr : read_tree k (write_links r fs2) (root_id r) = Some r).
    { apply IHr; [exact Hnd_r | rewrite L2, L1; exact Hrr' | lia]. }
    rewrite Rl, Rr. destruct c; reflexivity.
Qed.

(* ------------------------------------------------------------------ Close: the directory it leaves satisfies the specification *)
Lemma nodup_range_length (l : list Z) n : NoDup l -> Forall (fun i => 0 <= i < Z.of_nat n) l -> (length l <= n)%nat.
Proof.
  intros Hnd R.
  assert (Hincl : incl (map Z.to_nat l) (seq 0 n)).
  { intros k Hk. apply in_map_iff in Hk as (j & <- & Hj). rewrite Forall_forall in R. specialize (R j Hj). apply in_seq. lia. }
  assert (Hnd2 : NoDup (map Z.to_nat l)).
  { rewrite Forall_forall in R. clear Hincl. induction l as [|a l IHl]; cbn; constructor.
    - inversion Hnd; subst. intros Hin. apply in_map_iff in Hin as (j & Hj & Hin).
      assert (j = a) by (pose proof (R a (or_introl eq_refl)); pose proof (R j (or_intror Hin)); lia). subst. contradiction.
    - inversion Hnd; subst. apply IHl; [assumption | intros; apply R; right; assumption]. }
  pose proof (NoDup_incl_length Hnd2 Hincl) as Hle. rewrite map_length, seq_length in Hle. exact Hle.
Qed.
Lemma height_le_size {X} (t : tree X) : (height t <= length (elements X t))%nat.
Proof. induction t as [|c l IHl x r IHr]; cbn; [lia|]. rewrite app_length. cbn. lia. Qed.

Definition same_name_fields (a b : dent) : Prop := f_runes a = f_runes b /\ f_nlen a = f_nlen b.
Lemma names_set_ent fs i e' : 0 <= i < zlen fs -> same_name_fields e' (get_ent fs i) ->
  forall j, same_name_fields (get_ent (set_ent fs i e') j) (get_ent fs j).
Proof.
  intros Hi He j. unfold get_ent, set_ent in *. destruct (Nat.eq_dec (Z.to_nat i) (Z.to_nat j)) as [E|E].
  - rewrite <- E. rewrite set_nat_same by (unfold zlen in Hi; lia). exact He.
  - rewrite set_nat_other by exact E. split; reflexivity.
Qed.
Lemma link_node_name c l r e : same_name_fields (link_node c l r e) e.
Proof. unfold link_node, set_link, set_color. destruct (rebuild_child0_field =? 0), (rebuild_child1_field =? 0); split; reflexivity. Qed.
Lemma write_links_names t : forall fs, Forall (fun i => 0 <= i < zlen fs) (elements Z t) ->
  forall j, same_name_fields (get_ent (write_links t fs) j) (get_ent fs j).
Proof.
  induction t as [|c l IHl i r IHr]; intros fs Hr j; cbn [write_links elements] in *; [split; reflexivity|].
  apply Forall_app in Hr as [Hl Hr]. inversion Hr as [|? ? Hi Hr']; subst.
  set (fs1 := set_ent fs i (link_node c l r (get_ent fs i))).
  assert (L1 : zlen fs1 = zlen fs) by apply zlen_set_ent.
  assert (P0l : Forall (fun j => 0 <= j) (elements Z l)) by (eapply Forall_impl; [|exact Hl]; cbv beta; lia).
  destruct (write_links_frame l fs1 P0l) as [L2 _].
  destruct (IHr (write_links l fs1) ltac:(rewrite L2, L1; exact Hr') j) as [A1 A2].
  destruct (IHl fs1 ltac:(rewrite L1; exact Hl) j) as [B1 B2].
  destruct (names_set_ent fs i _ Hi (link_node_name c l r (get_ent fs i)) j) as [C1 C2]. fold fs1 in C1, C2.
  split; congruence.
Qed.
Lemma ent_units_same a b : same_name_fields a b -> ent_units a = ent_units b.
Proof. intros [H1 H2]. unfold ent_units. rewrite H1, H2. reflexivity. Qed.

Lemma sorted_strictly_increasing fs l : Forall (fun i => wf_name (get_ent fs i)) l -> sorted_by (idx_less fs) l ->
  strictly_increasing (map (fun i => ent_units (get_ent fs i)) l) = true.
Proof.
  induction l as [|a r IH]; intros Hw Hs; [reflexivity|]. destruct r as [|b r']; [reflexivity|].
  cbn [sorted_by] in Hs. destruct Hs as [H1 H2]. inversion Hw as [|? ? Wa Wr]; subst. inversion Wr as [|? ? Wb _]; subst.
  change (spec_less (ent_units (get_ent fs a)) (ent_units (get_ent fs b)) && strictly_increasing (map (fun i => ent_units (get_ent fs i)) (b :: r')) = true).
  rewrite (IH Wr H2), andb_true_r. rewrite <- ent_less_is_spec_less by assumption. inversion H1; subst. assumption.
Qed.

(* After any operation that changed the document, the directory entries Close leaves behind (colour, left, right of every child of
   the root and the root's child id) read back as a valid red-black tree whose in-order names are strictly increasing in the MS-CFB
   order and which holds exactly the root's children *)
Lemma close_dir_meets_spec st : wf st -> d_changed st = true -> d_root_files st <> [] ->
  spec_tree_ok (d_files (close_dir st)) (f_child (get_ent (d_files (close_dir st)) (d_root st))) (d_root_files st) = true.
Proof.
  intros W Hc Hne. unfold close_dir, close_skips. rewrite Hc. cbn [negb]. unfold rebuild.
  unfold wds_rebuilds_root, rebuild_by_less_dirent, rebuild_inserts_entries, rebuild_sets_storage_root. cbn [andb negb].
  destruct (rebuild_tree_valid st W) as (B & RB & P & Srt). set (t := rebuild_tree (d_files st) (d_root_files st)) in *.
  pose proof (NoDup_map_inv _ _ (wf_uniq _ W)) as Hnd_rf.
  assert (Hnd : NoDup (elements Z t)) by (eapply Permutation_NoDup; [apply Permutation_sym; exact P | exact Hnd_rf]).
  assert (Hin : forall i, In i (elements Z t) -> In i (d_root_files st)) by (intros i Hi; eapply Permutation_in; [exact P | exact Hi]).
  pose proof (wf_range _ W) as Rng. rewrite Forall_forall in Rng.
  assert (Hr : Forall (fun i => 0 <= i < zlen (d_files st)) (elements Z t)) by (apply Forall_forall; intros i Hi; apply Rng, Hin, Hi).
  destruct t as [|c l i0 r] eqn:Et.
  { exfalso. apply Hne. apply Permutation_nil. cbn in P. exact P. }
  rewrite <- Et in *. assert (Er : tree_root t = Some i0) by (rewrite Et; reflexivity). rewrite Er. simpl_st.
  set (fs := write_links t (d_files st)).
  assert (P0 : Forall (fun j => 0 <= j) (elements Z t)) by (eapply Forall_impl; [|exact Hr]; cbv beta; lia).
  destruct (write_links_frame t (d_files st) P0) as [L F]. fold fs in L, F.
  destruct (wf_root_used _ W) as [Rr _].
  assert (Hroot_nin : ~ In (d_root st) (elements Z t)) by (intros Hi; exact (wf_root _ W (Hin _ Hi))).
  set (fs' := set_ent fs (d_root st) (set_child (get_ent fs (d_root st)) i0)).
  assert (L' : zlen fs' = zlen (d_files st)) by (unfold fs'; rewrite zlen_set_ent; exact L).
  assert (Gc : f_child (get_ent fs' (d_root st)) = i0) by (unfold fs'; rewrite get_set_same by lia; reflexivity).
  rewrite Gc. unfold spec_tree_ok.
  assert (Hread : read_tree (S (length fs')) fs' i0 = Some t).
  { apply (read_tree_ext _ fs); [|unfold fs'; apply zlen_set_ent|].
    - replace i0 with (root_id t) by (unfold root_id; rewrite Er; reflexivity). apply write_links_readback; [exact Hnd | exact Hr|].
      pose proof (height_le_size t). pose proof (nodup_range_length _ (length (d_files st)) Hnd Hr). unfold zlen in L'. lia.
    - intros j Hj. unfold fs'. apply get_set_other; [lia | rewrite Forall_forall in P0; apply P0; exact Hj | intros E; apply Hroot_nin; rewrite E; exact Hj]. }
  rewrite Hread.
  assert (Hunits : forall j, ent_units (get_ent fs' j) = ent_units (get_ent (d_files st) j)).
  { intros j. apply ent_units_same. destruct (write_links_names t (d_files st) Hr j) as [A1 A2]. fold fs in A1, A2.
    assert (Hs : same_name_fields (set_child (get_ent fs (d_root st)) i0) (get_ent fs (d_root st))) by (split; reflexivity).
    destruct (names_set_ent fs (d_root st) _ ltac:(lia) Hs j) as [B1 B2]. fold fs' in B1, B2. split; congruence. }
  apply andb_true_iff. split; [apply andb_true_iff; split; [apply andb_true_iff; split|]|].
  - apply rb_ok_iff. exact RB.
  - erewrite map_ext by (intros j; apply Hunits). apply sorted_strictly_increasing; [|exact Srt].
    apply Forall_forall. intros j Hj. pose proof (wf_names _ W) as Nm. rewrite Forall_forall in Nm. apply Nm, Hin, Hj.
  - apply Nat.eqb_eq. apply Permutation_length. exact P.
  - apply forallb_forall. intros j Hj. apply existsb_exists. exists j. split; [apply Hin; exact Hj | apply Z.eqb_refl].
Qed.

(* ================================================================== 7. the replaced stream releases its sectors *)
Lemma go_free_chain_spec fuel : forall t s l, schain t s l -> (length l < fuel)%nat ->
  zlen (go_free_chain fuel t s) = zlen t /\
  (forall j, In j l -> sget (go_free_chain fuel t s) j = secid_free) /\
  (forall j, 0 <= j -> ~ In j l -> sget (go_free_chain fuel t s) j = sget t j).
Proof.
  induction fuel as [|k IH]; intros t s l Hc Hlen; [lia|].
  pose proof (schain_NoDup _ _ _ Hc) as Hnd. cbn [go_free_chain]. unfold free_break.
  inversion Hc as [|s' l' Hs Hc']; subst.
  - replace ((secid_eoc <? 0) || (secid_eoc >=? zlen t)) with true by (unfold secid_eoc; lia).
    split; [reflexivity|]. split; [intros j []|]. reflexivity.
  - replace ((s <? 0) || (s >=? zlen t)) with false by lia.
    inversion Hnd as [|? ? Hnotin Hnd']; subst.
    assert (Hc2 : schain (sset t s secid_free) (sget t s) l').
    { eapply schain_preserved; [exact Hc' | rewrite sset_zlen; lia |].
      intros j Hj. apply sget_sset_other; [lia | | intros ->; contradiction].
      pose proof (schain_in_range _ _ _ Hc') as R. rewrite Forall_forall in R. specialize (R j Hj). lia. }
    unfold free_stop. destruct (sget t s <? 0) eqn:En.
    + assert (l' = []) by (inversion Hc'; subst; [reflexivity | lia]). subst l'.
      split; [apply sset_zlen|]. split.
      * intros j [->|[]]. apply sget_sset_same. exact Hs.
      * intros j Hj Hn. apply sget_sset_other; [lia | exact Hj | intros ->; apply Hn; left; reflexivity].
    + cbn [length] in Hlen. destruct (IH _ _ _ Hc2 ltac:(lia)) as (Hz & Hfree & Hother).
      split; [rewrite Hz; apply sset_zlen|]. split.
      * intros j [->|Hj]; [|apply Hfree; exact Hj]. rewrite Hother; [apply sget_sset_same; exact Hs | lia | exact Hnotin].
      * intros j Hj Hn. rewrite Hother; [|exact Hj|intros Hin; apply Hn; right; exact Hin].
        apply sget_sset_other; [lia | exact Hj | intros ->; apply Hn; left; reflexivity].
Qed.
(* freeSectors as coded frees exactly the sectors of the chain it is given and nothing else *)
Lemma go_free_spec t s l : schain t s l ->
  zlen (go_free t s) = zlen t /\ (forall j, In j l -> sget (go_free t s) j = secid_free) /\
  (forall j, 0 <= j -> ~ In j l -> sget (go_free t s) j = sget t j).
Proof. intros Hc. apply go_free_chain_spec; [exact Hc|]. pose proof (schain_length _ _ _ Hc). lia. Qed.

Lemma delete_loop_nomatch name p cutoff : forall idxs fs sat ssat keep ch,
  Forall (fun i => 0 <= i < zlen fs) idxs -> (forall j, In j idxs -> matches p fs j = false) ->
  delete_loop name p cutoff idxs fs sat ssat keep ch = (0, (fs, sat, ssat, keep ++ idxs, ch)).
Proof.
  induction idxs as [|i rest IH]; intros fs sat ssat keep ch Hr Hm; cbn [delete_loop]; [rewrite app_nil_r; reflexivity|].
  inversion Hr as [|? ? Hi Hr']; subst.
  replace (ent_in_range fs i) with true by (symmetry; apply in_range_iff; exact Hi). cbn [negb].
  rewrite keeps_is_not_same. fold (matches p fs i). rewrite (Hm i (or_introl eq_refl)). cbn [negb]. unfold delete_keep_appends.
  rewrite IH; [rewrite <- app_assoc; reflexivity | exact Hr' | intros j Hj; apply Hm; right; exact Hj].
Qed.

(* which table DeleteFile hands to freeSectors for an entry, and what becomes of the two tables *)
Definition freed_tables (cutoff : Z) (item : dent) (sat ssat : list Z) : list Z * list Z :=
  if delete_is_short (f_size item) cutoff then (sat, go_free ssat (f_start item)) else (go_free sat (f_start item), ssat).

Lemma delete_loop_tables name p cutoff : forall idxs fs sat ssat keep ch fs' sat' ssat' keep' ch',
  NoDup idxs -> Forall (fun i => 0 <= i < zlen fs) idxs ->
  (forall i j, In i idxs -> In j idxs -> matches p fs i = true -> matches p fs j = true -> i = j) ->
  delete_loop name p cutoff idxs fs sat ssat keep ch = (0, (fs', sat', ssat', keep', ch')) ->
  (existsb (matches p fs) idxs = false -> sat' = sat /\ ssat' = ssat) /\
  (forall i, In i idxs -> matches p fs i = true -> (sat', ssat') = freed_tables cutoff (get_ent fs i) sat ssat).
Proof.
  induction idxs as [|i rest IH]; intros fs sat ssat keep ch fs' sat' ssat' keep' ch' Hnd Hr Hone H; cbn [delete_loop] in H.
  - inversion H; subst. split; [tauto | intros ? []].
  - inversion Hnd as [|? ? Hni Hnd']; subst. inversion Hr as [|? ? Hi Hr']; subst.
    replace (ent_in_range fs i) with true in H by (symmetry; apply in_range_iff; exact Hi). cbn [negb] in H.
    rewrite keeps_is_not_same in H. fold (matches p fs i) in H. cbn [existsb].
    destruct (matches p fs i) eqn:Em; cbn [negb orb] in H |- *.
    + destruct (delete_refuses (f_type (get_ent fs i))); [inversion H; unfold E_STORAGE in *; lia|].
      unfold delete_blanks_entry, delete_marks_changed, delete_free_from_next, delete_free_table_short, delete_free_table_long in H.
      assert (Hno : forall j, In j rest -> matches p (set_ent fs i blank) j = false).
      { intros j Hj. assert (j <> i) by (intros ->; contradiction). unfold matches. rewrite get_set_other; [|lia| |lia].
        - apply not_true_is_false. intros Hmj. apply H0. symmetry. apply (Hone i j); [left; reflexivity | right; exact Hj | exact Em | exact Hmj].
        - rewrite Forall_forall in Hr'. specialize (Hr' j Hj). lia. }
      rewrite delete_loop_nomatch in H; [|rewrite zlen_set_ent; exact Hr' | exact Hno].
      inversion H; subst; clear H. split; [discriminate|].
      intros i0 [<-|Hin] Hm0.
      * unfold freed_tables. destruct (delete_is_short (f_size (get_ent fs i)) cutoff); reflexivity.
      * exfalso. assert (i = i0) by (apply (Hone i i0); [left; reflexivity | right; exact Hin | exact Em | exact Hm0]). subst. contradiction.
    + unfold delete_keep_appends in H.
      destruct (IH _ _ _ _ _ _ _ _ _ _ Hnd' Hr' ltac:(intros a b Ha Hb; apply Hone; right; assumption) H) as [N1 N2].
      split; [exact N1|]. intros i0 [<-|Hin] Hm0; [congruence | apply N2; assumption].
Qed.

Lemma NoDup_map_inj_in {X Y} (f : X -> Y) l x y : NoDup (map f l) -> In x l -> In y l -> f x = f y -> x = y.
Proof.
  induction l as [|a l IH]; cbn; intros Hnd Hx Hy E; [destruct Hx|]. inversion Hnd as [|? ? Hn Hd]; subst.
  destruct Hx as [<-|Hx], Hy as [<-|Hy]; try reflexivity.
  - exfalso. apply Hn. rewrite E. apply in_map. exact Hy.
  - exfalso. apply Hn. rewrite <- E. apply in_map. exact Hx.
  - apply IH; assumption.
Qed.

(* DeleteFile(name) on a well-formed state removes at most one child; the sectors of that stream are released in the table its
   size selects (mini FAT below the cutoff, FAT otherwise) and the other table is not touched *)
Lemma delete_releases name st st' : wf st -> delete_file name st = Ok st' -> fits name = true ->
  (existsb (matches (probe_of name) (d_files st)) (d_root_files st) = false -> d_sat st' = d_sat st /\ d_ssat st' = d_ssat st) /\
  (forall i, In i (d_root_files st) -> matches (probe_of name) (d_files st) i = true ->
     (d_sat st', d_ssat st') = freed_tables (d_cutoff st) (get_ent (d_files st) i) (d_sat st) (d_ssat st) /\
     d_root_files st' = filter (fun j => negb (j =? i)) (d_root_files st)).
Proof.
  intros W H F. apply delete_file_ok in H. pose proof H as H0. unfold delete_file_raw in H. unfold fits in F. apply negb_true_iff in F. rewrite F in H.
  destruct (delete_loop name (probe_of name) (d_cutoff st) (d_root_files st) (d_files st) (d_sat st) (d_ssat st) [] (d_changed st))
    as [code [[[[fs sat] ssat] keep] ch]] eqn:EL.
  destruct (code =? 0) eqn:Ec; [|inversion H; subst; lia]. apply Z.eqb_eq in Ec. subst code. inversion H; subst st'; clear H. simpl_st.
  pose proof (NoDup_map_inv _ _ (wf_uniq _ W)) as Hnd.
  assert (Hone : forall i j, In i (d_root_files st) -> In j (d_root_files st) ->
            matches (probe_of name) (d_files st) i = true -> matches (probe_of name) (d_files st) j = true -> i = j).
  { intros i j Hi Hj Mi Mj. apply ent_same_iff in Mi, Mj. eapply (NoDup_map_inj_in _ _ _ _ (wf_uniq _ W) Hi Hj). cbv beta. congruence. }
  destruct (delete_loop_tables _ _ _ _ _ _ _ _ _ _ _ _ _ _ Hnd (wf_range _ W) Hone EL) as [N1 N2].
  split; [exact N1|]. intros i Hi Mi. split; [apply N2; assumption|].
  destruct (delete_raw_spec _ _ _ W H0) as (_ & Hyes & _). unfold fits in Hyes. rewrite F in Hyes. destruct (Hyes eq_refl) as (RF & _).
  unfold with_changed, with_dir in RF. cbn [d_root_files] in RF. rewrite RF. apply filter_ext_in'. intros j Hj. f_equal.
  destruct (matches (probe_of name) (d_files st) j) eqn:Mj.
  - rewrite (Hone j i Hj Hi Mj Mi). symmetry. apply Z.eqb_refl.
  - symmetry. apply Z.eqb_neq. intros ->. congruence.
Qed.

(* ================================================================== 8. statements in the terms of the specification *)
Lemma spec_same_is_ent_same a b : wf_name a -> wf_name b -> spec_same (ent_units a) (ent_units b) = ent_same a b.
Proof. intros Wa Wb. unfold spec_same, ent_same. rewrite !ent_less_is_spec_less by assumption. reflexivity. Qed.

(* names unique in the sense of [MS-CFB] (spec_unique on the names the entries carry) is the same as pairwise different keys *)
Lemma spec_unique_iff fs l : Forall (fun i => wf_name (get_ent fs i)) l ->
  spec_unique (map (fun i => ent_units (get_ent fs i)) l) = true <-> NoDup (rkeys fs l).
Proof.
  induction l as [|a r IH]; intros Hw; cbn [map spec_unique rkeys]; [split; [constructor | reflexivity]|].
  inversion Hw as [|? ? Wa Wr]; subst. rewrite andb_true_iff, (IH Wr). fold (rkeys fs r). split.
  - intros [H1 H2]. constructor; [|exact H2]. intros Hin. unfold rkeys in Hin. apply in_map_iff in Hin as (y & Hk & Hy).
    rewrite forallb_forall in H1. specialize (H1 (ent_units (get_ent fs y)) (in_map _ _ _ Hy)).
    rewrite Forall_forall in Wr. rewrite spec_same_is_ent_same in H1 by (assumption || apply Wr; exact Hy).
    apply negb_true_iff in H1. assert (ent_same (get_ent fs a) (get_ent fs y) = true) by (apply ent_same_iff; congruence). congruence.
  - intros H. inversion H as [|? ? Hn Hd]; subst. split; [|exact Hd]. apply forallb_forall. intros u Hu.
    apply in_map_iff in Hu as (y & <- & Hy). rewrite Forall_forall in Wr. rewrite spec_same_is_ent_same by (assumption || apply Wr; exact Hy).
    apply negb_true_iff. apply not_true_is_false. intros Hs. apply ent_same_iff in Hs. apply Hn. unfold rkeys. apply in_map_iff. exists y. split; [symmetry; exact Hs | exact Hy].
Qed.
Lemma wf_spec_unique st : wf st -> spec_unique (root_names st) = true.
Proof. intros W. unfold root_names. apply spec_unique_iff; [exact (wf_names _ W) | exact (wf_uniq _ W)]. Qed.

(* a directory state as a valid compound file gives it, stated with the specification's notion of unique names *)
Definition valid_dir (st : dstate) : Prop :=
  Forall (fun i => wf_name (get_ent (d_files st) i)) (d_root_files st) /\
  Forall (fun i => 0 <= i < zlen (d_files st)) (d_root_files st) /\
  Forall (fun i => f_type (get_ent (d_files st) i) <> dir_empty) (d_root_files st) /\
  spec_unique (root_names st) = true /\
  ~ In (d_root st) (d_root_files st) /\ 0 <= d_root st < zlen (d_files st) /\ f_type (get_ent (d_files st) (d_root st)) <> dir_empty.
Lemma valid_dir_wf st : valid_dir st <-> wf st.
Proof.
  unfold valid_dir. split.
  - intros (A & B & C & D & E & F & G). constructor; try assumption.
    + eapply Forall_impl; [|exact C]. cbv beta. intros i Hi. unfold append_slot_free, dir_empty in *. lia.
    + apply spec_unique_iff; assumption.
    + split; [exact F|]. unfold append_slot_free, dir_empty in *. lia.
  - intros W. destruct (wf_root_used _ W) as [R1 R2]. split; [exact (wf_names _ W)|]. split; [exact (wf_range _ W)|]. split.
    + eapply Forall_impl; [|exact (wf_used _ W)]. cbv beta. intros i Hi. unfold append_slot_free, dir_empty in *. lia.
    + split; [apply wf_spec_unique; exact W|]. split; [exact (wf_root _ W)|]. split; [exact R1|]. unfold append_slot_free, dir_empty in *. lia.
Qed.

(* DeleteFile: what is left, in one statement *)
Lemma delete_file_spec name st st' : valid_dir st -> delete_file name st = Ok st' ->
  valid_dir st' /\ same_geometry st st' /\
  (fits name = false -> st' = st) /\
  (fits name = true ->
     d_root_files st' = kept_of name st /\
     (forall i, In i (d_root_files st') -> get_ent (d_files st') i = get_ent (d_files st) i /\
                                           spec_same (ent_units (get_ent (d_files st') i)) (ent_units (probe_of name)) = false) /\
     (forall i, In i (d_root_files st) -> ~ In i (d_root_files st') ->
                get_ent (d_files st') i = blank /\ f_type (get_ent (d_files st) i) = dir_stream /\
                spec_same (ent_units (get_ent (d_files st) i)) (ent_units (probe_of name)) = true)).
Proof.
  intros V H. apply valid_dir_wf in V. rename V into W. apply delete_file_ok in H.
  pose proof (delete_raw_wf _ _ _ W H) as W1. destruct (delete_raw_spec _ _ _ W H) as (Hno & Hyes & G).
  split; [apply valid_dir_wf; exact W1|]. split; [exact G|]. split; [exact Hno|]. intros F.
  destruct (Hyes F) as (RF & L & Same & Gone & _). fold (kept_of name st) in RF. split; [exact RF|].
  assert (Wp : wf_name (probe_of name)).
  { apply (new_name_wf name); [exact F | reflexivity | reflexivity]. }
  pose proof (wf_range _ W) as Rng. rewrite Forall_forall in Rng. pose proof (wf_names _ W) as Nm. rewrite Forall_forall in Nm.
  split.
  - intros i Hi. rewrite RF in Hi. unfold kept_of in Hi. apply filter_In in Hi as [Hi Hm]. apply negb_true_iff in Hm.
    assert (He : get_ent (d_files st') i = get_ent (d_files st) i) by (apply Same; [specialize (Rng i Hi); lia | right; exact Hm]).
    split; [exact He|]. rewrite He, spec_same_is_ent_same by (apply Nm; exact Hi) || exact Wp. exact Hm.
  - intros i Hi Hn. assert (Hm : matches (probe_of name) (d_files st) i = true).
    { destruct (matches (probe_of name) (d_files st) i) eqn:E; [reflexivity|]. exfalso. apply Hn. rewrite RF. unfold kept_of. apply filter_In. split; [exact Hi|]. rewrite E. reflexivity. }
    destruct (Gone i Hi Hm) as [G1 G2]. split; [exact G1|]. split.
    + unfold delete_refuses in G2. apply negb_false_iff in G2. unfold dir_stream. lia.
    + rewrite spec_same_is_ent_same by (apply Nm; exact Hi) || exact Wp. exact Hm.
Qed.

(* statements about the source as read by srcgen that the model relies on *)
Lemma rb_descend_right_is_less (X : Type) (lt : X -> X -> bool) x a : rb_descend_right lt x a = lt x a.
Proof. reflexivity. Qed.
Lemma errors_are_returned :
  addfile_delete_err_returned && addfile_stream_err_returned && addfile_dirent_err_returned &&
  insert_err0_returned && insert_err1_returned && insert_err2_returned = true.
Proof. reflexivity. Qed.
Lemma sig_names_are_ascii : forallb (fun b => (0 <=? b) && (b <? 128)) (msi_sig_name ++ msi_sigex_name) = true.
Proof. vm_compute. reflexivity. Qed.

(* histories, then Close *)
Lemma history_then_close ops st st' : valid_dir st -> run_ops ops st = Ok st' -> d_changed st' = true -> d_root_files st' <> [] ->
  spec_unique (root_names st') = true /\
  spec_tree_ok (d_files (close_dir st')) (f_child (get_ent (d_files (close_dir st')) (d_root st'))) (d_root_files st') = true.
Proof.
  intros V H Hc Hne. apply valid_dir_wf in V. pose proof (run_ops_wf _ _ _ V H) as W'.
  split; [apply wf_spec_unique; exact W' | apply close_dir_meets_spec; assumption].
Qed.
Lemma sign_then_close pk ex st st' : valid_dir st -> insert_sig pk ex st = Ok st' ->
  spec_unique (root_names st') = true /\
  spec_tree_ok (d_files (close_dir st')) (f_child (get_ent (d_files (close_dir st')) (d_root st'))) (d_root_files st') = true.
Proof.
  intros V H. apply valid_dir_wf in V. destruct (insert_sig_spec _ _ _ _ V H) as (W' & Hc & _ & _ & isig & _ & _ & _ & Hrf).
  split; [apply wf_spec_unique; exact W'|]. apply close_dir_meets_spec; [exact W' | exact Hc|].
  destruct (insert_has_exsig ex); [destruct Hrf as (iex & -> & _) | rewrite Hrf]; intros E; apply app_eq_nil in E as [_ E]; discriminate.
Qed.

(* ================================================================== 9. the storage refusal of InsertMSISignature is always the early one *)
(* code units that are single non-surrogate characters survive utf16.Decode / utf16.Encode unchanged *)
Definition plain_unit (x : Z) : Prop := (0 <= x < 55296) \/ (57344 <= x < 65536).
Lemma utf16_decode_plain l : Forall plain_unit l -> utf16_decode l = l.
Proof.
  induction l as [|a r IH]; intros H; [reflexivity|]. inversion H as [|? ? Ha Hr]; subst. cbn [utf16_decode].
  assert (Eh : is_hi a = false) by (unfold is_hi, plain_unit in *; lia).
  assert (El : is_lo a = false) by (unfold is_lo, plain_unit in *; lia).
  rewrite Eh, El. cbn [andb orb]. destruct r as [|b r']; [reflexivity|]. rewrite (IH Hr). reflexivity.
Qed.
Lemma utf16_encode_plain l : Forall plain_unit l -> utf16_encode l = l.
Proof.
  induction l as [|a r IH]; intros H; [reflexivity|]. inversion H as [|? ? Ha Hr]; subst. unfold utf16_encode in *. cbn [map concat].
  rewrite (IH Hr). unfold utf16_encode_rune. replace (((0 <=? a) && (a <? 55296)) || ((57344 <=? a) && (a <? 65536))) with true by (unfold plain_unit in Ha; lia).
  reflexivity.
Qed.
Lemma spec_runs_in_bmp : forallb (fun r => let '(lo, hi, d) := r in (0 <=? lo) && (hi <=? 65535)) spec_upper_runs = true.
Proof. vm_compute. reflexivity. Qed.
Lemma lookup_upper_moved runs u :
  forallb (fun r => let '(lo, hi, d) := r in (0 <=? lo) && (hi <=? 65535)) runs = true ->
  lookup_upper runs u = u \/ 0 <= u <= 65535.
Proof.
  induction runs as [|[[lo hi] d] r IH]; cbn [lookup_upper forallb]; intros H; [left; reflexivity|].
  apply andb_true_iff in H as [H1 H2]. destruct ((lo <=? u) && (u <=? hi)) eqn:E; [right; lia | apply IH; exact H2].
Qed.
(* a code unit whose upper-case form is an ASCII character is a plain unit *)
Lemma small_upper_plain x : 0 <= upper_unit x < 128 -> plain_unit x.
Proof.
  rewrite upper_unit_is_upcase. unfold upcase, plain_unit. destruct ((55296 <=? x) && (x <=? 57343)) eqn:E; [lia|].
  intros H. destruct (lookup_upper_moved spec_upper_runs x spec_runs_in_bmp) as [H1|H1]; lia.
Qed.

Lemma map_firstn_seq (f : Z -> Z) l : forall m, (m <= length l)%nat -> map f (firstn m l) = map (fun j => f (nth j l 0)) (seq 0 m).
Proof.
  induction l as [|x l IH]; intros [|m] H; cbn in H; try lia; try reflexivity.
  cbn [firstn map seq nth]. f_equal. rewrite IH by lia. rewrite <- seq_shift, map_map. reflexivity.
Qed.
Lemma up_units_firstn m l : (m <= length l)%nat -> up_units m 0 l = map upper_unit (firstn m l).
Proof. intros H. unfold up_units. symmetry. apply map_firstn_seq. exact H. Qed.
Lemma same_loop_true a : forall b, map upper_unit a = map upper_unit b -> same_loop a b = true.
Proof.
  induction a as [|x a IH]; intros [|y b] H; cbn in H; try discriminate; [reflexivity|]. inversion H as [[H1 H2]]. cbn [same_loop].
  unfold same_unit_differs. rewrite H1, Z.eqb_refl. cbn [negb]. apply IH. exact H2.
Qed.

Definition ascii_name (n : list Z) : bool :=
  forallb (fun c => (0 <=? c) && (c <? 128) && (0 <=? upper_unit c) && (upper_unit c <? 128)) n.
Lemma ascii_plain n : ascii_name n = true -> Forall plain_unit n.
Proof.
  unfold ascii_name. rewrite forallb_forall. intros H. apply Forall_forall. intros c Hc. specialize (H c Hc). unfold plain_unit. lia.
Qed.

Lemma probe_of_plain n : Forall plain_unit n -> probe_of n = mkDent (pad_runes (n ++ [0])) (2 * (zlen n + 1)) 0 0 0 0 0 0 0.
Proof.
  intros P. unfold probe_of, name_units, delete_probe_terminated, delete_probe_copied, delete_probe_namelen.
  rewrite (utf16_encode_plain n P), zlen_app. reflexivity.
Qed.
Lemma ekey_mk r l a b c d e f g : ekey (mkDent r l a b c d e f g) = l :: up_units (iters l) 0 r.
Proof. reflexivity. Qed.

(* an allocated entry with a well-formed name that lessDirEnt cannot tell from the probe of an ASCII name has that name for
   comdoc.SameName as well (its Go string is the decoded code units, which re-encode to themselves) *)
Lemma ent_same_same_name e n : ascii_name n = true -> fits n = true -> wf_name e -> f_type e <> dir_empty ->
  ent_same e (probe_of n) = true -> same_name (ent_name e) n = true.
Proof.
  intros An F (W1 & W2 & W3) Ht Hs. apply ent_same_iff in Hs.
  pose proof (ascii_plain n An) as Pn. pose proof (utf16_encode_plain n Pn) as En.
  unfold fits, delete_probe_terminated, delete_name_too_long, name_units in F. rewrite En in F. change name_runes with 32 in F.
  rewrite zlen_app in F. unfold zlen at 2 in F. cbn [length] in F. apply negb_true_iff in F.
  pose proof (zlen_nonneg n) as Hn0.
  rewrite (probe_of_plain n Pn), ekey_mk in Hs. unfold ekey in Hs.
  assert (Hl : f_nlen e = 2 * (zlen n + 1)) by (exact (f_equal (@hd Z 0) Hs)).
  assert (Hu : up_units (iters (f_nlen e)) 0 (f_runes e) = up_units (iters (2 * (zlen n + 1))) 0 (pad_runes (n ++ [0]))) by (exact (f_equal (@tl Z) Hs)).
  clear Hs.
  assert (Hit : iters (f_nlen e) = length n).
  { unfold iters, less_n. rewrite Hl. rewrite Z.quot_div_nonneg by lia. replace (2 * (zlen n + 1)) with ((zlen n + 1) * 2) by lia.
    rewrite Z.div_mul by lia. change name_runes with 32. unfold zlen in *. lia. }
  rewrite Hl in Hu. rewrite <- Hl in Hu at 1. rewrite Hit in Hu.
  assert (Hit2 : iters (2 * (zlen n + 1)) = length n) by (rewrite <- Hl; exact Hit). rewrite Hit2 in Hu.
  rewrite up_units_firstn in Hu by (rewrite W3; unfold zlen in F; lia).
  rewrite up_units_firstn in Hu by (rewrite pad_runes_length; unfold zlen in F; lia).
  assert (Hpad : firstn (length n) (pad_runes (n ++ [0])) = n).
  { unfold pad_runes. change (Z.to_nat name_runes) with 32%nat. rewrite firstn_firstn. replace (Nat.min (length n) 32) with (length n) by (unfold zlen in F; lia).
    rewrite <- app_assoc. rewrite firstn_app, firstn_all, Nat.sub_diag. cbn. apply app_nil_r. }
  rewrite Hpad in Hu.
  assert (Hunits : ent_units e = firstn (length n) (f_runes e)).
  { unfold ent_units. f_equal. rewrite Hl. replace (2 * (zlen n + 1)) with ((zlen n + 1) * 2) by lia. rewrite Z.div_mul by lia. unfold zlen. lia. }
  assert (Pu : Forall plain_unit (ent_units e)).
  { rewrite Hunits. apply Forall_forall. intros x Hx. apply small_upper_plain.
    assert (Hin : In (upper_unit x) (map upper_unit n)) by (rewrite <- Hu; apply in_map; exact Hx).
    apply in_map_iff in Hin as (c & Hc & Hcn). unfold ascii_name in An. rewrite forallb_forall in An. specialize (An c Hcn). lia. }
  assert (Hname : ent_name e = ent_units e).
  { unfold ent_name, name_used, name_is_empty. rewrite Hl. rewrite Z.quot_div_nonneg by lia. replace (2 * (zlen n + 1)) with ((zlen n + 1) * 2) by lia.
    rewrite Z.div_mul by lia. replace (f_type e =? 0) with false by (unfold dir_empty in Ht; lia). replace (zlen n + 1 - 1 >? 32) with false by lia. cbn [orb].
    replace (ztake (zlen n + 1 - 1) (f_runes e)) with (ent_units e).
    - apply utf16_decode_plain. exact Pu.
    - rewrite Hunits. unfold ztake. f_equal. unfold zlen. lia. }
  unfold same_name. rewrite Hname, En, (utf16_encode_plain _ Pu).
  assert (Hlen : zlen (ent_units e) = zlen n).
  { rewrite Hunits. unfold zlen. rewrite firstn_length, W3. unfold zlen in F. lia. }
  unfold same_len_differs. rewrite Hlen, Z.eqb_refl. cbn [negb]. apply same_loop_true. rewrite Hunits. exact Hu.
Qed.

(* ------------------------------------------------------------------ where "can't delete or replace storages" can come from *)
Lemma delete_loop_err name p cutoff : forall idxs fs sat ssat keep ch code r,
  NoDup idxs -> Forall (fun i => 0 <= i < zlen fs) idxs ->
  delete_loop name p cutoff idxs fs sat ssat keep ch = (code, r) -> code <> 0 ->
  code = E_STORAGE /\ exists i, In i idxs /\ matches p fs i = true /\ delete_refuses (f_type (get_ent fs i)) = true.
Proof.
  induction idxs as [|i rest IH]; intros fs sat ssat keep ch code r Hnd Hr H Hc; cbn [delete_loop] in H.
  - inversion H; subst. congruence.
  - inversion Hnd as [|? ? Hni Hnd']; subst. inversion Hr as [|? ? Hi Hr']; subst.
    replace (ent_in_range fs i) with true in H by (symmetry; apply in_range_iff; exact Hi). cbn [negb] in H.
    rewrite keeps_is_not_same in H. fold (matches p fs i) in H.
    destruct (matches p fs i) eqn:Em; cbn [negb] in H.
    + destruct (delete_refuses (f_type (get_ent fs i))) eqn:Eref.
      * inversion H; subst. split; [reflexivity|]. exists i. split; [left; reflexivity|]. split; assumption.
      * unfold delete_blanks_entry in H.
        assert (Hr2 : Forall (fun k => 0 <= k < zlen (set_ent fs i blank)) rest) by (rewrite zlen_set_ent; exact Hr').
        destruct (IH _ _ _ _ _ _ _ Hnd' Hr2 H Hc) as (E & j & Hj & Mj & Rj). split; [exact E|]. exists j.
        assert (j <> i) by (intros ->; contradiction).
        assert (0 <= j) by (rewrite Forall_forall in Hr'; specialize (Hr' j Hj); lia).
        unfold matches in *. rewrite get_set_other in Mj, Rj by lia. split; [right; exact Hj|]. split; assumption.
    + destruct (IH _ _ _ _ _ _ _ Hnd' Hr' H Hc) as (E & j & Hj & Mj & Rj). split; [exact E|]. exists j. split; [right; exact Hj|]. split; assumption.
Qed.
Lemma delete_raw_err name st code st1 : wf st -> delete_file_raw name st = (code, st1) -> code <> 0 ->
  code = E_STORAGE /\ exists i, In i (d_root_files st) /\ matches (probe_of name) (d_files st) i = true /\
                                delete_refuses (f_type (get_ent (d_files st) i)) = true.
Proof.
  intros W H Hc. unfold delete_file_raw in H.
  destruct (delete_name_too_long (zlen (name_units name delete_probe_terminated)) name_runes); [inversion H; subst; congruence|].
  destruct (delete_loop name (probe_of name) (d_cutoff st) (d_root_files st) (d_files st) (d_sat st) (d_ssat st) [] (d_changed st))
    as [c [[[[fs sat] ssat] keep] ch]] eqn:EL.
  assert (c = code) by (destruct (c =? 0) eqn:E; inversion H; subst; [apply Z.eqb_eq in E; congruence | reflexivity]). subst c.
  eapply delete_loop_err; [exact (NoDup_map_inv _ _ (wf_uniq _ W)) | exact (wf_range _ W) | exact EL | exact Hc].
Qed.

(* error codes of the allocation inside AddFile: never the storage refusal *)
Lemma walk_big_err fuel : forall sat id idx e, walk_big fuel sat id idx = Err e -> e = 1.
Proof.
  induction fuel as [|k IH]; intros sat id idx e; cbn [walk_big]; destruct (wss_walk_more idx); try discriminate.
  - intros H; inversion H; reflexivity.
  - destruct (negb (in_range sat id)); [discriminate|]. destruct (wss_walk_stop (sget sat id)); [discriminate|]. apply IH.
Qed.
Lemma extend_from_err fl : forall sat id e, extend_from sat id fl <> Err e.
Proof.
  induction fl as [|s r IH]; intros sat id e; cbn [extend_from]; destruct (in_range sat id); try discriminate. apply IH.
Qed.
Lemma write_short_sector_err ss mss st i e : write_short_sector ss mss st i = Err e -> e = 1 \/ e = E_NEGATIVE_OFFSET.
Proof.
  destruct st as [[sat rn] rs]. unfold write_short_sector.
  destruct (walk_big (S (Z.to_nat (wss_big_index i mss ss))) sat rn (wss_big_index i mss ss)) as [[id rest]| |] eqn:EW; cbn [bind]; try discriminate.
  2:{ intros H; inversion H; subst. left. eapply walk_big_err; exact EW. }
  destruct (wss_extend rest).
  - destruct (make_free ss rest sat) as [fl sat1]. destruct (extend_from sat1 id fl) as [[sat2 id2]| |] eqn:EE; cbn [bind]; try discriminate.
    + match goal with |- (if ?c then _ else _) = _ -> _ => destruct c end; [intros H; inversion H; right; reflexivity | discriminate].
    + exfalso. exact (extend_from_err _ _ _ _ EE).
  - cbn [bind]. match goal with |- (if ?c then _ else _) = _ -> _ => destruct c end; [intros H; inversion H; right; reflexivity | discriminate].
Qed.
Lemma write_short_sectors_err ss mss fl : forall st e, write_short_sectors ss mss st fl = Err e -> e = 1 \/ e = E_NEGATIVE_OFFSET.
Proof.
  induction fl as [|i r IH]; intros st e; cbn [write_short_sectors]; [discriminate|].
  destruct (write_short_sector ss mss st i) as [st'| |] eqn:E1; cbn [bind]; try discriminate.
  - apply IH.
  - intros H; inversion H; subst. eapply write_short_sector_err; exact E1.
Qed.
Lemma add_stream_err len st e : add_stream len st = Err e -> e <> E_STORAGE.
Proof.
  unfold add_stream. destruct (add_is_short len (d_cutoff st)).
  - destruct (negb (ent_in_range (d_files st) (d_root st))); [discriminate|]. unfold add_stream_short.
    destruct (make_free (d_ss st) (stream_need_short len (d_mss st)) (d_ssat st)) as [fl ssat1].
    destruct (write_short_sectors (d_ss st) (d_mss st) (d_sat st, f_start (get_ent (d_files st) (d_root st)), f_size (get_ent (d_files st) (d_root st))) fl)
      as [[[sat2 x] size2]| |] eqn:EW; cbn [bind]; try discriminate.
    + destruct fl; cbn [bind]; discriminate.
    + intros H; inversion H; subst. destruct (write_short_sectors_err _ _ _ _ _ EW) as [->| ->]; unfold E_STORAGE, E_NEGATIVE_OFFSET; lia.
  - unfold add_stream_long. destruct (make_free (d_ss st) (stream_need_long len (d_ss st)) (d_sat st)) as [fl sat1]. destruct fl; cbn [bind]; discriminate.
Qed.
Lemma add_file_storage_err name len st : wf st -> add_file name len st = Err E_STORAGE ->
  exists i, In i (d_root_files st) /\ matches (probe_of name) (d_files st) i = true /\ delete_refuses (f_type (get_ent (d_files st) i)) = true.
Proof.
  intros W. unfold add_file. destruct (delete_file_raw name st) as [code st1] eqn:ED.
  unfold addfile_delete_err_returned. cbn [orb]. rewrite andb_true_r.
  destruct (code =? 0) eqn:Ec; cbn [negb].
  - destruct (add_stream len st1) as [[first st2]| |] eqn:ES; cbn [bind]; try discriminate.
    + destruct (new_dirent name len first) as [de| |] eqn:EN; cbn [bind]; try discriminate.
      * destruct (append_dirent (d_ss st2) de (d_files st2)) as [[idx fs]| |] eqn:EA; cbn [bind]; try discriminate.
        unfold append_dirent in EA. destruct (append_extends (first_free 0 (d_files st2))); [destruct (append_grow (d_ss st2) <=? 0)|]; discriminate.
      * unfold new_dirent in EN. destruct (newde_too_long (zlen (name_units name newde_terminated))); [|discriminate].
        inversion EN; subst. intros H; inversion H.
    + intros H; inversion H; subst. exfalso. exact (add_stream_err _ _ _ ES eq_refl).
  - apply Z.eqb_neq in Ec. unfold as_result. replace (code =? 0) with false by lia. destruct (code <? 0); [discriminate|].
    intros H; inversion H; subst. destruct (delete_raw_err _ _ _ _ W ED Ec) as [_ Hx]. exact Hx.
Qed.

Lemma sig_names_ascii_upper : ascii_name msi_sig_name = true /\ ascii_name msi_sigex_name = true.
Proof. split; vm_compute; reflexivity. Qed.

(* if the plan of InsertMSISignature runs into the storage refusal, a child of the root that is not a stream carried one of the two
   names in the state the call started from *)
Lemma body_storage_err pk ex st : wf st -> insert_sig_body pk ex st = Err E_STORAGE ->
  exists i, In i (d_root_files st) /\ (matches p_ex (d_files st) i = true \/ matches p_sig (d_files st) i = true) /\
            delete_refuses (f_type (get_ent (d_files st) i)) = true.
Proof.
  intros W. unfold insert_sig_body, insert_plan.
  assert (Second : forall s1, wf s1 -> add_file msi_sig_name pk s1 = Err E_STORAGE ->
            (forall i, In i (d_root_files s1) -> (In i (d_root_files st) /\ get_ent (d_files s1) i = get_ent (d_files st) i) \/
                                               f_type (get_ent (d_files s1) i) = dir_stream) ->
            exists i, In i (d_root_files st) /\ (matches p_ex (d_files st) i = true \/ matches p_sig (d_files st) i = true) /\
                      delete_refuses (f_type (get_ent (d_files st) i)) = true).
  { intros s1 W1 E2 Hfrom. destruct (add_file_storage_err _ _ _ W1 E2) as (i & Hi & Mi & Ri). fold p_sig in Mi.
    destruct (Hfrom i Hi) as [[Hi0 He]|Ht].
    - exists i. unfold matches in *. rewrite He in Mi, Ri. split; [exact Hi0|]. split; [right; exact Mi | exact Ri].
    - rewrite Ht in Ri. discriminate Ri. }
  destruct (insert_has_exsig ex).
  - unfold insert_plan_then, insert_plan_tail. cbn [app run_plan run_step Z.eqb plan_name].
    destruct (add_file msi_sigex_name ex st) as [s1| |] eqn:E1; cbn [bind]; try discriminate.
    + destruct (add_file msi_sig_name pk s1) as [s2| |] eqn:E2; cbn [bind]; try discriminate.
      intros H; inversion H; subst.
      destruct (add_file_spec _ _ _ _ W E1) as (iex & _ & RF1 & _ & _ & _ & _ & T1 & _ & Keep1 & _ & _ & W1).
      apply (Second s1 W1 E2). intros i Hi. rewrite RF1 in Hi. apply in_app_or in Hi as [Hi|[<-|[]]]; [left | right; exact T1].
      split; [unfold kept_of in Hi; apply filter_In in Hi; tauto | apply Keep1; exact Hi].
    + intros H; inversion H; subst. destruct (add_file_storage_err _ _ _ W E1) as (i & Hi & Mi & Ri). fold p_ex in Mi.
      exists i. split; [exact Hi|]. split; [left; exact Mi | exact Ri].
  - unfold insert_plan_else, insert_plan_tail. cbn [app run_plan run_step Z.eqb plan_name].
    destruct (delete_file msi_sigex_name st) as [s1| |] eqn:E1; cbn [bind]; try discriminate.
    + destruct (add_file msi_sig_name pk s1) as [s2| |] eqn:E2; cbn [bind]; try discriminate.
      intros H; inversion H; subst. apply delete_file_ok in E1. pose proof (delete_raw_wf _ _ _ W E1) as W1.
      destruct (delete_raw_spec _ _ _ W E1) as (_ & Hyes & _). destruct (Hyes (proj2 sig_names_fit)) as (RF1 & _ & Same1 & _).
      apply (Second s1 W1 E2). intros i Hi. left. rewrite RF1 in Hi. apply filter_In in Hi as [Hi Hm]. apply negb_true_iff in Hm.
      split; [exact Hi|]. apply Same1; [|right; exact Hm]. pose proof (wf_range _ W) as R. rewrite Forall_forall in R. specialize (R i Hi). lia.
    + intros H; inversion H; subst. unfold delete_file, as_result in E1. destruct (delete_file_raw msi_sigex_name st) as [code s] eqn:ED.
      destruct (code =? 0) eqn:Ec; [discriminate|]. destruct (code <? 0); [discriminate|]. inversion E1; subst. apply Z.eqb_neq in Ec.
      destruct (delete_raw_err _ _ _ _ W ED Ec) as (_ & i & Hi & Mi & Ri). fold p_ex in Mi. exists i. split; [exact Hi|]. split; [left; exact Mi | exact Ri].
Qed.

(* When ListDir sees every child of the root (true for a document as opened: readDir fills rootFiles from ListDir(nil)), the storage
   refusal of InsertMSISignature can only be the one of the pre-check, i.e. it happens before anything was changed: once the pre-check
   has passed, no AddFile / DeleteFile of the plan stops half-way on a storage *)
Lemma no_late_storage_refusal pk ex st l : wf st -> list_root st = Ok l -> (forall i, In i (d_root_files st) -> In i l) ->
  precheck st = Ok tt -> insert_sig pk ex st <> Err E_STORAGE.
Proof.
  intros W Hl Hcov Hp H. unfold insert_sig in H. rewrite Hp in H. cbn [bind] in H.
  destruct (body_storage_err _ _ _ W H) as (i & Hi & Hm & Href).
  unfold precheck, insert_precheck in Hp. cbn [negb] in Hp. rewrite Hl in Hp. cbn [bind] in Hp.
  replace (existsb (sig_slot_blocked (d_files st)) l) with true in Hp; [discriminate|].
  symmetry. apply existsb_exists. exists i. split; [apply Hcov; exact Hi|].
  unfold sig_slot_blocked, insert_refuses. unfold delete_refuses in Href. rewrite Href. cbn [andb].
  pose proof (wf_names _ W) as Nm. rewrite Forall_forall in Nm. pose proof (wf_used _ W) as Us. rewrite Forall_forall in Us.
  assert (Ht : f_type (get_ent (d_files st) i) <> dir_empty) by (specialize (Us i Hi); unfold append_slot_free, dir_empty in *; lia).
  unfold is_sig_name, is_sig_name_def. destruct Hm as [Hm|Hm].
  - rewrite (ent_same_same_name _ msi_sigex_name (proj2 sig_names_ascii_upper) (proj2 sig_names_fit) (Nm i Hi) Ht Hm). apply orb_true_r.
  - rewrite (ent_same_same_name _ msi_sig_name (proj1 sig_names_ascii_upper) (proj1 sig_names_fit) (Nm i Hi) Ht Hm). reflexivity.
Qed.
